/-
  The protocol against a dense interpreter (helper lemmas for the driver-level part of
  Props/C01):

  * `slicePix`: the pixel list of `a:b:s` (Python `range(a, b, s)`), `getReq` / `opGet_eq`:
    what the read line answers, from the looked-up map's dense view alone;
  * `…_not_ok`: an in-place call answering anything but `ok` stores nothing;
  * `DenseMap`, `dUpdate`, `dRanges`: `update_values_pix` (pixel and range form) on a dense
    array, validation included; `Corr`: a map object and a dense map agree; the API functions
    respect `Corr` (`apiUpdate_corr`, `apiRanges_corr`, `apiMakeEmpty_corr`);
  * `WReq`, `writeReq`: the write lines `upd` / `updr` / `set` as requests; `dstep`: the dense
    interpreter of `cfg` / `upd` / `updr` / `set` / `get` / `vals`; `Rel`: a world and a dense
    world agree; `rel_step`: one plain line keeps them in agreement and is answered alike.
-/
import HealSparse.Lemmas.ApiRanges
namespace HS
namespace ApiDense

open ApiRanges WFApi

/-! ### slices -/

/-- the pixels of the slice `lo:hi:st` (`st > 0`): Python's `range(lo, hi, st)` -/
def slicePix (lo hi st : Nat) : List Nat :=
  (List.range ((hi - lo + st - 1) / st)).map fun i => lo + i * st

theorem length_slicePix (lo hi st : Nat) : (slicePix lo hi st).length = (hi - lo + st - 1) / st := by
  simp [slicePix]

theorem getElem?_slicePix (lo hi st i : Nat) (hi' : i < (hi - lo + st - 1) / st) :
    (slicePix lo hi st)[i]? = some (lo + i * st) := by
  simp [slicePix, List.getElem?_map, List.getElem?_range hi']

/-- membership: the pixels `lo, lo + st, lo + 2 st, …` below `hi` (none when `hi ≤ lo`) -/
theorem mem_slicePix {lo hi st : Nat} (hst : 0 < st) (p : Nat) :
    p ∈ slicePix lo hi st ↔ lo ≤ p ∧ p < hi ∧ (p - lo) % st = 0 := by
  unfold slicePix
  rw [List.mem_map]
  constructor
  · rintro ⟨i, hi', rfl⟩
    rw [List.mem_range, Nat.lt_div_iff_mul_lt hst] at hi'
    refine ⟨Nat.le_add_right _ _, by omega, ?_⟩
    rw [Nat.add_sub_cancel_left, Nat.mul_mod_left]
  · rintro ⟨h1, h2, h3⟩
    refine ⟨(p - lo) / st, ?_, ?_⟩
    · rw [List.mem_range, Nat.lt_div_iff_mul_lt hst]
      have := Nat.div_add_mod (p - lo) st
      rw [h3, Nat.mul_comm] at this
      omega
    · have := Nat.div_add_mod (p - lo) st
      rw [h3, Nat.mul_comm] at this
      omega

theorem slicePix_empty {lo hi st : Nat} (hst : 0 < st) (h : hi ≤ lo) : slicePix lo hi st = [] := by
  apply List.eq_nil_iff_forall_not_mem.2
  intro p hp
  have := (mem_slicePix hst p).1 hp
  omega

/-! ### the read lines -/

/-- the pixels a `get` line addresses, from the line and the map's order alone: `slice=a:b:s`
    or `pix=…`, optionally given at a finer order `nsord=` (then shifted to the map's order).
    `none` = malformed line, `some none` = `nsord` coarser than the map (ValueError).  Every
    other key of the line (`path=getitem_arr|getitem_list|getitem_int`, `ring=`, `lon=`/`lat=`:
    the access path the REAL side takes) is ignored: the model has one reading of a pixel. -/
def getReq (a : Args) (spord : Nat) : Option (Option (List Nat)) :=
  let pix? : Option (List Nat) :=
    match a.get? "slice" with
    | some sl =>
      match (sl.splitOn ":").map String.toNat? with
      | [some lo, some hi, some st] => if st == 0 then none else some (slicePix lo hi st)
      | _ => none
    | none => parseNats (a.getD "pix" "_")
  match a.nat? "nsord" with
  | none => pix?.map some
  | some o => if o < spord then some none else pix?.map fun l => some (l.map (· >>> (2 * (o - spord))))

/-- the answer of a `get` line on a dense array `f` of `npix` cells with validity test `valid` -/
def getAnswer (a : Args) (spord npix : Nat) (f : Nat → Val) (valid : Val → Bool) : String :=
  match getReq a spord with
  | none => "bad-op:pix"
  | some none => errLine .value
  | some (some l) =>
    if l.any (· ≥ npix) then errLine .index
    else if a.flag "vm" then showBits (l.map fun p => valid (f p)) else showVals (l.map f)

/-- **`get` answers from the dense view alone**, whatever the access path named on the line,
    and returns the world it was given -/
theorem opGet_eq (w : World) (a : Args) :
    opGet w a = withMap w a fun m => (w, getAnswer a m.spord m.npix m.abs m.vc.valid) := by
  have h0 : opGet w a = withMap w a fun m =>
      match getReq a m.spord with
      | none => (w, "bad-op:pix")
      | some none => (w, errLine .value)
      | some (some pix) => match apiGet m pix with
        | .ok vs => if a.flag "vm" then (w, showBits (vs.map m.vc.valid)) else (w, showVals vs)
        | .error e => (w, errLine e) := rfl
  rw [h0]
  congr 1
  funext m
  unfold getAnswer apiGet
  cases getReq a m.spord with
  | none => rfl
  | some o =>
    cases o with
    | none => rfl
    | some l =>
      simp only []
      by_cases hb : (l.any fun x => decide (x ≥ m.npix)) = true
      · simp only [hb, if_true]
      · simp only [hb, Bool.false_eq_true, if_false, List.map_map]
        split <;> rfl

theorem opVals_eq (w : World) (a : Args) :
    opVals w a = withMap w a fun m => (w, showVals ((List.range m.npix).map m.abs)) := rfl

theorem withMap_world {w : World} {a : Args} {k : MapObj → World × String}
    (h : ∀ m, (k m).1 = w) : (withMap w a k).1 = w :=
  withMap_elim (P := fun r => r.1 = w) (fun _ => rfl) fun _ m _ _ => h m

/-- the read lines never change the world -/
theorem opGet_world (w : World) (a : Args) : (opGet w a).1 = w := by
  rw [opGet_eq]; exact withMap_world fun _ => rfl

theorem opVals_world (w : World) (a : Args) : (opVals w a).1 = w :=
  withMap_world fun _ => rfl

/-! ### in-place calls that do not answer `ok` store nothing

The API functions of the model are pure: a call either returns a new object or an error, so no
call can fail after a partial write.  What the DRIVER does on an error is at most to store the
looked-up map back with its `n_valid` cache reset. -/

set_option hygiene false in
/-- walk an operation of the driver; the leaves are: world unchanged / the looked-up map stored
    back with its cache reset / an `ok` answer -/
macro "not_ok_tac" : tactic => `(tactic|
  (repeat' (first | exact fun _ _ => rfl | split | simp only [])
   all_goals first
     | exact fun _ x => get?_put_cache hw hget x
     | exact fun h => absurd rfl h
     | (intro _; exfalso; simp_all; done)))

theorem opSet_not_ok {w : World} (hw : w.Good) (a : Args) (hne : (opSet w a).2 ≠ "ok") :
    SameMaps (opSet w a).1 w := by
  revert hne
  unfold opSet
  refine withMap_elim (P := fun r => r.2 ≠ "ok" → SameMaps r.1 w) (fun s _ x => rfl)
    fun n m hn hget => ?_
  simp only [hn]
  not_ok_tac

theorem opMask_not_ok (w : World) (a : Args) (hne : (opMask w a).2 ≠ "ok") : (opMask w a).1 = w := by
  revert hne
  unfold opMask
  refine withMap_elim (P := fun r => r.2 ≠ "ok" → r.1 = w) (fun s _ => rfl) fun n m hn hget => ?_
  simp only []
  repeat' (first | exact fun _ => rfl | split | simp only [])
  all_goals exact fun h => absurd rfl h

theorem opBop_not_ok {w : World} (hw : w.Good) (a : Args) (hne : (opBop w a).2 ≠ "ok") :
    SameMaps (opBop w a).1 w := by
  revert hne
  unfold opBop
  refine withMap_elim (P := fun r => r.2 ≠ "ok" → SameMaps r.1 w) (fun s _ x => rfl)
    fun n m hn hget => ?_
  simp only [hn]
  not_ok_tac

theorem opInv_not_ok (w : World) (a : Args) (hne : (opInv w a).2 ≠ "ok") : (opInv w a).1 = w := by
  revert hne
  unfold opInv
  refine withMap_elim (P := fun r => r.2 ≠ "ok" → r.1 = w) (fun s _ => rfl) fun n m hn hget => ?_
  simp only []
  repeat' (first | exact fun _ => rfl | split | simp only [])
  all_goals exact fun h => absurd rfl h

theorem opGeom_not_ok {w : World} (hw : w.Good) (a : Args) (hne : (opGeom w a).2 ≠ "ok") :
    SameMaps (opGeom w a).1 w := by
  revert hne
  unfold opGeom
  refine withMap_elim (P := fun r => r.2 ≠ "ok" → SameMaps r.1 w) (fun s _ x => rfl)
    fun n m hn hget => ?_
  simp only [hn]
  not_ok_tac

/-! ### dense maps and `update_values_pix` on them -/

/-- a dense HEALPix array with the header of a map: the configuration, the cell kind, the
    sentinel, and one value per pixel -/
structure DenseMap where
  covord : Nat
  spord : Nat
  kind : Kind
  sent : Val
  f : Nat → Val

/-- the header as a map object without storage (for the functions of the API that look at the
    kind and the sentinel only) -/
def DenseMap.hdr (d : DenseMap) : MapObj :=
  { covord := d.covord, spord := d.spord, kind := d.kind, sent := d.sent, st := ⟨#[], #[]⟩ }

def DenseMap.npix (d : DenseMap) : Nat := d.hdr.npix
def DenseMap.blank (d : DenseMap) : Val := d.kind.blank d.sent

/-- the dense array after `update_values_pix`: at every pixel, the pre-pass of `add` over a
    non-zero sentinel (unset counts as 0) once per occurrence of the pixel, then the operation
    with the pixel's values in call order, once per occurrence -/
def dNew (d : DenseMap) (op : String) (pix : List Nat) (vals : Option (List Val)) (single : Bool) :
    Nat → Val := fun p =>
  denseFold (stageOp ((cellOp d.hdr op).1.getD id) (cellOp d.hdr op).2)
    (stageList (cellOp d.hdr op).1.isSome (updPv d.hdr pix vals single)) p (d.f p)

/-- every cell of the dense array (and the blank) representable in the map's float precision -/
def dFit (d : DenseMap) (g : Nat → Val) : Bool :=
  fitCell d.kind d.blank && (List.range d.npix).all fun p => fitCell d.kind (g p)

/-- `update_values_pix` on a dense array: the validation chain of the library in source order
    (from the header, the arguments and — for the float-exactness marker — the result), then
    the dense update -/
def dUpdate (d : DenseMap) (op : String) (pix : List Nat) (vals : Option (List Val))
    (single : Bool) (rawUnique : Option Bool) : Except Err DenseMap :=
  let vs := vals.getD [clearValue d.hdr]
  let sg := vals.isNone || single || vs.length == 1
  match frontErr d.hdr op vals.isNone with
  | some e => .error e
  | none =>
    if pix.isEmpty then .ok d
    else if !(vs.all (valMatchesKind d.kind)) then .error .value
    else if op == "replace" &&
        (match rawUnique with | some ok => !ok | none => decide (pix.eraseDups.length < pix.length))
      then .error .value
    else if !sg && vs.length != pix.length then .error .value
    else if pix.any (· ≥ d.npix) then .error .index
    else if op == "add" && !dFit d (dNew d op pix vals single) then .error .inexact
    else .ok { d with f := dNew d op pix vals single }

/-- a map object that owns its storage and a dense map agree: well formed, same header, same
    value at every pixel -/
structure Corr (m : MapObj) (d : DenseMap) : Prop where
  wf : m.WF
  view : m.view = none
  covord : m.covord = d.covord
  spord : m.spord = d.spord
  kind : m.kind = d.kind
  sent : m.sent = d.sent
  abs : ∀ p, p < m.npix → m.abs p = d.f p

section hdr
variable {m : MapObj} {d : DenseMap}

theorem Corr.hdr_facts (h : Corr m d) :
    (∀ op c, frontErr m op c = frontErr d.hdr op c) ∧ (∀ op, cellOp m op = cellOp d.hdr op) ∧
    clearValue m = clearValue d.hdr ∧
    (∀ pix vals single, updPv m pix vals single = updPv d.hdr pix vals single) ∧
    m.npix = d.npix ∧ m.c = d.hdr.c ∧ m.vc.sentinel = d.blank := by
  obtain ⟨_, _, h1, h2, h3, h4, _⟩ := h
  obtain ⟨co, so, k, se, st, ca, vi⟩ := m
  obtain ⟨co', so', k', se', f⟩ := d
  simp only at h1 h2 h3 h4
  subst h1 h2 h3 h4
  exact ⟨fun _ _ => rfl, fun _ => rfl, rfl, fun _ _ _ => rfl, rfl, rfl, rfl⟩

end hdr

theorem clear_fold (pix : List Nat) (v : Val) (p : Nat) (x : Val) :
    denseFold (stageOp id (fun _ (w : Val) => w))
        ((pix.map fun q => (q, v)).map fun pw => (pw.1, some pw.2)) p x
      = if p ∈ pix then v else x := by
  rw [← denseFold_clear pix v p x, List.map_map]
  exact denseFold_map_congr (stageOp id fun _ (w : Val) => w) (fun _ (w : Val) => w) pix
    ((fun pw => (pw.1, some pw.2)) ∘ fun q => (q, v)) (fun q => (q, v))
    (fun _ _ => rfl) (fun _ _ _ => rfl) p x

theorem frontErr_clear {m : MapObj} {op : String} (h : frontErr m op true = none) : op = "replace" := by
  unfold frontErr at h
  by_cases h1 : (op != "replace") = true
  · simp [h1] at h
  · simpa using h1

/-- the exactness verdict from the dense view -/
theorem floatCellsFit_dense {m : MapObj} {st : State Val} (hinv : Inv m.c m.vc st) :
    floatCellsFit m.kind st.sp
      = (fitCell m.kind m.vc.sentinel &&
          (List.range m.npix).all fun p => fitCell m.kind (abs m.c m.vc st p)) := by
  rw [floatCellsFit_eq, Bool.eq_iff_iff, all_cells hinv, Bool.and_eq_true, List.all_eq_true]
  constructor
  · rintro ⟨h0, hp⟩; exact ⟨h0, fun p hp' => hp p (List.mem_range.1 hp')⟩
  · rintro ⟨h0, hp⟩; exact ⟨h0, fun p hp' => hp p (List.mem_range.2 hp')⟩

/-- the storage of a passed `update_values_pix` against the dense update -/
theorem updSt_dense {m : MapObj} {d : DenseMap} (hc : Corr m d) {op : String} {pix : List Nat}
    {vals : Option (List Val)} {single : Bool} (hfe : frontErr m op vals.isNone = none)
    (hlt : ∀ q ∈ pix, q < m.npix) :
    Inv m.c m.vc (updSt m op pix vals single) ∧
    ∀ p, p < m.npix → abs m.c m.vc (updSt m op pix vals single) p = dNew d op pix vals single p := by
  obtain ⟨_, hco, _, hpv, _, _, _⟩ := hc.hdr_facts
  have hpvlt : ∀ qw ∈ updPv m pix vals single, qw.1 < m.c.npix :=
    fun qw hq => hlt _ (updPv_fst_mem hq)
  refine ⟨inv_updatePix m.c m.vc m.st _ _ _ _ hc.wf.2 hpvlt, fun p hp => ?_⟩
  unfold updSt dNew
  rw [updatePix_refines m.c m.vc m.st _ _ _ _ hc.wf.2 hpvlt p hp, ← hco, ← hpv, ← hc.abs p hp]
  unfold denseUpdate
  split
  · rename_i hna
    rw [Bool.and_eq_true] at hna
    have hn : vals = none := by
      cases vals with
      | none => rfl
      | some v => simp at hna
    subst hn
    have hop := frontErr_clear hfe
    subst hop
    have hunc : covered m.c m.st (p >>> m.c.shift) = false := by simpa using hna.2
    have hb : abs m.c m.vc m.st p = m.vc.sentinel := hc.wf.2.abs_uncovered hp hunc
    show _ = denseFold (stageOp id (fun _ (w : Val) => w))
      ((pix.map fun q => (q, clearValue m)).map fun pw => (pw.1, some pw.2)) p (m.abs p)
    rw [clear_fold]
    split
    · exact hb
    · rfl
  · rfl

/-- two outcomes agree: both raise the same error, or both succeed with agreeing maps -/
def OutRel (r : Except Err MapObj) (r' : Except Err DenseMap) : Prop :=
  match r, r' with
  | .ok m', .ok d' => Corr m' d'
  | .error e, .error e' => e = e'
  | _, _ => False

theorem Corr.cache {m : MapObj} {d : DenseMap} (h : Corr m d) (x : Option Nat) :
    Corr { m with cache := x } d :=
  ⟨h.wf, h.view, h.covord, h.spord, h.kind, h.sent, h.abs⟩

theorem all_range_congr {n : Nat} {P Q : Nat → Bool} (h : ∀ p, p < n → P p = Q p) :
    (List.range n).all P = (List.range n).all Q := by
  rw [Bool.eq_iff_iff, List.all_eq_true, List.all_eq_true]
  constructor
  · intro hp p hm; rw [← h p (List.mem_range.1 hm)]; exact hp p hm
  · intro hp p hm; rw [h p (List.mem_range.1 hm)]; exact hp p hm

/-- **`update_values_pix` on the map and on the dense array agree**: the same error, or
    results that agree again — for every operation, pixel list (repeats included), value form
    and uniqueness verdict -/
theorem apiUpdate_corr {m : MapObj} {d : DenseMap} (hc : Corr m d) (op : String) (pix : List Nat)
    (vals : Option (List Val)) (single : Bool) (ru : Option Bool) :
    OutRel (apiUpdate m op pix vals single ru) (dUpdate d op pix vals single ru) := by
  obtain ⟨co, so, k, se, st, ca, vi⟩ := m
  obtain ⟨co', so', k', se', f⟩ := d
  have h1 := hc.covord
  have h2 := hc.spord
  have h3 := hc.kind
  have h4 := hc.sent
  have h5 := hc.view
  simp only at h1 h2 h3 h4 h5
  subst h1 h2 h3 h4 h5
  obtain ⟨hfr, _, hcl, _, hnp, _, hbl⟩ := hc.hdr_facts
  rw [apiUpdate_eq]
  unfold apiUpdateSpec dUpdate
  simp only [hfr, hcl, hnp]
  cases hfe : frontErr (DenseMap.hdr ⟨co, so, k, se, f⟩) op vals.isNone with
  | some e => exact rfl
  | none =>
    have hfe' := hfe
    rw [← hfr] at hfe'
    simp only []
    by_cases c1 : pix.isEmpty = true
    · rw [if_pos c1, if_pos c1]
      exact hc.cache none
    · rw [if_neg c1, if_neg c1]
      by_cases c2 : (!(vals.getD [clearValue (DenseMap.hdr ⟨co, so, k, se, f⟩)]).all
          (valMatchesKind k)) = true
      · rw [if_pos c2, if_pos c2]; exact rfl
      · rw [if_neg c2, if_neg c2]
        have step3 : ∀ (b : Bool) (A : Except Err MapObj) (A' : Except Err DenseMap),
            OutRel A A' →
            OutRel (if (op == "replace" && b) = true then .error .value else A)
              (if (op == "replace" && b) = true then .error .value else A') := by
          intro b A A' h
          by_cases c3 : (op == "replace" && b) = true
          · rw [if_pos c3, if_pos c3]; exact rfl
          · rw [if_neg c3, if_neg c3]; exact h
        cases ru <;> refine step3 _ _ _ ?_
        all_goals
          split
          · exact rfl
          · split
            · exact rfl
            · rename_i c5
              have hlt : ∀ q ∈ pix, q < MapObj.npix ⟨co, so, k, se, st, ca, none⟩ := by
                rw [hnp]; exact lt_of_not_any_ge c5
              obtain ⟨hinv, habs⟩ := updSt_dense (single := single) hc hfe' hlt
              have hfit : floatCellsFit k
                    (updSt ⟨co, so, k, se, st, ca, none⟩ op pix vals single).sp
                  = dFit ⟨co, so, k, se, f⟩ (dNew ⟨co, so, k, se, f⟩ op pix vals single) := by
                have := floatCellsFit_dense hinv
                simp only at this
                rw [this, hbl]
                unfold dFit
                rw [hnp]
                congr 1
                apply all_range_congr
                intro p hp
                rw [habs p (by rw [hnp]; exact hp)]
              simp only [Option.isSome_none, Bool.false_and, Bool.false_eq_true, if_false, hfit]
              split
              · exact rfl
              · exact ⟨⟨hc.wf.1, hinv⟩, rfl, rfl, rfl, rfl, rfl, habs⟩

/-! ### the range form on a dense array -/

/-- `update_values_pix` with pixel ranges on a dense array: the validation chain of the path
    taken (they differ on irregular input, see Props/C08), then — on either path — the dense
    update of the pixels the ranges hold, once per occurrence -/
def dRanges (d : DenseMap) (op : String) (R : List (Nat × Nat)) (val : Option Val)
    (slicePath : Bool) : Except Err DenseMap :=
  if !slicePath then
    if R.isEmpty then dUpdate d op [] (val.map fun v => [v]) true none
    else if R.any (fun ab => ab.2 > d.npix) then
      (match dUpdate d op [0] (val.map fun v => [v]) true (some (rawOk R)) with
       | .ok _ => .error .index
       | .error e => .error e)
    else dUpdate d op (expand R) (val.map fun v => [v]) true (some (rawOk R))
  else
    match frontErr d.hdr op val.isNone with
    | some e => .error e
    | none =>
      if R.isEmpty then .ok d
      else if !(valMatchesKind d.kind (rangesW d.hdr val)) then .error .value
      else if op == "replace" && !rawOk R then .error .value
      else if (liveRows R).any (fun ab => ab.2 > d.npix || ab.1 > ab.2) then .error .index
      else if op == "add" && !dFit d (dNew d op (expand R) (val.map fun v => [v]) true)
        then .error .inexact
      else .ok { d with f := dNew d op (expand R) (val.map fun v => [v]) true }

theorem liveRows_idem (R : List (Nat × Nat)) : liveRows (liveRows R) = liveRows R := by
  unfold liveRows
  rw [List.filter_filter]
  simp

/-- the slice path's storage against the dense update of the expanded pixels -/
theorem sliceSt_dense {m : MapObj} {d : DenseMap} (hc : Corr m d) {op : String}
    {R : List (Nat × Nat)} {val : Option Val} (hfe : frontErr m op val.isNone = none)
    (hR : ∀ ab ∈ liveRows R, ab.1 ≤ ab.2 ∧ ab.2 ≤ m.npix) :
    Inv m.c m.vc (sliceSt m op R val) ∧
    ∀ p, p < m.npix → abs m.c m.vc (sliceSt m op R val) p
      = dNew d op (expand R) (val.map fun v => [v]) true p := by
  refine ⟨(sliceSt_spec hc.wf hR).1, fun p hp => ?_⟩
  have e1 : sliceSt m op R val = sliceSt m op (liveRows R) val := by
    unfold sliceSt; rw [liveRows_idem]
  have hR2 : ∀ ab ∈ liveRows (liveRows R), ab.1 ≤ ab.2 ∧ ab.2 ≤ m.npix := by
    rw [liveRows_idem]; exact hR
  have e2 : expandSt m op (liveRows R) val = updSt m op (expand R) (val.map fun v => [v]) true := by
    unfold expandSt; rw [expand_liveRows, updSt_ranges]
  have hfe' : frontErr m op (val.map fun v => [v]).isNone = none := by
    rw [← hfe]; cases val <;> rfl
  have hlt : ∀ q ∈ expand R, q < m.npix := by
    rw [← expand_liveRows]; exact expand_lt fun ab hab => (hR ab hab).2
  rw [e1, slice_expand_abs hc.wf hR p hp, e2]
  exact (updSt_dense hc hfe' hlt).2 p hp

theorem apiUpdateSpec_corr {m : MapObj} {d : DenseMap} (hc : Corr m d) (op : String) (pix : List Nat)
    (vals : Option (List Val)) (single : Bool) (ru : Option Bool) :
    OutRel (apiUpdateSpec m op pix vals single ru) (dUpdate d op pix vals single ru) := by
  rw [← apiUpdate_eq]; exact apiUpdate_corr hc op pix vals single ru

/-- **the range form on the map and on the dense array agree**, on either path -/
theorem apiRanges_corr {m : MapObj} {d : DenseMap} (hc : Corr m d) (op : String)
    (R : List (Nat × Nat)) (val : Option Val) (sl : Bool) :
    OutRel (apiUpdateRanges m op R val sl) (dRanges d op R val sl) := by
  obtain ⟨hfr, _, hcl, _, hnp, _, hbl⟩ := hc.hdr_facts
  cases sl with
  | false =>
    rw [apiUpdateRanges_expand_eq]
    unfold dRanges
    simp only [Bool.not_false, if_true, hnp]
    split
    · exact apiUpdateSpec_corr hc ..
    · split
      · have := apiUpdateSpec_corr hc op [0] (val.map fun v => [v]) true (some (rawOk R))
        revert this
        cases apiUpdateSpec m op [0] (val.map fun v => [v]) true (some (rawOk R)) <;>
          cases dUpdate d op [0] (val.map fun v => [v]) true (some (rawOk R)) <;>
          intro h <;> first | exact h | exact rfl | exact h.elim
      · exact apiUpdateSpec_corr hc ..
  | true =>
    rw [apiUpdateRanges_slice_eq m op R val hc.view]
    unfold apiRangesSliceSpec dRanges
    have hrw : rangesW m val = rangesW d.hdr val := by unfold rangesW; rw [hcl]
    simp only [Bool.not_true, Bool.false_eq_true, if_false, hfr, hnp, hrw]
    cases hfe : frontErr d.hdr op val.isNone with
    | some e => exact rfl
    | none =>
      have hfe' : frontErr m op val.isNone = none := by rw [hfr]; exact hfe
      simp only []
      by_cases c1 : R.isEmpty = true
      · rw [if_pos c1, if_pos c1]; exact hc.cache none
      · rw [if_neg c1, if_neg c1]
        by_cases c2 : (!valMatchesKind m.kind (rangesW d.hdr val)) = true
        · have c2' : (!valMatchesKind d.kind (rangesW d.hdr val)) = true := by rw [← hc.kind]; exact c2
          rw [if_pos c2, if_pos c2']; exact rfl
        · have c2' : ¬ (!valMatchesKind d.kind (rangesW d.hdr val)) = true := by
            rw [← hc.kind]; exact c2
          rw [if_neg c2, if_neg c2']
          by_cases c3 : (op == "replace" && !rawOk R) = true
          · rw [if_pos c3, if_pos c3]; exact rfl
          · rw [if_neg c3, if_neg c3]
            by_cases c4 : ((liveRows R).any fun ab => decide (ab.2 > d.npix) || decide (ab.1 > ab.2)) = true
            · rw [if_pos c4, if_pos c4]; exact rfl
            · rw [if_neg c4, if_neg c4]
              have hR : ∀ ab ∈ liveRows R, ab.1 ≤ ab.2 ∧ ab.2 ≤ m.npix := by
                rw [hnp]; exact ranges_ok_of_not_any c4
              obtain ⟨hinv, habs⟩ := sliceSt_dense hc hfe' hR
              have hfit : floatCellsFit m.kind (sliceSt m op R val).sp
                  = dFit d (dNew d op (expand R) (val.map fun v => [v]) true) := by
                rw [floatCellsFit_dense hinv, hbl]
                unfold dFit
                rw [hc.kind, hnp]
                congr 1
                apply all_range_congr
                intro p hp
                rw [habs p (by rw [hnp]; exact hp)]
              rw [hfit]
              by_cases c5 : (op == "add" &&
                  !dFit d (dNew d op (expand R) (val.map fun v => [v]) true)) = true
              · rw [if_pos c5, if_pos c5]; exact rfl
              · rw [if_neg c5, if_neg c5]
                exact ⟨⟨hc.wf.1, hinv⟩, hc.view, hc.covord, hc.spord, hc.kind, hc.sent, habs⟩

/-! ### `make_empty` -/

/-- the dense array of a freshly made map: the blank everywhere -/
def dEmpty (m : MapObj) : DenseMap :=
  ⟨m.covord, m.spord, m.kind, m.sent, fun _ => m.kind.blank m.sent⟩

theorem apiMakeEmpty_corr {co so : Nat} {kind : Kind} {sentinel : Option Val} {P : List Nat}
    {m : MapObj} (h : apiMakeEmpty co so kind sentinel P = .ok m) : Corr m (dEmpty m) := by
  have hwf := WF.apiMakeEmpty h
  obtain ⟨_, h1, h2, h3, h4, _, _, hv⟩ := apiMakeEmpty_ok h
  refine ⟨hwf, hv, rfl, rfl, rfl, rfl, fun p _ => ?_⟩
  show abs m.c m.vc m.st p = m.kind.blank m.sent
  have hc : m.c = cfgOf co so := by unfold MapObj.c; rw [h1, h2]
  have hvc : m.vc = ⟨kind.blank m.sent, kind.valid m.sent⟩ := by unfold MapObj.vc; rw [h3]
  rw [h4, hc, hvc, h3]
  exact makeEmpty_abs' _ _ _ p

/-! ### the write lines as requests -/

/-- what a write line asks of the looked-up map -/
inductive WReq where
  /-- malformed / refused before the library is called: answered `s`, the world is not touched -/
  | bad (s : String)
  /-- a values array of the wrong dtype: ValueError (the map is stored back, cache reset) -/
  | reject
  /-- `update_values_pix(pix, vals, operation=op)` -/
  | upd (op : String) (pix : List Nat) (vals : Option (List Val)) (single : Bool)
  /-- `update_values_pix(ranges, val, operation=op)` on the path named on the line -/
  | ranges (op : String) (R : List (Nat × Nat)) (val : Option Val) (sl : Bool)

/-- the request of an `upd` line: `pix=` with `val=` (one value, broadcast) / `vals=` (one per
    pixel) / `none=1` (`None`), `op=`; every other key (`via=setitem_arr|setitem_list|
    setitem_int`, `ring=`, `lon=`/`lat=`: the path the REAL side takes) is ignored -/
def updReq (a : Args) (kind : Kind) (sent : Val) : WReq :=
  match parseNats (a.getD "pix" "_") with
  | none => .bad "bad-op:pix"
  | some pix =>
    let r : Option (Option (List Val) × Bool) :=
      if a.flag "none" then some (none, true)
      else match a.get? "val", a.get? "vals" with
        | some v, _ => (parseVal v).map fun v => (some [v], true)
        | none, some vs => (parseVals vs).map fun vs => (some vs, false)
        | none, none => none
    match r with
    | none => .bad "bad-op:val"
    | some (vals, single) =>
      let mistyped := match a.get? "vdtype", kind with
        | some t, .plain dt => t != dtCode dt
        | some t, .packed => t != "b1"
        | some _, _ => true
        | none, _ => false
      if mistyped && !pix.isEmpty && !(a.getD "op" "replace" != "replace" && kind.isBool == false &&
          (a.getD "op" "" == "or" || a.getD "op" "" == "and") && !(kind.isIntegerMap && sent.isZero)) then
        .reject
      else .upd (a.getD "op" "replace") pix vals single

/-- the request of an `updr` line -/
def updrReq (a : Args) : WReq :=
  match parseRanges (a.getD "ranges" "_") with
  | none => .bad "bad-op:ranges"
  | some R =>
    let v? : Option (Option Val) :=
      if a.flag "none" then some none else ((a.get? "val").bind parseVal).map some
    match v? with
    | none => .bad "bad-op:val"
    | some v =>
      let total : Nat := R.foldl (fun acc ab => acc + (ab.2 - ab.1)) 0
      let slicePath := match a.nat? "thr" with
        | some t => decide (total > t)
        | none => a.getD "path" "slice" == "slice"
      .ranges (a.getD "op" "replace") R v slicePath

/-- the request of a `set` line (`m[a:b:s] = value`) -/
def setReq (a : Args) : WReq :=
  match ((a.getD "slice" "").splitOn ":").map String.toNat? with
  | [some lo, some hi, some st] =>
    if st == 0 then .bad (errLine .value) else
    let v? : Option (Option (List Val)) :=
      if a.flag "none" then some none else ((a.get? "val").bind parseVal).map fun v => some [v]
    (match v? with
     | none => .bad "bad-op:val"
     | some v => .upd "replace" (slicePix lo hi st) v true)
  | _ => .bad "bad-op:slice"

/-- carrying a request out on the looked-up map -/
def runReq (w : World) (n : String) (m : MapObj) : WReq → World × String
  | .bad s => (w, s)
  | .reject => (w.put n { m with cache := none }, errLine .value)
  | .upd op pix vals single =>
    match apiUpdate m op pix vals single with
    | .ok m' => (w.put n m', "ok")
    | .error e => (w.put n { m with cache := none }, errLine e)
  | .ranges op R val sl =>
    match apiUpdateRanges m op R val sl with
    | .ok m' => (w.put n m', "ok")
    | .error e => (w.put n { m with cache := none }, errLine e)

theorem opUpd_eq (w : World) (a : Args) :
    opUpd w a = withMap w a fun m => runReq w (a.pos.headD "") m (updReq a m.kind m.sent) := by
  unfold opUpd
  congr 1
  funext m
  unfold updReq
  simp only []
  cases parseNats (a.getD "pix" "_") with
  | none => rfl
  | some pix =>
    simp only []
    generalize (if a.flag "none" = true then some ((none : Option (List Val)), true)
      else match a.get? "val", a.get? "vals" with
        | some v, _ => (parseVal v).map fun v => (some [v], true)
        | none, some vs => (parseVals vs).map fun vs => (some vs, false)
        | none, none => none) = r
    cases r with
    | none => rfl
    | some vs =>
      obtain ⟨vals, single⟩ := vs
      simp only []
      rw [apply_ite (runReq w (a.pos.headD "") m)]
      rfl

theorem opUpdr_eq (w : World) (a : Args) :
    opUpdr w a = withMap w a fun m => runReq w (a.pos.headD "") m (updrReq a) := by
  unfold opUpdr
  congr 1
  funext m
  unfold updrReq
  simp only []
  cases parseRanges (a.getD "ranges" "_") with
  | none => rfl
  | some R =>
    simp only []
    generalize (if a.flag "none" = true then some (none : Option Val)
      else ((a.get? "val").bind parseVal).map some) = v?
    cases v? with
    | none => rfl
    | some v => rfl

theorem opSet_eq (w : World) (a : Args) :
    opSet w a = withMap w a fun m => runReq w (a.pos.headD "") m (setReq a) := by
  unfold opSet
  congr 1
  funext m
  unfold setReq slicePix
  simp only []
  generalize ((a.getD "slice" "").splitOn ":").map String.toNat? = l
  split
  · rename_i lo hi st
    simp only []
    by_cases h0 : (st == 0) = true
    · rw [if_pos h0, if_pos h0]; rfl
    · rw [if_neg h0, if_neg h0]
      generalize (if a.flag "none" = true then some (none : Option (List Val))
        else ((a.get? "val").bind parseVal).map fun v => some [v]) = v?
      cases v? with
      | none => rfl
      | some v => rfl
  · rename_i hne
    split
    · rename_i lo hi st
      exact absurd rfl (hne lo hi st)
    · rfl

/-! ### the dense interpreter -/

/-- dense arrays by name -/
abbrev DenseWorld := List (String × DenseMap)

def DenseWorld.get? (D : DenseWorld) (n : String) : Option DenseMap :=
  (D.find? (·.1 == n)).map (·.2)

def DenseWorld.bind (D : DenseWorld) (n : String) (d : DenseMap) : DenseWorld :=
  (n, d) :: D.filter (·.1 != n)

def dWithMap (D : DenseWorld) (a : Args) (k : DenseMap → DenseWorld × String) : DenseWorld × String :=
  match a.pos with
  | n :: _ => match D.get? n with
    | some d => k d
    | none => (D, "bad-op:no-such-map")
  | [] => (D, "bad-op:no-map-name")

/-- carrying a write request out on a dense array: an accepted call rebinds the name to the
    updated array, anything else leaves the dense world alone -/
def dRunReq (D : DenseWorld) (n : String) (d : DenseMap) : WReq → DenseWorld × String
  | .bad s => (D, s)
  | .reject => (D, errLine .value)
  | .upd op pix vals single =>
    match dUpdate d op pix vals single none with
    | .ok d' => (D.bind n d', "ok")
    | .error e => (D, errLine e)
  | .ranges op R val sl =>
    match dRanges d op R val sl with
    | .ok d' => (D.bind n d', "ok")
    | .error e => (D, errLine e)

/-- the arguments of a `cfg` line -/
def cfgReq (a : Args) : Option (String × Kind × Nat × Nat × Option Val × List Nat) :=
  match a.pos, parseKind a, a.nat? "covord", a.nat? "spord", optVal a "sentinel",
        parseNats (a.getD "covpix" "_") with
  | n :: _, some kind, some co, some so, some sent, some cp => some (n, kind, co, so, sent, cp)
  | _, _, _, _, _, _ => none

theorem opCfg_eq (w : World) (a : Args) :
    opCfg w a = match cfgReq a with
      | some (n, kind, co, so, sent, cp) =>
        (match apiMakeEmpty co so kind sent cp with
         | .ok m => (w.bind n m, "ok")
         | .error e => (w, errLine e))
      | none => (w, "bad-op:cfg") := by
  unfold opCfg cfgReq
  cases a.pos <;> cases parseKind a <;> cases a.nat? "covord" <;> cases a.nat? "spord" <;>
    cases optVal a "sentinel" <;> cases parseNats (a.getD "covpix" "_") <;> rfl

/-- `cfg`: `make_empty` decides acceptance and the header; the array is blank -/
def dCfg (D : DenseWorld) (a : Args) : DenseWorld × String :=
  match cfgReq a with
  | some (n, kind, co, so, sent, cp) =>
    (match apiMakeEmpty co so kind sent cp with
     | .ok m => (D.bind n (dEmpty m), "ok")
     | .error e => (D, errLine e))
  | none => (D, "bad-op:cfg")

/-- the lines of a plain history: `cfg`, the write lines `upd` / `updr` / `set`, the read lines
    `get` / `vals` -/
def plainOp (op : String) : Bool :=
  op == "cfg" || op == "upd" || op == "updr" || op == "set" || op == "get" || op == "vals"

/-- **the dense interpreter**: one parsed line on a dense world -/
def dstepArgs (D : DenseWorld) (op : String) (a : Args) : DenseWorld × String :=
  match op with
  | "cfg" => dCfg D a
  | "upd" => dWithMap D a fun d => dRunReq D (a.pos.headD "") d (updReq a d.kind d.sent)
  | "updr" => dWithMap D a fun d => dRunReq D (a.pos.headD "") d (updrReq a)
  | "set" => dWithMap D a fun d => dRunReq D (a.pos.headD "") d (setReq a)
  | "get" => dWithMap D a fun d =>
      (D, getAnswer a d.spord d.npix d.f (d.kind.valid d.sent))
  | "vals" => dWithMap D a fun d => (D, showVals ((List.range d.npix).map d.f))
  | _ => (D, "bad-op:unknown")

/-- a world and a dense world agree: every map of the world owns its storage, and the two have
    the same names bound to agreeing maps -/
structure Rel (w : World) (D : DenseWorld) : Prop where
  owning : ∀ e ∈ w.pool, e.2.view = none
  maps : ∀ x, match w.raw? x, D.get? x with
    | some m, some d => Corr m d
    | none, none => True
    | _, _ => False

theorem rel_empty : Rel {} [] := ⟨fun _ h => (nomatch h), fun _ => trivial⟩

theorem Rel.get?_eq {w : World} {D : DenseWorld} (h : Rel w D) (x : String) : w.get? x = w.raw? x := by
  unfold World.get?
  cases hr : w.raw? x with
  | none => rfl
  | some m =>
    obtain ⟨e, he, _, rfl⟩ := World.raw?_mem hr
    simp only [h.owning e he]

theorem dget_bind_self (D : DenseWorld) (n : String) (d : DenseMap) : (D.bind n d).get? n = some d := by
  simp [DenseWorld.bind, DenseWorld.get?]

theorem dget_bind_ne (D : DenseWorld) {n x : String} (h : n ≠ x) (d : DenseMap) :
    (D.bind n d).get? x = D.get? x := by
  unfold DenseWorld.bind DenseWorld.get?
  rw [List.find?_cons]
  have h1 : ((n, d).1 == x) = false := by simpa using h
  rw [h1]
  simp only []
  congr 1
  induction D with
  | nil => rfl
  | cons e D ih =>
    by_cases he : (e.1 != n) = true
    · rw [List.filter_cons_of_pos (p := fun y : String × DenseMap => y.1 != n) (a := e) (l := D) he,
        List.find?_cons, List.find?_cons]
      split
      · rfl
      · exact ih
    · rw [List.filter_cons_of_neg (p := fun y : String × DenseMap => y.1 != n) (a := e) (l := D) he,
        ih, List.find?_cons]
      have : (e.1 == x) = false := by
        have : e.1 = n := by simpa using he
        rw [this]; simpa using h
      rw [this]

/-- binding agreeing maps under the same name on both sides -/
theorem Rel.bind {w : World} {D : DenseWorld} (h : Rel w D) (n : String) {m : MapObj}
    {d : DenseMap} (hc : Corr m d) : Rel (w.bind n m) (D.bind n d) := by
  refine ⟨?_, fun x => ?_⟩
  · intro e he
    rcases List.mem_cons.1 he with rfl | he
    · rfl
    · exact h.owning e (List.mem_filter.1 he).1
  · unfold World.bind
    simp only [raw?_eq]
    by_cases hx : n = x
    · subst hx
      rw [rawL_cons_self, dget_bind_self]
      exact ⟨hc.wf, rfl, hc.covord, hc.spord, hc.kind, hc.sent, hc.abs⟩
    · rw [rawL_cons_ne hx, dget_bind_ne D hx,
        rawL_filter (q := fun s => s != n) (by simpa using Ne.symm hx) w.pool, ← raw?_eq]
      exact h.maps x

/-- storing, on the sparse side only, a map that agrees with what the name is bound to on the
    dense side -/
theorem Rel.bind_left {w : World} {D : DenseWorld} (h : Rel w D) (n : String) {m : MapObj}
    {d : DenseMap} (hd : D.get? n = some d) (hc : Corr m d) : Rel (w.bind n m) D := by
  refine ⟨?_, fun x => ?_⟩
  · intro e he
    rcases List.mem_cons.1 he with rfl | he
    · rfl
    · exact h.owning e (List.mem_filter.1 he).1
  · unfold World.bind
    simp only [raw?_eq]
    by_cases hx : n = x
    · subst hx
      rw [rawL_cons_self, hd]
      exact ⟨hc.wf, rfl, hc.covord, hc.spord, hc.kind, hc.sent, hc.abs⟩
    · rw [rawL_cons_ne hx,
        rawL_filter (q := fun s => s != n) (by simpa using Ne.symm hx) w.pool, ← raw?_eq]
      exact h.maps x

theorem Rel.put {w : World} {D : DenseWorld} (h : Rel w D) (n : String) {m : MapObj}
    {d : DenseMap} (hc : Corr m d) : Rel (w.put n m) (D.bind n d) := by
  rw [World.put_eq_bind hc.view]; exact h.bind n hc

theorem Rel.put_left {w : World} {D : DenseWorld} (h : Rel w D) (n : String) {m : MapObj}
    {d : DenseMap} (hd : D.get? n = some d) (hc : Corr m d) : Rel (w.put n m) D := by
  rw [World.put_eq_bind hc.view]; exact h.bind_left n hd hc

/-! ### one line keeps the two worlds in agreement -/

theorem rel_withMap {w : World} {D : DenseWorld} {a : Args} {k : MapObj → World × String}
    {k' : DenseMap → DenseWorld × String} (h : Rel w D)
    (hk : ∀ m d, w.get? (a.pos.headD "") = some m → D.get? (a.pos.headD "") = some d → Corr m d →
      Rel (k m).1 (k' d).1 ∧ (k m).2 = (k' d).2) :
    Rel (withMap w a k).1 (dWithMap D a k').1 ∧ (withMap w a k).2 = (dWithMap D a k').2 := by
  unfold withMap dWithMap
  cases hpos : a.pos with
  | nil => exact ⟨h, rfl⟩
  | cons n rest =>
    simp only []
    have hm := h.maps n
    have hg := h.get?_eq n
    rw [hg]
    cases hr : w.raw? n with
    | none =>
      rw [hr] at hm
      cases hd : D.get? n with
      | none => exact ⟨h, rfl⟩
      | some d => rw [hd] at hm; exact hm.elim
    | some m =>
      rw [hr] at hm
      cases hd : D.get? n with
      | none => rw [hd] at hm; exact hm.elim
      | some d =>
        rw [hd] at hm
        have hn : a.pos.headD "" = n := by rw [hpos]; rfl
        exact hk m d (by rw [hn, hg, hr]) (by rw [hn, hd]) hm

theorem rel_runReq {w : World} {D : DenseWorld} (h : Rel w D) {n : String} {m : MapObj}
    {d : DenseMap} (hd : D.get? n = some d) (hc : Corr m d) (req : WReq) :
    Rel (runReq w n m req).1 (dRunReq D n d req).1 ∧ (runReq w n m req).2 = (dRunReq D n d req).2 := by
  cases req with
  | bad s => exact ⟨h, rfl⟩
  | reject => exact ⟨h.put_left n hd (hc.cache none), rfl⟩
  | upd op pix vals single =>
    have := apiUpdate_corr hc op pix vals single none
    simp only [runReq, dRunReq]
    revert this
    cases apiUpdate m op pix vals single <;> cases dUpdate d op pix vals single none <;> intro hr
    · cases hr; exact ⟨h.put_left n hd (hc.cache none), rfl⟩
    · exact hr.elim
    · exact hr.elim
    · exact ⟨h.put n hr, rfl⟩
  | ranges op R val sl =>
    have := apiRanges_corr hc op R val sl
    simp only [runReq, dRunReq]
    revert this
    cases apiUpdateRanges m op R val sl <;> cases dRanges d op R val sl <;> intro hr
    · cases hr; exact ⟨h.put_left n hd (hc.cache none), rfl⟩
    · exact hr.elim
    · exact hr.elim
    · exact ⟨h.put n hr, rfl⟩

theorem rel_cfg {w : World} {D : DenseWorld} (h : Rel w D) (a : Args) :
    Rel (opCfg w a).1 (dCfg D a).1 ∧ (opCfg w a).2 = (dCfg D a).2 := by
  rw [opCfg_eq]
  unfold dCfg
  cases cfgReq a with
  | none => exact ⟨h, rfl⟩
  | some r =>
    obtain ⟨n, kind, co, so, sent, cp⟩ := r
    simp only []
    cases hm : apiMakeEmpty co so kind sent cp with
    | error e => exact ⟨h, rfl⟩
    | ok m => exact ⟨h.bind n (apiMakeEmpty_corr hm), rfl⟩

theorem Corr.read_facts {m : MapObj} {d : DenseMap} (hc : Corr m d) :
    m.spord = d.spord ∧ m.npix = d.npix ∧ m.vc.valid = d.kind.valid d.sent := by
  refine ⟨hc.spord, hc.hdr_facts.2.2.2.2.1, ?_⟩
  unfold MapObj.vc; rw [hc.kind, hc.sent]

theorem getAnswer_congr (a : Args) (spord npix : Nat) (f g : Nat → Val) (valid : Val → Bool)
    (h : ∀ p, p < npix → f p = g p) : getAnswer a spord npix f valid = getAnswer a spord npix g valid := by
  unfold getAnswer
  split
  · rfl
  · rfl
  · rename_i l _
    by_cases hb : (l.any fun x => decide (x ≥ npix)) = true
    · rw [if_pos hb, if_pos hb]
    · rw [if_neg hb, if_neg hb]
      have hl := lt_of_not_any_ge hb
      have e1 : l.map f = l.map g := List.map_congr_left fun p hp => h p (hl p hp)
      have e2 : (l.map fun p => valid (f p)) = l.map fun p => valid (g p) :=
        List.map_congr_left fun p hp => by rw [h p (hl p hp)]
      rw [e1, e2]

theorem plainOp_cases {op : String} (h : plainOp op = true) :
    op = "cfg" ∨ op = "upd" ∨ op = "updr" ∨ op = "set" ∨ op = "get" ∨ op = "vals" := by
  unfold plainOp at h
  simp only [Bool.or_eq_true, beq_iff_eq] at h
  rcases h with ((((h | h) | h) | h) | h) | h
  · exact Or.inl h
  · exact Or.inr (Or.inl h)
  · exact Or.inr (Or.inr (Or.inl h))
  · exact Or.inr (Or.inr (Or.inr (Or.inl h)))
  · exact Or.inr (Or.inr (Or.inr (Or.inr (Or.inl h))))
  · exact Or.inr (Or.inr (Or.inr (Or.inr (Or.inr h))))

/-- **one plain line**: the protocol and the dense interpreter stay in agreement and give the
    same answer -/
theorem rel_stepArgs {w : World} {D : DenseWorld} (h : Rel w D) {op : String} (hp : plainOp op = true)
    (a : Args) :
    Rel (stepArgs w op a).1 (dstepArgs D op a).1 ∧ (stepArgs w op a).2 = (dstepArgs D op a).2 := by
  rcases plainOp_cases hp with rfl | rfl | rfl | rfl | rfl | rfl
  · exact rel_cfg h a
  · show Rel (opUpd w a).1 _ ∧ (opUpd w a).2 = _
    rw [opUpd_eq]
    refine rel_withMap h fun m d _ hd hc => ?_
    rw [hc.kind, hc.sent]
    exact rel_runReq h hd hc _
  · show Rel (opUpdr w a).1 _ ∧ (opUpdr w a).2 = _
    rw [opUpdr_eq]
    exact rel_withMap h fun m d _ hd hc => rel_runReq h hd hc _
  · show Rel (opSet w a).1 _ ∧ (opSet w a).2 = _
    rw [opSet_eq]
    exact rel_withMap h fun m d _ hd hc => rel_runReq h hd hc _
  · show Rel (opGet w a).1 _ ∧ (opGet w a).2 = _
    rw [opGet_eq]
    refine rel_withMap h fun m d _ hd hc => ⟨h, ?_⟩
    obtain ⟨e1, e2, e3⟩ := hc.read_facts
    show getAnswer a m.spord m.npix m.abs m.vc.valid = getAnswer a d.spord d.npix d.f _
    rw [e1, e2, e3]
    exact getAnswer_congr a _ _ _ _ _ fun p hp => hc.abs p (by rw [e2]; exact hp)
  · show Rel (opVals w a).1 _ ∧ (opVals w a).2 = _
    rw [opVals_eq]
    refine rel_withMap h fun m d _ hd hc => ⟨h, ?_⟩
    obtain ⟨_, e2, _⟩ := hc.read_facts
    show showVals ((List.range m.npix).map m.abs) = showVals ((List.range d.npix).map d.f)
    rw [e2]
    congr 1
    exact List.map_congr_left fun p hp => hc.abs p (by rw [e2]; exact List.mem_range.1 hp)

/-! ### histories -/

/-- run a history of parsed lines from the empty world -/
def runArgs (h : List (String × Args)) : World := h.foldl (fun w l => (stepArgs w l.1 l.2).1) {}

/-- run the dense interpreter on it -/
def drunArgs (h : List (String × Args)) : DenseWorld :=
  h.foldl (fun D l => (dstepArgs D l.1 l.2).1) []

theorem rel_foldl {w : World} {D : DenseWorld} (hR : Rel w D) (h : List (String × Args))
    (hp : ∀ l ∈ h, plainOp l.1 = true) :
    Rel (h.foldl (fun w l => (stepArgs w l.1 l.2).1) w)
      (h.foldl (fun D l => (dstepArgs D l.1 l.2).1) D) := by
  induction h generalizing w D with
  | nil => exact hR
  | cons l ls ih =>
    exact ih (rel_stepArgs hR (hp l List.mem_cons_self) l.2).1
      fun l' h' => hp l' (List.mem_cons_of_mem _ h')

theorem rel_runArgs (h : List (String × Args)) (hp : ∀ l ∈ h, plainOp l.1 = true) :
    Rel (runArgs h) (drunArgs h) := rel_foldl rel_empty h hp

/-- the tokens of a protocol line -/
def lineToks (line : String) : List String :=
  (line.trimAscii.toString.splitOn " ").filter (· != "")

/-- a raw line of a plain history -/
def plainLine (line : String) : Bool :=
  match lineToks line with
  | [] => true
  | op :: _ => plainOp op

/-- the dense interpreter on a raw line -/
def dstep (D : DenseWorld) (line : String) : DenseWorld × String :=
  match lineToks line with
  | [] => (D, "bad-op:empty")
  | op :: rest => dstepArgs D op (parseArgs rest)

def drun (lines : List String) : DenseWorld := lines.foldl (fun D l => (dstep D l).1) []

theorem plainOp_not_packed {op : String} (h : plainOp op = true) : op.startsWith "p." = false := by
  rcases plainOp_cases h with rfl | rfl | rfl | rfl | rfl | rfl <;> decide +kernel

theorem rel_step {w : World} {D : DenseWorld} (hR : Rel w D) {line : String}
    (hp : plainLine line = true) :
    Rel (step w line).1 (dstep D line).1 ∧ (step w line).2 = (dstep D line).2 := by
  have hstep : step w line = match lineToks line with
      | [] => (w, "bad-op:empty")
      | op :: rest =>
        if op.startsWith "p." then
          let (pw, o) := stepPacked w.packed op (parseArgs rest)
          ({ w with packed := pw }, o)
        else stepArgs w op (parseArgs rest) := rfl
  rw [hstep]
  unfold dstep
  unfold plainLine at hp
  cases ht : lineToks line with
  | nil => exact ⟨hR, rfl⟩
  | cons op rest =>
    rw [ht] at hp
    simp only [plainOp_not_packed hp, Bool.false_eq_true, if_false]
    exact rel_stepArgs hR hp _

theorem rel_runLines (lines : List String) (hp : ∀ l ∈ lines, plainLine l = true) :
    Rel (runLines lines) (drun lines) := by
  unfold runLines drun
  have key : ∀ (ls : List String) (w : World) (D : DenseWorld), Rel w D →
      (∀ l ∈ ls, plainLine l = true) →
      Rel (ls.foldl (fun w l => (step w l).1) w) (ls.foldl (fun D l => (dstep D l).1) D) := by
    intro ls
    induction ls with
    | nil => intro w D h _; exact h
    | cons l ls ih =>
      intro w D h hp
      exact ih _ _ (rel_step h (hp l List.mem_cons_self)).1 fun l' h' => hp l' (List.mem_cons_of_mem _ h')
  exact key lines _ _ rel_empty hp

/-! ### what a write changes on the dense side -/

/-- the pixels a request addresses -/
def WReq.pixels : WReq → List Nat
  | .upd _ pix _ _ => pix
  | .ranges _ R _ _ => expand R
  | _ => []

/-- the pixels a write line addresses, read off the line: `pix=` (`upd`), the pixels of the rows
    of `ranges=` (`updr`), the pixels of `slice=a:b:s` (`set`) -/
def addressed (op : String) (a : Args) : List Nat :=
  match op with
  | "upd" => (parseNats (a.getD "pix" "_")).getD []
  | "updr" => ((parseRanges (a.getD "ranges" "_")).map expand).getD []
  | "set" =>
    (match ((a.getD "slice" "").splitOn ":").map String.toNat? with
     | [some lo, some hi, some st] => if st == 0 then [] else slicePix lo hi st
     | _ => [])
  | _ => []

/-- the line addresses pixel `p` of the map named `n` -/
def hits (n : String) (p : Nat) (l : String × Args) : Bool :=
  (l.2.pos.headD "" == n) && (addressed l.1 l.2).contains p

theorem ite_reject_pixels (c : Prop) [Decidable c] (o : String) (pix : List Nat)
    (v : Option (List Val)) (sg : Bool) :
    ∀ p ∈ (if c then WReq.reject else WReq.upd o pix v sg).pixels, p ∈ pix := by
  split
  · intro p hp; cases hp
  · intro p hp; exact hp

theorem updReq_pixels (a : Args) (k : Kind) (s : Val) :
    ∀ p ∈ (updReq a k s).pixels, p ∈ addressed "upd" a := by
  unfold updReq addressed
  simp only []
  cases parseNats (a.getD "pix" "_") with
  | none => intro p hp; cases hp
  | some pix =>
    simp only []
    generalize (if a.flag "none" = true then some ((none : Option (List Val)), true)
      else match a.get? "val", a.get? "vals" with
        | some v, _ => (parseVal v).map fun v => (some [v], true)
        | none, some vs => (parseVals vs).map fun vs => (some vs, false)
        | none, none => none) = r
    cases r with
    | none => intro p hp; cases hp
    | some vs =>
      obtain ⟨vals, single⟩ := vs
      exact ite_reject_pixels _ _ _ _ _

theorem updrReq_pixels (a : Args) : ∀ p ∈ (updrReq a).pixels, p ∈ addressed "updr" a := by
  unfold updrReq addressed
  simp only []
  cases parseRanges (a.getD "ranges" "_") with
  | none => intro p hp; cases hp
  | some R =>
    simp only []
    split
    · intro p hp; cases hp
    · intro p hp; exact hp

theorem setReq_pixels (a : Args) : ∀ p ∈ (setReq a).pixels, p ∈ addressed "set" a := by
  unfold setReq addressed
  simp only []
  generalize ((a.getD "slice" "").splitOn ":").map String.toNat? = l
  split
  · rename_i lo hi st
    by_cases h0 : (st == 0) = true
    · rw [if_pos h0]; intro p hp; cases hp
    · rw [if_neg h0, if_neg h0]
      split
      · intro p hp; cases hp
      · intro p hp; exact hp
  · intro p hp; cases hp

theorem denseFold_not_mem {V W : Type} (g : V → W → V) (L : List (Nat × W)) (p : Nat) (x : V)
    (h : ∀ qw ∈ L, qw.1 ≠ p) : denseFold g L p x = x := by
  induction L generalizing x with
  | nil => rfl
  | cons qw L ih =>
    simp only [denseFold, List.foldl_cons]
    rw [if_neg (h qw List.mem_cons_self)]
    exact ih x fun qw' h' => h qw' (List.mem_cons_of_mem _ h')

theorem dNew_not_mem (d : DenseMap) (op : String) {pix : List Nat} (vals : Option (List Val))
    (single : Bool) {p : Nat} (hp : p ∉ pix) : dNew d op pix vals single p = d.f p := by
  unfold dNew
  apply denseFold_not_mem
  intro qw hq he
  obtain ⟨pw, hpw, hfst⟩ := stageList_fst_mem _ _ qw hq
  exact hp (he ▸ hfst ▸ updPv_fst_mem hpw)

/-- an accepted dense update keeps the header and every pixel it does not address -/
theorem dUpdate_ok {d d' : DenseMap} {op : String} {pix : List Nat} {vals : Option (List Val)}
    {single : Bool} {ru : Option Bool} (h : dUpdate d op pix vals single ru = .ok d') :
    d'.covord = d.covord ∧ d'.spord = d.spord ∧ d'.kind = d.kind ∧ d'.sent = d.sent ∧
    ∀ p, p ∉ pix → d'.f p = d.f p := by
  unfold dUpdate at h
  simp only [] at h
  split at h
  · cases h
  · rcases ite_ok h with ⟨_, h1⟩ | ⟨_, h1⟩
    · cases h1; exact ⟨rfl, rfl, rfl, rfl, fun _ _ => rfl⟩
    · replace h1 := (guard_ok h1).2
      replace h1 := (guard_ok h1).2
      replace h1 := (guard_ok h1).2
      replace h1 := (guard_ok h1).2
      replace h1 := (guard_ok h1).2
      cases h1
      exact ⟨rfl, rfl, rfl, rfl, fun p hp => dNew_not_mem d op vals single hp⟩

theorem dRanges_ok {d d' : DenseMap} {op : String} {R : List (Nat × Nat)} {val : Option Val}
    {sl : Bool} (h : dRanges d op R val sl = .ok d') :
    d'.covord = d.covord ∧ d'.spord = d.spord ∧ d'.kind = d.kind ∧ d'.sent = d.sent ∧
    ∀ p, p ∉ expand R → d'.f p = d.f p := by
  unfold dRanges at h
  cases sl with
  | false =>
    simp only [Bool.not_false, if_true] at h
    rcases ite_ok h with ⟨he, h1⟩ | ⟨_, h1⟩
    · obtain ⟨a1, a2, a3, a4, _⟩ := dUpdate_ok h1
      have : R = [] := by simpa using he
      subst this
      have := dUpdate_ok h1
      exact ⟨a1, a2, a3, a4, fun p _ => this.2.2.2.2 p (fun hm => nomatch hm)⟩
    · rcases ite_ok h1 with ⟨_, h2⟩ | ⟨_, h2⟩
      · split at h2 <;> cases h2
      · exact dUpdate_ok h2
  | true =>
    simp only [Bool.not_true, Bool.false_eq_true, if_false] at h
    split at h
    · cases h
    · rcases ite_ok h with ⟨_, h1⟩ | ⟨_, h1⟩
      · cases h1; exact ⟨rfl, rfl, rfl, rfl, fun _ _ => rfl⟩
      · replace h1 := (guard_ok h1).2
        replace h1 := (guard_ok h1).2
        replace h1 := (guard_ok h1).2
        replace h1 := (guard_ok h1).2
        cases h1
        exact ⟨rfl, rfl, rfl, rfl, fun p hp => dNew_not_mem d op _ true hp⟩

/-- pixel `p` of the array named `n` (if any) holds the blank -/
def BlankAt (D : DenseWorld) (n : String) (p : Nat) : Prop := ∀ d, D.get? n = some d → d.f p = d.blank

theorem blankAt_bind {D : DenseWorld} {n : String} {p : Nat} (h : BlankAt D n p) (n' : String)
    {d' : DenseMap} (hd : n' = n → d'.f p = d'.blank) : BlankAt (D.bind n' d') n p := by
  intro d hg
  by_cases hn : n' = n
  · subst hn
    rw [dget_bind_self] at hg
    cases hg
    exact hd rfl
  · rw [dget_bind_ne D hn] at hg
    exact h d hg

theorem blankAt_runReq {D : DenseWorld} {n : String} {p : Nat} (h : BlankAt D n p) {n' : String}
    {d0 : DenseMap} (hd : D.get? n' = some d0) (req : WReq)
    (hh : n' = n → p ∈ req.pixels → (dRunReq D n' d0 req).2 ≠ "ok") :
    BlankAt (dRunReq D n' d0 req).1 n p := by
  cases req with
  | bad s => exact h
  | reject => exact h
  | upd op pix vals single =>
    simp only [dRunReq] at hh ⊢
    cases hu : dUpdate d0 op pix vals single none with
    | error e => exact h
    | ok d' =>
      rw [hu] at hh
      refine blankAt_bind h n' fun hn => ?_
      obtain ⟨_, _, a3, a4, a5⟩ := dUpdate_ok hu
      have hp : p ∉ pix := fun hm => hh hn hm rfl
      rw [a5 p hp]
      unfold DenseMap.blank
      rw [a3, a4]
      exact h d0 (hn ▸ hd)
  | ranges op R val sl =>
    simp only [dRunReq] at hh ⊢
    cases hu : dRanges d0 op R val sl with
    | error e => exact h
    | ok d' =>
      rw [hu] at hh
      refine blankAt_bind h n' fun hn => ?_
      obtain ⟨_, _, a3, a4, a5⟩ := dRanges_ok hu
      have hp : p ∉ expand R := fun hm => hh hn hm rfl
      rw [a5 p hp]
      unfold DenseMap.blank
      rw [a3, a4]
      exact h d0 (hn ▸ hd)

theorem blankAt_withMap {D : DenseWorld} {n : String} {p : Nat} (h : BlankAt D n p) {a : Args}
    {k : DenseMap → DenseWorld × String}
    (hk : ∀ n' rest d0, a.pos = n' :: rest → D.get? n' = some d0 → BlankAt (k d0).1 n p) :
    BlankAt (dWithMap D a k).1 n p := by
  unfold dWithMap
  cases hpos : a.pos with
  | nil => exact h
  | cons n' rest =>
    simp only []
    cases hd : D.get? n' with
    | none => exact h
    | some d0 => exact hk n' rest d0 hpos hd

/-- **one line keeps a pixel blank** unless it is an accepted write addressing the pixel -/
theorem blankAt_step {D : DenseWorld} {n : String} {p : Nat} (h : BlankAt D n p) (op : String)
    (a : Args) (hh : hits n p (op, a) = true → (dstepArgs D op a).2 ≠ "ok") :
    BlankAt (dstepArgs D op a).1 n p := by
  have hwrite : ∀ (req : DenseMap → WReq), (∀ d, ∀ q ∈ (req d).pixels, q ∈ addressed op a) →
      (hits n p (op, a) = true →
        (dWithMap D a fun d => dRunReq D (a.pos.headD "") d (req d)).2 ≠ "ok") →
      BlankAt (dWithMap D a fun d => dRunReq D (a.pos.headD "") d (req d)).1 n p := by
    intro req hreq hh'
    refine blankAt_withMap h fun n' rest d0 hpos hd => ?_
    have hn' : a.pos.headD "" = n' := by rw [hpos]; rfl
    rw [hn']
    refine blankAt_runReq h hd (req d0) fun hn hp => ?_
    have hhit : hits n p (op, a) = true := by
      unfold hits
      simp only [Bool.and_eq_true, beq_iff_eq, List.contains_eq_mem, decide_eq_true_eq]
      exact ⟨hn' ▸ hn, hreq d0 p hp⟩
    have := hh' hhit
    unfold dWithMap at this
    rw [hpos] at this
    simp only [hd, List.headD_cons] at this
    exact this
  unfold dstepArgs at hh ⊢
  split
  · -- cfg
    unfold dCfg
    cases cfgReq a with
    | none => exact h
    | some r =>
      obtain ⟨n', kind, co, so, sent, cp⟩ := r
      simp only []
      cases apiMakeEmpty co so kind sent cp with
      | error e => exact h
      | ok m => exact blankAt_bind h n' fun _ => rfl
  · exact hwrite _ (fun d => updReq_pixels a d.kind d.sent) (by simpa using hh)
  · exact hwrite _ (fun _ => updrReq_pixels a) (by simpa using hh)
  · exact hwrite _ (fun _ => setReq_pixels a) (by simpa using hh)
  · exact blankAt_withMap h fun _ _ _ _ _ => h
  · exact blankAt_withMap h fun _ _ _ _ _ => h
  · exact h

/-! ### the value semantics of the dense update, spelled out -/

/-- `h` applied `n` times -/
def iter {V : Type} (h : V → V) : Nat → V → V
  | 0, x => x
  | n + 1, x => iter h n (h x)

theorem iter_id {V : Type} (n : Nat) (x : V) : iter id n x = x := by
  induction n with
  | zero => rfl
  | succ n ih => exact ih

theorem denseFold_count {V : Type} (h : V → V) (pix : List Nat) (p : Nat) (x : V) :
    denseFold (fun x (_ : Unit) => h x) (pix.map fun q => (q, ())) p x = iter h (pix.count p) x := by
  induction pix generalizing x with
  | nil => rfl
  | cons q pix ih =>
    simp only [List.map_cons, denseFold, List.foldl_cons]
    by_cases hq : q = p
    · subst hq
      rw [if_pos rfl, List.count_cons_self]
      exact ih (h x)
    · rw [if_neg hq, List.count_cons_of_ne hq]
      exact ih x

/-- `replace` (or any operation without pre-pass) with ONE value `v` broadcast over `pix`, and
    accumulating operations with one value: the cell operation `· ⊕ v` applied once per
    occurrence of the pixel, after the reset of `add` over a non-zero sentinel (once per
    occurrence too; it is idempotent) -/
theorem dNew_single (d : DenseMap) (op : String) (pix : List Nat) (v : Val) (p : Nat) :
    dNew d op pix (some [v]) true p
      = iter (fun x => (cellOp d.hdr op).2 x v) (pix.count p)
          (iter ((cellOp d.hdr op).1.getD id) (pix.count p) (d.f p)) := by
  unfold dNew
  have hpv : updPv d.hdr pix (some [v]) true = pix.map fun q => (q, v) := by simp [updPv]
  rw [hpv]
  have e2 : ∀ (g : Val → Val) (y : Val),
      denseFold (stageOp g (cellOp d.hdr op).2)
          ((pix.map fun q => (q, v)).map fun pw => (pw.1, some pw.2)) p y
        = iter (fun x => (cellOp d.hdr op).2 x v) (pix.count p) y := by
    intro g y
    rw [← denseFold_count, List.map_map]
    exact denseFold_map_congr (stageOp g (cellOp d.hdr op).2)
      (fun x (_ : Unit) => (cellOp d.hdr op).2 x v) pix
      ((fun pw => (pw.1, some pw.2)) ∘ fun q => (q, v)) (fun q => (q, ()))
      (fun _ _ => rfl) (fun _ _ _ => rfl) p y
  cases hpre : (cellOp d.hdr op).1 with
  | none =>
    simp only [Option.isSome_none, stageList, Bool.false_eq_true, if_false, List.nil_append,
      Option.getD_none]
    rw [e2, iter_id]
  | some g =>
    simp only [Option.isSome_some, stageList, if_true, Option.getD_some]
    rw [denseFold_append, e2]
    congr 1
    rw [← denseFold_count, List.map_map]
    exact denseFold_map_congr (stageOp g (cellOp d.hdr op).2) (fun x (_ : Unit) => g x) pix
      ((fun pw => (pw.1, (none : Option Val))) ∘ fun q => (q, v)) (fun q => (q, ()))
      (fun _ _ => rfl) (fun _ _ _ => rfl) p (d.f p)

/-- `None`: the addressed pixels become blank -/
theorem dNew_none (d : DenseMap) (pix : List Nat) (single : Bool) (p : Nat) :
    dNew d "replace" pix none single p = if p ∈ pix then d.blank else d.f p := by
  unfold dNew
  show denseFold (stageOp id (fun _ (w : Val) => w))
      ((pix.map fun q => (q, clearValue d.hdr)).map fun pw => (pw.1, some pw.2)) p (d.f p) = _
  rw [clear_fold]
  rfl

/-- `replace` with one value per pixel and no repeated pixel: pixel `pix[i]` gets `vals[i]` -/
theorem dNew_replace_vals (d : DenseMap) (pix : List Nat) (vals : List Val) (hnd : pix.Nodup)
    (hlen : vals.length = pix.length) (h1 : vals.length ≠ 1) (i : Nat) (hi : i < pix.length) :
    dNew d "replace" pix (some vals) false (pix[i]) = vals[i]'(hlen ▸ hi) := by
  unfold dNew
  have hpv : updPv d.hdr pix (some vals) false = pix.zip vals := by
    unfold updPv
    have : (vals.length == 1) = false := by simpa using h1
    simp [this]
  rw [hpv]
  show denseFold (stageOp id (fun _ (w : Val) => w))
      ((pix.zip vals).map fun pw => (pw.1, some pw.2)) pix[i] (d.f pix[i]) = _
  have key : ∀ (pix : List Nat) (vals : List Val) (x : Val), pix.Nodup →
      ∀ (hlen : vals.length = pix.length) (i : Nat) (hi : i < pix.length),
      denseFold (stageOp id (fun _ (w : Val) => w))
        ((pix.zip vals).map fun pw => (pw.1, some pw.2)) pix[i] x = vals[i]'(hlen ▸ hi) := by
    intro pix
    induction pix with
    | nil => intro _ _ _ _ i hi; cases hi
    | cons q pix ih =>
      intro vals x hnd hlen i hi
      cases vals with
      | nil => cases hlen
      | cons v vals =>
        simp only [List.zip_cons_cons, List.map_cons, denseFold, List.foldl_cons]
        have hq : q ∉ pix := (List.nodup_cons.1 hnd).1
        cases i with
        | zero =>
          simp only [List.getElem_cons_zero, if_true]
          have := denseFold_not_mem (stageOp id (fun _ (w : Val) => w))
            ((pix.zip vals).map fun pw => (pw.1, some pw.2)) q (stageOp id (fun _ w => w) x (some v))
            (by
              intro qw hqw he
              obtain ⟨pw, hpw, rfl⟩ := List.mem_map.1 hqw
              exact hq (he ▸ (List.of_mem_zip (a := pw.1) (b := pw.2) hpw).1))
          simp only [denseFold] at this
          rw [this]; rfl
        | succ i =>
          have hi' : i < pix.length := by simpa using hi
          have hne : q ≠ pix[i] := fun he => hq (he ▸ List.getElem_mem hi')
          simp only [List.getElem_cons_succ, hne, if_false]
          have := ih vals x (List.nodup_cons.1 hnd).2 (by simpa using hlen) i hi'
          simp only [denseFold] at this
          exact this
  exact key pix vals _ hnd hlen i hi

/-- `replace` with a repeated pixel is refused (ValueError) on a non-empty, well-typed call -/
theorem dUpdate_replace_dups (d : DenseMap) (pix : List Nat) (vals : Option (List Val)) (single : Bool)
    (hd : pix.eraseDups.length < pix.length) :
    ∃ e, dUpdate d "replace" pix vals single none = .error e := by
  unfold dUpdate
  simp only []
  split
  · exact ⟨_, rfl⟩
  · have hne : pix.isEmpty = false := by
      cases pix with
      | nil => simp at hd
      | cons _ _ => rfl
    rw [if_neg (by rw [hne]; exact Bool.false_ne_true)]
    split
    · exact ⟨_, rfl⟩
    · rw [if_pos (by simp [hd])]
      exact ⟨_, rfl⟩

/-! ### a view reads its parent's field -/

theorem materializeView_abs {p v : MapObj} {pn : String} {i : Nat} {s : Val} {c : Option Nat}
    (hp : p.WF) (h : materializeView p pn i s c = .ok v) (q : Nat) (hq : q < p.npix) :
    v.abs q = recField i (p.abs q) := by
  obtain ⟨dt, s', _, h1, h2, _, _, h5, _, _⟩ := materializeView_ok h
  have hc : v.c = p.c := by unfold MapObj.c; rw [h1, h2]
  show abs v.c v.vc v.st q = _
  rw [hc, h5]
  exact abs_mapCells p.c p.vc v.vc p.st (recField i) hp.2 q hq

end ApiDense
end HS
