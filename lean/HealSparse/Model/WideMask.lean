/-
  Wide-mask helpers.  Mirrors utils.py `_bitvals_to_packed_array` (little-endian bit
  packing of a bit list into `maxbits/8` bytes) and the width rule of make_empty.
-/
namespace HS

/-- `np.packbits(arr, bitorder="little")` where `arr[bits] = True`, `len(arr) = maxbits`. -/
def bitvalsToPacked (bits : List Nat) (maxbits : Nat) : List Nat :=
  (List.range (maxbits / 8)).map fun i =>
    (List.range 8).foldl (fun acc j => if bits.contains (8 * i + j) then acc ||| (1 <<< j) else acc) 0

/-- does byte row `row` have bit `b` set -/
def rowTestBit (row : List Nat) (b : Nat) : Bool := (row.getD (b / 8) 0).testBit (b % 8)

/-- `~value` on uint8 bytes -/
def complBytes (row : List Nat) : List Nat := row.map fun b => 255 - b

end HS
