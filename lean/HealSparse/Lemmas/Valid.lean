/-
  Helper lemmas for the validity-accounting interfaces (`valid_pixels`, `n_valid`,
  `coverage_map`, `fracdet_map`, `valid_pixels_single_covpix`): the block table
  `blockToCov` is the inverse of `blockStart`, storage cells beyond the overflow block are in
  bijection with the pixels of covered coverage pixels, and the fracdet map has the layout of
  `makeEmpty` on the block table.
-/
import HealSparse.Lemmas.Core
import HealSparse.Lemmas.Coverage
import HealSparse.Model.Valid
namespace HS
variable {V : Type}

/-! ### generic arithmetic / list facts -/

theorem mul_add_div_mod {n k r : Nat} (hr : r < n) :
    (k * n + r) / n = k ∧ (k * n + r) % n = r := by
  have hn : 0 < n := by omega
  constructor
  · rw [Nat.mul_comm, Nat.mul_add_div hn, Nat.div_eq_of_lt hr]; rfl
  · rw [Nat.mul_comm, Nat.mul_add_mod, Nat.mod_eq_of_lt hr]

theorem mul_add_lt_mul {n k r m : Nat} (hk : k < m) (hr : r < n) : k * n + r < m * n := by
  have h1 : (k + 1) * n ≤ m * n := Nat.mul_le_mul_right n hk
  rw [Nat.succ_mul] at h1
  omega

theorem nodup_map_of_inj_on {α β : Type} {l : List α} {f : α → β} (hl : l.Nodup)
    (hinj : ∀ a ∈ l, ∀ b ∈ l, f a = f b → a = b) : (l.map f).Nodup := by
  unfold List.Nodup at *
  rw [List.pairwise_map]
  exact hl.imp_of_mem (fun ha hb hne he => hne (hinj _ ha _ hb he))

theorem mapM_option_eq_some {α β : Type} (f : α → Option β) (g : α → β) (l : List α)
    (h : ∀ a ∈ l, f a = some (g a)) : l.mapM f = some (l.map g) := by
  induction l with
  | nil => rfl
  | cons x xs ih =>
    rw [List.mapM_cons, h x List.mem_cons_self, ih (fun a ha => h a (List.mem_cons_of_mem _ ha))]
    rfl

/-! ### the block table -/

theorem blockToCov_size (c : Cfg) (s : State V) : (blockToCov c s).size = nblk c s := by
  simp [blockToCov]

/-- lookup of a pixel written as `k*nfine + j`, given the block of `k` -/
theorem lookup_block (c : Cfg) (s : State V) {k b j : Nat}
    (hbs : blockStart c s k = (((b + 1) * c.nfine : Nat) : Int)) (hj : j < c.nfine) :
    lookup c s (k * c.nfine + j) = (((b + 1) * c.nfine + j : Nat) : Int) := by
  obtain ⟨h1, h2⟩ := mul_add_div_mod (k := k) hj
  rw [lookup_eq, shift_eq_div, h1, h2, hbs]
  omega

theorem abs_block (c : Cfg) (vc : VCfg V) (s : State V) {k b j : Nat}
    (hbs : blockStart c s k = (((b + 1) * c.nfine : Nat) : Int)) (hj : j < c.nfine) :
    abs c vc s (k * c.nfine + j) = rd s.sp ((b + 1) * c.nfine + j) vc.sentinel := by
  unfold abs
  rw [lookup_block c s hbs hj, Int.toNat_natCast]

section
variable [DecidableEq V] {c : Cfg} {vc : VCfg V} {s : State V}

theorem Inv.blockToCov_spec (h : Inv c vc s) {b : Nat} (hb : b < nblk c s) :
    ∃ k, k < c.ncov ∧ blockStart c s k = (((b + 1) * c.nfine : Nat) : Int) ∧
      (blockToCov c s)[b]? = some k := by
  obtain ⟨k0, hk0, hbs0⟩ := h.2.2.2.2.2 b hb
  have hget : (blockToCov c s)[b]? = some (((List.range c.ncov).find? fun k =>
        blockStart c s k == (((b + 1) * c.nfine : Nat) : Int)).getD 0) := by
    simp [blockToCov, hb]
  cases hf : (List.range c.ncov).find? fun k =>
      blockStart c s k == (((b + 1) * c.nfine : Nat) : Int) with
  | none =>
    have := List.find?_eq_none.1 hf k0 (List.mem_range.2 hk0)
    simp [hbs0] at this
  | some k =>
    have h1 := List.find?_some hf
    have h2 := List.mem_range.1 (List.mem_of_find?_eq_some hf)
    refine ⟨k, h2, by simpa using h1, ?_⟩
    rw [hget, hf]; rfl

theorem Inv.blockToCov_of_bs (h : Inv c vc s) {k b : Nat} (hk : k < c.ncov) (hb : b < nblk c s)
    (hbs : blockStart c s k = (((b + 1) * c.nfine : Nat) : Int)) :
    (blockToCov c s)[b]? = some k := by
  obtain ⟨k', hk', hbs', hget⟩ := h.blockToCov_spec hb
  have : k = k' := h.2.2.2.2.1 k hk k' hk'
    (by rw [hbs]; exact_mod_cast le_succ_mul _ _) (by rw [hbs, hbs'])
  rw [this]; exact hget

theorem Inv.blockToCov_some (h : Inv c vc s) {k b : Nat} (hget : (blockToCov c s)[b]? = some k) :
    b < nblk c s ∧ k < c.ncov ∧ blockStart c s k = (((b + 1) * c.nfine : Nat) : Int) := by
  have hb : b < nblk c s := by
    rw [← blockToCov_size]; exact (Array.getElem?_eq_some_iff.1 hget).1
  obtain ⟨k', hk', hbs', hget'⟩ := h.blockToCov_spec hb
  rw [hget] at hget'; cases hget'
  exact ⟨hb, hk', hbs'⟩

theorem Inv.covered_iff_blockToCov (h : Inv c vc s) {k : Nat} (hk : k < c.ncov) :
    covered c s k = true ↔ ∃ b : Nat, (blockToCov c s)[b]? = some k := by
  constructor
  · intro hc
    obtain ⟨b, hb, hbs⟩ := h.covered_blk hk hc
    exact ⟨b, h.blockToCov_of_bs hk hb hbs⟩
  · rintro ⟨b, hget⟩
    obtain ⟨_, _, hbs⟩ := h.blockToCov_some hget
    rw [covered_eq_true_iff, hbs]
    exact_mod_cast le_succ_mul _ _

end

/-! ### storage cells beyond the overflow block ↔ pixels of covered coverage pixels -/

/-- the sky pixel stored in cell `i` (meaningful for `nfine ≤ i < sp.size`) -/
def pixOfCell (c : Cfg) (s : State V) (i : Nat) : Nat :=
  ((blockToCov c s)[i / c.nfine - 1]?).getD 0 * c.nfine + i % c.nfine

section
variable [DecidableEq V] {c : Cfg} {vc : VCfg V} {s : State V}

/-- decomposition of a data cell -/
theorem Inv.cell_spec (h : Inv c vc s) {i : Nat} (h1 : c.nfine ≤ i) (h2 : i < s.sp.size) :
    ∃ b k, b < nblk c s ∧ k < c.ncov ∧ i / c.nfine = b + 1 ∧
      i = (b + 1) * c.nfine + i % c.nfine ∧
      blockStart c s k = (((b + 1) * c.nfine : Nat) : Int) ∧
      (blockToCov c s)[b]? = some k ∧
      pixOfCell c s i = k * c.nfine + i % c.nfine := by
  have hn := c.nfine_pos
  have hq1 : 1 ≤ i / c.nfine := (Nat.le_div_iff_mul_le hn).2 (by omega)
  have hq2 : i / c.nfine < nblk c s + 1 := by
    rw [Nat.div_lt_iff_lt_mul hn, ← h.size_eq]; exact h2
  have hb : i / c.nfine - 1 < nblk c s := by omega
  obtain ⟨k, hk, hbs, hget⟩ := h.blockToCov_spec hb
  have hb1 : i / c.nfine - 1 + 1 = i / c.nfine := by omega
  refine ⟨i / c.nfine - 1, k, hb, hk, hb1.symm, ?_, hbs, hget, ?_⟩
  · rw [hb1, Nat.mul_comm]; exact (Nat.div_add_mod i c.nfine).symm
  · unfold pixOfCell; rw [hget]; rfl

theorem Inv.pixOfCell_spec (h : Inv c vc s) {i : Nat} (h1 : c.nfine ≤ i) (h2 : i < s.sp.size) :
    pixOfCell c s i < c.npix ∧ covered c s (pixOfCell c s i >>> c.shift) = true ∧
      lookup c s (pixOfCell c s i) = ((i : Nat) : Int) ∧
      abs c vc s (pixOfCell c s i) = rd s.sp i vc.sentinel ∧
      ∃ k, covPixFromIndex c s i = some k ∧
        ((i : Nat) : Int) - rd s.cov k 0 = ((pixOfCell c s i : Nat) : Int) := by
  obtain ⟨b, k, hb, hk, hdiv, hi, hbs, hget, hpix⟩ := h.cell_spec h1 h2
  have hr := Nat.mod_lt i c.nfine_pos
  have hl : lookup c s (pixOfCell c s i) = ((i : Nat) : Int) := by
    rw [hpix, lookup_block c s hbs hr, ← hi]
  refine ⟨?_, ?_, hl, ?_, k, ?_, ?_⟩
  · rw [hpix]; exact mul_add_lt_mul hk hr
  · rw [hpix, shift_eq_div, (mul_add_div_mod hr).1, covered_eq_true_iff, hbs]
    exact_mod_cast le_succ_mul _ _
  · unfold abs; rw [hl, Int.toNat_natCast]
  · unfold covPixFromIndex
    simp only
    rw [if_neg (by omega), hdiv]
    exact hget
  · rw [hpix]
    unfold blockStart at hbs
    omega

/-- a valid cell is a data cell -/
theorem Inv.valid_cell_range (h : Inv c vc s) (hv : vc.valid vc.sentinel = false) {i : Nat}
    (hval : vc.valid (rd s.sp i vc.sentinel) = true) : c.nfine ≤ i ∧ i < s.sp.size := by
  constructor
  · apply Nat.le_of_not_lt
    intro hlt
    have : rd s.sp i vc.sentinel = vc.sentinel := by
      unfold rd; rw [h.2.2.1 i hlt]; rfl
    rw [this, hv] at hval; cases hval
  · apply Nat.lt_of_not_le
    intro hle
    rw [rd_oob _ _ _ hle, hv] at hval; cases hval

omit [DecidableEq V] in
theorem mem_validCells (vc : VCfg V) (s : State V) (i : Nat) :
    i ∈ validCells vc s ↔ i < s.sp.size ∧ vc.valid (rd s.sp i vc.sentinel) = true := by
  simp [validCells]

omit [DecidableEq V] in
theorem nodup_validCells (vc : VCfg V) (s : State V) : (validCells vc s).Nodup :=
  List.filter_sublist.nodup List.nodup_range

/-- a valid pixel lies in a covered coverage pixel -/
theorem Inv.covered_of_valid (h : Inv c vc s) (hv : vc.valid vc.sentinel = false) {p : Nat}
    (hp : p < c.npix) (hval : vc.valid (abs c vc s p) = true) :
    covered c s (p >>> c.shift) = true := by
  cases hc : covered c s (p >>> c.shift) with
  | true => rfl
  | false => rw [h.abs_uncovered hp hc, hv] at hval; cases hval

/-- `valid_pixels` as a plain map over the valid cells -/
theorem Inv.validPixels_eq (h : Inv c vc s) (hv : vc.valid vc.sentinel = false) :
    validPixels c vc s =
      some (((validCells vc s).map (pixOfCell c s)).map fun p => ((p : Nat) : Int)) := by
  unfold validPixels
  rw [List.map_map]
  apply mapM_option_eq_some
  intro i hi
  have hval := ((mem_validCells vc s i).1 hi).2
  obtain ⟨h1, h2⟩ := h.valid_cell_range hv hval
  obtain ⟨_, _, _, _, k, hk, he⟩ := h.pixOfCell_spec (vc := vc) h1 h2
  rw [hk]
  simp only [Option.map_some, Function.comp_apply, he]

/-- members of the valid-cell image are exactly the valid pixels -/
theorem Inv.mem_validCells_map (h : Inv c vc s) (hv : vc.valid vc.sentinel = false) (p : Nat) :
    p ∈ (validCells vc s).map (pixOfCell c s) ↔
      p < c.npix ∧ vc.valid (abs c vc s p) = true := by
  rw [List.mem_map]
  constructor
  · rintro ⟨i, hi, rfl⟩
    have hval := ((mem_validCells vc s i).1 hi).2
    obtain ⟨h1, h2⟩ := h.valid_cell_range hv hval
    obtain ⟨hlt, _, _, habs, _⟩ := h.pixOfCell_spec (vc := vc) h1 h2
    exact ⟨hlt, by rw [habs]; exact hval⟩
  · rintro ⟨hp, hval⟩
    have hc := h.covered_of_valid hv hp hval
    obtain ⟨hi1, hi2, hl⟩ := h.idxOf_covered hp hc
    refine ⟨idxOf c s p, (mem_validCells vc s _).2 ⟨hi2, hval⟩, ?_⟩
    obtain ⟨hlt, hcov, hl', _, _⟩ := h.pixOfCell_spec (vc := vc) hi1 hi2
    exact h.lookup_inj hlt hp hcov (by rw [hl', hl])

theorem Inv.nodup_validCells_map (h : Inv c vc s) (hv : vc.valid vc.sentinel = false) :
    ((validCells vc s).map (pixOfCell c s)).Nodup := by
  apply nodup_map_of_inj_on (nodup_validCells vc s)
  intro i hi i' hi' he
  have hval := ((mem_validCells vc s i).1 hi).2
  have hval' := ((mem_validCells vc s i').1 hi').2
  obtain ⟨h1, h2⟩ := h.valid_cell_range hv hval
  obtain ⟨h1', h2'⟩ := h.valid_cell_range hv hval'
  obtain ⟨_, _, hl, _, _⟩ := h.pixOfCell_spec (vc := vc) h1 h2
  obtain ⟨_, _, hl', _, _⟩ := h.pixOfCell_spec (vc := vc) h1' h2'
  rw [he, hl'] at hl
  exact_mod_cast hl.symm

end

/-! ### per coverage pixel -/

section
variable [DecidableEq V] {c : Cfg} {vc : VCfg V} {s : State V}

/-- no valid pixel inside an uncovered coverage pixel -/
theorem Inv.valid_uncovered (h : Inv c vc s) (hv : vc.valid vc.sentinel = false) {k j : Nat}
    (hk : k < c.ncov) (hc : covered c s k = false) (hj : j < c.nfine) :
    vc.valid (abs c vc s (k * c.nfine + j)) = false := by
  have hp : k * c.nfine + j < c.npix := mul_add_lt_mul hk hj
  rw [h.abs_uncovered hp (by rw [shift_eq_div, (mul_add_div_mod hj).1]; exact hc)]
  exact hv

theorem Inv.filter_uncovered (h : Inv c vc s) (hv : vc.valid vc.sentinel = false) {k : Nat}
    (hk : k < c.ncov) (hc : covered c s k = false) :
    ((List.range c.nfine).filter fun j => vc.valid (abs c vc s (k * c.nfine + j))) = [] := by
  rw [List.filter_eq_nil_iff]
  intro j hj
  rw [h.valid_uncovered hv hk hc (List.mem_range.1 hj)]
  simp

omit [DecidableEq V] in
/-- the valid offsets of a covered coverage pixel, read from its block -/
theorem filter_block (c : Cfg) (vc : VCfg V) (s : State V) {k b : Nat}
    (hbs : blockStart c s k = (((b + 1) * c.nfine : Nat) : Int)) :
    ((List.range c.nfine).filter fun j => vc.valid (rd s.sp ((b + 1) * c.nfine + j) vc.sentinel)) =
    ((List.range c.nfine).filter fun j => vc.valid (abs c vc s (k * c.nfine + j))) := by
  apply List.filter_congr
  intro j hj
  rw [abs_block c vc s hbs (List.mem_range.1 hj)]

/-- the table search of `coverageCounts` -/
theorem Inv.find_block (h : Inv c vc s) {k : Nat} (hk : k < c.ncov) :
    match (List.range (blockToCov c s).size).find? (fun b => (blockToCov c s)[b]? == some k) with
    | some b => covered c s k = true ∧ blockStart c s k = (((b + 1) * c.nfine : Nat) : Int)
    | none => covered c s k = false := by
  split
  · rename_i b hf
    have h1 := List.find?_some hf
    have hget : (blockToCov c s)[b]? = some k := by simpa using h1
    exact ⟨(h.covered_iff_blockToCov hk).2 ⟨b, hget⟩, (h.blockToCov_some hget).2.2⟩
  · rename_i hf
    rw [List.find?_eq_none] at hf
    cases hc : covered c s k with
    | false => rfl
    | true =>
      obtain ⟨b, hget⟩ := (h.covered_iff_blockToCov hk).1 hc
      have hb := (h.blockToCov_some hget).1
      rw [← blockToCov_size] at hb
      exact absurd (by simpa using hget) (hf b (List.mem_range.2 hb))

end

/-! ### the fracdet map -/

/-- the layout only depends on the index, the storage size and the overflow block -/
theorem inv_of_cov_eq {W : Type} [DecidableEq V] [DecidableEq W] {c : Cfg} {vc : VCfg V}
    {vw : VCfg W} {s : State V} {s' : State W} (h : Inv c vc s) (hcov : s'.cov = s.cov)
    (hsz : s'.sp.size = s.sp.size) (hovf : ∀ i, i < c.nfine → s'.sp[i]? = some vw.sentinel) :
    Inv c vw s' := by
  have hbs : ∀ k, blockStart c s' k = blockStart c s k := by
    intro k; unfold blockStart; rw [hcov]
  have hnb : nblk c s' = nblk c s := by unfold nblk; rw [hsz]
  obtain ⟨h1, h2, _, h4, h5, h6⟩ := h
  refine ⟨by rw [hcov]; exact h1, by rw [hsz, hnb]; exact h2, hovf, ?_, ?_, ?_⟩
  · intro k hk; rw [hbs, hsz]; exact h4 k hk
  · intro k hk k' hk'; rw [hbs, hbs]; exact h5 k hk k' hk'
  · intro b hb
    rw [hnb] at hb
    obtain ⟨k, hk, hkb⟩ := h6 b hb
    exact ⟨k, hk, by rw [hbs]; exact hkb⟩

/-- configuration and cell parameters of a fracdet map -/
def fcfg (c : Cfg) (g : Nat) : Cfg := ⟨c.ncov, c.shift - g⟩
def fvc : VCfg Nat := ⟨0, fun n => n != 0⟩

theorem fcfg_nfine (c : Cfg) {g : Nat} (hg : g ≤ c.shift) : (fcfg c g).nfine * 2 ^ g = c.nfine :=
  Nat.pow_sub_mul_pow 2 hg

theorem fracdet_sp_size (c : Cfg) (vc : VCfg V) (s : State V) (g : Nat) :
    (fracdetCounts c vc s g).sp.size = s.sp.size / 2 ^ g := by
  simp [fracdetCounts]

theorem fracdet_sp_get (c : Cfg) (vc : VCfg V) (s : State V) (g : Nat) {R : Nat}
    (hR : R < s.sp.size / 2 ^ g) :
    (fracdetCounts c vc s g).sp[R]? = some (((List.range (2 ^ g)).filter fun j =>
      vc.valid (rd s.sp (R * 2 ^ g + j) vc.sentinel)).length) := by
  simp [fracdetCounts, hR]

section
variable [DecidableEq V] {c : Cfg} {vc : VCfg V} {s : State V} {g : Nat}

theorem Inv.blockToCov_nodup (h : Inv c vc s) : (blockToCov c s).toList.Nodup := by
  rw [List.nodup_iff_pairwise_ne, List.pairwise_iff_getElem]
  intro i j hi hj hij he
  have gi : (blockToCov c s)[i]? = some (blockToCov c s).toList[i] := by
    rw [← Array.getElem?_toList]; exact List.getElem?_eq_getElem hi
  have gj : (blockToCov c s)[j]? = some (blockToCov c s).toList[i] := by
    rw [he, ← Array.getElem?_toList]; exact List.getElem?_eq_getElem hj
  have a := (h.blockToCov_some gi).2.2
  have b := (h.blockToCov_some gj).2.2
  have := succ_mul_cast_inj c.nfine_pos (a.symm.trans b)
  omega

theorem Inv.blockToCov_lt (h : Inv c vc s) : ∀ k ∈ (blockToCov c s).toList, k < c.ncov := by
  intro k hk
  obtain ⟨b, hb⟩ := List.getElem?_of_mem hk
  rw [Array.getElem?_toList] at hb
  exact (h.blockToCov_some hb).2.1

theorem Inv.fracdet_size (h : Inv c vc s) (hg : g ≤ c.shift) :
    s.sp.size / 2 ^ g = (nblk c s + 1) * (fcfg c g).nfine := by
  rw [h.size_eq, ← fcfg_nfine c hg, ← Nat.mul_assoc, Nat.mul_div_cancel _ (Nat.two_pow_pos g)]

theorem Inv.fracdet_inv' (h : Inv c vc s) (hv : vc.valid vc.sentinel = false) (hg : g ≤ c.shift) :
    Inv (fcfg c g) fvc (fracdetCounts c vc s g) := by
  have hme := inv_makeEmpty' (fcfg c g) fvc _ h.blockToCov_nodup h.blockToCov_lt
  refine inv_of_cov_eq (s' := fracdetCounts c vc s g) (vw := fvc) hme rfl ?_ ?_
  · rw [fracdet_sp_size, h.fracdet_size hg]
    simp [makeEmpty, blockToCov_size]
  · intro i hi
    have hR : i < s.sp.size / 2 ^ g := by
      rw [h.fracdet_size hg]
      exact Nat.lt_of_lt_of_le hi (le_succ_mul _ _)
    rw [fracdet_sp_get c vc s g hR]
    congr 1
    show _ = 0
    rw [List.length_eq_zero_iff, List.filter_eq_nil_iff]
    intro j hj
    have hlt : i * 2 ^ g + j < c.nfine := by
      rw [← fcfg_nfine c hg]; exact mul_add_lt_mul hi (List.mem_range.1 hj)
    have : rd s.sp (i * 2 ^ g + j) vc.sentinel = vc.sentinel := by
      unfold rd; rw [h.2.2.1 _ hlt]; rfl
    rw [this, hv]
    simp

theorem Inv.fracdet_bs_mem (h : Inv c vc s) {k b : Nat} (hget : (blockToCov c s)[b]? = some k) :
    blockStart (fcfg c g) (fracdetCounts c vc s g) k =
      (((b + 1) * (fcfg c g).nfine : Nat) : Int) :=
  makeEmpty_blockStart_mem (fcfg c g) fvc _ k b (h.blockToCov_some hget).2.1 h.blockToCov_nodup
    (by rw [Array.getElem?_toList]; exact hget)

theorem Inv.fracdet_bs_not_mem (h : Inv c vc s) {k : Nat} (hk : k < c.ncov)
    (hc : covered c s k = false) :
    blockStart (fcfg c g) (fracdetCounts c vc s g) k = 0 := by
  refine makeEmpty_blockStart_not_mem (fcfg c g) fvc _ k hk ?_
  intro hm
  obtain ⟨b, hb⟩ := List.getElem?_of_mem hm
  rw [Array.getElem?_toList] at hb
  have := (h.covered_iff_blockToCov hk).2 ⟨b, hb⟩
  rw [hc] at this
  cases this

theorem Inv.fracdet_covered' (h : Inv c vc s) {k : Nat} (hk : k < c.ncov) :
    covered (fcfg c g) (fracdetCounts c vc s g) k = covered c s k := by
  cases hc : covered c s k with
  | true =>
    obtain ⟨b, hget⟩ := (h.covered_iff_blockToCov hk).1 hc
    rw [covered_eq_true_iff, h.fracdet_bs_mem hget]
    exact_mod_cast le_succ_mul _ _
  | false =>
    rw [covered_eq_false_iff, h.fracdet_bs_not_mem hk hc]
    exact_mod_cast (fcfg c g).nfine_pos

theorem Inv.fracdet_eq' (h : Inv c vc s) (hv : vc.valid vc.sentinel = false) (hg : g ≤ c.shift)
    {q : Nat} (hq : q < (fcfg c g).npix) :
    abs (fcfg c g) fvc (fracdetCounts c vc s g) q =
      ((List.range (2 ^ g)).filter fun j => vc.valid (abs c vc s (q * 2 ^ g + j))).length := by
  have hn' := (fcfg c g).nfine_pos
  have hnn := fcfg_nfine c hg
  obtain ⟨K, r, hr, rfl⟩ : ∃ K r, r < (fcfg c g).nfine ∧ q = K * (fcfg c g).nfine + r :=
    ⟨q / (fcfg c g).nfine, q % (fcfg c g).nfine, Nat.mod_lt _ hn', by
      rw [Nat.mul_comm]; exact (Nat.div_add_mod _ _).symm⟩
  have hK : K < c.ncov := by
    have h1 : K * (fcfg c g).nfine < c.ncov * (fcfg c g).nfine :=
      Nat.lt_of_le_of_lt (Nat.le_add_right _ _) hq
    exact Nat.lt_of_mul_lt_mul_right h1
  have hpix : ∀ j, j < 2 ^ g →
      (K * (fcfg c g).nfine + r) * 2 ^ g + j = K * c.nfine + (r * 2 ^ g + j) ∧
        r * 2 ^ g + j < c.nfine := by
    intro j hj
    constructor
    · rw [← hnn, Nat.add_mul, Nat.mul_assoc, Nat.add_assoc]
    · rw [← hnn]; exact mul_add_lt_mul hr hj
  cases hc : covered c s K with
  | false =>
    have hcq : covered (fcfg c g) (fracdetCounts c vc s g)
        ((K * (fcfg c g).nfine + r) >>> (fcfg c g).shift) = false := by
      rw [shift_eq_div, (mul_add_div_mod hr).1, h.fracdet_covered' hK, hc]
    rw [(h.fracdet_inv' hv hg).abs_uncovered hq hcq]
    symm
    show _ = 0
    rw [List.length_eq_zero_iff, List.filter_eq_nil_iff]
    intro j hj
    obtain ⟨e1, e2⟩ := hpix j (List.mem_range.1 hj)
    rw [e1, h.valid_uncovered hv hK hc e2]
    simp
  | true =>
    obtain ⟨b, hb, hbs⟩ := h.covered_blk hK hc
    have hget := h.blockToCov_of_bs hK hb hbs
    rw [abs_block (fcfg c g) fvc _ (h.fracdet_bs_mem hget) hr]
    have hR : (b + 1) * (fcfg c g).nfine + r < s.sp.size / 2 ^ g := by
      rw [h.fracdet_size hg]; exact (blk_cell_range hb hr).2
    unfold rd
    rw [fracdet_sp_get c vc s g hR]
    show List.length _ = _
    congr 1
    apply List.filter_congr
    intro j hj
    obtain ⟨e1, e2⟩ := hpix j (List.mem_range.1 hj)
    rw [e1, abs_block c vc s hbs e2]
    congr 2
    rw [← hnn, Nat.add_mul, Nat.mul_assoc, Nat.add_assoc]

end

end HS
