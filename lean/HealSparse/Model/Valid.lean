/-
  Validity accounting: valid_pixels, n_valid, coverage_map, fracdet_map,
  valid_pixels_single_covpix.

  Mirrors healSparseMap.py: valid_pixels (1335-1354), n_valid (1385-1410, without the
  cache, which lives in `MapObj.cache`), coverage_map (989-1021), fracdet_map (1035-1099),
  valid_pixels_single_covpix (1431-1468);  healSparseCoverage.py: cov_pixels_from_index.
-/
import HealSparse.Model.Core
import HealSparse.Model.Map
namespace HS

variable {V : Type}

/-- `cov_pixels_from_index(i) = _block_to_cov_index[i // nfine - 1]` with numpy's
    negative-index wrap for the overflow block (`table[-1]`, IndexError on an empty table). -/
def covPixFromIndex (c : Cfg) (s : State V) (i : Nat) : Option Nat :=
  let t := blockToCov c s
  if i / c.nfine = 0 then t.back? else t[i / c.nfine - 1]?

/-- storage indices of valid cells (`np.where(sparse_map != sentinel)`), whole storage -/
def validCells (vc : VCfg V) (s : State V) : List Nat :=
  (List.range s.sp.size).filter fun i => vc.valid (rd s.sp i vc.sentinel)

/-- `valid_pixels`: valid cell indices mapped back to sky pixels, in storage order.
    `none` = numpy IndexError. Pixel numbers are `Int` as in the code (they are
    non-negative exactly when the layout invariant holds). -/
def validPixels (c : Cfg) (vc : VCfg V) (s : State V) : Option (List Int) :=
  (validCells vc s).mapM fun i =>
    (covPixFromIndex c s i).map fun k => (i : Int) - rd s.cov k 0

/-- `n_valid` (uncached computation): number of valid cells over the whole storage. -/
def nValid (vc : VCfg V) (s : State V) : Nat := (validCells vc s).length

/-- number of valid cells in storage block `b` -/
def blockCount (c : Cfg) (vc : VCfg V) (s : State V) (b : Nat) : Nat :=
  ((List.range c.nfine).filter fun j => vc.valid (rd s.sp (b * c.nfine + j) vc.sentinel)).length

/-- `coverage_map * nfine`: per coverage pixel, the per-block count of the block the
    index sends it to (`cov_map[block_to_cov_index] = counts[1:]`). -/
def coverageCounts (c : Cfg) (vc : VCfg V) (s : State V) : List Nat :=
  let t := blockToCov c s
  (List.range c.ncov).map fun k =>
    match (List.range t.size).find? (fun b => t[b]? == some k) with
    | some b => blockCount c vc s (b + 1)
    | none => 0

/-- `valid_pixels_single_covpix(k)` -/
def validPixelsSingleCovpix (c : Cfg) (vc : VCfg V) (s : State V) (k : Nat) : Option (List Int) :=
  if !covered c s k then some []
  else
    let start := (blockStart c s k).toNat
    match covPixFromIndex c s start with
    | none => none
    | some k' =>
      some (((List.range c.nfine).filter fun j => vc.valid (rd s.sp (start + j) vc.sentinel)).map
        fun (j : Nat) => ((j : Nat) : Int) - rd s.cov k' 0 + ((start : Nat) : Int))

/-- `fracdet_map(nside)`: `g = log2 nfine_per_frac` (bits). Output: a map at the coarser
    sparse resolution with the same coverage pixels in the same block order; cell value =
    number of valid fine cells in each group of `2^g` consecutive cells (the harness
    divides by `2^g`; the sentinel of the result is 0). -/
def fracdetCounts (c : Cfg) (vc : VCfg V) (s : State V) (g : Nat) : State Nat :=
  let cOut : Cfg := ⟨c.ncov, c.shift - g⟩
  let grp := 2 ^ g
  { cov := initializePixels cOut (emptyCov cOut) (blockToCov c s).toList
    sp  := (Array.range (s.sp.size / grp)).map fun r =>
      ((List.range grp).filter fun j => vc.valid (rd s.sp (r * grp + j) vc.sentinel)).length }

end HS
