/-
  Coverage-index construction and the update path of HealSparseMap.

  Mirrors:
    HealSparseCoverage.make_empty / initialize_pixels / append_pixels
    HealSparseMap.make_empty, _reserve_cov_pix, update_values_pix (lines 624-676)
  Generic in the cell type `V`; the update operation is a parameter
  `g : V → W → V` applied in list order (numpy `ufunc.at` semantics).
-/
import HealSparse.Model.Core
namespace HS

variable {V : Type}

/-- `HealSparseCoverage.make_empty`: `cov[k] = -k*nfine`. -/
def emptyCov (c : Cfg) : Array Int :=
  (Array.range c.ncov).map fun k => -(((k * c.nfine : Nat) : Int))

/-- `initialize_pixels(P)`: `cov[P[i]] += (i+1)*nfine` (block numbers follow list order;
    `P` must be duplicate-free and in range — numpy's buffered `+=` would otherwise drop
    all but the last addition, the model then differs and the harness never sends such lists). -/
def initializePixels (c : Cfg) (cov : Array Int) (P : List Nat) : Array Int :=
  P.zipIdx.foldl (fun cov ki => cov.modify ki.1 (· + (((ki.2 + 1) * c.nfine : Nat) : Int))) cov

/-- `append_pixels(sparse_map_size, new_cov_pix)`: the `i`-th new pixel gets block start
    `size + i*nfine`. -/
def appendPixels (c : Cfg) (cov : Array Int) (size : Nat) (new : List Nat) : Array Int :=
  new.zipIdx.foldl (fun cov ki =>
    cov.setIfInBounds ki.1 (((ki.2 * c.nfine + size : Nat) : Int) - ((ki.1 * c.nfine : Nat) : Int))) cov

/-- `HealSparseMap.make_empty(..., cov_pixels=P)`. -/
def makeEmpty (c : Cfg) (vc : VCfg V) (P : List Nat) : State V :=
  { cov := initializePixels c (emptyCov c) P
    sp  := Array.replicate ((P.length + 1) * c.nfine) vc.sentinel }

/-- `_reserve_cov_pix(new)`: index replaced, storage extended, tail filled with `sp[0]`. -/
def reserve (c : Cfg) (vc : VCfg V) (s : State V) (new : List Nat) : State V :=
  { cov := appendPixels c s.cov s.sp.size new
    sp  := s.sp ++ Array.replicate (new.length * c.nfine) (rd s.sp 0 vc.sentinel) }

/-- `np.where(new_cov_temp > 0)`: sorted, duplicate-free uncovered coverage pixels
    touched by `pix`. -/
def newCovPix (c : Cfg) (s : State V) (pix : List Nat) : List Nat :=
  (List.range c.ncov).filter fun k => !covered c s k && pix.any (fun p => p >>> c.shift == k)

/-- storage index as a natural number -/
def idxOf (c : Cfg) (s : State V) (p : Nat) : Nat := (lookup c s p).toNat

/-- `update_values_pix` lines 624-676: in-coverage scatter, growth, out-of-coverage
    scatter into the new tail.  `L` is the (pixel, operand) list in call order. -/
def updateCore {W : Type} (c : Cfg) (vc : VCfg V) (s : State V) (g : V → W → V)
    (L : List (Nat × W)) (noAppend : Bool) : State V :=
  let inL  := L.filter fun pw => covered c s (pw.1 >>> c.shift)
  let outL := L.filter fun pw => !covered c s (pw.1 >>> c.shift)
  let s1 : State V := { s with sp := scatter g s.sp (inL.map fun pw => (idxOf c s pw.1, pw.2)) }
  if outL.isEmpty || noAppend then s1
  else
    let s2 := reserve c vc s1 (newCovPix c s (outL.map (·.1)))
    { s2 with sp := scatter g s2.sp (outL.map fun pw => (idxOf c s2 pw.1, pw.2)) }

/-- The per-stage operand list of `_do_operation_on_sparse_map`: an optional pre-pass
    (`add` over a non-zero sentinel zeroes the addressed sentinel cells first), then the
    operation proper.  `none` = pre-pass marker. -/
def stageList {W : Type} (pre : Bool) (pv : List (Nat × W)) : List (Nat × Option W) :=
  (if pre then pv.map (fun pw => (pw.1, none)) else []) ++ pv.map (fun pw => (pw.1, some pw.2))

/-- operation with pre-pass: `none` ↦ `pre x`, `some w` ↦ `f x w`. -/
def stageOp {W : Type} (pre : V → V) (f : V → W → V) (x : V) (o : Option W) : V :=
  match o with
  | none   => pre x
  | some w => f x w

/-- `update_values_pix` for one operation. -/
def updatePix {W : Type} (c : Cfg) (vc : VCfg V) (s : State V) (pre : Option (V → V))
    (f : V → W → V) (pv : List (Nat × W)) (noAppend : Bool) : State V :=
  updateCore c vc s (stageOp (pre.getD id) f) (stageList pre.isSome pv) noAppend

/-! ### Dense specification -/

/-- What a full-resolution array holds at pixel `p` after the operand list `L`
    has been applied in order, starting from `x`. -/
def denseFold {W : Type} (g : V → W → V) (L : List (Nat × W)) (p : Nat) (x : V) : V :=
  L.foldl (fun x qw => if qw.1 = p then g x qw.2 else x) x

/-- Dense meaning of `updateCore`: the value part. -/
def denseUpdate {W : Type} (c : Cfg) (val : Nat → V) (cov : Nat → Bool) (g : V → W → V)
    (L : List (Nat × W)) (noAppend : Bool) (p : Nat) : V :=
  if noAppend && !cov (p >>> c.shift) then val p else denseFold g L p (val p)

/-- Dense meaning of `updateCore`: the coverage part. -/
def denseCov {W : Type} (c : Cfg) (cov : Nat → Bool) (L : List (Nat × W)) (noAppend : Bool)
    (k : Nat) : Bool :=
  cov k || (!noAppend && L.any (fun qw => qw.1 >>> c.shift == k))

end HS
