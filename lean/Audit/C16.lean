import HealSparse.Props.C16
#print axioms HS.C16.convert_spec
#print axioms HS.C16.generate_spec
#print axioms HS.C16.healpix_round_trip
#print axioms HS.C16.generate_ring_spec
#print axioms HS.C16.reorder_spec
#print axioms HS.C16.interp_rule
