/-
  C10 — maps with equal content are interchangeable, however they were produced.
  Property theorems only (helpers in HealSparse/Lemmas).  Two representations are
  content-equal (`Same`) when both satisfy the layout invariant and agree on every pixel
  value and on the coverage mask; block order, allocation history, empty blocks are free.
  Every operation of the model maps content-equal inputs to content-equal outputs and equal
  query answers (up to listing order).
-/
import HealSparse.Lemmas.Core
import HealSparse.Lemmas.Coverage
import HealSparse.Lemmas.Valid
import HealSparse.Model.Ranges
import HealSparse.Model.ScalarOps
import HealSparse.Model.BoolOps
import HealSparse.Model.MultiOps
import HealSparse.Model.Resolution
import HealSparse.Props.C01
import HealSparse.Props.C02
import HealSparse.Props.C06
import HealSparse.Props.C07
import HealSparse.Props.C08
import HealSparse.Props.C11
import HealSparse.Props.C12
import HealSparse.Props.C15
import HealSparse.Lemmas.Same
namespace HS
namespace C10

variable {V : Type} [DecidableEq V]

/-- content equality of two representations -/
def Same (c : Cfg) (vc : VCfg V) (s₁ s₂ : State V) : Prop :=
  Inv c vc s₁ ∧ Inv c vc s₂ ∧
  (∀ p, p < c.npix → abs c vc s₁ p = abs c vc s₂ p) ∧
  (∀ k, k < c.ncov → covered c s₁ k = covered c s₂ k)

/-- updates (any operation, duplicates, either append mode) -/
theorem same_updateCore {W : Type} (c : Cfg) (vc : VCfg V) (s₁ s₂ : State V) (g : V → W → V)
    (L : List (Nat × W)) (na : Bool) (h : Same c vc s₁ s₂) (hL : ∀ qw ∈ L, qw.1 < c.npix) :
    Same c vc (updateCore c vc s₁ g L na) (updateCore c vc s₂ g L na) := by
  obtain ⟨h1, h2, hab, hc⟩ := h
  refine ⟨C04.inv_updateCore c vc s₁ g L na h1 hL, C04.inv_updateCore c vc s₂ g L na h2 hL, ?_, ?_⟩
  · intro p hp
    rw [C01.updateCore_refines c vc s₁ g L na h1 hL p hp,
      C01.updateCore_refines c vc s₂ g L na h2 hL p hp]
    exact denseUpdate_congr c _ _ _ _ g L na p (hab p hp) (hc _ (covpix_lt c p hp))
  · intro k hk
    rw [C01.updateCore_covered c vc s₁ g L na h1 hL k hk,
      C01.updateCore_covered c vc s₂ g L na h2 hL k hk]
    exact denseCov_congr c _ _ L na k (hc k hk)

/-- range updates: equal values everywhere; each side's coverage contains the needed one
    (the slice path may allocate the coverage pixel just past a range ending on a block edge
    on both sides alike, so coverage is in fact equal) -/
theorem same_updateRanges (c : Cfg) (vc : VCfg V) (s₁ s₂ : State V) (f : V → V)
    (R : List (Nat × Nat)) (na : Bool) (h : Same c vc s₁ s₂) (hR : C08.RangesOk c R) :
    Inv c vc (updateRanges c vc s₁ f R na) ∧ Inv c vc (updateRanges c vc s₂ f R na) ∧
    (∀ p, p < c.npix → abs c vc (updateRanges c vc s₁ f R na) p = abs c vc (updateRanges c vc s₂ f R na) p) := by
  obtain ⟨h1, h2, hab, hc⟩ := h
  refine ⟨C08.inv_updateRanges c vc s₁ f R na h1 hR, C08.inv_updateRanges c vc s₂ f R na h2 hR, ?_⟩
  intro p hp
  rw [C08.updateRanges_refines c vc s₁ f R na h1 hR p hp,
    C08.updateRanges_refines c vc s₂ f R na h2 hR p hp]
  exact denseUpdate_congr c _ _ _ _ _ _ na p (hab p hp) (hc _ (covpix_lt c p hp))

/-- queries: the valid-pixel listings are permutations of each other; counts, per-coverage-
    pixel counts and listings, and fracdet values agree -/
theorem same_queries (c : Cfg) (vc : VCfg V) (s₁ s₂ : State V) (h : Same c vc s₁ s₂)
    (hv : vc.valid vc.sentinel = false) :
    (∃ l₁ l₂, validPixels c vc s₁ = some l₁ ∧ validPixels c vc s₂ = some l₂ ∧ l₁.Perm l₂) ∧
    nValid vc s₁ = nValid vc s₂ ∧
    (∀ k, k < c.ncov → (coverageCounts c vc s₁)[k]? = (coverageCounts c vc s₂)[k]?) ∧
    (∀ k, k < c.ncov → validPixelsSingleCovpix c vc s₁ k = validPixelsSingleCovpix c vc s₂ k) ∧
    (∀ g, g ≤ c.shift → ∀ q, q < (C02.fracCfg c g).npix →
        abs (C02.fracCfg c g) C02.fracVC (fracdetCounts c vc s₁ g) q
          = abs (C02.fracCfg c g) C02.fracVC (fracdetCounts c vc s₂ g) q) := by
  obtain ⟨h1, h2, hab, hc⟩ := h
  refine ⟨?_, ?_, ?_, ?_, ?_⟩
  · obtain ⟨l₁, e₁, p₁⟩ := C02.validPixels_spec c vc s₁ h1 hv
    obtain ⟨l₂, e₂, p₂⟩ := C02.validPixels_spec c vc s₂ h2 hv
    refine ⟨l₁, l₂, e₁, e₂, ?_⟩
    rw [validSet_congr c vc s₁ s₂ hab] at p₁
    exact p₁.trans p₂.symm
  · rw [C02.nValid_eq c vc s₁ h1 hv, C02.nValid_eq c vc s₂ h2 hv, validSet_congr c vc s₁ s₂ hab]
  · intro k hk
    rw [C02.coverageCounts_eq c vc s₁ h1 hv k hk, C02.coverageCounts_eq c vc s₂ h2 hv k hk,
      validIn_congr c vc s₁ s₂ hab k hk]
  · intro k hk
    rw [C02.vpsc_eq c vc s₁ h1 hv k hk, C02.vpsc_eq c vc s₂ h2 hv k hk,
      validIn_congr c vc s₁ s₂ hab k hk]
  · intro g hg q hq
    rw [C02.fracdet_eq c vc s₁ h1 hv g hg q hq, C02.fracdet_eq c vc s₂ h2 hv g hg q hq,
      fracCount_congr c vc s₁ s₂ hab g hg q hq]

/-- scalar operators, apply_mask, astype, as_bit_packed_map -/
theorem same_scalarOp (c : Cfg) (vc : VCfg V) (s₁ s₂ : State V) (f : V → V) (h : Same c vc s₁ s₂)
    (hv : vc.valid vc.sentinel = false) : Same c vc (scalarOp vc s₁ f) (scalarOp vc s₂ f) := by
  obtain ⟨h1, h2, hab, hc⟩ := h
  obtain ⟨i1, a1, c1⟩ := C12.scalarOp_spec c vc s₁ f h1 hv
  obtain ⟨i2, a2, c2⟩ := C12.scalarOp_spec c vc s₂ f h2 hv
  refine ⟨i1, i2, ?_, ?_⟩
  · intro p hp; rw [a1 p hp, a2 p hp, hab p hp]
  · intro k hk; rw [c1 k, c2 k, hc k hk]

theorem same_applyMask (c : Cfg) (vc : VCfg V) (s₁ s₂ : State V) (bad : Nat → Bool) (h : Same c vc s₁ s₂)
    (hv : vc.valid vc.sentinel = false) :
    ∃ r₁ r₂, applyMask c vc s₁ bad = some r₁ ∧ applyMask c vc s₂ bad = some r₂ ∧ Same c vc r₁ r₂ := by
  obtain ⟨h1, h2, hab, hc⟩ := h
  obtain ⟨r₁, e1, i1, a1, c1⟩ := C12.applyMask_spec c vc s₁ bad h1 hv
  obtain ⟨r₂, e2, i2, a2, c2⟩ := C12.applyMask_spec c vc s₂ bad h2 hv
  refine ⟨r₁, r₂, e1, e2, i1, i2, ?_, ?_⟩
  · intro p hp; rw [a1 p hp, a2 p hp, hab p hp]
  · intro k hk; rw [c1 k, c2 k, hc k hk]

theorem same_astype {V' : Type} [DecidableEq V'] (c : Cfg) (vc : VCfg V) (vc' : VCfg V') (s₁ s₂ : State V)
    (conv : V → V') (h : Same c vc s₁ s₂) (hv : vc.valid vc.sentinel = false) :
    Same c vc' (astypeMap vc s₁ conv vc'.sentinel) (astypeMap vc s₂ conv vc'.sentinel) := by
  obtain ⟨h1, h2, hab, hc⟩ := h
  obtain ⟨i1, a1, c1⟩ := C12.astype_spec c vc vc' s₁ conv h1 hv
  obtain ⟨i2, a2, c2⟩ := C12.astype_spec c vc vc' s₂ conv h2 hv
  refine ⟨i1, i2, ?_, ?_⟩
  · intro p hp; rw [a1 p hp, a2 p hp, hab p hp]
  · intro k hk; rw [c1 k, c2 k, hc k hk]

/-- boolean operators: content-equal left AND right operands -/
theorem same_boolMap (c : Cfg) (a₁ a₂ b₁ b₂ : State Bool) (op : Bool → Bool → Bool)
    (ha : Same c C11.bvc a₁ a₂) (hb : Same c C11.bvc b₁ b₂) :
    Same c C11.bvc (boolMapInPlace c C11.bvc a₁ b₁ op) (boolMapInPlace c C11.bvc a₂ b₂ op) ∧
    Same c C11.bvc (boolMapCopy c a₁ b₁ op) (boolMapCopy c a₂ b₂ op) := by
  obtain ⟨ha1, ha2, haab, hac⟩ := ha
  obtain ⟨hb1, hb2, hbab, hbc⟩ := hb
  obtain ⟨i1, a1, c1⟩ := C11.boolMapInPlace_spec c a₁ b₁ op ha1 hb1
  obtain ⟨i2, a2, c2⟩ := C11.boolMapInPlace_spec c a₂ b₂ op ha2 hb2
  obtain ⟨j1, d1, e1⟩ := C11.boolMapCopy_spec c a₁ b₁ op ha1 hb1
  obtain ⟨j2, d2, e2⟩ := C11.boolMapCopy_spec c a₂ b₂ op ha2 hb2
  have hA : ∀ p, p < c.npix → abs c C11.bvc (boolMapInPlace c C11.bvc a₁ b₁ op) p
      = abs c C11.bvc (boolMapInPlace c C11.bvc a₂ b₂ op) p := by
    intro p hp
    rw [a1 p hp, a2 p hp]
    exact denseBoolMap_congr c _ _ _ _ _ _ op p (haab p hp) (hbab p hp) (hbc _ (covpix_lt c p hp))
  have hC : ∀ k, k < c.ncov → covered c (boolMapInPlace c C11.bvc a₁ b₁ op) k
      = covered c (boolMapInPlace c C11.bvc a₂ b₂ op) k := by
    intro k hk
    rw [c1 k hk, c2 k hk, hac k hk, hbc k hk]
  refine ⟨⟨i1, i2, hA, hC⟩, ⟨j1, j2, ?_, ?_⟩⟩
  · intro p hp; rw [d1 p hp, d2 p hp]; exact hA p hp
  · intro k hk; rw [e1 k hk, e2 k hk]; exact hC k hk

theorem same_invert (c : Cfg) (s₁ s₂ : State Bool) (h : Same c C11.bvc s₁ s₂) :
    Same c C11.bvc (invertMap c s₁) (invertMap c s₂) := by
  obtain ⟨h1, h2, hab, hc⟩ := h
  obtain ⟨i1, a1, c1⟩ := C11.invert_spec c s₁ h1
  obtain ⟨i2, a2, c2⟩ := C11.invert_spec c s₂ h2
  refine ⟨i1, i2, ?_, ?_⟩
  · intro p hp; rw [a1 p hp, a2 p hp, hab p hp, hc _ (covpix_lt c p hp)]
  · intro k hk; rw [c1 k, c2 k, hc k hk]

/-- degrade (any reduction) and upgrade -/
theorem same_degrade {W : Type} [DecidableEq W] (c : Cfg) (vc : VCfg V) (vcOut : VCfg W) (s₁ s₂ : State V)
    (g : Nat) (red : List V → W) (h : Same c vc s₁ s₂) (hg : g ≤ c.shift) :
    Same (degCfg c g) vcOut (degradeMap c vc s₁ g red vcOut.sentinel)
      (degradeMap c vc s₂ g red vcOut.sentinel) := by
  obtain ⟨h1, h2, hab, hc⟩ := h
  obtain ⟨i1, a1, c1⟩ := C07.degrade_spec c vc vcOut s₁ g red h1 hg
  obtain ⟨i2, a2, c2⟩ := C07.degrade_spec c vc vcOut s₂ g red h2 hg
  refine ⟨i1, i2, ?_, ?_⟩
  · intro q hq
    have hk : q >>> (c.shift - g) < c.ncov := covpix_lt (degCfg c g) q hq
    rw [a1 q hq, a2 q hq, childrenVals_congr c vc s₁ s₂ hab g hg q hq, hc _ hk]
  · intro k hk
    have hk' : k < c.ncov := hk
    rw [c1 k hk', c2 k hk', hc k hk']

theorem same_upgrade (c : Cfg) (vc : VCfg V) (s₁ s₂ : State V) (g : Nat) (h : Same c vc s₁ s₂) :
    Same (C15.upCfg c g) vc (upgradeMap c vc s₁ g) (upgradeMap c vc s₂ g) := by
  obtain ⟨h1, h2, hab, hc⟩ := h
  obtain ⟨i1, a1, c1⟩ := C15.upgrade_spec c vc s₁ g h1
  obtain ⟨i2, a2, c2⟩ := C15.upgrade_spec c vc s₂ g h2
  refine ⟨i1, i2, ?_, ?_⟩
  · intro x hx
    rw [a1 x hx, a2 x hx]
    exact hab _ (upparent_lt c g x hx)
  · intro k hk
    have hk' : k < c.ncov := hk
    rw [c1 k hk', c2 k hk', hc k hk']

/-- union / intersection operations: pairwise content-equal input lists -/
theorem same_multiOp (c : Cfg) (vc : VCfg V) (ms₁ ms₂ : List (State V)) (f : V → V → V) (filler : V)
    (union fillFirst : Bool) (hlen : ms₁.length = ms₂.length)
    (h : ∀ i, i < ms₁.length → Same c vc (ms₁.getD i ⟨#[], #[]⟩) (ms₂.getD i ⟨#[], #[]⟩))
    (hv : vc.valid vc.sentinel = false) (hne : ms₁ ≠ []) (hff : fillFirst = true → union = false) :
    ∃ r₁ r₂, multiOp c vc ms₁ f filler union fillFirst = some r₁ ∧
      multiOp c vc ms₂ f filler union fillFirst = some r₂ ∧ Same c vc r₁ r₂ := by
  have hI1 : ∀ m ∈ ms₁, Inv c vc m := by
    intro m hm
    obtain ⟨i, hi, rfl⟩ := List.mem_iff_getElem.1 hm
    have := (h i hi).1
    rwa [getD_eq_getElem_of_lt _ _ hi] at this
  have hI2 : ∀ m ∈ ms₂, Inv c vc m := by
    intro m hm
    obtain ⟨i, hi, rfl⟩ := List.mem_iff_getElem.1 hm
    have := (h i (hlen ▸ hi)).2.1
    rwa [getD_eq_getElem_of_lt _ _ hi] at this
  have hne2 : ms₂ ≠ [] := by
    intro e
    apply hne
    rw [e] at hlen
    exact List.eq_nil_of_length_eq_zero hlen
  obtain ⟨r₁, e₁, i₁, a₁, c₁⟩ := C06.multiOp_spec c vc ms₁ f filler union fillFirst hI1 hv hne hff
  obtain ⟨r₂, e₂, i₂, a₂, c₂⟩ := C06.multiOp_spec c vc ms₂ f filler union fillFirst hI2 hv hne2 hff
  refine ⟨r₁, r₂, e₁, e₂, i₁, i₂, ?_, ?_⟩
  · intro p hp
    rw [a₁ p hp, a₂ p hp]
    apply denseMulti_congr c vc ms₁ ms₂ f filler union fillFirst p hlen
    intro i h₁ h₂
    have := (h i h₁).2.2.1 p hp
    rwa [getD_eq_getElem_of_lt _ _ h₁, getD_eq_getElem_of_lt _ _ h₂] at this
  · intro k hk
    rw [c₁ k hk, c₂ k hk]
    have := covAny_congr c k ms₁ ms₂ hlen (fun i h₁ h₂ => by
      have := (h i h₁).2.2.2 k hk
      rwa [getD_eq_getElem_of_lt _ _ h₁, getD_eq_getElem_of_lt _ _ h₂] at this)
    rw [this.1, this.2]

/-- **every continuation**: content-equal maps stay content-equal under any history of updates
    (the operand type may differ per call), hence give equal answers to every later query. -/
theorem history_interchangeable (c : Cfg) (vc : VCfg V) (s₁ s₂ : State V) (h : Same c vc s₁ s₂)
    (hist : List (C01.UpdOp V)) (hr : ∀ o ∈ hist, o.inRange c) :
    Same c vc (C01.runHist c vc s₁ hist) (C01.runHist c vc s₂ hist) := by
  induction hist generalizing s₁ s₂ with
  | nil => exact h
  | cons o hist ih =>
    have ho : o.inRange c := hr o List.mem_cons_self
    exact ih _ _ (same_updateCore c vc s₁ s₂ o.g o.L o.na h ho)
      (fun o' ho' => hr o' (List.mem_cons_of_mem _ ho'))

/-- non-vacuity: the same content built in two block orders (and with an allocated-but-empty block) -/
example : Same (V := Int) ⟨3, 1⟩ ⟨-1, fun x => x != -1⟩
    ⟨#[4, -2, -2], #[-1, -1, 7, -1, -1, 9]⟩ ⟨#[2, -2, 0], #[-1, -1, -1, 9, 7, -1]⟩ := by
  unfold Same; decide

/-! ### C10 at the WORLD level

The world-level theorems — content-equal worlds (`World.SameW`: the same names bound to maps with
the same configuration / kind / sentinel and `Same` states) are indistinguishable by any protocol
history: `C10.same_step`, `C10.same_history`, `C10.diff_same`, `C10.same_routes`,
`C10.upd_routes_sameW` — are in HealSparse/Props/C10World.lean (same namespace).  They cannot
live in this file: the lemma files they rest on (Lemmas/SameWorld.lean, SameOps.lean, and the
API-level files those import) import this file for `Same` and the `same_*` theorems above. -/

end C10
end HS
