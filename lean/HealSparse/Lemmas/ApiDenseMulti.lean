/-
  The protocol against the dense interpreter, continued (Lemmas/ApiDense.lean covers the plain
  lines): the MULTI-MAP and RESOLUTION family `mop` / `upg` / `deg` / `fracdet`.

  * `dUpgrade`, `dMulti`, `dDegrade` (`dRehouse`, `dCore`), `dFracdetMap`: `upgrade`,
    `_apply_operation`, `degrade` and `fracdet_map` on dense arrays, validation included (from
    the headers, the arguments and the dense values); `apiUpgrade_corr`, `multi_corr`,
    `rehouse_corr`, `core_corr`, `degrade_corr`, `fracdet_corr`: the API functions respect `Corr`;
  * `dstepArgsM` / `dstepM` / `drunM`: the dense interpreter extended by the four lines;
  * `rel_stepM`, `rel_runLinesM`: one line / a history keeps a (good) world and a dense world in
    agreement and is answered alike.

  FINDINGS (see `mopSettled`, `coreSettled`, and the `#guard` counterexamples in
  Props/C06Dense.lean): the answer of a `mop` line, and of a `deg` line with `sum` / `prod`, is
  NOT a function of the dense views of its inputs.  `_apply_operation` returns
  `make_empty_like(first)` before any look at the cells when the combined COVERAGE is empty;
  `_degrade` reduces the children of every coarse pixel of a COVERED coverage pixel (`nansum` of
  nothing = 0, a valid value) and leaves the others unset; a covered-but-unset coverage pixel is
  invisible in the dense view.  The refinement therefore carries the side condition `settled`,
  decided on the dense side alone.  The world-level hypothesis `w.Good` (Lemmas/WFWorld.lean;
  every reachable world is good) supplies `KindOk` of the looked-up maps, which the value
  lemmas of Lemmas/ApiMulti.lean and Lemmas/ApiDegrade.lean need.
-/
import HealSparse.Lemmas.ApiDense
import HealSparse.Lemmas.ApiMulti
import HealSparse.Lemmas.ApiResolution
namespace HS
namespace ApiDenseMulti

open ApiDense ApiRanges WFApi

/-! ### generalities -/

/-- the validity test of a dense map: its own kind and sentinel -/
def DenseMap.valid (d : DenseMap) (v : Val) : Bool := d.kind.valid d.sent v

theorem corr_vc {m : MapObj} {d : DenseMap} (hc : Corr m d) :
    m.vc = ⟨d.blank, DenseMap.valid d⟩ := by
  unfold MapObj.vc DenseMap.blank DenseMap.valid
  rw [hc.kind, hc.sent]

theorem corr_npix {m : MapObj} {d : DenseMap} (hc : Corr m d) : m.npix = d.npix :=
  hc.hdr_facts.2.2.2.2.1

theorem npix_eq_pow {co so : Nat} (h : co ≤ so) : (cfgOf co so).npix = 12 * 4 ^ so :=
  ApiDegrade.cfgOf_npix h

/-! ### `upgrade` -/

/-- `upgrade(nside_out)` on a dense array: every fine pixel reads its parent -/
def dUpgrade (d : DenseMap) (ord : Nat) : Except Err DenseMap :=
  if ord ≤ d.spord then .error .value
  else if ApiResolution.upgradeRefuses d.kind then .error .notImpl
  else .ok { d with spord := ord, f := fun p => d.f (p >>> (2 * (ord - d.spord))) }

theorem shift_lt_of_lt {p so ord : Nat} (hlt : so < ord) (hp : p < 12 * 4 ^ ord) :
    p >>> (2 * (ord - so)) < 12 * 4 ^ so := by
  rw [Nat.shiftRight_eq_div_pow, Nat.div_lt_iff_lt_mul (Nat.two_pow_pos _)]
  have e : 4 ^ so * 2 ^ (2 * (ord - so)) = 4 ^ ord := by
    rw [Nat.pow_mul, show (2 : Nat) ^ 2 = 4 from rfl, ← Nat.pow_add]
    congr 1; omega
  rw [Nat.mul_assoc, e]
  exact hp

/-- **`upgrade` on the map and on the dense array agree** -/
theorem apiUpgrade_corr {m : MapObj} {d : DenseMap} (hc : Corr m d) (ord : Nat) :
    OutRel (apiUpgrade m ord) (dUpgrade d ord) := by
  rw [ApiResolution.apiUpgrade_eq]
  unfold dUpgrade
  have c1 : (ord ≤ m.spord) = (ord ≤ d.spord) := by rw [hc.spord]
  have c2 : (ApiResolution.upgradeRefuses m.kind = true) = (ApiResolution.upgradeRefuses d.kind = true) := by
    rw [hc.kind]
  by_cases h1 : ord ≤ m.spord
  · rw [if_pos h1, if_pos (c1.mp h1)]; exact rfl
  · rw [if_neg h1, if_neg (fun h => h1 (c1.mpr h))]
    by_cases h2 : ApiResolution.upgradeRefuses m.kind = true
    · rw [if_pos h2, if_pos (c2.mp h2)]; exact rfl
    · rw [if_neg h2, if_neg (fun h => h2 (c2.mpr h))]
      have hlt : m.spord < ord := by omega
      obtain ⟨hI, habs, _⟩ := ApiResolution.upgrade_view hc.wf hlt
      have hle := hc.wf.1
      refine ⟨⟨by show m.covord ≤ ord; omega, hI⟩, hc.view, hc.covord, rfl, hc.kind, hc.sent, ?_⟩
      intro p hp
      have hp' : p < (cfgOf m.covord ord).npix := hp
      have e1 := habs p hp'
      rw [npix_eq_pow (by omega)] at hp'
      have hq : p >>> (2 * (ord - m.spord)) < m.npix := by
        show _ < (cfgOf m.covord m.spord).npix
        rw [npix_eq_pow hle]
        exact shift_lt_of_lt hlt hp'
      show HS.abs (cfgOf m.covord ord) m.vc _ p = d.f (p >>> (2 * (ord - d.spord)))
      rw [← hc.spord]
      exact e1.trans (hc.abs _ hq)

/-- the dense side of an `upg` line -/
def dUpg (D : DenseWorld) (a : Args) : DenseWorld × String :=
  dWithMap D a fun d =>
    match a.nat? "ord" with
    | none => (D, "bad-op:ord")
    | some ord =>
      match dUpgrade d ord with
      | .ok r => (D.bind (a.getD "r" "tmp") r, "ok")
      | .error e => (D, errLine e)

theorem rel_upg {w : World} {D : DenseWorld} (h : Rel w D) (a : Args) :
    Rel (opUpg w a).1 (dUpg D a).1 ∧ (opUpg w a).2 = (dUpg D a).2 := by
  unfold opUpg dUpg
  refine rel_withMap h fun m d _ _ hc => ?_
  cases a.nat? "ord" with
  | none => exact ⟨h, rfl⟩
  | some ord =>
    have := apiUpgrade_corr hc ord
    simp only []
    revert this
    cases apiUpgrade m ord <;> cases dUpgrade d ord <;> intro hr
    · cases hr; exact ⟨h, rfl⟩
    · exact hr.elim
    · exact hr.elim
    · exact ⟨h.bind _ hr, rfl⟩

/-! ### lists of agreeing maps -/

/-- the two lists agree element by element -/
def CorrL : List MapObj → List DenseMap → Prop
  | [], [] => True
  | m :: ms, d :: ds => Corr m d ∧ CorrL ms ds
  | _, _ => False

theorem CorrL.length : ∀ {ms : List MapObj} {ds : List DenseMap}, CorrL ms ds → ms.length = ds.length
  | [], [], _ => rfl
  | _ :: _, _ :: _, h => by rw [List.length_cons, List.length_cons, CorrL.length h.2]
  | [], _ :: _, h => h.elim
  | _ :: _, [], h => h.elim

theorem CorrL.any {F : MapObj → Bool} {G : DenseMap → Bool} :
    ∀ {ms : List MapObj} {ds : List DenseMap}, CorrL ms ds →
      (∀ m d, m ∈ ms → Corr m d → F m = G d) → ms.any F = ds.any G
  | [], [], _, _ => rfl
  | m :: ms, d :: ds, h, hf => by
    rw [List.any_cons, List.any_cons, hf m d List.mem_cons_self h.1,
      CorrL.any h.2 fun m' d' hm => hf m' d' (List.mem_cons_of_mem _ hm)]
  | [], _ :: _, h, _ => h.elim
  | _ :: _, [], h, _ => h.elim

theorem CorrL.all {F : MapObj → Bool} {G : DenseMap → Bool} :
    ∀ {ms : List MapObj} {ds : List DenseMap}, CorrL ms ds →
      (∀ m d, m ∈ ms → Corr m d → F m = G d) → ms.all F = ds.all G
  | [], [], _, _ => rfl
  | m :: ms, d :: ds, h, hf => by
    rw [List.all_cons, List.all_cons, hf m d List.mem_cons_self h.1,
      CorrL.all h.2 fun m' d' hm => hf m' d' (List.mem_cons_of_mem _ hm)]
  | [], _ :: _, h, _ => h.elim
  | _ :: _, [], h, _ => h.elim

theorem CorrL.filterMap {α : Type} {F : MapObj → Option α} {G : DenseMap → Option α} :
    ∀ {ms : List MapObj} {ds : List DenseMap}, CorrL ms ds →
      (∀ m d, m ∈ ms → Corr m d → F m = G d) → ms.filterMap F = ds.filterMap G
  | [], [], _, _ => rfl
  | m :: ms, d :: ds, h, hf => by
    rw [List.filterMap_cons, List.filterMap_cons, hf m d List.mem_cons_self h.1,
      CorrL.filterMap h.2 fun m' d' hm => hf m' d' (List.mem_cons_of_mem _ hm)]
  | [], _ :: _, h, _ => h.elim
  | _ :: _, [], h, _ => h.elim

theorem CorrL.findSome {α : Type} {F : MapObj → Option α} {G : DenseMap → Option α} :
    ∀ {ms : List MapObj} {ds : List DenseMap}, CorrL ms ds →
      (∀ m d, m ∈ ms → Corr m d → F m = G d) → ms.findSome? F = ds.findSome? G
  | [], [], _, _ => rfl
  | m :: ms, d :: ds, h, hf => by
    rw [List.findSome?_cons, List.findSome?_cons, hf m d List.mem_cons_self h.1,
      CorrL.findSome h.2 fun m' d' hm => hf m' d' (List.mem_cons_of_mem _ hm)]
  | [], _ :: _, h, _ => h.elim
  | _ :: _, [], h, _ => h.elim

/-! ### storage cells against the dense view -/

/-- a predicate holds of some storage cell iff it holds of the sentinel or of some pixel -/
theorem any_cells {c : Cfg} {vc : VCfg Val} {s : State Val} (h : Inv c vc s) (P : Val → Bool) :
    s.sp.any P = (P vc.sentinel || (List.range c.npix).any fun p => P (abs c vc s p)) := by
  have key := all_cells h (fun x => !P x)
  rw [Array.any_eq_not_all_not, List.any_eq_not_all_not]
  cases hall : s.sp.all (fun x => !P x) with
  | true =>
    obtain ⟨h0, hp⟩ := key.1 hall
    have h0' : P vc.sentinel = false := by simpa using h0
    have : (List.range c.npix).all (fun p => !P (abs c vc s p)) = true :=
      List.all_eq_true.2 fun p hp' => hp p (List.mem_range.1 hp')
    rw [h0', this]; rfl
  | false =>
    cases h0 : P vc.sentinel with
    | true => rfl
    | false =>
      cases hr : (List.range c.npix).all (fun p => !P (abs c vc s p)) with
      | false => rfl
      | true =>
        exfalso
        have := key.2 ⟨by simp [h0], fun p hp => List.all_eq_true.1 hr p (List.mem_range.2 hp)⟩
        rw [hall] at this
        cases this

/-- a predicate holds of the blank or of some pixel of the dense array -/
def cellsAny (d : DenseMap) (P : Val → Bool) : Bool :=
  P d.blank || (List.range d.npix).any fun p => P (d.f p)

theorem cellsAny_corr {m : MapObj} {d : DenseMap} (hc : Corr m d) (P : Val → Bool) :
    m.st.sp.any P = cellsAny d P := by
  rw [any_cells hc.wf.2 P]
  unfold cellsAny
  have hb : m.vc.sentinel = d.blank := hc.hdr_facts.2.2.2.2.2.2
  have hn : m.c.npix = d.npix := corr_npix hc
  rw [hb, hn]
  congr 1
  apply ApiMulti.any_congr_mem
  intro p hp
  have hp' : p < m.npix := by rw [corr_npix hc]; exact List.mem_range.1 hp
  have : abs m.c m.vc m.st p = d.f p := hc.abs p hp'
  rw [this]

/-! ### `_apply_operation` on dense arrays -/

open ApiMulti in
/-- what the helper functions of Lemmas/ApiMulti.lean read off the first map is its header -/
theorem corr_multi_facts {m : MapObj} {d : DenseMap} (hc : Corr m d) (row : OpRow) :
    kindOut row m = kindOut row d.hdr ∧ kindE row m = kindE row d.hdr ∧
    dtOut row m = dtOut row d.hdr ∧ cellF row m = cellF row d.hdr ∧
    fillerOf row m = fillerOf row d.hdr ∧ vcOut row m = vcOut row d.hdr ∧
    promotedOk row m = promotedOk row d.hdr ∧ m.c = d.hdr.c ∧
    isWide m.kind = isWide d.hdr.kind := by
  obtain ⟨_, _, h1, h2, h3, h4, _⟩ := hc
  obtain ⟨co, so, k, se, st, ca, vi⟩ := m
  obtain ⟨co', so', k', se', f⟩ := d
  simp only at h1 h2 h3 h4
  subst h1 h2 h3 h4
  exact ⟨rfl, rfl, rfl, rfl, rfl, rfl, rfl, rfl, rfl⟩

theorem mapCheck_hdr (row : OpRow) {first m : MapObj} {fd d : DenseMap} (hf : Corr first fd)
    (hc : Corr m d) : ApiMulti.mapCheck row first m = ApiMulti.mapCheck row fd.hdr d.hdr := by
  obtain ⟨_, _, h1, h2, h3, h4, _⟩ := hc
  obtain ⟨_, _, g1, g2, g3, g4, _⟩ := hf
  obtain ⟨co, so, k, se, st, ca, vi⟩ := m
  obtain ⟨co', so', k', se', f⟩ := d
  obtain ⟨fco, fso, fk, fse, fst, fca, fvi⟩ := first
  obtain ⟨fco', fso', fk', fse', ff⟩ := fd
  simp only at h1 h2 h3 h4 g1 g2 g3 g4
  subst h1 h2 h3 h4 g1 g2 g3 g4
  rfl

/-- the validation phase looks at the headers only -/
theorem structErr_hdr (row : OpRow) {ms : List MapObj} {ds : List DenseMap} (hL : CorrL ms ds) :
    ApiMulti.structErr row ms = ApiMulti.structErr row (ds.map DenseMap.hdr) := by
  cases ms with
  | nil =>
    cases ds with
    | nil => rfl
    | cons _ _ => exact hL.elim
  | cons first rest =>
    cases ds with
    | nil => exact hL.elim
    | cons fd rd =>
      have hcf := hL.1
      have hfs : (first :: rest).findSome? (ApiMulti.mapCheck row first) =
          ((fd :: rd).map DenseMap.hdr).findSome? (ApiMulti.mapCheck row fd.hdr) := by
        rw [List.findSome?_map]
        exact CorrL.findSome hL fun m d _ hc => mapCheck_hdr row hcf hc
      have hw : ApiMulti.isWide first.kind = ApiMulti.isWide fd.hdr.kind := by
        rw [hcf.kind]; rfl
      have hlen := CorrL.length hL.2
      unfold ApiMulti.structErr
      simp only [List.map_cons] at hfs ⊢
      rw [hfs, hw]
      by_cases hn : rest = []
      · have hn' : rd.map DenseMap.hdr = [] := by
          subst hn
          cases rd with
          | nil => rfl
          | cons _ _ => simp at hlen
        rw [if_pos hn, if_pos hn']
      · have hn' : ¬ rd.map DenseMap.hdr = [] := by
          intro h
          rw [List.map_eq_nil_iff] at h
          subst h
          cases rest with
          | nil => exact hn rfl
          | cons _ _ => simp at hlen
        rw [if_neg hn, if_neg hn']

/-- the values at pixel `p` of exactly those dense inputs in which `p` is valid — each judged by
    its own kind and sentinel —, in list order -/
def dvals (ds : List DenseMap) (p : Nat) : List Val :=
  ds.filterMap fun d => if DenseMap.valid d (d.f p) then some (d.f p) else none

/-- a cell that is not exact in float64 -/
def notF64 (x : Val) : Bool :=
  match x with
  | .num n e => !(fitsFloat 64 (n, e) || decide (n.natAbs > 2 ^ 100))
  | _ => false

/-- a cell that does not fit the dtype -/
def notFits (dt : DT) (x : Val) : Bool :=
  match x with
  | .num n e => !(Val.num n e).fits dt
  | _ => false

/-- some input is valid, at some pixel, with a value that reads as unset under `vc` -/
def dSentClash (vc : VCfg Val) (ds : List DenseMap) : Bool :=
  ds.any fun d => cellsAny d fun x => DenseMap.valid d x && !vc.valid x

/-- floating-point output, and some input value (or blank) is not exact in float64 -/
def dFltClash (row : OpRow) (fd : DenseMap) (ds : List DenseMap) : Bool :=
  (ApiMulti.dtOut row fd.hdr).isFlt && ds.any fun d => cellsAny d notF64

/-- the value of the result at pixel `p`: the fold, in list order, over the inputs valid at `p`
    (union: sentinel when there is none; intersection: sentinel unless all are) -/
def dOut (row : OpRow) (fd : DenseMap) (ds : List DenseMap) (p : Nat) : Val :=
  ApiMulti.denseOf (ApiMulti.vcOut row fd.hdr).sentinel (ApiMulti.cellF row fd.hdr)
    (ApiMulti.fillerOf row fd.hdr) row.union row.fillFirst ds.length (dvals ds p)

/-- some result value (or the result's blank) does not fit the output dtype -/
def dOutClash (row : OpRow) (fd : DenseMap) (ds : List DenseMap) : Bool :=
  notFits (ApiMulti.dtOut row fd.hdr) (ApiMulti.vcOut row fd.hdr).sentinel ||
    (List.range fd.npix).any fun p => notFits (ApiMulti.dtOut row fd.hdr) (dOut row fd ds p)

/-- the data-dependent phase on dense arrays: dtype of the filler, then the three guards of the
    exact model -/
def dDataErr (row : OpRow) (fd : DenseMap) (ds : List DenseMap) : Option Err :=
  if !ApiMulti.promotedOk row fd.hdr then some .value
  else if dSentClash (ApiMulti.vcOut row fd.hdr) ds then some .inexact
  else if dFltClash row fd ds then some .inexact
  else if dOutClash row fd ds then some .inexact
  else none

/-- the result: the first map's configuration and sentinel, the output kind, the folded values -/
def dResult (row : OpRow) (fd : DenseMap) (ds : List DenseMap) : DenseMap :=
  ⟨fd.covord, fd.spord, ApiMulti.kindOut row fd.hdr, fd.sent, dOut row fd ds⟩

/-- `_apply_operation` on dense arrays -/
def dMulti (row : OpRow) (ds : List DenseMap) : Except Err DenseMap :=
  match ApiMulti.structErr row (ds.map DenseMap.hdr) with
  | some e => .error e
  | none =>
    match ds with
    | [] => .error .runtime
    | fd :: _ =>
      match dDataErr row fd ds with
      | some e => .error e
      | none => .ok (dResult row fd ds)

/-- the combined VALID set is non-empty: some pixel is valid in some (union) / in every
    (intersection) input -/
def dAny (row : OpRow) (fd : DenseMap) (ds : List DenseMap) : Bool :=
  (List.range fd.npix).any fun p =>
    if row.union then ds.any (fun d => DenseMap.valid d (d.f p))
    else ds.all (fun d => DenseMap.valid d (d.f p))

/-- **the dense views decide the call**: the combined valid set is non-empty (then so is the
    combined coverage), or validation fails, or — with an empty combined valid set — the guards
    of the main path pass and it announces the same kind as the early return.  Otherwise the
    answer depends on whether some coverage pixel is covered-but-unset, which the dense view
    does not show. -/
def mopSettled (row : OpRow) (ds : List DenseMap) : Bool :=
  match ds with
  | [] => true
  | fd :: _ =>
    dAny row fd ds || (ApiMulti.structErr row (ds.map DenseMap.hdr)).isSome ||
      ((dDataErr row fd ds).isNone && ApiMulti.kindOut row fd.hdr == ApiMulti.kindE row fd.hdr)

/-! ### the data-dependent phase, from the dense views -/

section data
open ApiMulti
variable {row : OpRow} {first : MapObj} {ms : List MapObj} {fd : DenseMap} {ds : List DenseMap}

theorem valid_corr {m : MapObj} {d : DenseMap} (hc : Corr m d) : m.vc.valid = DenseMap.valid d := by
  rw [corr_vc hc]

/-- the valid inputs at a pixel, from the dense views -/
theorem vals_dense (hacc : Accepts row first ms) (hL : CorrL ms ds) (p : Nat) (hp : p < first.c.npix) :
    vals ms p = dvals ds p := by
  unfold vals dvals
  apply CorrL.filterMap hL
  intro m d hm hc
  have hp' : p < m.npix := by
    show p < m.c.npix
    rw [hacc.c_eq hm]; exact hp
  rw [hc.abs p hp', valid_corr hc]

theorem sentClash_dense (vc : VCfg Val) (hL : CorrL ms ds) : sentClash vc ms = dSentClash vc ds := by
  unfold sentClash dSentClash
  apply CorrL.any hL
  intro m d _ hc
  rw [cellsAny_corr hc, valid_corr hc]

theorem notF64_eq : (fun x : Val => match x with
      | .num n e => !(fitsFloat 64 (n, e) || decide (n.natAbs > 2 ^ 100))
      | _ => false) = notF64 := by
  funext x; cases x <;> rfl

theorem fltClash_dense (hf : Corr first fd) (hL : CorrL ms ds) :
    fltClash row first ms = dFltClash row fd ds := by
  unfold fltClash dFltClash
  rw [(corr_multi_facts hf row).2.2.1]
  congr 1
  apply CorrL.any hL
  intro m d _ hc
  rw [← cellsAny_corr hc]
  congr 1

theorem outClash_eq (st : State Val) :
    outClash row first st = st.sp.any (notFits (dtOut row first)) := by
  unfold outClash
  congr 1

/-- a pixel valid in an input lies in a covered coverage pixel of that input -/
theorem covered_of_valid {m : MapObj} (hwf : m.WF) (hk : m.KindOk) {p : Nat} (hp : p < m.c.npix)
    (hv : m.vc.valid (m.abs p) = true) : covered m.c m.st (p >>> m.c.shift) = true := by
  cases hc : covered m.c m.st (p >>> m.c.shift) with
  | true => rfl
  | false =>
    have : m.abs p = m.vc.sentinel := hwf.2.abs_uncovered hp hc
    rw [this, hk.blankInvalid] at hv
    cases hv

/-- a non-empty combined valid set lies inside a non-empty combined coverage -/
theorem anyCov_of_dAny (hacc : Accepts row first ms) (hok : ∀ m ∈ ms, m.WF ∧ m.KindOk)
    (hf : Corr first fd) (hL : CorrL ms ds) (h : dAny row fd ds = true) :
    anyCov row first ms = true := by
  unfold dAny at h
  obtain ⟨p, hp, hcond⟩ := List.any_eq_true.1 h
  have hp' : p < first.c.npix := by
    have := List.mem_range.1 hp
    rw [← corr_npix hf] at this
    exact this
  have hvalid : ∀ m d, m ∈ ms → Corr m d → m.vc.valid (m.abs p) = DenseMap.valid d (d.f p) := by
    intro m d hm hc
    have hpm : p < m.npix := by
      show p < m.c.npix
      rw [hacc.c_eq hm]; exact hp'
    rw [hc.abs p hpm, valid_corr hc]
  have hcov : ∀ m ∈ ms, m.vc.valid (m.abs p) = true →
      covered m.c m.st (p >>> first.c.shift) = true := by
    intro m hm hv
    have hcm := hacc.c_eq hm
    have := covered_of_valid (hok m hm).1 (hok m hm).2 (by rw [hcm]; exact hp') hv
    rw [hcm] at this ⊢
    exact this
  unfold anyCov
  rw [List.any_eq_true]
  refine ⟨p >>> first.c.shift, List.mem_range.2 (covpix_lt first.c p hp'), ?_⟩
  cases hu : row.union with
  | true =>
    rw [hu] at hcond
    simp only [if_true] at hcond ⊢
    rw [← CorrL.any hL hvalid] at hcond
    obtain ⟨m, hm, hv⟩ := List.any_eq_true.1 hcond
    exact List.any_eq_true.2 ⟨m, hm, hcov m hm hv⟩
  | false =>
    rw [hu] at hcond
    simp only [Bool.false_eq_true, if_false] at hcond ⊢
    rw [← CorrL.all hL hvalid] at hcond
    rw [List.all_eq_true] at hcond ⊢
    exact fun m hm => hcov m hm (hcond m hm)

/-- **the data-dependent phase from the dense views**, when the combined coverage is non-empty -/
theorem dataErr_dense (hacc : Accepts row first ms) (hfirst : first ∈ ms)
    (hok : ∀ m ∈ ms, m.WF ∧ m.KindOk) (hf : Corr first fd) (hL : CorrL ms ds)
    (hac : anyCov row first ms = true) : dataErr row first ms = dDataErr row fd ds := by
  obtain ⟨_, _, e3, e4, e5, e6, e7, e8, _⟩ := corr_multi_facts hf row
  unfold dataErr dDataErr
  rw [hac, e7, sentClash_dense _ hL, fltClash_dense hf hL, e6]
  simp only [Bool.not_true, Bool.false_eq_true, if_false]
  by_cases c1 : (!promotedOk row fd.hdr) = true
  · rw [if_pos c1, if_pos c1]
  rw [if_neg c1, if_neg c1]
  by_cases c2 : dSentClash (vcOut row fd.hdr) ds = true
  · rw [if_pos c2, if_pos c2]
  rw [if_neg c2, if_neg c2]
  by_cases c3 : dFltClash row fd ds = true
  · rw [if_pos c3, if_pos c3]
  rw [if_neg c3, if_neg c3]
  have hcl : sentClash (vcOut row first) ms = false := by
    rw [sentClash_dense _ hL, e6]; simpa using c2
  obtain ⟨st, hst, hI, habs, _⟩ := core_spec hacc hfirst hok hcl
  rw [hst]
  simp only []
  have eo : outClash row first st = dOutClash row fd ds := by
    rw [outClash_eq, any_cells hI]
    unfold dOutClash
    have hn : fd.npix = first.c.npix := (corr_npix hf).symm
    rw [hn, ← e3, ← e6]
    congr 1
    apply any_congr_mem
    intro p hp
    have hp' : p < first.c.npix := List.mem_range.1 hp
    rw [habs p hp', vals_dense hacc hL p hp', CorrL.length hL]
    unfold dOut
    rw [← e4, ← e5, ← e6]
  rw [eo]

end data

open ApiMulti in
/-- **`_apply_operation` on the maps and on the dense arrays agree** — the same error, or results
    that agree again — whenever the dense views decide the call (`mopSettled`) -/
theorem multi_corr {row : OpRow} {ms : List MapObj} {ds : List DenseMap} (hL : CorrL ms ds)
    (hok : ∀ m ∈ ms, m.WF ∧ m.KindOk) (hs : mopSettled row ds = true) :
    OutRel (apiMultiOp row ms) (dMulti row ds) := by
  have hS := structErr_hdr row hL
  unfold dMulti
  cases hse : structErr row (ds.map DenseMap.hdr) with
  | some e =>
    have : apiMultiOp row ms = .error e := (error_iff row ms e).2 (Or.inl (hS.trans hse))
    rw [this]; exact rfl
  | none =>
    simp only []
    obtain ⟨first, rest, rfl, hacc⟩ := (structErr_none_iff row ms).1 (hS.trans hse)
    cases ds with
    | nil => exact hL.elim
    | cons fd rd =>
      simp only []
      have hf := hL.1
      have hfirst : first ∈ first :: rest := List.mem_cons_self
      obtain ⟨e1, e2, e3, e4, e5, e6, e7, e8, _⟩ := corr_multi_facts hf row
      have hdata : dataErr row first (first :: rest) = dDataErr row fd (fd :: rd) ∧
          (anyCov row first (first :: rest) = false → kindOut row fd.hdr = kindE row fd.hdr) := by
        cases hac : anyCov row first (first :: rest) with
        | true => exact ⟨dataErr_dense hacc hfirst hok hf hL hac, fun h => nomatch h⟩
        | false =>
          have hnot : dAny row fd (fd :: rd) = false := by
            cases h : dAny row fd (fd :: rd) with
            | false => rfl
            | true => rw [anyCov_of_dAny hacc hok hf hL h] at hac; cases hac
          unfold mopSettled at hs
          simp only [hnot, hse, Option.isSome_none, Bool.false_or, Bool.or_false, Bool.and_eq_true,
            beq_iff_eq, Option.isNone_iff_eq_none] at hs
          refine ⟨?_, fun _ => hs.2⟩
          unfold dataErr
          rw [hac]
          simp only [Bool.not_false, if_true]
          exact hs.1.symm
      cases hde : dDataErr row fd (fd :: rd) with
      | some e =>
        have : apiMultiOp row (first :: rest) = .error e :=
          (error_iff _ _ e).2 (Or.inr ⟨hS.trans hse, first, rest, rfl, hdata.1.trans hde⟩)
        rw [this]; exact rfl
      | none =>
        simp only []
        cases hres : apiMultiOp row (first :: rest) with
        | error e =>
          exfalso
          rcases (error_iff _ _ e).1 hres with h | ⟨_, f', r', hfr, hd⟩
          · rw [hS.trans hse] at h; cases h
          · cases hfr; rw [hdata.1.trans hde] at hd; cases hd
        | ok m' =>
          obtain ⟨f', r', hfr, _, a1, a2, a3, _, a5, a6, _, _, a9, _⟩ := ok_sem hok hres
          cases hfr
          obtain ⟨f'', r'', hfr', _, _, _, _, hcase⟩ := apiMultiOp_ok hres
          cases hfr'
          have hview : m'.view = none := by
            rcases hcase with ⟨_, _, h⟩ | ⟨_, h, _⟩
            · rw [h]; exact hf.view
            · exact h
          have hkind : m'.kind = kindOut row fd.hdr := by
            rw [a5]
            cases hac : anyCov row first (first :: rest) with
            | true => simp only [if_true]; exact e1
            | false =>
              simp only [Bool.false_eq_true, if_false]
              rw [e2]; exact (hdata.2 hac).symm
          refine ⟨a6, hview, a1.trans hf.covord, a2.trans hf.spord, hkind, a3.trans hf.sent, ?_⟩
          intro p hp
          have hc' : m'.c = first.c := by unfold MapObj.c; rw [a1, a2]
          have hp' : p < first.c.npix := by rw [← hc']; exact hp
          rw [a9 p hp, vals_dense hacc hL p hp', CorrL.length hL]
          show _ = dOut row fd (fd :: rd) p
          unfold dOut
          rw [← e4, ← e5]
          congr 1
          unfold MapObj.vc
          rw [hkind, a3, hf.sent]
          rfl

/-! ### the `mop` line -/

/-- the row of the operation table a `mop` line selects, from the line and the dtype code of the
    first map: a `ufunc_*` form builds its row from `ufunc=` / `filler=`, a named operation looks
    its row up -/
def mopRow (a : Args) (code : String) : Option OpRow :=
  if a.getD "name" "" == "ufunc_union" || a.getD "name" "" == "ufunc_intersection" then
    ((a.get? "filler").bind parseVal).map fun fv =>
      { name := a.getD "name" "", ufunc := a.getD "ufunc" "", dt := code, filler := fv,
        promoted := (if code == "u1w" then "u1" else code), union := a.getD "name" "" == "ufunc_union",
        intOnly := false, fillFirst := false, dtypeOut := "" }
  else opsTable.find? fun r => r.name == a.getD "name" "" && r.dt == code

theorem opMop_eq (w : World) (a : Args) :
    opMop w a =
      match (splitList (a.getD "maps" "_")).mapM w.get? with
      | none => (w, "bad-op:no-such-map")
      | some maps =>
        match mopRow a ((maps.head?.map (·.kind.code)).getD "") with
        | none => (w, if maps.length < 2 then errLine .runtime else errLine .notImpl)
        | some row =>
          match apiMultiOp row.withSpec maps with
          | .ok m => (w.bind (a.getD "r" "tmp") m, "ok")
          | .error e => (w, errLine e) := rfl

/-- the dense side of a `mop` line -/
def dMop (D : DenseWorld) (a : Args) : DenseWorld × String :=
  match (splitList (a.getD "maps" "_")).mapM D.get? with
  | none => (D, "bad-op:no-such-map")
  | some ds =>
    match mopRow a ((ds.head?.map (·.kind.code)).getD "") with
    | none => (D, if ds.length < 2 then errLine .runtime else errLine .notImpl)
    | some row =>
      match dMulti row.withSpec ds with
      | .ok d => (D.bind (a.getD "r" "tmp") d, "ok")
      | .error e => (D, errLine e)

/-- the dense views decide the `mop` line (see `mopSettled`) -/
def mopSettledArgs (D : DenseWorld) (a : Args) : Bool :=
  match (splitList (a.getD "maps" "_")).mapM D.get? with
  | none => true
  | some ds =>
    match mopRow a ((ds.head?.map (·.kind.code)).getD "") with
    | none => true
    | some row => mopSettled row.withSpec ds

/-- looking a list of names up on both sides -/
theorem rel_mapM {w : World} {D : DenseWorld} (hR : Rel w D) (hw : w.Good) (names : List String) :
    match names.mapM w.get?, names.mapM D.get? with
    | some ms, some ds => CorrL ms ds ∧ ∀ m ∈ ms, m.WF ∧ m.KindOk
    | none, none => True
    | _, _ => False := by
  induction names with
  | nil => exact ⟨trivial, fun _ h => nomatch h⟩
  | cons n ns ih =>
    rw [List.mapM_cons, List.mapM_cons]
    have hm := hR.maps n
    have hg := hR.get?_eq n
    cases hr : w.raw? n with
    | none =>
      rw [hr] at hm
      cases hd : D.get? n with
      | none => rw [hg, hr]; exact trivial
      | some d => rw [hd] at hm; exact hm.elim
    | some m =>
      rw [hr] at hm
      cases hd : D.get? n with
      | none => rw [hd] at hm; exact hm.elim
      | some d =>
        rw [hd] at hm
        have hget : w.get? n = some m := by rw [hg, hr]
        have hmok := hw.get hget
        rw [hget]
        revert ih
        cases ns.mapM w.get? <;> cases ns.mapM D.get? <;> intro ih
        · exact trivial
        · exact ih.elim
        · exact ih.elim
        · refine ⟨⟨hm, ih.1⟩, fun x hx => ?_⟩
          rcases List.mem_cons.1 hx with rfl | hx
          · exact ⟨hmok.1, hmok.2.1⟩
          · exact ih.2 x hx

theorem rel_mop {w : World} {D : DenseWorld} (h : Rel w D) (hw : w.Good) (a : Args)
    (hs : mopSettledArgs D a = true) :
    Rel (opMop w a).1 (dMop D a).1 ∧ (opMop w a).2 = (dMop D a).2 := by
  rw [opMop_eq]
  unfold dMop
  unfold mopSettledArgs at hs
  have hm := rel_mapM h hw (splitList (a.getD "maps" "_"))
  revert hs hm
  cases (splitList (a.getD "maps" "_")).mapM w.get? <;>
    cases (splitList (a.getD "maps" "_")).mapM D.get? <;> intro hs hm
  · exact ⟨h, rfl⟩
  · exact hm.elim
  · exact hm.elim
  · rename_i ms ds
    obtain ⟨hL, hok⟩ := hm
    have hcode : (ms.head?.map (·.kind.code)).getD "" = (ds.head?.map (·.kind.code)).getD "" := by
      cases ms with
      | nil =>
        cases ds with
        | nil => rfl
        | cons _ _ => exact hL.elim
      | cons m _ =>
        cases ds with
        | nil => exact hL.elim
        | cons d _ =>
          show m.kind.code = d.kind.code
          rw [hL.1.kind]
    simp only [hcode] at hs ⊢
    revert hs
    cases mopRow a ((ds.head?.map (·.kind.code)).getD "") with
    | none =>
      intro _
      simp only [CorrL.length hL, and_true]
      exact h
    | some row =>
      intro hs
      have := multi_corr hL hok hs
      simp only []
      revert this
      cases apiMultiOp row.withSpec ms <;> cases dMulti row.withSpec ds <;> intro hr
      · cases hr; exact ⟨h, rfl⟩
      · exact hr.elim
      · exact hr.elim
      · exact ⟨h.bind _ hr, rfl⟩

/-! ### `degrade`: the weight checks and the acceptance rules, from the dense views -/

section degrade
open ApiDegrade

/-- the error of an outcome, if any -/
def errOf' {α : Type} : Except Err α → Option Err
  | .ok _ => none
  | .error e => some e

/-- the optional weight map and the optional dense weight array agree -/
def CorrW : Option MapObj → Option DenseMap → Prop
  | none, none => True
  | some wm, some wd => Corr wm wd
  | _, _ => False

/-- headers of the optional weight array (what `isF64` looks at) -/
def hdrW (wd : Option DenseMap) : Option MapObj := wd.map DenseMap.hdr

theorem isF64_hdrW {w : Option MapObj} {wd : Option DenseMap} (h : CorrW w wd) :
    isF64 w = isF64 (hdrW wd) := by
  cases w with
  | none =>
    cases wd with
    | none => rfl
    | some _ => exact h.elim
  | some wm =>
    cases wd with
    | none => exact h.elim
    | some d =>
      have hk : wm.kind = d.kind := Corr.kind h
      unfold isF64 hdrW
      simp only [Option.map_some, hk]
      rfl

/-- the weight checks on dense arrays: nothing is asked unless the reduction is `wmean`; then a
    floating-point array of the same two orders, valid exactly where this one is -/
def dWeightsOk (d : DenseMap) (red : String) (wd : Option DenseMap) : Bool :=
  !(red == "wmean") ||
    match wd with
    | none => false
    | some w =>
      (match w.kind with | .plain (.flt _) => true | _ => false) &&
        (w.spord == d.spord && w.covord == d.covord) &&
        (List.range d.npix).all fun p => DenseMap.valid w (w.f p) == DenseMap.valid d (d.f p)

theorem cast_map_inj (L : List Nat) (p : Nat) :
    ((p : Nat) : Int) ∈ L.map (fun q => ((q : Nat) : Int)) ↔ p ∈ L := by
  rw [List.mem_map]
  constructor
  · rintro ⟨q, hq, he⟩
    have : q = p := by exact_mod_cast he
    rw [← this]; exact hq
  · intro h; exact ⟨p, h, rfl⟩

/-- two maps of one configuration with the same valid set list the same sorted `valid_pixels` -/
theorem sorted_eq_of_valid_eq {c : Cfg} {vc vcX : VCfg Val} {r wr : State Val}
    (hr : Inv c vc r) (hbr : vc.valid vc.sentinel = false)
    (hw : Inv c vcX wr) (hbw : vcX.valid vcX.sentinel = false)
    (hv : ∀ p, p < c.npix → vc.valid (HS.abs c vc r p) = vcX.valid (HS.abs c vcX wr p)) :
    ∃ al bl, validPixels c vcX wr = some al ∧ validPixels c vc r = some bl ∧
      al.mergeSort (· ≤ ·) = bl.mergeSort (· ≤ ·) := by
  refine ⟨_, _, hw.validPixels_eq hbw, hr.validPixels_eq hbr, ?_⟩
  generalize hA : (validCells vcX wr).map (pixOfCell c wr) = A
  generalize hB : (validCells vc r).map (pixOfCell c r) = B
  have hmA : ∀ p, p ∈ A ↔ p < c.npix ∧ vcX.valid (HS.abs c vcX wr p) = true := by
    intro p; rw [← hA]; exact hw.mem_validCells_map hbw p
  have hmB : ∀ p, p ∈ B ↔ p < c.npix ∧ vc.valid (HS.abs c vc r p) = true := by
    intro p; rw [← hB]; exact hr.mem_validCells_map hbr p
  have hnA : A.Nodup := by rw [← hA]; exact hw.nodup_validCells_map hbw
  have hnB : B.Nodup := by rw [← hB]; exact hr.nodup_validCells_map hbr
  have hAB : A.Perm B := by
    rw [List.perm_ext_iff_of_nodup hnA hnB]
    intro p
    rw [hmA, hmB]
    constructor
    · rintro ⟨a, b⟩; exact ⟨a, by rw [hv p a]; exact b⟩
    · rintro ⟨a, b⟩; exact ⟨a, by rw [← hv p a]; exact b⟩
  have hperm : (A.map fun p => ((p : Nat) : Int)).Perm (B.map fun p => ((p : Nat) : Int)) :=
    hAB.map _
  have hle_total : ∀ a b : Int, (decide (a ≤ b) || decide (b ≤ a)) = true := by
    intro a b; simp only [Bool.or_eq_true, decide_eq_true_eq]; omega
  have hle_trans : ∀ a b c : Int, decide (a ≤ b) = true → decide (b ≤ c) = true →
      decide (a ≤ c) = true := by
    intro a b c h1 h2; simp only [decide_eq_true_eq] at *; omega
  apply List.Perm.eq_of_pairwise (le := fun a b : Int => decide (a ≤ b) = true)
  · intro a b _ _ h1 h2
    simp only [decide_eq_true_eq] at h1 h2; omega
  · exact List.pairwise_mergeSort hle_trans hle_total _
  · exact List.pairwise_mergeSort hle_trans hle_total _
  · exact (List.mergeSort_perm _ _).trans (hperm.trans (List.mergeSort_perm _ _).symm)

theorem c_eq_of_orders' {a b : MapObj} (h1 : a.spord = b.spord) (h2 : a.covord = b.covord) :
    a.c = b.c := by unfold MapObj.c; rw [h1, h2]

/-- **the weight checks pass iff the dense arrays say so** -/
theorem weightsOk_dense {m : MapObj} {d : DenseMap} (hc : Corr m d) (hk : m.KindOk) {red : String}
    {w : Option MapObj} {wd : Option DenseMap} (hW : CorrW w wd) :
    weightsOk m red w ↔ dWeightsOk d red wd = true := by
  unfold weightsOk dWeightsOk
  cases hr : (red == "wmean") with
  | false => simp
  | true =>
    simp only [Bool.not_true, Bool.false_or, Bool.true_eq_false, false_or]
    cases w with
    | none =>
      cases wd with
      | some _ => exact hW.elim
      | none =>
        constructor
        · rintro ⟨wm, _, _, _, h, _⟩; cases h
        · intro h; cases h
    | some wm =>
      cases wd with
      | none => exact hW.elim
      | some dw =>
        have hcw : Corr wm dw := hW
        simp only [Bool.and_eq_true, beq_iff_eq, List.all_eq_true, List.mem_range]
        constructor
        · rintro ⟨wm0, b, al, bl, he, hkw, h1, h2, ha, hb, hs⟩
          cases he
          have hcc : wm.c = m.c := c_eq_of_orders' h1 h2
          have hbw : wm.BlankInvalid := MapObj.blankInvalid_of_plain hkw
          have hIw : Inv m.c wm.vc wm.st := by rw [← hcc]; exact hcw.wf.2
          rw [hcc] at ha
          have hv := valid_eq_of_sorted_eq hc.wf.2 hk.blankInvalid hIw hbw ha hb hs
          refine ⟨⟨by rw [← hcw.kind, hkw], by rw [← hcw.spord, ← hc.spord]; exact h1,
            by rw [← hcw.covord, ← hc.covord]; exact h2⟩, fun p hp => ?_⟩
          have hpm : p < m.npix := by rw [corr_npix hc]; exact hp
          have hpw : p < wm.npix := by show p < wm.c.npix; rw [hcc]; exact hpm
          have := hv p hpm
          rw [← valid_corr hc, ← valid_corr hcw, ← hc.abs p hpm, ← hcw.abs p hpw]
          show wm.vc.valid (HS.abs wm.c wm.vc wm.st p) = m.vc.valid (HS.abs m.c m.vc m.st p)
          rw [hcc]
          exact this.symm
        · rintro ⟨⟨hkw, h1, h2⟩, hv⟩
          have hkw' : ∃ b, wm.kind = .plain (.flt b) := by
            rw [hcw.kind]
            revert hkw
            cases dw.kind with
            | plain dt =>
              cases dt with
              | flt b => exact fun _ => ⟨b, rfl⟩
              | _ => exact fun h => nomatch h
            | _ => exact fun h => nomatch h
          obtain ⟨b, hb⟩ := hkw'
          have e1 : wm.spord = m.spord := by rw [hcw.spord, hc.spord]; exact h1
          have e2 : wm.covord = m.covord := by rw [hcw.covord, hc.covord]; exact h2
          have hcc : wm.c = m.c := c_eq_of_orders' e1 e2
          have hbw : wm.BlankInvalid := MapObj.blankInvalid_of_plain hb
          have hIw : Inv m.c wm.vc wm.st := by rw [← hcc]; exact hcw.wf.2
          have hv' : ∀ p, p < m.c.npix →
              m.vc.valid (HS.abs m.c m.vc m.st p) = wm.vc.valid (HS.abs m.c wm.vc wm.st p) := by
            intro p hp
            have hpd : p < d.npix := by rw [← corr_npix hc]; exact hp
            have hpw : p < wm.npix := by show p < wm.c.npix; rw [hcc]; exact hp
            have := hv p hpd
            rw [← valid_corr hc, ← valid_corr hcw, ← hc.abs p hp, ← hcw.abs p hpw] at this
            have := this.symm
            unfold MapObj.abs at this
            rw [hcc] at this
            exact this
          obtain ⟨al, bl, ha, hb', hs⟩ :=
            sorted_eq_of_valid_eq hc.wf.2 hk.blankInvalid hIw hbw hv'
          exact ⟨wm, b, al, bl, rfl, hb, e1, e2, by rw [hcc]; exact ha, hb', hs⟩

/-- with well-formed maps the weight checks never end in an `IndexError` -/
theorem coreWeights_err {m : MapObj} {red : String} {w : Option MapObj} (hwf : m.WF)
    (hv : m.BlankInvalid) (hww : ∀ wm, w = some wm → wm.WF) {e : Err}
    (h : coreWeights m red w = .error e) : e = .value := by
  unfold coreWeights at h
  cases w with
  | none =>
    simp only at h
    split at h
    · cases h; rfl
    · cases h
  | some wm =>
    simp only at h
    split at h
    · cases h
    · split at h
      · rename_i b hkw
        split at h
        · cases h; rfl
        · rename_i hord
          have hord' : wm.spord = m.spord ∧ wm.covord = m.covord := by simpa using hord
          have hbw : wm.BlankInvalid := MapObj.blankInvalid_of_plain hkw
          rw [(hww wm rfl).2.validPixels_eq hbw, hwf.2.validPixels_eq hv] at h
          simp only at h
          split at h
          · cases h; rfl
          · obtain ⟨wv', g1, _, _⟩ := hwf.2.gatherWeights_spec' hv wm.abs (Val.num 0 0)
            rw [g1] at h
            cases h
      · cases h; rfl

/-- a cell converts to float64 exactly (the per-cell test of `cellsFitF64`) -/
def fitF64Cell (v : Val) : Bool :=
  match v with
  | .num n e => fitsFloat 64 (n, e) || decide (n.natAbs > 2 ^ 100)
  | .recd l => l.all fun x => fitsFloat 64 x || decide (x.1.natAbs > 2 ^ 100)
  | .rat _ _ => false
  | .sqrtRat _ _ => false
  | .poison => false
  | _ => true

theorem cellsFitF64_eq (sp : Array Val) : cellsFitF64 sp = sp.all fitF64Cell := by
  unfold cellsFitF64
  congr 1

/-- every value of the dense array (and the blank) converts to float64 exactly -/
def dFitF64 (d : DenseMap) : Bool :=
  fitF64Cell d.blank && (List.range d.npix).all fun p => fitF64Cell (d.f p)

theorem cellsFitF64_dense {m : MapObj} {d : DenseMap} (hc : Corr m d) :
    cellsFitF64 m.st.sp = dFitF64 d := by
  rw [cellsFitF64_eq, Bool.eq_iff_iff, all_cells hc.wf.2]
  unfold dFitF64
  have hb : m.vc.sentinel = d.blank := hc.hdr_facts.2.2.2.2.2.2
  rw [Bool.and_eq_true, List.all_eq_true, hb]
  constructor
  · rintro ⟨h0, hp⟩
    refine ⟨h0, fun p hp' => ?_⟩
    have hlt : p < m.npix := by rw [corr_npix hc]; exact List.mem_range.1 hp'
    rw [← hc.abs p hlt]; exact hp p hlt
  · rintro ⟨h0, hp⟩
    refine ⟨h0, fun p hp' => ?_⟩
    have : abs m.c m.vc m.st p = d.f p := hc.abs p hp'
    rw [this]
    exact hp p (List.mem_range.2 (by rw [← corr_npix hc]; exact hp'))

/-- the error `_degrade` raises after the weight checks, from the kind, the exactness verdict
    and the reduction -/
def restErr (k : Kind) (fit : Bool) (red : String) : Option Err :=
  if !(isAndOr red) && !fit then some .inexact else
  match k with
  | .packed => some .notImpl
  | .wide _ => if !isAndOr red then some .notImpl else none
  | .recd _ _ => if !floatReds.contains red then some .value else none
  | .plain dt =>
    if dt.isInt && isAndOr red then none
    else if !floatReds.contains red then some .value else none

theorem coreRest_errOf (m : MapObj) (ordOut : Nat) (red : String) (w : Option MapObj)
    (wv : Option (Array Val)) :
    errOf' (coreRest m ordOut red w wv) = restErr m.kind (cellsFitF64 m.st.sp) red := by
  unfold coreRest restErr isAndOr
  simp only
  cases ha : (red == "and") <;> cases ho : (red == "or") <;> cases hfit : cellsFitF64 m.st.sp <;>
    cases hk : m.kind <;> cases hfr : floatReds.contains red <;>
    (try (rename_i dt; cases hi : dt.isInt)) <;> simp_all [errOf']

/-! ### `_degrade` on dense arrays -/

/-- the weight paired with fine pixel `p`: for `wmean` the weight array's value where THIS array
    is valid, 0 elsewhere; 0 for every other reduction -/
def dWAt (d : DenseMap) (red : String) (wd : Option DenseMap) (p : Nat) : Val :=
  match wd with
  | some w => if red == "wmean" && DenseMap.valid d (d.f p) then w.f p else .num 0 0
  | none => .num 0 0

/-- the value of the degraded array at coarse pixel `q`: the reduction of the (value, weight)
    pairs of its children (`coreRed` masks the invalid ones itself, except for the integer /
    wide-mask `and` / `or`, which fold over all of them) -/
def dCoreVal (d : DenseMap) (ord : Nat) (red : String) (wd : Option DenseMap) (q : Nat) : Val :=
  coreRed d.hdr red (hdrW wd) ((childPix d.hdr ord q).map fun p => (d.f p, dWAt d red wd p))

/-- the blank cell of the degraded array -/
def dCoreBlank (d : DenseMap) (red : String) (wd : Option DenseMap) : Val :=
  (coreOutKind d.kind red (hdrW wd)).blank (coreOutSent d.kind d.sent red (hdrW wd))

/-- `_degrade(nside_out, reduction, weights)` on a dense array, `covord ≤ ord ≤ spord`: the weight
    checks, the acceptance rules, then the header of the result around the values `g` -/
def dCoreG (g : Nat → Val) (d : DenseMap) (ord : Nat) (red : String) (wd : Option DenseMap) :
    Except Err DenseMap :=
  if !dWeightsOk d red wd then .error .value else
  match restErr d.kind (dFitF64 d) red with
  | some e => .error e
  | none =>
    .ok ⟨d.covord, ord, coreOutKind d.kind red (hdrW wd), coreOutSent d.kind d.sent red (hdrW wd), g⟩

/-- … with the reduction of its children at every coarse pixel -/
def dCore (d : DenseMap) (ord : Nat) (red : String) (wd : Option DenseMap) : Except Err DenseMap :=
  dCoreG (dCoreVal d ord red wd) d ord red wd

/-- the reduction of a group of blank cells (zero weights) is the blank cell of the result:
    true of `mean`, `median`, `std`, `max`, `min`, `wmean`, of `and` / `or` over a sentinel the
    operation leaves fixed, and of wide masks; FALSE for `sum` (0) and `prod` (1) -/
def degBlankOk (d : DenseMap) (ord : Nat) (red : String) (wd : Option DenseMap) : Bool :=
  coreRed d.hdr red (hdrW wd)
      (List.replicate (2 ^ (2 * (d.spord - ord))) (d.blank, Val.num 0 0)) == dCoreBlank d red wd

/-- every coarse pixel has a valid child (then every coverage pixel is covered) -/
def dAllLive (d : DenseMap) (ord : Nat) : Bool :=
  (List.range (12 * 4 ^ ord)).all fun q =>
    (childPix d.hdr ord q).any fun p => DenseMap.valid d (d.f p)

/-- the call passes the weight checks and the acceptance rules -/
def coreNoErr (d : DenseMap) (red : String) (wd : Option DenseMap) : Bool :=
  dWeightsOk d red wd && (restErr d.kind (dFitF64 d) red).isNone

/-- **the dense view decides `_degrade`**: the call is refused, or its result does not depend on
    which of the coverage pixels WITHOUT valid pixel are allocated -/
def coreSettled (d : DenseMap) (ord : Nat) (red : String) (wd : Option DenseMap) : Bool :=
  !coreNoErr d red wd || degBlankOk d ord red wd || dAllLive d ord

theorem coreRed_hdr {m : MapObj} {d : DenseMap} (hc : Corr m d) (red : String)
    {w : Option MapObj} {wd : Option DenseMap} (hW : CorrW w wd) (cw : List (Val × Val)) :
    coreRed m red w cw = coreRed d.hdr red (hdrW wd) cw := by
  have hf := isF64_hdrW hW
  obtain ⟨_, _, h1, h2, h3, h4, _⟩ := hc
  obtain ⟨co, so, k, se, st, ca, vi⟩ := m
  obtain ⟨co', so', k', se', f⟩ := d
  simp only at h1 h2 h3 h4
  subst h1 h2 h3 h4
  unfold coreRed
  rw [hf]
  rfl

theorem childPix_hdr {m : MapObj} {d : DenseMap} (hc : Corr m d) (ord q : Nat) :
    childPix m ord q = childPix d.hdr ord q :=
  (childPix_spord (M := d.hdr) (m := m) hc.spord.symm ord q).symm

/-- the weight the map side pairs with a pixel, from the dense views -/
theorem wAt_dense {m : MapObj} {d : DenseMap} (hc : Corr m d) {red : String} {w : Option MapObj}
    {wd : Option DenseMap} (hW : CorrW w wd)
    (hnp : (red == "wmean") = true → ∀ wm, w = some wm → wm.npix = m.npix)
    {p : Nat} (hp : p < m.npix) : wAt m red w p = dWAt d red wd p := by
  unfold wAt dWAt
  cases w with
  | none =>
    cases wd with
    | none => rfl
    | some _ => exact hW.elim
  | some wm =>
    cases wd with
    | none => exact hW.elim
    | some dw =>
      have hcw : Corr wm dw := hW
      simp only
      rw [hc.abs p hp, valid_corr hc]
      cases hr : (red == "wmean") with
      | false => simp
      | true =>
        simp only [Bool.true_and]
        split
        · exact hcw.abs p (by rw [hnp hr wm rfl]; exact hp)
        · rfl

/-- **`_degrade` on the map and on the dense array agree** (`covord ≤ ord ≤ spord`), for any
    value function `g` that is the reduction of the children on the covered coarse pixels and the
    blank on the uncovered ones (whose children all read the blank, with weight 0) -/
theorem core_corr_gen {m : MapObj} {d : DenseMap} (hc : Corr m d) (hk : m.KindOk) {red : String}
    {w : Option MapObj} {wd : Option DenseMap} (hW : CorrW w wd) (hww : ∀ wm, w = some wm → wm.WF)
    {ord : Nat} (hlo : m.covord ≤ ord) (hhi : ord ≤ m.spord) (g : Nat → Val)
    (hg1 : ∀ q, q < (cfgOf m.covord ord).npix →
      covered m.c m.st (q >>> (2 * (ord - m.covord))) = true → g q = dCoreVal d ord red wd q)
    (hg2 : coreNoErr d red wd = true → ∀ q, q < (cfgOf m.covord ord).npix →
      covered m.c m.st (q >>> (2 * (ord - m.covord))) = false →
      ((childPix d.hdr ord q).map fun p => (d.f p, dWAt d red wd p)) =
        List.replicate (2 ^ (2 * (d.spord - ord))) (d.blank, Val.num 0 0) →
      g q = dCoreBlank d red wd) :
    OutRel (apiDegradeCore m ord red w) (dCoreG g d ord red wd) := by
  have hv := hk.blankInvalid
  have hwo := weightsOk_dense (red := red) hc hk hW
  unfold dCoreG
  cases hcw : coreWeights m red w with
  | error e =>
    have he := coreWeights_err hc.wf hv hww hcw
    subst he
    have hno : ¬ weightsOk m red w := by
      intro h
      obtain ⟨wv, hwv⟩ := (coreWeights_isOk_iff hc.wf hv).2 h
      rw [hwv] at hcw; cases hcw
    have hd : dWeightsOk d red wd = false := by
      cases h : dWeightsOk d red wd with
      | false => rfl
      | true => exact absurd (hwo.2 h) hno
    rw [apiDegradeCore_eq, hcw, hd]
    exact rfl
  | ok wv =>
    have hd : dWeightsOk d red wd = true := hwo.1 ((coreWeights_isOk_iff hc.wf hv).1 ⟨wv, hcw⟩)
    have hcr : apiDegradeCore m ord red w = coreRest m ord red w wv := by
      rw [apiDegradeCore_eq, hcw]; rfl
    rw [hd]
    simp only [Bool.not_true, Bool.false_eq_true, if_false]
    have herr := coreRest_errOf m ord red w wv
    rw [hc.kind, cellsFitF64_dense hc] at herr
    cases hr : coreRest m ord red w wv with
    | error e =>
      rw [hr] at herr
      rw [hcr, hr, ← herr]
      exact rfl
    | ok b =>
      rw [hr] at herr
      rw [hcr, hr, ← herr]
      simp only [errOf']
      obtain ⟨hwm, hwv⟩ := coreWeights_ok hc.wf hv hcw
      obtain ⟨b1, b2, b3, b4, b5, _, _, b8, b9⟩ := coreRest_ok hc.wf hlo hhi hwv hr
      have hbwf : b.WF := WF.apiDegradeCore_partial hc.wf hlo hhi (hcr.trans hr)
      have hf := isF64_hdrW hW
      have hkind : b.kind = coreOutKind d.kind red (hdrW wd) := by
        rw [b4, hc.kind]; exact coreOutKind_congr _ _ hf
      have hsent : b.sent = coreOutSent d.kind d.sent red (hdrW wd) := by
        rw [b5, hc.kind, hc.sent]; exact coreOutSent_congr _ _ _ hf
      refine ⟨hbwf, b3.trans hc.view, b1.trans hc.covord, b2, hkind, hsent, ?_⟩
      intro q hq
      have hq' : q < (cfgOf m.covord ord).npix := by
        have : b.npix = (cfgOf m.covord ord).npix := by
          show (cfgOf b.covord b.spord).npix = _
          rw [b1, b2]
        rw [← this]; exact hq
      have hnp : (red == "wmean") = true → ∀ wm, w = some wm → wm.npix = m.npix := by
        intro hr' wm hwm'
        obtain ⟨wm0, _, _, _, e0, _, h1, h2, _⟩ := hwm hr'
        rw [hwm'] at e0
        cases e0
        show wm.c.npix = m.c.npix
        rw [c_eq_of_orders' h1 h2]
      have hchild : ∀ p ∈ childPix m ord q, p < m.npix := fun p hp => childPix_lt hlo hhi hq' hp
      have hlist : ((childPix m ord q).map fun p => (m.abs p, wAt m red w p)) =
          (childPix d.hdr ord q).map fun p => (d.f p, dWAt d red wd p) := by
        rw [← childPix_hdr hc]
        apply List.map_congr_left
        intro p hp
        rw [hc.abs p (hchild p hp), wAt_dense hc hW hnp (hchild p hp)]
      show b.abs q = g q
      rw [b8 q hq']
      cases hcov : covered m.c m.st (q >>> (2 * (ord - m.covord))) with
      | true =>
        simp only [if_true]
        rw [hg1 q hq' hcov]
        unfold dCoreVal
        rw [hlist, coreRed_hdr hc red hW]
      | false =>
        simp only [Bool.false_eq_true, if_false]
        -- every child lies in the uncovered coverage pixel: it reads the blank, its weight is 0
        have hunc : ∀ p ∈ childPix m ord q, m.abs p = m.vc.sentinel ∧ wAt m red w p = .num 0 0 := by
          intro p hp
          have hp' := hp
          unfold childPix at hp'
          obtain ⟨j, hj, rfl⟩ := List.mem_map.1 hp'
          have hq2 : q < (degCfg m.c (2 * (m.spord - ord))).npix := by
            rw [degCfg_c hlo hhi]; exact hq'
          obtain ⟨f1, f2⟩ := child_facts m.c (gbits_le hlo) hq2 (List.mem_range.1 hj)
          rw [shift_sub hlo hhi] at f2
          have hcp : covered m.c m.st ((q * 2 ^ (2 * (m.spord - ord)) + j) >>> m.c.shift) = false := by
            rw [f2]; exact hcov
          have habs : m.abs (q * 2 ^ (2 * (m.spord - ord)) + j) = m.vc.sentinel :=
            hc.wf.2.abs_uncovered f1 hcp
          refine ⟨habs, ?_⟩
          unfold wAt
          cases w with
          | none => rfl
          | some wm =>
            simp only
            rw [habs, hv]
            simp
        have hrep : ((childPix d.hdr ord q).map fun p => (d.f p, dWAt d red wd p)) =
            List.replicate (2 ^ (2 * (d.spord - ord))) (d.blank, Val.num 0 0) := by
          rw [← hlist]
          have hb : m.vc.sentinel = d.blank := hc.hdr_facts.2.2.2.2.2.2
          have hlen : (childPix m ord q).length = 2 ^ (2 * (d.spord - ord)) := by
            unfold childPix
            rw [List.length_map, List.length_range, hc.spord]
          rw [← hlen, ← hb]
          apply List.ext_getElem
          · simp
          · intro i h1 h2
            simp only [List.getElem_map, List.getElem_replicate]
            have := hunc _ (List.getElem_mem (by simpa using h1))
            rw [this.1, this.2]
        have hne : coreNoErr d red wd = true := by
          unfold coreNoErr
          rw [hd, ← herr]
          rfl
        rw [hg2 hne q hq' hcov hrep]
        show b.kind.blank b.sent = _
        rw [hkind, hsent]
        rfl

/-- **`_degrade` on the map and on the dense array agree** (`covord ≤ ord ≤ spord`), whenever
    the dense view decides the call -/
theorem core_corr {m : MapObj} {d : DenseMap} (hc : Corr m d) (hk : m.KindOk) {red : String}
    {w : Option MapObj} {wd : Option DenseMap} (hW : CorrW w wd) (hww : ∀ wm, w = some wm → wm.WF)
    {ord : Nat} (hlo : m.covord ≤ ord) (hhi : ord ≤ m.spord)
    (hs : coreSettled d ord red wd = true) :
    OutRel (apiDegradeCore m ord red w) (dCore d ord red wd) := by
  refine core_corr_gen hc hk hW hww hlo hhi _ (fun _ _ _ => rfl) fun hne q hq _ hrep => ?_
  unfold coreSettled at hs
  rw [hne, Bool.or_eq_true] at hs
  rcases hs with hs | hs
  · have hs : degBlankOk d ord red wd = true := by simpa using hs
    unfold degBlankOk at hs
    unfold dCoreVal
    rw [hrep]
    exact eq_of_beq hs
  · -- every coarse pixel has a valid child, but all the children of `q` read the blank
    exfalso
    unfold dAllLive at hs
    rw [List.all_eq_true] at hs
    have hq3 : q < 12 * 4 ^ ord := by
      rw [npix_eq_pow hlo] at hq; exact hq
    obtain ⟨p, hp, hval⟩ := List.any_eq_true.1 (hs q (List.mem_range.2 hq3))
    have hmem : (d.f p, dWAt d red wd p) ∈
        (childPix d.hdr ord q).map fun p => (d.f p, dWAt d red wd p) :=
      List.mem_map.2 ⟨p, hp, rfl⟩
    rw [hrep] at hmem
    have hfp : d.f p = d.blank := congrArg Prod.fst (List.eq_of_mem_replicate hmem)
    have hbi : DenseMap.valid d d.blank = false := by
      have := hk.blankInvalid
      unfold MapObj.BlankInvalid at this
      rw [corr_vc hc] at this
      exact this
    rw [hfp, hbi] at hval
    cases hval

/-! ### reading the dense `_degrade` -/

/-- the valid children of coarse pixel `q` in the dense array -/
def dValidChildren (d : DenseMap) (ord q : Nat) : List Nat :=
  (childPix d.hdr ord q).filter fun p => DenseMap.valid d (d.f p)

/-- **float path** (every reduction of a float / boolean map, every reduction but `and` / `or`
    of an integer map): the nan-reduction over EXACTLY the valid children — their values and,
    for `wmean`, their weights — `NaN` (no valid child; zero total weight) giving the sentinel -/
theorem dCoreVal_float {d : DenseMap} {dt : DT} (hk : d.kind = .plain dt) {red : String}
    (hc : (dt.isInt && isAndOr red) = false) (wd : Option DenseMap) (ord q : Nat) :
    dCoreVal d ord red wd q =
      fltOut (if red == "wmean" && isF64 (hdrW wd) then .flt 64 else auxDT dt)
        (reduceVals red ((dValidChildren d ord q).map fun p => (d.f p).numD)
          ((dValidChildren d ord q).map fun p => (dWAt d red wd p).numD)
          ((childPix d.hdr ord q).map fun p => (dWAt d red wd p).numD)) := by
  unfold dCoreVal coreRed dValidChildren
  rw [show d.hdr.kind = d.kind from rfl, hk]
  simp only [hc, Bool.false_eq_true, if_false]
  rw [fltRed_eq, List.filter_map, List.map_map, List.map_map, List.map_map]
  rfl

/-- **integer `and` / `or`**: the fold over ALL the children, valid or not -/
theorem dCoreVal_int {d : DenseMap} {dt : DT} (hk : d.kind = .plain dt) {red : String}
    (hc : (dt.isInt && isAndOr red) = true) (wd : Option DenseMap) (ord q : Nat) :
    dCoreVal d ord red wd q = intRed dt d.sent red ((childPix d.hdr ord q).map d.f) := by
  unfold dCoreVal coreRed
  rw [show d.hdr.kind = d.kind from rfl, hk]
  simp only [hc, if_true]
  rw [List.map_map]
  rfl

/-! ### re-housing (`degrade` below the coverage resolution) -/

/-- the only error a `replace` of distinct in-range pixels of an owning map can raise: a value
    that does not fit the kind (restated from Lemmas/SameRes.lean) -/
theorem replace_errOf {e : MapObj} {pix : List Nat} {vals : List Val} (hview : e.view = none)
    (hnd : pix.Nodup) (hlen : vals.length = pix.length) (hlt : ∀ p ∈ pix, p < e.npix) :
    errOf' (apiUpdate e "replace" pix (some vals) false) =
      if pix.isEmpty then none
      else if !(vals.all (valMatchesKind e.kind)) then some .value else none := by
  rw [ApiRanges.apiUpdate_eq]
  unfold ApiRanges.apiUpdateSpec ApiRanges.frontErr
  have h1 : ¬ pix.eraseDups.length < pix.length := by
    rw [eraseDups_length_lt_iff]; exact fun h => h hnd
  have h2 : (pix.any fun x => decide (x ≥ e.npix)) = false := by
    rw [List.any_eq_false]
    intro p hp
    have := hlt p hp
    simp only [decide_eq_true_eq]
    omega
  simp only [Option.isNone_some, Bool.false_and, Bool.false_eq_true, if_false, bne_self_eq_false,
    Option.getD_some, Bool.false_or, hview, Option.isSome_none, hlen, beq_self_eq_true,
    h1, decide_false, h2, Bool.and_false]
  split
  · rfl
  · split
    · rfl
    · have : ("replace" == "add") = false := by decide +kernel
      simp only [this, Bool.false_and, Bool.false_eq_true, if_false]
      rfl

/-- sentinel of a re-housed map: a wide mask comes back with the scalar sentinel `0` -/
def rehSent (d : DenseMap) : Val :=
  match d.kind with
  | .wide _ => .num 0 0
  | _ => d.sent

/-- `make_empty_like(self, nside_coverage=co)` then `out[valid_pixels] = self[valid_pixels]` on a
    dense array: `make_empty` decides acceptance of the header, the assignment refuses a valid
    value that is not of the map's kind; the invalid pixels read the blank -/
def dRehouse (d : DenseMap) (co : Nat) : Except Err DenseMap :=
  match apiMakeEmpty co d.spord d.kind (some d.sent) [] with
  | .error e => .error e
  | .ok _ =>
    if (List.range d.npix).any
        (fun p => DenseMap.valid d (d.f p) && !valMatchesKind d.kind (d.f p)) then .error .value
    else .ok ⟨co, d.spord, d.kind, rehSent d,
      fun p => if DenseMap.valid d (d.f p) then d.f p else d.blank⟩

/-- **re-housing the map and the dense array agree** -/
theorem rehouse_corr {m : MapObj} {d : DenseMap} (hc : Corr m d) (hv : m.BlankInvalid) (co : Nat) :
    OutRel (rehouse m co) (dRehouse d co) := by
  unfold dRehouse
  rw [← hc.spord, ← hc.kind, ← hc.sent]
  cases he : apiMakeEmpty co m.spord m.kind (some m.sent) [] with
  | error x =>
    have : rehouse m co = .error x := by unfold rehouse; rw [he]; rfl
    rw [this]; exact rfl
  | ok e =>
    simp only []
    obtain ⟨hle, e1, e2, e3, e4, e5⟩ := WFRes.apiMakeEmpty_ok he
    have hvp := hc.wf.2.validPixels_eq hv
    generalize hL : (validCells m.vc m.st).map (pixOfCell m.c m.st) = L at hvp
    have hmem : ∀ p, p ∈ L ↔ p < m.npix ∧ m.vc.valid (m.abs p) = true := by
      intro p; rw [← hL]; exact hc.wf.2.mem_validCells_map hv p
    have hnd : L.Nodup := by rw [← hL]; exact hc.wf.2.nodup_validCells_map hv
    have hcast : (L.map fun p => ((p : Nat) : Int)).map Int.toNat = L := by
      rw [List.map_map]
      conv => rhs; rw [← List.map_id L]
      apply List.map_congr_left
      intro p _
      simp
    have hreh : rehouse m co = apiUpdate e "replace" L (some (L.map m.abs)) false := by
      unfold rehouse
      simp only [bind, Except.bind, he, hvp, hcast]
    have hen : e.npix = m.npix := by
      show (cfgOf e.covord e.spord).npix = (cfgOf m.covord m.spord).npix
      rw [e1, e2, cfgOf_npix hle, cfgOf_npix hc.wf.1]
    have herr := replace_errOf (e := e) (pix := L) (vals := L.map m.abs) e4 hnd (by simp)
      (fun p hp => by rw [hen]; exact ((hmem p).1 hp).1)
    rw [← hreh, e3] at herr
    -- the typing test, on the two sides
    have htyped : (List.range d.npix).any
          (fun p => DenseMap.valid d (d.f p) && !valMatchesKind m.kind (d.f p)) =
        (!L.isEmpty && !((L.map m.abs).all (valMatchesKind m.kind))) := by
      rw [Bool.eq_iff_iff]
      simp only [List.any_eq_true, List.mem_range, Bool.and_eq_true, Bool.not_eq_true',
        List.all_eq_false, List.mem_map, List.isEmpty_eq_false_iff]
      constructor
      · rintro ⟨p, hp, hval, hnm⟩
        have hpm : p < m.npix := by rw [corr_npix hc]; exact hp
        have hpL : p ∈ L := (hmem p).2 ⟨hpm, by rw [hc.abs p hpm, valid_corr hc]; exact hval⟩
        refine ⟨List.ne_nil_of_mem hpL, m.abs p, ⟨p, hpL, rfl⟩, ?_⟩
        rw [hc.abs p hpm]; simpa using hnm
      · rintro ⟨_, x, ⟨p, hpL, rfl⟩, hnm⟩
        obtain ⟨hpm, hval⟩ := (hmem p).1 hpL
        refine ⟨p, by rw [← corr_npix hc]; exact hpm, ?_, ?_⟩
        · rw [← hc.abs p hpm, ← valid_corr hc]; exact hval
        · rw [← hc.abs p hpm]; simpa using hnm
    rw [htyped]
    cases hr : rehouse m co with
    | error x =>
      rw [hr] at herr
      simp only [errOf'] at herr
      by_cases h1 : L.isEmpty = true
      · rw [if_pos h1] at herr; cases herr
      · rw [if_neg h1] at herr
        by_cases h2 : (!(L.map m.abs).all (valMatchesKind m.kind)) = true
        · rw [if_pos h2] at herr
          cases herr
          have : (!L.isEmpty && !(L.map m.abs).all (valMatchesKind m.kind)) = true := by
            simp only [Bool.and_eq_true]
            exact ⟨by simpa using h1, h2⟩
          rw [if_pos this]
          exact rfl
        · rw [if_neg h2] at herr; cases herr
    | ok m1 =>
      rw [hr] at herr
      simp only [errOf'] at herr
      have hnot : ¬ (!L.isEmpty && !(L.map m.abs).all (valMatchesKind m.kind)) = true := by
        intro h
        simp only [Bool.and_eq_true] at h
        rw [if_neg (by simpa using h.1), if_pos h.2] at herr
        cases herr
      rw [if_neg hnot]
      have R := rehouse_ok hc.wf hv hr
      refine ⟨R.wf, R.view, R.covord, R.spord, R.kind, ?_, ?_⟩
      · show m1.sent = rehSent d
        unfold rehSent
        cases hkd : d.kind with
        | wide n => exact R.sentw n (by rw [hc.kind]; exact hkd)
        | plain dt =>
          simp only []
          rw [R.sent (fun n hn => by rw [hc.kind, hkd] at hn; cases hn), hc.sent]
        | packed =>
          simp only []
          rw [R.sent (fun n hn => by rw [hc.kind, hkd] at hn; cases hn), hc.sent]
        | recd fs pr =>
          simp only []
          rw [R.sent (fun n hn => by rw [hc.kind, hkd] at hn; cases hn), hc.sent]
      · intro p hp
        have hpm : p < m.npix := by rw [← R.npix]; exact hp
        rw [R.abs p hpm]
        show _ = if DenseMap.valid d (d.f p) = true then d.f p else d.blank
        have hb : m.vc.sentinel = d.blank := hc.hdr_facts.2.2.2.2.2.2
        rw [hc.abs p hpm, valid_corr hc, hb]

/-! ### `degrade` on dense arrays -/

/-- re-housing the optional weight array -/
def dRehouseW (wd : Option DenseMap) (co : Nat) : Except Err (Option DenseMap) :=
  match wd with
  | none => .ok none
  | some w =>
    match dRehouse w co with
    | .ok w1 => .ok (some w1)
    | .error e => .error e

/-- **`degrade(nside_out, reduction, weights)` on a dense array**: `ValueError` for a finer target,
    `NotImplementedError` for a bit-packed map, a copy at the map's own order; below the coverage
    order both arrays are re-housed first and a coarse pixel WITHOUT valid child is blank; at or
    above it every coarse pixel holds the reduction of its children -/
def dDegrade (d : DenseMap) (ord : Nat) (red : String) (wd : Option DenseMap) : Except Err DenseMap :=
  if ord > d.spord then .error .value
  else if d.kind == .packed then .error .notImpl
  else if ord < d.covord then
    match dRehouse d ord with
    | .error e => .error e
    | .ok d1 =>
      match dRehouseW wd ord with
      | .error e => .error e
      | .ok wd1 =>
        dCoreG (fun q =>
            if (childPix d.hdr ord q).any (fun p => DenseMap.valid d (d.f p))
            then dCoreVal d1 ord red wd1 q else dCoreBlank d1 red wd1) d1 ord red wd1
  else if ord == d.spord then .ok d
  else dCore d ord red wd

/-- the dense view decides the call: always, except at or above the coverage order (and below
    the map's), where `coreSettled` is asked -/
def degSettled (d : DenseMap) (ord : Nat) (red : String) (wd : Option DenseMap) : Bool :=
  if ord > d.spord || d.kind == .packed || decide (ord < d.covord) || ord == d.spord then true
  else coreSettled d ord red wd

theorem bind_ok_eq {α β : Type} {x : Except Err α} {a : α} (h : x = .ok a) (f : α → Except Err β) :
    (x >>= f) = f a := by rw [h]; rfl

theorem bind_err_eq {α β : Type} {x : Except Err α} {e : Err} (h : x = .error e)
    (f : α → Except Err β) : (x >>= f) = .error e := by rw [h]; rfl

/-- **`degrade` on the map and on the dense array agree**: the same error, or results that agree
    again — every reduction, with or without weights, above and below the coverage order —
    whenever the dense view decides the call -/
theorem degrade_corr {m : MapObj} {d : DenseMap} (hc : Corr m d) (hk : m.KindOk) {red : String}
    {w : Option MapObj} {wd : Option DenseMap} (hW : CorrW w wd)
    (hwk : ∀ wm, w = some wm → wm.WF ∧ wm.KindOk) (ord : Nat)
    (hs : degSettled d ord red wd = true) :
    OutRel (apiDegrade m ord red w) (dDegrade d ord red wd) := by
  have hv := hk.blankInvalid
  rw [apiDegrade_eq]
  unfold degradeSpec dDegrade
  unfold degSettled at hs
  rw [← hc.spord, ← hc.kind, ← hc.covord] at hs ⊢
  by_cases h1 : ord > m.spord
  · rw [if_pos h1, if_pos h1]; exact rfl
  rw [if_neg h1, if_neg h1]
  by_cases h2 : (m.kind == .packed) = true
  · rw [if_pos h2, if_pos h2]; exact rfl
  rw [if_neg h2, if_neg h2]
  by_cases h3 : ord < m.covord
  · rw [if_pos h3, if_pos h3]
    -- below the coverage order
    have hr := rehouse_corr hc hv ord
    revert hr
    cases hrm : rehouse m ord with
    | error e =>
      cases hrd : dRehouse d ord with
      | error e' => intro hr; rw [bind_err_eq rfl]; exact hr
      | ok _ => intro hr; exact hr.elim
    | ok m1 =>
      cases hrd : dRehouse d ord with
      | error _ => intro hr; exact hr.elim
      | ok d1 =>
        intro hc1
        have hc1 : Corr m1 d1 := hc1
        rw [bind_ok_eq rfl]
        simp only []
        have R := rehouse_ok hc.wf hv hrm
        have hk1 : m1.KindOk := KindOk.rehouse hrm
        -- the weight map
        cases w with
        | none =>
          cases wd with
          | some _ => exact hW.elim
          | none =>
            simp only [dRehouseW]
            show OutRel (apiDegradeCore m1 ord red none) _
            refine core_corr_gen hc1 hk1 (w := none) (wd := none) trivial (fun _ h => nomatch h)
              (by rw [R.covord]; exact Nat.le_refl _) (by rw [R.spord]; omega) _ ?_ (fun _ => ?_)
            all_goals
              intro q hq
              have hlive := (src_rehoused hc.wf h3 R).live q hq
              have hany : (childPix m ord q).any (fun p => m.vc.valid (m.abs p)) =
                  (childPix d.hdr ord q).any (fun p => DenseMap.valid d (d.f p)) := by
                rw [← childPix_hdr hc]
                apply ApiMulti.any_congr_mem
                intro p hp
                have hp1 : p < m1.npix :=
                  childPix_lt (by rw [R.covord]; exact Nat.le_refl _) (by rw [R.spord]; omega) hq
                    (by rw [childPix_spord R.spord]; exact hp)
                rw [R.npix] at hp1
                rw [hc.abs p hp1, valid_corr hc]
              unfold ApiDegrade.live at hlive
              rw [decide_eq_false (by omega), Bool.false_and, Bool.or_false, hany] at hlive
              rw [hlive]
            · intro hcv; simp only [hcv, if_true]
            · intro hcv _; simp only [hcv, Bool.false_eq_true, if_false]
        | some wm =>
          cases wd with
          | none => exact hW.elim
          | some dw =>
            have hcw : Corr wm dw := hW
            obtain ⟨hwwf, hwk'⟩ := hwk wm rfl
            have hrw := rehouse_corr hcw hwk'.blankInvalid ord
            revert hrw
            simp only [dRehouseW]
            cases hrwm : rehouse wm ord with
            | error e =>
              cases hrwd : dRehouse dw ord with
              | error e' =>
                intro hr
                have : (Except.map some (Except.error e : Except Err MapObj)) = .error e := rfl
                rw [this, bind_err_eq rfl]
                exact hr
              | ok _ => intro hr; exact hr.elim
            | ok wm1 =>
              cases hrwd : dRehouse dw ord with
              | error _ => intro hr; exact hr.elim
              | ok dw1 =>
                intro hcw1
                have hcw1 : Corr wm1 dw1 := hcw1
                have : (Except.map some (Except.ok wm1 : Except Err MapObj)) = .ok (some wm1) := rfl
                rw [this, bind_ok_eq rfl]
                simp only []
                refine core_corr_gen hc1 hk1 (w := some wm1) (wd := some dw1) hcw1
                  (fun x hx => by cases hx; exact WF.rehouse hrwm)
                  (by rw [R.covord]; exact Nat.le_refl _) (by rw [R.spord]; omega) _ ?_ (fun _ => ?_)
                all_goals
                  intro q hq
                  have hlive := (src_rehoused hc.wf h3 R).live q hq
                  have hany : (childPix m ord q).any (fun p => m.vc.valid (m.abs p)) =
                      (childPix d.hdr ord q).any (fun p => DenseMap.valid d (d.f p)) := by
                    rw [← childPix_hdr hc]
                    apply ApiMulti.any_congr_mem
                    intro p hp
                    have hp1 : p < m1.npix :=
                      childPix_lt (by rw [R.covord]; exact Nat.le_refl _) (by rw [R.spord]; omega) hq
                        (by rw [childPix_spord R.spord]; exact hp)
                    rw [R.npix] at hp1
                    rw [hc.abs p hp1, valid_corr hc]
                  unfold ApiDegrade.live at hlive
                  rw [decide_eq_false (by omega), Bool.false_and, Bool.or_false, hany] at hlive
                  rw [hlive]
                · intro hcv; simp only [hcv, if_true]
                · intro hcv _; simp only [hcv, Bool.false_eq_true, if_false]
  · rw [if_neg h3, if_neg h3]
    by_cases h4 : (ord == m.spord) = true
    · rw [if_pos h4, if_pos h4]
      exact hc.cache none
    · rw [if_neg h4, if_neg h4]
      have h4' : ord ≠ m.spord := by simpa using h4
      have hs' : coreSettled d ord red wd = true := by
        rw [if_neg] at hs
        · exact hs
        · simp only [Bool.or_eq_true, decide_eq_true_eq, not_or]
          exact ⟨⟨⟨h1, h2⟩, h3⟩, h4⟩
      exact core_corr hc hk hW (fun wm hwm => (hwk wm hwm).1) (by omega) (by omega) hs'

/-! ### the `deg` line -/

/-- the optional weight array named on a `deg` line (`w=`): `none` = no such map -/
def degWeights (D : DenseWorld) (a : Args) : Option (Option DenseMap) :=
  match a.get? "w" with
  | none => some none
  | some n => (D.get? n).map some

/-- the dense side of a `deg` line -/
def dDeg (D : DenseWorld) (a : Args) : DenseWorld × String :=
  dWithMap D a fun d =>
    match a.nat? "ord" with
    | none => (D, "bad-op:ord")
    | some ord =>
      match degWeights D a with
      | none => (D, "bad-op:no-such-map")
      | some wd =>
        match dDegrade d ord (a.getD "red" "mean") wd with
        | .ok r => (D.bind (a.getD "r" "tmp") r, "ok")
        | .error e => (D, errLine e)

/-- the dense views decide the `deg` line (see `degSettled`) -/
def degSettledArgs (D : DenseWorld) (a : Args) : Bool :=
  match D.get? (a.pos.headD ""), a.nat? "ord", degWeights D a with
  | some d, some ord, some wd => degSettled d ord (a.getD "red" "mean") wd
  | _, _, _ => true

theorem opDeg_eq (w : World) (a : Args) :
    opDeg w a = withMap w a fun m =>
      match a.nat? "ord" with
      | none => (w, "bad-op:ord")
      | some ord =>
        match (match a.get? "w" with
          | none => some none
          | some n => (w.get? n).map some : Option (Option MapObj)) with
        | none => (w, "bad-op:no-such-map")
        | some wm =>
          match apiDegrade m ord (a.getD "red" "mean") wm with
          | .ok r => (w.bind (a.getD "r" "tmp") r, "ok")
          | .error e => (w, errLine e) := rfl

theorem rel_deg {w : World} {D : DenseWorld} (h : Rel w D) (hw : w.Good) (a : Args)
    (hs : degSettledArgs D a = true) :
    Rel (opDeg w a).1 (dDeg D a).1 ∧ (opDeg w a).2 = (dDeg D a).2 := by
  rw [opDeg_eq]
  unfold dDeg
  refine rel_withMap h fun m d hget hd hc => ?_
  have hmok := hw.get hget
  unfold degSettledArgs at hs
  rw [hd] at hs
  cases hord : a.nat? "ord" with
  | none => exact ⟨h, rfl⟩
  | some ord =>
    rw [hord] at hs
    simp only []
    -- the weight map on both sides
    have hwm : match (match a.get? "w" with
          | none => some none
          | some n => (w.get? n).map some : Option (Option MapObj)), degWeights D a with
        | some wm, some wd => CorrW wm wd ∧ ∀ x, wm = some x → x.WF ∧ x.KindOk
        | none, none => True
        | _, _ => False := by
      unfold degWeights
      cases a.get? "w" with
      | none => exact ⟨trivial, fun _ hx => nomatch hx⟩
      | some n =>
        simp only []
        have hm := h.maps n
        have hg := h.get?_eq n
        cases hr : w.raw? n with
        | none =>
          rw [hr] at hm
          cases hdn : D.get? n with
          | none => rw [hg, hr]; exact trivial
          | some _ => rw [hdn] at hm; exact hm.elim
        | some wm =>
          rw [hr] at hm
          cases hdn : D.get? n with
          | none => rw [hdn] at hm; exact hm.elim
          | some dw =>
            rw [hdn] at hm
            have hgw : w.get? n = some wm := by rw [hg, hr]
            have hwok := hw.get hgw
            rw [hgw]
            exact ⟨hm, fun x hx => by cases hx; exact ⟨hwok.1, hwok.2.1⟩⟩
    revert hwm hs
    cases (match a.get? "w" with
          | none => some none
          | some n => (w.get? n).map some : Option (Option MapObj)) <;>
      cases degWeights D a <;> intro hs hwm
    · exact ⟨h, rfl⟩
    · exact hwm.elim
    · exact hwm.elim
    · rename_i wm wd
      simp only [] at hs ⊢
      have := degrade_corr hc hmok.2.1 hwm.1 hwm.2 ord hs
      revert this
      cases apiDegrade m ord (a.getD "red" "mean") wm <;>
        cases dDegrade d ord (a.getD "red" "mean") wd <;> intro hr
      · cases hr; exact ⟨h, rfl⟩
      · exact hr.elim
      · exact hr.elim
      · exact ⟨h.bind _ hr, rfl⟩

end degrade

/-! ### the `fracdet` line -/

section fracdet
open ApiDegrade ApiResolution

/-- `fracdet_map(nside)` on a dense array: a float64 array with sentinel `0.0` holding, at every
    coarse pixel, the exact fraction `(number of valid children) / 4^(spord - ord)` -/
def dFracdetMap (d : DenseMap) (ord : Nat) : DenseMap :=
  ⟨d.covord, ord, .plain (.flt 64), .num 0 0, fun q =>
    fracCell ((childPix d.hdr ord q).filter fun p => DenseMap.valid d (d.f p)).length
      (2 * (d.spord - ord))⟩

theorem filter_congr_mem {α : Type} {p q : α → Bool} {l : List α} (h : ∀ a ∈ l, p a = q a) :
    l.filter p = l.filter q := by
  induction l with
  | nil => rfl
  | cons a l ih =>
    rw [List.filter_cons, List.filter_cons, h a List.mem_cons_self,
      ih (fun b hb => h b (List.mem_cons_of_mem _ hb))]

theorem fracdet_corr {m : MapObj} {d : DenseMap} (hc : Corr m d) (hk : m.KindOk) {ord : Nat}
    (hlo : m.covord ≤ ord) (hhi : ord ≤ m.spord) : Corr (fracdetMap m ord) (dFracdetMap d ord) := by
  have hwf : (fracdetMap m ord).WF := WF.fracdet hc.wf hk hlo hhi
  refine ⟨hwf, rfl, hc.covord, rfl, rfl, rfl, ?_⟩
  intro q hq
  have hq' : q < 12 * 4 ^ ord := by
    have : (fracdetMap m ord).npix = (cfgOf m.covord ord).npix := rfl
    rw [this, npix_eq_pow hlo] at hq
    exact hq
  rw [fracdetMap_abs hc.wf hk.blankInvalid hlo hhi hq']
  show _ = fracCell _ _
  rw [hc.spord]
  congr 1
  unfold fracCount validChildren
  rw [childPix_hdr hc]
  congr 1
  apply filter_congr_mem
  intro p hp
  have hpm : p < m.npix :=
    childPix_lt hlo hhi (by rw [npix_eq_pow hlo]; exact hq') (by rw [childPix_hdr hc]; exact hp)
  rw [hc.abs p hpm, valid_corr hc]

/-- the dense side of a `fracdet` line -/
def dFracdet (D : DenseWorld) (a : Args) : DenseWorld × String :=
  dWithMap D a fun d =>
    match a.get? "r", a.nat? "ord" with
    | some r, some ord =>
      if ord > d.spord || ord < d.covord then (D, errLine .value)
      else (D.bind r (dFracdetMap d ord), "ok")
    | _, _ => (D, "bad-op:fracdet")

theorem opFracdet_eq' (w : World) (a : Args) :
    opFracdet w a = withMap w a fun m =>
      match a.get? "r", a.nat? "ord" with
      | some r, some ord =>
        if ord > m.spord || ord < m.covord then (w, errLine .value)
        else (w.bind r (fracdetMap m ord), "ok")
      | _, _ => (w, "bad-op:fracdet") := rfl

theorem rel_fracdet {w : World} {D : DenseWorld} (h : Rel w D) (hw : w.Good) (a : Args) :
    Rel (opFracdet w a).1 (dFracdet D a).1 ∧ (opFracdet w a).2 = (dFracdet D a).2 := by
  rw [opFracdet_eq']
  unfold dFracdet
  refine rel_withMap h fun m d hget _ hc => ?_
  have hmok := hw.get hget
  cases a.get? "r" with
  | none => exact ⟨h, rfl⟩
  | some r =>
    cases a.nat? "ord" with
    | none => exact ⟨h, rfl⟩
    | some ord =>
      simp only []
      rw [← hc.spord, ← hc.covord]
      by_cases hb : (decide (ord > m.spord) || decide (ord < m.covord)) = true
      · rw [if_pos hb, if_pos hb]; exact ⟨h, rfl⟩
      · rw [if_neg hb, if_neg hb]
        have hb' : ¬ ord > m.spord ∧ ¬ ord < m.covord := by simpa using hb
        exact ⟨h.bind r (fracdet_corr hc hmok.2.1 (by omega) (by omega)), rfl⟩

end fracdet

/-! ### the extended dense interpreter -/

/-- the lines of the multi-map and resolution family covered here: `mop` (the sixteen named
    union / intersection operations and the two `ufunc_*` forms), `upg`, `deg` (every reduction,
    with and without a weight map, above and below the coverage order), `fracdet` -/
def famOp (op : String) : Bool := op == "mop" || op == "upg" || op == "deg" || op == "fracdet"

/-- **the dense interpreter, extended**: `mop`, `upg`, `deg` and `fracdet` on dense arrays;
    every other line as before -/
def dstepArgsM (D : DenseWorld) (op : String) (a : Args) : DenseWorld × String :=
  match op with
  | "mop" => dMop D a
  | "upg" => dUpg D a
  | "deg" => dDeg D a
  | "fracdet" => dFracdet D a
  | _ => dstepArgs D op a

/-- the dense views decide the parsed line: always, except for some `mop` lines whose inputs
    have an empty combined valid set (`mopSettled`) and some `deg` lines (`degSettled`) -/
def settledArgs (D : DenseWorld) (op : String) (a : Args) : Bool :=
  if op == "mop" then mopSettledArgs D a
  else if op == "deg" then degSettledArgs D a
  else true

/-- a raw line of a history covered here: a plain line or a line of the family -/
def lineOk (line : String) : Bool :=
  match lineToks line with
  | [] => true
  | op :: _ => plainOp op || famOp op

/-- the dense interpreter on a raw line -/
def dstepM (D : DenseWorld) (line : String) : DenseWorld × String :=
  match lineToks line with
  | [] => (D, "bad-op:empty")
  | op :: rest => dstepArgsM D op (parseArgs rest)

def drunM (lines : List String) : DenseWorld := lines.foldl (fun D l => (dstepM D l).1) []

/-- the dense views decide the line -/
def settled (D : DenseWorld) (line : String) : Bool :=
  match lineToks line with
  | op :: rest => settledArgs D op (parseArgs rest)
  | [] => true

/-- every line of the history is decided by the dense views, along the dense run -/
def settledFrom (D : DenseWorld) : List String → Bool
  | [] => true
  | l :: ls => settled D l && settledFrom (dstepM D l).1 ls

theorem dstepArgsM_plain {op : String} (hp : plainOp op = true) (D : DenseWorld) (a : Args) :
    dstepArgsM D op a = dstepArgs D op a := by
  rcases plainOp_cases hp with rfl | rfl | rfl | rfl | rfl | rfl <;> rfl

theorem famOp_not_packed {op : String} (h : famOp op = true) : op.startsWith "p." = false := by
  unfold famOp at h
  simp only [Bool.or_eq_true, beq_iff_eq] at h
  rcases h with ((rfl | rfl) | rfl) | rfl <;> decide +kernel

/-- **one parsed line of the family** -/
theorem rel_stepArgsM {w : World} {D : DenseWorld} (h : Rel w D) (hw : w.Good) {op : String}
    (ho : (plainOp op || famOp op) = true) (a : Args)
    (hs : settledArgs D op a = true) :
    Rel (stepArgs w op a).1 (dstepArgsM D op a).1 ∧ (stepArgs w op a).2 = (dstepArgsM D op a).2 := by
  rw [Bool.or_eq_true] at ho
  rcases ho with hp | hf
  · rw [dstepArgsM_plain hp]
    exact rel_stepArgs h hp a
  · unfold famOp at hf
    simp only [Bool.or_eq_true, beq_iff_eq] at hf
    rcases hf with ((rfl | rfl) | rfl) | rfl
    · exact rel_mop h hw a hs
    · exact rel_upg h a
    · exact rel_deg h hw a hs
    · exact rel_fracdet h hw a

/-- **one line of the family**: a good world and a dense world in agreement stay in agreement
    and give the same answer, when the dense views decide the line -/
theorem rel_stepM {w : World} {D : DenseWorld} (hR : Rel w D) (hw : w.Good) {line : String}
    (hl : lineOk line = true) (hs : settled D line = true) :
    Rel (step w line).1 (dstepM D line).1 ∧ (step w line).2 = (dstepM D line).2 := by
  have hstep : step w line = match lineToks line with
      | [] => (w, "bad-op:empty")
      | op :: rest =>
        if op.startsWith "p." then
          let (pw, o) := stepPacked w.packed op (parseArgs rest)
          ({ w with packed := pw }, o)
        else stepArgs w op (parseArgs rest) := rfl
  rw [hstep]
  unfold dstepM
  unfold lineOk at hl
  unfold settled at hs
  cases ht : lineToks line with
  | nil => exact ⟨hR, rfl⟩
  | cons op rest =>
    rw [ht] at hl hs
    have hnp : op.startsWith "p." = false := by
      rw [Bool.or_eq_true] at hl
      rcases hl with hp | hf
      · exact plainOp_not_packed hp
      · exact famOp_not_packed hf
    simp only [hnp, Bool.false_eq_true, if_false]
    exact rel_stepArgsM hR hw hl _ hs

/-- **histories**: from agreeing worlds, a history of plain and family lines all decided by the
    dense views leads to agreeing worlds -/
theorem rel_foldM {w : World} {D : DenseWorld} (hR : Rel w D) (hw : w.Good) (lines : List String)
    (hl : ∀ l ∈ lines, lineOk l = true) (hs : settledFrom D lines = true) :
    Rel (lines.foldl (fun w l => (step w l).1) w) (lines.foldl (fun D l => (dstepM D l).1) D) := by
  induction lines generalizing w D with
  | nil => exact hR
  | cons l ls ih =>
    simp only [settledFrom, Bool.and_eq_true] at hs
    exact ih (rel_stepM hR hw (hl l List.mem_cons_self) hs.1).1 (Good.step hw l)
      (fun l' h' => hl l' (List.mem_cons_of_mem _ h')) hs.2

theorem rel_runLinesM (lines : List String) (hl : ∀ l ∈ lines, lineOk l = true)
    (hs : settledFrom [] lines = true) : Rel (runLines lines) (drunM lines) :=
  rel_foldM rel_empty World.good_empty lines hl hs

/-! ### the side condition along a history -/

theorem settledFrom_append (D : DenseWorld) (l1 l2 : List String) :
    settledFrom D (l1 ++ l2) =
      (settledFrom D l1 && settledFrom (l1.foldl (fun D l => (dstepM D l).1) D) l2) := by
  induction l1 generalizing D with
  | nil => simp [settledFrom]
  | cons l ls ih => simp [settledFrom, ih, Bool.and_assoc]

/-- a history decided by the dense views: so is every prefix, and the line after it -/
theorem settledFrom_take {lines : List String} (hs : settledFrom [] lines = true) (k : Nat)
    (hk : k < lines.length) :
    settledFrom [] (lines.take k) = true ∧ settled (drunM (lines.take k)) lines[k] = true := by
  have hsplit : lines = lines.take k ++ lines[k] :: lines.drop (k + 1) := by
    rw [← List.drop_eq_getElem_cons hk, List.take_append_drop]
  rw [hsplit, settledFrom_append] at hs
  simp only [settledFrom, Bool.and_eq_true] at hs
  exact ⟨hs.1, hs.2.1⟩

/-- a line that is neither a `mop` nor a `deg` line is always decided -/
theorem settled_of_not_mop (D : DenseWorld) {line : String}
    (h : ∀ rest, lineToks line ≠ "mop" :: rest) (h' : ∀ rest, lineToks line ≠ "deg" :: rest) :
    settled D line = true := by
  unfold settled
  split
  · rename_i op rest ht
    unfold settledArgs
    split
    · rename_i hop
      exact absurd (by rw [ht, eq_of_beq hop]) (h rest)
    · split
      · rename_i hop
        exact absurd (by rw [ht, eq_of_beq hop]) (h' rest)
      · rfl
  · rfl

end ApiDenseMulti
end HS
