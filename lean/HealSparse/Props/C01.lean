/-
  C01 — a sparse map reads and writes exactly like a dense HEALPix array.
  Property theorems only (helpers in HealSparse/Lemmas).
-/
import HealSparse.Lemmas.Core
import HealSparse.Lemmas.Coverage
import HealSparse.Props.C04
namespace HS
namespace C01

variable {V : Type} [DecidableEq V]

/-- Growth does not change any pixel value. -/
theorem reserve_abs (c : Cfg) (vc : VCfg V) (s : State V) (new : List Nat)
    (h : Inv c vc s) (hnd : new.Nodup)
    (hnew : ∀ k ∈ new, k < c.ncov ∧ covered c s k = false) (p : Nat) (hp : p < c.npix) :
    abs c vc (reserve c vc s new) p = abs c vc s p := by
  exact reserve_abs' c vc s new h hnd hnew p hp

/-- Growth covers exactly the requested coverage pixels in addition. -/
theorem reserve_covered (c : Cfg) (vc : VCfg V) (s : State V) (new : List Nat)
    (h : Inv c vc s) (hnd : new.Nodup)
    (hnew : ∀ k ∈ new, k < c.ncov ∧ covered c s k = false) (k : Nat) (hk : k < c.ncov) :
    covered c (reserve c vc s new) k = (covered c s k || decide (k ∈ new)) := by
  exact reserve_covered' c vc s new h hnd k hk

/-- **Refinement**: one `update_values_pix` call (any operation `g`, operand list `L` with
    repeated pixels allowed, either append mode) changes the dense view exactly as the
    dense update does. -/
theorem updateCore_refines {W : Type} (c : Cfg) (vc : VCfg V) (s : State V) (g : V → W → V)
    (L : List (Nat × W)) (na : Bool)
    (h : Inv c vc s) (hL : ∀ qw ∈ L, qw.1 < c.npix) (p : Nat) (hp : p < c.npix) :
    abs c vc (updateCore c vc s g L na) p
      = denseUpdate c (abs c vc s) (covered c s) g L na p := by
  exact updateCore_refines' c vc s g L na h hL p hp

/-- The coverage mask after an update is the dense coverage. -/
theorem updateCore_covered {W : Type} (c : Cfg) (vc : VCfg V) (s : State V) (g : V → W → V)
    (L : List (Nat × W)) (na : Bool)
    (h : Inv c vc s) (hL : ∀ qw ∈ L, qw.1 < c.npix) (k : Nat) (hk : k < c.ncov) :
    covered c (updateCore c vc s g L na) k = denseCov c (covered c s) L na k := by
  exact updateCore_covered' c vc s g L na h hL k hk

/-- One update operation of a history (the operand type may differ per call). -/
structure UpdOp (V : Type) where
  W  : Type
  g  : V → W → V
  L  : List (Nat × W)
  na : Bool

def UpdOp.inRange (c : Cfg) (o : UpdOp V) : Prop := ∀ qw ∈ o.L, qw.1 < c.npix

/-- run a history on the sparse representation -/
def runHist (c : Cfg) (vc : VCfg V) (s : State V) (h : List (UpdOp V)) : State V :=
  h.foldl (fun s o => updateCore c vc s o.g o.L o.na) s

/-- run the same history on a dense array + coverage set -/
def denseHist (c : Cfg) (d : (Nat → V) × (Nat → Bool)) (h : List (UpdOp V)) :
    (Nat → V) × (Nat → Bool) :=
  h.foldl (fun d o => (denseUpdate c d.1 d.2 o.g o.L o.na, denseCov c d.2 o.L o.na)) d

/-- **Every history**: after any sequence of updates starting from any well-formed state,
    every pixel reads what the dense array holds, the coverage mask is the dense coverage,
    and the layout invariant holds. -/
theorem history_refines (c : Cfg) (vc : VCfg V) (s : State V) (hs : Inv c vc s)
    (h : List (UpdOp V)) (hr : ∀ o ∈ h, o.inRange c) :
    Inv c vc (runHist c vc s h) ∧
    (∀ p, p < c.npix → abs c vc (runHist c vc s h) p
        = (denseHist c (abs c vc s, covered c s) h).1 p) ∧
    (∀ k, k < c.ncov → covered c (runHist c vc s h) k
        = (denseHist c (abs c vc s, covered c s) h).2 k) := by
  have key : ∀ (h : List (UpdOp V)) (s : State V) (d : (Nat → V) × (Nat → Bool)),
      Inv c vc s → (∀ o ∈ h, o.inRange c) →
      (∀ p, p < c.npix → abs c vc s p = d.1 p) → (∀ k, k < c.ncov → covered c s k = d.2 k) →
      Inv c vc (runHist c vc s h) ∧
      (∀ p, p < c.npix → abs c vc (runHist c vc s h) p = (denseHist c d h).1 p) ∧
      (∀ k, k < c.ncov → covered c (runHist c vc s h) k = (denseHist c d h).2 k) := by
    intro h
    induction h with
    | nil => intro s d hs _ hv hc; exact ⟨hs, hv, hc⟩
    | cons o h ih =>
      intro s d hs hr hv hc
      have ho : o.inRange c := hr o List.mem_cons_self
      refine ih (updateCore c vc s o.g o.L o.na)
        (denseUpdate c d.1 d.2 o.g o.L o.na, denseCov c d.2 o.L o.na)
        (C04.inv_updateCore c vc s o.g o.L o.na hs ho)
        (fun o' ho' => hr o' (List.mem_cons_of_mem _ ho')) ?_ ?_
      · intro p hp
        rw [updateCore_refines c vc s o.g o.L o.na hs ho p hp]
        exact denseUpdate_congr c _ _ _ _ o.g o.L o.na p (hv p hp) (hc _ (covpix_lt c p hp))
      · intro k hk
        rw [updateCore_covered c vc s o.g o.L o.na hs ho k hk]
        exact denseCov_congr c _ _ o.L o.na k (hc k hk)
  exact key h s (abs c vc s, covered c s) hs hr (fun _ _ => rfl) (fun _ _ => rfl)

/-- The empty map reads as the sentinel everywhere. -/
theorem makeEmpty_abs (c : Cfg) (vc : VCfg V) (P : List Nat)
    (hnd : P.Nodup) (hlt : ∀ k ∈ P, k < c.ncov) (p : Nat) (hp : p < c.npix) :
    abs c vc (makeEmpty c vc P) p = vc.sentinel := by
  exact makeEmpty_abs' c vc P p

/-- Pixels never written read as the sentinel, after any history from the empty map. -/
theorem never_written_reads_sentinel (c : Cfg) (vc : VCfg V)
    (h : List (UpdOp V)) (hr : ∀ o ∈ h, o.inRange c) (p : Nat) (hp : p < c.npix)
    (hnw : ∀ o ∈ h, ∀ qw ∈ o.L, qw.1 ≠ p) :
    abs c vc (runHist c vc (makeEmpty c vc []) h) p = vc.sentinel := by
  have key : ∀ (h : List (UpdOp V)) (s : State V), Inv c vc s → (∀ o ∈ h, o.inRange c) →
      (∀ o ∈ h, ∀ qw ∈ o.L, qw.1 ≠ p) → abs c vc (runHist c vc s h) p = abs c vc s p := by
    intro h
    induction h with
    | nil => intro s _ _ _; rfl
    | cons o h ih =>
      intro s hs hr hnw
      have ho : o.inRange c := hr o List.mem_cons_self
      have := ih (updateCore c vc s o.g o.L o.na)
        (C04.inv_updateCore c vc s o.g o.L o.na hs ho)
        (fun o' ho' => hr o' (List.mem_cons_of_mem _ ho'))
        (fun o' ho' => hnw o' (List.mem_cons_of_mem _ ho'))
      rw [updateCore_refines c vc s o.g o.L o.na hs ho p hp,
        denseUpdate_untouched c _ _ o.g o.L o.na p (hnw o List.mem_cons_self)] at this
      exact this
  rw [key h _ (C04.inv_makeEmpty c vc [] List.nodup_nil (fun _ hk => nomatch hk)) hr hnw]
  exact makeEmpty_abs c vc [] List.nodup_nil (fun _ hk => nomatch hk) p hp

/-- `None` (clear) on a kind whose clear value is the sentinel: every addressed pixel reads
    the sentinel afterwards, covered or not, and nothing else changes. -/
theorem clear_spec (c : Cfg) (vc : VCfg V) (s : State V) (h : Inv c vc s)
    (pix : List Nat) (hL : ∀ q ∈ pix, q < c.npix) (p : Nat) (hp : p < c.npix) :
    abs c vc (updateCore c vc s (fun _ (w : V) => w) (pix.map (·, vc.sentinel)) true) p
      = if p ∈ pix then vc.sentinel else abs c vc s p := by
  have hL' : ∀ qw ∈ pix.map (·, vc.sentinel), qw.1 < c.npix := by
    intro qw hq
    obtain ⟨q, hq', rfl⟩ := List.mem_map.1 hq
    exact hL q hq'
  rw [updateCore_refines c vc s _ _ true h hL' p hp]
  unfold denseUpdate
  rw [denseFold_clear]
  cases hc : covered c s (p >>> c.shift) with
  | true => simp
  | false =>
    have := h.abs_uncovered hp hc
    simp [this]

end C01
end HS
