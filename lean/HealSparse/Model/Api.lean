/-
  Map objects of concrete kinds and the front end of `update_values_pix` /
  `get_values_pix` (validation chain in source order, then the generic core).

  Mirrors: HealSparseMap.make_empty (165-258), update_values_pix (475-676, front part),
  get_values_pix (860-918).
-/
import HealSparse.Model.Map
import HealSparse.Model.Value
import HealSparse.Model.Ranges
namespace HS

inductive Err where
  | value | index | runtime | notImpl | type | bad (msg : String)
deriving Repr, DecidableEq

def Err.tag : Err → String
  | .value => "ValueError" | .index => "IndexError" | .runtime => "RuntimeError"
  | .notImpl => "NotImplementedError" | .type => "TypeError" | .bad m => "bad-op:" ++ m

/-- A `HealSparseMap` object of a concrete kind. -/
structure MapObj where
  covord : Nat
  spord  : Nat
  kind   : Kind
  sent   : Val                 -- `_sentinel` (scalar; for records: of the primary field)
  st     : State Val
  cache  : Option Nat := none  -- `_n_valid`
deriving Repr

def cfgOf (covord spord : Nat) : Cfg := ⟨12 * 4 ^ covord, 2 * (spord - covord)⟩

def MapObj.c (m : MapObj) : Cfg := cfgOf m.covord m.spord
def MapObj.vc (m : MapObj) : VCfg Val := ⟨m.kind.blank m.sent, m.kind.valid m.sent⟩
def MapObj.abs (m : MapObj) (p : Nat) : Val := HS.abs m.c m.vc m.st p
def MapObj.npix (m : MapObj) : Nat := m.c.npix

/-- element dtype used by arithmetic / bitwise cell operations -/
def Kind.dt : Kind → DT
  | .plain dt => dt
  | .packed => .bool
  | .wide _ => .int 8 false
  | .recd _ _ => .flt 64

def Kind.isBool : Kind → Bool
  | .plain .bool => true
  | .packed => true
  | _ => false

/-- `is_integer_map` (bool counts as integer; records do not). -/
def Kind.isIntegerMap : Kind → Bool
  | .plain (.int _ _) => true
  | .plain .bool => true
  | .packed => true
  | .wide _ => true
  | _ => false

def Val.isZero : Val → Bool
  | .num n _ => n == 0
  | .bool b => !b
  | .bytes bs => bs.all (· == 0)
  | _ => false

/-- `check_sentinel` for an explicitly given sentinel. -/
def checkSentinel (dt : DT) (s : Option Val) : Except Err Val :=
  match s with
  | none => .ok dt.defaultSentinel
  | some v =>
    match dt, v with
    | .flt _, .num n e => .ok (.num n e)
    | .int b sg, .num n 0 =>
        if wrapInt b sg n == n then .ok (.num n 0) else .error .value
    | .bool, .bool x => .ok (.bool x)
    | _, _ => .error .value

/-- `HealSparseMap.make_empty`. -/
def apiMakeEmpty (covord spord : Nat) (kind : Kind) (sentinel : Option Val) (covPix : List Nat) :
    Except Err MapObj := do
  if spord < covord then throw .value
  let c := cfgOf covord spord
  let sent ← match kind with
    | .wide _ =>
        match sentinel with
        | none => pure (Val.num 0 0)
        | some v => if v.isZero then pure (Val.num 0 0) else throw .value
    | .packed =>
        let s ← checkSentinel .bool sentinel
        if c.nfine % 8 != 0 then throw .value
        if s == .bool true then throw .notImpl
        pure s
    | .plain dt => checkSentinel dt sentinel
    | .recd fs pr =>
        match fs[pr]? with
        | none => throw .runtime
        | some dt => checkSentinel dt sentinel
  let vc : VCfg Val := ⟨kind.blank sent, kind.valid sent⟩
  pure { covord, spord, kind, sent, st := makeEmpty c vc covPix }

/-- The cell operation, optional pre-pass, for `operation` on this map. -/
def cellOp (m : MapObj) (op : String) : (Option (Val → Val)) × (Val → Val → Val) :=
  let dt := m.kind.dt
  match op with
  | "add" =>
    let pre : Option (Val → Val) :=
      if m.sent.isZero then none
      else some fun x => if x == m.sent then m.kind.zeroCell else x
    (pre, Val.add dt)
  | "or"  => (none, Val.or dt)
  | "and" => (none, Val.and dt)
  | _     => (none, fun _ w => w)

/-- value used by `None` (clear): sentinel row / zero record with primary = sentinel / sentinel -/
def clearValue (m : MapObj) : Val :=
  match m.kind with
  | .wide n => .bytes (List.replicate n 0)
  | .recd fs pr => .recd (fs.zipIdx.map fun (_, i) => if i == pr then m.sent.numD else (0, 0))
  | _ => m.sent

def valMatchesKind (k : Kind) (v : Val) : Bool :=
  match k, v with
  | .plain .bool, .bool _ => true
  | .packed, .bool _ => true
  | .plain (.int _ _), .num _ 0 => true
  | .plain (.flt _), .num _ _ => true
  | .wide n, .bytes bs => bs.length == n
  | .recd fs _, .recd vs => vs.length == fs.length
  | _, _ => false

/-- `update_values_pix(pixels, values, operation=op)`.
    `vals = none` ⇔ `values=None`; `single` ⇔ a scalar (or length-1 array) value. -/
def apiUpdate (m : MapObj) (op : String) (pix : List Nat) (vals : Option (List Val))
    (single : Bool) (rawUnique : Option Bool := none) : Except Err MapObj := do
  let m := { m with cache := none }                       -- line 508
  let (vals, single, noAppend) ← match vals with
    | none =>
        if op != "replace" then throw .value
        pure ([clearValue m], true, true)
    | some vs => pure (vs, single || vs.length == 1, false)
  if op != "replace" then
    if m.kind.isBool then
      if op != "or" && op != "and" then throw .notImpl
    else if op == "or" || op == "and" then
      if !(m.kind.isIntegerMap && m.sent.isZero) then throw .value
    else if op == "add" then
      match m.kind with
      | .recd _ _ => throw .value
      | _ => pure ()
    else throw .value
  if pix.isEmpty then return m
  if !(vals.all (valMatchesKind m.kind)) then throw .value
  if op == "replace" then
    match rawUnique with
    | some ok => if !ok then throw .value
    | none => if pix.eraseDups.length < pix.length then throw .value
  if !single && vals.length != pix.length then throw .value
  if pix.any (· ≥ m.npix) then throw .index
  let pv : List (Nat × Val) :=
    if single then pix.map (·, vals.headD (.num 0 0)) else pix.zip vals
  let (pre, f) := cellOp m op
  pure { m with st := updatePix m.c m.vc m.st pre f pv noAppend }

/-- `update_values_pix` with an `(M, 2)` array of half-open pixel ranges.
    `slicePath` ⇔ the total size exceeds `PIXEL_RANGE_THRESHOLD`. -/
def apiUpdateRanges (m : MapObj) (op : String) (R : List (Nat × Nat)) (val : Option Val)
    (slicePath : Bool) : Except Err MapObj := do
  -- line 592: `len(np.unique(pixels)) < len(pixels)` on the raw (M, 2) array
  let rawOk := !((R.flatMap fun ab => [ab.1, ab.2]).eraseDups.length < R.length)
  if !slicePath then
    if R.isEmpty then
      apiUpdate m op [] (val.map fun v => [v]) true
    else
      -- ranges beyond the sphere: IndexError in either path
      if R.any (fun ab => ab.2 > m.npix) then
        let _ ← apiUpdate m op [0] (val.map fun v => [v]) true (some rawOk)
        throw .index
      apiUpdate m op (expand R) (val.map fun v => [v]) true (some rawOk)
  else
    let m := { m with cache := none }
    let (w, noAppend) ← match val with
      | none => if op != "replace" then throw .value else pure (clearValue m, true)
      | some v => pure (v, false)
    if op != "replace" then
      if m.kind.isBool then
        if op != "or" && op != "and" then throw .notImpl
      else if op == "or" || op == "and" then
        if !(m.kind.isIntegerMap && m.sent.isZero) then throw .value
      else if op == "add" then
        match m.kind with
        | .recd _ _ => throw .value
        | _ => pure ()
      else throw .value
    if R.isEmpty then return m
    if !(valMatchesKind m.kind w) then throw .value
    if op == "replace" && !rawOk then throw .value
    if R.any (fun ab => ab.2 > m.npix || ab.1 > ab.2) then throw .index
    let (pre, f) := cellOp m op
    pure { m with st := updateRanges m.c m.vc m.st (cellEffect pre f w) R noAppend }

/-- `get_values_pix(pixels)` -/
def apiGet (m : MapObj) (pix : List Nat) : Except Err (List Val) :=
  if pix.any (· ≥ m.npix) then .error .index else .ok (pix.map m.abs)

/-- `coverage_mask` -/
def apiCovMask (m : MapObj) : List Bool := (List.range m.c.ncov).map (covered m.c m.st)

end HS
