/-
  Helper lemmas for `get_single_covpix_map` (`singleCovpixMap`, Props/C02.lean
  `singleCovpix_spec`): for a covered coverage pixel the sub-map has exactly the shape of
  the partial-read state for the one-element request `[k]` (Lemmas/FitsIO.lean), for an
  uncovered one it is the empty map.
-/
import HealSparse.Lemmas.Core
import HealSparse.Lemmas.Coverage
import HealSparse.Lemmas.Valid
import HealSparse.Lemmas.FitsIO
import HealSparse.Model.SubMap
namespace HS
variable {V : Type}

/-- covered `k`: the sub-map is the partial-read state of the request `[k]` -/
theorem singleCovpixMap_covered (c : Cfg) (vc : VCfg V) (s : State V) (k : Nat)
    (hc : covered c s k = true) :
    singleCovpixMap c vc s k = partialState c vc s [k] := by
  simp [singleCovpixMap, hc, partialState, fitsBlock]

/-- uncovered `k`: the sub-map is the empty map -/
theorem singleCovpixMap_uncovered (c : Cfg) (vc : VCfg V) (s : State V) (k : Nat)
    (hc : covered c s k = false) :
    singleCovpixMap c vc s k = makeEmpty c vc [] := by
  simp [singleCovpixMap, hc]

/-- no coverage pixel of the empty map is covered -/
theorem makeEmpty_nil_covered (c : Cfg) (vc : VCfg V) (j : Nat) (hj : j < c.ncov) :
    covered c (makeEmpty c vc ([] : List Nat)) j = false := by
  rw [covered_eq_false_iff, makeEmpty_blockStart_not_mem c vc [] j hj (by simp)]
  exact_mod_cast c.nfine_pos

section
variable [DecidableEq V]

theorem singleCovpixMap_spec' (c : Cfg) (vc : VCfg V) (s : State V) (k : Nat)
    (h : Inv c vc s) (hk : k < c.ncov) :
    Inv c vc (singleCovpixMap c vc s k) ∧
    (∀ p, p < c.npix → abs c vc (singleCovpixMap c vc s k) p
        = if p >>> c.shift = k then abs c vc s p else vc.sentinel) ∧
    (∀ j, j < c.ncov →
      covered c (singleCovpixMap c vc s k) j = (decide (j = k) && covered c s k)) := by
  cases hc : covered c s k with
  | false =>
    rw [singleCovpixMap_uncovered c vc s k hc]
    have hinv : Inv c vc (makeEmpty c vc ([] : List Nat)) :=
      inv_makeEmpty' c vc [] List.nodup_nil (by simp)
    refine ⟨hinv, ?_, ?_⟩
    · intro p hp
      rw [hinv.abs_uncovered hp (makeEmpty_nil_covered c vc _ (covpix_lt c p hp))]
      split
      · rename_i hpk
        rw [h.abs_uncovered hp (by rw [hpk]; exact hc)]
      · rfl
    · intro j hj
      rw [makeEmpty_nil_covered c vc j hj]
      simp
  | true =>
    rw [singleCovpixMap_covered c vc s k hc]
    have hnd : [k].Nodup := by simp
    have hinv : Inv c vc (partialState c vc s [k]) :=
      inv_partialState c vc s [k] h hnd (by simpa using hk)
    refine ⟨hinv, ?_, ?_⟩
    · intro p hp
      split
      · rename_i hpk
        exact partialState_abs_mem c vc s [k] hnd p hp (by simp [hpk]) (by rw [hpk]; exact hc)
      · rename_i hpk
        apply hinv.abs_uncovered hp
        rw [partialState_covered c vc s [k] hnd _ (covpix_lt c p hp)]
        simpa using hpk
    · intro j hj
      rw [partialState_covered c vc s [k] hnd j hj]
      simp

end

end HS
