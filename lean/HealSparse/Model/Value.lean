/-
  The executable value type used by the driver (the theorems are generic in the cell
  type and never mention `Val`).  Floats are exact dyadic rationals `n / 2^e`; the
  harness only issues float operations that are exact in IEEE binary32/64 on the values
  it draws, so no rounding is ever modelled or compared.

  Mirrors: healsparse/utils.py check_sentinel (default sentinels), numpy integer wrap.
-/
namespace HS

inductive DT where
  | int (bits : Nat) (signed : Bool)
  | flt (bits : Nat)
  | bool
deriving DecidableEq, Repr, Inhabited

inductive Kind where
  | plain (dt : DT)
  | packed
  | wide (nbytes : Nat)
  | recd (fields : List DT) (primary : Nat)
deriving DecidableEq, Repr, Inhabited

inductive Val where
  | num (n : Int) (e : Nat)
  | bool (b : Bool)
  | bytes (bs : List Nat)
  | recd (fs : List (Int × Nat))
  | rat (n : Int) (d : Nat)   -- exact rational n/d, d not a power of two (mean / wmean results)
  | sqrtRat (n : Int) (d : Nat) -- sqrt(n/d) (std results); compared with a tolerance
  | inf (neg : Bool)          -- ±infinity (only as the neutral start value of fmax / fmin)
  | poison                    -- a result the exact model cannot represent (the case is discarded)
deriving DecidableEq, Repr, Inhabited

/-! ### dyadic arithmetic -/

/-- normalise `n / 2^e` (fuel = e). -/
def dyNorm : Int → Nat → Int × Nat
  | n, 0 => (n, 0)
  | n, e + 1 => if n % 2 == 0 then dyNorm (n / 2) e else (n, e + 1)

def dyAlign (a b : Int × Nat) : Int × Int × Nat :=
  let e := max a.2 b.2
  (a.1 * 2 ^ (e - a.2), b.1 * 2 ^ (e - b.2), e)

def dyAdd (a b : Int × Nat) : Int × Nat := let (x, y, e) := dyAlign a b; dyNorm (x + y) e
def dySub (a b : Int × Nat) : Int × Nat := let (x, y, e) := dyAlign a b; dyNorm (x - y) e
def dyMul (a b : Int × Nat) : Int × Nat := dyNorm (a.1 * b.1) (a.2 + b.2)
def dyLt  (a b : Int × Nat) : Bool := let (x, y, _) := dyAlign a b; x < y
def dyLe  (a b : Int × Nat) : Bool := let (x, y, _) := dyAlign a b; x ≤ y
def dyMax (a b : Int × Nat) : Int × Nat := if dyLt a b then b else a
def dyMin (a b : Int × Nat) : Int × Nat := if dyLt b a then b else a

/-- `some k` when `|n| = 2^k`. -/
def log2Exact (n : Nat) : Option Nat :=
  if n == 0 then none else if 2 ^ n.log2 == n then some n.log2 else none

/-- exact division, defined only when the divisor is `± 2^k / 2^e`. -/
def dyDiv? (a b : Int × Nat) : Option (Int × Nat) :=
  match log2Exact b.1.natAbs with
  | none => none
  | some k =>
    let sgn : Int := if b.1 < 0 then -1 else 1
    -- a / (sgn * 2^k / 2^e) = sgn * a.n * 2^e / 2^(a.e + k)
    some (dyNorm (sgn * a.1 * 2 ^ b.2) (a.2 + k))

def dyPowNat (a : Int × Nat) : Nat → Int × Nat
  | 0 => (1, 0)
  | k + 1 => dyMul (dyPowNat a k) a

/-! ### integer wrap-around (numpy fixed-width arithmetic) -/

def wrapInt (bits : Nat) (signed : Bool) (x : Int) : Int :=
  let m : Int := 2 ^ bits
  let r := x % m
  if signed && r ≥ m / 2 then r - m else r

/-- storing the number `n / 2^e` in an array of dtype `dt`: an integer dtype truncates toward
    zero (numpy float -> int assignment) and wraps around; other dtypes keep the value -/
def DT.wrap (dt : DT) (x : Int × Nat) : Int × Nat :=
  match dt with
  | .int b s => (wrapInt b s (Int.tdiv x.1 (2 ^ x.2)), 0)
  | _ => x

/-- `hpgeom.UNSEEN` as float64 and as float32 (exact integers). -/
def unseen64 : Int := -1637499999999999923489519697920
def unseen32 : Int := -1637499996306027037830206717952

/-- `check_sentinel(type, None)`. -/
def DT.defaultSentinel : DT → Val
  | .int b true  => .num (-(2 ^ (b - 1))) 0
  | .int _ false => .num 0 0
  | .flt 32 => .num unseen32 0
  | .flt _  => .num unseen64 0
  | .bool => .bool false

def DT.isInt : DT → Bool
  | .int _ _ => true
  | _ => false

def DT.isFlt : DT → Bool
  | .flt _ => true
  | _ => false

/-- numeric zero / the `np.zeros` cell of a kind -/
def Kind.zeroCell : Kind → Val
  | .plain .bool => .bool false
  | .plain _ => .num 0 0
  | .packed => .bool false
  | .wide n => .bytes (List.replicate n 0)
  | .recd fs _ => .recd (fs.map fun _ => (0, 0))

def Val.numD (v : Val) : Int × Nat :=
  match v with
  | .num n e => (n, e)
  | .bool b => (if b then 1 else 0, 0)
  | _ => (0, 0)

def Val.ofDy (x : Int × Nat) : Val := .num x.1 x.2

/-- The blank cell of a map kind (`make_empty`): sentinel; zero row; record with
    primary = sentinel and every other field its default sentinel. -/
def Kind.blank (k : Kind) (sentinel : Val) : Val :=
  match k with
  | .plain _ => sentinel
  | .packed => .bool false
  | .wide n => .bytes (List.replicate n 0)
  | .recd fs pr => .recd (fs.zipIdx.map fun (dt, i) =>
      if i == pr then sentinel.numD else (dt.defaultSentinel).numD)

/-- validity of a cell: value ≠ sentinel; any byte ≠ 0; primary ≠ sentinel. -/
def Kind.valid (k : Kind) (sentinel : Val) (v : Val) : Bool :=
  match k, v with
  | .wide _, .bytes bs => bs.any (· != 0)
  | .recd _ pr, .recd fs => (fs.getD pr (0, 0)) != sentinel.numD
  | _, v => v != sentinel

/-! ### cell operations (total; kind mismatches are rejected by the front end) -/

def zipBytes (f : Nat → Nat → Nat) (a b : List Nat) : List Nat := List.zipWith f a b

def Val.add (dt : DT) (x w : Val) : Val :=
  match x, w with
  | .num a ea, .num b eb => .ofDy (dt.wrap (dyAdd (a, ea) (b, eb)))
  | .bytes a, .bytes b => .bytes (zipBytes (fun p q => (p + q) % 256) a b)
  | _, _ => x

/-- two's-complement bitwise operation at the width of `dt` -/
def intBitop (f : Nat → Nat → Nat) (dt : DT) (a b : Int) : Int :=
  match dt with
  | .int bits sg =>
    let m : Int := 2 ^ bits
    wrapInt bits sg (f (a % m).toNat (b % m).toNat : Nat)
  | _ => (f a.toNat b.toNat : Nat)

def Val.or (dt : DT) (x w : Val) : Val :=
  match x, w with
  | .num a _, .num b _ => .num (intBitop (· ||| ·) dt a b) 0
  | .bool a, .bool b => .bool (a || b)
  | .bytes a, .bytes b => .bytes (zipBytes (· ||| ·) a b)
  | _, _ => x

def Val.and (dt : DT) (x w : Val) : Val :=
  match x, w with
  | .num a _, .num b _ => .num (intBitop (· &&& ·) dt a b) 0
  | .bool a, .bool b => .bool (a && b)
  | .bytes a, .bytes b => .bytes (zipBytes (· &&& ·) a b)
  | _, _ => x

def Val.xor (dt : DT) (x w : Val) : Val :=
  match x, w with
  | .num a _, .num b _ => .num (intBitop (· ^^^ ·) dt a b) 0
  | .bool a, .bool b => .bool (a != b)
  | .bytes a, .bytes b => .bytes (zipBytes (· ^^^ ·) a b)
  | _, _ => x

/-- `np.fmax` / `np.fmin` on numeric cells (with ±inf start values) -/
def Val.fmax (x w : Val) : Val :=
  match x, w with
  | .inf true, v => v
  | v, .inf true => v
  | .inf false, _ => .inf false
  | _, .inf false => .inf false
  | .num a ea, .num b eb => .ofDy (dyMax (a, ea) (b, eb))
  | .bytes a, .bytes b => .bytes (zipBytes max a b)
  | _, _ => .poison

def Val.fmin (x w : Val) : Val :=
  match x, w with
  | .inf false, v => v
  | v, .inf false => v
  | .inf true, _ => .inf true
  | _, .inf true => .inf true
  | .num a ea, .num b eb => .ofDy (dyMin (a, ea) (b, eb))
  | .bytes a, .bytes b => .bytes (zipBytes min a b)
  | _, _ => .poison

def Val.mul (dt : DT) (x w : Val) : Val :=
  match x, w with
  | .num a ea, .num b eb => .ofDy (dt.wrap (dyMul (a, ea) (b, eb)))
  | .bytes a, .bytes b => .bytes (zipBytes (fun p q => (p * q) % 256) a b)
  | _, _ => .poison

def Val.div (x w : Val) : Val :=
  match x, w with
  | .num a ea, .num b eb =>
    match dyDiv? (a, ea) (b, eb) with
    | some y => .ofDy y
    | none => .poison
  | _, _ => .poison

/-- `np.floor_divide` on integers (division by zero gives 0, as numpy does with a warning) -/
def Val.floorDiv (dt : DT) (x w : Val) : Val :=
  match x, w with
  | .num a 0, .num b 0 => if b == 0 then .num 0 0 else .ofDy (dt.wrap (Int.fdiv a b, 0))
  | _, _ => .poison

end HS
