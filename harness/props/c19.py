"""C19 — degrade-on-read equals reading and then degrading."""
import gen
from props import c07

PID = 'C19'
RULE = ("files written (compressed or not) from maps of every degradable kind (float32/64, all integer dtypes, record "
        "arrays, wide masks; shuffled block order; coarse pixels with 0 / some / all children valid) are read with "
        "degrade_nside at every order in [coverage order, sparse order), every reduction valid for the kind, pixel "
        "subsets (none, covered, uncovered, unsorted, beyond the last covered pixel) and optionally a weight file "
        "written from a float map with the same valid set and another block order; the result (info, dense values, "
        "valid set, layout, coverage) is compared with the Lean model of the on-read path AND, on both sides, with "
        "read(pixels) followed by the in-memory degrade with read(weightfile, pixels) — four routes must agree; "
        "non-trivial = a pixel subset containing an uncovered pixel, or a weight file")
ASSUMPTIONS = ["as C07 (exact rationals; tolerance 2^-20 for mean / wmean / std)",
               "known finding F36 applies to 'and' (only all-or-nothing groups are generated for it)",
               "known finding F47: a float32 map with a float64 weight file gives float32 on read but float64 in "
               "memory; that dtype combination is not generated",]


def histories(rng, tier):
    n = 250 if tier == 'quick' else 1500
    out = []
    for hi in range(n):
        forced_fm = hi < 14       # a fixed share of every run: record maps with float32 fields, full mantissas
        kind = rng.choice(['flt', 'flt', 'int', 'int', 'rec', 'wide'])
        if forced_fm:
            kind = 'rec'
        c = gen.rand_cfg(rng, kinds=[kind], max_npix=768, name='m', min_delta=1, rec_bool=not forced_fm)
        if forced_fm:
            np_ = [j for j in range(len(c.fields)) if j != c.primary]
            if not np_:
                c.fields = list(c.fields) + ['f4']
            else:
                c.fields = list(c.fields)
                c.fields[rng.choice(np_)] = 'f4'
        c.covpix = []
        ordout = rng.randint(c.covord, c.spord - 1)
        if c.kind == 'wide':
            red = rng.choice(['and', 'or', 'or'])
        elif c.is_int and c.zero_sentinel() and rng.random() < 0.4:
            red = rng.choice(['and', 'or'])
        else:
            red = rng.choice(c07.FLOAT_REDS + ['wmean', 'wmean'])
        if forced_fm:
            red = rng.choice(['mean', 'sum', 'std', 'mean'])
        if red != 'and' and rng.random() < 0.3:
            # allocated coverage pixels that may stay completely unobserved (sum -> 0, prod -> 1 there)
            c.covpix = rng.sample(range(c.ncov), rng.randint(1, min(2, c.ncov)))
        h = [c.line()]
        pix = c07.fill_groups(rng, c, h, ordout, full_only=(red == 'and'))
        covered = sorted(set(p // c.nfine for p in pix) | set(c.covpix))
        if (forced_fm or rng.random() < 0.25) and (c.kind == 'rec' and 'f4' in c.fields or c.kind == 'plain' and c.dtype == 'f4') \
                and red in ('mean', 'sum', 'std', 'prod', 'wmean'):
            # float32 values with FULL 24-bit mantissas: their sums / products are not exact, the exact model
            # declines (`inexact`), and what remains is the comparison of the two routes of the implementation —
            # which must accumulate in the same precision (seeded change C19f)
            def fm():
                return '%d^%d' % (rng.randrange(2 ** 23 + 1, 2 ** 24, 2) * rng.choice([1, -1]), rng.randint(18, 26))
            for i, ln in enumerate(h):
                if ln.startswith('upd m ') and ' vals=' in ln:
                    head, vals = ln.rsplit(' vals=', 1)
                    new = []
                    for v in vals.split(','):
                        if v.startswith('r'):
                            fs = v[1:].split(';')
                            fs = [fm() if c.fields[j] == 'f4' and j != c.primary else x for j, x in enumerate(fs)]
                            new.append('r' + ';'.join(fs))
                        else:
                            new.append(fm())
                    h[i] = head + ' vals=' + ','.join(new)
        wtxt = wtxt2 = ''
        if red == 'wmean':
            wdt = 'f4' if (c.kind == 'plain' and c.dtype == 'f4') else rng.choice(['f4', 'f8'])
            w = gen.MapCfg('w', 'plain', c.covord, c.spord, dtype=wdt)
            h += [w.line(), 'WFILL']
            h = c07.expand_wfill(rng, h)
            h += ['write w f=fw compress=%s' % rng.choice('01')]
            wtxt, wtxt2 = ' wf=fw', ' w=wr'
        h += ['write m f=f1 compress=%s' % rng.choice('01')]
        # pixel request
        r = rng.random()
        if r < 0.35:
            ptxt, req = '', None
        else:
            req = rng.sample(range(c.ncov), min(c.ncov, rng.randint(1, 4)))
            if covered and rng.random() < 0.8:
                req = list(dict.fromkeys(req + rng.sample(covered, 1)))
            if rng.random() < 0.3:
                req.append(c.ncov - 1)
                req = list(dict.fromkeys(req))
            rng.shuffle(req)
            ptxt = ' pixels=%s' % ','.join(map(str, req))
        h += ['dor r=a f=f1 ord=%d red=%s%s%s' % (ordout, red, ptxt, wtxt), 'info a', 'state a', 'vals a', 'valid a',
              'covmask a']
        # reference route: read (+ weights), degrade in memory
        h += ['read r=rm f=f1%s' % ptxt]
        if wtxt:
            h += ['read r=wr f=fw%s' % ptxt]
        h += ['deg rm r=b ord=%d red=%s%s' % (ordout, red, wtxt2), 'info b', 'vals b', 'valid b', 'covmask b']
        out.append(h)
    for _ in range(max(5, n // 10)):
        out.append(hist_healpix(rng))
    return [gen.file_variants(rng, h) for h in out]


def hist_healpix(rng):
    """HEALPix-format inputs degrade on read exactly as after conversion"""
    import numpy as np
    import hpgeom as hpg
    covord = rng.choice([0, 0, 1])
    spord = covord + rng.choice([1, 2])
    c = gen.MapCfg('m', 'plain', covord, spord, dtype=rng.choice(['f8', 'f4', 'i4']))
    h = [c.line()]
    focus = rng.sample(range(c.ncov), min(c.ncov, 3))
    for _ in range(rng.randint(1, 3)):
        h.append(gen.upd_line(rng, c, focus=focus))
    o = rng.randint(covord, spord - 1)
    red = rng.choice(['mean', 'max', 'sum', 'median'])
    co = rng.randint(0, o)
    h += ['hpxwrite m f=h1', 'dor r=a f=h1 ord=%d red=%s covord=%d' % (o, red, co), 'info a', 'vals a', 'valid a',
          'hpxread r=rm f=h1 covord=%d' % co, 'deg rm r=b ord=%d red=%s' % (o, red), 'info b', 'vals b', 'valid b']
    return h


def nontrivial(h):
    return any(ln.startswith('dor ') for ln in h)


def pair_check(h, robs):
    """real side alone: `vals a` == `vals b`, `info a` == `info b`, valid, covmask"""
    got = {}
    for ln, o in zip(h, robs):
        t = ln.split()
        if len(t) == 2 and t[0] in ('vals', 'info', 'valid', 'covmask') and t[1] in ('a', 'b'):
            got[(t[0], t[1])] = o
    for k in ('vals', 'info', 'valid', 'covmask'):
        if (k, 'a') in got and (k, 'b') in got and got[(k, 'a')] != got[(k, 'b')]:
            if any(got[(k, x)].startswith('err') or got[(k, x)] in ('nomap', 'inexact') for x in 'ab'):
                continue
            return "degrade-on-read and read-then-degrade differ in `%s`" % k
    return None
