/-
  Well-formedness (`MapObj.WF`, Model/WellFormed.lean) of the maps produced by the
  resolution-changing API (`apiDegradeCore`, `rehouse`, `apiDegrade`, `apiUpgrade`), the
  HEALPix interchange (`apiFromHealpix`, `apiReadHealpix`), the MOC reader as the driver
  runs it (`opMocread`), `get_single_covpix_map` as the driver runs it (`opScov`) and the
  fracdet map the driver builds (`opFracdet`).

  Main theorems (`m'` = the result, `.WF` = `covord ≤ spord ∧ Inv` at the object's own
  configuration, cell kind and sentinel):
    WF.apiDegradeCore_partial  needs `covord ≤ ordOut ≤ spord` (the function's documented
                               precondition, which it does not check; counterexamples below)
    WF.rehouse, WF.apiFromHealpix, WF.apiReadHealpix, WF.mocread
                               no hypothesis at all: these functions validate their input
    WF.apiDegrade, WF.apiUpgrade, WF.singleCovpix
                               the source map well formed (nothing is needed of a weight map)
    WF.fracdet_partial         needs the blank cell of the source to be invalid, which `WF` does
                               not imply (counterexample below); `WF.fracdet` gets it from the
                               typing discipline `MapObj.KindOk` of Lemmas/WFApi.lean
    KindOk.*                   every function here preserves (or establishes) `KindOk`
    WF.opUpg … WF.opHpxread    the driver operations store one map that is `WF ∧ KindOk`
  `opGenhp` and `opInterp` store nothing (they return `(w, …)`), so `apiGenerateHealpix` and
  `apiInterp` need no lemma.
-/
import HealSparse.Model.WellFormed
import HealSparse.Lemmas.Core
import HealSparse.Lemmas.Coverage
import HealSparse.Lemmas.Valid
import HealSparse.Lemmas.Resolution
import HealSparse.Lemmas.Healpix
import HealSparse.Lemmas.SubMap
import HealSparse.Lemmas.WFApi
import Lean.Elab.Tactic
namespace HS

/-! ### configuration arithmetic -/

theorem degCfg_cfgOf {co so o : Nat} (hlo : co ≤ o) (hhi : o ≤ so) :
    degCfg (cfgOf co so) (2 * (so - o)) = cfgOf co o := by
  simp only [degCfg, cfgOf, Cfg.mk.injEq, true_and]
  omega

theorem ucfg_cfgOf {co so o : Nat} (hlo : co ≤ so) (hhi : so ≤ o) :
    ucfg (cfgOf co so) (2 * (o - so)) = cfgOf co o := by
  simp only [ucfg, cfgOf, Cfg.mk.injEq, true_and]
  omega

namespace WFRes

/-! ### stepping through the `Except` monad glue

`OkP P x`: every successful result of `x` satisfies `P`.  The API functions are `do` blocks
whose early exits are compiled to join points (`have __do_jp := fun _ => …`); the tactic
`okp` walks such a term from the outside in (one branch per control-flow path, join points
unfolded only where they are called), leaving one goal `OkP P (pure a)` per successful exit. -/

/-- every successful result satisfies `P` -/
def OkP {α : Type} (P : α → Prop) (x : Except Err α) : Prop := ∀ a, x = .ok a → P a

theorem OkP.of_throw {α : Type} {P : α → Prop} (e : Err) : OkP P (throw e : Except Err α) := by
  intro a h; cases h
theorem OkP.of_error {α : Type} {P : α → Prop} (e : Err) : OkP P (.error e : Except Err α) := by
  intro a h; cases h
theorem OkP.of_pure {α : Type} {P : α → Prop} {a : α} (h : P a) : OkP P (pure a : Except Err α) := by
  intro b hb; cases hb; exact h
theorem OkP.of_ok {α : Type} {P : α → Prop} {a : α} (h : P a) : OkP P (.ok a : Except Err α) := by
  intro b hb; cases hb; exact h
theorem OkP.of_throw_bind {α β : Type} {P : α → Prop} (e : Err) (f : β → Except Err α) :
    OkP P ((throw e : Except Err β) >>= f) := by
  intro a h; cases h
theorem OkP.of_pure_bind {α β : Type} {P : α → Prop} (b : β) (f : β → Except Err α)
    (h : OkP P (f b)) : OkP P ((pure b : Except Err β) >>= f) := h
theorem OkP.guard {α : Type} {P : α → Prop} {x : Except Err α} (h : OkP P x) : OkP P x := h
/-- sequencing: a fact `Q` about the first result is all the continuation may use -/
theorem OkP.bind {α β : Type} {P : α → Prop} {Q : β → Prop} {x : Except Err β}
    {f : β → Except Err α} (hx : OkP Q x) (hf : ∀ b, Q b → OkP P (f b)) : OkP P (x >>= f) := by
  intro a h
  cases x with
  | error e => cases h
  | ok b => exact hf b (hx b rfl) a h
theorem OkP.mono {α : Type} {P Q : α → Prop} {x : Except Err α} (hx : OkP Q x)
    (h : ∀ a, Q a → P a) : OkP P x := fun a ha => h a (hx a ha)

open Lean Elab Tactic Meta in
/-- goal `OkP P (jp args)` with `jp` a local definition (a join point): unfold it -/
elab "okp_unfold" : tactic => do
  let g ← getMainGoal
  g.withContext do
    let tgt := (← instantiateMVars (← g.getType)).consumeMData
    unless tgt.isAppOfArity ``OkP 3 do throwError "not an OkP goal"
    let x := tgt.appArg!
    let .fvar fv := x.getAppFn | throwError "head is not a local definition"
    let some v ← fv.getValue? | throwError "head has no value"
    let x' := (mkAppN v x.getAppArgs).headBeta
    replaceMainGoal [← g.replaceTargetDefEq (mkApp tgt.appFn! x')]

macro "okp_step" : tactic => `(tactic| first
  | contradiction
  | with_reducible exact OkP.of_throw_bind _ _
  | with_reducible exact OkP.of_throw _
  | with_reducible exact OkP.of_error _
  | with_reducible apply OkP.of_pure_bind
  | ((with_reducible apply OkP.guard); split <;> try extract_lets)
  | (okp_unfold; (try simp -zeta only []); try extract_lets))

/-- walk the control flow; leaves `OkP P (pure a)` / `OkP P (.ok a)` goals reduced to `P a` -/
macro "okp" : tactic => `(tactic|
  ((try extract_lets); (repeat' okp_step);
   all_goals try (first | with_reducible apply OkP.of_pure | with_reducible apply OkP.of_ok)))

/-! ### `make_empty` without coverage pixels, `update_values_pix` -/

theorem apiMakeEmpty_ok {co so : Nat} {kind : Kind} {sent : Option Val} {P : List Nat} {e : MapObj}
    (h : apiMakeEmpty co so kind sent P = .ok e) :
    co ≤ so ∧ e.covord = co ∧ e.spord = so ∧ e.kind = kind ∧ e.view = none ∧
    e.st = makeEmpty (cfgOf co so) ⟨kind.blank e.sent, kind.valid e.sent⟩ P.eraseDups := by
  unfold apiMakeEmpty at h
  simp only [bind, Except.bind, pure, Except.pure, throw, throwThe, MonadExceptOf.throw] at h
  repeat' split at h
  all_goals first | (cases h; done) | (cases h; exact ⟨by omega, rfl, rfl, rfl, rfl, rfl⟩)

theorem mem_pv_lt {n : Nat} {pix : List Nat} {vals : List Val} {c : Prop} [Decidable c] {v : Val}
    (hp : ¬ (pix.any fun x => decide (x ≥ n)) = true) :
    ∀ pw ∈ (if c then List.map (fun x => (x, v)) pix else pix.zip vals), pw.1 < n := by
  intro pw hpw
  have hall : ∀ x ∈ pix, x < n := by
    intro x hx
    have h2 : (pix.any fun x => decide (x ≥ n)) = false := by simpa using hp
    have := List.any_eq_false.1 h2 x hx
    simpa using this
  split at hpw
  · obtain ⟨x, hx, rfl⟩ := List.mem_map.1 hpw
    exact hall x hx
  · exact hall _ (List.of_mem_zip hpw).1

/-- what a successful `apiUpdate` returns: the same object with the cache reset, and either the
    same storage or `updatePix` on a list of in-range pixels -/
theorem apiUpdate_okp (m : MapObj) (op : String) (pix : List Nat) (vals : Option (List Val))
    (single : Bool) (ru : Option Bool) :
    OkP (fun m' => m'.covord = m.covord ∧ m'.spord = m.spord ∧ m'.kind = m.kind ∧
      m'.sent = m.sent ∧ m'.view = m.view ∧
      (m'.st = m.st ∨ ∃ (pre : Option (Val → Val)) (f : Val → Val → Val) (pv : List (Nat × Val))
          (na : Bool), (∀ pw ∈ pv, pw.1 < m.npix) ∧ m'.st = updatePix m.c m.vc m.st pre f pv na))
      (apiUpdate m op pix vals single ru) := by
  unfold apiUpdate
  okp
  all_goals first
    | exact ⟨rfl, rfl, rfl, rfl, rfl, .inl rfl⟩
    | (refine ⟨rfl, rfl, rfl, rfl, rfl, .inr ⟨_, _, _, _, ?_, rfl⟩⟩
       exact mem_pv_lt ‹_›)


/-- a map with the configuration, kind and sentinel of `m` and a state obeying the layout -/
theorem wf_of_eq {m m' : MapObj} (h1 : m'.covord = m.covord) (h2 : m'.spord = m.spord)
    (h3 : m'.kind = m.kind) (h4 : m'.sent = m.sent) (hle : m.covord ≤ m.spord)
    (hinv : Inv m.c m.vc m'.st) : m'.WF := by
  unfold MapObj.WF MapObj.c MapObj.vc
  rw [h1, h2, h3, h4]
  exact ⟨hle, hinv⟩

theorem inv_updatePix {V W : Type} [DecidableEq V] (c : Cfg) (vc : VCfg V) (s : State V)
    (pre : Option (V → V)) (f : V → W → V) (pv : List (Nat × W)) (na : Bool)
    (h : Inv c vc s) (hpv : ∀ pw ∈ pv, pw.1 < c.npix) : Inv c vc (updatePix c vc s pre f pv na) := by
  unfold updatePix
  refine inv_updateCore' c vc s _ _ na h ?_
  intro qw hqw
  obtain ⟨pw, hpw, he⟩ := stageList_fst_mem _ pv qw hqw
  rw [← he]
  exact hpv pw hpw

/-- `apiUpdate` preserves well-formedness (it checks the pixel range itself) -/
theorem wf_apiUpdate {m m' : MapObj} {op : String} {pix : List Nat} {vals : Option (List Val)}
    {single : Bool} {ru : Option Bool} (h : m.WF)
    (hr : apiUpdate m op pix vals single ru = .ok m') :
    m'.WF ∧ m'.covord = m.covord ∧ m'.spord = m.spord ∧ m'.kind = m.kind ∧ m'.sent = m.sent ∧
      m'.view = m.view := by
  obtain ⟨h1, h2, h3, h4, h5, h6⟩ := apiUpdate_okp m op pix vals single ru m' hr
  refine ⟨wf_of_eq h1 h2 h3 h4 h.1 ?_, h1, h2, h3, h4, h5⟩
  rcases h6 with h6 | ⟨pre, f, pv, na, hpv, h6⟩
  · rw [h6]; exact h.2
  · rw [h6]; exact inv_updatePix _ _ _ _ _ _ _ h.2 hpv

/-- `apiMakeEmpty` without coverage pixels yields a well-formed map -/
theorem wf_apiMakeEmpty_nil {co so : Nat} {kind : Kind} {sent : Option Val} {e : MapObj}
    (h : apiMakeEmpty co so kind sent [] = .ok e) :
    e.WF ∧ e.covord = co ∧ e.spord = so ∧ e.kind = kind ∧ e.view = none := by
  obtain ⟨hle, h1, h2, h3, h4, h5⟩ := apiMakeEmpty_ok h
  refine ⟨?_, h1, h2, h3, h4⟩
  unfold MapObj.WF MapObj.c MapObj.vc
  rw [h1, h2, h3, h5]
  exact ⟨hle, inv_makeEmpty' _ _ [] List.nodup_nil (fun _ hk => nomatch hk)⟩

end WFRes
open WFRes

/-! ### degrade, upgrade -/

theorem WFRes.apiDegradeCore_okp (m : MapObj) (ordOut : Nat) (red : String) (w : Option MapObj) :
    OkP (fun m' => m'.covord = m.covord ∧ m'.spord = ordOut ∧ m'.view = m.view ∧
      ∃ (f : Nat → Val) (b : Val), b = m'.kind.blank m'.sent ∧
        m'.st = regroup m.c m.st (2 * (m.spord - ordOut)) f b)
      (apiDegradeCore m ordOut red w) := by
  unfold apiDegradeCore
  okp
  all_goals refine ⟨rfl, rfl, rfl, _, _, ?_, by first | exact degradeMap_eq .. | exact degradeMapW_eq ..⟩
  all_goals first
    | rfl
    | (show m.sent = m.kind.blank m.sent; rw [‹m.kind = _›]; rfl)

/-- `_degrade` to an order between the coverage order and the sparse order -/
theorem WF.apiDegradeCore_partial {m m' : MapObj} {ordOut : Nat} {red : String} {w : Option MapObj}
    (h : m.WF) (hlo : m.covord ≤ ordOut) (hhi : ordOut ≤ m.spord)
    (hr : HS.apiDegradeCore m ordOut red w = .ok m') : m'.WF := by
  obtain ⟨h1, h2, _, f, b, hb, hst⟩ := apiDegradeCore_okp m ordOut red w m' hr
  have hg : 2 * (m.spord - ordOut) ≤ m.c.shift := by
    show _ ≤ 2 * (m.spord - m.covord)
    omega
  have hinv := (h.2.regroup_relayout hg f ⟨b, m'.kind.valid m'.sent⟩).inv h.2
  unfold MapObj.WF MapObj.c MapObj.vc
  rw [h1, h2, hst, ← hb]
  refine ⟨hlo, ?_⟩
  rw [← degCfg_cfgOf hlo hhi]
  exact hinv

theorem WFRes.rehouse_okp (m : MapObj) (co : Nat) :
    OkP (fun m' => m'.WF ∧ m'.covord = co ∧ m'.spord = m.spord ∧ m'.kind = m.kind ∧ m'.view = none)
      (rehouse m co) := by
  unfold rehouse
  refine OkP.bind (Q := fun e => e.WF ∧ e.covord = co ∧ e.spord = m.spord ∧ e.kind = m.kind ∧ e.view = none)
    (fun e he => wf_apiMakeEmpty_nil he) ?_
  intro e ⟨he, h1, h2, h3, h4⟩
  split
  · exact OkP.of_throw _
  · intro m' hm'
    obtain ⟨g0, g1, g2, g3, _, g5⟩ := wf_apiUpdate he hm'
    exact ⟨g0, g1.trans h1, g2.trans h2, g3.trans h3, g5.trans h4⟩

/-- re-housing yields a well-formed map whatever the source (the update validates its pixels) -/
theorem WF.rehouse {m m' : MapObj} {co : Nat} (hr : HS.rehouse m co = .ok m') : m'.WF :=
  (rehouse_okp m co m' hr).1

/-- `degrade` -/
theorem WF.apiDegrade {m m' : MapObj} {ordOut : Nat} {red : String} {w : Option MapObj}
    (h : m.WF) (hr : HS.apiDegrade m ordOut red w = .ok m') : m'.WF := by
  revert m'
  show OkP MapObj.WF (HS.apiDegrade m ordOut red w)
  unfold HS.apiDegrade
  okp
  · refine OkP.bind (rehouse_okp m ordOut) ?_
    intro m1 hm1
    extract_lets jp
    refine OkP.bind (Q := fun _ => True) (fun _ _ => trivial) ?_
    intro w' _ r hr
    exact WF.apiDegradeCore_partial hm1.1 (by omega) (by omega) hr
  · refine OkP.bind (rehouse_okp m ordOut) ?_
    intro m1 hm1
    extract_lets jp
    refine OkP.bind (Q := fun _ => True) (fun _ _ => trivial) ?_
    intro w' _ r hr
    exact WF.apiDegradeCore_partial hm1.1 (by omega) (by omega) hr
  · exact h
  · intro r hr
    exact WF.apiDegradeCore_partial h (by omega) (by omega) hr

/-- `upgrade` -/
theorem WF.apiUpgrade {m m' : MapObj} {ordOut : Nat} (h : m.WF)
    (hr : HS.apiUpgrade m ordOut = .ok m') : m'.WF := by
  revert m'
  show OkP MapObj.WF (HS.apiUpgrade m ordOut)
  unfold HS.apiUpgrade
  okp
  have hle : m.spord ≤ ordOut := by omega
  refine ⟨Nat.le_trans h.1 hle, ?_⟩
  show Inv (cfgOf m.covord ordOut) m.vc (upgradeMap m.c m.vc m.st (2 * (ordOut - m.spord)))
  rw [← ucfg_cfgOf h.1 hle]
  exact (h.2.upgrade_spec' _).1

/-! ### HEALPix interchange, MOC reader -/

/-- the constructor from a dense HEALPix array (it checks the array length itself) -/
theorem WF.apiFromHealpix {covord spord : Nat} {dt : DT} {sentinel : Option Val} {hp : List Val}
    {sentIsPyInt : Bool} {m' : MapObj}
    (hr : HS.apiFromHealpix covord spord dt sentinel hp sentIsPyInt = .ok m') : m'.WF := by
  revert m'
  show OkP MapObj.WF (HS.apiFromHealpix covord spord dt sentinel hp sentIsPyInt)
  unfold HS.apiFromHealpix
  okp
  rename_i h1 h2 _ _
  refine OkP.bind (Q := fun _ => True) (fun _ _ => trivial) ?_
  intro sent _
  apply OkP.of_pure
  have hsz : hp.toArray.size = (cfgOf covord spord).npix := by simpa using h2
  exact ⟨by show covord ≤ spord; omega, (convertHealpix_spec' _ _ _ _ hsz).1⟩

/-- an empty map (no coverage pixels requested) followed by one update -/
theorem WFRes.makeEmpty_update_okp (co so : Nat) (kind : Kind) (sent : Option Val) (op : String)
    (pix : List Nat) (vals : Option (List Val)) (single : Bool) (ru : Option Bool) :
    OkP (fun m' => m'.WF ∧ m'.covord = co ∧ m'.spord = so ∧ m'.kind = kind ∧ m'.view = none)
      (apiMakeEmpty co so kind sent [] >>= fun e => apiUpdate e op pix vals single ru) := by
  refine OkP.bind (fun e he => wf_apiMakeEmpty_nil he) ?_
  intro e ⟨he, h1, h2, h3, h4⟩ m' hm'
  obtain ⟨g0, g1, g2, g3, _, g5⟩ := wf_apiUpdate he hm'
  exact ⟨g0, g1.trans h1, g2.trans h2, g3.trans h3, g5.trans h4⟩

/-- reading a HEALPix-format file (explicit or implicit) -/
theorem WF.apiReadHealpix {f : HpFile} {covord : Nat} {r2n : Option (Array Nat)} {m' : MapObj}
    (hr : HS.apiReadHealpix f covord r2n = .ok m') : m'.WF := by
  revert m'
  show OkP MapObj.WF (HS.apiReadHealpix f covord r2n)
  unfold HS.apiReadHealpix
  okp
  · exact OkP.mono (makeEmpty_update_okp _ _ _ _ _ _ _ _ _) fun _ h => h.1
  · exact fun _ h => WF.apiFromHealpix h
  · exact fun _ h => WF.apiFromHealpix h

/-- the map `mocread` stores: an empty boolean map at the MOC's maximal order, the listed pixels
    set to `True` -/
theorem WF.mocread {co mo : Nat} {ps : List Nat} {e m : MapObj}
    (he : HS.apiMakeEmpty co mo (.plain .bool) none [] = .ok e)
    (hm : HS.apiUpdate e "replace" ps (some [.bool true]) true = .ok m) :
    ({ m with cache := none } : MapObj).WF := by
  have := (wf_apiUpdate (wf_apiMakeEmpty_nil he).1 hm).1
  exact this

/-! ### single coverage pixel, fracdet -/

/-- the map `scov` stores (`get_single_covpix_map(k)` for an in-range coverage pixel) -/
theorem WF.singleCovpix {m : MapObj} {k : Nat} (h : m.WF) (hk : k < m.c.ncov) :
    ({ m with st := singleCovpixMap m.c m.vc m.st k, cache := none } : MapObj).WF :=
  ⟨h.1, (singleCovpixMap_spec' m.c m.vc m.st k h.2 hk).1⟩

theorem WFRes.dyNorm_zero (g : Nat) : dyNorm 0 g = (0, 0) := by
  induction g with
  | zero => rfl
  | succ n ih => simp [dyNorm, ih]

/-- the state of the fracdet map the driver builds -/
def fracdetState (m : MapObj) (ord : Nat) : State Val :=
  let g := 2 * (m.spord - ord)
  let fs := fracdetCounts m.c m.vc m.st g
  ⟨fs.cov, fs.sp.map fun (n : Nat) => let x := dyNorm ((n : Nat) : Int) g; Val.num x.1 x.2⟩

/-- the map `fracdet` stores -/
theorem WF.fracdet_partial {m : MapObj} {ord : Nat} (h : m.WF)
    (hv : m.vc.valid m.vc.sentinel = false) (hlo : m.covord ≤ ord) (hhi : ord ≤ m.spord) :
    ({ covord := m.covord, spord := ord, kind := .plain (.flt 64), sent := .num 0 0,
       st := fracdetState m ord } : MapObj).WF := by
  refine ⟨hlo, ?_⟩
  have hg : 2 * (m.spord - ord) ≤ m.c.shift := by
    show _ ≤ 2 * (m.spord - m.covord)
    omega
  have hinv := h.2.fracdet_inv' hv hg
  have hc : fcfg m.c (2 * (m.spord - ord)) = cfgOf m.covord ord := degCfg_cfgOf hlo hhi
  rw [hc] at hinv
  refine inv_of_cov_eq hinv rfl (by simp [fracdetState]) ?_
  intro i hi
  have h0 := hinv.2.2.1 i hi
  show ((fracdetCounts m.c m.vc m.st (2 * (m.spord - ord))).sp.map _)[i]? = _
  rw [Array.getElem?_map, h0]
  show some (Val.num (dyNorm ((0 : Nat) : Int) _).1 (dyNorm ((0 : Nat) : Int) _).2) = _
  rw [show ((0 : Nat) : Int) = 0 from rfl, dyNorm_zero]
  rfl

/-! ### the typing discipline `KindOk` (Lemmas/WFApi.lean) is preserved

`MapObj.WF` alone is not an inductive invariant of the driver: `fracdet` needs the blank cell
of its source to be invalid (`WF.fracdet_partial`), which follows from `MapObj.KindOk`.  Every
function of this file preserves `KindOk`, so a world-level proof can carry `WF ∧ KindOk`. -/

theorem WFRes.auxDT_flt (dt : DT) : ∃ b, auxDT dt = .flt b := by
  cases dt with
  | int b sg => exact ⟨64, rfl⟩
  | flt b => exact ⟨b, rfl⟩
  | bool => exact ⟨64, rfl⟩

theorem WFRes.plain_dtOut_flt (c : Prop) [Decidable c] (dt : DT) :
    ∃ b, Kind.plain (if c then DT.flt 64 else auxDT dt) = .plain (.flt b) := by
  split
  · exact ⟨64, rfl⟩
  · obtain ⟨b, hb⟩ := auxDT_flt dt
    exact ⟨b, by rw [hb]⟩

/-- kind and sentinel of the result of `_degrade` -/
theorem WFRes.apiDegradeCore_kind (m : MapObj) (ordOut : Nat) (red : String) (w : Option MapObj) :
    OkP (fun m' => (m'.kind = m.kind ∧ m'.sent = m.sent) ∨ (∃ b, m'.kind = .plain (.flt b)) ∨
        ∃ fs pr, m.kind = .recd fs pr ∧ m'.kind = .recd (fs.map auxDT) pr)
      (apiDegradeCore m ordOut red w) := by
  unfold apiDegradeCore
  okp
  all_goals first
    | exact .inl ⟨rfl, rfl⟩
    | exact .inr (.inr ⟨_, _, ‹_›, rfl⟩)
    | exact .inr (.inl (plain_dtOut_flt _ _))

theorem KindOk.apiDegradeCore {m m' : MapObj} {ordOut : Nat} {red : String} {w : Option MapObj}
    (h : m.KindOk) (hr : HS.apiDegradeCore m ordOut red w = .ok m') : m'.KindOk := by
  rcases apiDegradeCore_kind m ordOut red w m' hr with ⟨h3, h4⟩ | ⟨b, hb⟩ | ⟨fs, pr, hk, hk'⟩
  · exact (MapObj.KindOk_congr h3 h4).2 h
  · exact WFApi.kindOk_plain hb (fun hd => nomatch hd)
  · unfold MapObj.KindOk MapObj.kindOk at h ⊢
    simp only [hk] at h
    simp only [hk', List.getElem?_map]
    cases hget : fs[pr]? with
    | none => rw [hget] at h; cases h
    | some dt =>
      obtain ⟨b, hb⟩ := auxDT_flt dt
      simp [hb]

theorem KindOk.rehouse {m m' : MapObj} {co : Nat} (hr : HS.rehouse m co = .ok m') : m'.KindOk := by
  revert m'
  show OkP MapObj.KindOk (HS.rehouse m co)
  unfold HS.rehouse
  refine OkP.bind (Q := MapObj.KindOk) (fun e he => KindOk.apiMakeEmpty he) ?_
  intro e he
  split
  · exact OkP.of_throw _
  · exact fun m' hm' => KindOk.apiUpdate he hm'

theorem KindOk.apiDegrade {m m' : MapObj} {ordOut : Nat} {red : String} {w : Option MapObj}
    (h : m.KindOk) (hr : HS.apiDegrade m ordOut red w = .ok m') : m'.KindOk := by
  revert m'
  show OkP MapObj.KindOk (HS.apiDegrade m ordOut red w)
  unfold HS.apiDegrade
  okp
  · refine OkP.bind (Q := MapObj.KindOk) (fun e he => KindOk.rehouse he) ?_
    intro m1 hm1
    extract_lets jp
    refine OkP.bind (Q := fun _ => True) (fun _ _ => trivial) ?_
    intro w' _ r hr
    exact KindOk.apiDegradeCore hm1 hr
  · refine OkP.bind (Q := MapObj.KindOk) (fun e he => KindOk.rehouse he) ?_
    intro m1 hm1
    extract_lets jp
    refine OkP.bind (Q := fun _ => True) (fun _ _ => trivial) ?_
    intro w' _ r hr
    exact KindOk.apiDegradeCore hm1 hr
  · exact h
  · exact fun r hr => KindOk.apiDegradeCore h hr

theorem KindOk.apiUpgrade {m m' : MapObj} {ordOut : Nat} (h : m.KindOk)
    (hr : HS.apiUpgrade m ordOut = .ok m') : m'.KindOk := by
  revert m'
  show OkP MapObj.KindOk (HS.apiUpgrade m ordOut)
  unfold HS.apiUpgrade
  okp
  exact h

theorem KindOk.apiFromHealpix {covord spord : Nat} {dt : DT} {sentinel : Option Val} {hp : List Val}
    {sentIsPyInt : Bool} {m' : MapObj}
    (hr : HS.apiFromHealpix covord spord dt sentinel hp sentIsPyInt = .ok m') : m'.KindOk := by
  revert m'
  show OkP MapObj.KindOk (HS.apiFromHealpix covord spord dt sentinel hp sentIsPyInt)
  unfold HS.apiFromHealpix
  okp
  refine OkP.bind (Q := fun v => dt = .bool → v.isBoolVal = true)
    (fun v hv => WFApi.checkSentinel_bool hv) ?_
  intro sent hs
  apply OkP.of_pure
  exact WFApi.kindOk_plain rfl hs

theorem KindOk.apiReadHealpix {f : HpFile} {covord : Nat} {r2n : Option (Array Nat)} {m' : MapObj}
    (hr : HS.apiReadHealpix f covord r2n = .ok m') : m'.KindOk := by
  revert m'
  show OkP MapObj.KindOk (HS.apiReadHealpix f covord r2n)
  unfold HS.apiReadHealpix
  okp
  · refine OkP.bind (Q := MapObj.KindOk) (fun e he => KindOk.apiMakeEmpty he) ?_
    exact fun e he m' hm' => KindOk.apiUpdate he hm'
  · exact fun _ h => KindOk.apiFromHealpix h
  · exact fun _ h => KindOk.apiFromHealpix h


/-- the fracdet map under `KindOk` -/
theorem WF.fracdet {m : MapObj} {ord : Nat} (h : m.WF) (hk : m.KindOk) (hlo : m.covord ≤ ord)
    (hhi : ord ≤ m.spord) :
    ({ covord := m.covord, spord := ord, kind := .plain (.flt 64), sent := .num 0 0,
       st := fracdetState m ord } : MapObj).WF :=
  WF.fracdet_partial h hk.blankInvalid hlo hhi

/-! ### the driver operations that store these maps (Model/Dispatch.lean)

Each operation either leaves the world unchanged or stores exactly one map with `World.bind`;
the stored map is well formed and well typed (given, for the operations that work on an
existing map, that the map looked up with `World.get?` is). -/

/-- well formed and well typed -/
def MapObj.Good (m : MapObj) : Prop := m.WF ∧ m.KindOk

/-- `w'` is `w`, or `w` with one map stored (`World.bind`), the stored map satisfying `G`
    whenever the map the operation looked up (`World.get?`) satisfies `H` -/
def StoresFrom (H G : MapObj → Prop) (w w' : World) : Prop :=
  w' = w ∨ ∃ n m r m', w.get? n = some m ∧ (H m → G m') ∧ w' = w.bind r m'

/-- `w'` is `w`, or `w` with one map satisfying `G` stored -/
def Stores (G : MapObj → Prop) (w w' : World) : Prop := w' = w ∨ ∃ r m', G m' ∧ w' = w.bind r m'

theorem WFRes.storesFrom_withMap {H G : MapObj → Prop} (w : World) (a : Args)
    (k : MapObj → World × String)
    (hk : ∀ n m, w.get? n = some m → StoresFrom H G w (k m).1) :
    StoresFrom H G w (withMap w a k).1 := by
  unfold withMap
  split
  · split
    · exact hk _ _ ‹_›
    · exact .inl rfl
  · exact .inl rfl

theorem WF.opUpg (w : World) (a : Args) : StoresFrom MapObj.Good MapObj.Good w (opUpg w a).1 := by
  unfold HS.opUpg
  refine storesFrom_withMap w a _ fun n m hm => ?_
  repeat' (first | exact .inl rfl | split | simp only [])
  exact .inr ⟨n, m, _, _, hm, fun h => ⟨WF.apiUpgrade h.1 ‹_›, KindOk.apiUpgrade h.2 ‹_›⟩, rfl⟩

theorem WF.opDeg (w : World) (a : Args) : StoresFrom MapObj.Good MapObj.Good w (opDeg w a).1 := by
  unfold HS.opDeg
  refine storesFrom_withMap w a _ fun n m hm => ?_
  repeat' (first | exact .inl rfl | split | simp only [])
  all_goals
    exact .inr ⟨n, m, _, _, hm, fun h => ⟨WF.apiDegrade h.1 ‹_›, KindOk.apiDegrade h.2 ‹_›⟩, rfl⟩

theorem WF.opScov (w : World) (a : Args) : StoresFrom MapObj.Good MapObj.Good w (opScov w a).1 := by
  unfold HS.opScov
  refine storesFrom_withMap w a _ fun n m hm => ?_
  repeat' (first | exact .inl rfl | split | simp only [])
  exact .inr ⟨n, m, _, _, hm, fun h => ⟨WF.singleCovpix h.1 (by omega), h.2⟩, rfl⟩

theorem WF.opFracdet (w : World) (a : Args) :
    StoresFrom MapObj.Good MapObj.Good w (opFracdet w a).1 := by
  unfold HS.opFracdet
  refine storesFrom_withMap w a _ fun n m hm => ?_
  repeat' (first | exact .inl rfl | split | simp only [])
  rename_i ord _ _ hc
  have hc' : ¬ (ord > m.spord) ∧ ¬ (ord < m.covord) := by simpa using hc
  exact .inr ⟨n, m, _, _, hm, fun h =>
    ⟨WF.fracdet (ord := ord) h.1 h.2 (by omega) (by omega), WFApi.kindOk_plain rfl (fun hd => nomatch hd)⟩,
    rfl⟩

theorem WF.opMocread (w : World) (a : Args) : Stores MapObj.Good w (opMocread w a).1 := by
  unfold HS.opMocread
  repeat' (first | exact .inl rfl | split | simp only [])
  rename_i e he _ v hv
  have hk : v.KindOk := KindOk.apiUpdate (KindOk.apiMakeEmpty he) hv
  exact .inr ⟨_, { v with cache := none }, ⟨WF.mocread he hv, hk⟩, rfl⟩

theorem WF.opFromhp (w : World) (a : Args) : Stores MapObj.Good w (opFromhp w a).1 := by
  unfold HS.opFromhp
  repeat' (first | exact .inl rfl | split | simp only [])
  all_goals exact .inr ⟨_, _, ⟨WF.apiFromHealpix ‹_›, KindOk.apiFromHealpix ‹_›⟩, rfl⟩

theorem WF.opHpxread (w : World) (a : Args) : Stores MapObj.Good w (opHpxread w a).1 := by
  unfold HS.opHpxread
  repeat' (first | exact .inl rfl | split | simp only [])
  all_goals
    rename_i v hv
    have h : v.WF := WF.apiReadHealpix hv
    have hk : v.KindOk := KindOk.apiReadHealpix hv
    exact .inr ⟨_, { v with cache := none }, ⟨h, hk⟩, rfl⟩

/-- the HEALPix-format branch of `dor`: read, then degrade in memory -/
theorem WF.readHealpix_degrade {hf : HpFile} {co ord : Nat} {r2n : Option (Array Nat)} {red : String}
    {m d : MapObj} (hm : HS.apiReadHealpix hf co r2n = .ok m)
    (hd : HS.apiDegrade m ord red none = .ok d) : ({ d with cache := none } : MapObj).Good := by
  have h : d.WF := WF.apiDegrade (WF.apiReadHealpix hm) hd
  have hk : d.KindOk := KindOk.apiDegrade (KindOk.apiReadHealpix hm) hd
  exact ⟨h, hk⟩

/-! ### the hypotheses are satisfiable; the extra hypotheses of the `_partial` theorems are needed -/

/-- `x` succeeds and its result passes the test `p` -/
def WFRes.okAnd {α : Type} (x : Except Err α) (p : α → Bool) : Bool :=
  match x with
  | .ok a => p a
  | .error _ => false

/-- an int64 map at orders (0, 1) with two valid pixels in two coverage pixels -/
def WFRes.exSrc : Except Err MapObj :=
  apiMakeEmpty 0 1 (.plain (.int 64 true)) none [] >>= fun e =>
    apiUpdate e "replace" [3, 17] (some [.num 7 0, .num 9 0]) false

/-- a float64 map at orders (1, 1) with two valid pixels -/
def WFRes.exSrc1 : Except Err MapObj :=
  apiMakeEmpty 1 1 (.plain (.flt 64)) none [] >>= fun e =>
    apiUpdate e "replace" [3, 17] (some [.num 7 0, .num 9 0]) false

-- `apiDegrade`, `apiDegradeCore`, `apiUpgrade`: a well-formed source, a successful call, a
-- well-formed result
example : okAnd exSrc (fun m => decide m.WF &&
    okAnd (apiDegrade m 0 "sum" none) (fun m' => decide m'.WF) &&
    okAnd (apiDegradeCore m 0 "max" none) (fun m' => decide m'.WF) &&
    okAnd (apiUpgrade m 2) (fun m' => decide m'.WF)) = true := by decide +kernel

-- `rehouse`, and `apiDegrade` below the coverage order (which goes through `rehouse`)
example : okAnd exSrc1 (fun m => decide m.WF &&
    okAnd (rehouse m 0) (fun m' => decide m'.WF && m'.covord == 0) &&
    okAnd (apiDegrade m 0 "mean" none) (fun m' => decide m'.WF)) = true := by decide +kernel

-- … with a weight map (evaluated by the compiler: `List.mergeSort` does not reduce in the kernel)
#guard okAnd exSrc1 (fun m => okAnd (apiDegrade m 0 "wmean" (some m)) (fun m' => decide m'.WF))

-- COUNTEREXAMPLE (why `WF.apiDegradeCore_partial` needs `ordOut ≤ m.spord`): the internal
-- function does not check its documented precondition `covord ≤ ordOut ≤ spord`; on a
-- well-formed map at orders (0, 1), `ordOut = 2` succeeds with a result that is not well formed
example : okAnd exSrc (fun m => decide m.WF &&
    okAnd (apiDegradeCore m 2 "sum" none) (fun m' => !decide m'.WF)) = true := by decide +kernel

-- … and `m.covord ≤ ordOut`: on a well-formed map at orders (1, 1), `ordOut = 0` succeeds with
-- `covord = 1 > spord = 0`
example : okAnd exSrc1 (fun m => decide m.WF &&
    okAnd (apiDegradeCore m 0 "sum" none) (fun m' => !decide m'.WF)) = true := by decide +kernel

-- `apiFromHealpix`, `apiReadHealpix` (implicit NESTED, implicit RING with a permutation table,
-- explicit): successful calls, well-formed results
def WFRes.exHp : List Val :=
  [.num unseen64 0, .num 1 1, .num unseen64 0, .num 5 0, .num unseen64 0, .num unseen64 0,
   .num unseen64 0, .num unseen64 0, .num unseen64 0, .num unseen64 0, .num 3 2, .num unseen64 0]

example : okAnd (apiFromHealpix 0 0 (.flt 64) none exHp) (fun m => decide m.WF) &&
    okAnd (apiReadHealpix (.implicit 0 (.flt 64) false exHp) 0 none) (fun m => decide m.WF) &&
    okAnd (apiReadHealpix (.implicit 0 (.flt 64) true exHp) 0
      (some #[1, 0, 3, 2, 5, 4, 7, 6, 9, 8, 11, 10])) (fun m => decide m.WF) &&
    okAnd (apiReadHealpix (.explicit 1 (.int 32 true) (.num (-1) 0) [40, 2] [.num 4 0, .num 6 0]) 0 none)
      (fun m => decide m.WF) = true := by decide +kernel

-- `mocread`: the two calls the driver makes succeed, the stored map is well formed
#guard mocRead [16, 17, 5] == (1, [0, 1, 4, 5, 6, 7])
example : okAnd (apiMakeEmpty 0 1 (.plain .bool) none []) (fun e =>
    okAnd (apiUpdate e "replace" [0, 1, 4, 5, 6, 7] (some [.bool true]) true) (fun m =>
      decide ({ m with cache := none } : MapObj).WF)) = true := by decide +kernel

-- `scov`, `fracdet`: the hypotheses hold for the source map above
example : okAnd exSrc (fun m => decide m.WF && decide (0 < m.c.ncov) &&
    decide ({ m with st := singleCovpixMap m.c m.vc m.st 0, cache := none } : MapObj).WF &&
    m.vc.valid m.vc.sentinel == false && decide (m.covord ≤ 0) && decide (0 ≤ m.spord) &&
    decide ({ covord := m.covord, spord := 0, kind := .plain (.flt 64), sent := .num 0 0,
              st := fracdetState m 0 } : MapObj).WF) = true := by decide +kernel

/-- a well-formed bit-packed map whose sentinel is `True` (`apiMakeEmpty` refuses to build it,
    `MapObj.WF` does not exclude it): the blank cell `False` is a VALID cell -/
def WFRes.wfBlankValid : MapObj :=
  { covord := 0, spord := 0, kind := .packed, sent := .bool true,
    st := makeEmpty (cfgOf 0 0) ⟨.bool false, Kind.packed.valid (.bool true)⟩ [] }

-- COUNTEREXAMPLE (why `WF.opFracdet_partial` needs `m.vc.valid m.vc.sentinel = false`): the
-- overflow block of the fracdet map counts the valid cells of the source's overflow block
example : decide wfBlankValid.WF && wfBlankValid.vc.valid wfBlankValid.vc.sentinel &&
    !decide ({ covord := 0, spord := 0, kind := .plain (.flt 64), sent := .num 0 0,
               st := fracdetState wfBlankValid 0 } : MapObj).WF = true := by decide +kernel

end HS
