/-
  The dense refinement of Lemmas/ApiDense.lean + Lemmas/ApiDenseScalar.lean extended to the
  WIDE-MASK BIT family of protocol lines (helper lemmas for Props/C13Dense.lean):

    bits      `bits n mode=set|clear pix=… bits=…`     (set_bits_pix / clear_bits_pix)
    chk       `chk n pix=… bits=… [via=pos]`           (check_bits_pix; the model has ONE lookup,
                                                         `via=` names the path of the real side only)

  * `setCell`, `bitsF`, `dSetBits`: set / clear on a dense array of byte rows — the errors decided
    from the header and the arguments (not a wide mask: NotImplementedError; empty bit list, a
    position at or above `8 n`, non-zero sentinel: ValueError; a pixel outside the sphere:
    IndexError), else every ADDRESSED pixel gets the cell operation ONCE (however often it is
    listed), every other pixel keeps its cell;
  * `dCheckBits`: one answer per listed pixel (TypeError on a map that is not a wide mask,
    IndexError for a pixel outside the sphere, THEN IndexError for an oversized position);
  * `apiSetBits_corr`, `apiCheckBits_corr`: the API functions respect `Corr`;
  * `dstepArgsB` / `dstepB` / `drunB` / `danswersB`: the dense interpreter of plain + scalar + bit
    lines (every other operation falls back to `ApiDenseScalar.dstepArgsS`, hence to
    `ApiDense.dstepArgs`);
  * `rel_bits`, `rel_chk`, `rel_stepArgsB`, `rel_stepB`, `rel_runLinesB`, `answers_eq_danswersB`:
    the refinement.

  The two bit lines need `Rel` ALONE (`rel_bits`, `rel_chk`: no invariant of the sparse world);
  the one-line theorem `rel_stepB` takes `World.Good2` only because the scalar family it falls
  back to does.
-/
import HealSparse.Lemmas.ApiDenseScalar
import HealSparse.Lemmas.ApiBits
namespace HS
namespace ApiDenseBits

open ApiDense ApiDenseScalar ApiBits

/-! ### `check_bits_pix` on a dense map -/

/-- `check_bits_pix` on a dense map: TypeError unless a wide mask; IndexError for a pixel outside
    the sphere, then IndexError for a position at or above the width; else one answer per listed
    pixel (repeats and order kept): does the row meet the packed bit list -/
def dCheckBits (d : DenseMap) (pix bits : List Nat) : Except Err (List Bool) :=
  match d.kind with
  | .wide n =>
    if pix.any (· ≥ d.npix) then .error .index
    else if bits.any (· ≥ 8 * n) then .error .index
    else .ok (pix.map fun p => checkCell n bits (d.f p))
  | _ => .error .type

/-- **`check_bits_pix` on the map and on the dense map give the same outcome** -/
theorem apiCheckBits_corr {m : MapObj} {d : DenseMap} (hc : Corr m d) (pix bits : List Nat) :
    apiCheckBits m pix bits = dCheckBits d pix bits := by
  unfold dCheckBits
  cases hk : d.kind with
  | wide n =>
    have hk' : m.kind = .wide n := hc.kind.trans hk
    rw [apiCheckBits_wide hk', corr_npix hc]
    simp only []
    by_cases h1 : (pix.any fun x => decide (x ≥ d.npix)) = true
    · rw [if_pos h1, if_pos h1]
    · rw [if_neg h1, if_neg h1]
      by_cases h2 : (bits.any fun x => decide (x ≥ 8 * n)) = true
      · rw [if_pos h2, if_pos h2]
      · rw [if_neg h2, if_neg h2]
        congr 1
        apply List.map_congr_left
        intro p hp
        have hp' : p < m.npix := by rw [corr_npix hc]; exact WFApi.lt_of_not_any_ge h1 p hp
        rw [hc.abs p hp']
  | plain dt =>
    exact apiCheckBits_not_wide (fun n h => by rw [hc.kind, hk] at h; cases h) pix bits
  | packed =>
    exact apiCheckBits_not_wide (fun n h => by rw [hc.kind, hk] at h; cases h) pix bits
  | recd fs pr =>
    exact apiCheckBits_not_wide (fun n h => by rw [hc.kind, hk] at h; cases h) pix bits

/-- `chk` on the dense world -/
def dChkOp (D : DenseWorld) (a : Args) : DenseWorld × String :=
  dWithMap D a fun d =>
    match parseNats (a.getD "pix" "_"), parseNats (a.getD "bits" "_") with
    | some pix, some bits =>
      (match dCheckBits d pix bits with
       | .ok l => (D, showBits l)
       | .error e => (D, errLine e))
    | _, _ => (D, "bad-op:chk")

theorem rel_chk {w : World} {D : DenseWorld} (h : Rel w D) (a : Args) :
    Rel (opChk w a).1 (dChkOp D a).1 ∧ (opChk w a).2 = (dChkOp D a).2 := by
  unfold opChk dChkOp
  refine rel_withMap h fun m d _ _ hc => ?_
  cases parseNats (a.getD "pix" "_") <;> cases parseNats (a.getD "bits" "_")
  · exact ⟨h, rfl⟩
  · exact ⟨h, rfl⟩
  · exact ⟨h, rfl⟩
  · rename_i pix bits
    simp only []
    rw [apiCheckBits_corr hc]
    cases dCheckBits d pix bits <;> exact ⟨h, rfl⟩

/-- `chk` never changes the dense world -/
theorem dChkOp_world (D : DenseWorld) (a : Args) : (dChkOp D a).1 = D := by
  unfold dChkOp
  refine dWithMap_world fun d => ?_
  cases parseNats (a.getD "pix" "_") <;> cases parseNats (a.getD "bits" "_") <;> try rfl
  rename_i pix bits
  simp only []
  cases dCheckBits d pix bits <;> rfl

/-! ### `set_bits_pix` / `clear_bits_pix` on a dense map -/

/-- the cell operation on a byte row: `or` with the packed bit list (set), `and` with its
    complement (clear); any other cell (none occurs in a wide mask the bit API built) is kept -/
def setCell (n : Nat) (bits : List Nat) (clear : Bool) (v : Val) : Val :=
  match v with
  | .bytes row =>
    .bytes (if clear then List.zipWith (· &&& ·) row (complBytes (bitvalsToPacked bits (8 * n)))
            else List.zipWith (· ||| ·) row (bitvalsToPacked bits (8 * n)))
  | v => v

/-- the values after set / clear: an addressed pixel gets the cell operation once -/
def bitsF (d : DenseMap) (n : Nat) (pix bits : List Nat) (clear : Bool) : Nat → Val := fun p =>
  if p ∈ pix then setCell n bits clear (d.f p) else d.f p

/-- `set_bits_pix` / `clear_bits_pix` on a dense map -/
def dSetBits (d : DenseMap) (pix bits : List Nat) (clear : Bool) : Except Err DenseMap :=
  match d.kind with
  | .wide n =>
    if bits.isEmpty then .error .value
    else if bits.any (· ≥ 8 * n) then .error .value
    else if !d.sent.isZero then .error .value
    else if pix.any (· ≥ d.npix) then .error .index
    else .ok { d with f := bitsF d n pix bits clear }
  | _ => .error .notImpl

theorem bitsCell_eq (m : MapObj) (n : Nat) (bits : List Nat) (clear : Bool) (x : Val) :
    bitsCell m n bits clear x = setCell n bits clear x := by
  unfold bitsCell bitsValue setCell
  cases clear <;> cases x <;> rfl

theorem zipWith_idem (f : Nat → Nat → Nat) (hf : ∀ x y, f (f x y) y = f x y) (r p : List Nat) :
    List.zipWith f (List.zipWith f r p) p = List.zipWith f r p := by
  induction r generalizing p with
  | nil => rfl
  | cons x r ih =>
    cases p with
    | nil => rfl
    | cons y p => simp only [List.zipWith_cons_cons, hf, ih]

/-- setting (clearing) the same bits twice is setting (clearing) them once -/
theorem setCell_idem (n : Nat) (bits : List Nat) (clear : Bool) (x : Val) :
    setCell n bits clear (setCell n bits clear x) = setCell n bits clear x := by
  cases x with
  | bytes row =>
    cases clear with
    | true =>
      show Val.bytes (List.zipWith _ (List.zipWith _ row _) _) = Val.bytes (List.zipWith _ row _)
      rw [zipWith_idem _ (fun x y => by rw [Nat.and_assoc, Nat.and_self])]
    | false =>
      show Val.bytes (List.zipWith _ (List.zipWith _ row _) _) = Val.bytes (List.zipWith _ row _)
      rw [zipWith_idem _ (fun x y => by rw [Nat.or_assoc, Nat.or_self])]
  | _ => rfl

/-- an idempotent cell operation applied once per occurrence of a pixel acts as if applied once -/
theorem denseFold_once (g : Val → Val) (hg : ∀ x, g (g x) = g x) (pix : List Nat) (p : Nat) (x : Val) :
    denseFold (fun x (_ : Unit) => g x) (pix.map fun q => (q, ())) p x = if p ∈ pix then g x else x := by
  induction pix generalizing x with
  | nil => rfl
  | cons q pix ih =>
    simp only [List.map_cons, denseFold, List.foldl_cons]
    have ih' := fun y => ih y
    simp only [denseFold] at ih'
    by_cases hq : q = p
    · subst hq
      rw [if_pos rfl, ih', hg, if_pos List.mem_cons_self]
      split <;> rfl
    · rw [if_neg hq, ih']
      have : p ∈ q :: pix ↔ p ∈ pix := by simp [List.mem_cons, Ne.symm hq]
      simp only [this]

theorem sent_nonzero_err {m : MapObj} {n : Nat} (hk : m.kind = .wide n) (hz : ¬ m.sent.isZero = true)
    (clear : Bool) : ApiRanges.frontErr m (bitsOp clear) false = some Err.value := by
  unfold ApiRanges.frontErr bitsOp
  cases clear <;> simp [hk, hz, Kind.isBool, Kind.isIntegerMap]

/-- the bit API on a wide mask: the two bit checks, then `update_values_pix` with `or` / `and` -/
theorem apiSetBits_upd {m : MapObj} {n : Nat} (hk : m.kind = .wide n) (pix bits : List Nat)
    (clear : Bool) :
    apiSetBits m pix bits clear =
      if bits.isEmpty then .error .value
      else if bits.any (· ≥ 8 * n) then .error .value
      else apiUpdate m (bitsOp clear) pix (some [bitsValue n bits clear]) true := by
  unfold apiSetBits
  simp only [hk, bind, Except.bind, throw, throwThe, MonadExceptOf.throw, maxbits_wide hk]
  by_cases h1 : bits.isEmpty = true
  · simp only [h1, if_true]
  · simp only [h1, Bool.false_eq_true, if_false]
    by_cases h2 : (bits.any fun x => decide (x ≥ 8 * n)) = true
    · simp only [h2, if_true]
    · simp only [h2, Bool.false_eq_true, if_false]
      cases clear <;> rfl

/-- **set / clear on the map and on the dense map agree**: the same error, or results that agree
    again — for every pixel list (repeats included) and every bit list -/
theorem apiSetBits_corr {m : MapObj} {d : DenseMap} (hc : Corr m d) (pix bits : List Nat)
    (clear : Bool) : OutRel (apiSetBits m pix bits clear) (dSetBits d pix bits clear) := by
  unfold dSetBits
  cases hk : d.kind with
  | wide n =>
    have hk' : m.kind = .wide n := hc.kind.trans hk
    simp only []
    by_cases hz : m.sent.isZero = true
    · have hz' : ¬ (!d.sent.isZero) = true := by rw [← hc.sent, hz]; decide
      rw [apiSetBits_wide hk' hz hc.view, corr_npix hc]
      by_cases h1 : bits.isEmpty = true
      · rw [if_pos h1, if_pos h1]; exact rfl
      · rw [if_neg h1, if_neg h1]
        by_cases h2 : (bits.any fun x => decide (x ≥ 8 * n)) = true
        · rw [if_pos h2, if_pos h2]; exact rfl
        · rw [if_neg h2, if_neg h2, if_neg hz']
          by_cases h3 : (pix.any fun x => decide (x ≥ d.npix)) = true
          · rw [if_pos h3, if_pos h3]; exact rfl
          · rw [if_neg h3, if_neg h3]
            have hlt : ∀ q ∈ pix, q < m.npix := by
              rw [corr_npix hc]; exact WFApi.lt_of_not_any_ge h3
            obtain ⟨hinv, _, habs⟩ := setSt_spec hc.wf n bits clear hlt
            refine ⟨⟨hc.wf.1, hinv⟩, hc.view, hc.covord, hc.spord, hk', hc.sent, fun p hp => ?_⟩
            refine (habs p hp).trans ?_
            have e : (fun x (_ : Unit) => bitsCell m n bits clear x)
                = fun x (_ : Unit) => setCell n bits clear x := by
              funext x _; exact bitsCell_eq m n bits clear x
            rw [e, denseFold_once _ (setCell_idem n bits clear), hc.abs p hp]
            rfl
    · have hz' : (!d.sent.isZero) = true := by
        rw [← hc.sent]; simpa using hz
      rw [apiSetBits_upd hk']
      by_cases h1 : bits.isEmpty = true
      · rw [if_pos h1, if_pos h1]; exact rfl
      · rw [if_neg h1, if_neg h1]
        by_cases h2 : (bits.any fun x => decide (x ≥ 8 * n)) = true
        · rw [if_pos h2, if_pos h2]; exact rfl
        · rw [if_neg h2, if_neg h2, if_pos hz', ApiRanges.apiUpdate_eq]
          unfold ApiRanges.apiUpdateSpec
          simp only [Option.isNone_some, sent_nonzero_err hk' hz clear]
          exact rfl
  | plain dt =>
    rw [apiSetBits_not_wide (fun n h => by rw [hc.kind, hk] at h; cases h)]; exact rfl
  | packed =>
    rw [apiSetBits_not_wide (fun n h => by rw [hc.kind, hk] at h; cases h)]; exact rfl
  | recd fs pr =>
    rw [apiSetBits_not_wide (fun n h => by rw [hc.kind, hk] at h; cases h)]; exact rfl

/-- `bits` on the dense world: an accepted call rebinds the name to the updated array, a refused
    call changes nothing -/
def dBitsOp (D : DenseWorld) (a : Args) : DenseWorld × String :=
  dWithMap D a fun d =>
    match parseNats (a.getD "pix" "_"), parseNats (a.getD "bits" "_") with
    | some pix, some bits =>
      (match dSetBits d pix bits (a.getD "mode" "set" == "clear") with
       | .ok d' => (D.bind (a.pos.headD "") d', "ok")
       | .error e => (D, errLine e))
    | _, _ => (D, "bad-op:bits")

theorem rel_bits {w : World} {D : DenseWorld} (h : Rel w D) (a : Args) :
    Rel (opBits w a).1 (dBitsOp D a).1 ∧ (opBits w a).2 = (dBitsOp D a).2 := by
  unfold opBits dBitsOp
  refine rel_withMap h fun m d _ _ hc => ?_
  cases parseNats (a.getD "pix" "_") <;> cases parseNats (a.getD "bits" "_")
  · exact ⟨h, rfl⟩
  · exact ⟨h, rfl⟩
  · exact ⟨h, rfl⟩
  · rename_i pix bits
    have hr := apiSetBits_corr hc pix bits (a.getD "mode" "set" == "clear")
    simp only []
    revert hr
    cases apiSetBits m pix bits (a.getD "mode" "set" == "clear") <;>
      cases dSetBits d pix bits (a.getD "mode" "set" == "clear") <;> intro hr
    · cases hr
      exact ⟨h, rfl⟩
    · exact hr.elim
    · exact hr.elim
    · exact ⟨h.put _ hr, rfl⟩

/-- a refused `bits` line changes nothing on the dense side -/
theorem dBitsOp_not_ok (D : DenseWorld) (a : Args) (hne : (dBitsOp D a).2 ≠ "ok") :
    (dBitsOp D a).1 = D := by
  revert hne
  unfold dBitsOp dWithMap
  repeat' (first | exact fun _ => rfl | split | simp only [])
  all_goals exact fun h => absurd rfl h

/-! ### the dense interpreter of plain + scalar + bit lines -/

/-- the operations of the wide-mask bit family -/
def famOp (op : String) : Bool := op == "bits" || op == "chk"

/-- **the dense interpreter, bit family included**: one parsed line on a dense world; every other
    operation is handed to the interpreter of the plain + scalar lines -/
def dstepArgsB (D : DenseWorld) (op : String) (a : Args) : DenseWorld × String :=
  match op with
  | "bits" => dBitsOp D a
  | "chk" => dChkOp D a
  | _ => dstepArgsS D op a

theorem famOp_cases {op : String} (h : famOp op = true) : op = "bits" ∨ op = "chk" := by
  unfold famOp at h
  simpa only [Bool.or_eq_true, beq_iff_eq] using h

/-- on a plain line the extended interpreter is the plain one -/
theorem dstepArgsB_plain {op : String} (hp : plainOp op = true) (D : DenseWorld) (a : Args) :
    dstepArgsB D op a = dstepArgsS D op a := by
  rcases plainOp_cases hp with rfl | rfl | rfl | rfl | rfl | rfl <;> rfl

/-- on a line of the scalar family it is the interpreter of that family -/
theorem dstepArgsB_scalar {op : String} (hp : ApiDenseScalar.famOp op = true) (D : DenseWorld)
    (a : Args) : dstepArgsB D op a = dstepArgsS D op a := by
  rcases ApiDenseScalar.famOp_cases hp with rfl | rfl | rfl | rfl | rfl | rfl | rfl <;> rfl

/-- **one parsed line of the bit family**: `Rel` alone is enough — the protocol and the dense
    interpreter stay in agreement and give the same answer -/
theorem rel_stepArgs_bits {w : World} {D : DenseWorld} (h : Rel w D) {op : String} (a : Args)
    (hp : famOp op = true) :
    Rel (stepArgs w op a).1 (dstepArgsB D op a).1 ∧ (stepArgs w op a).2 = (dstepArgsB D op a).2 := by
  rcases famOp_cases hp with rfl | rfl
  · exact rel_bits h a
  · exact rel_chk h a

/-- **one parsed line, plain, scalar or of the bit family** -/
theorem rel_stepArgsB {w : World} {D : DenseWorld} (h : Rel w D) (hw : w.Good2) {op : String}
    (a : Args) (hp : (plainOp op = true ∨ famArgs op a = true) ∨ famOp op = true) :
    Rel (stepArgs w op a).1 (dstepArgsB D op a).1 ∧ (stepArgs w op a).2 = (dstepArgsB D op a).2 := by
  rcases hp with hp | hp
  · have e : dstepArgsB D op a = dstepArgsS D op a := by
      rcases hp with hp | hp
      · exact dstepArgsB_plain hp D a
      · unfold famArgs at hp
        rw [Bool.and_eq_true] at hp
        exact dstepArgsB_scalar hp.1 D a
    rw [e]
    exact rel_stepArgsS h hw a hp
  · exact rel_stepArgs_bits h a hp

/-! ### raw lines and histories -/

/-- a raw line of the bit family -/
def famLine (line : String) : Bool :=
  match lineToks line with
  | [] => false
  | op :: _ => famOp op

/-- the lines the extended dense interpreter answers: plain lines (`cfg`, `upd`, `updr`, `set`,
    `get`, `vals`, the empty line), the lines of the scalar family (`sop`, `mask`, `astype`, `copy`,
    `valid`, `nvalid` — not `path=str` —, `covmap`) and the lines of the bit family (`bits`, `chk`) -/
def lineOk (line : String) : Bool := ApiDenseScalar.lineOk line || famLine line

/-- the extended dense interpreter on a raw line -/
def dstepB (D : DenseWorld) (line : String) : DenseWorld × String :=
  match lineToks line with
  | [] => (D, "bad-op:empty")
  | op :: rest => dstepArgsB D op (parseArgs rest)

/-- … and on a history, from the empty dense world -/
def drunB (lines : List String) : DenseWorld := lines.foldl (fun D l => (dstepB D l).1) []

theorem famOp_not_packed {op : String} (h : famOp op = true) : op.startsWith "p." = false := by
  rcases famOp_cases h with rfl | rfl <;> decide +kernel

/-- **one raw line**: from related worlds (the sparse one satisfying the reachable invariant
    `Good2`, which the scalar family needs), a plain, scalar or bit line leads to related worlds and
    is answered alike -/
theorem rel_stepB {w : World} {D : DenseWorld} (hR : Rel w D) (hw : w.Good2) {line : String}
    (hp : lineOk line = true) :
    Rel (step w line).1 (dstepB D line).1 ∧ (step w line).2 = (dstepB D line).2 := by
  have hstep : step w line = match lineToks line with
      | [] => (w, "bad-op:empty")
      | op :: rest =>
        if op.startsWith "p." then
          let (pw, o) := stepPacked w.packed op (parseArgs rest)
          ({ w with packed := pw }, o)
        else stepArgs w op (parseArgs rest) := rfl
  rw [hstep]
  unfold dstepB
  unfold lineOk ApiDenseScalar.lineOk plainLine ApiDenseScalar.famLine famLine at hp
  cases ht : lineToks line with
  | nil => exact ⟨hR, rfl⟩
  | cons op rest =>
    rw [ht] at hp
    simp only [Bool.or_eq_true] at hp
    have hnp : op.startsWith "p." = false := by
      rcases hp with (hp | hp) | hp
      · exact plainOp_not_packed hp
      · unfold famArgs at hp
        rw [Bool.and_eq_true] at hp
        exact ApiDenseScalar.famOp_not_packed hp.1
      · exact famOp_not_packed hp
    simp only [hnp, Bool.false_eq_true, if_false]
    exact rel_stepArgsB hR hw _ hp

/-- **one raw line of the bit family needs no invariant** -/
theorem rel_step_bits {w : World} {D : DenseWorld} (hR : Rel w D) {line : String}
    (hp : famLine line = true) :
    Rel (step w line).1 (dstepB D line).1 ∧ (step w line).2 = (dstepB D line).2 := by
  have hstep : step w line = match lineToks line with
      | [] => (w, "bad-op:empty")
      | op :: rest =>
        if op.startsWith "p." then
          let (pw, o) := stepPacked w.packed op (parseArgs rest)
          ({ w with packed := pw }, o)
        else stepArgs w op (parseArgs rest) := rfl
  rw [hstep]
  unfold dstepB
  unfold famLine at hp
  cases ht : lineToks line with
  | nil => rw [ht] at hp; cases hp
  | cons op rest =>
    rw [ht] at hp
    simp only [famOp_not_packed hp, Bool.false_eq_true, if_false]
    exact rel_stepArgs_bits hR _ hp

/-- related worlds, the sparse one satisfying the reachable invariant (as `ApiDenseScalar.RelS`) -/
abbrev RelB (w : World) (D : DenseWorld) : Prop := RelS w D

/-- **one raw line, bundled**: `RelS` is preserved and the line is answered alike -/
theorem relB_step {w : World} {D : DenseWorld} (h : RelS w D) {line : String}
    (hp : lineOk line = true) :
    RelS (step w line).1 (dstepB D line).1 ∧ (step w line).2 = (dstepB D line).2 :=
  ⟨⟨(rel_stepB h.rel h.good hp).1, Good2.step h.good line⟩, (rel_stepB h.rel h.good hp).2⟩

theorem rel_foldlB (lines : List String) (w : World) (D : DenseWorld) (h : RelS w D)
    (hp : ∀ l ∈ lines, lineOk l = true) :
    RelS (lines.foldl (fun w l => (step w l).1) w) (lines.foldl (fun D l => (dstepB D l).1) D) := by
  induction lines generalizing w D with
  | nil => exact h
  | cons l ls ih =>
    exact ih _ _ (relB_step h (hp l List.mem_cons_self)).1 fun l' h' => hp l' (List.mem_cons_of_mem _ h')

/-- **histories**: the world a history of plain, scalar and bit lines reaches agrees with the dense
    world the extended dense interpreter reaches -/
theorem rel_runLinesB (lines : List String) (hp : ∀ l ∈ lines, lineOk l = true) :
    Rel (runLines lines) (drunB lines) :=
  (rel_foldlB lines _ _ relS_empty hp).rel

/-- the answers of the extended dense interpreter along a history -/
def danswersB (lines : List String) : List String :=
  (lines.foldl (fun (Do : DenseWorld × List String) l => ((dstepB Do.1 l).1, Do.2 ++ [(dstepB Do.1 l).2]))
    ([], [])).2

theorem answers_foldlB (lines : List String) (w : World) (D : DenseWorld) (acc : List String)
    (h : RelS w D) (hp : ∀ l ∈ lines, lineOk l = true) :
    (lines.foldl (fun (wo : World × List String) l => ((step wo.1 l).1, wo.2 ++ [(step wo.1 l).2]))
      (w, acc)).2 =
    (lines.foldl (fun (Do : DenseWorld × List String) l =>
      ((dstepB Do.1 l).1, Do.2 ++ [(dstepB Do.1 l).2])) (D, acc)).2 := by
  induction lines generalizing w D acc with
  | nil => rfl
  | cons l ls ih =>
    obtain ⟨h', ha⟩ := relB_step h (hp l List.mem_cons_self)
    simp only [List.foldl_cons]
    rw [ha]
    exact ih _ _ _ h' fun l' hl' => hp l' (List.mem_cons_of_mem _ hl')

/-- **the list of all answers** of a history of plain, scalar and bit lines is the list of answers
    of the dense interpreter -/
theorem answers_eq_danswersB (lines : List String) (hp : ∀ l ∈ lines, lineOk l = true) :
    answers lines = danswersB lines :=
  answers_foldlB lines _ _ _ relS_empty hp

end ApiDenseBits
end HS
