/-
  C13 — a wide-mask map behaves as a per-pixel set of bit positions.
  Property theorems only (helpers in HealSparse/Lemmas).  The map-level statements
  (history refinement, validity accounting, rejection leaves the map unchanged) are the
  C01 / C02 theorems instantiated at byte-row cells; this file proves the bit-level facts.
-/
import HealSparse.Model.WideMask
import HealSparse.Model.Api
import HealSparse.Lemmas.WideMask
import HealSparse.Lemmas.ApiReject
import HealSparse.Props.C02
import HealSparse.Lemmas.ApiBits
namespace HS
namespace C13

/-- a row of `n` bytes -/
def IsRow (row : List Nat) (n : Nat) : Prop := row.length = n ∧ ∀ x ∈ row, x < 256

/-- width rule of make_empty: `nbytes = (maxbits-1)/8 + 1` holds every requested bit -/
theorem width_rule (maxbits : Nat) (h : 1 ≤ maxbits) : maxbits ≤ 8 * ((maxbits - 1) / 8 + 1) := by
  omega

/-- geometry width (after the fix): `maxbits = max(bits)+1` bytes hold every bit of the shape -/
theorem geom_width_enough (bits : List Nat) (b : Nat) (hb : b ∈ bits) :
    b < 8 * ((bits.foldl max 0 + 1 - 1) / 8 + 1) := by
  have h := WideMask.le_foldl_max bits 0 b hb
  omega

/-- `_bitvals_to_packed_array` produces a row of `maxbits/8` bytes … -/
theorem pack_isRow (bits : List Nat) (maxbits : Nat) :
    IsRow (bitvalsToPacked bits maxbits) (maxbits / 8) := by
  exact ⟨WideMask.length_bitvalsToPacked bits maxbits,
    fun x hx => WideMask.lt_of_mem_bitvalsToPacked bits maxbits x hx⟩

/-- … whose set bits are exactly the listed positions (including 7, 8, 15, 16, …). -/
theorem pack_testBit (bits : List Nat) (maxbits b : Nat) (hb : b < 8 * (maxbits / 8)) :
    rowTestBit (bitvalsToPacked bits maxbits) b = bits.contains b := by
  exact WideMask.rowTestBit_bitvalsToPacked bits maxbits b hb

/-- set_bits: `S' = S ∪ bits` -/
theorem set_bits_spec (row : List Nat) (bits : List Nat) (n b : Nat) (hr : IsRow row n) (hb : b < 8 * n) :
    rowTestBit (List.zipWith (· ||| ·) row (bitvalsToPacked bits (8 * n))) b
      = (rowTestBit row b || bits.contains b) := by
  have hdiv : 8 * n / 8 = n := Nat.mul_div_cancel_left n (by decide)
  have hi : b / 8 < n := by omega
  have hp : b / 8 < (bitvalsToPacked bits (8 * n)).length := by
    rw [WideMask.length_bitvalsToPacked, hdiv]; exact hi
  have hpk : rowTestBit (bitvalsToPacked bits (8 * n)) b = bits.contains b :=
    WideMask.rowTestBit_bitvalsToPacked bits (8 * n) b (by rw [hdiv]; exact hb)
  rw [WideMask.rowTestBit_zipWith (· ||| ·) (· || ·) (fun x y j => Nat.testBit_or x y j)
    row _ b (by rw [hr.1]; exact hi) hp, hpk]

/-- clear_bits: `S' = S \ bits` -/
theorem clear_bits_spec (row : List Nat) (bits : List Nat) (n b : Nat) (hr : IsRow row n) (hb : b < 8 * n) :
    rowTestBit (List.zipWith (· &&& ·) row (complBytes (bitvalsToPacked bits (8 * n)))) b
      = (rowTestBit row b && !bits.contains b) := by
  have hdiv : 8 * n / 8 = n := Nat.mul_div_cancel_left n (by decide)
  have hi : b / 8 < n := by omega
  have hp : b / 8 < (bitvalsToPacked bits (8 * n)).length := by
    rw [WideMask.length_bitvalsToPacked, hdiv]; exact hi
  have hpk : rowTestBit (bitvalsToPacked bits (8 * n)) b = bits.contains b :=
    WideMask.rowTestBit_bitvalsToPacked bits (8 * n) b (by rw [hdiv]; exact hb)
  rw [WideMask.rowTestBit_zipWith (· &&& ·) (· && ·) (fun x y j => Nat.testBit_and x y j)
    row _ b (by rw [hr.1]; exact hi) (by rw [WideMask.length_complBytes]; exact hp),
    WideMask.rowTestBit_complBytes _ b hp (WideMask.lt_of_mem_bitvalsToPacked bits (8 * n)), hpk]

/-- xor with a bit list: symmetric difference -/
theorem xor_bits_spec (row : List Nat) (bits : List Nat) (n b : Nat) (hr : IsRow row n) (hb : b < 8 * n) :
    rowTestBit (List.zipWith (· ^^^ ·) row (bitvalsToPacked bits (8 * n))) b
      = (rowTestBit row b != bits.contains b) := by
  have hdiv : 8 * n / 8 = n := Nat.mul_div_cancel_left n (by decide)
  have hi : b / 8 < n := by omega
  have hp : b / 8 < (bitvalsToPacked bits (8 * n)).length := by
    rw [WideMask.length_bitvalsToPacked, hdiv]; exact hi
  have hpk : rowTestBit (bitvalsToPacked bits (8 * n)) b = bits.contains b :=
    WideMask.rowTestBit_bitvalsToPacked bits (8 * n) b (by rw [hdiv]; exact hb)
  rw [WideMask.rowTestBit_zipWith (· ^^^ ·) (· != ·) (fun x y j => Nat.testBit_xor x y j)
    row _ b (by rw [hr.1]; exact hi) hp, hpk]

/-- and with a bit list: intersection -/
theorem and_bits_spec (row : List Nat) (bits : List Nat) (n b : Nat) (hr : IsRow row n) (hb : b < 8 * n) :
    rowTestBit (List.zipWith (· &&& ·) row (bitvalsToPacked bits (8 * n))) b
      = (rowTestBit row b && bits.contains b) := by
  have hdiv : 8 * n / 8 = n := Nat.mul_div_cancel_left n (by decide)
  have hi : b / 8 < n := by omega
  have hp : b / 8 < (bitvalsToPacked bits (8 * n)).length := by
    rw [WideMask.length_bitvalsToPacked, hdiv]; exact hi
  have hpk : rowTestBit (bitvalsToPacked bits (8 * n)) b = bits.contains b :=
    WideMask.rowTestBit_bitvalsToPacked bits (8 * n) b (by rw [hdiv]; exact hb)
  rw [WideMask.rowTestBit_zipWith (· &&& ·) (· && ·) (fun x y j => Nat.testBit_and x y j)
    row _ b (by rw [hr.1]; exact hi) hp, hpk]

/-- the bytes stay bytes under set / clear / xor (so the row invariant is preserved) -/
theorem ops_preserve_isRow (row : List Nat) (bits : List Nat) (n : Nat) (hr : IsRow row n) :
    IsRow (List.zipWith (· ||| ·) row (bitvalsToPacked bits (8 * n))) n ∧
    IsRow (List.zipWith (· &&& ·) row (complBytes (bitvalsToPacked bits (8 * n)))) n ∧
    IsRow (List.zipWith (· ^^^ ·) row (bitvalsToPacked bits (8 * n))) n := by
  have hdiv : 8 * n / 8 = n := Nat.mul_div_cancel_left n (by decide)
  have hpl : (bitvalsToPacked bits (8 * n)).length = n := by
    rw [WideMask.length_bitvalsToPacked, hdiv]
  have hpb := WideMask.lt_of_mem_bitvalsToPacked bits (8 * n)
  refine ⟨⟨?_, ?_⟩, ⟨?_, ?_⟩, ⟨?_, ?_⟩⟩
  · simp [hr.1, hpl]
  · exact WideMask.lt_of_mem_zipWith _ _ _
      (fun x y hx hy => Nat.or_lt_two_pow (n := 8) hx hy) hr.2 hpb
  · simp [hr.1, hpl, WideMask.length_complBytes]
  · exact WideMask.lt_of_mem_zipWith _ _ _
      (fun x y _ hy => Nat.and_lt_two_pow (n := 8) x hy) hr.2 (WideMask.lt_of_mem_complBytes _)
  · simp [hr.1, hpl]
  · exact WideMask.lt_of_mem_zipWith _ _ _
      (fun x y hx hy => Nat.xor_lt_two_pow (n := 8) hx hy) hr.2 hpb

/-- check_bits: true iff the pixel's set meets the bit list -/
theorem check_bits_spec (row : List Nat) (bits : List Nat) (n : Nat) (hr : IsRow row n)
    (hbits : ∀ b ∈ bits, b < 8 * n) :
    (List.zipWith (· &&& ·) row (bitvalsToPacked bits (8 * n))).any (· != 0)
      = bits.any (fun b => rowTestBit row b) := by
  have hdiv : 8 * n / 8 = n := Nat.mul_div_cancel_left n (by decide)
  have hpl : (bitvalsToPacked bits (8 * n)).length = n := by
    rw [WideMask.length_bitvalsToPacked, hdiv]
  have hlen : (List.zipWith (· &&& ·) row (bitvalsToPacked bits (8 * n))).length = n := by
    simp [hr.1, hpl]
  have hlt := WideMask.lt_of_mem_zipWith (· &&& ·) row (bitvalsToPacked bits (8 * n))
      (fun x y _ hy => Nat.and_lt_two_pow (n := 8) x hy) hr.2
      (WideMask.lt_of_mem_bitvalsToPacked bits (8 * n))
  rw [WideMask.any_ne_zero_eq _ hlt, hlen, Bool.eq_iff_iff]
  simp only [List.any_eq_true, List.mem_range]
  constructor
  · rintro ⟨b, hb, h⟩
    rw [and_bits_spec row bits n b hr hb] at h
    simp only [Bool.and_eq_true] at h
    exact ⟨b, by simpa using h.2, h.1⟩
  · rintro ⟨b, hb, h⟩
    refine ⟨b, hbits b hb, ?_⟩
    rw [and_bits_spec row bits n b hr (hbits b hb)]
    simp [h, hb]

/-- a pixel is valid iff its set is non-empty -/
theorem valid_iff_nonempty (row : List Nat) (n : Nat) (hr : IsRow row n) :
    row.any (· != 0) = (List.range (8 * n)).any (fun b => rowTestBit row b) := by
  have h := WideMask.any_ne_zero_eq row hr.2
  rw [hr.1] at h
  exact h

/-- **bit positions at or above the width are rejected** by set_bits_pix / clear_bits_pix,
    whatever the pixels — and a rejected call returns no new map, so the map is unchanged. -/
theorem reject_big_bit (m : MapObj) (pix : List Nat) (bits : List Nat) (clear : Bool)
    (h : ∃ b ∈ bits, b ≥ m.maxbits) (r : MapObj) : apiSetBits m pix bits clear ≠ .ok r := by
  exact apiSetBits_rejects_big m pix bits clear h r

/-- the same for bit-list operators (`m |= [bits]` …) -/
theorem reject_big_bit_operator (m : MapObj) (op : String) (bits : List Nat)
    (h : ∃ b ∈ bits, b ≥ m.maxbits) (r : State Val) : apiScalarOp m op (.bits bits) ≠ .ok r := by
  exact apiScalarOp_rejects_big m op bits h r

/-- non-vacuity / byte-boundary witnesses -/
example : bitvalsToPacked [0, 7, 8, 16] 24 = [129, 1, 1] := by decide
example : IsRow [129, 1, 1] 3 := by unfold IsRow; decide

open ApiBits ApiRanges

/-! ## Wide masks as bit sets at the API level

`hasBit v b` (Lemmas/ApiBits.lean): bit `b` of a byte-row cell `v` — byte `b / 8`, bit `b % 8`.
`WideMap m n`: `m` is well formed, of kind `wide n` (so `maxbits = 8 n`), with zero sentinel,
owns its storage, and every pixel reads as a row of `n` bytes.  `make_empty` establishes it,
the bit API and the bit-list operators preserve it; `MapObj.Ok` alone does NOT give it (see
the counterexamples at the end). -/

theorem isRowVal_isRow {n : Nat} {row : List Nat} : isRowVal n (.bytes row) = true ↔ IsRow row n := by
  rw [isRowVal_iff]
  exact ⟨fun ⟨r, hr, h1, h2⟩ => by cases hr; exact ⟨h1, h2⟩, fun h => ⟨row, rfl, h.1, h.2⟩⟩

/-- (6) **bytes**: bit `b` of a row lives in byte `b / 8`, at bit `b % 8` of that byte -/
theorem hasBit_bytes (row : List Nat) (b : Nat) :
    hasBit (.bytes row) b = (row.getD (b / 8) 0).testBit (b % 8) := rfl

/-- (6) the packed form of a bit list has exactly the listed bits (`pack_testBit`) -/
theorem hasBit_packed (bits : List Nat) (n b : Nat) (hb : b < 8 * n) :
    hasBit (.bytes (bitvalsToPacked bits (8 * n))) b = bits.contains b :=
  pack_testBit bits (8 * n) b (by rw [Nat.mul_div_cancel_left n (by decide)]; exact hb)

/-- a row of `n` bytes has no bit at or above `8 n` -/
theorem hasBit_big {n : Nat} {v : Val} (hv : isRowVal n v = true) {b : Nat} (hb : 8 * n ≤ b) :
    hasBit v b = false := by
  obtain ⟨row, rfl, hl, _⟩ := isRowVal_iff.1 hv
  show (row.getD (b / 8) 0).testBit (b % 8) = false
  have : row.length ≤ b / 8 := by omega
  rw [List.getD_eq_getElem?_getD, List.getElem?_eq_none this]
  simp

theorem contains_big {bits : List Nat} {n b : Nat} (hbits : ∀ x ∈ bits, x < 8 * n) (hb : 8 * n ≤ b) :
    bits.contains b = false := by
  rw [Bool.eq_false_iff]
  intro h
  have := hbits b (by simpa using h)
  omega

/-- the four cell operations of the bit API on a row of `n` bytes, bit by bit -/
theorem cell_ops {n : Nat} {x : Val} (hx : isRowVal n x = true) (bits : List Nat)
    (hbits : ∀ b ∈ bits, b < 8 * n) (dt : DT) :
    (isRowVal n (Val.or dt x (.bytes (bitvalsToPacked bits (8 * n)))) = true ∧
      ∀ b, hasBit (Val.or dt x (.bytes (bitvalsToPacked bits (8 * n)))) b
        = (hasBit x b || bits.contains b)) ∧
    (isRowVal n (Val.and dt x (.bytes (complBytes (bitvalsToPacked bits (8 * n))))) = true ∧
      ∀ b, hasBit (Val.and dt x (.bytes (complBytes (bitvalsToPacked bits (8 * n))))) b
        = (hasBit x b && !bits.contains b)) ∧
    (isRowVal n (Val.and dt x (.bytes (bitvalsToPacked bits (8 * n)))) = true ∧
      ∀ b, hasBit (Val.and dt x (.bytes (bitvalsToPacked bits (8 * n)))) b
        = (hasBit x b && bits.contains b)) ∧
    (isRowVal n (Val.xor dt x (.bytes (bitvalsToPacked bits (8 * n)))) = true ∧
      ∀ b, hasBit (Val.xor dt x (.bytes (bitvalsToPacked bits (8 * n)))) b
        = (hasBit x b != bits.contains b)) := by
  obtain ⟨row, rfl, hl, hlt⟩ := isRowVal_iff.1 hx
  have hr : IsRow row n := ⟨hl, hlt⟩
  obtain ⟨p1, p2, p3⟩ := ops_preserve_isRow row bits n hr
  have p4 : IsRow (List.zipWith (· &&& ·) row (bitvalsToPacked bits (8 * n))) n := by
    refine ⟨by simp [hl, length_packed], ?_⟩
    exact WideMask.lt_of_mem_zipWith _ _ _
      (fun x y _ hy => Nat.and_lt_two_pow (n := 8) x hy) hlt
      (WideMask.lt_of_mem_bitvalsToPacked bits (8 * n))
  have big : ∀ {r : List Nat}, IsRow r n → ∀ b, 8 * n ≤ b → hasBit (.bytes r) b = false :=
    fun hr' b hb => hasBit_big (isRowVal_isRow.2 hr') hb
  refine ⟨⟨isRowVal_isRow.2 p1, fun b => ?_⟩, ⟨isRowVal_isRow.2 p2, fun b => ?_⟩,
    ⟨isRowVal_isRow.2 p4, fun b => ?_⟩, ⟨isRowVal_isRow.2 p3, fun b => ?_⟩⟩
  all_goals
    by_cases hb : b < 8 * n
    case neg =>
      have hb' : 8 * n ≤ b := Nat.le_of_not_lt hb
      rw [big hr b hb', contains_big hbits hb']
      first
        | exact big p1 b hb'
        | exact big p2 b hb'
        | exact big p4 b hb'
        | exact big p3 b hb'
  · exact set_bits_spec row bits n b hr hb
  · exact clear_bits_spec row bits n b hr hb
  · exact and_bits_spec row bits n b hr hb
  · exact xor_bits_spec row bits n b hr hb

variable {m : MapObj} {n : Nat}

theorem bits_lt_of_not_any {bits : List Nat} {k : Nat}
    (h : ¬ (bits.any fun x => decide (x ≥ k)) = true) : ∀ b ∈ bits, b < k :=
  WFApi.lt_of_not_any_ge h

/-- (5) **validity = non-empty set**: a row of `n` bytes is valid iff some bit position below
    `8 n` is set -/
theorem valid_iff_hasBit (hm : WideMap m n) {v : Val} (hv : isRowVal n v = true) :
    m.vc.valid v = (List.range (8 * n)).any (fun b => hasBit v b) := by
  obtain ⟨row, rfl, hl, hlt⟩ := isRowVal_iff.1 hv
  unfold MapObj.vc
  rw [hm.kind]
  exact valid_iff_nonempty row n ⟨hl, hlt⟩

theorem valid_iff_exists (hm : WideMap m n) {v : Val} (hv : isRowVal n v = true) :
    m.vc.valid v = true ↔ ∃ b, hasBit v b = true := by
  rw [valid_iff_hasBit hm hv, List.any_eq_true]
  constructor
  · rintro ⟨b, _, h⟩; exact ⟨b, h⟩
  · rintro ⟨b, h⟩
    refine ⟨b, List.mem_range.2 ?_, h⟩
    apply Nat.lt_of_not_le
    intro hb
    rw [hasBit_big hv hb] at h
    cases h

/-- (5) `n_valid` (computed) counts the pixels with a non-empty set -/
theorem nValid_counts_nonempty (hm : WideMap m n) :
    nValid m.vc m.st
      = ((List.range m.npix).filter fun p =>
          (List.range (8 * n)).any fun b => hasBit (m.abs p) b).length := by
  rw [C02.nValid_eq m.c m.vc m.st hm.wf.2 (MapObj.blankInvalid_of_wide hm.kind)]
  unfold C02.validSet
  congr 1
  apply List.filter_congr
  intro p hp
  exact valid_iff_hasBit hm (hm.rows p (List.mem_range.1 hp))

/-- an uncovered pixel holds the empty set -/
theorem uncovered_empty (hm : WideMap m n) {p : Nat} (hp : p < m.npix)
    (hc : covered m.c m.st (p >>> m.c.shift) = false) (b : Nat) : hasBit (m.abs p) b = false := by
  have : m.abs p = m.vc.sentinel := hm.wf.2.abs_uncovered hp hc
  rw [this, blank_wide hm.kind]
  exact hasBit_blank n b

/-- `make_empty` of a wide-mask kind gives a `WideMap` in which every set is empty -/
theorem wideMap_makeEmpty {co so : Nat} {sentinel : Option Val} {P : List Nat}
    (h : apiMakeEmpty co so (.wide n) sentinel P = .ok m) :
    WideMap m n ∧ ∀ p, p < m.npix → ∀ b, hasBit (m.abs p) b = false := by
  have hwf := WF.apiMakeEmpty h
  obtain ⟨_, h1, h2, h3, h4, hlt, _, hv⟩ := WFApi.apiMakeEmpty_ok h
  have hs : m.sent = .num 0 0 := by
    unfold apiMakeEmpty at h
    simp only [bind, Except.bind, pure, Except.pure, throw, throwThe, MonadExceptOf.throw] at h
    repeat' xpeel h
    all_goals (cases h; rfl)
  have habs : ∀ p, p < m.npix → m.abs p = .bytes (List.replicate n 0) := by
    intro p hp
    show abs m.c m.vc m.st p = _
    have hc : m.c = cfgOf co so := by unfold MapObj.c; rw [h1, h2]
    have hvc : m.vc = ⟨(Kind.wide n).blank m.sent, (Kind.wide n).valid m.sent⟩ := by
      unfold MapObj.vc; rw [h3]
    rw [h4, hc, hvc]
    exact makeEmpty_abs' _ _ _ p
  refine ⟨⟨hwf, h3, by rw [hs]; rfl, hv, fun p hp => by rw [habs p hp]; exact isRowVal_blank n⟩,
    fun p hp b => by rw [habs p hp]; exact hasBit_blank n b⟩

/-- **(1) `set_bits_pix` / `clear_bits_pix`, what they compute.**  On success the result is
    again a `WideMap` with the same configuration; for every pixel and every bit position:
    an addressed pixel's set becomes `S ∪ bits` (set) resp. `S \ bits` (clear), every other
    pixel keeps its cell; repeated pixels and repeated bits are harmless; the coverage grows
    by exactly the coverage pixels of the addressed pixels — in BOTH modes (clearing bits of a
    pixel outside the coverage allocates its coverage pixel; the pixel stays empty). -/
theorem api_set_bits {m' : MapObj} {pix bits : List Nat} {clear : Bool} (hm : WideMap m n)
    (h : apiSetBits m pix bits clear = .ok m') :
    WideMap m' n ∧ m'.covord = m.covord ∧ m'.spord = m.spord ∧ m'.cache = none ∧
    (∀ p, p < m.npix → ∀ b, hasBit (m'.abs p) b =
      if p ∈ pix then
        (if clear then (hasBit (m.abs p) b && !bits.contains b)
         else (hasBit (m.abs p) b || bits.contains b))
      else hasBit (m.abs p) b) ∧
    (∀ p, p < m.npix → p ∉ pix → m'.abs p = m.abs p) ∧
    (∀ k, k < m.c.ncov → covered m.c m'.st k
        = (covered m.c m.st k || pix.any fun q => q >>> m.c.shift == k)) := by
  rw [apiSetBits_wide hm.kind hm.sent hm.view] at h
  replace h := (WFApi.guard_ok h).2
  have hb := bits_lt_of_not_any (WFApi.guard_ok h).1
  replace h := (WFApi.guard_ok h).2
  have hlt := bits_lt_of_not_any (WFApi.guard_ok h).1
  replace h := (WFApi.guard_ok h).2
  cases h
  obtain ⟨hinv, hcov, habs⟩ := setSt_spec hm.wf n bits clear hlt
  have hidem : ∀ (b : Nat) (y : Bool),
      (fun b y => if clear then (y && !bits.contains b) else (y || bits.contains b)) b
        ((fun b y => if clear then (y && !bits.contains b) else (y || bits.contains b)) b y)
      = (fun b y => if clear then (y && !bits.contains b) else (y || bits.contains b)) b y := by
    intro b y
    simp only []
    generalize bits.contains b = c
    cases clear <;> cases y <;> cases c <;> rfl
  have hg : ∀ x, isRowVal n x = true → isRowVal n (bitsCell m n bits clear x) = true ∧
      ∀ b, hasBit (bitsCell m n bits clear x) b
        = (fun b y => if clear then (y && !bits.contains b) else (y || bits.contains b)) b
            (hasBit x b) := by
    intro x hx
    obtain ⟨c1, c2, _, _⟩ := cell_ops hx bits hb m.kind.dt
    unfold bitsCell bitsValue
    cases clear with
    | true => exact c2
    | false => exact c1
  have hfold := fun p (hp : p < m.npix) =>
    denseFold_idem (I := fun x => isRowVal n x = true)
      (F := fun b y => if clear then (y && !bits.contains b) else (y || bits.contains b))
      (bitsCell m n bits clear) hidem hg pix p
      (m.abs p) (hm.rows p hp)
  refine ⟨⟨⟨hm.wf.1, hinv⟩, hm.kind, hm.sent, hm.view, fun p hp => ?_⟩, rfl, rfl, rfl,
    fun p hp b => ?_, fun p hp hnp => ?_, hcov⟩
  · show isRowVal n (abs m.c m.vc (setSt m n pix bits clear) p) = true
    rw [habs p hp]
    exact (hfold p hp).1
  · show hasBit (abs m.c m.vc (setSt m n pix bits clear) p) b = _
    rw [habs p hp, (hfold p hp).2 b]
  · show abs m.c m.vc (setSt m n pix bits clear) p = _
    rw [habs p hp]
    apply denseFold_not_mem
    intro qw hq hqp
    obtain ⟨q, hq', rfl⟩ := List.mem_map.1 hq
    exact hnp (hqp ▸ hq')

/-- (1) a pixel is valid after set / clear iff its new set is non-empty: a pixel whose last bit
    is cleared becomes INVALID, setting a bit makes any addressed pixel valid -/
theorem api_set_bits_valid {m' : MapObj} {pix bits : List Nat} {clear : Bool} (hm : WideMap m n)
    (h : apiSetBits m pix bits clear = .ok m') (p : Nat) (hp : p < m.npix) :
    (m'.vc.valid (m'.abs p) = true ↔
      ∃ b, (if p ∈ pix then
              (if clear then (hasBit (m.abs p) b && !bits.contains b)
               else (hasBit (m.abs p) b || bits.contains b))
            else hasBit (m.abs p) b) = true) := by
  obtain ⟨hm', h1, h2, _, hbit, _, _⟩ := api_set_bits hm h
  have hnp : m'.npix = m.npix := by unfold MapObj.npix MapObj.c; rw [h1, h2]
  rw [valid_iff_exists hm' (hm'.rows p (by rw [hnp]; exact hp))]
  constructor
  · rintro ⟨b, hb⟩; exact ⟨b, by rw [← hbit p hp b]; exact hb⟩
  · rintro ⟨b, hb⟩; exact ⟨b, by rw [hbit p hp b]; exact hb⟩

/-- **(2) `check_bits_pix`.**  On success there is one answer per listed pixel, in order, and
    it is `true` iff the pixel's set meets the bit list (an empty bit list is accepted and
    answers `false` everywhere); an uncovered pixel answers `false`. -/
theorem api_check_bits {pix bits : List Nat} {l : List Bool} (hm : WideMap m n)
    (h : apiCheckBits m pix bits = .ok l) :
    (∀ p ∈ pix, p < m.npix) ∧ (∀ b ∈ bits, b < 8 * n) ∧
    l = pix.map fun p => bits.any fun b => hasBit (m.abs p) b := by
  rw [apiCheckBits_wide hm.kind] at h
  have hlt := bits_lt_of_not_any (WFApi.guard_ok h).1
  replace h := (WFApi.guard_ok h).2
  have hb := bits_lt_of_not_any (WFApi.guard_ok h).1
  replace h := (WFApi.guard_ok h).2
  cases h
  refine ⟨hlt, hb, ?_⟩
  apply List.map_congr_left
  intro p hp
  obtain ⟨row, hrow, hl, hrl⟩ := isRowVal_iff.1 (hm.rows p (hlt p hp))
  rw [hrow]
  exact check_bits_spec row bits n ⟨hl, hrl⟩ hb

theorem api_check_bits_get {pix bits : List Nat} {l : List Bool} (hm : WideMap m n)
    (h : apiCheckBits m pix bits = .ok l) (i : Nat) (hi : i < pix.length) :
    l.getD i false = true ↔ ∃ b ∈ bits, hasBit (m.abs (pix.getD i 0)) b = true := by
  obtain ⟨_, _, rfl⟩ := api_check_bits hm h
  rw [List.getD_eq_getElem?_getD, List.getElem?_map, List.getElem?_eq_getElem hi,
    List.getD_eq_getElem?_getD, List.getElem?_eq_getElem hi]
  simp only [Option.map_some, Option.getD_some, List.any_eq_true]

/-- **(3) errors of `set_bits_pix` / `clear_bits_pix`**, exactly: ValueError iff the bit list is
    empty or names a position at or above `maxbits = 8 n` (whatever the pixels); otherwise
    IndexError iff a pixel is outside the sphere; nothing else.  (NotImplementedError on a map
    that is not a wide mask: `api_set_bits_not_wide`.) -/
theorem api_set_bits_error {pix bits : List Nat} {clear : Bool} (hm : WideMap m n) (e : Err) :
    apiSetBits m pix bits clear = .error e ↔
      (e = .value ∧ (bits = [] ∨ ∃ b ∈ bits, 8 * n ≤ b)) ∨
      (e = .index ∧ bits ≠ [] ∧ (∀ b ∈ bits, b < 8 * n) ∧ ∃ p ∈ pix, m.npix ≤ p) := by
  rw [apiSetBits_wide hm.kind hm.sent hm.view]
  by_cases h1 : bits = []
  · have hE : bits.isEmpty = true := by rw [h1]; rfl
    rw [if_pos hE]
    constructor
    · intro h; cases h; exact Or.inl ⟨rfl, Or.inl h1⟩
    · rintro (⟨rfl, _⟩ | ⟨_, hne, _⟩)
      · rfl
      · exact absurd h1 hne
  · have he : bits.isEmpty = false := by simpa using h1
    simp only [he, Bool.false_eq_true, if_false]
    by_cases h2 : (bits.any fun x => decide (x ≥ 8 * n)) = true
    · simp only [h2, if_true]
      obtain ⟨b, hb, hge⟩ := List.any_eq_true.1 h2
      have hge' : 8 * n ≤ b := by simpa using hge
      constructor
      · intro h; cases h; exact Or.inl ⟨rfl, Or.inr ⟨b, hb, hge'⟩⟩
      · rintro (⟨rfl, _⟩ | ⟨_, _, hall, _⟩)
        · rfl
        · have := hall b hb; omega
    · simp only [h2, Bool.false_eq_true, if_false]
      have hall := bits_lt_of_not_any h2
      by_cases h3 : (pix.any fun x => decide (x ≥ m.npix)) = true
      · simp only [h3, if_true]
        obtain ⟨p, hp, hge⟩ := List.any_eq_true.1 h3
        have hge' : m.npix ≤ p := by simpa using hge
        constructor
        · intro h; cases h; exact Or.inr ⟨rfl, h1, hall, p, hp, hge'⟩
        · rintro (⟨rfl, hx | ⟨b, hb, hge⟩⟩ | ⟨rfl, _⟩)
          · exact absurd hx h1
          · have := hall b hb; omega
          · rfl
      · simp only [h3, Bool.false_eq_true, if_false]
        have hpl := bits_lt_of_not_any h3
        constructor
        · intro h; cases h
        · rintro (⟨_, hx | ⟨b, hb, hge⟩⟩ | ⟨_, _, _, p, hp, hge⟩)
          · exact absurd hx h1
          · have := hall b hb; omega
          · have := hpl p hp; omega

/-- (3) on a map that is not a wide mask the bit API raises: NotImplementedError (set / clear
    and the bit-list operators), TypeError (check) -/
theorem api_bits_not_wide (hk : ∀ n, m.kind ≠ .wide n) (pix bits : List Nat) (clear : Bool)
    (op : String) :
    apiSetBits m pix bits clear = .error .notImpl ∧ apiCheckBits m pix bits = .error .type ∧
    apiScalarOp m op (.bits bits) = .error .notImpl :=
  ⟨apiSetBits_not_wide hk pix bits clear, apiCheckBits_not_wide hk pix bits,
    apiScalarOp_bits_not_wide hk op bits⟩

/-- (3) errors of `check_bits_pix` on a wide mask: IndexError iff a pixel is outside the sphere
    or a bit position is at or above `maxbits`; nothing else (an empty bit list is fine) -/
theorem api_check_bits_error {pix bits : List Nat} (hk : m.kind = .wide n) (e : Err) :
    apiCheckBits m pix bits = .error e ↔
      e = .index ∧ ((∃ p ∈ pix, m.npix ≤ p) ∨ ∃ b ∈ bits, 8 * n ≤ b) := by
  rw [apiCheckBits_wide hk]
  by_cases h1 : (pix.any fun x => decide (x ≥ m.npix)) = true
  · simp only [h1, if_true]
    obtain ⟨p, hp, hge⟩ := List.any_eq_true.1 h1
    exact ⟨fun h => by cases h; exact ⟨rfl, Or.inl ⟨p, hp, by simpa using hge⟩⟩,
      fun ⟨h, _⟩ => by rw [h]⟩
  · simp only [h1, Bool.false_eq_true, if_false]
    have hpl := bits_lt_of_not_any h1
    by_cases h2 : (bits.any fun x => decide (x ≥ 8 * n)) = true
    · simp only [h2, if_true]
      obtain ⟨b, hb, hge⟩ := List.any_eq_true.1 h2
      exact ⟨fun h => by cases h; exact ⟨rfl, Or.inr ⟨b, hb, by simpa using hge⟩⟩,
        fun ⟨h, _⟩ => by rw [h]⟩
    · simp only [h2, Bool.false_eq_true, if_false]
      have hall := bits_lt_of_not_any h2
      constructor
      · intro h; cases h
      · rintro ⟨_, ⟨p, hp, hge⟩ | ⟨b, hb, hge⟩⟩
        · have := hpl p hp; omega
        · have := hall b hb; omega

/-- (3) errors of a bit-list operator on a wide mask: NotImplementedError iff the operator is
    not `and` / `or` / `xor`; otherwise ValueError iff the list is empty or names a position at
    or above `maxbits`; nothing else -/
theorem api_bits_operator_error (hk : m.kind = .wide n) (op : String) (l : List Nat) (e : Err) :
    apiScalarOp m op (.bits l) = .error e ↔
      (e = .notImpl ∧ intOnlyOp op = false) ∨
      (e = .value ∧ intOnlyOp op = true ∧ (l = [] ∨ ∃ b ∈ l, 8 * n ≤ b)) := by
  rw [apiScalarOp_bits_wide hk]
  by_cases h0 : intOnlyOp op = true
  · have h0' : ¬ (!intOnlyOp op) = true := by rw [h0]; decide
    rw [if_neg h0']
    by_cases h1 : l = []
    · have hE : l.isEmpty = true := by rw [h1]; rfl
      rw [if_pos hE]
      constructor
      · intro h; cases h; exact Or.inr ⟨rfl, h0, Or.inl h1⟩
      · rintro (⟨_, hx⟩ | ⟨rfl, _⟩)
        · rw [h0] at hx; cases hx
        · rfl
    · have he : ¬ l.isEmpty = true := by simpa using h1
      rw [if_neg he]
      by_cases h2 : (l.any fun x => decide (x ≥ 8 * n)) = true
      · rw [if_pos h2]
        obtain ⟨b, hb, hge⟩ := List.any_eq_true.1 h2
        constructor
        · intro h; cases h; exact Or.inr ⟨rfl, h0, Or.inr ⟨b, hb, by simpa using hge⟩⟩
        · rintro (⟨_, hx⟩ | ⟨rfl, _⟩)
          · rw [h0] at hx; cases hx
          · rfl
      · rw [if_neg h2]
        have hall := bits_lt_of_not_any h2
        constructor
        · intro h; cases h
        · rintro (⟨_, hx⟩ | ⟨_, _, hx | ⟨b, hb, hge⟩⟩)
          · rw [h0] at hx; cases hx
          · exact absurd hx h1
          · have := hall b hb; omega
  · have h0f : intOnlyOp op = false := by simpa using h0
    have h0' : (!intOnlyOp op) = true := by rw [h0f]; rfl
    rw [if_pos h0']
    constructor
    · intro h; cases h; exact Or.inl ⟨rfl, h0f⟩
    · rintro (⟨rfl, _⟩ | ⟨_, hx, _⟩)
      · rfl
      · exact absurd hx h0

/-- the bitwise meaning of an operator name: intersection, union, symmetric difference -/
def opBool (op : String) (y c : Bool) : Bool :=
  match op with
  | "and" => y && c
  | "or"  => y || c
  | _     => y != c

theorem bitsOpCell_spec {x : Val} (hx : isRowVal n x = true) (op : String) (l : List Nat)
    (hl : ∀ b ∈ l, b < 8 * n) :
    isRowVal n (bitsOpCell op n l x) = true ∧
    ∀ b, hasBit (bitsOpCell op n l x) b = opBool op (hasBit x b) (l.contains b) := by
  obtain ⟨c1, _, c3, c4⟩ := cell_ops hx l hl (.int 8 false)
  unfold bitsOpCell opBool
  split
  · exact c3
  · exact c1
  · rename_i h1 h2
    refine ⟨c4.1, fun b => ?_⟩
    rw [c4.2 b]
    split
    · exact absurd rfl h1
    · exact absurd rfl h2
    · rfl

/-- **(4) operators with a bit list** (`m & [bits]`, `m | [bits]`, `m ^ [bits]`, in place or
    not).  On success the map with the new storage is again a `WideMap`; every VALID pixel's
    set becomes `S ∩ l` / `S ∪ l` / `S △ l`; an invalid pixel (empty set) keeps its cell —
    also under `or`: the operators act where the map is valid, they never create pixels; a
    result with no bit left is invalid (`valid_iff_exists`). -/
theorem api_bits_operator {op : String} {l : List Nat} {st : State Val} (hm : WideMap m n)
    (h : apiScalarOp m op (.bits l) = .ok st) (x : Option Nat) :
    WideMap { m with st := st, cache := x } n ∧
    (op = "and" ∨ op = "or" ∨ op = "xor") ∧
    (∀ p, p < m.npix → ∀ b, hasBit (({ m with st := st, cache := x } : MapObj).abs p) b =
      if m.vc.valid (m.abs p) = true then opBool op (hasBit (m.abs p) b) (l.contains b)
      else hasBit (m.abs p) b) ∧
    (∀ p, p < m.npix → m.vc.valid (m.abs p) = false →
      ({ m with st := st, cache := x } : MapObj).abs p = m.abs p ∧ ∀ b, hasBit (m.abs p) b = false) ∧
    (∀ k, covered m.c st k = covered m.c m.st k) := by
  rw [apiScalarOp_bits_wide hm.kind] at h
  have hop := (WFApi.guard_ok h).1
  replace h := (WFApi.guard_ok h).2
  replace h := (WFApi.guard_ok h).2
  have hl := bits_lt_of_not_any (WFApi.guard_ok h).1
  replace h := (WFApi.guard_ok h).2
  cases h
  have hopn : op = "and" ∨ op = "or" ∨ op = "xor" := by
    have : intOnlyOp op = true := by simpa using hop
    unfold intOnlyOp at this
    simp only [Bool.or_eq_true, beq_iff_eq] at this
    rcases this with (h | h) | h
    · exact Or.inl h
    · exact Or.inr (Or.inl h)
    · exact Or.inr (Or.inr h)
  have habs : ∀ p, p < m.npix →
      ({ m with st := scalarOp m.vc m.st (bitsOpCell op n l), cache := x } : MapObj).abs p
        = if m.vc.valid (m.abs p) = true then bitsOpCell op n l (m.abs p) else m.abs p :=
    fun p hp => scalarOp_abs hm.wf _ p hp
  have hinv := WFApi.inv_scalarOp m.c m.vc m.st (bitsOpCell op n l) hm.wf.2
    (MapObj.blankInvalid_of_wide hm.kind)
  refine ⟨⟨⟨hm.wf.1, hinv⟩, hm.kind, hm.sent, hm.view, fun p hp => ?_⟩, hopn,
    fun p hp b => ?_, fun p hp hv => ?_, fun k => rfl⟩
  · rw [habs p hp]
    split
    · exact (bitsOpCell_spec (hm.rows p hp) op l hl).1
    · exact hm.rows p hp
  · rw [habs p hp]
    split
    · exact (bitsOpCell_spec (hm.rows p hp) op l hl).2 b
    · rfl
  · refine ⟨by rw [habs p hp, hv]; rfl, fun b => ?_⟩
    cases hb : hasBit (m.abs p) b with
    | false => rfl
    | true =>
      have := (valid_iff_exists hm (hm.rows p hp)).2 ⟨b, hb⟩
      rw [hv] at this
      cases this

/-! ## The driver: rejected bit calls -/

/-- **oversized bit positions (and every other rejected `bits` call) leave the world
    untouched**: whatever `set_bits_pix` / `clear_bits_pix` answer other than `ok`, the driver
    returns the very world it was given (`World` equality: every map, cache, file) -/
theorem bits_rejected_world_unchanged (w : World) (a : Args) (hne : (opBits w a).2 ≠ "ok") :
    (opBits w a).1 = w := opBits_not_ok w a hne

/-- `check_bits_pix` is a pure query -/
theorem chk_world_unchanged (w : World) (a : Args) : (opChk w a).1 = w := opChk_world w a

/-- a rejected operator call (`sop`, e.g. `m |= [bits]` with an oversized position) in a world
    reachable by any protocol history: every name still resolves to a map with the same
    configuration, kind, sentinel, arrays and view flag (at most an `n_valid` cache is reset) -/
theorem sop_rejected_stores_nothing (lines : List String) (a : Args)
    (hne : (opSop (runLines lines) a).2 ≠ "ok") (x : String) :
    ((opSop (runLines lines) a).1.get? x).map forgetCache
      = ((runLines lines).get? x).map forgetCache :=
  opSop_not_ok (Good.runLines lines) a hne x

/-! ## Non-vacuity and the places where the set reading fails -/

open WFApi (okAnd)

def errIs {α : Type} (e : Err) : Except Err α → Bool
  | .error e' => e' == e
  | .ok _ => false

/-- the set of a cell, as a list (for the examples) -/
def bitsOf (n : Nat) (v : Val) : List Nat := (List.range (8 * n)).filter fun b => hasBit v b

theorem mem_bitsOf {n : Nat} {v : Val} {b : Nat} : b ∈ bitsOf n v ↔ b < 8 * n ∧ hasBit v b = true := by
  unfold bitsOf
  rw [List.mem_filter, List.mem_range]

/-- a 2-byte wide mask (`maxbits` 10 requested, 16 effective; 12 coverage pixels × 4 cells) with
    bits {1, 9} set at pixels 0 and 5 -/
def exWide : Except Err MapObj := do
  let m ← apiMakeEmpty 0 1 (.wide 2) none []
  apiSetBits m [0, 5] [1, 9] false

/-- `exWide` is a `WideMap`; set with repeated pixels and repeated bits (set semantics), across
    the byte boundary; other pixels untouched; coverage grows by the addressed coverage pixel -/
example : okAnd exWide (fun m =>
    decide (WideMap m 2) && decide m.Ok && bitsOf 2 (m.abs 0) == [1, 9] &&
    okAnd (apiSetBits m [3, 3, 0, 3, 21] [2, 2, 7, 8, 15] false) fun m' =>
      decide (WideMap m' 2) && bitsOf 2 (m'.abs 3) == [2, 7, 8, 15] &&
      bitsOf 2 (m'.abs 0) == [1, 2, 7, 8, 9, 15] && m'.abs 5 == m.abs 5 && m'.abs 3 == .bytes [132, 129] &&
      covered m.c m'.st 5 && !covered m.c m.st 5 && !covered m.c m'.st 4) = true := by
  decide +kernel

/-- clear: `S \ bits`; clearing the last bit makes the pixel INVALID and `n_valid` drops;
    clearing bits of a pixel outside the coverage allocates its coverage pixel and leaves the
    pixel empty (the model mirrors `update_values_pix(…, operation='and')`) -/
example : okAnd exWide (fun m =>
    okAnd (apiSetBits m [0, 5, 20] [9, 1] true) fun m' =>
    okAnd (apiSetBits m [0] [9, 3] true) fun m'' =>
      decide (WideMap m' 2) && bitsOf 2 (m'.abs 0) == [] && !m'.vc.valid (m'.abs 0) &&
      nValid m.vc m.st == 2 && nValid m'.vc m'.st == 0 &&
      covered m.c m'.st 5 && !covered m.c m.st 5 && bitsOf 2 (m'.abs 20) == [] &&
      bitsOf 2 (m''.abs 0) == [1] && m''.vc.valid (m''.abs 0) && nValid m''.vc m''.st == 2) = true := by
  decide +kernel

/-- check: one answer per pixel, `true` iff the set meets the list; uncovered pixels and the
    empty list answer `false` -/
example : okAnd exWide (fun m =>
    okAnd (apiCheckBits m [0, 1, 5, 40, 0] [9, 4]) fun l =>
    okAnd (apiCheckBits m [0, 5] []) fun l' =>
    okAnd (apiCheckBits m [0, 5] [4, 8]) fun l'' =>
      l == [true, false, true, false, true] && l' == [false, false] && l'' == [false, false]) = true := by
  decide +kernel

/-- errors: bit position `maxbits` = 16 (ValueError for set / clear / operators whatever the
    pixels, IndexError for check), empty list, out-of-range pixel, a non-wide map; position 12
    (above the REQUESTED 10 bits, below the width) is accepted -/
example : okAnd exWide (fun m =>
    errIs .value (apiSetBits m [0] [16] false) && errIs .value (apiSetBits m [48] [3, 16] true) &&
    errIs .value (apiSetBits m [0] [] false) && errIs .index (apiSetBits m [0, 48] [3] false) &&
    errIs .index (apiCheckBits m [0] [16]) && errIs .index (apiCheckBits m [48] [1]) &&
    errIs .value (apiScalarOp m "or" (.bits [16])) && errIs .value (apiScalarOp m "xor" (.bits [])) &&
    errIs .notImpl (apiScalarOp m "add" (.bits [1])) &&
    okAnd (apiSetBits m [0] [12] false) fun m' => bitsOf 2 (m'.abs 0) == [1, 9, 12]) = true ∧
    okAnd (apiMakeEmpty 0 1 (.plain (.int 64 true)) none []) (fun m =>
    errIs .notImpl (apiSetBits m [0] [1] false) && errIs .type (apiCheckBits m [0] [1]) &&
    errIs .notImpl (apiScalarOp m "or" (.bits [1]))) = true := by
  decide +kernel

/-- operators: `S ∩ l`, `S ∪ l`, `S △ l` on the valid pixels; invalid pixels (pixel 1) stay empty
    also under `or`; a set emptied by `and` / `xor` is invalid -/
example : okAnd exWide (fun m =>
    okAnd (apiScalarOp m "or" (.bits [3, 9])) fun s₁ =>
    okAnd (apiScalarOp m "and" (.bits [9, 4])) fun s₂ =>
    okAnd (apiScalarOp m "xor" (.bits [1, 9])) fun s₃ =>
    okAnd (apiScalarOp m "xor" (.bits [1, 2])) fun s₄ =>
      let a (s : State Val) (p : Nat) := ({ m with st := s, cache := none } : MapObj).abs p
      decide (WideMap { m with st := s₁, cache := none } 2) &&
      bitsOf 2 (a s₁ 0) == [1, 3, 9] && bitsOf 2 (a s₁ 1) == [] && bitsOf 2 (a s₂ 5) == [9] &&
      bitsOf 2 (a s₃ 0) == [] && !m.vc.valid (a s₃ 0) && nValid m.vc s₃ == 0 &&
      bitsOf 2 (a s₄ 0) == [2, 9]) = true := by
  decide +kernel

/-- **the set reading needs a zero sentinel** (`WideMap.sent`; `MapObj.Ok` does not give it):
    the same arrays with sentinel 5 are `Ok`, and `set_bits_pix` raises ValueError (the `or`
    update demands `sentinel == 0`).  Not reachable through `make_empty`, which refuses a
    non-zero sentinel for a wide mask. -/
example : okAnd exWide (fun m =>
    let m5 : MapObj := { m with sent := .num 5 0 }
    decide m5.Ok && !decide (WideMap m5 2) && errIs .value (apiSetBits m5 [0] [1] false) &&
    errIs .value (apiMakeEmpty 0 1 (.wide 2) (some (.num 5 0)) [])) = true := by
  decide +kernel

/-- **the set reading needs byte cells** (`WideMap.rows`; model level only — a uint8 array
    cannot hold 256): a raw array update with a row `[256, 0]` passes the checks of the model
    (only the row LENGTH is compared); the pixel is then valid with an EMPTY set, `check` finds
    no bit in it, `n_valid` counts it.  The harness never sends such a row. -/
example : okAnd exWide (fun m =>
    okAnd (apiUpdate m "replace" [7] (some [.bytes [256, 0]]) true) fun m' =>
    okAnd (apiCheckBits m' [7] (List.range 16)) fun l =>
      decide m'.Ok && !decide (WideMap m' 2) && m'.vc.valid (m'.abs 7) && bitsOf 2 (m'.abs 7) == [] &&
      l == [false] && nValid m'.vc m'.st == 3) = true := by
  decide +kernel

/-- **`update_values_pix(…, operation='add')` with rows is not a set operation** (the model
    mirrors numpy's byte-wise `add.at`): `{0} + {0} = {1}`.  `replace` / `or` / `and` with rows
    are set operations (assignment, union, intersection). -/
example : okAnd (apiMakeEmpty 0 1 (.wide 2) none []) (fun m =>
    okAnd (apiUpdate m "replace" [2] (some [.bytes [1, 0]]) true) fun m₁ =>
    okAnd (apiUpdate m₁ "add" [2] (some [.bytes [1, 0]]) true) fun m₂ =>
    okAnd (apiUpdate m₁ "or" [2] (some [.bytes [4, 1]]) true) fun m₃ =>
      bitsOf 2 (m₁.abs 2) == [0] && bitsOf 2 (m₂.abs 2) == [1] && bitsOf 2 (m₃.abs 2) == [0, 2, 8]) = true := by
  decide +kernel

/-- protocol level (`replay`: the outputs of a history) -/
def replay (lines : List String) : List String :=
  (lines.foldl (fun (wo : World × List String) l =>
    let r := step wo.1 l; (r.1, wo.2 ++ [r.2])) ({}, [])).2

/-! set / check / clear across the byte boundary; oversized positions rejected (ValueError for
    set / clear / operators, IndexError for check) and the map unchanged afterwards; the empty
    list (rejected by set, accepted by check); clear outside the coverage allocates -/
#guard replay ["cfg w kind=wide maxbits=10 covord=0 spord=1", "bits w pix=0,5 bits=1,9", "chk w pix=0,1,5 bits=9",
    "bits w pix=0 bits=16", "bits w pix=48 bits=16 mode=clear", "chk w pix=0 bits=16", "sop w op=or bits=16 r=y",
    "bits w pix=0 bits=_", "chk w pix=0,1 bits=_", "valid w", "chk w pix=0,5 bits=1",
    "bits w pix=20 bits=1 mode=clear", "covmask w", "valid w", "nvalid w",
    "bits w pix=0 bits=1,9 mode=clear", "valid w", "nvalid w"]
  == ["ok", "ok", "101", "err ValueError", "err ValueError", "err IndexError", "err ValueError",
      "err ValueError", "00", "0,5", "11", "ok", "110001000000", "0,5", "2", "ok", "5", "1"]
/-! the model-level byte-256 row and the byte-wise `add` -/
#guard replay ["cfg w kind=wide maxbits=16 covord=0 spord=1", "upd w pix=7 val=b256.0", "valid w",
    "chk w pix=7 bits=0,1,2,3,4,5,6,7,8,9,10,11,12,13,14,15", "nvalid w",
    "upd w pix=2 val=b1.0", "upd w pix=2 val=b1.0 op=add", "chk w pix=2,2 bits=0", "chk w pix=2 bits=1"]
  == ["ok", "ok", "7", "0", "1", "ok", "ok", "00", "1"]


end C13
end HS
