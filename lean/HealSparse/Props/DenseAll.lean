/-
  The protocol against ONE coverage-aware dense reference interpreter, for all the families of
  the dense-refinement campaigns together (Lemmas/ApiDenseAll.lean):

    plain lines     `cfg` `upd` `updr` `set` `get` `vals`                  (C01.reachable_dense)
    boolean family  `bop` `inv` `pack` `covmask` `copy`                    (C11.reachable_dense_bool)
    scalar family   `sop` `mask` `astype` `copy` `valid` `nvalid` `covmap` (C12.reachable_dense_scalar)
    bit family      `bits` `chk`                                           (C13.reachable_dense_bits)
    multi-map / resolution family   `mop` `upg` `deg` `fracdet`            (C06.reachable_dense_multi)

  A dense map is a header, one value per pixel and one bit per coverage pixel (`DenseMapC`).
  HEADLINE `reachable_dense_all`: after ANY history of such lines the world of the protocol and
  the dense world agree — same names, same headers, every map reads at every pixel what the dense
  array holds, `coverage_mask` is the dense mask — and every line is answered alike
  (`reachable_dense_all_answers`, `reachable_dense_all_all_answers`).

  No side condition: `C06.reachable_dense_multi` needed `settledFrom` because the answer of a
  `mop` line (early return of `_apply_operation` on an empty combined COVERAGE, before its checks)
  and of a `deg` line (`sum` / `prod` giving 0 / 1 on covered-but-unset coarse pixels) depends on
  coverage pixels that are allocated but empty, which a value-only dense map does not show.  With
  the mask on the dense side the interpreter decides exactly as the model does, and D2's four
  counterexample pairs are answered correctly (section (3)).

  OPERATIONS OF THE PROTOCOL NOT COVERED (`lineOkAll` is false for them; the dense interpreter
  has no notion of the objects they involve):
    * record views and sub-maps: `single` (get_single, views write through to their parent —
      `World.put` on a view), `scov`;
    * files: `write`, `read`, `covread`, `fitsraw`, `dor` (degrade-on-read), `cat`;
      metadata `meta` / `getmeta`;
    * MOC: `moc`, `mocread`;
    * HEALPix import / export: `fromhp`, `genhp`, `hpxwrite`, `hpximplicit`, `hpxread`;
    * geometry: `geom`; interpolation: `interp`; random draws: `rand`;
    * inspection: `info`, `state`, `dump`, `vpsc` (valid_pixels_single_covpix);
    * housekeeping: `drop`, `reset`; the twin bit-packed interpreter (`p.*` lines);
    * `nvalid … path=str` (on a bit-packed map its answer depends on whether the `n_valid` cache
      is warm: `C12.exNvalidStrCold` / `exNvalidStrWarm` — not a function of any dense state).
  A history containing such a line is outside the theorem from that line on (a `single` view or a
  file read may bind names the dense world does not know).
-/
import HealSparse.Lemmas.ApiDenseAll
import HealSparse.Props.C06Dense
import HealSparse.Props.C11Dense
import HealSparse.Props.C12Dense
import HealSparse.Props.C13Dense
namespace HS
namespace Dense

open ApiDense ApiDenseCov ApiDenseAll

/-! ### (1) the refinement -/

/-- **the protocol refines the coverage-aware dense interpreter on histories of all five
    families** — UNCONDITIONALLY in the history: after any history whose lines are plain, or of the
    boolean, scalar, bit or multi-map / resolution family (malformed or refused lines included),
    the world the protocol reaches and the dense world agree: the same names, the same headers,
    every map reads at every pixel what the dense array holds, and its coverage mask is the dense
    mask. -/
theorem reachable_dense_all (lines : List String) (h : ∀ l ∈ lines, lineOkAll l = true) :
    RelC (runLines lines) (drunAll lines) :=
  rel_runLinesAll lines h

/-- … hence any further line of the five families is answered by the protocol as by the dense
    interpreter (errors and their kind included) -/
theorem reachable_dense_all_answer (lines : List String) (h : ∀ l ∈ lines, lineOkAll l = true)
    (q : String) (hq : lineOkAll q = true) :
    (step (runLines lines) q).2 = (dstepAll (drunAll lines) q).2 :=
  (rel_stepAll (rel_runLinesAll lines h) (Good2.runLines lines) hq).2

/-- … and every answer ALONG the history agrees too -/
theorem reachable_dense_all_answers (lines : List String) (h : ∀ l ∈ lines, lineOkAll l = true)
    (k : Nat) (hk : k < lines.length) :
    (step (runLines (lines.take k)) lines[k]).2 = (dstepAll (drunAll (lines.take k)) lines[k]).2 :=
  reachable_dense_all_answer (lines.take k) (fun l hl => h l (List.mem_of_mem_take hl)) lines[k]
    (h _ (List.getElem_mem hk))

/-- … as one equation: the list of all answers of the history is the list of answers of the dense
    interpreter (what the `#guard`s below evaluate on examples) -/
theorem reachable_dense_all_all_answers (lines : List String) (h : ∀ l ∈ lines, lineOkAll l = true) :
    answers lines = danswersAll lines :=
  answers_eq_danswersAll lines h

/-- the map-level reading: a name bound after such a history is bound on the dense side to an
    array with the same header that holds `m.abs p` at every pixel and whose mask is
    `coverage_mask` -/
theorem reachable_dense_all_map (lines : List String) (h : ∀ l ∈ lines, lineOkAll l = true)
    {n : String} {m : MapObj} (hg : (runLines lines).get? n = some m) :
    ∃ d, (drunAll lines).get? n = some d ∧ m.WF ∧ m.view = none ∧ m.covord = d.toDense.covord ∧
      m.spord = d.toDense.spord ∧ m.kind = d.toDense.kind ∧ m.sent = d.toDense.sent ∧
      (∀ p, p < m.npix → m.abs p = d.toDense.f p) ∧
      (∀ k, k < m.c.ncov → covered m.c m.st k = d.cov k) ∧ apiCovMask m = d.covMask := by
  have hm := relC_get (rel_runLinesAll lines h) n
  rw [hg] at hm
  cases hd : (drunAll lines).get? n with
  | none => rw [hd] at hm; exact hm.elim
  | some d =>
    rw [hd] at hm
    exact ⟨d, rfl, hm.corr.wf, hm.corr.view, hm.corr.covord, hm.corr.spord, hm.corr.kind,
      hm.corr.sent, hm.corr.abs, hm.cov, hm.covMask_eq⟩

/-- forgetting the masks: the value-only relation of Lemmas/ApiDense.lean holds too -/
theorem reachable_dense_all_forget (lines : List String) (h : ∀ l ∈ lines, lineOkAll l = true) :
    Rel (runLines lines) (drunAll lines).toDense :=
  (rel_runLinesAll lines h).toRel

/-- the lines covered are exactly those of the earlier campaigns taken together -/
theorem lineOkAll_iff (line : String) :
    lineOkAll line = true ↔
      ApiDenseCov.lineOk line = true ∨ ApiDenseBits.lineOk line = true ∨
        ApiDenseMulti.lineOk line = true := by
  rw [lineOkAll_eq]
  simp only [Bool.or_eq_true, or_assoc]

/-- on the plain and boolean lines the interpreter IS the one of `C11.reachable_dense_bool` -/
theorem dense_all_extends_bool {op : String} (hp : plainOp op = true ∨ ApiDenseCov.famOp op = true)
    (D : DenseWorldC) (a : Args) : dstepArgsAll D op a = dstepArgsC D op a := by
  rcases hp with hp | hp
  · exact dstepArgsAll_plain hp D a
  · exact dstepArgsAll_bool hp D a

/-- **the unified interpreter extends the earlier value-only ones**: forgetting the masks, a plain,
    scalar or bit line is the line of `C13.reachable_dense_bits`'s interpreter
    (`ApiDenseBits.dstepArgsB`, which on its plain / scalar lines is `ApiDense.dstepArgs` /
    `ApiDenseScalar.dstepArgsS`), and `upg` / `fracdet` are the lines of D2's `dstepArgsM` — same
    dense values, same answers.  (The boolean family, `mop` and `deg` have no value-only
    counterpart: `C11.exNoCov`, section (3).) -/
theorem dense_all_forget_values (D : DenseWorldC) {op : String} (a : Args) :
    ((plainOp op = true ∨ ApiDenseScalar.famOp op = true ∨ ApiDenseBits.famOp op = true) →
      (dstepArgsAll D op a).1.toDense = (ApiDenseBits.dstepArgsB D.toDense op a).1 ∧
        (dstepArgsAll D op a).2 = (ApiDenseBits.dstepArgsB D.toDense op a).2) ∧
    ((op = "upg" ∨ op = "fracdet") →
      (dstepArgsAll D op a).1.toDense = (ApiDenseMulti.dstepArgsM D.toDense op a).1 ∧
        (dstepArgsAll D op a).2 = (ApiDenseMulti.dstepArgsM D.toDense op a).2) :=
  ⟨toDense_stepArgsAll D a, toDense_stepArgsAll_res D a⟩

/-! ### (2) what the interpreter computes on the new lines

Values: as in the family campaigns (`ApiDenseScalar.dSop` / `dMask` / `dAstype`,
`ApiDenseBits.dSetBits` / `dCheckBits`, `ApiDenseMulti.dUpgrade` / `dFracdetMap` / `dResult` /
`dCoreVal` / `dDegrade`).  New here: the masks, and the two places where the mask decides a value. -/

/-- **masks of the scalar family**: `sop`, `mask`, `astype` keep the mask of their operand -/
theorem dense_scalar_mask {d d' : DenseMapC} :
    (∀ op k, dSopC d op k = .ok d' → d'.cov = d.cov) ∧
    (∀ dk mb ba, dMaskC d dk mb ba = .ok d' → d'.cov = d.cov) ∧
    (∀ dst s, dAstypeC d dst s = .ok d' → d'.cov = d.cov) := by
  refine ⟨fun op k h => ?_, fun dk mb ba h => ?_, fun dst s h => ?_⟩
  · unfold dSopC at h
    cases hr : ApiDenseScalar.dSop d.toDense op k <;> rw [hr] at h <;> cases h
    rfl
  · unfold dMaskC at h
    cases hr : ApiDenseScalar.dMask d.toDense dk mb ba <;> rw [hr] at h <;> cases h
    rfl
  · unfold dAstypeC at h
    cases hr : ApiDenseScalar.dAstype d.toDense dst s <;> rw [hr] at h <;> cases h
    rfl

/-- **mask after `bits`**: grown by the coverage pixels of the addressed pixels — also by a
    `clear` that changes no value -/
theorem dense_bits_mask {d d' : DenseMapC} {pix bits : List Nat} {clear : Bool}
    (h : dSetBitsC d pix bits clear = .ok d') (k : Nat) :
    d'.cov k = (d.cov k || pix.any fun p => p >>> d.c.shift == k) := by
  unfold dSetBitsC at h
  cases hr : ApiDenseBits.dSetBits d.toDense pix bits clear <;> rw [hr] at h <;> cases h
  rfl

/-- **masks of `upg` / `fracdet`**: the mask of the source -/
theorem dense_resolution_mask {d d' : DenseMapC} {ord : Nat} :
    (dUpgradeC d ord = .ok d' → d'.cov = d.cov) ∧ (dFracdetC d ord).cov = d.cov := by
  refine ⟨fun h => ?_, rfl⟩
  unfold dUpgradeC at h
  cases hr : ApiDenseMulti.dUpgrade d.toDense ord <;> rw [hr] at h <;> cases h
  rfl

/-- **`mop`, the early return**: with headers that pass validation and an EMPTY combined coverage
    the call succeeds whatever the cells, fillers and sentinels are — an all-blank map of the kind
    `kindE` (the first map's kind, or `dtype_out`), empty mask -/
theorem dense_mop_early {row : OpRow} {fd : DenseMapC} {rd : List DenseMapC}
    (hs : ApiMulti.structErr row (((fd :: rd).map (·.toDense)).map DenseMap.hdr) = none)
    (he : dAnyCov row fd (fd :: rd) = false) :
    dMultiC row (fd :: rd) = .ok ⟨dEmptyLike row fd.toDense, covComb row (fd :: rd)⟩ ∧
      ∀ k, k < fd.c.ncov → covComb row (fd :: rd) k = false := by
  refine ⟨?_, fun k hk => ?_⟩
  · unfold dMultiC
    rw [hs]
    simp only [he, Bool.not_false, if_true]
  · unfold dAnyCov at he
    rw [List.any_eq_false] at he
    have := he k (List.mem_range.2 hk)
    simpa using this

/-- **`mop`, the main path**: with a non-empty combined coverage the data-dependent checks of
    `ApiDenseMulti.dDataErr` decide, and an accepted call gives the folded values with the
    union / intersection mask -/
theorem dense_mop_main {row : OpRow} {fd : DenseMapC} {rd : List DenseMapC}
    (hs : ApiMulti.structErr row (((fd :: rd).map (·.toDense)).map DenseMap.hdr) = none)
    (he : dAnyCov row fd (fd :: rd) = true) :
    dMultiC row (fd :: rd) =
      match ApiDenseMulti.dDataErr row fd.toDense ((fd :: rd).map (·.toDense)) with
      | some e => .error e
      | none => .ok ⟨ApiDenseMulti.dResult row fd.toDense ((fd :: rd).map (·.toDense)),
          covComb row (fd :: rd)⟩ := by
  unfold dMultiC
  rw [hs]
  simp only [he, Bool.not_true, Bool.false_eq_true, if_false]
  cases ApiDenseMulti.dDataErr row fd.toDense ((fd :: rd).map (·.toDense)) <;> rfl

/-- the mask of every `mop` result is the union / intersection of the input masks -/
theorem dense_mop_mask {row : OpRow} {ds : List DenseMapC} {d' : DenseMapC}
    (h : dMultiC row ds = .ok d') : d'.cov = covComb row ds := by
  unfold dMultiC at h
  split at h
  · cases h
  · split at h
    · cases h
    · split at h
      · cases h; rfl
      · split at h
        · cases h
        · cases h; rfl

/-- **`deg` at or above the coverage order, per coarse pixel**: inside a covered coverage pixel
    the reduction of the children, outside the blank; the mask is kept -/
theorem dense_deg_pixel {d d' : DenseMapC} {ord : Nat} {red : String} {wd : Option DenseMap}
    (h1 : ¬ ord > d.toDense.spord) (h2 : ¬ (d.toDense.kind == .packed) = true)
    (h3 : ¬ ord < d.toDense.covord) (h4 : ¬ (ord == d.toDense.spord) = true)
    (h : dDegradeC d ord red wd = .ok d') :
    d'.cov = d.cov ∧
    (∀ q, d.cov (q >>> (2 * (ord - d.toDense.covord))) = true →
      d'.toDense.f q = ApiDenseMulti.dCoreVal d.toDense ord red wd q) ∧
    (∀ q, d.cov (q >>> (2 * (ord - d.toDense.covord))) = false →
      d'.toDense.f q = ApiDenseMulti.dCoreBlank d.toDense red wd) := by
  unfold dDegradeC at h
  rw [if_neg h1, if_neg h2, if_neg h3, if_neg h4] at h
  unfold ApiDenseMulti.dCoreG at h
  split at h
  · cases h
  · split at h
    · cases h
    · cases h
      refine ⟨rfl, fun q hq => ?_, fun q hq => ?_⟩
      · show dCoreValC d ord red wd q = _
        unfold dCoreValC
        rw [if_pos hq]
      · show dCoreValC d ord red wd q = _
        unfold dCoreValC
        rw [if_neg (by rw [hq]; exact Bool.false_ne_true)]

/-- **`sum` / `prod` on a covered coarse pixel without valid child** (float path: every map but an
    integer one under `and` / `or`): the reduction of nothing, the VALID values 0 / 1 — where an
    unallocated coverage pixel gives the blank (`dense_deg_pixel`).  This is the reading D2's
    value-only interpreter could not give (counterexample (D)). -/
theorem dense_deg_sum_prod_empty {d : DenseMap} {dt : DT} (hk : d.kind = .plain dt) (ord q : Nat)
    (hnone : ApiDenseMulti.dValidChildren d ord q = []) :
    ApiDenseMulti.dCoreVal d ord "sum" none q = .num 0 0 ∧
      ApiDenseMulti.dCoreVal d ord "prod" none q = .num 1 0 := by
  constructor
  · rw [ApiDenseMulti.dCoreVal_float hk (red := "sum") (by cases dt <;> rfl), hnone]
    exact ApiDegrade.fltOut_zero _
  · rw [ApiDenseMulti.dCoreVal_float hk (red := "prod") (by cases dt <;> rfl), hnone]
    exact ApiDegrade.fltOut_one _

/-- **mask after `deg` below the coverage order**: the map is re-housed, the coarser coverage
    pixels holding a valid pixel are the covered ones -/
theorem dense_deg_below_mask {d d' : DenseMapC} {ord : Nat} {red : String} {wd : Option DenseMap}
    (h1 : ¬ ord > d.toDense.spord) (h2 : ¬ (d.toDense.kind == .packed) = true)
    (h3 : ord < d.toDense.covord) (h : dDegradeC d ord red wd = .ok d') (k : Nat) :
    d'.cov k = (ApiDegrade.childPix d.toDense.hdr ord k).any fun p =>
      d.toDense.kind.valid d.toDense.sent (d.toDense.f p) := by
  unfold dDegradeC at h
  rw [if_neg h1, if_neg h2, if_pos h3] at h
  cases hr : ApiDenseMulti.dDegrade d.toDense ord red wd <;> rw [hr] at h <;> cases h
  rfl

/-! ### (3) D2's counterexamples, answered

`C06.cexA` … `cexD` (Props/C06Dense.lean) are pairs of histories that differ only in whether a
coverage pixel of one input is allocated (`covpix=`): identical `vals` and headers, different
answers of the `mop` / `upg` / `deg` line — FALSE instances of `C06.reachable_dense_multi` without
its side condition.  They are histories of the multi-map family, so the unconditional theorem
applies: the coverage-aware interpreter gives the protocol's answers on all eight. -/

/-- **no side condition on the multi-map / resolution family**: every history of D2's lines —
    `settledFrom` or not — is followed by the coverage-aware interpreter, world and answers -/
theorem reachable_dense_multi_unconditional (lines : List String)
    (h : ∀ l ∈ lines, ApiDenseMulti.lineOk l = true) :
    RelC (runLines lines) (drunAll lines) ∧ answers lines = danswersAll lines := by
  have h' : ∀ l ∈ lines, lineOkAll l = true := fun l hl =>
    (lineOkAll_iff l).2 (Or.inr (Or.inr (h l hl)))
  exact ⟨rel_runLinesAll lines h', answers_eq_danswersAll lines h'⟩

/-- where D2's side condition holds the two dense interpreters give the same answers -/
theorem dense_all_agrees_with_multi (lines : List String)
    (h : ∀ l ∈ lines, ApiDenseMulti.lineOk l = true)
    (hs : ApiDenseMulti.settledFrom [] lines = true) (k : Nat) (hk : k < lines.length) :
    (dstepAll (drunAll (lines.take k)) lines[k]).2 =
      (ApiDenseMulti.dstepM (ApiDenseMulti.drunM (lines.take k)) lines[k]).2 := by
  have h' : ∀ l ∈ lines, lineOkAll l = true := fun l hl =>
    (lineOkAll_iff l).2 (Or.inr (Or.inr (h l hl)))
  rw [← reachable_dense_all_answers lines h' k hk]
  exact C06.reachable_dense_multi_answers lines h hs k hk

/-- the eight histories -/
def cexAll : List (List String) :=
  [C06.cexA "_", C06.cexA "0", C06.cexB "_", C06.cexB "0", C06.cexC "_", C06.cexC "0",
   C06.cexD "_", C06.cexD "1"]

/-- **the eight counterexample histories are answered correctly**: each is a history of lines of
    the multi-map family (the hypothesis `h`, evaluated by the first `#guard` below — the kernel
    cannot run the string parser), so the protocol's world and answers are those of the
    coverage-aware interpreter -/
theorem cex_answered (ls : List String) (_ : ls ∈ cexAll)
    (h : ∀ l ∈ ls, ApiDenseMulti.lineOk l = true) :
    RelC (runLines ls) (drunAll ls) ∧ answers ls = danswersAll ls :=
  reachable_dense_multi_unconditional ls h

/-! every line of the eight is a line of the multi-map family, NONE of the eight satisfies D2's side
    condition, and on ALL of them the coverage-aware interpreter gives the protocol's answers -/
#guard cexAll.all fun ls => ls.all ApiDenseMulti.lineOk
#guard cexAll.all fun ls => ls.all lineOkAll
#guard cexAll.all fun ls => !ApiDenseMulti.settledFrom [] ls
#guard cexAll.all fun ls => answers ls == danswersAll ls
#guard cexAll.all fun ls => C06.protoAnswers ls == danswersAll ls

/-! … in particular the answers that differ inside each pair: (A) `ok` / `inexact`, (B) `ok` /
    `inexact`, (C) `upgrade` of the result refused / accepted, (D) UNSEEN / the valid 0 -/
#guard (danswersAll (C06.cexA "_")).getLast? == some "ok"
#guard (danswersAll (C06.cexA "0")).getLast? == some "inexact"
#guard (danswersAll (C06.cexB "_")).getLast? == some "ok"
#guard (danswersAll (C06.cexB "0")).getLast? == some "inexact"
#guard (danswersAll (C06.cexC "_")).getLast? == some "err NotImplementedError"
#guard (danswersAll (C06.cexC "0")).getLast? == some "ok"
#guard (danswersAll (C06.cexD "_")).getLast? ==
  some "3,-1637499999999999923489519697920,-1637499999999999923489519697920"
#guard (danswersAll (C06.cexD "1")).getLast? == some "3,0,-1637499999999999923489519697920"

/-! … while D2's value-only interpreter gives ONE answer per pair (the dense views coincide) -/
#guard C06.denseAnswers (C06.cexA "_") == C06.denseAnswers (C06.cexA "0")
#guard C06.denseAnswers (C06.cexD "_") == C06.denseAnswers (C06.cexD "1")

/-! ### (4) the example histories of the four campaigns, under the one interpreter -/

#guard C06.exHistory.all lineOkAll && answers C06.exHistory == danswersAll C06.exHistory
#guard C11.exBool.all lineOkAll && answers C11.exBool == danswersAll C11.exBool
#guard C12.exScalar.all lineOkAll && answers C12.exScalar == danswersAll C12.exScalar
#guard C13.exBits.all lineOkAll && answers C13.exBits == danswersAll C13.exBits

/-! ### (5) a history mixing all five families

Two `int64` maps at orders 0 / 2 (192 pixels, 16 per coverage pixel); `b` has coverage pixel 3
allocated but empty.  Scalar operators in place and copying; the observers; `mop` over the union
and the intersection (masks 110100000000 / 010000000000); two maps whose combined coverage is empty
(early return: `ok` although the sentinels clash — then, with `covpix=5` on both, the guard fires);
`degrade(sum)` at the coverage order (coverage pixel 3 of `b`: the valid value 0), `degrade(prod)`
of `a` at order 1; a map `e` at orders 1 / 3 degraded at its coverage order (the allocated, empty
coverage pixel 7 gives 0) and BELOW it (re-housed: the empty coverage pixel is gone); `upgrade`; `fracdet`;
`astype`; `apply_mask`; a wide mask with `bits` / `chk` / `sop … bits=`; boolean maps (`bop`, `inv`,
`pack`) fed by `fracdet` / `mop` results; refused and malformed lines. -/

def exAll : List String := [
  "cfg a kind=plain dtype=i8 covord=0 spord=2",
  "cfg b kind=plain dtype=i8 covord=0 spord=2 covpix=3",
  "upd a pix=3,20,21 vals=1,2,3",
  "updr a ranges=16:20 val=5",
  "upd b pix=20,22 vals=10,20",
  "covmask a",
  "covmask b",
  "sop a op=add k=1 r=a1",
  "sop a op=mul k=2 inplace=1",
  "get a pix=3,16,19,20,21,22",
  "valid a",
  "nvalid a",
  "nvalid a",
  "covmap a",
  "mop maps=a,b name=sum_union r=u",
  "covmask u",
  "get u pix=3,16,20,21,22,50",
  "mop maps=a,b name=sum_intersection r=i",
  "covmask i",
  "get i pix=3,16,20,21,22",
  "cfg e1 kind=plain dtype=i8 covord=0 spord=2 sentinel=-5",
  "cfg e2 kind=plain dtype=i8 covord=0 spord=2",
  "upd e2 pix=100 val=-5",
  "mop maps=e1,e2 name=sum_intersection r=z",            -- empty combined coverage: early return
  "covmask z",
  "upd e1 pix=101 val=4",
  "mop maps=e1,e2 name=sum_intersection r=z",            -- now the sentinel guard fires
  "deg b ord=0 red=sum r=bs",                            -- coverage pixel 3: allocated, empty -> 0
  "vals bs",
  "covmask bs",
  "deg b ord=0 red=mean r=bm",
  "vals bm",
  "deg a ord=1 red=prod r=ap",
  "get ap pix=0,1,4,5,6,12",
  "covmask ap",
  "deg a ord=3 red=sum r=x",
  "deg a ord=1 red=wmean r=x",
  "cfg e kind=plain dtype=i8 covord=1 spord=3 covpix=7",
  "upd e pix=0,1,70 vals=4,6,8",
  "deg e ord=1 red=sum r=ec",                            -- at the coverage order
  "get ec pix=0,1,7,8",
  "covmask ec",
  "deg e ord=0 red=sum r=eb",                            -- below it: re-housed first
  "vals eb",
  "covmask eb",
  "upg a ord=3 r=au",
  "covmask au",
  "get au pix=12,15,80,83,84,0",
  "fracdet a r=fd ord=1",
  "get fd pix=0,1,4,5",
  "covmask fd",
  "astype a dtype=f8 r=af",
  "sop af op=div k=4 ktype=flt inplace=1",
  "get af pix=3,16,20",
  "covmask af",
  "cfg k kind=plain dtype=u1 covord=0 spord=2",
  "upd k pix=20,3 vals=1,2",
  "mask a by=k bits=1 inplace=1",
  "valid a",
  "covmask a",
  "cfg wm kind=wide maxbits=16 covord=0 spord=2",
  "bits wm mode=set pix=5,100 bits=1,9",
  "bits wm mode=clear pix=40 bits=3",                    -- changes no value, allocates coverage pixel 2
  "covmask wm",
  "chk wm pix=5,6,100 bits=9",
  "sop wm op=or bits=2 inplace=1",
  "get wm pix=5,100,40",
  "mask u by=wm bitarr=9 r=um",
  "valid um",
  "cfg p kind=packed covord=0 spord=2",
  "upd p pix=20,21,180 val=T",
  "pack a r=pa",
  "covmask pa",
  "bop pa op=or rhs=p r=o",
  "covmask o",
  "get o pix=3,20,21,180,16",
  "inv o inplace=1",
  "get o pix=3,20,21,180,16,100",
  "bop o op=and const=F r=of",
  "mop maps=p,pa name=ufunc_union ufunc=bitwise_or filler=F r=pu",
  "covmask pu",
  "upg pu ord=3 r=puu",
  "copy u r=u2",
  "upd u2 pix=190 val=7",
  "covmask u2",
  "covmask u",
  "mop maps=a name=sum_union r=y",
  "mop maps=a,zz name=sum_union r=y",
  "mop maps=a,au name=sum_union r=y",
  "upg a ord=1 r=y",
  "nvalid zz",
  "bits a pix=1 bits=1",
  "sop a op=add",
  "deg a red=sum",
  "fracdet a ord=1"]

#guard exAll.all lineOkAll
#guard answers exAll == danswersAll exAll

/-! … and the answers are the expected ones: the masks of the `mop` results; the early return
    (`ok`, empty mask) against the guard (`inexact`); `sum` over an allocated, empty coverage
    pixel (0) against `mean` (unset); the masks after `deg` at and below the coverage order; the
    mask after a `clear` that changes nothing -/
#guard ((answers exAll).drop 14).take 6 ==
  ["ok", "110100000000", "2,10,14,6,20,-9223372036854775808", "ok", "010000000000",
   "-9223372036854775808,-9223372036854775808,14,-9223372036854775808,-9223372036854775808"]
#guard ((answers exAll).drop 23).take 4 == ["ok", "000000000000", "ok", "inexact"]
#guard ((answers exAll).drop 27).take 5 ==
  ["ok",
   "-1637499999999999923489519697920,30,-1637499999999999923489519697920,0," ++
     ",".intercalate (List.replicate 8 "-1637499999999999923489519697920"),
   "010100000000", "ok",
   "-1637499999999999923489519697920,15," ++
     ",".intercalate (List.replicate 10 "-1637499999999999923489519697920")]
#guard ((answers exAll).drop 37).take 8 ==
  ["ok", "ok", "ok", "10,-1637499999999999923489519697920,0,-1637499999999999923489519697920",
   "100010010000" ++ String.ofList (List.replicate 36 '0'), "ok",
   "10,8," ++ ",".intercalate (List.replicate 10 "-1637499999999999923489519697920"), "110000000000"]

end Dense
end HS
