import HealSparse.Props.C14
#print axioms HS.C14.rec_valid_iff_primary
#print axioms HS.C14.replace_reads_back
#print axioms HS.C14.field_copy_spec
#print axioms HS.C14.field_view_spec
#print axioms HS.C14.view_write_spec
#print axioms HS.C14.view_write_frame
#print axioms HS.C14.view_guard_rejects
