/-
  C12 — scalar operators, masking and type conversion act on exactly the valid pixels.
  Property theorems only (helpers in HealSparse/Lemmas).
-/
import HealSparse.Lemmas.Core
import HealSparse.Lemmas.Coverage
import HealSparse.Lemmas.Valid
import HealSparse.Model.ScalarOps
import HealSparse.Props.C04
import HealSparse.Props.C02
import HealSparse.Lemmas.ScalarOps
namespace HS
namespace C12

variable {V : Type} [DecidableEq V]

/-- A scalar operator changes exactly the valid pixels, to `f value`; invalid pixels
    (covered or not) keep their value; the layout and the coverage mask are unchanged.
    Holds for the in-place and the copying form alike (both compute `scalarOp`). -/
theorem scalarOp_spec (c : Cfg) (vc : VCfg V) (s : State V) (f : V → V) (h : Inv c vc s)
    (hv : vc.valid vc.sentinel = false) :
    Inv c vc (scalarOp vc s f) ∧
    (∀ p, p < c.npix → abs c vc (scalarOp vc s f) p
        = if vc.valid (abs c vc s p) then f (abs c vc s p) else abs c vc s p) ∧
    (∀ k, covered c (scalarOp vc s f) k = covered c s k) := by
  have hg : (fun x => if vc.valid x then f x else x) vc.sentinel = vc.sentinel := by
    simp [hv]
  rw [scalarOp_eq]
  refine ⟨inv_mapCells c vc vc s _ h hg, ?_, fun k => mapCells_covered c s _ k⟩
  intro p hp
  exact abs_mapCells c vc vc s _ h p hp

/-- `apply_mask` never raises on a well-formed map, invalidates exactly the valid pixels
    whose mask value is bad, changes nothing else, and keeps layout and coverage. -/
theorem applyMask_spec (c : Cfg) (vc : VCfg V) (s : State V) (bad : Nat → Bool) (h : Inv c vc s)
    (hv : vc.valid vc.sentinel = false) :
    ∃ s', applyMask c vc s bad = some s' ∧ Inv c vc s' ∧
      (∀ p, p < c.npix → abs c vc s' p
          = if vc.valid (abs c vc s p) && bad p then vc.sentinel else abs c vc s p) ∧
      (∀ k, covered c s' k = covered c s k) := by
  refine ⟨_, h.applyMask_eq hv bad, ?_, ?_, fun k => withScatter_covered c s _ _ k⟩
  · exact inv_withScatter c vc s _ _ h (h.badPixels_covered hv bad)
  · intro p hp
    rw [abs_withScatter c vc s _ _ h (h.badPixels_covered hv bad) p hp, denseFold_const]
    have hmem := h.mem_badPixels hv bad p
    cases hc : covered c s (p >>> c.shift) with
    | false =>
      rw [h.abs_uncovered hp hc, hv]
      simp
    | true =>
      simp only [if_true]
      by_cases hb : vc.valid (abs c vc s p) = true ∧ bad p = true
      · rw [if_pos (hmem.2 ⟨hp, hb.1, hb.2⟩)]
        simp [hb.1, hb.2]
      · rw [if_neg (fun hm => hb (hmem.1 hm).2)]
        rw [if_neg (by simpa using hb)]

/-- valid set after apply_mask = valid ∧ ¬ bad -/
theorem applyMask_valid (c : Cfg) (vc : VCfg V) (s s' : State V) (bad : Nat → Bool) (h : Inv c vc s)
    (hv : vc.valid vc.sentinel = false) (hs' : applyMask c vc s bad = some s')
    (p : Nat) (hp : p < c.npix) :
    vc.valid (abs c vc s' p) = (vc.valid (abs c vc s p) && !bad p) := by
  obtain ⟨s'', hs'', _, habs, _⟩ := applyMask_spec c vc s bad h hv
  rw [hs'] at hs''
  cases hs''
  rw [habs p hp]
  cases hval : vc.valid (abs c vc s p) <;> cases hb : bad p <;> simp [hval, hv]

/-- `astype`: values converted on valid pixels, the new sentinel elsewhere; the result is a
    well-formed map over the new cell type with the same coverage. -/
theorem astype_spec {V' : Type} [DecidableEq V'] (c : Cfg) (vc : VCfg V) (vc' : VCfg V') (s : State V)
    (conv : V → V') (h : Inv c vc s) (hv : vc.valid vc.sentinel = false) :
    Inv c vc' (astypeMap vc s conv vc'.sentinel) ∧
    (∀ p, p < c.npix → abs c vc' (astypeMap vc s conv vc'.sentinel) p
        = if vc.valid (abs c vc s p) then conv (abs c vc s p) else vc'.sentinel) ∧
    (∀ k, covered c (astypeMap vc s conv vc'.sentinel) k = covered c s k) := by
  have hg : (fun x => if vc.valid x then conv x else vc'.sentinel) vc.sentinel = vc'.sentinel := by
    simp [hv]
  rw [astypeMap_eq]
  refine ⟨inv_mapCells c vc vc' s _ h hg, ?_, fun k => mapCells_covered c s _ k⟩
  intro p hp
  exact abs_mapCells c vc vc' s _ h p hp

/-- `astype` preserves the valid set **provided no converted value coincides with the new
    sentinel** (a converted value equal to the new sentinel cannot be represented as valid;
    the hypothesis is necessary and stated, not hidden). -/
theorem astype_valid_preserved {V' : Type} [DecidableEq V'] (c : Cfg) (vc : VCfg V) (vc' : VCfg V')
    (s : State V) (conv : V → V') (h : Inv c vc s) (hv : vc.valid vc.sentinel = false)
    (hv' : vc'.valid vc'.sentinel = false)
    (hconv : ∀ x, vc.valid x = true → vc'.valid (conv x) = true) (p : Nat) (hp : p < c.npix) :
    vc'.valid (abs c vc' (astypeMap vc s conv vc'.sentinel) p) = vc.valid (abs c vc s p) := by
  rw [(astype_spec c vc vc' s conv h hv).2.1 p hp]
  cases hval : vc.valid (abs c vc s p) with
  | true => simpa using hconv _ hval
  | false => simpa using hv'

/-- `as_bit_packed_map`: a well-formed boolean map, True exactly on the valid pixels, same coverage. -/
theorem asBitPacked_spec (c : Cfg) (vc : VCfg V) (s : State V) (h : Inv c vc s)
    (hv : vc.valid vc.sentinel = false) :
    Inv c (⟨false, fun b => b⟩ : VCfg Bool) (asBitPacked c vc s) ∧
    (∀ p, p < c.npix → abs c (⟨false, fun b => b⟩ : VCfg Bool) (asBitPacked c vc s) p
        = vc.valid (abs c vc s p)) ∧
    (∀ k, covered c (asBitPacked c vc s) k = covered c s k) := by
  refine ⟨?_, ?_, fun k => rfl⟩
  · refine inv_of_cov_eq (s' := asBitPacked c vc s) (vw := (⟨false, fun b => b⟩ : VCfg Bool)) h rfl
      h.asBitPacked_size ?_
    intro i hi
    rw [h.asBitPacked_get hv (Nat.lt_of_lt_of_le hi h.nfine_le_size)]
    have : rd s.sp i vc.sentinel = vc.sentinel := by
      unfold rd; rw [h.2.2.1 i hi]; rfl
    rw [this, hv]
  · intro p hp
    show rd (asBitPacked c vc s).sp (idxOf c s p) false = vc.valid (rd s.sp (idxOf c s p) vc.sentinel)
    unfold rd
    rw [h.asBitPacked_get hv (h.idxOf_lt_size hp)]
    rfl

/-- non-vacuity: a map with a valid, an invalid-covered and uncovered pixels -/
example : (scalarOp (V := Int) ⟨-1, fun x => x != -1⟩ ⟨#[2, -2], #[-1, -1, 5, -1]⟩ (· * 3)).sp
    = #[-1, -1, 15, -1] := by decide +kernel

end C12
end HS
