/-
  C05 at the world level, part 2: every operation of Model/Dispatch.lean commutes with the
  normalisation of the world (Lemmas/TwinWorld.lean), outside the exception set `asym`.
-/
import HealSparse.Lemmas.TwinWorld
namespace HS
open WFApi WFRes WFFiles
set_option linter.unusedSimpArgs false
set_option linter.unusedVariables false

section
variable (co so : Nat) (st : State Val) (cache : Option Nat) (view : Option (String × Nat))
theorem apiSetBits_pkd_err (pix bits : List Nat) (clear : Bool) :
    apiSetBits (pkd co so st cache view) pix bits clear = .error .notImpl := rfl
theorem apiSetBits_bln_err (pix bits : List Nat) (clear : Bool) :
    apiSetBits (bln co so st cache view) pix bits clear = .error .notImpl := rfl
end

/-! ### operations on one looked-up map, no exception -/

theorem sim_opUpdr {w : World} (hw : w.Good) (a : Args) : Sim (HS.opUpdr w.norm a) (HS.opUpdr w a) := by
  unfold HS.opUpdr
  refine sim_withMap hw fun n m hn hget hok hsrc => ?_
  try dsimp +instances only [World.norm_mocs, World.norm_hpfiles, World.norm_metas]
  rcases m.packed_cases hok.2.1 with hp | ⟨co, so, st, cache, view, rfl⟩
  · try simp +instances only [MapObj.norm_of_ne hp]
    sim_walk0
  · try dsimp +instances only [pkd_norm]
    try simp only [apiUpdate_pkd_norm, apiUpdateRanges_pkd_norm, apiScalarOp_pkd, apiAstype_pkd,
      apiInvert_pkd, apiSetBits_pkd_err, apiSetBits_bln_err, apiCheckBits_pkd, apiInterp_pkd,
      apiWriteHealpix_pkd, apiGet_pkd, singleSentinel_pkd]
    sim_walk

theorem sim_opSop {w : World} (hw : w.Good) (a : Args) : Sim (HS.opSop w.norm a) (HS.opSop w a) := by
  unfold HS.opSop
  refine sim_withMap hw fun n m hn hget hok hsrc => ?_
  try dsimp +instances only [World.norm_mocs, World.norm_hpfiles, World.norm_metas]
  rcases m.packed_cases hok.2.1 with hp | ⟨co, so, st, cache, view, rfl⟩
  · try simp +instances only [MapObj.norm_of_ne hp]
    sim_walk0
  · try dsimp +instances only [pkd_norm]
    try simp only [apiUpdate_pkd_norm, apiUpdateRanges_pkd_norm, apiScalarOp_pkd, apiAstype_pkd,
      apiInvert_pkd, apiSetBits_pkd_err, apiSetBits_bln_err, apiCheckBits_pkd, apiInterp_pkd,
      apiWriteHealpix_pkd, apiGet_pkd, singleSentinel_pkd]
    sim_walk

theorem sim_opAstype {w : World} (hw : w.Good) (a : Args) : Sim (HS.opAstype w.norm a) (HS.opAstype w a) := by
  unfold HS.opAstype
  refine sim_withMap hw fun n m hn hget hok hsrc => ?_
  try dsimp +instances only [World.norm_mocs, World.norm_hpfiles, World.norm_metas]
  rcases m.packed_cases hok.2.1 with hp | ⟨co, so, st, cache, view, rfl⟩
  · try simp +instances only [MapObj.norm_of_ne hp]
    sim_walk0
  · try dsimp +instances only [pkd_norm]
    try simp only [apiUpdate_pkd_norm, apiUpdateRanges_pkd_norm, apiScalarOp_pkd, apiAstype_pkd,
      apiInvert_pkd, apiSetBits_pkd_err, apiSetBits_bln_err, apiCheckBits_pkd, apiInterp_pkd,
      apiWriteHealpix_pkd, apiGet_pkd, singleSentinel_pkd]
    sim_walk

theorem sim_opInv {w : World} (hw : w.Good) (a : Args) : Sim (HS.opInv w.norm a) (HS.opInv w a) := by
  unfold HS.opInv
  refine sim_withMap hw fun n m hn hget hok hsrc => ?_
  try dsimp +instances only [World.norm_mocs, World.norm_hpfiles, World.norm_metas]
  rcases m.packed_cases hok.2.1 with hp | ⟨co, so, st, cache, view, rfl⟩
  · try simp +instances only [MapObj.norm_of_ne hp]
    sim_walk0
  · try dsimp +instances only [pkd_norm]
    try simp only [apiUpdate_pkd_norm, apiUpdateRanges_pkd_norm, apiScalarOp_pkd, apiAstype_pkd,
      apiInvert_pkd, apiSetBits_pkd_err, apiSetBits_bln_err, apiCheckBits_pkd, apiInterp_pkd,
      apiWriteHealpix_pkd, apiGet_pkd, singleSentinel_pkd]
    sim_walk

theorem sim_opBits {w : World} (hw : w.Good) (a : Args) : Sim (HS.opBits w.norm a) (HS.opBits w a) := by
  unfold HS.opBits
  refine sim_withMap hw fun n m hn hget hok hsrc => ?_
  try dsimp +instances only [World.norm_mocs, World.norm_hpfiles, World.norm_metas]
  rcases m.packed_cases hok.2.1 with hp | ⟨co, so, st, cache, view, rfl⟩
  · try simp +instances only [MapObj.norm_of_ne hp]
    sim_walk0
  · try dsimp +instances only [pkd_norm]
    try simp only [apiUpdate_pkd_norm, apiUpdateRanges_pkd_norm, apiScalarOp_pkd, apiAstype_pkd,
      apiInvert_pkd, apiSetBits_pkd_err, apiSetBits_bln_err, apiCheckBits_pkd, apiInterp_pkd,
      apiWriteHealpix_pkd, apiGet_pkd, singleSentinel_pkd]
    sim_walk

theorem sim_opChk {w : World} (hw : w.Good) (a : Args) : Sim (HS.opChk w.norm a) (HS.opChk w a) := by
  unfold HS.opChk
  refine sim_withMap hw fun n m hn hget hok hsrc => ?_
  try dsimp +instances only [World.norm_mocs, World.norm_hpfiles, World.norm_metas]
  rcases m.packed_cases hok.2.1 with hp | ⟨co, so, st, cache, view, rfl⟩
  · try simp +instances only [MapObj.norm_of_ne hp]
    sim_walk0
  · try dsimp +instances only [pkd_norm]
    try simp only [apiUpdate_pkd_norm, apiUpdateRanges_pkd_norm, apiScalarOp_pkd, apiAstype_pkd,
      apiInvert_pkd, apiSetBits_pkd_err, apiSetBits_bln_err, apiCheckBits_pkd, apiInterp_pkd,
      apiWriteHealpix_pkd, apiGet_pkd, singleSentinel_pkd]
    sim_walk

theorem sim_opCopy {w : World} (hw : w.Good) (a : Args) : Sim (HS.opCopy w.norm a) (HS.opCopy w a) := by
  unfold HS.opCopy
  refine sim_withMap hw fun n m hn hget hok hsrc => ?_
  try dsimp +instances only [World.norm_mocs, World.norm_hpfiles, World.norm_metas]
  rcases m.packed_cases hok.2.1 with hp | ⟨co, so, st, cache, view, rfl⟩
  · try simp +instances only [MapObj.norm_of_ne hp]
    sim_walk0
  · try dsimp +instances only [pkd_norm]
    try simp only [apiUpdate_pkd_norm, apiUpdateRanges_pkd_norm, apiScalarOp_pkd, apiAstype_pkd,
      apiInvert_pkd, apiSetBits_pkd_err, apiSetBits_bln_err, apiCheckBits_pkd, apiInterp_pkd,
      apiWriteHealpix_pkd, apiGet_pkd, singleSentinel_pkd]
    sim_walk

theorem sim_opScov {w : World} (hw : w.Good) (a : Args) : Sim (HS.opScov w.norm a) (HS.opScov w a) := by
  unfold HS.opScov
  refine sim_withMap hw fun n m hn hget hok hsrc => ?_
  try dsimp +instances only [World.norm_mocs, World.norm_hpfiles, World.norm_metas]
  rcases m.packed_cases hok.2.1 with hp | ⟨co, so, st, cache, view, rfl⟩
  · try simp +instances only [MapObj.norm_of_ne hp]
    sim_walk0
  · try dsimp +instances only [pkd_norm]
    try simp only [apiUpdate_pkd_norm, apiUpdateRanges_pkd_norm, apiScalarOp_pkd, apiAstype_pkd,
      apiInvert_pkd, apiSetBits_pkd_err, apiSetBits_bln_err, apiCheckBits_pkd, apiInterp_pkd,
      apiWriteHealpix_pkd, apiGet_pkd, singleSentinel_pkd]
    sim_walk

theorem sim_opMeta {w : World} (hw : w.Good) (a : Args) : Sim (HS.opMeta w.norm a) (HS.opMeta w a) := by
  unfold HS.opMeta
  refine sim_withMap hw fun n m hn hget hok hsrc => ?_
  try dsimp +instances only [World.norm_mocs, World.norm_hpfiles, World.norm_metas]
  rcases m.packed_cases hok.2.1 with hp | ⟨co, so, st, cache, view, rfl⟩
  · try simp +instances only [MapObj.norm_of_ne hp]
    sim_walk0
  · try dsimp +instances only [pkd_norm]
    try simp only [apiUpdate_pkd_norm, apiUpdateRanges_pkd_norm, apiScalarOp_pkd, apiAstype_pkd,
      apiInvert_pkd, apiSetBits_pkd_err, apiSetBits_bln_err, apiCheckBits_pkd, apiInterp_pkd,
      apiWriteHealpix_pkd, apiGet_pkd, singleSentinel_pkd]
    sim_walk

theorem sim_opGetmeta {w : World} (hw : w.Good) (a : Args) : Sim (HS.opGetmeta w.norm a) (HS.opGetmeta w a) := by
  unfold HS.opGetmeta
  refine sim_withMap hw fun n m hn hget hok hsrc => ?_
  try dsimp +instances only [World.norm_mocs, World.norm_hpfiles, World.norm_metas]
  rcases m.packed_cases hok.2.1 with hp | ⟨co, so, st, cache, view, rfl⟩
  · try simp +instances only [MapObj.norm_of_ne hp]
    sim_walk0
  · try dsimp +instances only [pkd_norm]
    try simp only [apiUpdate_pkd_norm, apiUpdateRanges_pkd_norm, apiScalarOp_pkd, apiAstype_pkd,
      apiInvert_pkd, apiSetBits_pkd_err, apiSetBits_bln_err, apiCheckBits_pkd, apiInterp_pkd,
      apiWriteHealpix_pkd, apiGet_pkd, singleSentinel_pkd]
    sim_walk

theorem sim_opWrite {w : World} (hw : w.Good) (a : Args) : Sim (HS.opWrite w.norm a) (HS.opWrite w a) := by
  unfold HS.opWrite
  refine sim_withMap hw fun n m hn hget hok hsrc => ?_
  try dsimp +instances only [World.norm_mocs, World.norm_hpfiles, World.norm_metas]
  rcases m.packed_cases hok.2.1 with hp | ⟨co, so, st, cache, view, rfl⟩
  · try simp +instances only [MapObj.norm_of_ne hp]
    sim_walk0
  · try dsimp +instances only [pkd_norm]
    try simp only [apiUpdate_pkd_norm, apiUpdateRanges_pkd_norm, apiScalarOp_pkd, apiAstype_pkd,
      apiInvert_pkd, apiSetBits_pkd_err, apiSetBits_bln_err, apiCheckBits_pkd, apiInterp_pkd,
      apiWriteHealpix_pkd, apiGet_pkd, singleSentinel_pkd]
    sim_walk

theorem sim_opInterp {w : World} (hw : w.Good) (a : Args) : Sim (HS.opInterp w.norm a) (HS.opInterp w a) := by
  unfold HS.opInterp
  refine sim_withMap hw fun n m hn hget hok hsrc => ?_
  try dsimp +instances only [World.norm_mocs, World.norm_hpfiles, World.norm_metas]
  rcases m.packed_cases hok.2.1 with hp | ⟨co, so, st, cache, view, rfl⟩
  · try simp +instances only [MapObj.norm_of_ne hp]
    sim_walk0
  · try dsimp +instances only [pkd_norm]
    try simp only [apiUpdate_pkd_norm, apiUpdateRanges_pkd_norm, apiScalarOp_pkd, apiAstype_pkd,
      apiInvert_pkd, apiSetBits_pkd_err, apiSetBits_bln_err, apiCheckBits_pkd, apiInterp_pkd,
      apiWriteHealpix_pkd, apiGet_pkd, singleSentinel_pkd]
    sim_walk

theorem sim_opHpxwrite {w : World} (hw : w.Good) (a : Args) : Sim (HS.opHpxwrite w.norm a) (HS.opHpxwrite w a) := by
  unfold HS.opHpxwrite
  refine sim_withMap hw fun n m hn hget hok hsrc => ?_
  try dsimp +instances only [World.norm_mocs, World.norm_hpfiles, World.norm_metas]
  rcases m.packed_cases hok.2.1 with hp | ⟨co, so, st, cache, view, rfl⟩
  · try simp +instances only [MapObj.norm_of_ne hp]
    sim_walk0
  · try dsimp +instances only [pkd_norm]
    try simp only [apiUpdate_pkd_norm, apiUpdateRanges_pkd_norm, apiScalarOp_pkd, apiAstype_pkd,
      apiInvert_pkd, apiSetBits_pkd_err, apiSetBits_bln_err, apiCheckBits_pkd, apiInterp_pkd,
      apiWriteHealpix_pkd, apiGet_pkd, singleSentinel_pkd]
    sim_walk

theorem sim_opSet {w : World} (hw : w.Good) (a : Args) : Sim (HS.opSet w.norm a) (HS.opSet w a) := by
  unfold HS.opSet
  refine sim_withMap hw fun n m hn hget hok hsrc => ?_
  try dsimp +instances only [World.norm_mocs, World.norm_hpfiles, World.norm_metas]
  rcases m.packed_cases hok.2.1 with hp | ⟨co, so, st, cache, view, rfl⟩
  · try simp +instances only [MapObj.norm_of_ne hp]
    sim_walk0
  · try dsimp +instances only [pkd_norm]
    try simp only [apiUpdate_pkd_norm, apiUpdateRanges_pkd_norm, apiScalarOp_pkd, apiAstype_pkd,
      apiInvert_pkd, apiSetBits_pkd_err, apiSetBits_bln_err, apiCheckBits_pkd, apiInterp_pkd,
      apiWriteHealpix_pkd, apiGet_pkd, singleSentinel_pkd]
    sim_walk

theorem sim_opVals {w : World} (hw : w.Good) (a : Args) : Sim (HS.opVals w.norm a) (HS.opVals w a) := by
  unfold HS.opVals
  refine sim_withMap hw fun n m hn hget hok hsrc => ?_
  try dsimp +instances only [World.norm_mocs, World.norm_hpfiles, World.norm_metas]
  rcases m.packed_cases hok.2.1 with hp | ⟨co, so, st, cache, view, rfl⟩
  · try simp +instances only [MapObj.norm_of_ne hp]
    sim_walk0
  · try dsimp +instances only [pkd_norm]
    try simp only [apiUpdate_pkd_norm, apiUpdateRanges_pkd_norm, apiScalarOp_pkd, apiAstype_pkd,
      apiInvert_pkd, apiSetBits_pkd_err, apiSetBits_bln_err, apiCheckBits_pkd, apiInterp_pkd,
      apiWriteHealpix_pkd, apiGet_pkd, singleSentinel_pkd]
    sim_walk

theorem sim_opGet {w : World} (hw : w.Good) (a : Args) : Sim (HS.opGet w.norm a) (HS.opGet w a) := by
  unfold HS.opGet
  refine sim_withMap hw fun n m hn hget hok hsrc => ?_
  try dsimp +instances only [World.norm_mocs, World.norm_hpfiles, World.norm_metas]
  rcases m.packed_cases hok.2.1 with hp | ⟨co, so, st, cache, view, rfl⟩
  · try simp +instances only [MapObj.norm_of_ne hp]
    sim_walk0
  · try dsimp +instances only [pkd_norm]
    try simp only [apiUpdate_pkd_norm, apiUpdateRanges_pkd_norm, apiScalarOp_pkd, apiAstype_pkd,
      apiInvert_pkd, apiSetBits_pkd_err, apiSetBits_bln_err, apiCheckBits_pkd, apiInterp_pkd,
      apiWriteHealpix_pkd, apiGet_pkd, singleSentinel_pkd]
    sim_walk

theorem sim_opValid {w : World} (hw : w.Good) (a : Args) : Sim (HS.opValid w.norm a) (HS.opValid w a) := by
  unfold HS.opValid
  refine sim_withMap hw fun n m hn hget hok hsrc => ?_
  try dsimp +instances only [World.norm_mocs, World.norm_hpfiles, World.norm_metas]
  rcases m.packed_cases hok.2.1 with hp | ⟨co, so, st, cache, view, rfl⟩
  · try simp +instances only [MapObj.norm_of_ne hp]
    sim_walk0
  · try dsimp +instances only [pkd_norm]
    try simp only [apiUpdate_pkd_norm, apiUpdateRanges_pkd_norm, apiScalarOp_pkd, apiAstype_pkd,
      apiInvert_pkd, apiSetBits_pkd_err, apiSetBits_bln_err, apiCheckBits_pkd, apiInterp_pkd,
      apiWriteHealpix_pkd, apiGet_pkd, singleSentinel_pkd]
    sim_walk

theorem sim_opCovmap {w : World} (hw : w.Good) (a : Args) : Sim (HS.opCovmap w.norm a) (HS.opCovmap w a) := by
  unfold HS.opCovmap
  refine sim_withMap hw fun n m hn hget hok hsrc => ?_
  try dsimp +instances only [World.norm_mocs, World.norm_hpfiles, World.norm_metas]
  rcases m.packed_cases hok.2.1 with hp | ⟨co, so, st, cache, view, rfl⟩
  · try simp +instances only [MapObj.norm_of_ne hp]
    sim_walk0
  · try dsimp +instances only [pkd_norm]
    try simp only [apiUpdate_pkd_norm, apiUpdateRanges_pkd_norm, apiScalarOp_pkd, apiAstype_pkd,
      apiInvert_pkd, apiSetBits_pkd_err, apiSetBits_bln_err, apiCheckBits_pkd, apiInterp_pkd,
      apiWriteHealpix_pkd, apiGet_pkd, singleSentinel_pkd]
    sim_walk

theorem sim_opVpsc {w : World} (hw : w.Good) (a : Args) : Sim (HS.opVpsc w.norm a) (HS.opVpsc w a) := by
  unfold HS.opVpsc
  refine sim_withMap hw fun n m hn hget hok hsrc => ?_
  try dsimp +instances only [World.norm_mocs, World.norm_hpfiles, World.norm_metas]
  rcases m.packed_cases hok.2.1 with hp | ⟨co, so, st, cache, view, rfl⟩
  · try simp +instances only [MapObj.norm_of_ne hp]
    sim_walk0
  · try dsimp +instances only [pkd_norm]
    try simp only [apiUpdate_pkd_norm, apiUpdateRanges_pkd_norm, apiScalarOp_pkd, apiAstype_pkd,
      apiInvert_pkd, apiSetBits_pkd_err, apiSetBits_bln_err, apiCheckBits_pkd, apiInterp_pkd,
      apiWriteHealpix_pkd, apiGet_pkd, singleSentinel_pkd]
    sim_walk

theorem sim_opFracdet {w : World} (hw : w.Good) (a : Args) : Sim (HS.opFracdet w.norm a) (HS.opFracdet w a) := by
  unfold HS.opFracdet
  refine sim_withMap hw fun n m hn hget hok hsrc => ?_
  try dsimp +instances only [World.norm_mocs, World.norm_hpfiles, World.norm_metas]
  rcases m.packed_cases hok.2.1 with hp | ⟨co, so, st, cache, view, rfl⟩
  · try simp +instances only [MapObj.norm_of_ne hp]
    sim_walk0
  · try dsimp +instances only [pkd_norm]
    try simp only [apiUpdate_pkd_norm, apiUpdateRanges_pkd_norm, apiScalarOp_pkd, apiAstype_pkd,
      apiInvert_pkd, apiSetBits_pkd_err, apiSetBits_bln_err, apiCheckBits_pkd, apiInterp_pkd,
      apiWriteHealpix_pkd, apiGet_pkd, singleSentinel_pkd]
    sim_walk

theorem sim_opCovmask {w : World} (hw : w.Good) (a : Args) : Sim (HS.opCovmask w.norm a) (HS.opCovmask w a) := by
  unfold HS.opCovmask
  refine sim_withMap hw fun n m hn hget hok hsrc => ?_
  try dsimp +instances only [World.norm_mocs, World.norm_hpfiles, World.norm_metas]
  rcases m.packed_cases hok.2.1 with hp | ⟨co, so, st, cache, view, rfl⟩
  · try simp +instances only [MapObj.norm_of_ne hp]
    sim_walk0
  · try dsimp +instances only [pkd_norm]
    try simp only [apiUpdate_pkd_norm, apiUpdateRanges_pkd_norm, apiScalarOp_pkd, apiAstype_pkd,
      apiInvert_pkd, apiSetBits_pkd_err, apiSetBits_bln_err, apiCheckBits_pkd, apiInterp_pkd,
      apiWriteHealpix_pkd, apiGet_pkd, singleSentinel_pkd]
    sim_walk

theorem sim_opDump {w : World} (hw : w.Good) (a : Args) : Sim (HS.opDump w.norm a) (HS.opDump w a) := by
  unfold HS.opDump
  refine sim_withMap hw fun n m hn hget hok hsrc => ?_
  try dsimp +instances only [World.norm_mocs, World.norm_hpfiles, World.norm_metas]
  rcases m.packed_cases hok.2.1 with hp | ⟨co, so, st, cache, view, rfl⟩
  · try simp +instances only [MapObj.norm_of_ne hp]
    sim_walk0
  · try dsimp +instances only [pkd_norm]
    try simp only [apiUpdate_pkd_norm, apiUpdateRanges_pkd_norm, apiScalarOp_pkd, apiAstype_pkd,
      apiInvert_pkd, apiSetBits_pkd_err, apiSetBits_bln_err, apiCheckBits_pkd, apiInterp_pkd,
      apiWriteHealpix_pkd, apiGet_pkd, singleSentinel_pkd]
    sim_walk

theorem sim_opState {w : World} (hw : w.Good) (a : Args) : Sim (HS.opState w.norm a) (HS.opState w a) := by
  unfold HS.opState
  refine sim_withMap hw fun n m hn hget hok hsrc => ?_
  try dsimp +instances only [World.norm_mocs, World.norm_hpfiles, World.norm_metas]
  rcases m.packed_cases hok.2.1 with hp | ⟨co, so, st, cache, view, rfl⟩
  · try simp +instances only [MapObj.norm_of_ne hp]
    sim_walk0
  · try dsimp +instances only [pkd_norm]
    try simp only [apiUpdate_pkd_norm, apiUpdateRanges_pkd_norm, apiScalarOp_pkd, apiAstype_pkd,
      apiInvert_pkd, apiSetBits_pkd_err, apiSetBits_bln_err, apiCheckBits_pkd, apiInterp_pkd,
      apiWriteHealpix_pkd, apiGet_pkd, singleSentinel_pkd]
    sim_walk

theorem sim_opBad {w : World} (hw : w.Good) (a : Args) : Sim (HS.opBad w.norm a) (HS.opBad w a) := by
  unfold HS.opBad
  refine sim_withMap hw fun n m hn hget hok hsrc => ?_
  try dsimp +instances only [World.norm_mocs, World.norm_hpfiles, World.norm_metas]
  rcases m.packed_cases hok.2.1 with hp | ⟨co, so, st, cache, view, rfl⟩
  · try simp +instances only [MapObj.norm_of_ne hp]
    sim_walk0
  · try dsimp +instances only [pkd_norm]
    try simp only [apiUpdate_pkd_norm, apiUpdateRanges_pkd_norm, apiScalarOp_pkd, apiAstype_pkd,
      apiInvert_pkd, apiSetBits_pkd_err, apiSetBits_bln_err, apiCheckBits_pkd, apiInterp_pkd,
      apiWriteHealpix_pkd, apiGet_pkd, singleSentinel_pkd]
    sim_walk

theorem sim_opSingle {w : World} (hw : w.Good) (a : Args) : Sim (HS.opSingle w.norm a) (HS.opSingle w a) := by
  unfold HS.opSingle
  refine sim_withMap hw fun n m hn hget hok hsrc => ?_
  try dsimp +instances only [World.norm_mocs, World.norm_hpfiles, World.norm_metas]
  rcases m.packed_cases hok.2.1 with hp | ⟨co, so, st, cache, view, rfl⟩
  · try simp +instances only [MapObj.norm_of_ne hp]
    sim_walk0
  · try dsimp +instances only [pkd_norm]
    try simp only [apiUpdate_pkd_norm, apiUpdateRanges_pkd_norm, apiScalarOp_pkd, apiAstype_pkd,
      apiInvert_pkd, apiSetBits_pkd_err, apiSetBits_bln_err, apiCheckBits_pkd, apiInterp_pkd,
      apiWriteHealpix_pkd, apiGet_pkd, singleSentinel_pkd]
    sim_walk

theorem sim_opMoc {w : World} (hw : w.Good) (a : Args) : Sim (HS.opMoc w.norm a) (HS.opMoc w a) := by
  unfold HS.opMoc
  refine sim_withMap hw fun n m hn hget hok hsrc => ?_
  try dsimp +instances only [World.norm_mocs, World.norm_hpfiles, World.norm_metas]
  rcases m.packed_cases hok.2.1 with hp | ⟨co, so, st, cache, view, rfl⟩
  · try simp +instances only [MapObj.norm_of_ne hp]
    sim_walk0
  · try dsimp +instances only [pkd_norm]
    try simp only [apiUpdate_pkd_norm, apiUpdateRanges_pkd_norm, apiScalarOp_pkd, apiAstype_pkd,
      apiInvert_pkd, apiSetBits_pkd_err, apiSetBits_bln_err, apiCheckBits_pkd, apiInterp_pkd,
      apiWriteHealpix_pkd, apiGet_pkd, singleSentinel_pkd]
    sim_walk

/-! ### operations that look no map up -/

theorem sim_opCfg {w : World} (a : Args) : Sim (HS.opCfg w.norm a) (HS.opCfg w a) := by
  unfold HS.opCfg
  try dsimp +instances only [World.norm_mocs, World.norm_hpfiles, World.norm_metas]
  sim_walk0

theorem sim_opMocread {w : World} (a : Args) : Sim (HS.opMocread w.norm a) (HS.opMocread w a) := by
  unfold HS.opMocread
  try dsimp +instances only [World.norm_mocs, World.norm_hpfiles, World.norm_metas]
  sim_walk0

theorem sim_opFromhp {w : World} (a : Args) : Sim (HS.opFromhp w.norm a) (HS.opFromhp w a) := by
  unfold HS.opFromhp
  try dsimp +instances only [World.norm_mocs, World.norm_hpfiles, World.norm_metas]
  sim_walk0

theorem sim_opHpximplicit {w : World} (a : Args) : Sim (HS.opHpximplicit w.norm a) (HS.opHpximplicit w a) := by
  unfold HS.opHpximplicit
  try dsimp +instances only [World.norm_mocs, World.norm_hpfiles, World.norm_metas]
  sim_walk0

theorem sim_opHpxread {w : World} (a : Args) : Sim (HS.opHpxread w.norm a) (HS.opHpxread w a) := by
  unfold HS.opHpxread
  try dsimp +instances only [World.norm_mocs, World.norm_hpfiles, World.norm_metas]
  sim_walk0

theorem sim_opRand {w : World} (a : Args) : Sim (HS.opRand w.norm a) (HS.opRand w a) := by
  unfold HS.opRand
  try dsimp +instances only [World.norm_mocs, World.norm_hpfiles, World.norm_metas]
  sim_walk0

theorem sim_opDrop {w : World} (a : Args) : Sim (HS.opDrop w.norm a) (HS.opDrop w a) := by
  unfold HS.opDrop
  split
  · rename_i n _ _
    refine ⟨rfl, ?_⟩
    show World.norm _ = World.norm _
    simp only [World.norm, List.map_map, List.filter_map, World.mk.injEq, and_true, true_and]
    refine ⟨?_, List.map_congr_left (fun e _ => by simp [FileObj.norm_norm])⟩
    show List.map _ (List.filter (fun x => x.1 != n) w.pool) = _
    exact List.map_congr_left (fun e _ => by simp [MapObj.norm_norm])
  · exact sim_same w _

theorem sim_opReset {w : World} (a : Args) : Sim (HS.opReset w.norm a) (HS.opReset w a) := ⟨rfl, rfl⟩

/-! ### operations that are symmetric only on a non-boolean source map -/

theorem sim_opInfo {w : World} (hw : w.Good) (a : Args) (hex : srcBool w a = false) :
    Sim (HS.opInfo w.norm a) (HS.opInfo w a) := by
  unfold HS.opInfo
  refine sim_withMap hw fun n m hn hget hok hsrc => ?_
  try dsimp +instances only [World.norm_mocs, World.norm_hpfiles, World.norm_metas]
  have hp : m.kind ≠ .packed := Kind.ne_packed_of_isBool (by rw [← hsrc]; exact hex)
  try simp +instances only [MapObj.norm_of_ne hp]
  sim_walk0

theorem sim_opPack {w : World} (hw : w.Good) (a : Args) (hex : srcBool w a = false) :
    Sim (HS.opPack w.norm a) (HS.opPack w a) := by
  unfold HS.opPack
  refine sim_withMap hw fun n m hn hget hok hsrc => ?_
  try dsimp +instances only [World.norm_mocs, World.norm_hpfiles, World.norm_metas]
  have hp : m.kind ≠ .packed := Kind.ne_packed_of_isBool (by rw [← hsrc]; exact hex)
  try simp +instances only [MapObj.norm_of_ne hp]
  sim_walk0

theorem sim_opUpg {w : World} (hw : w.Good) (a : Args) (hex : srcBool w a = false) :
    Sim (HS.opUpg w.norm a) (HS.opUpg w a) := by
  unfold HS.opUpg
  refine sim_withMap hw fun n m hn hget hok hsrc => ?_
  try dsimp +instances only [World.norm_mocs, World.norm_hpfiles, World.norm_metas]
  have hp : m.kind ≠ .packed := Kind.ne_packed_of_isBool (by rw [← hsrc]; exact hex)
  try simp +instances only [MapObj.norm_of_ne hp]
  sim_walk0

theorem dtCode_bool : dtCode .bool = "b1" := rfl

/-- `upd` (a `vdtype=` values array of type `b1` is accepted by both boolean kinds) -/
theorem sim_opUpd {w : World} (hw : w.Good) (a : Args) :
    Sim (HS.opUpd w.norm a) (HS.opUpd w a) := by
  unfold HS.opUpd
  refine sim_withMap hw fun n m hn hget hok hsrc => ?_
  rcases m.packed_cases hok.2.1 with hp | ⟨co, so, st, cache, view, rfl⟩
  · simp +instances only [MapObj.norm_of_ne hp]
    sim_walk0
  · dsimp +instances only [pkd_norm]
    simp only [apiUpdate_pkd_norm]
    cases hv : a.get? "vdtype" with
    | none => sim_walk
    | some t =>
      simp only [bln_kind, pkd_kind, dtCode_bool]
      sim_walk

set_option maxHeartbeats 1000000 in
theorem sim_opGeom {w : World} (hw : w.Good) (a : Args) : Sim (HS.opGeom w.norm a) (HS.opGeom w a) := by
  unfold HS.opGeom
  refine sim_withMap hw fun n m hn hget hok hsrc => ?_
  try dsimp +instances only [World.norm_mocs, World.norm_hpfiles, World.norm_metas]
  rcases m.packed_cases hok.2.1 with hp | ⟨co, so, st, cache, view, rfl⟩
  · simp +instances only [MapObj.norm_of_ne hp]
    sim_walk0
  · dsimp +instances only [pkd_norm]
    cases hR : parseRanges (a.getD "ranges" "_") with
    | none => exact sim_same w _
    | some R =>
    simp only []
    split
    · cases hb : (a.get? "bits").bind parseNats <;> cases hs : (a.get? "value").bind parseVal <;>
        simp +instances only [pkd_kind, bln_kind, bind, Except.bind] <;> sim_walk
    · split
      · cases hb : (a.get? "bits").bind parseNats <;> cases hs : (a.get? "value").bind parseVal <;>
          simp +instances only [pkd_kind, bln_kind, bind, Except.bind] <;> sim_walk
      · split
        · cases hb : (a.get? "bits").bind parseNats <;> cases hs : (a.get? "value").bind parseVal
          · simp +instances only [pkd_kind, bln_kind, Kind.isIntegerMap.eq_2, Kind.isIntegerMap.eq_3]
            sim_walk
          · rename_i val
            rcases val with ⟨k, e⟩ | b | bs | fs | ⟨n, d⟩ | ⟨n, d⟩ | ng | _ <;> (try cases e) <;>
              simp +instances only [pkd_kind, bln_kind, Kind.isIntegerMap.eq_2, Kind.isIntegerMap.eq_3] <;>
              sim_walk
          · simp +instances only [pkd_kind, bln_kind, Kind.isIntegerMap.eq_2, Kind.isIntegerMap.eq_3]
            sim_walk
          · simp +instances only [pkd_kind, bln_kind, Kind.isIntegerMap.eq_2, Kind.isIntegerMap.eq_3]
            sim_walk
        · sim_walk

/-! ### exception predicates -/

/-- is the named map a boolean map -/
def nameBool (w : World) (n : String) : Bool :=
  match w.get? n with
  | some m => m.kind.isBool
  | none => false

/-- is the weight map of `deg` (`w=`) a boolean map -/
def weightBool (w : World) (a : Args) : Bool :=
  match a.get? "w" with
  | some n => nameBool w n
  | none => false

theorem sim_opNvalid {w : World} (hw : w.Good) (a : Args)
    (hex : (srcBool w a && a.get? "path" == some "str") = false) :
    Sim (HS.opNvalid w.norm a) (HS.opNvalid w a) := by
  unfold HS.opNvalid
  refine sim_withMap hw fun n m hn hget hok hsrc => ?_
  rcases m.packed_cases hok.2.1 with hp | ⟨co, so, st, cache, view, rfl⟩
  · simp +instances only [MapObj.norm_of_ne hp]
    sim_walk0
  · have hb : srcBool w a = true := hsrc
    have hpath : (a.get? "path" == some "str") = false := by
      rw [hb] at hex
      simpa using hex
    dsimp +instances only [pkd_norm]
    simp +instances only [hpath, Bool.false_and]
    sim_walk

theorem sim_opGenhp {w : World} (hw : w.Good) (a : Args)
    (hex : (srcBool w a && (a.nat? "ord").isSome) = false) :
    Sim (HS.opGenhp w.norm a) (HS.opGenhp w a) := by
  unfold HS.opGenhp
  refine sim_withMap hw fun n m hn hget hok hsrc => ?_
  rcases m.packed_cases hok.2.1 with hp | ⟨co, so, st, cache, view, rfl⟩
  · simp +instances only [MapObj.norm_of_ne hp]
    sim_walk0
  · have hb : srcBool w a = true := hsrc
    have hord : a.nat? "ord" = none := by
      cases h : a.nat? "ord" with
      | none => rfl
      | some o => rw [hb, h] at hex; cases hex
    dsimp +instances only [pkd_norm]
    simp +instances only [hord, apiGenerateHealpix_pkd]
    sim_walk

theorem sim_opDeg {w : World} (hw : w.Good) (a : Args)
    (hex : (srcBool w a || weightBool w a) = false) :
    Sim (HS.opDeg w.norm a) (HS.opDeg w a) := by
  have hex1 : srcBool w a = false := by
    cases h : srcBool w a with
    | false => rfl
    | true => rw [h] at hex; simp at hex
  have hex2 : weightBool w a = false := by
    cases h : weightBool w a with
    | false => rfl
    | true => rw [h] at hex; simp at hex
  unfold HS.opDeg
  refine sim_withMap hw fun n m hn hget hok hsrc => ?_
  have hp : m.kind ≠ .packed := Kind.ne_packed_of_isBool (by rw [← hsrc]; exact hex1)
  simp +instances only [MapObj.norm_of_ne hp, World.get?_norm]
  cases hwn : a.get? "w" with
  | none => simp only []; sim_walk0
  | some n' =>
    simp only []
    cases hg : w.get? n' with
    | none => simp only [Option.map_none]; sim_walk0
    | some wm =>
      have hwp : wm.kind ≠ .packed := by
        apply Kind.ne_packed_of_isBool
        unfold weightBool nameBool at hex2
        rw [hwn] at hex2
        simp only [hg] at hex2
        exact hex2
      simp +instances only [Option.map_some, MapObj.norm_of_ne hwp]
      sim_walk0

theorem sim_opMask {w : World} (hw : w.Good) (a : Args) : Sim (HS.opMask w.norm a) (HS.opMask w a) := by
  unfold HS.opMask
  refine sim_withMap hw fun n m hn hget hok hsrc => ?_
  simp only [World.get?_norm]
  cases hg : w.get? (a.getD "by" "") with
  | none => simp only [Option.map_none]; exact sim_same w _
  | some mk =>
    have hok2 := hw.get hg
    simp only [Option.map_some]
    rcases m.packed_cases hok.2.1 with hp | ⟨co, so, st, cache, view, rfl⟩ <;>
      rcases mk.packed_cases hok2.2.1 with hp2 | ⟨co2, so2, st2, cache2, view2, rfl⟩
    · simp +instances only [MapObj.norm_of_ne hp, MapObj.norm_of_ne hp2]
      sim_walk0
    · simp +instances only [MapObj.norm_of_ne hp, pkd_norm, apiApplyMask_pkd_right]
      sim_walk0
    · dsimp +instances only [pkd_norm]
      simp +instances only [MapObj.norm_of_ne hp2, apiApplyMask_pkd_left]
      sim_walk
    · dsimp +instances only [pkd_norm]
      simp +instances only [apiApplyMask_pkd_left, apiApplyMask_pkd_right]
      sim_walk

def BoolRhs.norm : BoolRhs → BoolRhs
  | .const k => .const k
  | .map b => .map b.norm

/-- the right operand of `bop`, as `opBop` computes it -/
def bopRhs (w : World) (a : Args) : Option BoolRhs :=
  match a.get? "const", a.get? "rhs" with
  | some "T", _ => some (.const true)
  | some "F", _ => some (.const false)
  | _, some r => (w.get? r).map .map
  | _, _ => none

theorem bopRhs_norm (w : World) (a : Args) : bopRhs w.norm a = (bopRhs w a).map BoolRhs.norm := by
  unfold bopRhs
  split
  · rfl
  · rfl
  · rw [World.get?_norm]
    cases w.get? _ <;> rfl
  · rfl

theorem bopRhs_ok {w : World} (hw : w.Good) {a : Args} {b : MapObj} (h : bopRhs w a = some (.map b)) :
    b.Ok := by
  unfold bopRhs at h
  split at h
  · cases h
  · cases h
  · cases hg : w.get? _ with
    | none => rw [hg] at h; cases h
    | some b' =>
      rw [hg] at h
      cases h
      exact hw.get hg
  · cases h

theorem opBop_eq (w : World) (a : Args) : HS.opBop w a =
    withMap w a fun m =>
      let n := a.pos.headD ""
      match bopRhs w a with
      | none => (w, "bad-op:rhs")
      | some rhs =>
        let inPlace := a.flag "inplace"
        match apiBoolOp m (a.getD "op" "and") rhs inPlace with
        | .ok st =>
          if inPlace then (w.put n { m with st := st, cache := none }, "ok")
          else (w.bind (a.getD "r" "tmp") { m with st := st, cache := none }, "ok")
        | .error e => ((if inPlace && m.kind.isBool then w.put n { m with cache := none } else w), errLine e) := rfl

theorem sim_opBop {w : World} (hw : w.Good) (a : Args) : Sim (HS.opBop w.norm a) (HS.opBop w a) := by
  rw [opBop_eq, opBop_eq]
  refine sim_withMap hw fun n m hn hget hok hsrc => ?_
  simp only [bopRhs_norm]
  cases hr : bopRhs w a with
  | none => simp only [Option.map_none]; exact sim_same w _
  | some rhs =>
    simp only [Option.map_some]
    cases rhs with
    | const k =>
      simp only [BoolRhs.norm]
      rcases m.packed_cases hok.2.1 with hp | ⟨co, so, st, cache, view, rfl⟩
      · simp +instances only [MapObj.norm_of_ne hp]
        sim_walk0
      · dsimp +instances only [pkd_norm]
        simp +instances only [apiBoolOp_pkd_left]
        sim_walk
    | map b =>
      have hbok := bopRhs_ok hw hr
      simp only [BoolRhs.norm]
      rcases m.packed_cases hok.2.1 with hp | ⟨co, so, st, cache, view, rfl⟩ <;>
        rcases b.packed_cases hbok.2.1 with hp2 | ⟨co2, so2, st2, cache2, view2, rfl⟩
      · simp +instances only [MapObj.norm_of_ne hp, MapObj.norm_of_ne hp2]
        sim_walk0
      · simp +instances only [MapObj.norm_of_ne hp, pkd_norm, apiBoolOp_pkd_right]
        sim_walk0
      · dsimp +instances only [pkd_norm]
        simp +instances only [MapObj.norm_of_ne hp2, apiBoolOp_pkd_left]
        sim_walk
      · dsimp +instances only [pkd_norm]
        simp +instances only [apiBoolOp_pkd_left, apiBoolOp_pkd_right]
        sim_walk


/-! ### file operations -/

/-- the kind the reader recovers from the named file is boolean (bit-packed or ordinary) -/
def fileBool (w : World) (n : String) : Bool :=
  match (w.files.find? (·.1 == n)).map (·.2) with
  | some fo => (match fileKind fo with | some k => k.isBool | none => false)
  | none => false

theorem FileObj.not_bitpack_of_kind {f : FileObj} (h : (match fileKind f with | some k => k.isBool | none => false) = false) :
    f.bitpack = false := by
  cases hb : f.bitpack with
  | false => rfl
  | true =>
    have : fileKind f = some .packed := by unfold fileKind; simp [hb]
    rw [this] at h
    cases h

theorem sim_opRead {w : World} (hw : w.Good) (a : Args) : Sim (HS.opRead w.norm a) (HS.opRead w a) := by
  unfold HS.opRead
  simp only [World.files_find_norm]
  try dsimp +instances only [World.norm_metas]
  cases hf : (w.files.find? (·.1 == a.getD "f" "f")).map (·.2) with
  | none => simp only [Option.map_none]; exact sim_same w _
  | some fo =>
    have hfo := hw.file_find hf
    simp only [Option.map_some, apiRead_norm hfo.2, FileObj.norm_mdata]
    sim_walk

theorem sim_opCovread {w : World} (a : Args) : Sim (HS.opCovread w.norm a) (HS.opCovread w a) := by
  unfold HS.opCovread
  simp only [World.files_find_norm]
  cases hf : (w.files.find? (·.1 == a.getD "f" "f")).map (·.2) with
  | none => simp only [Option.map_none]; exact sim_same w _
  | some fo =>
    simp only [Option.map_some, FileObj.norm_covord, FileObj.norm_spord, FileObj.norm_file]
    exact sim_same w _

theorem sim_opFitsraw {w : World} (hw : w.Good) (a : Args) : Sim (HS.opFitsraw w.norm a) (HS.opFitsraw w a) := by
  unfold HS.opFitsraw
  simp only [World.files_find_norm]
  cases hf : (w.files.find? (·.1 == a.getD "f" "f")).map (·.2) with
  | none => simp only [Option.map_none]; sim_walk0
  | some fo =>
    have hfo := hw.file_find hf
    simp only [Option.map_some]
    rcases fo.bitpack_cases hfo.2 with hb | ⟨co, so, ar, p, fs, ww, md, fl, rfl⟩
    · simp +instances only [FileObj.norm_of_not_bitpack hb]
      sim_walk0
    · have e : ("i2" == "rec") = false := by decide
      cases hc : parseInts (a.getD "cov" "_") <;> cases hs : parseVals (a.getD "sp" "_") <;>
        simp +instances only [FileObj.norm, fileKind, ↓reduceIte, e, Bool.false_eq_true] <;>
        exact sim_same w _

theorem sim_opDor {w : World} (hw : w.Good) (a : Args)
    (hex : (fileBool w (a.getD "f" "f") ||
      (match a.get? "wf" with | some n => fileBool w n | none => false)) = false) :
    Sim (HS.opDor w.norm a) (HS.opDor w a) := by
  have hex1 : fileBool w (a.getD "f" "f") = false := by
    cases h : fileBool w (a.getD "f" "f") with
    | false => rfl
    | true => rw [h] at hex; simp at hex
  have hex2 : (match a.get? "wf" with | some n => fileBool w n | none => false) = false := by
    rw [hex1] at hex; simpa using hex
  unfold HS.opDor
  dsimp +instances only [World.norm_hpfiles, World.norm_metas]
  simp only [World.files_find_norm]
  split
  · sim_walk0
  · cases hf : (w.files.find? (·.1 == a.getD "f" "f")).map (·.2) with
    | none => simp only [Option.map_none]; sim_walk0
    | some fo =>
      have hb : fo.bitpack = false := by
        apply FileObj.not_bitpack_of_kind
        unfold fileBool at hex1
        simp only [hf] at hex1
        exact hex1
      simp +instances only [Option.map_some, FileObj.norm_of_not_bitpack hb]
      cases hwf : a.get? "wf" with
      | none => simp only []; sim_walk0
      | some n' =>
        simp only []
        cases hf2 : (w.files.find? (·.1 == n')).map (·.2) with
        | none => simp only [Option.map_none]; sim_walk0
        | some wfo =>
          have hb2 : wfo.bitpack = false := by
            apply FileObj.not_bitpack_of_kind
            rw [hwf] at hex2
            unfold fileBool at hex2
            simp only [hf2] at hex2
            exact hex2
          simp +instances only [Option.map_some, FileObj.norm_of_not_bitpack hb2]
          sim_walk0

theorem mapM_option_map {α β γ : Type} (g : α → Option β) (f : β → γ) (l : List α) :
    l.mapM (fun a => (g a).map f) = (l.mapM g).map (List.map f) := by
  induction l with
  | nil => rfl
  | cons a as ih =>
    simp only [List.mapM_cons, ih]
    cases g a with
    | none => rfl
    | some b => cases as.mapM g <;> rfl

theorem mapM_files_norm (w : World) (names : List String) :
    names.mapM (fun n => (w.norm.files.find? (·.1 == n)).map (·.2)) =
      (names.mapM (fun n => (w.files.find? (·.1 == n)).map (·.2))).map (List.map FileObj.norm) := by
  simp only [World.files_find_norm]
  exact mapM_option_map _ _ _

theorem apiWrite_norm (m : MapObj) (md : List (String × String)) :
    apiWrite m.norm md = (apiWrite m md).norm := by
  by_cases hp : m.kind = .packed
  · obtain ⟨co, so, k, s, st, c, v⟩ := m
    simp only at hp
    subst hp
    rfl
  · rw [MapObj.norm_of_ne hp]
    have : (apiWrite m md).bitpack = false := by
      unfold apiWrite
      cases hk : m.kind with
      | packed => exact absurd hk hp
      | plain dt => cases dt <;> rfl
      | wide n => rfl
      | recd fs pr => rfl
    rw [FileObj.norm_of_not_bitpack this]

theorem fileKind_packed {f : FileObj} (h : fileKind f = some .packed) : f.bitpack = true := by
  cases hb : f.bitpack with
  | true => rfl
  | false =>
    exfalso
    unfold fileKind at h
    simp only [hb, Bool.false_eq_true, if_false] at h
    split at h
    · cases hp : f.primary <;> rw [hp] at h <;> cases h
    · split at h
      · cases h
      · split at h
        · cases h
        · cases hd : parseDTCode f.arrDT <;> rw [hd] at h <;> cases h

theorem apiWrite_bitpack {m : MapObj} (md : List (String × String)) (hp : m.kind ≠ .packed) :
    (apiWrite m md).bitpack = false := by
  unfold apiWrite
  cases hk : m.kind with
  | packed => exact absurd hk hp
  | plain dt => cases dt <;> rfl
  | wide n => rfl
  | recd fs pr => rfl

/-- `apiCat` looks at the files after the first only through their orders and arrays -/
theorem apiCat_rest_norm (f0 : FileObj) (rest : List FileObj) (co : Option Nat) (ck oo : Bool) :
    apiCat (f0 :: rest.map FileObj.norm) co ck oo = apiCat (f0 :: rest) co ck oo := by
  have hany : ∀ s, (rest.map FileObj.norm).any (fun f => f.spord != s) = rest.any (fun f => f.spord != s) := by
    intro s; simp [List.any_map, Function.comp_def]
  have hmap : (rest.map FileObj.norm).map (fun f => (⟨cfgOf f.covord f.spord, f.file⟩ : CatIn Val)) =
      rest.map (fun f => ⟨cfgOf f.covord f.spord, f.file⟩) := by
    simp [List.map_map, Function.comp_def]
  unfold apiCat
  simp only [List.map_cons, List.any_cons, hany, hmap]

theorem apiCat_norm {fs : List FileObj} (hall : ∀ f ∈ fs, f.KindOk) (co : Option Nat) (ck oo : Bool) :
    apiCat (fs.map FileObj.norm) co ck oo = FileObj.norm <$> apiCat fs co ck oo := by
  cases fs with
  | nil =>
    unfold apiCat
    simp only [List.map_nil, bind, Except.bind, pure, Except.pure, throw, throwThe, MonadExceptOf.throw]
    split <;> rfl
  | cons f0 rest =>
    rw [List.map_cons, apiCat_rest_norm]
    rcases f0.bitpack_cases (hall f0 (List.mem_cons_self ..)) with hb | ⟨c0, s0, ar, p, fs', ww, md, fl, rfl⟩
    · rw [FileObj.norm_of_not_bitpack hb]
      cases h : apiCat (f0 :: rest) co ck oo with
      | error e => rfl
      | ok fo =>
        obtain ⟨f0', rest', kind, st, hfs, _, hk, _, _, rfl⟩ := apiCat_ok h
        cases hfs
        have hkp : kind ≠ .packed := by
          intro hkk; rw [hkk] at hk
          rw [fileKind_packed hk] at hb; cases hb
        show Except.ok _ = Except.ok (FileObj.norm _)
        rw [FileObj.norm_of_not_bitpack (apiWrite_bitpack [] hkp)]
    · have e : ("i2" == "rec") = false := by decide
      unfold apiCat
      simp only [FileObj.norm, fileKind, bind, Except.bind, pure, Except.pure, throw, throwThe,
        MonadExceptOf.throw, ↓reduceIte, e, Bool.false_eq_true, List.map_cons, List.any_cons]
      simp only [map_ite_E, map_error_E]
      split
      · rfl
      · split
        · rfl
        · split
          · rfl
          · split <;> split
            · rfl
            · rename_i h1 _ _ h2
              exact absurd (h1.symm.trans h2) (by simp)
            · rename_i _ h1 _ h2
              exact absurd (h1.symm.trans h2) (by simp)
            · rename_i _ h1 _ _ h2
              have := Option.some.inj (h1.symm.trans h2)
              subst this
              rfl
theorem sim_opCat {w : World} (hw : w.Good) (a : Args) : Sim (HS.opCat w.norm a) (HS.opCat w a) := by
  unfold HS.opCat
  simp only [mapM_files_norm]
  cases hfs : (splitList (a.getD "files" "_")).mapM (fun n => (w.files.find? (·.1 == n)).map (·.2)) with
  | none => simp only [Option.map_none]; exact sim_same w _
  | some fs =>
    have hall : ∀ f ∈ fs, f.KindOk := fun f hf => by
      obtain ⟨n, _, hn⟩ := mem_of_mapM_some _ _ _ hfs f hf
      exact (hw.file_find hn).2
    simp only [Option.map_some, apiCat_norm hall]
    cases hc : apiCat fs (a.nat? "covord") (a.flag "check") (a.flag "or") with
    | error e => simp only [map_error_E]; exact sim_same w _
    | ok fo => simp only [map_ok_E]; exact sim_files w _ _ (FileObj.norm_norm _)

/-! ### union / intersection operations -/

/-- a function that cannot tell a bit-packed object from its ordinary-boolean form -/
abbrev BlindTo {β : Type} (F : MapObj → β) : Prop :=
  (fun co so st c v => F (bln co so st c v)) = (fun co so st c v => F (pkd co so st c v))

theorem BlindTo.norm {β : Type} {F : MapObj → β} (hF : (fun co so st c v => F (bln co so st c v)) = (fun co so st c v => F (pkd co so st c v))) {m : MapObj} (hk : m.KindOk) :
    F m.norm = F m := by
  rcases m.packed_cases hk with hp | ⟨co, so, st, c, v, rfl⟩
  · rw [MapObj.norm_of_ne hp]
  · rw [pkd_norm]
    exact congrFun (congrFun (congrFun (congrFun (congrFun hF co) so) st) c) v

theorem map_norm_blind {β : Type} {F : MapObj → β} {l : List MapObj} (hall : ∀ m ∈ l, m.KindOk)
    (hF : (fun co so st c v => F (bln co so st c v)) = (fun co so st c v => F (pkd co so st c v))) : (l.map MapObj.norm).map F = l.map F := by
  rw [List.map_map]
  exact List.map_congr_left (fun m hm => BlindTo.norm hF (hall m hm))

theorem any_norm_blind {p : MapObj → Bool} {l : List MapObj} (hall : ∀ m ∈ l, m.KindOk)
    (hF : (fun co so st c v => p (bln co so st c v)) = (fun co so st c v => p (pkd co so st c v))) : (l.map MapObj.norm).any p = l.any p := by
  induction l with
  | nil => rfl
  | cons a as ih =>
    simp only [List.map_cons, List.any_cons, BlindTo.norm hF (hall a (List.mem_cons_self ..)),
      ih (fun m hm => hall m (List.mem_cons_of_mem _ hm))]

theorem all_norm_blind {p : MapObj → Bool} {l : List MapObj} (hall : ∀ m ∈ l, m.KindOk)
    (hF : (fun co so st c v => p (bln co so st c v)) = (fun co so st c v => p (pkd co so st c v))) : (l.map MapObj.norm).all p = l.all p := by
  induction l with
  | nil => rfl
  | cons a as ih =>
    simp only [List.map_cons, List.all_cons, BlindTo.norm hF (hall a (List.mem_cons_self ..)),
      ih (fun m hm => hall m (List.mem_cons_of_mem _ hm))]

theorem forIn_norm_blind {β : Type} {B : MapObj → β → Except Err (ForInStep β)} {l : List MapObj} (b : β)
    (hall : ∀ m ∈ l, m.KindOk) (hF : (fun co so st c v => B (bln co so st c v)) = (fun co so st c v => B (pkd co so st c v))) :
    forIn (l.map MapObj.norm) b B = forIn l b B := by
  induction l generalizing b with
  | nil => rfl
  | cons a as ih =>
    simp only [List.map_cons, List.forIn_cons, BlindTo.norm hF (hall a (List.mem_cons_self ..))]
    congr 1
    funext r
    cases r with
    | done b' => rfl
    | yield b' => exact ih b' (fun m hm => hall m (List.mem_cons_of_mem _ hm))

theorem any_cons_norm_blind {p : MapObj → Bool} {l : List MapObj} (f0 : MapObj) (hall : ∀ m ∈ l, m.KindOk)
    (hF : (fun co so st c v => p (bln co so st c v)) = (fun co so st c v => p (pkd co so st c v))) :
    (f0 :: l.map MapObj.norm).any p = (f0 :: l).any p := by
  rw [List.any_cons, List.any_cons, any_norm_blind hall hF]

theorem map_cons_norm_blind {β : Type} {F : MapObj → β} {l : List MapObj} (f0 : MapObj) (hall : ∀ m ∈ l, m.KindOk)
    (hF : (fun co so st c v => F (bln co so st c v)) = (fun co so st c v => F (pkd co so st c v))) :
    (f0 :: l.map MapObj.norm).map F = (f0 :: l).map F := by
  rw [List.map_cons, List.map_cons, map_norm_blind hall hF]

theorem forIn_cons_norm_blind {β : Type} {B : MapObj → β → Except Err (ForInStep β)} {l : List MapObj}
    (f0 : MapObj) (b : β) (hall : ∀ m ∈ l, m.KindOk)
    (hF : (fun co so st c v => B (bln co so st c v)) = (fun co so st c v => B (pkd co so st c v))) :
    forIn (f0 :: l.map MapObj.norm) b B = forIn (f0 :: l) b B := by
  rw [List.forIn_cons, List.forIn_cons]
  congr 1
  funext r
  cases r with
  | done b' => rfl
  | yield b' => exact forIn_norm_blind b' hall hF

theorem apiMultiOp_rest_norm (row : OpRow) (f0 : MapObj) (rest : List MapObj) (hall : ∀ m ∈ rest, m.KindOk) :
    apiMultiOp row (f0 :: rest.map MapObj.norm) = apiMultiOp row (f0 :: rest) := by
  unfold apiMultiOp
  simp only [List.length_cons, List.length_map, pure_bind]
  rw [forIn_cons_norm_blind f0 _ hall]
  · rw [map_cons_norm_blind f0 hall]
    · repeat' (rw [any_cons_norm_blind f0 hall])
      · simp only [List.any_cons, List.all_cons, List.any_map, List.all_map, Function.comp_def,
          MapObj.norm_c, MapObj.norm_st]
        rfl
      all_goals rfl
    · rfl
  · rfl
theorem ite_eq_map_ite {α β : Type} {f : α → β} {c : Prop} {i1 i2 : Decidable c} {a1 b1 : Except Err β}
    {a2 b2 : Except Err α} (h1 : a1 = f <$> a2) (h2 : b1 = f <$> b2) :
    @ite _ c i1 a1 b1 = f <$> @ite _ c i2 a2 b2 := by
  cases i1 with
  | isFalse n1 =>
    cases i2 with
    | isFalse n2 => exact h2
    | isTrue t2 => exact absurd t2 n1
  | isTrue t1 =>
    cases i2 with
    | isFalse n2 => exact absurd t1 n2
    | isTrue t2 => exact h1

set_option maxHeartbeats 1000000 in
theorem apiMultiOp_head_lit (row : OpRow) (co so : Nat) (st : State Val) (c : Option Nat) (v : Option (String × Nat))
    (rest : List MapObj) :
    apiMultiOp row (bln co so st c v :: rest) = MapObj.norm <$> apiMultiOp row (pkd co so st c v :: rest) := by
  unfold apiMultiOp
  cases hd : parseDTCode row.dtypeOut <;>
  simp +instances only [map_bind, map_pure, map_ite_E, pure_bind, throw_bind_E, map_throw_E, List.length_cons,
    pkd_covord, pkd_spord, pkd_kind, pkd_sent, pkd_st, pkd_cache, pkd_view, bln_covord, bln_spord,
    bln_kind, bln_sent, bln_st, bln_cache, bln_view, bln_c, bln_vc, List.forIn_cons,
    List.any_cons, List.all_cons, List.map_cons,
    Kind.isIntegerMap.eq_2, Kind.isIntegerMap.eq_3, Kind.dt, Bool.false_and, Bool.false_eq_true, ↓reduceIte,
    Bool.not_true, Bool.and_false] <;>
  (split; rfl) <;> (split; rfl) <;> (congr 1; funext _) <;>
  (generalize hM : multiOp _ _ _ _ _ _ _ = M
   generalize hM2 : multiOp _ _ _ _ _ _ _ = M2
   have hMM : M = M2 := hM.symm.trans hM2
   subst hMM
   cases M) <;>
  (repeat' (first | split | simp only [map_ite_E, map_pure, map_throw_E])) <;>
  first | rfl | exact ite_eq_map_ite rfl rfl
theorem multiKindOut_ne_packed (k : Kind) (d : String) (hk : k ≠ .packed) : multiKindOut k d ≠ .packed := by
  unfold multiKindOut
  split
  · intro h; cases h
  · intro h; cases h
  · exact hk

theorem multiKindE_ne_packed (k : Kind) (d : String) (hk : k ≠ .packed) : multiKindE k d ≠ .packed := by
  unfold multiKindE
  split
  · intro h; cases h
  · exact hk

theorem apiMultiOp_norm (row : OpRow) {maps : List MapObj} (hall : ∀ m ∈ maps, m.KindOk) :
    apiMultiOp row (maps.map MapObj.norm) = MapObj.norm <$> apiMultiOp row maps := by
  cases maps with
  | nil => rfl
  | cons f0 rest =>
    rw [List.map_cons, apiMultiOp_rest_norm row f0.norm rest (fun m hm => hall m (List.mem_cons_of_mem _ hm))]
    rcases f0.packed_cases (hall f0 (List.mem_cons_self ..)) with hp | ⟨co, so, st, c, v, rfl⟩
    · rw [MapObj.norm_of_ne hp]
      cases h : apiMultiOp row (f0 :: rest) with
      | error e => rfl
      | ok r =>
        obtain ⟨first, rest', hfs, _, _, _, _, hcase⟩ := WFApi.apiMultiOp_ok h
        cases hfs
        have : r.kind ≠ .packed := by
          rcases hcase with ⟨hk, _, _⟩ | ⟨hk, _, _⟩
          · rw [hk]; exact multiKindE_ne_packed _ _ hp
          · rw [hk]; exact multiKindOut_ne_packed _ _ hp
        show Except.ok r = Except.ok r.norm
        rw [MapObj.norm_of_ne this]
    · rw [pkd_norm]
      exact apiMultiOp_head_lit row co so st c v rest

theorem Kind.code_norm (k : Kind) : k.norm.code = k.code := by cases k <;> rfl

theorem mapM_get_norm (w : World) (names : List String) :
    names.mapM w.norm.get? = (names.mapM w.get?).map (List.map MapObj.norm) := by
  have : w.norm.get? = fun n => (w.get? n).map MapObj.norm := funext (World.get?_norm w)
  rw [this]
  exact mapM_option_map _ _ _

theorem sim_opMop {w : World} (hw : w.Good) (a : Args) : Sim (HS.opMop w.norm a) (HS.opMop w a) := by
  unfold HS.opMop
  simp only [mapM_get_norm]
  cases hm : (splitList (a.getD "maps" "_")).mapM w.get? with
  | none => simp only [Option.map_none]; exact sim_same w _
  | some maps =>
    have hall : ∀ m ∈ maps, m.KindOk := fun m hmm => (mem_mapM_get hw hm m hmm).2.1
    have hcode : ((maps.map MapObj.norm).head?.map (·.kind.code)) = (maps.head?.map (·.kind.code)) := by
      cases maps with
      | nil => rfl
      | cons m ms => simp [MapObj.norm, Kind.code_norm]
    simp only [Option.map_some, hcode, apiMultiOp_norm _ hall, List.length_map]
    sim_walk

/-! ### the exception set -/

/-- **the lines on which a bit-packed map and an ordinary boolean map are told apart** (parsed
    operation and arguments, in the world `w`; the same in two twin worlds, `asym_twin`):
    * `info` of a boolean map (prints the kind);
    * `pack` of a boolean map (already packed: a copy that drops the metadata; ordinary: converted,
      refused unless the coverage pixels hold a multiple of 8 pixels);
    * `deg`, `upg` of a boolean map (`NotImplementedError` on a bit-packed map), and `deg` with a
      boolean weight map;
    * `genhp ord=…` of a boolean map (goes through `degrade`);
    * `dor` on a boolean file or with a boolean weight file (`NotImplementedError` on `BITPACK`);
    * `nvalid path=str` of a boolean map (`__str__` of a bit-packed map does not count). -/
def asym (w : World) (op : String) (a : Args) : Bool :=
  match op with
  | "info" => srcBool w a
  | "pack" => srcBool w a
  | "upg" => srcBool w a
  | "deg" => srcBool w a || weightBool w a
  | "genhp" => srcBool w a && (a.nat? "ord").isSome
  | "nvalid" => srcBool w a && a.get? "path" == some "str"
  | "dor" => fileBool w (a.getD "f" "f") ||
      (match a.get? "wf" with | some n => fileBool w n | none => false)
  | _ => false

/-- … on a protocol line -/
def asymLine (w : World) (line : String) : Bool :=
  match (line.trimAscii.toString.splitOn " ").filter (· != "") with
  | [] => false
  | op :: rest => if op.startsWith "p." then false else asym w op (parseArgs rest)

theorem sim_stepArgs {w : World} (hw : w.Good) (op : String) (a : Args) (hex : asym w op a = false) :
    Sim (HS.stepArgs w.norm op a) (HS.stepArgs w op a) := by
  unfold HS.stepArgs
  split
  all_goals first
    | exact sim_same w _
    | (with_reducible first
        | exact sim_opCfg a | exact sim_opMocread a | exact sim_opFromhp a | exact sim_opHpximplicit a
        | exact sim_opHpxread a | exact sim_opRand a | exact sim_opDrop a | exact sim_opReset a
        | exact sim_opCovread a
        | exact sim_opUpd hw a | exact sim_opUpdr hw a | exact sim_opSop hw a | exact sim_opAstype hw a | exact sim_opInv hw a
        | exact sim_opBits hw a | exact sim_opChk hw a | exact sim_opCopy hw a | exact sim_opScov hw a
        | exact sim_opMeta hw a | exact sim_opGetmeta hw a | exact sim_opWrite hw a | exact sim_opInterp hw a
        | exact sim_opHpxwrite hw a | exact sim_opSet hw a | exact sim_opVals hw a | exact sim_opGet hw a
        | exact sim_opValid hw a | exact sim_opCovmap hw a | exact sim_opVpsc hw a | exact sim_opFracdet hw a
        | exact sim_opCovmask hw a | exact sim_opDump hw a | exact sim_opState hw a | exact sim_opBad hw a
        | exact sim_opSingle hw a | exact sim_opMoc hw a | exact sim_opGeom hw a | exact sim_opMask hw a
        | exact sim_opBop hw a | exact sim_opMop hw a | exact sim_opRead hw a | exact sim_opFitsraw hw a
        | exact sim_opCat hw a)
    | ((with_reducible refine sim_opInfo hw a ?_); exact hex)
    | ((with_reducible refine sim_opPack hw a ?_); exact hex)
    | ((with_reducible refine sim_opUpg hw a ?_); exact hex)
    | ((with_reducible refine sim_opDeg hw a ?_); exact hex)
    | ((with_reducible refine sim_opGenhp hw a ?_); exact hex)
    | ((with_reducible refine sim_opNvalid hw a ?_); exact hex)
    | ((with_reducible refine sim_opDor hw a ?_); exact hex)

theorem sim_packed (w : World) (s : String) (pw : PackedWorld) :
    Sim ({ w.norm with packed := pw }, s) ({ w with packed := pw }, s) :=
  ⟨rfl, by show World.norm _ = World.norm _; simp only [World.norm, List.map_map, World.mk.injEq, and_true, true_and]
           exact ⟨List.map_congr_left (fun e _ => by simp [MapObj.norm_norm]),
             List.map_congr_left (fun e _ => by simp [FileObj.norm_norm])⟩⟩

/-- **one protocol line commutes with the normalisation of the world**, outside the exception set -/
theorem sim_step {w : World} (hw : w.Good) (line : String) (hex : asymLine w line = false) :
    Sim (HS.step w.norm line) (HS.step w line) := by
  unfold HS.step
  unfold asymLine at hex
  simp only
  split
  · exact sim_same w _
  · rename_i op rest htoks
    simp only [htoks] at hex
    split
    · exact sim_packed w _ _
    · rename_i hp
      simp only [hp, Bool.false_eq_true, if_false] at hex
      exact sim_stepArgs hw op (parseArgs rest) hex

/-! ### the exception set is the same in twin worlds -/

theorem nameBool_norm (w : World) (n : String) : nameBool w.norm n = nameBool w n := by
  unfold nameBool
  rw [World.get?_norm]
  cases w.get? n with
  | none => rfl
  | some m => exact Kind.isBool_norm m.kind

theorem srcBool_norm (w : World) (a : Args) : srcBool w.norm a = srcBool w a := by
  unfold srcBool
  cases a.pos with
  | nil => rfl
  | cons n rest => exact nameBool_norm w n

theorem weightBool_norm (w : World) (a : Args) : weightBool w.norm a = weightBool w a := by
  unfold weightBool
  cases a.get? "w" with
  | none => rfl
  | some n => exact nameBool_norm w n

theorem fileBool_norm {w : World} (hw : w.Good) (n : String) : fileBool w.norm n = fileBool w n := by
  unfold fileBool
  rw [World.files_find_norm]
  cases hf : (w.files.find? (·.1 == n)).map (·.2) with
  | none => rfl
  | some fo =>
    have hfo := (hw.file_find hf).2
    simp only [Option.map_some]
    rcases fo.bitpack_cases hfo with hb | ⟨co, so, ar, p, fs, ww, md, fl, rfl⟩
    · rw [FileObj.norm_of_not_bitpack hb]
    · have e : ("i2" == "rec") = false := by decide
      simp [FileObj.norm, fileKind, e, Kind.isBool]

theorem asym_norm {w : World} (hw : w.Good) (op : String) (a : Args) : asym w.norm op a = asym w op a := by
  unfold asym
  split <;> simp only [srcBool_norm, weightBool_norm, fileBool_norm hw]

theorem asymLine_norm {w : World} (hw : w.Good) (line : String) : asymLine w.norm line = asymLine w line := by
  unfold asymLine
  split
  · rfl
  · simp only [asym_norm hw]

theorem asymLine_twin {w₁ w₂ : World} (h : w₁.Twin w₂) (g₁ : w₁.Good) (g₂ : w₂.Good) (line : String) :
    asymLine w₁ line = asymLine w₂ line := by
  rw [← asymLine_norm g₁, ← asymLine_norm g₂, World.twin_iff.1 h]

/-! ### the simulation -/

/-- **one step in twin worlds**: outside the exception set the same line gives the same answer
    and twin worlds again -/
theorem twin_step {w₁ w₂ : World} (h : w₁.Twin w₂) (g₁ : w₁.Good) (g₂ : w₂.Good) (line : String)
    (hex : asymLine w₁ line = false) :
    (HS.step w₁ line).2 = (HS.step w₂ line).2 ∧ (HS.step w₁ line).1.Twin (HS.step w₂ line).1 := by
  have hex2 : asymLine w₂ line = false := by rw [← asymLine_twin h g₁ g₂]; exact hex
  have s1 := sim_step g₁ line hex
  have s2 := sim_step g₂ line hex2
  rw [World.twin_iff.1 h] at s1
  exact ⟨s1.1.symm.trans s2.1, World.twin_iff.2 (s1.2.symm.trans s2.2)⟩

/-- run a history, collecting the answers -/
def runObs (w : World) : List String → World × List String
  | [] => (w, [])
  | l :: ls => ((runObs (HS.step w l).1 ls).1, (HS.step w l).2 :: (runObs (HS.step w l).1 ls).2)

/-- no line of the history falls in the exception set (each judged in the world it is run in) -/
def twinSafe (w : World) : List String → Bool
  | [] => true
  | l :: ls => !asymLine w l && twinSafe (HS.step w l).1 ls

/-- **any history in twin worlds**: if no line falls in the exception set, the two runs give the
    same list of answers and end in twin worlds -/
theorem twin_history {w₁ w₂ : World} (h : w₁.Twin w₂) (g₁ : w₁.Good) (g₂ : w₂.Good) (lines : List String)
    (hs : twinSafe w₁ lines = true) :
    (runObs w₁ lines).2 = (runObs w₂ lines).2 ∧ (runObs w₁ lines).1.Twin (runObs w₂ lines).1 := by
  induction lines generalizing w₁ w₂ with
  | nil => exact ⟨rfl, h⟩
  | cons l ls ih =>
    simp only [twinSafe, Bool.and_eq_true, Bool.not_eq_true'] at hs
    obtain ⟨ho, ht⟩ := twin_step h g₁ g₂ l hs.1
    obtain ⟨io, it⟩ := ih ht (Good.step g₁ l) (Good.step g₂ l) hs.2
    exact ⟨by simp only [runObs, ho, io], it⟩

theorem runObs_world (w : World) (lines : List String) :
    (runObs w lines).1 = lines.foldl (fun w l => (HS.step w l).1) w := by
  induction lines generalizing w with
  | nil => rfl
  | cons l ls ih => simp only [runObs, List.foldl_cons, ih]

/-! ### creation: `cfg … kind=packed` against `cfg … kind=plain dtype=b1` -/

/-- **when `make_empty` builds a bit-packed map**: exactly when it builds the ordinary boolean map
    with the same arguments, the coverage pixels hold a multiple of 8 pixels, and the sentinel is
    `False`; the two maps are then the same up to the kind -/
theorem apiMakeEmpty_packed_iff (co so : Nat) (sent : Option Val) (cp : List Nat) (m : MapObj) :
    apiMakeEmpty co so .packed sent cp = .ok m ↔
      (cfgOf co so).nfine % 8 = 0 ∧ ∃ m', apiMakeEmpty co so (.plain .bool) sent cp = .ok m' ∧
        m'.sent = .bool false ∧ m = { m' with kind := .packed } := by
  unfold apiMakeEmpty
  simp only [bind, Except.bind, pure, Except.pure, throw, throwThe, MonadExceptOf.throw]
  split
  · simp
  · split
    · simp
    · cases hcs : checkSentinel .bool sent with
      | error e => simp
      | ok s =>
        have hb := WFApi.checkSentinel_bool hcs rfl
        obtain ⟨x, rfl⟩ := Val.isBoolVal_iff.1 hb
        simp only []
        by_cases h8 : (cfgOf co so).nfine % 8 = 0
        · cases x with
          | false =>
            simp [h8]
            constructor
            · rintro rfl; rfl
            · intro h; rw [h]; rfl
          | true => simp [h8]
        · simp [h8]

theorem World.Twin.bind {w₁ w₂ : World} (h : w₁.Twin w₂) (n : String) {m₁ m₂ : MapObj} (hm : m₁.Twin m₂) :
    (w₁.bind n m₁).Twin (w₂.bind n m₂) := by
  rw [World.twin_iff] at h ⊢
  rw [World.bind_norm, World.bind_norm, h, MapObj.twin_iff.1 hm]

/-- the two creation lines, run in twin worlds where both succeed, give twin worlds -/
theorem cfg_twin {w₁ w₂ : World} (h : w₁.Twin w₂) (n : String) {co so : Nat} {sent : Option Val}
    {cp : List Nat} {m₁ m₂ : MapObj} (h₁ : apiMakeEmpty co so .packed sent cp = .ok m₁)
    (h₂ : apiMakeEmpty co so (.plain .bool) sent cp = .ok m₂) :
    m₁.Twin m₂ ∧ (w₁.bind n m₁).Twin (w₂.bind n m₂) := by
  obtain ⟨_, m', hm', hs, rfl⟩ := (apiMakeEmpty_packed_iff co so sent cp m₁).1 h₁
  rw [h₂] at hm'
  cases hm'
  have hk : m₂.kind = .plain .bool := (WFApi.apiMakeEmpty_ok h₂).2.2.2.1
  have ht : MapObj.Twin { m₂ with kind := .packed } m₂ :=
    ⟨rfl, rfl, .inr ⟨.inl rfl, .inr hk⟩, rfl, rfl, rfl, rfl⟩
  exact ⟨ht, h.bind n ht⟩

/-! ### non-vacuity and the exception witnesses (evaluated by the compiler: the kernel cannot run
the string parser) -/

/-- an empty boolean storage at orders (0, 2): 12 coverage pixels of 16 pixels -/
def exEmpty : State Val := makeEmpty (cfgOf 0 2) ⟨.bool false, fun v => v != .bool false⟩ []

/-- two twin worlds: `a` bit-packed and `b` ordinary in the first, the other way round in the second -/
def exW₁ : World := (({} : World).bind "a" (pkd 0 2 exEmpty none none)).bind "b" (bln 0 2 exEmpty none none)
def exW₂ : World := (({} : World).bind "a" (bln 0 2 exEmpty none none)).bind "b" (pkd 0 2 exEmpty none none)

theorem exW_twin : exW₁.Twin exW₂ := World.twin_iff.2 rfl

theorem exW_good : exW₁.Good ∧ exW₂.Good := by
  have hp : (pkd 0 2 exEmpty none none).Ok := by decide +kernel
  have hb : (bln 0 2 exEmpty none none).Ok := by decide +kernel
  exact ⟨(World.good_empty.bind "a" hp).bind "b" hb, (World.good_empty.bind "a" hb).bind "b" hp⟩

/-- the same worlds as the protocol creates them -/
def exSetup₁ : List String := ["cfg a kind=packed covord=0 spord=2", "cfg b kind=plain dtype=b1 covord=0 spord=2"]
def exSetup₂ : List String := ["cfg a kind=plain dtype=b1 covord=0 spord=2", "cfg b kind=packed covord=0 spord=2"]

#guard (runLines exSetup₁).pool.map (fun e => (e.1, e.2.kind)) == exW₁.pool.map (fun e => (e.1, e.2.kind))
#guard (runLines exSetup₂).pool.map (fun e => (e.1, e.2.kind)) == exW₂.pool.map (fun e => (e.1, e.2.kind))

/-- a history mixing bit-packed and ordinary operands: updates by pixels and by ranges (with
    growth), boolean algebra in place and copying (with growth), inversion, counting (cached and
    not), listing, masking an integer map, conversion, union, files (write, read, concatenate),
    sub-maps, fracdet, MOC and HEALPix interchange, degrade of a NON-boolean map -/
def exCommon : List String := [
  "upd a pix=5,100 val=T",
  "updr b ranges=16:40 val=T path=slice",
  "bop a op=or rhs=b inplace=1",
  "bop b op=and rhs=a r=c",
  "inv c r=d",
  "nvalid a", "nvalid d", "nvalid a", "valid a", "valid c",
  "cfg i kind=plain dtype=i4 covord=0 spord=2",
  "upd i pix=3,7,20 vals=4,5,6",
  "deg i ord=1 red=sum r=di", "valid di",
  "mask i by=a r=im", "valid im",
  "astype a dtype=i2 r=ai", "valid ai", "info ai",
  "mop maps=a,b name=ufunc_union ufunc=bitwise_or filler=F r=mo", "valid mo",
  "write a f=fa", "write b f=fb", "read f=fa r=ra", "valid ra", "covread f=fa",
  "cat files=fa,fb f=fc check=1 or=1", "read f=fc r=rc", "valid rc",
  "scov a k=0 r=sa", "valid sa", "fracdet a r=fd ord=1", "get a pix=5,6", "copy a r=ca", "nvalid ca",
  "moc a f=m1", "mocread f=m1 covord=0 r=mr", "valid mr", "genhp a", "hpxwrite a f=h1",
  "hpxread f=h1 covord=0 r=hr", "valid hr"]

#guard twinSafe exW₁ exCommon
#guard (runObs exW₁ exCommon).2 == (runObs exW₂ exCommon).2
#guard (runObs (runLines exSetup₁) exCommon).2 == (runObs (runLines exSetup₂) exCommon).2
#guard (runObs exW₁ exCommon).2.take 10 ==
  ["ok", "ok", "ok", "ok", "ok", "26", "40", "26",
   "5,16,17,18,19,20,21,22,23,24,25,26,27,28,29,30,31,32,33,34,35,36,37,38,39,100",
   "16,17,18,19,20,21,22,23,24,25,26,27,28,29,30,31,32,33,34,35,36,37,38,39"]
#guard !(runObs exW₁ exCommon).2.any (fun s => s.startsWith "err" || s.startsWith "bad-op")

/-- the theorem applied: whenever the executable check passes, the two runs agree -/
example (hs : twinSafe exW₁ exCommon = true) :
    (runObs exW₁ exCommon).2 = (runObs exW₂ exCommon).2 ∧ (runObs exW₁ exCommon).1.Twin (runObs exW₂ exCommon).1 :=
  twin_history exW_twin exW_good.1 exW_good.2 exCommon hs

/-- the answer of one line after a setup history -/
def answerAfter (setup : List String) (line : String) : String := (HS.step (runLines setup) line).2

/-- a line is flagged by `asymLine` in the world reached by a setup history -/
def flagged (setup : List String) (line : String) : Bool := asymLine (runLines setup) line

/-! every class of the exception set is a genuine difference (first answer: `a` bit-packed,
second: `a` ordinary), and is flagged -/

-- `info`: the kind is printed
#guard answerAfter exSetup₁ "info a" == "kind=packed covord=0 spord=2 sentinel=F" &&
  answerAfter exSetup₂ "info a" == "kind=plain:b1 covord=0 spord=2 sentinel=F" && flagged exSetup₁ "info a"
-- `pack`: a bit-packed source is copied WITHOUT its metadata, an ordinary one converted with it
#guard (runObs (runLines exSetup₁) ["meta a k=x v=1", "pack a r=p", "getmeta p k=x"]).2 == ["ok", "ok", "none"] &&
  (runObs (runLines exSetup₂) ["meta a k=x v=1", "pack a r=p", "getmeta p k=x"]).2 == ["ok", "ok", "1"] &&
  flagged exSetup₁ "pack a r=p"
-- `degrade`, `upgrade`, `generate_healpix_map(nside=…)`: NotImplementedError on a bit-packed map
#guard answerAfter exSetup₁ "deg a ord=1 red=max" == "err NotImplementedError" &&
  answerAfter exSetup₂ "deg a ord=1 red=max" == "ok" && flagged exSetup₁ "deg a ord=1 red=max"
#guard answerAfter exSetup₁ "upg a ord=3" == "err NotImplementedError" &&
  answerAfter exSetup₂ "upg a ord=3" == "ok" && flagged exSetup₁ "upg a ord=3"
#guard answerAfter (exSetup₁ ++ ["upd a pix=5 val=T"]) "genhp a ord=1 red=max" == "err NotImplementedError" &&
  (answerAfter (exSetup₂ ++ ["upd a pix=5 val=T"]) "genhp a ord=1 red=max").startsWith "-1637499999999999923489519697920,1," &&
  flagged exSetup₁ "genhp a ord=1 red=max"
-- degrade-on-read of a `BITPACK` file
#guard answerAfter (exSetup₁ ++ ["upd a pix=5 val=T", "write a f=fa"]) "dor f=fa ord=1 red=max" == "err NotImplementedError" &&
  answerAfter (exSetup₂ ++ ["upd a pix=5 val=T", "write a f=fa"]) "dor f=fa ord=1 red=max" == "ok" &&
  flagged (exSetup₁ ++ ["write a f=fa"]) "dor f=fa ord=1 red=max"
-- `__str__` of a bit-packed map does not count the valid pixels
#guard answerAfter exSetup₁ "nvalid a path=str" == "nocount" && answerAfter exSetup₂ "nvalid a path=str" == "0" &&
  flagged exSetup₁ "nvalid a path=str"
-- (history) `upd … vdtype=b1` was flagged by the first version of the model, which treated every
-- `vdtype=` on a bit-packed map as a "Data-type mismatch": a model artefact, repaired; a boolean
-- values array is accepted by both kinds, another type refused by both (now PROVED symmetric)
#guard answerAfter exSetup₁ "upd a pix=6 val=T vdtype=b1" == "ok" &&
  answerAfter exSetup₂ "upd a pix=6 val=T vdtype=b1" == "ok" &&
  answerAfter exSetup₁ "upd a pix=6 val=T vdtype=i4" == "err ValueError" &&
  answerAfter exSetup₂ "upd a pix=6 val=T vdtype=i4" == "err ValueError" &&
  !flagged exSetup₁ "upd a pix=6 val=T vdtype=b1"
-- creation: a bit-packed map needs a multiple of 8 pixels per coverage pixel and refuses sentinel `True`
#guard answerAfter [] "cfg q kind=packed covord=0 spord=1" == "err ValueError" &&
  answerAfter [] "cfg q kind=plain dtype=b1 covord=0 spord=1" == "ok" &&
  answerAfter [] "cfg q kind=packed covord=0 spord=2 sentinel=T" == "err NotImplementedError" &&
  answerAfter [] "cfg q kind=plain dtype=b1 covord=0 spord=2 sentinel=T" == "ok"
-- NOT exceptions (proved symmetric, here evaluated): `astype`, the union operations, `write` / `read`
#guard !flagged exSetup₁ "astype a dtype=i2 r=x" && !flagged exSetup₁ "mop maps=a,b name=ufunc_union ufunc=bitwise_or filler=F r=x" &&
  !flagged exSetup₁ "write a f=f" && !flagged exSetup₁ "bop a op=xor rhs=b r=x" && !flagged exSetup₁ "nvalid a"

end HS
