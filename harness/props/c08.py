"""C08 — pixel-range and geometry updates equal the explicit-pixel update."""
import gen

PID = 'C08'
RULE = ("twin histories: the same sequence of (M,2) range updates is applied to two equal maps, one through the "
        "slice path (threshold rebound to -1) and one through the expansion path (threshold 10^15), interleaved "
        "with explicit-pixel updates; after every step both maps are exported (layout check + dense view) and "
        "must equal the Lean model and each other; ranges are drawn with block-edge starts/ends, empty rows, "
        "rows ending at 12*nside^2 in any row position, 1-4 coverage pixels spanned, shuffled row order, "
        "overlapping rows for accumulating operations; geometric shapes (Circle, Ellipse, Polygon, Box at random "
        "positions incl. poles and lon 0, tiny to large, scalar values and bit lists incl. bits 8/16/24, with and "
        "without nside_render) are applied through |=, &=, +=, |, &, +, realize_geom, get_map and get_map_like and "
        "compared with the model's update of exactly the pixels hpgeom renders (the harness also checks get_pixels = "
        "expand(get_pixel_ranges) and that a shape with nside_render covers exactly the children of its rendered "
        "pixels); non-trivial = a range row spanning >= 2 coverage pixels "
        "or ending on a block edge / the last pixel")
ASSUMPTIONS = ["hpgeom.pixel_ranges_to_pixels = concatenation of half-open ranges (Model/Ranges.lean `expand`)"]


def histories(rng, tier):
    n = 400 if tier == 'quick' else 3000
    out = []
    for _ in range(n):
        c = gen.rand_cfg(rng, max_npix=768, name='a')
        c2 = gen.MapCfg('b', c.kind, c.covord, c.spord, dtype=c.dtype, sentinel=c.sentinel, maxbits=c.maxbits,
                        fields=c.fields, primary=c.primary, covpix=c.covpix)
        focus = rng.sample(range(c.ncov), min(c.ncov, rng.randint(2, 5)))
        h = [c.line(), c2.line()]
        for _ in range(rng.randint(2, 8)):
            r0 = rng.random()
            if rng.random() < 0.08:
                # one-call-at-a-time shuffled allocation with foreign blocks in between, then one long range
                for ln in gen.scattered_range_lines(rng, c, path='slice'):
                    h += [ln, ln.replace(' a ', ' b ', 1).replace('path=slice', 'path=expand')]
                h += ['state a', 'state b', 'vals a', 'vals b']
            if r0 < 0.25 and c.kind != 'rec':
                # a geometric shape through an operator / realize_geom on a; the explicit-pixel update
                # of the same rendered pixels (the model's meaning of the shape) is what both are compared to
                ln = gen.geom_line(rng, c, mode=rng.choice(['ior', 'ior', 'or', 'realize']), r='a')
                h += [ln, ln.replace(' a ', ' b ', 1).replace(' r=a', ' r=b')]
            elif r0 < 0.3 and c.kind != 'rec':
                ln = gen.geom_line(rng, c, mode=rng.choice(['getmap', 'getmaplike']), r='gm')
                h += [ln, 'info gm', 'state gm', 'vals gm']
                continue
            elif r0 < 0.5:
                ln = gen.upd_line(rng, c, focus=focus)
                h += [ln, ln.replace(' a ', ' b ', 1)]
            else:
                ln = gen.updr_line(rng, c, path='slice', focus=focus)
                h += [ln, ln.replace(' a ', ' b ', 1).replace('path=slice', 'path=expand')]
            h += ['state a', 'state b', 'vals a', 'vals b']
        out.append(h)
    return out


def nontrivial(h):
    for ln in h:
        t = ln.split()
        if t[0] == 'updr':
            for tok in t:
                if tok.startswith('ranges=') and tok != 'ranges=_':
                    return True
    return False


def pair_check(h, robs):
    """extra oracle on the real side alone: `vals a` == `vals b` after every step"""
    last = {}
    for ln, o in zip(h, robs):
        if ln.startswith('vals '):
            last[ln.split()[1]] = o
            if len(last) == 2 and ln.split()[1] == 'b' and last['a'] != last['b']:
                return "slice path and expansion path give different maps"
    return None
