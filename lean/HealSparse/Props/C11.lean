/-
  C11 — boolean mask algebra follows the documented coverage-scoped semantics.
  Property theorems only (helpers in HealSparse/Lemmas).
-/
import HealSparse.Lemmas.Core
import HealSparse.Lemmas.Coverage
import HealSparse.Lemmas.BoolOps
import HealSparse.Model.BoolOps
import HealSparse.Props.C04
import HealSparse.Props.C01
import HealSparse.Props.C02
import HealSparse.Lemmas.ApiBool
namespace HS
namespace C11

/-- cell parameters of a boolean map (False sentinel) -/
def bvc : VCfg Bool := ⟨false, fun b => b⟩

/-- `a op k` (constant): the operation applies over `a`'s coverage mask; layout and coverage kept. -/
theorem boolConst_spec (c : Cfg) (s : State Bool) (op : Bool → Bool → Bool) (k : Bool)
    (h : Inv c bvc s) :
    Inv c bvc (boolConst c s op k) ∧
    (∀ p, p < c.npix → abs c bvc (boolConst c s op k) p
        = denseBoolConst c (abs c bvc s) (covered c s) op k p) ∧
    (∀ j, covered c (boolConst c s op k) j = covered c s j) := by
  rw [boolConst_eq_mapGuard]
  exact mapGuard_spec c bvc s _ h

/-- Inversion flips exactly the pixels inside the coverage mask. -/
theorem invert_spec (c : Cfg) (s : State Bool) (h : Inv c bvc s) :
    Inv c bvc (invertMap c s) ∧
    (∀ p, p < c.npix → abs c bvc (invertMap c s) p
        = if covered c s (p >>> c.shift) then !(abs c bvc s p) else abs c bvc s p) ∧
    (∀ j, covered c (invertMap c s) j = covered c s j) := by
  rw [invertMap_eq_mapGuard]
  exact mapGuard_spec c bvc s _ h

/-- Inversion is its own inverse (literally, on the representation). -/
theorem invert_involutive (c : Cfg) (s : State Bool) : invertMap c (invertMap c s) = s := by
  exact invertMap_invertMap c s

/-- **`a op= b`** (in place): `a` outside `b`'s coverage, the pointwise operation inside it;
    coverage = union; the layout is preserved; for every block order on either side. -/
theorem boolMapInPlace_spec (c : Cfg) (a b : State Bool) (op : Bool → Bool → Bool)
    (ha : Inv c bvc a) (hb : Inv c bvc b) :
    Inv c bvc (boolMapInPlace c bvc a b op) ∧
    (∀ p, p < c.npix → abs c bvc (boolMapInPlace c bvc a b op) p
        = denseBoolMap c (abs c bvc a) (abs c bvc b) (covered c b) op p) ∧
    (∀ k, k < c.ncov → covered c (boolMapInPlace c bvc a b op) k = (covered c a k || covered c b k)) := by
  exact boolMapInPlace_spec' c bvc rfl a b op ha hb

/-- **`a op b`** (copying form) yields the same map as the in-place form applied to a copy:
    same layout invariant, same value at every pixel, same coverage mask. -/
theorem boolMapCopy_spec (c : Cfg) (a b : State Bool) (op : Bool → Bool → Bool)
    (ha : Inv c bvc a) (hb : Inv c bvc b) :
    Inv c bvc (boolMapCopy c a b op) ∧
    (∀ p, p < c.npix → abs c bvc (boolMapCopy c a b op) p
        = abs c bvc (boolMapInPlace c bvc a b op) p) ∧
    (∀ k, k < c.ncov → covered c (boolMapCopy c a b op) k
        = covered c (boolMapInPlace c bvc a b op) k) := by
  rw [boolMapCopy_eq_inPlace c bvc rfl a b op ha]
  exact ⟨(boolMapInPlace_spec' c bvc rfl a b op ha hb).1, fun _ _ => rfl, fun _ _ => rfl⟩

/-- commutativity of or / xor values wherever both coverages apply -/
theorem or_comm_on_common (c : Cfg) (a b : State Bool) (ha : Inv c bvc a) (hb : Inv c bvc b)
    (p : Nat) (hp : p < c.npix)
    (hca : covered c a (p >>> c.shift) = true) (hcb : covered c b (p >>> c.shift) = true) :
    abs c bvc (boolMapCopy c a b (· || ·)) p = abs c bvc (boolMapCopy c b a (· || ·)) p ∧
    abs c bvc (boolMapCopy c a b (· != ·)) p = abs c bvc (boolMapCopy c b a (· != ·)) p := by
  rw [boolMapCopy_abs_on c bvc rfl a b _ ha hb hp hcb, boolMapCopy_abs_on c bvc rfl b a _ hb ha hp hca,
    boolMapCopy_abs_on c bvc rfl a b _ ha hb hp hcb, boolMapCopy_abs_on c bvc rfl b a _ hb ha hp hca]
  cases abs c bvc a p <;> cases abs c bvc b p <;> exact ⟨rfl, rfl⟩

/-- De Morgan wherever both coverages apply: `~(a & b) = ~a | ~b`. -/
theorem de_morgan_on_common (c : Cfg) (a b : State Bool) (ha : Inv c bvc a) (hb : Inv c bvc b)
    (p : Nat) (hp : p < c.npix)
    (hca : covered c a (p >>> c.shift) = true) (hcb : covered c b (p >>> c.shift) = true) :
    abs c bvc (invertMap c (boolMapCopy c a b (· && ·))) p
      = abs c bvc (boolMapCopy c (invertMap c a) (invertMap c b) (· || ·)) p := by
  have hk := covpix_lt c p hp
  obtain ⟨hi, _, hcov⟩ := boolMapCopy_spec' c bvc rfl a b (· && ·) ha hb
  have hia := (invert_spec c a ha).1
  have hib := (invert_spec c b hb).1
  have hcib : covered c (invertMap c b) (p >>> c.shift) = true := hcb
  rw [invertMap_abs_on c bvc _ hi hp (by rw [hcov _ hk, hca]; rfl),
    boolMapCopy_abs_on c bvc rfl a b _ ha hb hp hcb,
    boolMapCopy_abs_on c bvc rfl _ _ _ hia hib hp hcib,
    invertMap_abs_on c bvc a ha hp hca, invertMap_abs_on c bvc b hb hp hcb]
  cases abs c bvc a p <;> cases abs c bvc b p <;> rfl

/-- absorption wherever both coverages apply: `a | (a & b) = a`. -/
theorem absorption_on_common (c : Cfg) (a b : State Bool) (ha : Inv c bvc a) (hb : Inv c bvc b)
    (p : Nat) (hp : p < c.npix)
    (hca : covered c a (p >>> c.shift) = true) (hcb : covered c b (p >>> c.shift) = true) :
    abs c bvc (boolMapCopy c a (boolMapCopy c a b (· && ·)) (· || ·)) p = abs c bvc a p := by
  have hk := covpix_lt c p hp
  obtain ⟨hi, _, hcov⟩ := boolMapCopy_spec' c bvc rfl a b (· && ·) ha hb
  rw [boolMapCopy_abs_on c bvc rfl a _ _ ha hi hp (by rw [hcov _ hk, hca]; rfl),
    boolMapCopy_abs_on c bvc rfl a b _ ha hb hp hcb]
  cases abs c bvc a p <;> cases abs c bvc b p <;> rfl

/-- non-vacuity: operands with different block orders and partially overlapping coverage -/
example : Inv ⟨3, 1⟩ bvc ⟨#[4, -2, -2], #[false, false, true, false, false, true]⟩ ∧
    Inv ⟨3, 1⟩ bvc ⟨#[2, 2, -4], #[false, false, true, true, true, false]⟩ := by decide

/-! ## C11 at the API level

The theorems above are about the generic core functions.  Below: the same properties of the API
functions themselves — `apiBoolOp` (`_apply_boolean_map_operation`: `&`, `|`, `^`, `&=`, `|=`,
`^=` with a boolean map or a constant `True` / `False`) and `apiInvert` (`invert`, `~`) of
Model/Api.lean — argument validation, sentinel rule, storage kind and error behaviour
included, for every `MapObj.Ok` operand (Lemmas/ApiBool.lean).

Observers: `m.abs p` = `get_values_pix`, `m.covd k` = `coverage_mask[k]`, `m.bval p` = the
boolean shown at `p`; `a.stored st` = the object the driver stores for the returned arrays
(all fields of the LEFT operand, cache reset). -/

open ApiBool

/-- the observers are the API's: `coverage_mask` lists `covd`, `get_values_pix([p])` answers
    `abs p` -/
theorem api_observers (m : MapObj) :
    apiCovMask m = (List.range m.c.ncov).map m.covd ∧
    ∀ p, p < m.npix → apiGet m [p] = .ok [m.abs p] :=
  ⟨apiCovMask_eq m, fun _ hp => apiGet_single m hp⟩

/-- **(1) errors, exactly.**  `_apply_boolean_map_operation` is accepted iff the left operand is
    boolean and the right one is a constant or a boolean map of the same two orders with both
    sentinels ≠ `True`; every refusal is `NotImplementedError`; the result is the explicit
    state `boolOpSt`.  Neither the operator string nor `in_place` takes part in the decision
    (an operator other than `and` / `or` is `xor`: `api_unknown_op_is_xor`). -/
theorem api_boolop_total (a : MapObj) (op : String) (rhs : BoolRhs) (inPlace : Bool) :
    apiBoolOp a op rhs inPlace =
      if BoolOpOk a rhs then .ok (boolOpSt a op rhs inPlace) else .error .notImpl :=
  apiBoolOp_eq a op rhs inPlace

/-- the in-place and the copying form (and all operators) fail on exactly the same calls with
    the same error -/
theorem api_boolop_same_errors (a : MapObj) (op op' : String) (rhs : BoolRhs) (ip ip' : Bool)
    (e : Err) : apiBoolOp a op rhs ip = .error e ↔ apiBoolOp a op' rhs ip' = .error e :=
  apiBoolOp_error_iff a op op' rhs ip ip' e

/-- `invert` / `~`: refused (`NotImplementedError`) iff the map is not boolean -/
theorem api_invert_total (a : MapObj) :
    apiInvert a =
      if a.kind.isBool = true then .ok (ofBoolState (invertMap a.c (toBoolState a.st)))
      else .error .notImpl :=
  apiInvert_eq a

/-- **(1) `a op b`, `a op= b`** for boolean maps of any mix of storages: the stored result is
    `Ok`, keeps the kind (storage), sentinel and orders of the LEFT operand, has boolean cells;
    coverage = union; inside `b`'s coverage the pointwise operation (with `a` = `False` outside
    its own coverage), outside it `a`'s value -/
theorem api_boolop_map {a b : MapObj} {op : String} {ip : Bool} {st : State Val}
    (ha : a.Ok) (hb : b.Ok) (h : apiBoolOp a op (.map b) ip = .ok st) :
    (a.stored st).Ok ∧ (a.stored st).BoolCells ∧
    (a.stored st).kind = a.kind ∧ (a.stored st).sent = a.sent ∧
    (a.stored st).covord = a.covord ∧ (a.stored st).spord = a.spord ∧
    (∀ k, k < a.c.ncov → (a.stored st).covd k = (a.covd k || b.covd k)) ∧
    (∀ p, p < a.npix → (a.stored st).abs p =
        .bool (if b.covd (p >>> a.c.shift) = true then boolFn op (a.bval p) (b.bval p)
               else a.bval p)) ∧
    (∀ p, p < a.npix → a.covd (p >>> a.c.shift) = false → a.bval p = false) ∧
    (∀ p, p < a.npix → b.covd (p >>> a.c.shift) = false → b.bval p = false) := by
  obtain ⟨h1, h2, h3, h4, h5⟩ := map_spec ha.1 ha.2.1 hb.1 h
  refine ⟨⟨h1, h2, ha.2.2⟩, h3, rfl, rfl, rfl, rfl, h4, h5, fun p hp => ?_, fun p hp => ?_⟩
  · exact (map_pixel ha.1 ha.2.1 hb.1 h hp).2.2.1
  · exact (map_pixel ha.1 ha.2.1 hb.1 h hp).2.2.2

/-- … and when `a`'s cells are booleans (`MapObj.BoolCells`; true of every map built by
    `make_empty` and of every result of a boolean operation, NOT implied by `MapObj.Ok`),
    outside `b`'s coverage the result shows `a`'s value unchanged -/
theorem api_boolop_map_outside_partial {a b : MapObj} {op : String} {ip : Bool} {st : State Val}
    (ha : a.Ok) (hca : a.BoolCells) (hb : b.Ok) (h : apiBoolOp a op (.map b) ip = .ok st)
    (p : Nat) (hp : p < a.npix) (hc : b.covd (p >>> a.c.shift) = false) :
    (a.stored st).abs p = a.abs p :=
  (map_spec_cells ha.1 ha.2.1 hca hb.1 h).2.1 p hp hc

/-- **(1) constants** act on `a`'s coverage only; coverage, kind, sentinel kept; any boolean
    sentinel is accepted -/
theorem api_boolop_const {a : MapObj} {op : String} {k ip : Bool} {st : State Val}
    (ha : a.Ok) (h : apiBoolOp a op (.const k) ip = .ok st) :
    (a.stored st).Ok ∧ (a.stored st).BoolCells ∧ (a.stored st).kind = a.kind ∧
    (∀ j, (a.stored st).covd j = a.covd j) ∧
    (∀ p, p < a.npix → (a.stored st).abs p =
        .bool (if a.covd (p >>> a.c.shift) = true then boolFn op (a.bval p) k else a.bval p)) := by
  obtain ⟨h1, h2, h3, h4, h5⟩ := const_spec ha.1 ha.2.1 h
  exact ⟨⟨h1, h2, ha.2.2⟩, h3, rfl, h4, h5⟩

/-- **(1) in place = copy**: on a well-formed left operand the two forms return literally the
    same arrays or the same error -/
theorem api_inplace_eq_copy {a : MapObj} (op : String) (rhs : BoolRhs) (ha : a.Ok) :
    apiBoolOp a op rhs true = apiBoolOp a op rhs false :=
  apiBoolOp_inplace_eq_copy op rhs ha.1

/-- … hence content-equal results: `SameAt a s₁ s₂` is verbatim `C10.Same a.c a.vc s₁ s₂` -/
theorem api_inplace_copy_same {a : MapObj} {op : String} {rhs : BoolRhs} {s1 s2 : State Val}
    (ha : a.Ok) (hrhs : ∀ b, rhs = .map b → b.Ok)
    (h1 : apiBoolOp a op rhs true = .ok s1) (h2 : apiBoolOp a op rhs false = .ok s2) :
    s1 = s2 ∧ SameAt a s1 s2 :=
  inplace_copy_same ha.1 ha.2.1 (fun b hb => (hrhs b hb).1) h1 h2

/-- **storage blindness**: replacing either operand's kind by the other boolean kind changes
    nothing in the outcome (arrays or error) -/
theorem api_storage_blind (a b : MapObj) (ka kb : Kind) (op : String) (ip : Bool)
    (h1 : ka.isBool = a.kind.isBool) (h2 : kb.isBool = b.kind.isBool) :
    apiBoolOp { a with kind := ka } op (.map { b with kind := kb }) ip = apiBoolOp a op (.map b) ip :=
  apiBoolOp_kind_blind a b ka a.kind kb b.kind h1 h2 op ip

/-- **(2) `~a`**: flips exactly the covered pixels, a pixel outside the coverage keeps showing
    the sentinel; coverage, kind, sentinel kept -/
theorem api_invert {a : MapObj} {st : State Val} (ha : a.Ok) (h : apiInvert a = .ok st) :
    (a.stored st).Ok ∧ (a.stored st).BoolCells ∧ (a.stored st).kind = a.kind ∧
    (∀ j, (a.stored st).covd j = a.covd j) ∧
    (∀ p, p < a.npix → (a.stored st).abs p =
        .bool (if a.covd (p >>> a.c.shift) = true then !(a.bval p) else a.bval p)) := by
  obtain ⟨h1, h2, h3, h4, h5⟩ := ApiBool.invert_spec ha.1 ha.2.1 h
  exact ⟨⟨h1, h2, ha.2.2⟩, h3, rfl, h4, h5⟩

/-- "False outside the coverage stays False" holds for the `False` sentinel (always the case for
    a bit-packed map); an ordinary boolean map with sentinel `True` shows `True` there, before
    and after (`ex_invert_sentinel_true`) -/
theorem api_invert_outside_partial {a : MapObj} {st : State Val} (ha : a.Ok)
    (hs : a.sent = .bool false) (h : apiInvert a = .ok st) (p : Nat) (hp : p < a.npix)
    (hc : a.covd (p >>> a.c.shift) = false) : (a.stored st).abs p = .bool false := by
  obtain ⟨hk, _⟩ := WFApi.apiInvert_ok h
  rw [(ApiBool.invert_spec ha.1 ha.2.1 h).2.2.2.2 p hp, if_neg (by rw [hc]; simp),
    bval_uncovered ha.1 hp hc, (blank_of_isBool hk ha.2.1).1, hs]
  rfl

/-- **(2) involution**: `~~a` has `a`'s arrays (boolean cells; in general the boolean reading
    `ofBoolState (toBoolState a.st)` of them) -/
theorem api_invert_involutive {a : MapObj} {st st2 : State Val} (hc : a.BoolCells)
    (h1 : apiInvert a = .ok st) (h2 : apiInvert (a.stored st) = .ok st2) : st2 = a.st :=
  invert_invert_cells hc h1 h2

/-- **(3) commutativity, exactly** — the documented non-commutativity made precise: `a op b` and
    `b op a` always have the same coverage (the union); their values differ at `p` iff
    `op = "and"` and exactly one operand covers `p` and shows `True` there (`a & b` keeps `a`
    outside `b`'s coverage, `b & a` computes `False & a`) -/
theorem api_comm_exact {a b : MapObj} {op : String} {ip ip' : Bool} {s1 s2 : State Val}
    (ha : a.Ok) (hb : b.Ok)
    (h1 : apiBoolOp a op (.map b) ip = .ok s1) (h2 : apiBoolOp b op (.map a) ip' = .ok s2) :
    (∀ k, k < a.c.ncov → (a.stored s1).covd k = (b.stored s2).covd k) ∧
    (∀ p, p < a.npix →
      ((a.stored s1).abs p ≠ (b.stored s2).abs p ↔
        op = "and" ∧
          ((a.covd (p >>> a.c.shift) = true ∧ b.covd (p >>> a.c.shift) = false ∧ a.bval p = true) ∨
           (b.covd (p >>> a.c.shift) = true ∧ a.covd (p >>> a.c.shift) = false ∧ b.bval p = true)))) :=
  comm_exact ha.1 ha.2.1 hb.1 hb.2.1 h1 h2

/-- **(3) `|` and `^` commute up to content equality** on the whole sphere (lifts
    `or_comm_on_common`, and extends it beyond the common coverage) -/
theorem api_or_xor_comm {a b : MapObj} {op : String} {ip ip' : Bool} {s1 s2 : State Val}
    (ha : a.Ok) (hb : b.Ok) (hop : op ≠ "and")
    (h1 : apiBoolOp a op (.map b) ip = .ok s1) (h2 : apiBoolOp b op (.map a) ip' = .ok s2) :
    SameAt a s1 s2 :=
  comm_same ha.1 ha.2.1 hb.1 hb.2.1 hop h1 h2

/-- **(3) `&` commutes on the common coverage** (and wherever the covering operand is `False`) -/
theorem api_and_comm_on_common {a b : MapObj} {ip ip' : Bool} {s1 s2 : State Val}
    (ha : a.Ok) (hb : b.Ok)
    (h1 : apiBoolOp a "and" (.map b) ip = .ok s1) (h2 : apiBoolOp b "and" (.map a) ip' = .ok s2)
    (p : Nat) (hp : p < a.npix)
    (hca : a.covd (p >>> a.c.shift) = true) (hcb : b.covd (p >>> a.c.shift) = true) :
    (a.stored s1).abs p = (b.stored s2).abs p := by
  apply Decidable.not_not.1
  intro hne
  rcases ((api_comm_exact ha hb h1 h2).2 p hp).1 hne with ⟨_, ⟨_, h, _⟩ | ⟨_, h, _⟩⟩
  · rw [hcb] at h; cases h
  · rw [hca] at h; cases h

/-- **(3) De Morgan, exactly**: `~(a & b)` and `~a | ~b` have the same coverage and differ at
    `p` iff only `b` covers `p` and `b` is `True` there (left: `True`, right: `False`) -/
theorem api_de_morgan_exact {a b : MapObj} {ip ip' : Bool} {s1 s2 ia ib s3 : State Val}
    (ha : a.Ok) (hb : b.Ok)
    (h1 : apiBoolOp a "and" (.map b) ip = .ok s1) (h2 : apiInvert (a.stored s1) = .ok s2)
    (h3 : apiInvert a = .ok ia) (h4 : apiInvert b = .ok ib)
    (h5 : apiBoolOp (a.stored ia) "or" (.map (b.stored ib)) ip' = .ok s3) :
    (∀ k, k < a.c.ncov → ((a.stored s1).stored s2).covd k = ((a.stored ia).stored s3).covd k) ∧
    (∀ p, p < a.npix →
      (((a.stored s1).stored s2).abs p ≠ ((a.stored ia).stored s3).abs p ↔
        (b.covd (p >>> a.c.shift) = true ∧ a.covd (p >>> a.c.shift) = false ∧ b.bval p = true))) :=
  de_morgan_exact ha.1 ha.2.1 hb.1 hb.2.1 h1 h2 h3 h4 h5

/-- **(3) the dual law, exactly**: `~(a | b)` and `~a & ~b` differ at `p` iff only `b` covers `p`
    and `b` is `False` there (left: `True`, right: `False`) -/
theorem api_de_morgan_or_exact {a b : MapObj} {ip ip' : Bool} {s1 s2 ia ib s3 : State Val}
    (ha : a.Ok) (hb : b.Ok)
    (h1 : apiBoolOp a "or" (.map b) ip = .ok s1) (h2 : apiInvert (a.stored s1) = .ok s2)
    (h3 : apiInvert a = .ok ia) (h4 : apiInvert b = .ok ib)
    (h5 : apiBoolOp (a.stored ia) "and" (.map (b.stored ib)) ip' = .ok s3) :
    (∀ k, k < a.c.ncov → ((a.stored s1).stored s2).covd k = ((a.stored ia).stored s3).covd k) ∧
    (∀ p, p < a.npix →
      (((a.stored s1).stored s2).abs p ≠ ((a.stored ia).stored s3).abs p ↔
        (b.covd (p >>> a.c.shift) = true ∧ a.covd (p >>> a.c.shift) = false ∧ b.bval p = false))) :=
  de_morgan_or_exact ha.1 ha.2.1 hb.1 hb.2.1 h1 h2 h3 h4 h5

/-- **(3) De Morgan on the coverage of `a`** (in particular on the common coverage: lifts
    `de_morgan_on_common`) -/
theorem api_de_morgan_on_common {a b : MapObj} {ip ip' : Bool} {s1 s2 ia ib s3 : State Val}
    (ha : a.Ok) (hb : b.Ok)
    (h1 : apiBoolOp a "and" (.map b) ip = .ok s1) (h2 : apiInvert (a.stored s1) = .ok s2)
    (h3 : apiInvert a = .ok ia) (h4 : apiInvert b = .ok ib)
    (h5 : apiBoolOp (a.stored ia) "or" (.map (b.stored ib)) ip' = .ok s3)
    (p : Nat) (hp : p < a.npix) (hca : a.covd (p >>> a.c.shift) = true) :
    ((a.stored s1).stored s2).abs p = ((a.stored ia).stored s3).abs p := by
  apply Decidable.not_not.1
  intro hne
  obtain ⟨_, h, _⟩ := ((api_de_morgan_exact ha hb h1 h2 h3 h4 h5).2 p hp).1 hne
  rw [hca] at h; cases h

/-- **(3) absorption**: `a | (a & b)` shows `a`'s value at every pixel of the sphere (lifts
    `absorption_on_common`); its coverage is the union -/
theorem api_absorption {a b : MapObj} {ip ip' : Bool} {s1 s2 : State Val}
    (ha : a.Ok) (hca : a.BoolCells) (hb : b.Ok)
    (h1 : apiBoolOp a "and" (.map b) ip = .ok s1)
    (h2 : apiBoolOp a "or" (.map (a.stored s1)) ip' = .ok s2) :
    (∀ k, k < a.c.ncov → (a.stored s2).covd k = (a.covd k || b.covd k)) ∧
    (∀ p, p < a.npix → (a.stored s2).abs p = a.abs p) := by
  obtain ⟨hk, _⟩ := WFApi.apiBoolOp_ok h1
  obtain ⟨h3, h4⟩ := absorption_exact ha.1 ha.2.1 hb.1 h1 h2
  refine ⟨h3, fun p hp => ?_⟩
  rw [h4 p hp, bool_bval (ha.2.1.boolBlank hk) hca]

/-- **(3) `a ^ a`**: `False` everywhere, `n_valid = 0`, but NOT the empty map: `a`'s coverage
    is retained -/
theorem api_xor_self {a : MapObj} {ip : Bool} {st : State Val} (ha : a.Ok)
    (h : apiBoolOp a "xor" (.map a) ip = .ok st) :
    (∀ k, k < a.c.ncov → (a.stored st).covd k = a.covd k) ∧
    (∀ p, p < a.npix → (a.stored st).abs p = .bool false) ∧
    nValid (a.stored st).vc (a.stored st).st = 0 :=
  ⟨(xor_self ha.1 ha.2.1 (by decide) (by decide) h).1,
   (xor_self ha.1 ha.2.1 (by decide) (by decide) h).2,
   nValid_xor_self ha.1 ha.2.1 (by decide) (by decide) h⟩

/-- an operator string other than `and` / `or` is `xor` (no error in the model; the real private
    routine refuses such a name, its public callers never pass one) -/
theorem api_unknown_op_is_xor (a : MapObj) (op : String) (rhs : BoolRhs) (ip : Bool)
    (h1 : op ≠ "and") (h2 : op ≠ "or") : apiBoolOp a op rhs ip = apiBoolOp a "xor" rhs ip := by
  rw [apiBoolOp_eq, apiBoolOp_eq]
  unfold boolOpSt
  rw [boolFn_other h1 h2, boolFn_other (op := "xor") (by decide) (by decide)]

/-- **(4) `n_valid` of a boolean map** (ties to C02: `C02.validSet` is the set `n_valid` counts)
    = number of pixels that differ from the sentinel; for the `False` sentinel the number of
    `True` pixels -/
theorem api_nvalid_bool {m : MapObj} (hm : m.Ok) (hk : m.kind.isBool = true) (hc : m.BoolCells)
    {x : Bool} (hx : m.sent = .bool x) :
    nValid m.vc m.st = (C02.validSet m.c m.vc m.st).length ∧
    nValid m.vc m.st = ((List.range m.npix).filter fun p => m.bval p != x).length :=
  ⟨C02.nValid_eq m.c m.vc m.st hm.1.2 hm.2.1.blankInvalid, nValid_bool hm.1 hk hm.2.1 hc hx⟩

/-- **(4) `n_valid` of `a op b`** = number of `True` cells of the dense result -/
theorem api_nvalid_map {a b : MapObj} {op : String} {ip : Bool} {st : State Val}
    (ha : a.Ok) (hb : b.Ok) (h : apiBoolOp a op (.map b) ip = .ok st) :
    nValid (a.stored st).vc (a.stored st).st =
      ((List.range a.npix).filter fun p =>
        if b.covd (p >>> a.c.shift) = true then boolFn op (a.bval p) (b.bval p) else a.bval p).length :=
  nValid_map ha.1 ha.2.1 hb.1 h

/-- **(4) `n_valid` of `a op k`**: pixels of the dense result that differ from the sentinel; "the
    number of `True` cells" needs the `False` sentinel (`ex_nvalid_sentinel_true`) -/
theorem api_nvalid_const_partial {a : MapObj} {op : String} {k ip : Bool} {st : State Val}
    (ha : a.Ok) (hs : a.sent = .bool false) (h : apiBoolOp a op (.const k) ip = .ok st) :
    nValid (a.stored st).vc (a.stored st).st =
      ((List.range a.npix).filter fun p =>
        if a.covd (p >>> a.c.shift) = true then boolFn op (a.bval p) k else a.bval p).length := by
  obtain ⟨⟨hk, _⟩, rfl⟩ := ApiBool.apiBoolOp_ok h
  have := nValid_guard (fun x => boolFn op x k) ha.1 ha.2.1 hk hs
  refine this.trans ?_
  apply congrArg
  apply List.filter_congr
  intro p _
  cases (if a.covd (p >>> a.c.shift) = true then boolFn op (a.bval p) k else a.bval p) <;> rfl

/-- **(4) `n_valid` of `~a`** (`False` sentinel): covered pixels that were `False` -/
theorem api_nvalid_invert_partial {a : MapObj} {st : State Val}
    (ha : a.Ok) (hs : a.sent = .bool false) (h : apiInvert a = .ok st) :
    nValid (a.stored st).vc (a.stored st).st =
      ((List.range a.npix).filter fun p =>
        if a.covd (p >>> a.c.shift) = true then !(a.bval p) else a.bval p).length := by
  obtain ⟨hk, rfl⟩ := WFApi.apiInvert_ok h
  have := nValid_guard (fun x => !x) ha.1 ha.2.1 hk hs
  refine this.trans ?_
  apply congrArg
  apply List.filter_congr
  intro p _
  cases (if a.covd (p >>> a.c.shift) = true then !(a.bval p) else a.bval p) <;> rfl


/-- **boolean cells are what the API produces and are observable**: `make_empty` of a boolean
    kind, `update_values_pix` on a boolean map with boolean cells (non-empty value list), every
    boolean operation (`api_boolop_map`, `api_boolop_const`, `api_invert`); and under `Ok` the
    property says exactly that every pixel shows a boolean -/
theorem api_boolcells {m : MapObj} (hm : m.Ok) (hk : m.kind.isBool = true) :
    (m.BoolCells ↔ ∀ p, p < m.npix → (m.abs p).isBoolVal = true) ∧
    (∀ {op pix vals single ru m'}, m.BoolCells → (∀ vs, vals = some vs → vs ≠ []) →
        apiUpdate m op pix vals single ru = .ok m' → m'.BoolCells) :=
  ⟨boolCells_iff_abs hm.1 (hm.2.1.boolBlank hk),
   fun hc hne h => boolCells_apiUpdate hk hm.2.1 hc hne h⟩

theorem api_boolcells_make_empty {covord spord : Nat} {kind : Kind} {sentinel : Option Val}
    {covPix : List Nat} {m : MapObj} (hk : kind.isBool = true)
    (h : apiMakeEmpty covord spord kind sentinel covPix = .ok m) : m.BoolCells :=
  boolCells_makeEmpty hk h

/-- the driver stores exactly `m.stored st` for an accepted `bop` line with a map on the right
    (copying form: bound to the result name; in place: put back under the map's name) -/
theorem api_driver_stores {w : World} {a : Args} {n rn : String} {rest : List String} {m b : MapObj}
    {st : State Val} (ha : a.pos = n :: rest) (hget : w.get? n = some m)
    (hc : a.get? "const" = none) (hr : a.get? "rhs" = some rn) (hb : w.get? rn = some b)
    (h : apiBoolOp m (a.getD "op" "and") (.map b) (a.flag "inplace") = .ok st) :
    opBop w a =
      (if a.flag "inplace" then w.put n (m.stored st) else w.bind (a.getD "r" "tmp") (m.stored st),
       "ok") :=
  opBop_map_ok ha hget hc hr hb h

/-! ### non-vacuity and counterexamples (evaluated) -/

open WFApi in
/-- `a`: ordinary boolean map, coverage pixel 0 allocated, `True` at pixel 0;
    `b`: bit-packed map, `True` at pixel 16 (coverage pixel 1); orders 0 / 2 (16 pixels per
    coverage pixel) -/
def exAB : Except Err (MapObj × MapObj) := do
  let a ← apiMakeEmpty 0 2 (.plain .bool) none [0]
  let a ← apiUpdate a "replace" [0] (some [.bool true]) true
  let b ← apiMakeEmpty 0 2 .packed none []
  let b ← apiUpdate b "replace" [16] (some [.bool true]) true
  pure (a, b)

/-- the operands satisfy every hypothesis used above -/
example : WFApi.okAnd exAB (fun r => decide r.1.Ok && decide r.2.Ok && decide r.1.BoolCells &&
    decide r.2.BoolCells && r.1.kind.isBool && r.2.kind.isBool) = true := by decide +kernel

/-- `a & b` (copy) and `b &= a` (in place), and the De Morgan pair -/
def exLaws : Except Err (List (MapObj × Nat)) := do
  let (a, b) ← exAB
  let ab ← apiBoolOp a "and" (.map b) false
  let ba ← apiBoolOp b "and" (.map a) true
  let l ← apiInvert (a.stored ab)
  let na ← apiInvert a
  let nb ← apiInvert b
  let r ← apiBoolOp (a.stored na) "or" (.map (b.stored nb)) false
  let x ← apiBoolOp a "xor" (.map a) true
  let z ← apiBoolOp a "nand" (.map b) false
  let z' ← apiBoolOp a "xor" (.map b) false
  pure ([a.stored ab, b.stored ba, (a.stored ab).stored l, (a.stored na).stored r, a.stored x,
    a.stored z, a.stored z'].map fun m => (m, nValid m.vc m.st))

/-- **`&` is not commutative off the common coverage**: at pixel 0 (only `a` covers it, `a` is
    `True`) `a & b` shows `True` and `b & a` shows `False`; at pixel 16 the other way round;
    the result kind follows the left operand; **De Morgan fails** at pixel 16 (only `b` covers
    it, `b` is `True`): `~(a & b)` shows `True`, `~a | ~b` shows `False`, `n_valid` 31 vs 30;
    `a ^ a`: nothing valid, coverage pixel 0 still allocated; `nand` is accepted and is `xor` -/
example : WFApi.okAnd exLaws (fun r =>
    match r with
    | [(ab, nab), (ba, nba), (l, nl), (r, nr), (x, nx), (z, _), (z', _)] =>
      ab.abs 0 == .bool true && ba.abs 0 == .bool false &&
      ab.abs 16 == .bool false && ba.abs 16 == .bool true &&
      ab.kind == .plain .bool && ba.kind == .packed && nab == 1 && nba == 1 &&
      decide ab.Ok && decide ba.Ok &&
      (List.range 12).all (fun k => ab.covd k == ba.covd k) && ab.covd 0 && ab.covd 1 && !ab.covd 2 &&
      l.abs 16 == .bool true && r.abs 16 == .bool false && l.abs 0 == .bool false &&
      r.abs 0 == .bool false && nl == 31 && nr == 30 &&
      nx == 0 && x.covd 0 && x.abs 0 == .bool false &&
      (List.range 192).all (fun p => z.abs p == z'.abs p) && z.abs 0 == .bool true
    | _ => false) = true := by decide +kernel

/-- every refusal is `NotImplementedError`: sentinel `True` on either side, different orders,
    a non-boolean operand on either side — for both forms; a constant is accepted on a
    sentinel-`True` map -/
example :
    let t : MapObj := WFApi.blankMap (.plain .bool) (.bool true)
    let f : MapObj := WFApi.blankMap (.plain .bool) (.bool false)
    let i : MapObj := WFApi.blankMap (.plain (.int 32 true)) (.num 0 0)
    let g : MapObj := { f with spord := f.spord + 1 }
    ([apiBoolOp t "or" (.map f) false, apiBoolOp f "or" (.map t) true, apiBoolOp f "or" (.map g) false,
      apiBoolOp i "or" (.map f) true, apiBoolOp f "or" (.map i) false, apiBoolOp i "or" (.const true) false,
      apiInvert i].all fun r => match r with | .error .notImpl => true | _ => false) = true ∧
    (match apiBoolOp t "or" (.const true) true, apiInvert t, apiBoolOp f "xor" (.map f) true with
     | .ok _, .ok _, .ok _ => true | _, _, _ => false) = true := by decide +kernel

open WFApi in
/-- an ordinary boolean map with sentinel `True`: a pixel outside the coverage shows `True`
    before and after `~` (so "False outside the coverage stays False" needs the `False`
    sentinel), and `n_valid` counts the `False` pixels: 2 of the 16 covered pixels were set to
    `False`; after `~` the other 14 are -/
def exSentTrue : Except Err (MapObj × MapObj) := do
  let t ← apiMakeEmpty 0 2 (.plain .bool) (some (.bool true)) []
  let t ← apiUpdate t "replace" [0, 1] (some [.bool false]) true
  let st ← apiInvert t
  pure (t, t.stored st)

example : WFApi.okAnd exSentTrue (fun r => decide r.1.Ok && decide r.2.Ok &&
    r.1.abs 100 == .bool true && r.2.abs 100 == .bool true &&
    r.1.abs 0 == .bool false && r.2.abs 0 == .bool true && r.2.abs 5 == .bool false &&
    nValid r.1.vc r.1.st == 2 && nValid r.2.vc r.2.st == 14) = true := by decide +kernel

/-- `MapObj.Ok` does not type the cells: this object (orders 0 / 0, coverage pixel 0 allocated,
    its cell holds the number 3) is `Ok`, and `a | False` shows `False` where `a` shows `3`
    — the reason for the hypothesis `BoolCells` in `api_boolop_map_outside_partial` (a numpy
    boolean array cannot hold a 3; no function of the model stores one in a boolean map) -/
def exUntyped : MapObj :=
  { covord := 0, spord := 0, kind := .plain .bool, sent := .bool false,
    st := ⟨#[1, -1, -2, -3, -4, -5, -6, -7, -8, -9, -10, -11], #[.bool false, .num 3 0]⟩ }

example : exUntyped.Ok ∧ ¬ exUntyped.BoolCells ∧ exUntyped.abs 0 = .num 3 0 ∧
    WFApi.okAnd (apiBoolOp exUntyped "or" (.map (WFApi.blankMap (.plain .bool) (.bool false))) false)
      (fun st => (exUntyped.stored st).abs 0 == .bool false) = true := by decide +kernel

/-- the same through the protocol driver (`step`): the answers of a history -/
def replies (lines : List String) : List String :=
  (lines.foldl (fun (wo : World × List String) l => ((step wo.1 l).1, wo.2 ++ [(step wo.1 l).2]))
    ({}, [])).2

/-! `a & b` vs `b &= a` at pixels 0 and 16, coverage masks, kinds; `~(a & b)` vs `~a | ~b` at
    pixels 0 and 16 and their `n_valid` -/
#guard replies [
  "cfg a kind=plain dtype=b1 covord=0 spord=2 covpix=0",
  "cfg b kind=packed covord=0 spord=2",
  "upd a pix=0 val=T",
  "upd b pix=16 val=T",
  "bop a rhs=b op=and r=ab",
  "copy b r=ba",
  "bop ba rhs=a op=and inplace=1",
  "get ab pix=0,16", "get ba pix=0,16", "covmask ab", "covmask ba", "info ab", "info ba",
  "inv ab r=l", "inv a r=na", "inv b r=nb", "bop na rhs=nb op=or r=r",
  "get l pix=0,16", "get r pix=0,16", "nvalid l", "nvalid r"] ==
  ["ok", "ok", "ok", "ok", "ok", "ok", "ok",
   "T,F", "F,T", "110000000000", "110000000000",
   "kind=plain:b1 covord=0 spord=2 sentinel=F", "kind=packed covord=0 spord=2 sentinel=F",
   "ok", "ok", "ok", "ok", "F,T", "F,F", "31", "30"]

/-! the dual law at pixel 17 (only `b` covers it, `b` is `False` there): `~(a | b)` shows `True`,
    `~a & ~b` shows `False`; `a | (a & b)` shows `a` at pixels 0, 16, 17 with the union coverage;
    `a ^ a` keeps coverage pixel 0 with nothing valid -/
#guard replies [
  "cfg a kind=plain dtype=b1 covord=0 spord=2 covpix=0",
  "cfg b kind=packed covord=0 spord=2",
  "upd a pix=0 val=T",
  "upd b pix=16 val=T",
  "bop a rhs=b op=or r=o", "inv o r=l", "inv a r=na", "inv b r=nb", "bop na rhs=nb op=and r=r",
  "get l pix=0,16,17", "get r pix=0,16,17",
  "bop a rhs=b op=and r=ab", "bop a rhs=ab op=or r=abs",
  "get abs pix=0,16,17", "get a pix=0,16,17", "covmask abs", "covmask a",
  "bop a rhs=a op=xor r=x", "nvalid x", "covmask x"] ==
  ["ok", "ok", "ok", "ok", "ok", "ok", "ok", "ok", "ok",
   "F,F,T", "F,F,F",
   "ok", "ok", "T,F,F", "T,F,F", "110000000000", "100000000000",
   "ok", "0", "100000000000"]

end C11
end HS
