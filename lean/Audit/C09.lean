import HealSparse.Props.C09
#print axioms HS.C09.sep_step
#print axioms HS.C09.mutate_frame
#print axioms HS.C09.mutate_self
#print axioms HS.C09.produce_frame
#print axioms HS.C09.produce_result
#print axioms HS.C09.no_tie
#print axioms HS.C09.line_frame
#print axioms HS.C09.produce_inputs_unchanged
#print axioms HS.C09.produce_tables_unchanged
#print axioms HS.C09.inplace_others_unchanged
#print axioms HS.C09.inplace_view_parent
#print axioms HS.C09.static_pool_unchanged
#print axioms HS.C09.files_frame
#print axioms HS.C09.no_tie_world
#print axioms HS.C09.result_independent
