import HealSparse.Model.Core
import HealSparse.Model.Map
import HealSparse.Lemmas.Core
import HealSparse.Props.C04
import HealSparse.Props.C01
