/-
  Helper lemmas for the rejection of out-of-width bit positions by the wide-mask API
  (Props/C13.lean: `reject_big_bit`, `reject_big_bit_operator`): every control path of
  `apiSetBits` / `apiScalarOp … (.bits l)` throws before reaching a result when some
  listed bit position is at or above `maxbits`.
-/
import HealSparse.Model.Api
namespace HS

/-- a member at or above `n` makes the `any (· ≥ n)` test fire -/
theorem any_ge_of_exists {bits : List Nat} {n : Nat} (h : ∃ b ∈ bits, b ≥ n) :
    bits.any (· ≥ n) = true := by
  obtain ⟨b, hb, hge⟩ := h
  exact List.any_eq_true.mpr ⟨b, hb, decide_eq_true hge⟩

/-- a list with a member is not empty -/
theorem isEmpty_false_of_exists {bits : List Nat} {n : Nat} (h : ∃ b ∈ bits, b ≥ n) :
    bits.isEmpty = false := by
  obtain ⟨b, hb, _⟩ := h
  cases bits with
  | nil => cases hb
  | cons _ _ => rfl

/-- `set_bits_pix` / `clear_bits_pix` never return a map when a bit position is too large -/
theorem apiSetBits_rejects_big (m : MapObj) (pix : List Nat) (bits : List Nat) (clear : Bool)
    (h : ∃ b ∈ bits, b ≥ m.maxbits) (r : MapObj) : apiSetBits m pix bits clear ≠ .ok r := by
  have ha := any_ge_of_exists h
  have he := isEmpty_false_of_exists h
  unfold apiSetBits
  cases hk : m.kind <;>
    simp [bind, Except.bind, throw, throwThe, MonadExceptOf.throw, ha, he]

/-- bit-list operators never return a storage when a bit position is too large -/
theorem apiScalarOp_rejects_big (m : MapObj) (op : String) (bits : List Nat)
    (h : ∃ b ∈ bits, b ≥ m.maxbits) (r : State Val) :
    apiScalarOp m op (.bits bits) ≠ .ok r := by
  have ha := any_ge_of_exists h
  have he := isEmpty_false_of_exists h
  unfold apiScalarOp
  cases hk : m.kind <;>
    simp [bind, Except.bind, throw, throwThe, MonadExceptOf.throw, ha, he] <;>
    (repeat' split) <;> exact nofun

end HS
