/-
  Pixel-range updates.

  Mirrors healSparseMap.py `_update_values_pixel_ranges` (678-784, after the two `fix:`
  commits: every row's end is clamped; the offset of coverage pixel k is `cov[k]`),
  and hpgeom.pixel_ranges_to_pixels (`expand`).
-/
import HealSparse.Model.Core
import HealSparse.Model.Map
namespace HS

variable {V : Type}

/-- `hpg.pixel_ranges_to_pixels(R)`: half-open ranges, concatenated in row order. -/
def expand (R : List (Nat × Nat)) : List Nat :=
  R.flatMap fun ab => (List.range (ab.2 - ab.1)).map (ab.1 + ·)

/-- `a[start:stop] = h(a[start:stop])` for `0 ≤ start`. -/
def sliceApply (h : V → V) (a : Array V) (start stop : Int) : Array V :=
  (List.range (stop - start).toNat).foldl (fun a j => a.modify (start.toNat + j) h) a

/-- coverage-pixel range of a row: `(a >> shift, b >> shift)`, inclusive, end clamped. -/
def covRange (c : Cfg) (ab : Nat × Nat) : Nat × Nat :=
  (ab.1 >>> c.shift, if ab.2 >>> c.shift == c.ncov then c.ncov - 1 else ab.2 >>> c.shift)

/-- one row of the range array (lines 741-784). `mask` = coverage mask before growth. -/
def rowApply (c : Cfg) (h : V → V) (noAppend : Bool) (mask : Nat → Bool) (s : State V)
    (ab : Nat × Nat) : State V :=
  let (ka, kb) := covRange c ab
  let cv (k : Nat) : Int := rd s.cov k 0
  let nf : Int := (c.nfine : Nat)
  if ka < kb then
    let sp1 := if noAppend && !mask ka then s.sp
      else sliceApply h s.sp ((ab.1 : Nat) + cv ka) (cv ka + nf * ((ka : Nat) + 1))
    let sp2 := (List.range (kb - ka - 1)).foldl (fun sp i =>
      let k := ka + 1 + i
      if noAppend && !mask k then sp
      else sliceApply h sp (cv k + nf * (k : Nat)) (cv k + nf * (k : Nat) + nf)) sp1
    let sp3 := if noAppend && !mask kb then sp2
      else sliceApply h sp2 (cv kb + nf * (kb : Nat)) ((ab.2 : Nat) + cv kb)
    { s with sp := sp3 }
  else
    if noAppend && !mask ka then s
    else
      let start : Int := (ab.1 : Nat) + cv ka
      { s with sp := sliceApply h s.sp start (start + ((ab.2 - ab.1 : Nat) : Int)) }

/-- `_update_values_pixel_ranges(R, value, operation, no_append)`;
    `h` is the per-cell effect of the operation with the given single value. -/
def updateRanges (c : Cfg) (vc : VCfg V) (s : State V) (h : V → V) (R : List (Nat × Nat))
    (noAppend : Bool) : State V :=
  let cpr := R.map (covRange c)
  let toSet := (List.range c.ncov).filter fun k => cpr.any fun lh => lh.1 ≤ k && k ≤ lh.2
  let newCov := toSet.filter fun k => !covered c s k
  let mask := covered c s
  let s1 := if !noAppend && !newCov.isEmpty then reserve c vc s newCov else s
  R.foldl (rowApply c h noAppend mask) s1

/-- per-cell effect of an operation with optional pre-pass and a single operand -/
def cellEffect {W : Type} (pre : Option (V → V)) (f : V → W → V) (w : W) (x : V) : V :=
  f ((pre.getD id) x) w

end HS
