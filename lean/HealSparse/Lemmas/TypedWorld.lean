/-
  The typing a FITS file can express (`MapObj.FileTyped`, Lemmas/ApiRoundTrip.lean) as a GLOBAL
  inductive invariant of the protocol driver, so that the API-level file round trip of
  Props/C03.lean holds unconditionally for every reachable map.

  `MapObj.FileTyped` alone is not inductive: `get_single` turns a record FIELD into a plain map,
  `degrade` / degrade-on-read map field dtypes through `auxDT`, the readers rebuild kinds from
  files.  `Kind.typed k s` therefore also constrains record maps:
    plain bool        : boolean sentinel
    plain numeric dt  : `dt.real` and a non-boolean sentinel
    wide mask         : non-boolean scalar sentinel
    bit-packed        : boolean sentinel
    record fs pr      : every field dtype is real; the sentinel is boolean iff the primary is
  `World.Typed`: every OWNING pool entry is typed, the kind recovered from every stored file is
  typed with the file's sentinel, every HEALPix-format file has a real dtype.  (A view descriptor
  is not constrained: `World.get?` re-derives kind and dtype from the parent and checks the
  descriptor's sentinel against the parent's blank field, which is a number.)

  `Typed.opXxx` for every operation of Model/Dispatch.lean (given `World.Good`, Lemmas/WFWorld.lean,
  for the resolution of views), `Typed.step`, `Typed.runLines`.
-/
import HealSparse.Lemmas.WFWorld
import HealSparse.Lemmas.ApiRoundTrip
namespace HS

open WFApi WFRes WFFiles

/-! ### the predicates -/

/-- kind and scalar sentinel are typed the way numpy / the FITS header can express -/
def Kind.typed (k : Kind) (s : Val) : Prop :=
  match k with
  | .plain .bool => s.isBoolV = true
  | .plain dt => dt.real = true ∧ s.isBoolV = false
  | .wide _ => s.isBoolV = false
  | .packed => s.isBoolV = true
  | .recd fs pr => (∀ dt ∈ fs, dt.real = true) ∧
      ∀ dt, fs[pr]? = some dt → (s.isBoolV = true ↔ dt = .bool)

def MapObj.Typed (m : MapObj) : Prop := m.kind.typed m.sent

/-- the kind the reader recovers from the file is typed with the file's sentinel -/
def FileObj.Typed (f : FileObj) : Prop := ∀ k, fileKind f = some k → k.typed f.sentinel

def HpFile.dt : HpFile → DT
  | .explicit _ dt _ _ _ => dt
  | .implicit _ dt _ _ => dt

/-- every owning pool entry, every file and every HEALPix-format file is typed -/
def World.Typed (w : World) : Prop :=
  (∀ e ∈ w.pool, e.2.view = none → e.2.Typed) ∧ (∀ e ∈ w.files, e.2.Typed) ∧
  (∀ e ∈ w.hpfiles, e.2.dt.real = true)

theorem World.typed_empty : ({} : World).Typed := by
  refine ⟨?_, ?_, ?_⟩ <;> intro e he <;> cases he

theorem MapObj.Typed_congr {m m' : MapObj} (h3 : m'.kind = m.kind) (h4 : m'.sent = m.sent) :
    m'.Typed ↔ m.Typed := by
  unfold MapObj.Typed; rw [h3, h4]

theorem MapObj.Typed.of_same {m m' : MapObj} (h : m.Typed) (hs : m'.Same m) : m'.Typed :=
  (MapObj.Typed_congr hs.2.2.1 hs.2.2.2.1).2 h

/-- **typed maps are `FileTyped`** -/
theorem MapObj.Typed.fileTyped {m : MapObj} (h : m.Typed) : m.FileTyped := by
  unfold MapObj.Typed Kind.typed at h
  unfold MapObj.FileTyped
  cases hk : m.kind with
  | packed => trivial
  | recd fs pr => trivial
  | wide n => rw [hk] at h; exact h
  | plain dt => rw [hk] at h; cases dt <;> exact h

/-- the plain dtype / the record field dtypes of a kind are real -/
def Kind.realK : Kind → Prop
  | .plain dt => dt.real = true
  | .recd fs _ => ∀ dt ∈ fs, dt.real = true
  | _ => True

theorem Kind.typed.realK {k : Kind} {s : Val} (h : k.typed s) : k.realK := by
  cases k with
  | packed => trivial
  | wide n => trivial
  | recd fs pr => exact h.1
  | plain dt =>
    cases dt with
    | bool => rfl
    | int b sg => exact h.1
    | flt b => exact h.1

theorem Kind.typed_plain {dt : DT} {s : Val} (hr : dt.real = true)
    (hs : s.isBoolV = true ↔ dt = .bool) : (Kind.plain dt).typed s := by
  cases dt with
  | bool => exact hs.2 rfl
  | int b sg =>
    refine ⟨hr, ?_⟩
    cases hb : s.isBoolV with
    | false => rfl
    | true => exact absurd (hs.1 hb) (by simp)
  | flt b =>
    refine ⟨hr, ?_⟩
    cases hb : s.isBoolV with
    | false => rfl
    | true => exact absurd (hs.1 hb) (by simp)

theorem Kind.typed_plain_iff {dt : DT} {s : Val} (h : (Kind.plain dt).typed s) :
    dt.real = true ∧ (s.isBoolV = true ↔ dt = .bool) := by
  cases dt with
  | bool => exact ⟨rfl, fun _ => rfl, fun _ => h⟩
  | int b sg => exact ⟨h.1, fun hb => by rw [h.2] at hb; cases hb, fun hd => by cases hd⟩
  | flt b => exact ⟨h.1, fun hb => by rw [h.2] at hb; cases hb, fun hd => by cases hd⟩

/-- `check_sentinel` returns a sentinel of the type of the cell -/
theorem checkSentinel_typed {dt : DT} {s : Option Val} {v : Val} (h : checkSentinel dt s = .ok v) :
    v.isBoolV = true ↔ dt = .bool := by
  by_cases hd : dt = .bool
  · exact ⟨fun _ => hd, fun _ => WFApi.checkSentinel_isBoolV h hd⟩
  · have := WFApi.checkSentinel_notBool h hd
    exact ⟨fun hb => by rw [this] at hb; cases hb, fun h => absurd h hd⟩

theorem defaultSentinel_typed (dt : DT) : dt.defaultSentinel.isBoolV = true ↔ dt = .bool :=
  checkSentinel_typed (s := none) rfl

theorem auxDT_real {dt : DT} (h : dt.real = true) : (auxDT dt).real = true := by
  cases dt with
  | bool => rfl
  | int b sg => rfl
  | flt b => exact h

theorem auxDT_ne_bool (dt : DT) : auxDT dt ≠ .bool := by
  cases dt <;> simp [auxDT]

end HS
