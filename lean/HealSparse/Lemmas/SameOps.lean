/-
  C10 at the world level, the operations: each operation of Model/Dispatch.lean run in two
  related good worlds (`World.SameW`, Lemmas/SameWorld.lean) gives the SAME answer and related
  worlds again (`SimR`) — outside the exception set of Props/C10World.lean.
-/
import HealSparse.Lemmas.SameWorld
import HealSparse.Lemmas.ApiScalar
import HealSparse.Lemmas.ApiBool
import HealSparse.Lemmas.ApiMulti
import HealSparse.Lemmas.Moc
import HealSparse.Lemmas.ApiRecord
import HealSparse.Props.C12
namespace HS

open WFApi WFRes WFFiles

section fields
variable {a b : MapObj}
theorem MapObj.SameC.covord_eq (h : a.SameC b) : b.covord = a.covord := h.1.symm
theorem MapObj.SameC.spord_eq (h : a.SameC b) : b.spord = a.spord := h.2.1.symm
theorem MapObj.SameC.kind_eq (h : a.SameC b) : b.kind = a.kind := h.2.2.1.symm
theorem MapObj.SameC.sent_eq (h : a.SameC b) : b.sent = a.sent := h.2.2.2.1.symm
theorem MapObj.SameC.cache_eq (h : a.SameC b) : b.cache = a.cache := h.2.2.2.2.1.symm
theorem MapObj.SameC.view_eq (h : a.SameC b) : b.view = a.view := h.2.2.2.2.2.1.symm
end fields

/-- the name the line operates on does not resolve to a view (a store through a view writes the
    column back into the parent: treated in Lemmas/SameViews.lean, whose `sameV_op…` theorems
    supersede the conditional ones of this file) -/
def NoViewTarget (w : World) (a : Args) : Prop :=
  ∀ m, w.get? (a.pos.headD "") = some m → m.view = none

/-- close a `SameC` goal between two objects built from content-equal `m₁`, `m₂` (hypothesis
    `hc`) by overwriting fields alike -/
syntax "samec " ident : tactic
macro_rules
  | `(tactic| samec $hc:ident) => `(tactic|
      (refine ⟨?_, ?_, ?_, ?_, ?_, ?_, ?_⟩ <;>
        first
        | rfl
        | exact ($hc).1 | exact ($hc).2.1 | exact ($hc).2.2.1 | exact ($hc).2.2.2.1
        | exact ($hc).2.2.2.2.1 | exact ($hc).2.2.2.2.2.1 | exact ($hc).same | assumption))

/-- walk the `match` / `if` / `let` cascade shared by the two sides -/
macro "walk" : tactic => `(tactic| repeat' (first | simp only [] | split))

variable {w₁ w₂ : World}

/-! ### operations that only observe -/

theorem same_opVals (h : w₁.SameW w₂) (g₁ : w₁.Good) (g₂ : w₂.Good) (a : Args) :
    SimR (opVals w₁ a) (opVals w₂ a) := by
  unfold opVals
  refine same_withMap h g₁ g₂ fun n m₁ m₂ hn e1 e2 hc ok1 ok2 => ?_
  rw [hc.obs_vals]
  exact SimR.same h _

theorem same_opCovmask (h : w₁.SameW w₂) (g₁ : w₁.Good) (g₂ : w₂.Good) (a : Args) :
    SimR (opCovmask w₁ a) (opCovmask w₂ a) := by
  unfold opCovmask
  refine same_withMap h g₁ g₂ fun n m₁ m₂ hn e1 e2 hc ok1 ok2 => ?_
  rw [hc.obs_covmask]
  exact SimR.same h _

theorem same_opCovmap (h : w₁.SameW w₂) (g₁ : w₁.Good) (g₂ : w₂.Good) (a : Args) :
    SimR (opCovmap w₁ a) (opCovmap w₂ a) := by
  unfold opCovmap
  refine same_withMap h g₁ g₂ fun n m₁ m₂ hn e1 e2 hc ok1 ok2 => ?_
  rw [hc.obs_covmap ok1.2.1.blankInvalid]
  exact SimR.same h _

theorem same_opValid (h : w₁.SameW w₂) (g₁ : w₁.Good) (g₂ : w₂.Good) (a : Args) :
    SimR (opValid w₁ a) (opValid w₂ a) := by
  unfold opValid
  refine same_withMap h g₁ g₂ fun n m₁ m₂ hn e1 e2 hc ok1 ok2 => ?_
  obtain ⟨l₁, l₂, v1, v2, _, hs⟩ := hc.obs_valid ok1.2.1.blankInvalid
  rw [v1, v2]
  simp only [hs]
  exact SimR.same h _

theorem same_opVpsc (h : w₁.SameW w₂) (g₁ : w₁.Good) (g₂ : w₂.Good) (a : Args) :
    SimR (opVpsc w₁ a) (opVpsc w₂ a) := by
  unfold opVpsc
  refine same_withMap h g₁ g₂ fun n m₁ m₂ hn e1 e2 hc ok1 ok2 => ?_
  split
  · exact SimR.same h _
  · rename_i k _
    have hce := hc.c_eq
    by_cases hk : k ≥ m₁.c.ncov
    · rw [if_pos hk, if_pos (by rw [hce]; exact hk)]
      exact SimR.same h _
    · rw [if_neg hk, if_neg (by rw [hce]; exact hk),
        hc.obs_vpsc ok1.2.1.blankInvalid (Nat.lt_of_not_le hk)]
      cases validPixelsSingleCovpix m₁.c m₁.vc m₁.st k <;> exact SimR.same h _

theorem same_opInfo (h : w₁.SameW w₂) (g₁ : w₁.Good) (g₂ : w₂.Good) (a : Args) :
    SimR (opInfo w₁ a) (opInfo w₂ a) := by
  unfold opInfo
  refine same_withMap h g₁ g₂ fun n m₁ m₂ hn e1 e2 hc ok1 ok2 => ?_
  simp only [hc.kind_eq, hc.covord_eq, hc.spord_eq, hc.sent_eq]
  exact SimR.same h _

theorem same_opChk (h : w₁.SameW w₂) (g₁ : w₁.Good) (g₂ : w₂.Good) (a : Args) :
    SimR (opChk w₁ a) (opChk w₂ a) := by
  unfold opChk
  refine same_withMap h g₁ g₂ fun n m₁ m₂ hn e1 e2 hc ok1 ok2 => ?_
  simp only [hc.obs_checkBits]
  repeat' split
  all_goals exact SimR.same h _

theorem same_opGet (h : w₁.SameW w₂) (g₁ : w₁.Good) (g₂ : w₂.Good) (a : Args) :
    SimR (opGet w₁ a) (opGet w₂ a) := by
  unfold opGet
  refine same_withMap h g₁ g₂ fun n m₁ m₂ hn e1 e2 hc ok1 ok2 => ?_
  simp only [hc.spord_eq, hc.obs_get, hc.vc_eq]
  repeat' split
  all_goals exact SimR.same h _

theorem same_opGetmeta (h : w₁.SameW w₂) (g₁ : w₁.Good) (g₂ : w₂.Good) (a : Args) :
    SimR (opGetmeta w₁ a) (opGetmeta w₂ a) := by
  unfold opGetmeta
  refine same_withMap h g₁ g₂ fun n m₁ m₂ hn e1 e2 hc ok1 ok2 => ?_
  rw [h.2.2.2.2.2]
  exact SimR.same h _

theorem same_opMeta (h : w₁.SameW w₂) (g₁ : w₁.Good) (g₂ : w₂.Good) (a : Args) :
    SimR (opMeta w₁ a) (opMeta w₂ a) := by
  unfold opMeta
  refine same_withMap h g₁ g₂ fun n m₁ m₂ hn e1 e2 hc ok1 ok2 => ?_
  rw [h.2.2.2.2.2]
  exact ⟨rfl, h.with_metas _⟩

theorem same_opBad (h : w₁.SameW w₂) (g₁ : w₁.Good) (g₂ : w₂.Good) (a : Args) :
    SimR (opBad w₁ a) (opBad w₂ a) := by
  unfold opBad
  exact same_withMap h g₁ g₂ fun n m₁ m₂ hn e1 e2 hc ok1 ok2 => SimR.same h _

theorem same_opCopy (h : w₁.SameW w₂) (g₁ : w₁.Good) (g₂ : w₂.Good) (a : Args) :
    SimR (opCopy w₁ a) (opCopy w₂ a) := by
  unfold opCopy
  exact same_withMap h g₁ g₂ fun n m₁ m₂ hn e1 e2 hc ok1 ok2 => ⟨rfl, h.bind _ (hc.with_cache none)⟩

theorem same_opDrop (h : w₁.SameW w₂) (a : Args) : SimR (opDrop w₁ a) (opDrop w₂ a) := by
  unfold opDrop
  split
  · exact ⟨rfl, h.drop _⟩
  · exact SimR.same h _

theorem same_opReset (a : Args) : SimR (opReset w₁ a) (opReset w₂ a) :=
  ⟨rfl, Named.nil, Named.nil, rfl, rfl, Named.nil, rfl⟩

/-- `n_valid` with its cache: the counts agree, and both sides cache the same count -/
theorem same_opNvalid (h : w₁.SameW w₂) (g₁ : w₁.Good) (g₂ : w₂.Good) (a : Args) :
    SimR (opNvalid w₁ a) (opNvalid w₂ a) := by
  unfold opNvalid
  refine same_withMap h g₁ g₂ fun n m₁ m₂ hn e1 e2 hc ok1 ok2 => ?_
  simp only [hc.cache_eq, hc.kind_eq, hc.view_eq, hc.obs_nvalid ok1.2.1.blankInvalid]
  split
  · exact SimR.same h _
  · split
    · exact SimR.same h _
    · split
      · exact SimR.same h _
      · rename_i hv
        have hv' : m₁.view = none := by
          cases hvv : m₁.view with
          | none => rfl
          | some x => rw [hvv] at hv; exact absurd rfl hv
        refine ⟨rfl, h.put_owning _ ?_ hv'⟩
        samec hc

/-! ### operations that build a map from the arguments alone -/

theorem same_opCfg (h : w₁.SameW w₂) (a : Args) : SimR (opCfg w₁ a) (opCfg w₂ a) := by
  unfold opCfg
  walk
  all_goals first
    | exact SimR.same h _
    | exact ⟨rfl, h.bind _ (.refl (WF.apiMakeEmpty ‹_›))⟩

theorem same_opMocread (h : w₁.SameW w₂) (a : Args) : SimR (opMocread w₁ a) (opMocread w₂ a) := by
  unfold opMocread
  rw [show w₂.mocs = w₁.mocs from h.2.2.2.1.symm]
  walk
  all_goals first
    | exact SimR.same h _
    | exact ⟨rfl, h.bind _ (.refl ((MapObj.WF_cache _ _).2 (WF.apiUpdate (WF.apiMakeEmpty ‹_›) ‹_›)))⟩

theorem same_opFromhp (h : w₁.SameW w₂) (a : Args) : SimR (opFromhp w₁ a) (opFromhp w₂ a) := by
  unfold opFromhp
  walk
  all_goals first
    | exact SimR.same h _
    | exact ⟨rfl, h.bind _ (.refl (WF.apiFromHealpix ‹_›))⟩

/-! ### HEALPix-format files: the same (pixel, value) pairs in another order -/

/-- the errors of `out[pix] = vals` on an owning map, in source order -/
theorem errOf_replace_gen {e : MapObj} {pix : List Nat} {vals : List Val} (hview : e.view = none)
    (hlen : vals.length = pix.length) :
    errOf (apiUpdate e "replace" pix (some vals) false) =
      if pix.isEmpty then none
      else if !(vals.all (valMatchesKind e.kind)) then some .value
      else if pix.eraseDups.length < pix.length then some .value
      else if pix.any (· ≥ e.npix) then some .index else none := by
  rw [ApiRanges.apiUpdate_eq]
  unfold ApiRanges.apiUpdateSpec ApiRanges.frontErr
  simp only [Option.isNone_some, Bool.false_and, Bool.false_eq_true, if_false, bne_self_eq_false,
    Option.getD_some, Bool.false_or, hview, Option.isSome_none, hlen, beq_self_eq_true,
    Bool.true_and, Bool.and_false, decide_eq_true_eq]
  have hadd : ("replace" == "add") = false := by decide +kernel
  simp only [hadd, Bool.false_and, Bool.false_eq_true, if_false]
  repeat' split
  all_goals rfl

theorem perm_find_fst {l₁ l₂ : List (Nat × Val)} (hp : l₁.Perm l₂) (hnd : (l₁.map (·.1)).Nodup)
    (p : Nat) : l₂.find? (·.1 == p) = l₁.find? (·.1 == p) := by
  have hnd2 : (l₂.map (·.1)).Nodup := (hp.map _).nodup_iff.1 hnd
  cases h1 : l₁.find? (·.1 == p) with
  | none =>
    rw [List.find?_eq_none] at h1 ⊢
    intro x hx
    exact h1 x (hp.mem_iff.2 hx)
  | some qw =>
    have hm1 := List.mem_of_find?_eq_some h1
    have hq1 : qw.1 = p := by simpa using List.find?_some h1
    cases h2 : l₂.find? (·.1 == p) with
    | none =>
      have := List.find?_eq_none.1 h2 qw (hp.mem_iff.1 hm1)
      simp [hq1] at this
    | some qw' =>
      have hm2 := List.mem_of_find?_eq_some h2
      have hq2 : qw'.1 = p := by simpa using List.find?_some h2
      rw [ApiRecord.eq_of_nodup_fst hnd2 hm2 (hp.mem_iff.1 hm1) (hq2.trans hq1.symm)]

/-- **`out[pix] = vals` with the same (pixel, value) pairs in another order**: the same error, or
    content-equal results -/
theorem replace_perm_sameC {e : MapObj} (he : e.WF) (hview : e.view = none)
    {pix₁ pix₂ : List Nat} {vals₁ vals₂ : List Val} (hl1 : pix₁.length = vals₁.length)
    (hl2 : pix₂.length = vals₂.length) (hp : (pix₁.zip vals₁).Perm (pix₂.zip vals₂)) :
    ExR MapObj.SameC (apiUpdate e "replace" pix₁ (some vals₁) false)
      (apiUpdate e "replace" pix₂ (some vals₂) false) := by
  have hpix : pix₁.Perm pix₂ := by
    have := hp.map (·.1)
    rwa [List.map_fst_zip (by omega), List.map_fst_zip (by omega)] at this
  have hvals : vals₁.Perm vals₂ := by
    have := hp.map (·.2)
    rwa [List.map_snd_zip (by omega), List.map_snd_zip (by omega)] at this
  refine ExR.of_errOf ?_ fun r₁ r₂ x1 x2 => ?_
  · rw [errOf_replace_gen hview hl1.symm, errOf_replace_gen hview hl2.symm]
    have e1 : pix₂.isEmpty = pix₁.isEmpty := by
      cases pix₁ with
      | nil => rw [List.Perm.nil_eq hpix]
      | cons x xs =>
        cases pix₂ with
        | nil => exact absurd hpix.symm (by simp)
        | cons y ys => rfl
    have e2 : vals₂.all (valMatchesKind e.kind) = vals₁.all (valMatchesKind e.kind) := by
      rw [Bool.eq_iff_iff, List.all_eq_true, List.all_eq_true]
      exact ⟨fun h x hx => h x (hvals.mem_iff.1 hx), fun h x hx => h x (hvals.mem_iff.2 hx)⟩
    have e3 : (pix₂.eraseDups.length < pix₂.length) ↔ (pix₁.eraseDups.length < pix₁.length) := by
      rw [eraseDups_length_lt_iff, eraseDups_length_lt_iff, hpix.nodup_iff]
    have e4 : (pix₂.any (· ≥ e.npix)) = (pix₁.any (· ≥ e.npix)) := by
      rw [Bool.eq_iff_iff, List.any_eq_true, List.any_eq_true]
      exact ⟨fun ⟨x, hx, h⟩ => ⟨x, hpix.mem_iff.2 hx, h⟩, fun ⟨x, hx, h⟩ => ⟨x, hpix.mem_iff.1 hx, h⟩⟩
    rw [e1, e2, e4]
    simp only [e3]
  · by_cases hne : pix₁ = []
    · subst hne
      have : pix₂ = [] := (List.Perm.nil_eq hpix).symm
      subst this
      have v1 : vals₁ = [] := List.eq_nil_of_length_eq_zero hl1.symm
      have v2 : vals₂ = [] := List.eq_nil_of_length_eq_zero hl2.symm
      subst v1 v2
      rw [x1] at x2; cases x2
      exact MapObj.SameC.refl (WF.apiUpdate he x1)
    · have hne2 : pix₂ ≠ [] := fun h => hne (by rw [h] at hpix; exact List.Perm.eq_nil hpix)
      obtain ⟨n1, lt1, _, _, rfl⟩ := ApiRecord.replace_ok hne x1
      obtain ⟨n2, lt2, _, _, rfl⟩ := ApiRecord.replace_ok hne2 x2
      have pv1 : ApiRanges.updPv e pix₁ (some vals₁) false = pix₁.zip vals₁ :=
        ApiDegrade.single_pv_eq _ hl1.symm
      have pv2 : ApiRanges.updPv e pix₂ (some vals₂) false = pix₂.zip vals₂ :=
        ApiDegrade.single_pv_eq _ hl2.symm
      rw [pv1, pv2]
      have hL1 : ∀ qw ∈ pix₁.zip vals₁, qw.1 < e.npix := fun qw hq => lt1 _ (List.of_mem_zip hq).1
      have hL2 : ∀ qw ∈ pix₂.zip vals₂, qw.1 < e.npix := fun qw hq => lt2 _ (List.of_mem_zip hq).1
      have hnd1 : ((pix₁.zip vals₁).map (·.1)).Nodup := by
        rw [List.map_fst_zip (by omega)]; exact n1
      have hnd2 : ((pix₂.zip vals₂).map (·.1)).Nodup := by
        rw [List.map_fst_zip (by omega)]; exact n2
      refine ⟨rfl, rfl, rfl, rfl, rfl, rfl, ApiRanges.inv_updatePix _ _ _ _ _ _ _ he.2 hL1,
        ApiRanges.inv_updatePix _ _ _ _ _ _ _ he.2 hL2, ?_, ?_⟩
      · intro p hpp
        show abs e.c e.vc (updatePix e.c e.vc e.st none (fun _ (w : Val) => w) (pix₁.zip vals₁) false) p
          = abs e.c e.vc (updatePix e.c e.vc e.st none (fun _ (w : Val) => w) (pix₂.zip vals₂) false) p
        rw [ApiRecord.updatePix_replace_abs he _ false hL1 hnd1 p hpp,
          ApiRecord.updatePix_replace_abs he _ false hL2 hnd2 p hpp, perm_find_fst hp hnd1 p]
      · intro k hk
        show covered e.c (updatePix e.c e.vc e.st none (fun _ (w : Val) => w) (pix₁.zip vals₁) false) k
          = covered e.c (updatePix e.c e.vc e.st none (fun _ (w : Val) => w) (pix₂.zip vals₂) false) k
        rw [ApiRanges.updatePix_covered _ _ _ _ _ _ _ he.2 hL1 k hk,
          ApiRanges.updatePix_covered _ _ _ _ _ _ _ he.2 hL2 k hk]
        congr 2
        rw [Bool.eq_iff_iff, List.any_eq_true, List.any_eq_true]
        exact ⟨fun ⟨x, hx, h⟩ => ⟨x, hp.mem_iff.1 hx, h⟩, fun ⟨x, hx, h⟩ => ⟨x, hp.mem_iff.2 hx, h⟩⟩

/-- **reading HEALPix-format files holding the same (pixel, value) pairs**: the same error, or
    content-equal maps -/
theorem apiReadHealpix_hpSame {f g : HpFile} (h : HpSame f g) (co : Nat) (r2n : Option (Array Nat)) :
    ExR MapObj.SameC (apiReadHealpix f co r2n) (apiReadHealpix g co r2n) := by
  rcases h with rfl | ⟨so, dt, s, pix, vals, pix', vals', rfl, rfl, h1, h2, hp⟩
  · cases hr : apiReadHealpix f co r2n with
    | error e => exact ExR.err _
    | ok m => exact MapObj.SameC.refl (WF.apiReadHealpix hr)
  · have hpix : pix.Perm pix' := by
      have := hp.map (·.1)
      rwa [List.map_fst_zip (by omega), List.map_fst_zip (by omega)] at this
    unfold apiReadHealpix
    simp only [bind, Except.bind, pure, Except.pure, throw, throwThe, MonadExceptOf.throw]
    have e1 : pix'.isEmpty = pix.isEmpty := by
      cases pix with
      | nil => rw [List.Perm.nil_eq hpix]
      | cons x xs =>
        cases pix' with
        | nil => exact absurd hpix.symm (by simp)
        | cons y ys => rfl
    rw [e1]
    split
    · exact ExR.err _
    · cases he : apiMakeEmpty co so (.plain dt) (some s) [] with
      | error e => exact ExR.err _
      | ok e =>
        obtain ⟨hw, _, _, _, hv⟩ := wf_apiMakeEmpty_nil he
        exact replace_perm_sameC hw hv h1 h2 hp

theorem same_opHpximplicit (h : w₁.SameW w₂) (a : Args) :
    SimR (opHpximplicit w₁ a) (opHpximplicit w₂ a) := by
  unfold opHpximplicit
  walk
  all_goals first
    | exact SimR.same h _
    | exact ⟨rfl, h.hpfiles_insert _ (HpSame.refl _)⟩

theorem same_opHpxread (h : w₁.SameW w₂) (a : Args) : SimR (opHpxread w₁ a) (opHpxread w₂ a) := by
  unfold opHpxread
  rcases h.hpfile (a.getD "f" "f") with ⟨e1, e2⟩ | ⟨f, g, e1, e2, hfg⟩
  · rw [e1, e2]
    walk
    all_goals exact SimR.same h _
  · rw [e1, e2]
    cases a.nat? "covord" with
    | none => exact SimR.same h _
    | some co =>
      simp only []
      rcases (apiReadHealpix_hpSame hfg co (((a.get? "r2n").bind parseNats).map List.toArray)).cases with
        ⟨r₁, r₂, x1, x2, hr⟩ | ⟨e, x1, x2⟩
      · rw [x1, x2]; exact ⟨rfl, h.bind _ (hr.with_cache none)⟩
      · rw [x1, x2]; exact SimR.same h _

theorem same_opRand (h : w₁.SameW w₂) (a : Args) : SimR (opRand w₁ a) (opRand w₂ a) := by
  unfold opRand
  walk
  all_goals exact SimR.same h _

theorem same_opCovread (h : w₁.SameW w₂) (a : Args) : SimR (opCovread w₁ a) (opCovread w₂ a) := by
  unfold opCovread
  rcases h.file (a.getD "f" "f") with ⟨e1, e2⟩ | ⟨f, g, e1, e2, hf⟩
  · rw [e1, e2]; exact SimR.same h _
  · rw [e1, e2]
    have : readCoverage (cfgOf g.covord g.spord) g.file = readCoverage (cfgOf f.covord f.spord) f.file := by
      unfold readCoverage
      rw [← hf.1, ← hf.2.1]
      exact List.map_congr_left fun k hk => (hf.2.2.2.2.2.2.2.2.2.1 k (List.mem_range.1 hk)).symm
    simp only [this]
    exact SimR.same h _

/-! ### `update_values_pix` and the operations built on it -/

/-- **`update_values_pix` on content-equal map objects**: the same error, or content-equal results -/
theorem apiUpdate_sameC {m₁ m₂ : MapObj} (hc : m₁.SameC m₂) (op : String) (pix : List Nat)
    (vals : Option (List Val)) (single : Bool) (ru : Option Bool) :
    ExR MapObj.SameC (apiUpdate m₁ op pix vals single ru) (apiUpdate m₂ op pix vals single ru) := by
  have hrel := apiUpdate_same m₁ m₂ hc.sameObj hc.same op pix vals single ru
  cases h1 : apiUpdate m₁ op pix vals single ru with
  | error e₁ =>
    cases h2 : apiUpdate m₂ op pix vals single ru with
    | error e₂ => rw [h1, h2] at hrel; exact hrel
    | ok r₂ => rw [h1, h2] at hrel; exact hrel.elim
  | ok r₁ =>
    cases h2 : apiUpdate m₂ op pix vals single ru with
    | error e₂ => rw [h1, h2] at hrel; exact hrel.elim
    | ok r₂ =>
      rw [h1, h2] at hrel
      obtain ⟨s1, s2, hS⟩ := hrel
      have c1 := (WFApi.apiUpdate_ok h1).2.2.2.2.2.1
      have c2 := (WFApi.apiUpdate_ok h2).2.2.2.2.2.1
      show r₁.SameC r₂
      refine ⟨s1.1.trans s2.1.symm, s1.2.1.trans s2.2.1.symm, s1.2.2.1.trans s2.2.2.1.symm,
        s1.2.2.2.1.trans s2.2.2.2.1.symm, c1.trans c2.symm, s1.2.2.2.2.trans s2.2.2.2.2.symm, ?_⟩
      rw [s1.c_eq, s1.vc_eq]
      exact hS

theorem apiSetBits_sameC {m₁ m₂ : MapObj} (hc : m₁.SameC m₂) (pix bits : List Nat) (clear : Bool) :
    ExR MapObj.SameC (apiSetBits m₁ pix bits clear) (apiSetBits m₂ pix bits clear) := by
  unfold apiSetBits MapObj.maxbits
  simp only [bind, Except.bind, pure, Except.pure, throw, throwThe, MonadExceptOf.throw, hc.kind_eq]
  repeat' split
  all_goals first
    | exact ExR.err _
    | exact apiUpdate_sameC hc _ _ _ _ _

/-- the result of an in-place call keeps the view flag of the operand -/
theorem apiUpdate_view {m m' : MapObj} {op : String} {pix : List Nat} {vals : Option (List Val)}
    {single : Bool} {ru : Option Bool} (h : apiUpdate m op pix vals single ru = .ok m') :
    m'.view = m.view := (WFApi.apiUpdate_ok h).2.2.2.2.1

set_option hygiene false in
/-- the two leaves of an in-place operation on an owning map: the operand stored with its cache
    reset (error), the result stored (success) -/
macro "put_leaf" : tactic => `(tactic| first
  | exact SimR.same h _
  | exact ⟨rfl, h.put_owning _ (by samec hc) hv⟩)

theorem same_opUpd (h : w₁.SameW w₂) (g₁ : w₁.Good) (g₂ : w₂.Good) (a : Args)
    (hnv : NoViewTarget w₁ a) : SimR (opUpd w₁ a) (opUpd w₂ a) := by
  unfold opUpd
  refine same_withMap h g₁ g₂ fun n m₁ m₂ hn e1 e2 hc ok1 ok2 => ?_
  have hv : m₁.view = none := hnv m₁ (by rw [hn]; exact e1)
  simp only [hn, hc.kind_eq, hc.sent_eq]
  split
  · exact SimR.same h _
  · rename_i pix _
    split
    · exact SimR.same h _
    · rename_i vals single _
      rcases (apiUpdate_sameC hc (a.getD "op" "replace") pix vals single none).cases with
        ⟨r₁, r₂, x1, x2, hr⟩ | ⟨e, x1, x2⟩
      · rw [x1, x2]
        walk
        all_goals first
          | put_leaf
          | exact ⟨rfl, h.put_owning _ hr ((apiUpdate_view x1).trans hv)⟩
      · rw [x1, x2]
        walk
        all_goals put_leaf

theorem same_opSet (h : w₁.SameW w₂) (g₁ : w₁.Good) (g₂ : w₂.Good) (a : Args)
    (hnv : NoViewTarget w₁ a) : SimR (opSet w₁ a) (opSet w₂ a) := by
  unfold opSet
  refine same_withMap h g₁ g₂ fun n m₁ m₂ hn e1 e2 hc ok1 ok2 => ?_
  have hv : m₁.view = none := hnv m₁ (by rw [hn]; exact e1)
  simp only [hn]
  split
  · rename_i lo hi st _
    split
    · exact SimR.same h _
    · split
      · exact SimR.same h _
      · rename_i v _
        rcases (apiUpdate_sameC hc "replace"
          ((List.range ((hi - lo + st - 1) / st)).map fun i => lo + i * st) v true none).cases with
          ⟨r₁, r₂, x1, x2, hr⟩ | ⟨e, x1, x2⟩
        · rw [x1, x2]
          exact ⟨rfl, h.put_owning _ hr ((apiUpdate_view x1).trans hv)⟩
        · rw [x1, x2]
          put_leaf
  · exact SimR.same h _

theorem same_opBits (h : w₁.SameW w₂) (g₁ : w₁.Good) (g₂ : w₂.Good) (a : Args)
    (hnv : NoViewTarget w₁ a) : SimR (opBits w₁ a) (opBits w₂ a) := by
  unfold opBits
  refine same_withMap h g₁ g₂ fun n m₁ m₂ hn e1 e2 hc ok1 ok2 => ?_
  have hv : m₁.view = none := hnv m₁ (by rw [hn]; exact e1)
  simp only [hn]
  split
  · rename_i pix bits _ _
    rcases (apiSetBits_sameC hc pix bits (a.getD "mode" "set" == "clear")).cases with
      ⟨r₁, r₂, x1, x2, hr⟩ | ⟨e, x1, x2⟩
    · rw [x1, x2]
      obtain ⟨op, vals, hu⟩ := WFApi.apiSetBits_ok x1
      exact ⟨rfl, h.put_owning _ hr ((apiUpdate_view hu).trans hv)⟩
    · rw [x1, x2]
      exact SimR.same h _
  · exact SimR.same h _

/-! ### `update_values_pix` with pixel ranges -/

theorem MapObj.SameC.eq_with_st {a b : MapObj} (h : a.SameC b) : b = { a with st := b.st } := by
  obtain ⟨h1, h2, h3, h4, h5, h6, _⟩ := h
  obtain ⟨c1, s1, k1, t1, st1, ca1, v1⟩ := a
  obtain ⟨c2, s2, k2, t2, st2, ca2, v2⟩ := b
  simp only at h1 h2 h3 h4 h5 h6
  subst h1 h2 h3 h4 h5 h6
  rfl

open ApiRanges in
theorem sliceSt_same {m : MapObj} {s₂ : State Val} (hw : m.WF) (hS : C10.Same m.c m.vc m.st s₂)
    (op : String) (R : List (Nat × Nat)) (val : Option Val)
    (hR : ∀ ab ∈ liveRows R, ab.1 ≤ ab.2 ∧ ab.2 ≤ m.npix) :
    C10.Same m.c m.vc (sliceSt m op R val) (sliceSt { m with st := s₂ } op R val) := by
  have hw2 : ({ m with st := s₂ } : MapObj).WF := ⟨hw.1, hS.2.1⟩
  obtain ⟨i1, c1, a1⟩ := sliceSt_spec (op := op) (val := val) hw hR
  obtain ⟨i2, c2, a2⟩ := sliceSt_spec (m := { m with st := s₂ }) (op := op) (val := val) hw2 hR
  refine ⟨i1, i2, ?_, ?_⟩
  · intro p hp
    have hk := covpix_lt m.c p hp
    refine (a1 p hp).trans (Eq.trans ?_ (a2 p hp).symm)
    show _ = if (val.isNone && !covered m.c s₂ (p >>> m.c.shift)) = true then abs m.c m.vc s₂ p
      else R.foldl (fun x ab => if ab.1 ≤ p ∧ p < ab.2
                  then (cellOp m op).2 x (rangesW m val) else x)
            (R.foldl (fun x ab => if ab.1 ≤ p ∧ p < ab.2
                  then ((cellOp m op).1.getD id) x else x) (abs m.c m.vc s₂ p))
    rw [← hS.2.2.2 _ hk, ← hS.2.2.1 p hp]
    rfl
  · intro k hk
    refine (c1 k hk).trans (Eq.trans ?_ (c2 k hk).symm)
    show _ = (covered m.c s₂ k || (!val.isNone && decide (k ∈ rangeNewCov m.c s₂ (liveRows R))))
    rw [← hS.2.2.2 k hk]
    congr 2
    rw [decide_eq_decide, mem_rangeNewCov, mem_rangeNewCov, hS.2.2.2 k hk]

open ApiRanges in
/-- **`update_values_pix` with ranges on content-equal map objects** (either path): the same
    error, or content-equal results -/
theorem apiUpdateRanges_sameC {m₁ m₂ : MapObj} (hc : m₁.SameC m₂) (hw : m₁.WF) (op : String)
    (R : List (Nat × Nat)) (val : Option Val) (sl : Bool) :
    ExR MapObj.SameC (apiUpdateRanges m₁ op R val sl) (apiUpdateRanges m₂ op R val sl) := by
  by_cases hpath : (!sl || m₁.view.isSome) = true
  · -- the explicit path: three calls of `update_values_pix`
    have hpath2 : (!sl || m₂.view.isSome) = true := by rw [hc.view_eq]; exact hpath
    unfold apiUpdateRanges
    simp only [hpath, hpath2, if_true, hc.npix_eq]
    split
    · exact apiUpdate_sameC hc _ _ _ _ _
    · split
      · rcases (apiUpdate_sameC hc op [0] (val.map fun v => [v]) true
          (some (!decide ((List.flatMap (fun ab => [ab.1, ab.2]) R).eraseDups.length < R.length)))).cases with
          ⟨r₁, r₂, x1, x2, _⟩ | ⟨e, x1, x2⟩
        · rw [x1, x2]; exact ExR.err _
        · rw [x1, x2]; exact ExR.err _
      · exact apiUpdate_sameC hc _ _ _ _ _
  · -- the range routine
    have hsl : sl = true := by
      cases sl with
      | true => rfl
      | false => exact absurd rfl hpath
    have hv : m₁.view = none := by
      cases hvv : m₁.view with
      | none => rfl
      | some x => rw [hvv] at hpath; simp at hpath
    subst hsl
    have hS := hc.same
    rw [hc.eq_with_st] at hS ⊢
    generalize m₂.st = s₂ at hS ⊢
    rw [apiUpdateRanges_slice_eq m₁ op R val hv,
      apiUpdateRanges_slice_eq { m₁ with st := s₂ } op R val hv]
    unfold apiRangesSliceSpec
    show ExR _ _ (match frontErr m₁ op val.isNone with
      | some e => .error e
      | none =>
        if R.isEmpty then .ok { m₁ with st := s₂, cache := none }
        else if !(valMatchesKind m₁.kind (rangesW m₁ val)) then .error .value
        else if op == "replace" && !rawOk R then .error .value
        else if (liveRows R).any (fun ab => ab.2 > m₁.npix || ab.1 > ab.2) then .error .index
        else if op == "add" && !floatCellsFit m₁.kind (sliceSt { m₁ with st := s₂ } op R val).sp
          then .error .inexact
        else .ok { m₁ with cache := none, st := sliceSt { m₁ with st := s₂ } op R val })
    cases frontErr m₁ op val.isNone with
    | some e => exact ExR.err _
    | none =>
      simp only []
      split
      · exact ⟨rfl, rfl, rfl, rfl, rfl, rfl, hS⟩
      · split
        · exact ExR.err _
        · split
          · exact ExR.err _
          · split
            · exact ExR.err _
            · rename_i hany
              have hR : ∀ ab ∈ liveRows R, ab.1 ≤ ab.2 ∧ ab.2 ≤ m₁.npix := by
                intro ab hab
                have := (not_any_iff.1 hany) ab hab
                simp only [Bool.or_eq_false_iff, decide_eq_false_iff_not] at this
                omega
              have hsl := sliceSt_same hw hS op R val hR
              rw [← floatCellsFit_same m₁.kind hsl]
              split
              · exact ExR.err _
              · exact ⟨rfl, rfl, rfl, rfl, rfl, rfl, hsl⟩

theorem apiUpdateRanges_view' {m m' : MapObj} {op : String} {R : List (Nat × Nat)}
    {val : Option Val} {sl : Bool} (h : apiUpdateRanges m op R val sl = .ok m') :
    m'.view = m.view := (WFApi.apiUpdateRanges_ok h).2.2.2.2.1

theorem updr_tail (h : w₁.SameW w₂) {m₁ m₂ : MapObj} (hc : m₁.SameC m₂) (hw : m₁.WF)
    (hv : m₁.view = none) (n op : String) (R : List (Nat × Nat)) (v : Option Val) (sl : Bool) :
    SimR (match apiUpdateRanges m₁ op R v sl with
        | .ok m' => (w₁.put n m', "ok")
        | .error e => (w₁.put n { m₁ with cache := none }, errLine e))
      (match apiUpdateRanges m₂ op R v sl with
        | .ok m' => (w₂.put n m', "ok")
        | .error e => (w₂.put n { m₂ with cache := none }, errLine e)) := by
  rcases (apiUpdateRanges_sameC hc hw op R v sl).cases with ⟨r₁, r₂, x1, x2, hr⟩ | ⟨e, x1, x2⟩
  · rw [x1, x2]
    exact ⟨rfl, h.put_owning _ hr ((apiUpdateRanges_view' x1).trans hv)⟩
  · rw [x1, x2]
    put_leaf

theorem same_opUpdr (h : w₁.SameW w₂) (g₁ : w₁.Good) (g₂ : w₂.Good) (a : Args)
    (hnv : NoViewTarget w₁ a) : SimR (opUpdr w₁ a) (opUpdr w₂ a) := by
  unfold opUpdr
  refine same_withMap h g₁ g₂ fun n m₁ m₂ hn e1 e2 hc ok1 ok2 => ?_
  have hv : m₁.view = none := hnv m₁ (by rw [hn]; exact e1)
  simp only [hn]
  split
  · exact SimR.same h _
  · rename_i R _
    split
    · exact SimR.same h _
    · rename_i v _
      exact updr_tail h hc ok1.1 hv n _ R v _

/-! ### files: `write`, `read` -/

theorem apiWrite_sameF {m₁ m₂ : MapObj} (hc : m₁.SameC m₂) (hs : m₁.SentOK)
    (md : List (String × String)) : (apiWrite m₁ md).SameF (apiWrite m₂ md) := by
  have hS := hc.same
  rw [hc.eq_with_st] at hS ⊢
  generalize m₂.st = s₂ at hS ⊢
  refine ⟨rfl, rfl, rfl, rfl, rfl, rfl, rfl, rfl, rfl, ?_, ?_⟩
  · intro k hk
    exact hS.2.2.2 k hk
  · intro kind hk
    have := vc_of_fileKind_apiWrite hs hk
    show C10.Same m₁.c ⟨kind.blank m₁.sent, kind.valid m₁.sent⟩ m₁.st s₂
    rw [this]
    exact hS

/-- a partial read of content-equal extensions: refused alike, or content-equal results -/
theorem readPartial_same {c : Cfg} {vc : VCfg Val} {s₁ s₂ : State Val} (hS : C10.Same c vc s₁ s₂)
    (px : List Nat) :
    (readPartial c vc (writeFits s₁) px = none ∧ readPartial c vc (writeFits s₂) px = none) ∨
    ∃ r₁ r₂, readPartial c vc (writeFits s₁) px = some r₁ ∧
      readPartial c vc (writeFits s₂) px = some r₂ ∧ C10.Same c vc r₁ r₂ := by
  have hreq : (∃ k ∈ px, k < c.ncov ∧ covered c s₁ k = true) ↔
      (∃ k ∈ px, k < c.ncov ∧ covered c s₂ k = true) := by
    constructor
    · rintro ⟨k, h1, h2, h3⟩; exact ⟨k, h1, h2, by rw [← hS.2.2.2 k h2]; exact h3⟩
    · rintro ⟨k, h1, h2, h3⟩; exact ⟨k, h1, h2, by rw [hS.2.2.2 k h2]; exact h3⟩
  by_cases hok : px.Nodup ∧ ∃ k ∈ px, k < c.ncov ∧ covered c s₁ k = true
  · obtain ⟨r₁, e1, i1, a1, c1⟩ := C03.read_partial_spec c vc s₁ px hS.1 hok.1 hok.2
    obtain ⟨r₂, e2, i2, a2, c2⟩ := C03.read_partial_spec c vc s₂ px hS.2.1 hok.1 (hreq.1 hok.2)
    refine .inr ⟨r₁, r₂, e1, e2, i1, i2, ?_, ?_⟩
    · intro p hp
      rw [a1 p hp, a2 p hp, hS.2.2.2 _ (covpix_lt c p hp), hS.2.2.1 p hp]
    · intro k hk
      rw [c1 k hk, c2 k hk, hS.2.2.2 k hk]
  · have hno : ¬ px.Nodup ∨ ¬ ∃ k ∈ px, k < c.ncov ∧ covered c s₁ k = true := by
      by_cases hnd : px.Nodup
      · exact .inr fun hr => hok ⟨hnd, hr⟩
      · exact .inl hnd
    refine .inl ⟨(C03.read_partial_rejects_iff c vc s₁ px hS.1).2 hno,
      (C03.read_partial_rejects_iff c vc s₂ px hS.2.1).2 ?_⟩
    rcases hno with h1 | h1
    · exact .inl h1
    · exact .inr fun hr => h1 (hreq.2 hr)

/-- **reading (fully or partially) content-equal files**: the same error, or content-equal maps -/
theorem apiRead_sameF {f g : FileObj} (hf : f.SameF g) (px : Option (List Nat)) :
    ExR MapObj.SameC (apiRead f px) (apiRead g px) := by
  have hk := hf.fileKind_eq
  obtain ⟨h1, h2, _, h4, _, _, _, _, _, _, hs⟩ := hf
  cases px with
  | none =>
    rw [apiRead_none_eq, apiRead_none_eq, hk]
    cases hkk : fileKind f with
    | none => exact ExR.err _
    | some k =>
      exact ⟨h1, h2, rfl, h4, rfl, rfl, hs k hkk⟩
  | some l =>
    rw [apiRead_some_eq, apiRead_some_eq, hk]
    cases hkk : fileKind f with
    | none => exact ExR.err _
    | some k =>
      simp only []
      rw [← h1, ← h2, ← h4]
      rcases readPartial_same (hs k hkk) l with ⟨e1, e2⟩ | ⟨r₁, r₂, e1, e2, hr⟩
      · have e1' : readPartial (cfgOf f.covord f.spord) ⟨k.blank f.sentinel, k.valid f.sentinel⟩ f.file l = none := e1
        have e2' : readPartial (cfgOf f.covord f.spord) ⟨k.blank f.sentinel, k.valid f.sentinel⟩ g.file l = none := e2
        rw [e1', e2']
        exact ExR.err _
      · have e1' : readPartial (cfgOf f.covord f.spord) ⟨k.blank f.sentinel, k.valid f.sentinel⟩ f.file l = some r₁ := e1
        have e2' : readPartial (cfgOf f.covord f.spord) ⟨k.blank f.sentinel, k.valid f.sentinel⟩ g.file l = some r₂ := e2
        rw [e1', e2']
        exact ⟨rfl, rfl, rfl, rfl, rfl, rfl, hr⟩

theorem same_opWrite (h : w₁.SameW w₂) (g₁ : w₁.Good) (g₂ : w₂.Good) (a : Args) :
    SimR (opWrite w₁ a) (opWrite w₂ a) := by
  unfold opWrite
  refine same_withMap h g₁ g₂ fun n m₁ m₂ hn e1 e2 hc ok1 ok2 => ?_
  simp only []
  have e : ((w₂.metas.find? (·.1 == a.pos.headD "")).map (·.2)).getD []
      = ((w₁.metas.find? (·.1 == a.pos.headD "")).map (·.2)).getD [] := by rw [h.2.2.2.2.2]
  rw [e]
  exact ⟨rfl, h.files_insert _ (apiWrite_sameF hc ok1.2.2 _)⟩

theorem same_opRead (h : w₁.SameW w₂) (a : Args) : SimR (opRead w₁ a) (opRead w₂ a) := by
  unfold opRead
  rcases h.file (a.getD "f" "f") with ⟨e1, e2⟩ | ⟨f, g, e1, e2, hf⟩
  · rw [e1, e2]; exact SimR.same h _
  · rw [e1, e2]
    simp only []
    split
    · exact SimR.same h _
    · rename_i px _
      rcases (apiRead_sameF hf px).cases with ⟨r₁, r₂, x1, x2, hr⟩ | ⟨e, x1, x2⟩
      · rw [x1, x2]
        refine ⟨rfl, (h.bind _ hr).with_metas' ?_⟩
        show _ :: List.filter _ w₁.metas = _ :: List.filter _ w₂.metas
        rw [h.2.2.2.2.2, hf.2.2.2.2.2.2.2.2.1]
      · rw [x1, x2]
        exact SimR.same h _

/-! ### scalar operators, `apply_mask`, `astype` -/

/-- a test over the valid storage cells does not depend on the representation -/
theorem valid_any_same {c : Cfg} {vc : VCfg Val} {s₁ s₂ : State Val} (hS : C10.Same c vc s₁ s₂)
    (hv : vc.valid vc.sentinel = false) (Q : Val → Bool) :
    (s₁.sp.toList.filter vc.valid).any Q = (s₂.sp.toList.filter vc.valid).any Q := by
  rw [Bool.eq_iff_iff, ApiScalar.any_valid_iff hS.1 hv, ApiScalar.any_valid_iff hS.2.1 hv]
  constructor
  · rintro ⟨p, hp, h1, h2⟩; exact ⟨p, hp, by rw [← hS.2.2.1 p hp]; exact h1, by rw [← hS.2.2.1 p hp]; exact h2⟩
  · rintro ⟨p, hp, h1, h2⟩; exact ⟨p, hp, by rw [hS.2.2.1 p hp]; exact h1, by rw [hS.2.2.1 p hp]; exact h2⟩

/-- content-equal states at the parameters of `m` -/
abbrev StSame (m : MapObj) (s₁ s₂ : State Val) : Prop := C10.Same m.c m.vc s₁ s₂

theorem apiScalarOp_sameC {m₁ m₂ : MapObj} (hc : m₁.SameC m₂) (hv : m₁.BlankInvalid) (op : String)
    (k : Scalar) : ExR (StSame m₁) (apiScalarOp m₁ op k) (apiScalarOp m₂ op k) := by
  have hS := hc.same
  rw [hc.eq_with_st] at hS ⊢
  generalize m₂.st = s₂ at hS ⊢
  rw [ApiScalar.apiScalarOp_eq, ApiScalar.apiScalarOp_eq]
  show ExR _ _ (match ApiScalar.sopError m₁.kind op k with
    | some e => .error e
    | none =>
      if (s₂.sp.toList.filter m₁.vc.valid).any (fun x => (ApiScalar.sopCell m₁.kind op k x).isNone) then
        .error .inexact
      else .ok (scalarOp m₁.vc s₂ fun x => (ApiScalar.sopCell m₁.kind op k x).getD x))
  rw [← valid_any_same hS hv]
  cases ApiScalar.sopError m₁.kind op k with
  | some e => exact ExR.err _
  | none =>
    simp only []
    split
    · exact ExR.err _
    · exact C10.same_scalarOp m₁.c m₁.vc _ _ _ hS hv

theorem perm_any_eq {α : Type} {l₁ l₂ : List α} (h : l₁.Perm l₂) (P : α → Bool) :
    l₁.any P = l₂.any P := by
  rw [Bool.eq_iff_iff, List.any_eq_true, List.any_eq_true]
  exact ⟨fun ⟨x, hx, hp⟩ => ⟨x, h.mem_iff.1 hx, hp⟩, fun ⟨x, hx, hp⟩ => ⟨x, h.mem_iff.2 hx, hp⟩⟩

theorem apiApplyMask_sameC {m₁ m₂ k₁ k₂ : MapObj} (hc : m₁.SameC m₂) (hk : k₁.SameC k₂)
    (hv : m₁.BlankInvalid) (mb : Option Int) (ba : Option (List Nat)) :
    ExR (StSame m₁) (apiApplyMask m₁ k₁ mb ba) (apiApplyMask m₂ k₂ mb ba) := by
  have hS := hc.same
  rw [hc.eq_with_st] at hS ⊢
  generalize m₂.st = s₂ at hS ⊢
  rw [ApiScalar.apiApplyMask_eq, ApiScalar.apiApplyMask_eq]
  have hme : ApiScalar.maskError k₂ mb ba = ApiScalar.maskError k₁ mb ba := by
    rw [hk.eq_with_st]; rfl
  rw [hme]
  cases ApiScalar.maskError k₁ mb ba with
  | some e => exact ExR.err _
  | none =>
    simp only []
    obtain ⟨l₁, e1, p1⟩ := C02.validPixels_spec m₁.c m₁.vc m₁.st hS.1 hv
    obtain ⟨l₂, e2, p2⟩ := C02.validPixels_spec m₁.c m₁.vc s₂ hS.2.1 hv
    have e2' : validPixels ({ m₁ with st := s₂ } : MapObj).c ({ m₁ with st := s₂ } : MapObj).vc
        ({ m₁ with st := s₂ } : MapObj).st = some l₂ := e2
    rw [e1, e2']
    simp only []
    have hvs : C02.validSet m₁.c m₁.vc s₂ = C02.validSet m₁.c m₁.vc m₁.st :=
      (validSet_congr m₁.c m₁.vc m₁.st s₂ hS.2.2.1).symm
    rw [hvs] at p2
    have hperm : l₁.Perm l₂ := p1.trans p2.symm
    rw [hk.npix_eq, ← perm_any_eq hperm]
    split
    · exact ExR.err _
    · rename_i hany
      obtain ⟨r₁, a1, i1, b1, c1⟩ := C12.applyMask_spec m₁.c m₁.vc m₁.st (ApiScalar.maskBad k₁ mb ba) hS.1 hv
      obtain ⟨r₂, a2, i2, b2, c2⟩ := C12.applyMask_spec m₁.c m₁.vc s₂ (ApiScalar.maskBad k₂ mb ba) hS.2.1 hv
      have a2' : applyMask ({ m₁ with st := s₂ } : MapObj).c ({ m₁ with st := s₂ } : MapObj).vc
          ({ m₁ with st := s₂ } : MapObj).st (ApiScalar.maskBad k₂ mb ba) = some r₂ := a2
      rw [a1, a2']
      refine ⟨i1, i2, ?_, ?_⟩
      · intro p hp
        rw [b1 p hp, b2 p hp, ← hS.2.2.1 p hp]
        cases hval : m₁.vc.valid (abs m₁.c m₁.vc m₁.st p) with
        | false => rfl
        | true =>
          -- a valid pixel of the map is listed, hence inside the mask map
          have hmem : ((p : Nat) : Int) ∈ l₁ := by
            rw [p1.mem_iff]
            exact List.mem_map.2 ⟨p, List.mem_filter.2 ⟨List.mem_range.2 hp, hval⟩, rfl⟩
          have := (ApiRanges.not_any_iff.1 hany) _ hmem
          simp only [Bool.or_eq_false_iff, decide_eq_false_iff_not, Int.toNat_natCast] at this
          have hpk : p < k₁.npix := by omega
          have : ApiScalar.maskBad k₂ mb ba p = ApiScalar.maskBad k₁ mb ba p := by
            unfold ApiScalar.maskBad
            rw [hk.abs_eq hpk, hk.eq_with_st]
            rfl
          rw [this]
      · intro k hk'
        rw [c1 k, c2 k, hS.2.2.2 k hk']

theorem apiAstype_sameC {m₁ m₂ : MapObj} (hc : m₁.SameC m₂) (hv : m₁.BlankInvalid) (dst : DT)
    (sentinel : Option Val) :
    ExR MapObj.SameC (apiAstype m₁ dst sentinel) (apiAstype m₂ dst sentinel) := by
  have hS := hc.same
  rw [hc.eq_with_st] at hS ⊢
  generalize m₂.st = s₂ at hS ⊢
  rw [ApiScalar.apiAstype_eq, ApiScalar.apiAstype_eq]
  show ExR _ _ (match ApiScalar.astypeSrc m₁.kind with
      | none => .error .runtime
      | some src =>
        match checkSentinel dst sentinel with
        | .error e => .error e
        | .ok sent' =>
          if (s₂.sp.toList.filter m₁.vc.valid).any (fun x => (convCell src dst x).isNone) then
            .error .inexact
          else .ok { m₁ with kind := .plain dst, sent := sent', cache := none, st := (astypeMap m₁.vc s₂ (fun x => (convCell src dst x).getD x) sent') })
  cases ApiScalar.astypeSrc m₁.kind with
  | none => exact ExR.err _
  | some src =>
    simp only []
    cases checkSentinel dst sentinel with
    | error e => exact ExR.err _
    | ok sent' =>
      simp only []
      rw [← valid_any_same hS hv]
      split
      · exact ExR.err _
      · exact ⟨rfl, rfl, rfl, rfl, rfl, rfl,
          C10.same_astype m₁.c m₁.vc ⟨(Kind.plain dst).blank sent', (Kind.plain dst).valid sent'⟩
            _ _ _ hS hv⟩

set_option hygiene false in
/-- leaves of a storage-returning operation: result stored in place / bound under `r=`; operand
    stored with its cache reset; world unchanged -/
macro "st_leaf" : tactic => `(tactic| first
  | exact SimR.same h _
  | exact ⟨rfl, h.put_owning _ (hc.with_st hr none) hv⟩
  | exact ⟨rfl, h.bind _ (hc.with_st hr none)⟩
  | exact ⟨rfl, h.bind _ (by samec hc)⟩
  | exact ⟨rfl, h.put_owning _ (by samec hc) hv⟩)

theorem same_opSop (h : w₁.SameW w₂) (g₁ : w₁.Good) (g₂ : w₂.Good) (a : Args)
    (hnv : a.flag "inplace" = true → NoViewTarget w₁ a) : SimR (opSop w₁ a) (opSop w₂ a) := by
  unfold opSop
  refine same_withMap h g₁ g₂ fun n m₁ m₂ hn e1 e2 hc ok1 ok2 => ?_
  simp only [hn, hc.kind_eq]
  split
  · exact SimR.same h _
  · rename_i k _
    cases hin : a.flag "inplace"
    · simp only [Bool.false_eq_true, if_false, Bool.false_and]
      rcases (apiScalarOp_sameC hc ok1.2.1.blankInvalid (a.getD "op" "add") k).cases with
        ⟨r₁, r₂, x1, x2, hr⟩ | ⟨e, x1, x2⟩
      · rw [x1, x2]; st_leaf
      · rw [x1, x2]; st_leaf
    · have hv : m₁.view = none := hnv hin m₁ (by rw [hn]; exact e1)
      simp only [if_true, Bool.true_and]
      rcases (apiScalarOp_sameC hc ok1.2.1.blankInvalid (a.getD "op" "add") k).cases with
        ⟨r₁, r₂, x1, x2, hr⟩ | ⟨e, x1, x2⟩
      · rw [x1, x2]; st_leaf
      · rw [x1, x2]
        walk
        all_goals st_leaf

theorem same_opMask (h : w₁.SameW w₂) (g₁ : w₁.Good) (g₂ : w₂.Good) (a : Args)
    (hnv : a.flag "inplace" = true → NoViewTarget w₁ a) : SimR (opMask w₁ a) (opMask w₂ a) := by
  unfold opMask
  refine same_withMap h g₁ g₂ fun n m₁ m₂ hn e1 e2 hc ok1 ok2 => ?_
  simp only [hn]
  rcases h.get g₁ g₂ (a.getD "by" "") with ⟨q1, q2⟩ | ⟨k₁, k₂, q1, q2, hk⟩
  · rw [q1, q2]; exact SimR.same h _
  · rw [q1, q2]
    simp only []
    rcases (apiApplyMask_sameC hc hk ok1.2.1.blankInvalid ((a.get? "bits").bind String.toInt?)
      ((a.get? "bitarr").bind parseNats)).cases with ⟨r₁, r₂, x1, x2, hr⟩ | ⟨e, x1, x2⟩
    · rw [x1, x2]
      cases hin : a.flag "inplace"
      · simp only [Bool.false_eq_true, if_false]; st_leaf
      · have hv : m₁.view = none := hnv hin m₁ (by rw [hn]; exact e1)
        simp only [if_true]; st_leaf
    · rw [x1, x2]; st_leaf

theorem same_opAstype (h : w₁.SameW w₂) (g₁ : w₁.Good) (g₂ : w₂.Good) (a : Args) :
    SimR (opAstype w₁ a) (opAstype w₂ a) := by
  unfold opAstype
  refine same_withMap h g₁ g₂ fun n m₁ m₂ hn e1 e2 hc ok1 ok2 => ?_
  split
  · rename_i dt sent _ _
    rcases (apiAstype_sameC hc ok1.2.1.blankInvalid dt sent).cases with
      ⟨r₁, r₂, x1, x2, hr⟩ | ⟨e, x1, x2⟩
    · rw [x1, x2]; exact ⟨rfl, h.bind _ hr⟩
    · rw [x1, x2]; exact SimR.same h _
  · exact SimR.same h _

/-! ### sub-maps, resolution -/

theorem same_opScov (h : w₁.SameW w₂) (g₁ : w₁.Good) (g₂ : w₂.Good) (a : Args) :
    SimR (opScov w₁ a) (opScov w₂ a) := by
  unfold opScov
  refine same_withMap h g₁ g₂ fun n m₁ m₂ hn e1 e2 hc ok1 ok2 => ?_
  split
  · exact SimR.same h _
  · rename_i k _
    have hce := hc.c_eq
    by_cases hk : k ≥ m₁.c.ncov
    · rw [if_pos hk, if_pos (by rw [hce]; exact hk)]
      exact SimR.same h _
    · rw [if_neg hk, if_neg (by rw [hce]; exact hk)]
      have hk' : k < m₁.c.ncov := Nat.lt_of_not_le hk
      obtain ⟨i1, a1, c1⟩ := singleCovpixMap_spec' m₁.c m₁.vc m₁.st k hc.same.1 hk'
      obtain ⟨i2, a2, c2⟩ := singleCovpixMap_spec' m₁.c m₁.vc m₂.st k hc.same.2.1 hk'
      have hr : StSame m₁ (singleCovpixMap m₁.c m₁.vc m₁.st k) (singleCovpixMap m₂.c m₂.vc m₂.st k) := by
        rw [hc.c_eq, hc.vc_eq]
        refine ⟨i1, i2, fun p hp => ?_, fun j hj => ?_⟩
        · rw [a1 p hp, a2 p hp, hc.same.2.2.1 p hp]
        · rw [c1 j hj, c2 j hj, hc.same.2.2.2 k hk']
      exact ⟨rfl, h.bind _ (hc.with_st hr none)⟩

theorem apiUpgrade_sameC {m₁ m₂ : MapObj} (hc : m₁.SameC m₂) (hw : m₁.WF) (ord : Nat) :
    ExR MapObj.SameC (apiUpgrade m₁ ord) (apiUpgrade m₂ ord) := by
  have hS := hc.same
  rw [hc.eq_with_st] at hS ⊢
  generalize m₂.st = s₂ at hS ⊢
  unfold apiUpgrade
  simp only [bind, Except.bind, pure, Except.pure, throw, throwThe, MonadExceptOf.throw]
  split
  · exact ExR.err _
  · rename_i hlt
    have hlt' : m₁.spord < ord := Nat.lt_of_not_le hlt
    have key : C10.Same (cfgOf m₁.covord ord) m₁.vc (upgradeMap m₁.c m₁.vc m₁.st (2 * (ord - m₁.spord)))
        (upgradeMap m₁.c m₁.vc s₂ (2 * (ord - m₁.spord))) := by
      have := C10.same_upgrade m₁.c m₁.vc m₁.st s₂ (2 * (ord - m₁.spord)) hS
      have hcfg : C15.upCfg m₁.c (2 * (ord - m₁.spord)) = cfgOf m₁.covord ord :=
        ucfg_cfgOf hw.1 (Nat.le_of_lt hlt')
      rw [hcfg] at this
      exact this
    split
    · exact ExR.err _
    · exact ExR.err _
    · exact ⟨rfl, rfl, rfl, rfl, rfl, rfl, key⟩

theorem same_opUpg (h : w₁.SameW w₂) (g₁ : w₁.Good) (g₂ : w₂.Good) (a : Args) :
    SimR (opUpg w₁ a) (opUpg w₂ a) := by
  unfold opUpg
  refine same_withMap h g₁ g₂ fun n m₁ m₂ hn e1 e2 hc ok1 ok2 => ?_
  split
  · exact SimR.same h _
  · rename_i ord _
    rcases (apiUpgrade_sameC hc ok1.1 ord).cases with ⟨r₁, r₂, x1, x2, hr⟩ | ⟨e, x1, x2⟩
    · rw [x1, x2]; exact ⟨rfl, h.bind _ hr⟩
    · rw [x1, x2]; exact SimR.same h _

/-- the maps `fracdet` stores for content-equal sources are content-equal -/
theorem fracdet_sameC {m₁ m₂ : MapObj} (hc : m₁.SameC m₂) (ok1 : m₁.Ok) (ord : Nat)
    (hlo : m₁.covord ≤ ord) (hhi : ord ≤ m₁.spord) :
    ({ covord := m₁.covord, spord := ord, kind := .plain (.flt 64), sent := .num 0 0,
       st := fracdetState m₁ ord } : MapObj).SameC
    { covord := m₂.covord, spord := ord, kind := .plain (.flt 64), sent := .num 0 0,
       st := fracdetState m₂ ord } := by
  have hS := hc.same
  rw [hc.eq_with_st] at hS ⊢
  generalize m₂.st = s₂ at hS ⊢
  have hv := ok1.2.1.blankInvalid
  have ok2 : ({ m₁ with st := s₂ } : MapObj).WF := ⟨ok1.1.1, hS.2.1⟩
  have w1 := WF.fracdet_partial ok1.1 hv hlo hhi
  have w2 := WF.fracdet_partial (m := { m₁ with st := s₂ }) ok2 hv hlo hhi
  have hg : 2 * (m₁.spord - ord) ≤ m₁.c.shift := by
    show _ ≤ 2 * (m₁.spord - m₁.covord)
    omega
  have hcf : fcfg m₁.c (2 * (m₁.spord - ord)) = cfgOf m₁.covord ord := degCfg_cfgOf hlo hhi
  have i1 := hS.1.fracdet_inv' hv hg
  have i2 := hS.2.1.fracdet_inv' hv hg
  have q := (C10.same_queries m₁.c m₁.vc m₁.st s₂ hS hv).2.2.2.2 _ hg
  refine ⟨rfl, rfl, rfl, rfl, rfl, rfl, w1.2, w2.2, ?_, ?_⟩
  · intro p hp
    have hp' : p < (fcfg m₁.c (2 * (m₁.spord - ord))).npix := by rw [hcf]; exact hp
    show abs (cfgOf m₁.covord ord) _ (mapCells (fracdetCounts m₁.c m₁.vc m₁.st _) _) p
      = abs (cfgOf m₁.covord ord) _ (mapCells (fracdetCounts m₁.c m₁.vc s₂ _) _) p
    rw [← hcf, abs_mapCells _ fvc _ _ _ i1 p hp', abs_mapCells _ fvc _ _ _ i2 p hp']
    have e : abs (fcfg m₁.c (2 * (m₁.spord - ord))) fvc (fracdetCounts m₁.c m₁.vc m₁.st _) p
        = abs (fcfg m₁.c (2 * (m₁.spord - ord))) fvc (fracdetCounts m₁.c m₁.vc s₂ _) p := q p hp'
    rw [e]
  · intro k hk
    show covered (cfgOf m₁.covord ord) (mapCells (fracdetCounts m₁.c m₁.vc m₁.st _) _) k
      = covered (cfgOf m₁.covord ord) (mapCells (fracdetCounts m₁.c m₁.vc s₂ _) _) k
    rw [mapCells_covered, mapCells_covered, ← hcf, hS.1.fracdet_covered' hk,
      hS.2.1.fracdet_covered' hk]
    exact hS.2.2.2 k hk

theorem same_opFracdet (h : w₁.SameW w₂) (g₁ : w₁.Good) (g₂ : w₂.Good) (a : Args) :
    SimR (opFracdet w₁ a) (opFracdet w₂ a) := by
  unfold opFracdet
  refine same_withMap h g₁ g₂ fun n m₁ m₂ hn e1 e2 hc ok1 ok2 => ?_
  split
  · rename_i r ord _ _
    by_cases hcond : (decide (ord > m₁.spord) || decide (ord < m₁.covord)) = true
    · rw [if_pos hcond, if_pos (by rw [hc.spord_eq, hc.covord_eq]; exact hcond)]
      exact SimR.same h _
    · rw [if_neg hcond, if_neg (by rw [hc.spord_eq, hc.covord_eq]; exact hcond)]
      have hlo : m₁.covord ≤ ord := by
        simp only [Bool.or_eq_true, decide_eq_true_eq, not_or, Nat.not_lt] at hcond; omega
      have hhi : ord ≤ m₁.spord := by
        simp only [Bool.or_eq_true, decide_eq_true_eq, not_or, Nat.not_lt] at hcond; omega
      exact ⟨rfl, h.bind _ (fracdet_sameC hc ok1 ord hlo hhi)⟩
  · exact SimR.same h _

/-! ### boolean algebra -/

theorem stored_same {a₁ a₂ : MapObj} (hc : a₁.SameC a₂) {s₁ s₂ : State Val}
    (w1 : (a₁.stored s₁).WF) (w2 : (a₂.stored s₂).WF)
    (hcov : ∀ k, k < a₁.c.ncov → (a₁.stored s₁).covd k = (a₂.stored s₂).covd k)
    (habs : ∀ p, p < a₁.npix → (a₁.stored s₁).abs p = (a₂.stored s₂).abs p) : StSame a₁ s₁ s₂ := by
  refine ⟨w1.2, ?_, ?_, ?_⟩
  · have := w2.2
    have e1 : (a₂.stored s₂).c = a₁.c := hc.c_eq
    have e2 : (a₂.stored s₂).vc = a₁.vc := hc.vc_eq
    rw [e1, e2] at this
    exact this
  · intro p hp
    have := habs p hp
    unfold MapObj.abs at this
    have e1 : (a₂.stored s₂).c = a₁.c := hc.c_eq
    have e2 : (a₂.stored s₂).vc = a₁.vc := hc.vc_eq
    rw [e1, e2] at this
    exact this
  · intro k hk
    have := hcov k hk
    unfold MapObj.covd at this
    have e1 : (a₂.stored s₂).c = a₁.c := hc.c_eq
    rw [e1] at this
    exact this

theorem MapObj.SameC.bval_eq {a b : MapObj} (h : a.SameC b) {p : Nat} (hp : p < a.npix) :
    b.bval p = a.bval p := by
  unfold MapObj.bval; rw [h.abs_eq hp]

theorem MapObj.SameC.covd_eq {a b : MapObj} (h : a.SameC b) {k : Nat} (hk : k < a.c.ncov) :
    b.covd k = a.covd k := h.covered_eq hk

theorem apiInvert_sameC {a₁ a₂ : MapObj} (hc : a₁.SameC a₂) (ok1 : a₁.Ok) (ok2 : a₂.Ok) :
    ExR (StSame a₁) (apiInvert a₁) (apiInvert a₂) := by
  by_cases hk : a₁.kind.isBool = true
  · have h1 : apiInvert a₁ = .ok (ofBoolState (invertMap a₁.c (toBoolState a₁.st))) := by
      rw [ApiBool.apiInvert_eq, if_pos hk]
    have h2 : apiInvert a₂ = .ok (ofBoolState (invertMap a₂.c (toBoolState a₂.st))) := by
      rw [ApiBool.apiInvert_eq, hc.kind_eq, if_pos hk]
    obtain ⟨w1, _, _, c1, b1⟩ := ApiBool.invert_spec ok1.1 ok1.2.1 h1
    obtain ⟨w2, _, _, c2, b2⟩ := ApiBool.invert_spec ok2.1 ok2.2.1 h2
    rw [h1, h2]
    show StSame a₁ _ _
    refine stored_same hc w1 w2 (fun k hk' => ?_) (fun p hp => ?_)
    · rw [c1 k, c2 k, hc.covd_eq hk']
    · rw [b1 p hp, b2 p (by rw [hc.npix_eq]; exact hp), hc.c_eq,
        hc.covd_eq (covpix_lt a₁.c p hp), hc.bval_eq hp]
  · rw [ApiBool.apiInvert_eq, ApiBool.apiInvert_eq, hc.kind_eq, if_neg hk, if_neg hk]
    exact ExR.err _

/-- right operands of a boolean operation in content-equal worlds -/
def RhsSame : BoolRhs → BoolRhs → Prop
  | .const k₁, .const k₂ => k₁ = k₂
  | .map b₁, .map b₂ => b₁.SameC b₂ ∧ b₁.Ok ∧ b₂.Ok
  | _, _ => False

theorem apiBoolOp_sameC {a₁ a₂ : MapObj} (hc : a₁.SameC a₂) (ok1 : a₁.Ok) (ok2 : a₂.Ok)
    {r₁ r₂ : BoolRhs} (hr : RhsSame r₁ r₂) (op : String) (ip : Bool) :
    ExR (StSame a₁) (apiBoolOp a₁ op r₁ ip) (apiBoolOp a₂ op r₂ ip) := by
  have hok : BoolOpOk a₂ r₂ ↔ BoolOpOk a₁ r₁ := by
    cases r₁ with
    | const k₁ =>
      cases r₂ with
      | const k₂ => unfold BoolOpOk BoolRhs.Admissible; rw [hc.kind_eq]
      | map b => exact hr.elim
    | map b₁ =>
      cases r₂ with
      | const k => exact hr.elim
      | map b₂ =>
        unfold BoolOpOk BoolRhs.Admissible
        simp only []
        rw [hc.kind_eq, hc.spord_eq, hc.covord_eq, hc.sent_eq, hr.1.kind_eq, hr.1.spord_eq,
          hr.1.covord_eq, hr.1.sent_eq]
  by_cases hb : BoolOpOk a₁ r₁
  · have h1 : apiBoolOp a₁ op r₁ ip = .ok (boolOpSt a₁ op r₁ ip) := by
      rw [ApiBool.apiBoolOp_eq, if_pos hb]
    have h2 : apiBoolOp a₂ op r₂ ip = .ok (boolOpSt a₂ op r₂ ip) := by
      rw [ApiBool.apiBoolOp_eq, if_pos (hok.2 hb)]
    rw [h1, h2]
    show StSame a₁ _ _
    cases r₁ with
    | const k₁ =>
      cases r₂ with
      | map b => exact hr.elim
      | const k₂ =>
        have hk : k₂ = k₁ := hr.symm
        subst hk
        obtain ⟨w1, _, _, c1, b1⟩ := ApiBool.const_spec ok1.1 ok1.2.1 h1
        obtain ⟨w2, _, _, c2, b2⟩ := ApiBool.const_spec ok2.1 ok2.2.1 h2
        refine stored_same hc w1 w2 (fun k hk' => ?_) (fun p hp => ?_)
        · rw [c1 k, c2 k, hc.covd_eq hk']
        · rw [b1 p hp, b2 p (by rw [hc.npix_eq]; exact hp), hc.c_eq,
            hc.covd_eq (covpix_lt a₁.c p hp), hc.bval_eq hp]
    | map b₁ =>
      cases r₂ with
      | const k => exact hr.elim
      | map b₂ =>
        obtain ⟨hbs, hb1, hb2⟩ := hr
        obtain ⟨_, _, hcb, _⟩ := ApiBool.map_facts ok1.1 ok1.2.1 hb1.1 h1
        obtain ⟨w1, _, _, c1, p1⟩ := ApiBool.map_spec ok1.1 ok1.2.1 hb1.1 h1
        obtain ⟨w2, _, _, c2, p2⟩ := ApiBool.map_spec ok2.1 ok2.2.1 hb2.1 h2
        have hbn : b₁.npix = a₁.npix := by unfold MapObj.npix; rw [hcb]
        refine stored_same hc w1 w2 (fun k hk' => ?_) (fun p hp => ?_)
        · rw [c1 k hk', c2 k (by rw [hc.c_eq]; exact hk'), hc.covd_eq hk',
            hbs.covd_eq (by rw [hcb]; exact hk')]
        · have hkp := covpix_lt a₁.c p hp
          rw [p1 p hp, p2 p (by rw [hc.npix_eq]; exact hp), hc.c_eq, hc.bval_eq hp,
            hbs.bval_eq (by rw [hbn]; exact hp), hbs.covd_eq (by rw [hcb]; exact hkp)]
  · have h1 : apiBoolOp a₁ op r₁ ip = .error .notImpl := by
      rw [ApiBool.apiBoolOp_eq, if_neg hb]
    have h2 : apiBoolOp a₂ op r₂ ip = .error .notImpl := by
      rw [ApiBool.apiBoolOp_eq, if_neg (fun h => hb (hok.1 h))]
    rw [h1, h2]
    exact ExR.err _

theorem same_opInv (h : w₁.SameW w₂) (g₁ : w₁.Good) (g₂ : w₂.Good) (a : Args)
    (hnv : a.flag "inplace" = true → NoViewTarget w₁ a) : SimR (opInv w₁ a) (opInv w₂ a) := by
  unfold opInv
  refine same_withMap h g₁ g₂ fun n m₁ m₂ hn e1 e2 hc ok1 ok2 => ?_
  simp only [hn]
  rcases (apiInvert_sameC hc ok1 ok2).cases with ⟨r₁, r₂, x1, x2, hr⟩ | ⟨e, x1, x2⟩
  · rw [x1, x2]
    cases hin : a.flag "inplace"
    · simp only [Bool.false_eq_true, if_false]; st_leaf
    · have hv : m₁.view = none := hnv hin m₁ (by rw [hn]; exact e1)
      simp only [if_true]; st_leaf
  · rw [x1, x2]; st_leaf

/-- the tail of `opBop` once the right operands are known to be related -/
theorem bop_tail (h : w₁.SameW w₂) {m₁ m₂ : MapObj} (hc : m₁.SameC m₂) (ok1 : m₁.Ok) (ok2 : m₂.Ok)
    {r₁ r₂ : BoolRhs} (hr : RhsSame r₁ r₂) (n op rn : String) (ip : Bool)
    (hv : ip = true → m₁.view = none) :
    SimR (match apiBoolOp m₁ op r₁ ip with
        | .ok st =>
          if ip then (w₁.put n { m₁ with st := st, cache := none }, "ok")
          else (w₁.bind rn { m₁ with st := st, cache := none }, "ok")
        | .error e => ((if ip && m₁.kind.isBool then w₁.put n { m₁ with cache := none } else w₁), errLine e))
      (match apiBoolOp m₂ op r₂ ip with
        | .ok st =>
          if ip then (w₂.put n { m₂ with st := st, cache := none }, "ok")
          else (w₂.bind rn { m₂ with st := st, cache := none }, "ok")
        | .error e => ((if ip && m₂.kind.isBool then w₂.put n { m₂ with cache := none } else w₂), errLine e)) := by
  rcases (apiBoolOp_sameC hc ok1 ok2 hr op ip).cases with ⟨s₁, s₂, x1, x2, hr⟩ | ⟨e, x1, x2⟩
  · rw [x1, x2]
    cases ip with
    | false => simp only [Bool.false_eq_true, if_false]; st_leaf
    | true =>
      have hv := hv rfl
      simp only [if_true]; st_leaf
  · rw [x1, x2, hc.kind_eq]
    cases ip with
    | false => simp only [Bool.false_and, Bool.false_eq_true, if_false]; st_leaf
    | true =>
      have hv := hv rfl
      simp only [Bool.true_and]
      split <;> st_leaf

/-- the right operand `opBop` parses -/
def sameBopRhs (w : World) (a : Args) : Option BoolRhs :=
  match a.get? "const", a.get? "rhs" with
  | some "T", _ => some (.const true)
  | some "F", _ => some (.const false)
  | _, some r => (w.get? r).map .map
  | _, _ => none

theorem opBop_eqS (w : World) (a : Args) :
    opBop w a = withMap w a fun m =>
      match sameBopRhs w a with
      | none => (w, "bad-op:rhs")
      | some rhs =>
        match apiBoolOp m (a.getD "op" "and") rhs (a.flag "inplace") with
        | .ok st =>
          if a.flag "inplace" then (w.put (a.pos.headD "") { m with st := st, cache := none }, "ok")
          else (w.bind (a.getD "r" "tmp") { m with st := st, cache := none }, "ok")
        | .error e => ((if a.flag "inplace" && m.kind.isBool then w.put (a.pos.headD "") { m with cache := none } else w), errLine e) := rfl

theorem bopRhs_same (h : w₁.SameW w₂) (g₁ : w₁.Good) (g₂ : w₂.Good) (a : Args) :
    (sameBopRhs w₁ a = none ∧ sameBopRhs w₂ a = none) ∨
    ∃ r₁ r₂, sameBopRhs w₁ a = some r₁ ∧ sameBopRhs w₂ a = some r₂ ∧ RhsSame r₁ r₂ := by
  unfold sameBopRhs
  split
  · exact .inr ⟨_, _, rfl, rfl, rfl⟩
  · exact .inr ⟨_, _, rfl, rfl, rfl⟩
  · rename_i r _ _ _
    rcases h.get g₁ g₂ r with ⟨q1, q2⟩ | ⟨b₁, b₂, q1, q2, hb⟩
    · rw [q1, q2]; exact .inl ⟨rfl, rfl⟩
    · rw [q1, q2]
      exact .inr ⟨_, _, rfl, rfl, hb, g₁.get q1, g₂.get q2⟩
  · exact .inl ⟨rfl, rfl⟩

theorem same_opBop (h : w₁.SameW w₂) (g₁ : w₁.Good) (g₂ : w₂.Good) (a : Args)
    (hnv : a.flag "inplace" = true → NoViewTarget w₁ a) : SimR (opBop w₁ a) (opBop w₂ a) := by
  rw [opBop_eqS, opBop_eqS]
  refine same_withMap h g₁ g₂ fun n m₁ m₂ hn e1 e2 hc ok1 ok2 => ?_
  have hv : a.flag "inplace" = true → m₁.view = none :=
    fun hin => hnv hin m₁ (by rw [hn]; exact e1)
  rcases bopRhs_same h g₁ g₂ a with ⟨q1, q2⟩ | ⟨r₁, r₂, q1, q2, hr⟩
  · rw [q1, q2]; exact SimR.same h _
  · rw [q1, q2]
    exact bop_tail h hc ok1 ok2 hr _ _ _ _ hv

/-! ### record maps: `get_single` -/

theorem apiGetSingleCopy_sameC {m₁ m₂ : MapObj} (hc : m₁.SameC m₂) (hv : m₁.BlankInvalid) (i : Nat)
    (sent : Option Val) :
    ExR MapObj.SameC (apiGetSingleCopy m₁ i sent) (apiGetSingleCopy m₂ i sent) := by
  have hS := hc.same
  rw [hc.eq_with_st] at hS ⊢
  generalize m₂.st = s₂ at hS ⊢
  unfold apiGetSingleCopy
  simp only [bind, Except.bind, pure, Except.pure]
  rw [show singleSentinel ({ m₁ with st := s₂ } : MapObj) i sent = singleSentinel m₁ i sent from rfl]
  cases singleSentinel m₁ i sent with
  | error e => exact ExR.err _
  | ok ds =>
    obtain ⟨dt, s⟩ := ds
    exact ⟨rfl, rfl, rfl, rfl, rfl, rfl,
      C10.same_astype m₁.c m₁.vc ⟨(Kind.plain dt).blank s, (Kind.plain dt).valid s⟩ _ _ _ hS hv⟩

theorem same_opSingle (h : w₁.SameW w₂) (g₁ : w₁.Good) (g₂ : w₂.Good) (a : Args) :
    SimR (opSingle w₁ a) (opSingle w₂ a) := by
  unfold opSingle
  refine same_withMap h g₁ g₂ fun n m₁ m₂ hn e1 e2 hc ok1 ok2 => ?_
  have he := hc.eq_with_st
  generalize m₂.st = s₂ at he
  subst he
  have hss : ∀ sent i, singleSentinel ({ m₁ with st := s₂ } : MapObj) i sent = singleSentinel m₁ i sent :=
    fun _ _ => rfl
  simp only [hss]
  split
  · rename_i i sent _ _
    rcases (apiGetSingleCopy_sameC hc ok1.2.1.blankInvalid i sent).cases with
      ⟨r₁, r₂, x1, x2, hr⟩ | ⟨e, x1, x2⟩ <;>
    rw [x1, x2] <;>
    cases singleSentinel m₁ i sent <;>
    walk <;>
    first
      | exact SimR.same h _
      | exact ⟨rfl, h.bind _ hr⟩
      | exact ⟨rfl, h.register _ (Option.some_ne_none _)⟩
  · exact SimR.same h _

/-! ### a test over ALL storage cells -/

theorem sp_all_same {c : Cfg} {vc : VCfg Val} {s₁ s₂ : State Val} (hS : C10.Same c vc s₁ s₂)
    (P : Val → Bool) : s₁.sp.all P = s₂.sp.all P := by
  rw [Bool.eq_iff_iff, hS.1.sp_all_iff, hS.2.1.sp_all_iff]
  constructor
  · rintro ⟨a, b⟩; exact ⟨a, fun p hp => by rw [← hS.2.2.1 p hp]; exact b p hp⟩
  · rintro ⟨a, b⟩; exact ⟨a, fun p hp => by rw [hS.2.2.1 p hp]; exact b p hp⟩

/-! ### construction routes: two scalar `replace` updates of disjoint pixel sets commute -/

theorem denseFold_replace (A : List Nat) (v : Val) (p : Nat) (x : Val) :
    denseFold (stageOp id (fun (_ : Val) (w : Val) => w)) (stageList false (A.map (·, v))) p x
      = if p ∈ A then v else x := by
  unfold denseFold stageList
  simp only [Bool.false_eq_true, if_false, List.nil_append, List.map_map]
  induction A generalizing x with
  | nil => simp
  | cons q qs ih =>
    simp only [List.map_cons, List.foldl_cons, List.mem_cons, Function.comp]
    rw [ih]
    by_cases hq : q = p
    · subst hq; simp [stageOp]
    · have : ¬ p = q := fun h => hq h.symm
      simp [hq, this]

/-- **what a successful scalar `replace` did**, through the observers -/
theorem replace_scalar_spec {m m' : MapObj} {A : List Nat} {v : Val} (hw : m.WF)
    (h : apiUpdate m "replace" A (some [v]) true = .ok m') :
    m'.Same m ∧ m'.cache = none ∧ m'.WF ∧
    (∀ p, p < m.npix → m'.abs p = if p ∈ A then v else m.abs p) ∧
    (∀ k, k < m.c.ncov →
      covered m'.c m'.st k = (covered m.c m.st k || A.any fun q => q >>> m.c.shift == k)) := by
  obtain ⟨_, hlt, rfl⟩ := ApiRanges.apiUpdate_ok h
  have hpv : ∀ qw ∈ ApiRanges.updPv m A (some [v]) true, qw.1 < m.c.npix :=
    fun qw hq => hlt _ (ApiRanges.updPv_fst_mem hq)
  have hop : cellOp m "replace" = (none, fun _ w => w) := rfl
  have hpvA : ApiRanges.updPv m A (some [v]) true = A.map (·, v) := rfl
  refine ⟨⟨rfl, rfl, rfl, rfl, rfl⟩, rfl, ⟨hw.1, ?_⟩, ?_, ?_⟩
  · exact ApiRanges.inv_updatePix m.c m.vc m.st _ _ _ _ hw.2 hpv
  · intro p hp
    show abs m.c m.vc (ApiRanges.updSt m "replace" A (some [v]) true) p = _
    unfold ApiRanges.updSt
    rw [ApiRanges.updatePix_refines m.c m.vc m.st _ _ _ _ hw.2 hpv p hp, hop, hpvA]
    unfold denseUpdate
    simp only [Option.isNone_some, Bool.false_and, Bool.false_eq_true, if_false, Option.getD_none,
      Option.isSome_none]
    exact denseFold_replace A v p _
  · intro k hk
    show covered m.c (ApiRanges.updSt m "replace" A (some [v]) true) k = _
    unfold ApiRanges.updSt
    rw [ApiRanges.updatePix_covered m.c m.vc m.st _ _ _ _ hw.2 hpv k hk, hpvA]
    simp only [Option.isNone_some, Bool.not_false, Bool.true_and, List.any_map]
    rfl

/-- **two routes to the same content**: writing the pixels `A` then the disjoint pixels `B`, or
    `B` then `A` (scalar `replace`), gives content-equal maps — the block order differs when both
    calls allocate new coverage pixels -/
theorem replace_commute {m m₁ m₁₂ m₂ m₂₁ : MapObj} {A B : List Nat} {va vb : Val} (hw : m.WF)
    (hdis : ∀ p, p ∈ A → p ∈ B → False)
    (h1 : apiUpdate m "replace" A (some [va]) true = .ok m₁)
    (h12 : apiUpdate m₁ "replace" B (some [vb]) true = .ok m₁₂)
    (h2 : apiUpdate m "replace" B (some [vb]) true = .ok m₂)
    (h21 : apiUpdate m₂ "replace" A (some [va]) true = .ok m₂₁) : m₁₂.SameC m₂₁ := by
  obtain ⟨s1, c1, w1, a1, k1⟩ := replace_scalar_spec hw h1
  obtain ⟨s12, c12, w12, a12, k12⟩ := replace_scalar_spec w1 h12
  obtain ⟨s2, c2, w2, a2, k2⟩ := replace_scalar_spec hw h2
  obtain ⟨s21, c21, w21, a21, k21⟩ := replace_scalar_spec w2 h21
  have e1 : m₁₂.Same m := s12.trans s1
  have e2 : m₂₁.Same m := s21.trans s2
  have n1 : m₁.npix = m.npix := by unfold MapObj.npix; rw [s1.c_eq]
  have n2 : m₂.npix = m.npix := by unfold MapObj.npix; rw [s2.c_eq]
  refine ⟨e1.1.trans e2.1.symm, e1.2.1.trans e2.2.1.symm, e1.2.2.1.trans e2.2.2.1.symm,
    e1.2.2.2.1.trans e2.2.2.2.1.symm, c12.trans c21.symm, e1.2.2.2.2.trans e2.2.2.2.2.symm,
    w12.2, ?_, ?_, ?_⟩
  · have := w21.2
    rw [e2.c_eq, e2.vc_eq, ← e1.c_eq, ← e1.vc_eq] at this
    exact this
  · intro p hp
    have hp' : p < m.npix := by
      have : m₁₂.npix = m.npix := by unfold MapObj.npix; rw [e1.c_eq]
      rw [← this]; exact hp
    have l := a12 p (by rw [n1]; exact hp')
    have r := a21 p (by rw [n2]; exact hp')
    unfold MapObj.abs at l r
    rw [e2.c_eq, e2.vc_eq, ← e1.c_eq, ← e1.vc_eq] at r
    rw [l, r]
    show (if p ∈ B then vb else m₁.abs p) = if p ∈ A then va else m₂.abs p
    rw [a1 p hp', a2 p hp']
    by_cases hA : p ∈ A <;> by_cases hB : p ∈ B <;> simp [hA, hB]
    exact (hdis p hA hB).elim
  · intro k hk
    have hk' : k < m.c.ncov := by rw [← e1.c_eq]; exact hk
    have l := k12 k (by rw [s1.c_eq]; exact hk')
    have r := k21 k (by rw [s2.c_eq]; exact hk')
    rw [e2.c_eq, ← e1.c_eq] at r
    rw [l, r, k1 k hk', k2 k hk', s1.c_eq, s2.c_eq]
    cases covered m.c m.st k <;> cases (A.any fun q => q >>> m.c.shift == k) <;>
      cases (B.any fun q => q >>> m.c.shift == k) <;> rfl

/-! ### geometry primitives (`geom`) -/

/-- `apply target op` of `opGeom`: the operand, then the explicit-path range update -/
theorem geomApply_sameC {m₁ m₂ : MapObj} (hc : m₁.SameC m₂) (hw : m₁.WF) (operand : Except Err Val)
    (op : String) (R : List (Nat × Nat)) :
    ExR MapObj.SameC (operand >>= fun v => apiUpdateRanges m₁ op R (some v) false)
      (operand >>= fun v => apiUpdateRanges m₂ op R (some v) false) := by
  cases operand with
  | error e => exact ExR.err _
  | ok v => exact apiUpdateRanges_sameC hc hw op R (some v) false

theorem geom_put_tail (h : w₁.SameW w₂) {m₁ m₂ : MapObj} (hc : m₁.SameC m₂) (hw : m₁.WF)
    (hv : m₁.view = none) (operand : Except Err Val) (n op : String) (R : List (Nat × Nat))
    (x₁ x₂ : MapObj) (hx : x₁.SameC x₂) (hxv : x₁.view = none) :
    SimR (match operand >>= (fun v => apiUpdateRanges m₁ op R (some v) false) with
        | .ok m' => (w₁.put n m', "ok")
        | .error e => (w₁.put n x₁, errLine e))
      (match operand >>= (fun v => apiUpdateRanges m₂ op R (some v) false) with
        | .ok m' => (w₂.put n m', "ok")
        | .error e => (w₂.put n x₂, errLine e)) := by
  rcases (geomApply_sameC hc hw operand op R).cases with ⟨r₁, r₂, x1, x2, hr⟩ | ⟨e, x1, x2⟩
  · rw [x1, x2]
    obtain ⟨x, _, hu⟩ := except_bind_ok x1
    exact ⟨rfl, h.put_owning _ hr ((apiUpdateRanges_view' hu).trans hv)⟩
  · rw [x1, x2]; exact ⟨rfl, h.put_owning _ hx hxv⟩

theorem geom_bind_tail (h : w₁.SameW w₂) {m₁ m₂ : MapObj} (hc : m₁.SameC m₂) (hw : m₁.WF)
    (operand : Except Err Val) (r op : String) (R : List (Nat × Nat)) :
    SimR (match operand >>= (fun v => apiUpdateRanges m₁ op R (some v) false) with
        | .ok m' => (w₁.bind r { m' with cache := none }, "ok")
        | .error e => (w₁, errLine e))
      (match operand >>= (fun v => apiUpdateRanges m₂ op R (some v) false) with
        | .ok m' => (w₂.bind r { m' with cache := none }, "ok")
        | .error e => (w₂, errLine e)) := by
  rcases (geomApply_sameC hc hw operand op R).cases with
    ⟨r₁, r₂, x1, x2, hr⟩ | ⟨e, x1, x2⟩
  · rw [x1, x2]; exact ⟨rfl, h.bind _ (hr.with_cache none)⟩
  · rw [x1, x2]; exact SimR.same h _

theorem same_opGeom (h : w₁.SameW w₂) (g₁ : w₁.Good) (g₂ : w₂.Good) (a : Args)
    (hnv : NoViewTarget w₁ a) : SimR (opGeom w₁ a) (opGeom w₂ a) := by
  unfold opGeom
  refine same_withMap h g₁ g₂ fun n m₁ m₂ hn e1 e2 hc ok1 ok2 => ?_
  have hv : m₁.view = none := hnv m₁ (by rw [hn]; exact e1)
  have hmb : m₂.maxbits = m₁.maxbits := by unfold MapObj.maxbits; rw [hc.kind_eq]
  simp only [hn, hmb]
  split
  · exact SimR.same h _
  · rename_i R _
    split
    · -- ior
      rw [hc.kind_eq]
      exact geom_put_tail h hc ok1.1 hv _ _ _ R _ _ (by samec hc) hv
    · split
      · -- or
        rw [hc.kind_eq]
        exact geom_bind_tail h (by samec hc) ((MapObj.WF_cache _ _).2 ok1.1) _ _ _ R
      · split
        · -- realize
          rw [hc.kind_eq]
          split
          · exact SimR.same h _
          · exact geom_put_tail h hc ok1.1 hv _ _ _ R _ _ (by samec hc) hv
        · split
          · -- getmap / getmaplike: an empty map of the requested type, then the pixels
            rw [hc.kind_eq, hc.covord_eq, hc.spord_eq]
            walk
            all_goals first
              | exact SimR.same h _
              | (rename_i e he _ v hv'
                 refine ⟨rfl, h.bind _ (.refl ((MapObj.WF_cache _ _).2 ?_))⟩
                 have hE := WF.apiMakeEmpty he
                 split at hv'
                 · exact WF.apiSetBits hE hv'
                 · split at hv'
                   · exact WF.apiUpdate hE hv'
                   · cases hv')
          · exact SimR.same h _

/-! ### union / intersection operations (`mop`) -/

/-- two lists of maps, pairwise content-equal (and `Ok`) -/
inductive Pw : List MapObj → List MapObj → Prop
  | nil : Pw [] []
  | cons {a b : MapObj} {l₁ l₂ : List MapObj} : a.SameC b → a.Ok → b.Ok → Pw l₁ l₂ → Pw (a :: l₁) (b :: l₂)

theorem Pw.map_eq {β : Type} {l₁ l₂ : List MapObj} (h : Pw l₁ l₂) (F₁ F₂ : MapObj → β)
    (hF : ∀ a b, a ∈ l₁ → a.SameC b → F₂ b = F₁ a) : l₂.map F₂ = l₁.map F₁ := by
  induction h with
  | nil => rfl
  | @cons a b l₁ l₂ hab _ _ _ ih =>
    rw [List.map_cons, List.map_cons, hF a b List.mem_cons_self hab,
      ih fun x y hx hxy => hF x y (List.mem_cons_of_mem _ hx) hxy]

theorem Pw.any_eq {l₁ l₂ : List MapObj} (h : Pw l₁ l₂) (P₁ P₂ : MapObj → Bool)
    (hP : ∀ a b, a ∈ l₁ → a.SameC b → P₂ b = P₁ a) : l₂.any P₂ = l₁.any P₁ := by
  have := h.map_eq P₁ P₂ hP
  have e1 : l₂.any P₂ = (l₂.map P₂).any id := by rw [List.any_map]; rfl
  have e2 : l₁.any P₁ = (l₁.map P₁).any id := by rw [List.any_map]; rfl
  rw [e1, e2, this]

theorem Pw.all_eq {l₁ l₂ : List MapObj} (h : Pw l₁ l₂) (P₁ P₂ : MapObj → Bool)
    (hP : ∀ a b, a ∈ l₁ → a.SameC b → P₂ b = P₁ a) : l₂.all P₂ = l₁.all P₁ := by
  have := h.map_eq P₁ P₂ hP
  have e1 : l₂.all P₂ = (l₂.map P₂).all id := by rw [List.all_map]; rfl
  have e2 : l₁.all P₁ = (l₁.map P₁).all id := by rw [List.all_map]; rfl
  rw [e1, e2, this]

theorem Pw.length_eq {l₁ l₂ : List MapObj} (h : Pw l₁ l₂) : l₂.length = l₁.length := by
  induction h with
  | nil => rfl
  | cons _ _ _ _ ih => simp only [List.length_cons, ih]

theorem Pw.ok_left {l₁ l₂ : List MapObj} (h : Pw l₁ l₂) : ∀ m ∈ l₁, m.WF ∧ m.KindOk := by
  induction h with
  | nil => intro m hm; cases hm
  | cons _ ha _ _ ih =>
    intro m hm
    rcases List.mem_cons.1 hm with rfl | hm
    · exact ⟨ha.1, ha.2.1⟩
    · exact ih m hm

theorem Pw.ok_right {l₁ l₂ : List MapObj} (h : Pw l₁ l₂) : ∀ m ∈ l₂, m.WF ∧ m.KindOk := by
  induction h with
  | nil => intro m hm; cases hm
  | cons _ _ hb _ ih =>
    intro m hm
    rcases List.mem_cons.1 hm with rfl | hm
    · exact ⟨hb.1, hb.2.1⟩
    · exact ih m hm

theorem sp_any_same {c : Cfg} {vc : VCfg Val} {s₁ s₂ : State Val} (hS : C10.Same c vc s₁ s₂)
    (P : Val → Bool) : s₁.sp.any P = s₂.sp.any P := by
  have h := sp_all_same hS (fun x => !P x)
  have e : ∀ a : Array Val, a.any P = !(a.all fun x => !P x) := by
    intro a
    cases a with
    | mk l =>
      simp only [List.any_toArray, List.all_toArray]
      induction l with
      | nil => rfl
      | cons x xs ih => simp only [List.any_cons, List.all_cons, ih, Bool.not_and, Bool.not_not]
  rw [e, e, h]

open ApiMulti in
/-- **union / intersection operations on pairwise content-equal inputs**: the same error, or
    content-equal results -/
theorem apiMultiOp_sameC (row : OpRow) {l₁ l₂ : List MapObj} (h : Pw l₁ l₂) :
    ExR MapObj.SameC (apiMultiOp row l₁) (apiMultiOp row l₂) := by
  rw [apiMultiOp_eq_spec, apiMultiOp_eq_spec]
  cases h with
  | nil => exact ExR.err _
  | @cons f₁ f₂ r₁ r₂ hf ok1 ok2 hr =>
    have hpw : Pw (f₁ :: r₁) (f₂ :: r₂) := .cons hf ok1 ok2 hr
    have he := hf.eq_with_st
    generalize f₂.st = s₂ at he
    subst he
    unfold spec
    simp only []
    have hnil : (r₂ = []) ↔ (r₁ = []) := by
      have := hr.length_eq
      constructor <;> intro e <;> (rw [e] at this; simp at this; first | exact this | exact List.eq_nil_of_length_eq_zero this.symm | exact List.eq_nil_of_length_eq_zero this)
    by_cases hr1 : r₁ = []
    · rw [if_pos hr1, if_pos (hnil.2 hr1)]; exact ExR.err _
    · rw [if_neg hr1, if_neg (fun e => hr1 (hnil.1 e))]
      split
      · exact ExR.err _
      · rename_i hff
        have hchk : List.findSome? (mapCheck row ({ f₁ with st := s₂ } : MapObj)) ({ f₁ with st := s₂ } :: r₂)
            = List.findSome? (mapCheck row f₁) (f₁ :: r₁) := by
          have := hpw.map_eq (mapCheck row f₁) (mapCheck row ({ f₁ with st := s₂ } : MapObj))
            (fun a b _ hab => by
              have e := hab.eq_with_st
              generalize b.st = t at e
              subst e
              rfl)
          have e1 : ∀ (l : List MapObj) (g : MapObj → Option Err), l.findSome? g = (l.map g).findSome? id := by
            intro l g; rw [List.findSome?_map]; rfl
          rw [e1, e1 (f₁ :: r₁), this]
        rw [hchk]
        cases hcs : List.findSome? (mapCheck row f₁) (f₁ :: r₁) with
        | some e => exact ExR.err _
        | none =>
          simp only []
          show ExR _ _ (if (isWide f₁.kind && row.fillFirst) = true then _ else _)
          split
          · exact ExR.err _
          · rename_i hwf
            have hacc1 : Accepts row f₁ (f₁ :: r₁) := by
              refine ⟨by cases r₁ <;> simp at hr1 ⊢, fun hc => hff (by simp [hc.1, hc.2]),
                fun m hm => List.findSome?_eq_none_iff.1 hcs m hm, fun hc => hwf (by simp [hc.1, hc.2])⟩
            have hacc2 : Accepts row ({ f₁ with st := s₂ } : MapObj) ({ f₁ with st := s₂ } :: r₂) := by
              refine ⟨by
                  have := hr.length_eq
                  cases r₁ with
                  | nil => exact absurd rfl hr1
                  | cons x xs => simp only [List.length_cons] at this ⊢; omega,
                fun hc => hff (by simp [hc.1, hc.2]),
                fun m hm => ?_, fun hc => hwf (by simp [hc.1, hc.2])⟩
              rw [← hchk] at hcs
              exact List.findSome?_eq_none_iff.1 hcs m hm
            have hcov : ∀ k, k < f₁.c.ncov →
                ((({ f₁ with st := s₂ } : MapObj) :: r₂).any (fun m => covered m.c m.st k)
                  = (f₁ :: r₁).any (fun m => covered m.c m.st k)) ∧
                ((({ f₁ with st := s₂ } : MapObj) :: r₂).all (fun m => covered m.c m.st k)
                  = (f₁ :: r₁).all (fun m => covered m.c m.st k)) := by
              intro k hk
              have hP : ∀ a b, a ∈ f₁ :: r₁ → a.SameC b → covered b.c b.st k = covered a.c a.st k := by
                intro a b ha hab
                exact hab.covered_eq (by rw [hacc1.c_eq ha]; exact hk)
              exact ⟨hpw.any_eq _ _ hP, hpw.all_eq _ _ hP⟩
            have hany : anyCov row ({ f₁ with st := s₂ } : MapObj) ({ f₁ with st := s₂ } :: r₂)
                = anyCov row f₁ (f₁ :: r₁) := by
              unfold anyCov
              apply any_congr_mem
              intro k hk
              have := hcov k (List.mem_range.1 hk)
              show (if row.union = true then _ else _) = _
              rw [this.1, this.2]
            have hsc : sentClash (vcOut row f₁) ({ f₁ with st := s₂ } :: r₂)
                = sentClash (vcOut row f₁) (f₁ :: r₁) := by
              unfold sentClash
              exact hpw.any_eq _ _ fun a b _ hab => by
                rw [hab.vc_eq]; exact (sp_any_same hab.same _).symm
            have hfc : fltClash row ({ f₁ with st := s₂ } : MapObj) ({ f₁ with st := s₂ } :: r₂)
                = fltClash row f₁ (f₁ :: r₁) := by
              unfold fltClash
              show (_ && _) = (_ && _)
              congr 1
              exact hpw.any_eq _ _ fun a b _ hab => (sp_any_same hab.same _).symm
            show ExR _ _ (if (!anyCov row ({ f₁ with st := s₂ } : MapObj) ({ f₁ with st := s₂ } :: r₂)) = true
              then .ok (emptyLike row f₁)
              else if (row.promoted != (if isWide f₁.kind = true then "u1" else dtCode (dtOut row f₁))) = true
                then .error .value
              else if sentClash (vcOut row f₁) ({ f₁ with st := s₂ } :: r₂) = true then .error .inexact
              else if fltClash row ({ f₁ with st := s₂ } : MapObj) ({ f₁ with st := s₂ } :: r₂) = true
                then .error .inexact
              else match core row ({ f₁ with st := s₂ } : MapObj) ({ f₁ with st := s₂ } :: r₂) with
                | none => .error .index
                | some st => if outClash row f₁ st = true then .error .inexact
                    else .ok (resultOf row f₁ st))
            rw [hany, hsc, hfc]
            by_cases hA : (!anyCov row f₁ (f₁ :: r₁)) = true
            · rw [if_pos hA, if_pos hA]
              have hw : (emptyLike row f₁).WF :=
                ⟨ok1.1.1, inv_makeEmpty' f₁.c (vcE row f₁) [] List.nodup_nil (by simp)⟩
              exact MapObj.SameC.refl hw
            · rw [if_neg hA, if_neg hA]
              by_cases hB : (row.promoted != (if isWide f₁.kind = true then "u1" else dtCode (dtOut row f₁))) = true
              · rw [if_pos hB, if_pos hB]; exact ExR.err _
              · rw [if_neg hB, if_neg hB]
                by_cases hcl : sentClash (vcOut row f₁) (f₁ :: r₁) = true
                · rw [if_pos hcl, if_pos hcl]; exact ExR.err _
                · rw [if_neg hcl, if_neg hcl]
                  by_cases hD : fltClash row f₁ (f₁ :: r₁) = true
                  · rw [if_pos hD, if_pos hD]; exact ExR.err _
                  · rw [if_neg hD, if_neg hD]
                    have hcl1 : sentClash (vcOut row f₁) (f₁ :: r₁) = false := by
                      cases hx : sentClash (vcOut row f₁) (f₁ :: r₁) with
                      | false => rfl
                      | true => exact absurd hx hcl
                    obtain ⟨t₁, c1, i1, a1, k1⟩ := core_spec hacc1 List.mem_cons_self hpw.ok_left hcl1
                    obtain ⟨t₂, c2, i2, a2, k2⟩ := core_spec hacc2 List.mem_cons_self hpw.ok_right
                      (by rw [← hsc] at hcl1; exact hcl1)
                    rw [c1, c2]
                    simp only []
                    have hvals : ∀ p, p < f₁.c.npix →
                        vals ({ f₁ with st := s₂ } :: r₂) p = vals (f₁ :: r₁) p := by
                      intro p hp
                      unfold vals
                      have := hpw.map_eq
                        (fun m => if m.vc.valid (m.abs p) then some (m.abs p) else none)
                        (fun m => if m.vc.valid (m.abs p) then some (m.abs p) else none)
                        (fun a b ha hab => by
                          have hpa : p < a.npix := by
                            unfold MapObj.npix; rw [hacc1.c_eq ha]; exact hp
                          rw [hab.vc_eq, hab.abs_eq hpa])
                      have e1 : ∀ (l : List MapObj) (g : MapObj → Option Val),
                          l.filterMap g = (l.map g).filterMap id := by
                        intro l g; rw [List.filterMap_map]; rfl
                      rw [e1, e1 (f₁ :: r₁), this]
                    have hSt : C10.Same f₁.c (vcOut row f₁) t₁ t₂ := by
                      refine ⟨i1, i2, fun p hp => ?_, fun k hk => ?_⟩
                      · refine (a1 p hp).trans (Eq.trans ?_ (a2 p hp).symm)
                        show _ = denseOf (vcOut row f₁).sentinel (cellF row f₁) (fillerOf row f₁) row.union
                          row.fillFirst (({ f₁ with st := s₂ } : MapObj) :: r₂).length
                          (vals (({ f₁ with st := s₂ } : MapObj) :: r₂) p)
                        rw [hvals p hp, hpw.length_eq]
                      · refine (k1 k hk).trans (Eq.trans ?_ (k2 k hk).symm)
                        rw [(hcov k hk).1, (hcov k hk).2]
                    have hoc : outClash row f₁ t₂ = outClash row f₁ t₁ := by
                      unfold outClash
                      exact (sp_any_same hSt _).symm
                    rw [hoc]
                    by_cases hE : outClash row f₁ t₁ = true
                    · rw [if_pos hE, if_pos hE]; exact ExR.err _
                    · rw [if_neg hE, if_neg hE]
                      exact ⟨rfl, rfl, rfl, rfl, rfl, rfl, hSt⟩

theorem mapM_get_pw (h : w₁.SameW w₂) (g₁ : w₁.Good) (g₂ : w₂.Good) :
    ∀ names : List String,
      (names.mapM w₁.get? = none ∧ names.mapM w₂.get? = none) ∨
      ∃ l₁ l₂, names.mapM w₁.get? = some l₁ ∧ names.mapM w₂.get? = some l₂ ∧ Pw l₁ l₂
  | [] => .inr ⟨[], [], rfl, rfl, .nil⟩
  | n :: ns => by
    rw [List.mapM_cons, List.mapM_cons]
    rcases h.get g₁ g₂ n with ⟨e1, e2⟩ | ⟨m₁, m₂, e1, e2, hc⟩
    · rw [e1, e2]; exact .inl ⟨rfl, rfl⟩
    · rw [e1, e2]
      rcases mapM_get_pw h g₁ g₂ ns with ⟨q1, q2⟩ | ⟨l₁, l₂, q1, q2, hp⟩
      · rw [q1, q2]; exact .inl ⟨rfl, rfl⟩
      · rw [q1, q2]
        exact .inr ⟨m₁ :: l₁, m₂ :: l₂, rfl, rfl, .cons hc (g₁.get e1) (g₂.get e2) hp⟩

theorem same_opMop (h : w₁.SameW w₂) (g₁ : w₁.Good) (g₂ : w₂.Good) (a : Args) :
    SimR (opMop w₁ a) (opMop w₂ a) := by
  unfold opMop
  simp only []
  rcases mapM_get_pw h g₁ g₂ (splitList (a.getD "maps" "_")) with ⟨q1, q2⟩ | ⟨l₁, l₂, q1, q2, hp⟩
  · rw [q1, q2]; exact SimR.same h _
  · rw [q1, q2]
    simp only []
    have hcode : (l₂.head?.map (·.kind.code)).getD "" = (l₁.head?.map (·.kind.code)).getD "" := by
      cases hp with
      | nil => rfl
      | cons hc _ _ _ => simp only [List.head?_cons, Option.map_some, Option.getD_some, hc.kind_eq]
    rw [hcode, hp.length_eq]
    split
    · exact SimR.same h _
    · rename_i row _
      rcases (apiMultiOp_sameC row.withSpec hp).cases with ⟨r₁, r₂, x1, x2, hr⟩ | ⟨e, x1, x2⟩
      · rw [x1, x2]; exact ⟨rfl, h.bind _ hr⟩
      · rw [x1, x2]; exact SimR.same h _

/-! ### `as_bit_packed_map` (`pack`) -/

theorem apiAsBitPacked_sameC {m₁ m₂ : MapObj} (hc : m₁.SameC m₂) (hv : m₁.BlankInvalid) :
    ExR MapObj.SameC (apiAsBitPacked m₁) (apiAsBitPacked m₂) := by
  have hS := hc.same
  have he := hc.eq_with_st
  generalize m₂.st = s₂ at he hS
  subst he
  rw [ApiScalar.apiAsBitPacked_eq, ApiScalar.apiAsBitPacked_eq]
  show ExR _ _ (if m₁.kind = .packed then .ok { m₁ with st := s₂, cache := none }
      else if m₁.c.nfine % 8 ≠ 0 then .error .value
      else .ok { m₁ with kind := .packed, sent := .bool false, cache := none, st := (mapCells (asBitPacked m₁.c m₁.vc s₂) Val.bool) })
  by_cases hk : m₁.kind = .packed
  · rw [if_pos hk, if_pos hk]
    exact ⟨rfl, rfl, rfl, rfl, rfl, rfl, hS⟩
  · rw [if_neg hk, if_neg hk]
    by_cases h8 : m₁.c.nfine % 8 ≠ 0
    · rw [if_pos h8, if_pos h8]; exact ExR.err _
    · rw [if_neg h8, if_neg h8]
      obtain ⟨i1, a1, c1⟩ := C12.asBitPacked_spec m₁.c m₁.vc m₁.st hS.1 hv
      obtain ⟨i2, a2, c2⟩ := C12.asBitPacked_spec m₁.c m₁.vc s₂ hS.2.1 hv
      refine ⟨rfl, rfl, rfl, rfl, rfl, rfl, ?_, ?_, ?_, ?_⟩
      · exact inv_mapCells m₁.c (⟨false, fun b => b⟩ : VCfg Bool) _ _ Val.bool i1 rfl
      · exact inv_mapCells m₁.c (⟨false, fun b => b⟩ : VCfg Bool) _ _ Val.bool i2 rfl
      · intro p hp
        show abs m₁.c _ (mapCells (asBitPacked m₁.c m₁.vc m₁.st) Val.bool) p
          = abs m₁.c _ (mapCells (asBitPacked m₁.c m₁.vc s₂) Val.bool) p
        rw [abs_mapCells m₁.c (⟨false, fun b => b⟩ : VCfg Bool) _ _ Val.bool i1 p hp,
          abs_mapCells m₁.c (⟨false, fun b => b⟩ : VCfg Bool) _ _ Val.bool i2 p hp,
          a1 p hp, a2 p hp, hS.2.2.1 p hp]
      · intro k hk'
        show covered m₁.c (mapCells (asBitPacked m₁.c m₁.vc m₁.st) Val.bool) k
          = covered m₁.c (mapCells (asBitPacked m₁.c m₁.vc s₂) Val.bool) k
        rw [mapCells_covered, mapCells_covered, c1 k, c2 k, hS.2.2.2 k hk']

theorem same_opPack (h : w₁.SameW w₂) (g₁ : w₁.Good) (g₂ : w₂.Good) (a : Args) :
    SimR (opPack w₁ a) (opPack w₂ a) := by
  unfold opPack
  refine same_withMap h g₁ g₂ fun n m₁ m₂ hn e1 e2 hc ok1 ok2 => ?_
  rcases (apiAsBitPacked_sameC hc ok1.2.1.blankInvalid).cases with ⟨r₁, r₂, x1, x2, hr⟩ | ⟨e, x1, x2⟩
  · rw [x1, x2]
    simp only []
    refine ⟨rfl, (h.bind _ hr).with_metas' ?_⟩
    show _ :: List.filter _ w₁.metas = _ :: List.filter _ w₂.metas
    rw [h.2.2.2.2.2, hc.kind_eq]
  · rw [x1, x2]; exact SimR.same h _

/-! ### `interpolate_pos` -/

/-- plain numeric map -/
def Kind.plainNum : Kind → Bool
  | .plain .bool => false
  | .plain _ => true
  | _ => false

/-- the interpolated values (past the checks) -/
def interpVals (m : MapObj) (nbrs : List (List (Nat × (Int × Nat)))) (allowPartial : Bool) : List Val :=
  nbrs.map fun g =>
    let vw := g.map fun pw => (m.abs pw.1, pw.2)
    match interpContrib m.vc vw allowPartial with
    | none => unseenOf (.flt 64)
    | some l =>
      let sxw := dySum (l.map fun p => dyMul p.1.numD p.2)
      let sw := dySum (l.map fun p => p.2)
      if sw.1 == 0 then .poison
      else
        let sgn : Int := if sw.1 < 0 then -1 else 1
        mkRat (sgn * sxw.1 * 2 ^ sw.2) (sw.1.natAbs * 2 ^ sxw.2)

theorem apiInterp_flat (m : MapObj) (nbrs : List (List (Nat × (Int × Nat)))) (ap : Bool) :
    apiInterp m nbrs ap =
      if m.kind.plainNum then
        (if nbrs.any (fun g => g.any fun pw => pw.1 ≥ m.npix) then .error .index
         else if !cellsFitF64 m.st.sp then .error .inexact
         else .ok (interpVals m nbrs ap))
      else .error .notImpl := by
  obtain ⟨co, so, kind, sent, st, ca, vi⟩ := m
  unfold apiInterp interpVals
  simp only [bind, Except.bind, pure, Except.pure, throw, throwThe, MonadExceptOf.throw]
  cases kind with
  | plain dt => cases dt <;> rfl
  | packed => rfl
  | wide n => rfl
  | recd fs pr => rfl

theorem apiInterp_sameC {m₁ m₂ : MapObj} (hc : m₁.SameC m₂)
    (nb : List (List (Nat × (Int × Nat)))) (ap : Bool) : apiInterp m₂ nb ap = apiInterp m₁ nb ap := by
  rw [apiInterp_flat, apiInterp_flat, hc.kind_eq, hc.npix_eq]
  have hfit : cellsFitF64 m₂.st.sp = cellsFitF64 m₁.st.sp := by
    unfold cellsFitF64; exact (sp_all_same hc.same _).symm
  rw [hfit]
  split
  · split
    · rfl
    · rename_i hany
      split
      · rfl
      · congr 1
        unfold interpVals
        apply List.map_congr_left
        intro g hg
        have hlt : ∀ pw ∈ g, pw.1 < m₁.npix := by
          intro pw hpw
          have h1 := (ApiRanges.not_any_iff.1 hany) g hg
          have h2 := (ApiRanges.not_any_iff.1 (by rw [h1]; exact Bool.false_ne_true)) pw hpw
          simpa using h2
        have : (g.map fun pw => (m₂.abs pw.1, pw.2)) = g.map fun pw => (m₁.abs pw.1, pw.2) := by
          apply List.map_congr_left
          intro pw hpw
          rw [hc.abs_eq (hlt pw hpw)]
        simp only [this, hc.vc_eq]
  · rfl

theorem same_opInterp (h : w₁.SameW w₂) (g₁ : w₁.Good) (g₂ : w₂.Good) (a : Args) :
    SimR (opInterp w₁ a) (opInterp w₂ a) := by
  unfold opInterp
  refine same_withMap h g₁ g₂ fun n m₁ m₂ hn e1 e2 hc ok1 ok2 => ?_
  simp only [apiInterp_sameC hc]
  walk
  all_goals exact SimR.same h _

/-! ### MOC files (`moc`) -/

theorem sorted_eq_of_mem {l₁ l₂ : List Nat} (h1 : l₁.Pairwise (· < ·)) (h2 : l₂.Pairwise (· < ·))
    (hm : ∀ x, x ∈ l₁ ↔ x ∈ l₂) : l₁ = l₂ := by
  have n1 : l₁.Nodup := h1.imp (fun h => Nat.ne_of_lt h)
  have n2 : l₂.Nodup := h2.imp (fun h => Nat.ne_of_lt h)
  apply List.Perm.eq_of_pairwise (le := fun a b => decide (a < b))
  · intro a b _ _ hab hba
    simp only [decide_eq_true_eq] at hab hba
    omega
  · exact h1.imp (fun h => by simpa using h)
  · exact h2.imp (fun h => by simpa using h)
  · exact (List.perm_ext_iff_of_nodup n1 n2).2 hm

/-- the UNIQ column written does not depend on the order in which the valid pixels are listed -/
theorem mocWrite_perm (n m : Nat) {P₁ P₂ : List Nat} (hp : P₁.Perm P₂) (hnd : P₁.Nodup) :
    mocWrite n m P₁ = mocWrite n m P₂ := by
  have hnd2 : P₂.Nodup := hp.nodup_iff.1 hnd
  apply sorted_eq_of_mem (npUnique_sorted _) (npUnique_sorted _)
  intro u
  show u ∈ mocWrite n m P₁ ↔ u ∈ mocWrite n m P₂
  rw [mem_mocWrite_iff n m hnd, mem_mocWrite_iff n m hnd2]
  have hfull : ∀ e q, Full P₁ e q ↔ Full P₂ e q := by
    intro e q
    unfold Full
    exact ⟨fun h x hx => hp.mem_iff.1 (h x hx), fun h x hx => hp.mem_iff.2 (h x hx)⟩
  have hcell : ∀ R p e, IsCellOf P₁ R p e ↔ IsCellOf P₂ R p e := by
    intro R p e
    unfold IsCellOf
    simp only [hfull]
  constructor
  · rintro ⟨p, hp1, e, hc, hu⟩; exact ⟨p, hp.mem_iff.1 hp1, e, (hcell _ _ _).1 hc, hu⟩
  · rintro ⟨p, hp1, e, hc, hu⟩; exact ⟨p, hp.mem_iff.2 hp1, e, (hcell _ _ _).2 hc, hu⟩

theorem same_opMoc (h : w₁.SameW w₂) (g₁ : w₁.Good) (g₂ : w₂.Good) (a : Args) :
    SimR (opMoc w₁ a) (opMoc w₂ a) := by
  unfold opMoc
  refine same_withMap h g₁ g₂ fun n m₁ m₂ hn e1 e2 hc ok1 ok2 => ?_
  have hv := ok1.2.1.blankInvalid
  obtain ⟨l₁, l₂, v1, v2, hperm, _⟩ := hc.obs_valid hv
  rw [v1, v2]
  simp only []
  have hemp : l₂.isEmpty = l₁.isEmpty := by
    cases l₁ with
    | nil => rw [List.Perm.nil_eq hperm]
    | cons x xs =>
      cases l₂ with
      | nil => exact absurd hperm.symm (by simp)
      | cons y ys => rfl
  rw [hemp]
  split
  · exact SimR.same h _
  · obtain ⟨l, e, hp⟩ := C02.validPixels_spec m₁.c m₁.vc m₁.st hc.same.1 hv
    rw [v1] at e; cases e
    have hnd : (l₁.map Int.toNat).Nodup := by
      have h1 : (l₁.map Int.toNat).Perm (((C02.validSet m₁.c m₁.vc m₁.st).map fun p => ((p : Nat) : Int)).map Int.toNat) :=
        hp.map _
      rw [h1.nodup_iff, List.map_map]
      have : (Int.toNat ∘ fun p : Nat => ((p : Nat) : Int)) = id := by
        funext p; simp
      rw [this, List.map_id]
      exact List.filter_sublist.nodup List.nodup_range
    have hmw := mocWrite_perm m₁.spord m₁.covord (hperm.map Int.toNat) hnd
    rw [hc.spord_eq, hc.covord_eq, ← hmw, show w₂.mocs = w₁.mocs from h.2.2.2.1.symm]
    exact ⟨rfl, h.with_mocs _⟩

end HS
