#!/usr/bin/env python3
"""Writes /verif/MANIFEST.json from the table below (kept in one place so it stays valid)."""
import json
import os

VERIF = os.path.dirname(os.path.dirname(os.path.abspath(__file__)))
PROPS = [json.loads(l) for l in open(os.path.join(VERIF, 'properties.jsonl'))]

# pid -> (claimed?, level text, level note, technique)
NOTE = ("trusted: Lean kernel + propext/Classical.choice/Quot.sound; the hand-written model's faithfulness is checked "
        "by the correspondence run on every invocation (differential, bounded by the generators); numpy/hpgeom/astropy "
        "primitives are modelled, not verified. ")
TECH = "Lean 4 theorems over an executable model + model/implementation correspondence"
TECH2 = " + kernel tables regenerated from the source by a translator and re-proved (decide +kernel)"
CLAIMS = {
    'C01': ("Lean proof that the model's update path refines a dense array for every history/configuration "
            "(C01.history_refines, updateCore_refines, never_written_reads_sentinel, clear_spec); correspondence of the "
            "model with /repo on generated histories incl. every read path and a malformed stream; HISTORY LEVEL: every history of "
            "write / read lines refines a dense array interpreter (reachable_dense), and — Props/DenseAll — every history "
            "over 22 operations (writes, scalar operators, masks, conversions, bit operations, boolean algebra, multi-map "
            "operations, upgrade, degrade, fracdet and the accounting observers) refines ONE coverage-aware dense "
            "interpreter, unconditionally (reachable_dense_all)", NOTE, TECH, "6 C01 / AB.10"),
    'C02': ("Lean proof that valid_pixels / n_valid / coverage_map / valid_pixels_single_covpix / fracdet agree with the "
            "dense valid set for every layout-invariant state and that the n_valid cache is coherent; GLOBAL: along every "
            "protocol history over the whole API model the cached count is never stale and n_valid answers the number of "
            "valid cells (reachable_cache_fresh, reachable_nvalid, by induction over all ~50 operations), and every "
            "accounting observer of the protocol (valid, nvalid, covmap, covmask, vpsc, fracdet) answers a function of ONE "
            "dense valid set (reachable_observers_agree); correspondence "
            "with query-mutate-query histories over eleven observers", NOTE, TECH, "6 C02 / AB.9"),
    'C04': ("Lean proof that make_empty / growth / update / ranges / scalar and boolean operators / conversions preserve "
            "the published layout invariant (Inv), with a verified executable checker (checkInv_iff) run on the REAL "
            "arrays after every call of every generator; GLOBAL: every map and file reachable through ANY protocol history "
            "over the whole executable API model obeys the layout (reachable_wf, reachable_get_wf, reachable_checkInv, "
            "reachable_file_wf: induction over all ~50 operations incl. views, files, refused calls); TRANSLATOR: the bit-shift "
            "and default-sentinel kernels (utils._compute_bitshift on every legal nside pair, check_sentinel on every "
            "dtype, UNSEEN) are re-extracted from /repo on every run and proved equal to the model's definitions "
            "(C04Kernels: kernel_bitshift, kernel_bitshift_spec, kernel_default_sentinels, kernel_unseen)", NOTE, TECH + TECH2,
            "6 C04 / AB.9 / AB.10"),
    'C08': ("Lean proof that the slice path of range updates equals the explicit-pixel update for all range arrays "
            "(ranges_eq_explicit, updateRanges_refines, expand_upgrade); API LEVEL: both paths of the range update return "
            "equal values at every pixel for every well-formed map, operation, rows (overlapping, repeated, empty) and "
            "value, views included (api_ranges_agree), raise together (api_ranges_error_iff_partial), apiUpdate refines "
            "the dense specification, refused updates store nothing; twin-path correspondence", NOTE +
            "the core-level lemma ranges_eq_explicit_pre_partial keeps its duplicate-free hypothesis; the API-level "
            "theorem does not need it since the two-pass fix F66.", TECH, "6 C08 / AB.9"),
    'C11': ("Lean proof of the coverage-scoped semantics of boolean map/constant operators, invert involution, copying "
            "= in-place, lattice laws on common coverage; API LEVEL (29 theorems): exact error conditions, dense formula "
            "and coverage of a op b / a op const / invert for any mix of packed and plain operands, storage-blindness, "
            "exact characterisation of where commutativity / De Morgan fail outside the common coverage; HISTORY LEVEL "
            "(Props/C11Dense): for every history of write and boolean lines the protocol refines a coverage-aware dense "
            "interpreter (values + one coverage bit per coverage pixel): reachable_dense_bool; correspondence over "
            "packed/unpacked mixes", NOTE, TECH, "6 C11 / AB.9 / AB.10"),
    'C12': ("Lean proof that scalar operators, apply_mask, astype, as_bit_packed_map act on exactly the valid pixels and "
            "preserve layout; API LEVEL (68 theorems): apiScalarOp / apiApplyMask / apiAstype / apiAsBitPacked as explicit "
            "equations with iff-characterisations of every error class, exactly-the-valid-pixels, sentinel collisions, "
            "in-place = copying at the driver level; HISTORY LEVEL (Props/C12Dense): every history of write, scalar-operator, "
            "mask, astype, copy and accounting lines refines a dense array interpreter (reachable_dense_scalar); "
            "correspondence over dtypes, sentinels, in-place/copying twins; division checked for IEEE correct rounding "
            "by the harness with exact rationals", NOTE, TECH, "6 C12 / AB.9 / AB.10"),
    'C13': ("Lean proof of the bit-set semantics of wide-mask rows (pack_testBit, set/clear/xor/and/check specs, "
            "validity iff non-empty, width rules); correspondence over widths and byte-boundary bits with every bit "
            "read back; API LEVEL (39 theorems): set / clear / check / bit-list operators as set operations on per-pixel bit "
            "sets, validity = non-empty set, exact error conditions, refused calls store nothing; TRANSLATOR: "
            "_get_field_and_bitval (bits 0..127) and _bitvals_to_packed_array (every bit and pair for widths 8/16/24) "
            "re-extracted from /repo on every run and proved equal to the model's definitions (C13Kernels); HISTORY LEVEL "
            "(Props/C13Dense): histories of write, scalar and bit lines refine a dense interpreter on per-pixel bit sets "
            "(reachable_dense_bits)", NOTE, TECH + TECH2,
            "6 C13 / AB.9 / AB.10"),
    'C17': ("Lean proof that the MOC writer covers exactly the valid set with disjoint cells no coarser than the "
            "coverage order and that read(write) restores it (moc_cover, moc_disjoint, moc_order_ge_cov, moc_maximal, "
            "moc_read_write), with witnesses for the two repaired defects; correspondence of UNIQ columns and "
            "read-back maps; DRIVER LEVEL (52 theorems): the UNIQ column written for a map of any kind is an exact, disjoint, "
            "maximal cover of its valid set, the reader's order and map, the round trip as protocol steps, exact NUNIQ "
            "coding for every order; TRANSLATOR: io_map_fits._uniq_order is CALLED on both ends of every order 0..29 (and "
            "neighbours) on every run and proved equal to the model's exact uniqOrder (C17Kernels) — the float64 log2 "
            "deviation that was finding F71 now breaks that obligation with the failing rows as replay", NOTE +
            "the FITS table layer is trusted.", TECH + TECH2, "6 C17 / AB.9 / AB.10"),
    'C03': ("Lean proof of the serialisation logic: full read = identity, coverage read = coverage mask, partial read = "
            "restriction to the requested covered coverage pixels with exact rejection conditions (read_partial_spec, "
            "read_partial_rejects_iff), read-back map interchangeable (C10.Same); correspondence incl. raw astropy "
            "inspection of the written extensions, metadata, second-generation files and continuation histories; API LEVEL "
            "and GLOBAL: apiRead(apiWrite m) = m iff m is file-typed, and unconditionally for every map reachable through "
            "any protocol history (reachable_read_write_full, reachable_read_pixels, reachable_write_read_world); HISTORY "
            "LEVEL (Props/DenseIO): histories over 39 operations incl. write / read (full and by pixels) / covread / metadata "
            "/ HEALPix import and export / MOC refine a dense interpreter with dense files, unconditionally "
            "(reachable_dense_io)",
            NOTE + "astropy FITS encoding / compression / header formatting trusted; Parquet not exercised (pyarrow "
            "absent, the property conditions on it).", TECH, "6 C03"),
    'C05': ("Lean proof that every _PackedBoolArray method refines the numpy boolean-array operation on the bit list "
            "(43+ theorems over a byte-heap model with views: slicing, assignment, in-place logic, sum, copy, resize, "
            "popcount LUT), with documented residual deviations as _partial theorems + witnesses; correspondence: "
            "exhaustive small-size sweeps against numpy twins and packed/unpacked twin map histories; WORLD LEVEL: two "
            "worlds differing only in packed vs plain boolean storage answer every protocol line identically and stay "
            "twins for all 51 operations outside an explicit decidable exception set (twin_step, twin_history, "
            "asym_twin; each exception class with an evaluated pair of histories)", NOTE, TECH, "6 C05 / AB.9"),
    'C06': ("Lean proof that _apply_operation computes the seeded fold over exactly the valid inputs under the union / "
            "intersection rule for every list of well-formed maps (multiOp_spec, union_fold, intersection_fold) plus "
            "obligations re-proved on every run over the operation table regenerated from /repo (opsTable_ok: every "
            "filler neutral and dtype-preserving; opsTable_spec: every wrapper passes the ufunc / mode / flags its "
            "documentation prescribes); API LEVEL (39 theorems): exact success and error conditions, result type of the "
            "first map, union / intersection coverage, value = fold over exactly the inputs valid at the pixel by their "
            "own sentinels, neutrality of the start value; HISTORY LEVEL (Props/C06Dense): histories of write, multi-map, "
            "upgrade, degrade and fracdet lines refine a dense interpreter under a side condition computed on the dense "
            "side alone (reachable_dense_multi; the unsettled cases are exactly four #guard counterexamples on empty "
            "coverage); lists mixing integer widths narrow to the first map's dtype (model change M5)", NOTE + "translator: harness/translate_ops.py records the "
            "wrapper arguments by execution.", "Lean 4 theorems + generated table obligations + correspondence",
            "6 C06 / AB.9"),
    'C07': ("Lean proof that degrade reduces exactly the children of each coarse pixel, masks by validity, keeps "
            "uncovered pixels invalid, handles weights in any block order and the below-coverage path "
            "(degrade_spec, degrade_masked, degradeW_spec, gatherWeights_spec, rehouse_spec); reductions are "
            "parameters; API LEVEL (126 theorems): layout, kind / sentinel rules, coverage and the value of apiDegrade for "
            "every kind above and below the coverage order, weighted mean in any block order, the sum / prod exception "
            "stated exactly, exact success condition; correspondence with exact rational results",
            NOTE + "numpy nan-reductions trusted; known finding F36 (unmasked integer / wide-mask 'and', and 'or' over a "
            "non-zero sentinel).", TECH, "6 C07 / AB.9"),
    'C09': ("Lean proof over a heap model with the code's sharing pattern (shared immutable coverage objects, one "
            "buffer per map, copy-on-append) that no step changes what another handle denotes (mutate_frame, "
            "produce_frame, no_tie for every continuation); the sharing pattern itself is checked by two-phase "
            "correspondence histories over every producing operation; WORLD LEVEL: every protocol line obeys the frame of "
            "its syntactic class — producing operations leave every other name exactly unchanged (all arguments, cache "
            "included), in-place operations change only their target (through a view: exactly one field of the parent), "
            "file writers change no map; no_tie_world / result_independent for every continuation", NOTE, TECH,
            "6 C09 / AB.9"),
    'C10': ("Lean proof that every modelled operation maps content-equal representations (Same) to content-equal "
            "results and equal query answers, for every continuation (12 theorems incl. history_interchangeable); WORLD "
            "LEVEL (Props/C10World): in content-equal reachable worlds every protocol line — all operations incl. files, "
            "degrade, degrade-on-read, cat, HEALPix export, in-place operations through field views — gives the same "
            "answer (errors included) and content-equal worlds again (same_step, same_history, same_routes), outside "
            "an explicit exception set proved equal in both worlds (array dumps; one driver artefact; cat over files "
            "of mixed kind); correspondence over twin construction routes with a shared continuation", NOTE +
            "runtime representation differences (ownership, byte order) are visible only to the correspondence.", TECH,
            "6 C10 / AB.10"),
    'C14': ("Lean proof over abstract record cells with a field lens: primary-based validity, whole-record read-back, "
            "field copy = values at the parent's valid pixels, field view reads, writes through a view change exactly "
            "that field of the addressed pixels, the view guard rejects new pixels (7 theorems); correspondence with "
            "freshly taken views; API / DRIVER LEVEL (17 theorems): record validity and whole-record writes, single-field "
            "copies (exact collision rule), views at the driver (exactly when refused, what they show), writes through a "
            "view change exactly one field of exactly the addressed pixels or nothing, no staleness; HISTORY LEVEL "
            "(Props/C14Dense): histories with record-field views refine a dense interpreter with view descriptors "
            "(reachable_dense_views, reachable_dense_record)", NOTE +
            "views kept across parent growth dangle (memory safety, outside the model).", TECH, "6 C14 / AB.9"),
    'C15': ("Lean proof that upgrade replicates values to children with the same coverage, degrade(upgrade) restores "
            "the map for reductions that are the identity on constant groups, and fracdet = valid-children count at "
            "every permitted resolution incl. the coverage map (upgrade_spec, degrade_upgrade_id, fracdet_eq, "
            "fracdet_cov_eq_coverage_map); API LEVEL (79 theorems): apiUpgrade for every sentinel (values and validity "
            "replicated to exactly the children, exact errors), degrade after upgrade per reduction, fracdet = exact "
            "dyadic count of valid children at every order, additivity, consistency with degrade", NOTE, TECH,
            "6 C15 / AB.9"),
    'C16': ("Lean proof of the structural part: dense array -> map -> dense array round trip, RING export/import "
            "through any pair of mutually inverse permutations, the interpolation validity rule (6 theorems); "
            "correspondence with hpgeom's own tables for nest=False, positions, HEALPix explicit/implicit files and "
            "interpolation (exact rational weighted mean)", NOTE + "PARTIAL: hpgeom geometry (ring/nest, angle_to_pixel, "
            "interpolation neighbours/weights) and IEEE weighted means are trusted; known finding F55. API LEVEL (40 further "
            "theorems): import / export as decision trees for every sentinel, round trips in both directions with their "
            "exact provisos, explicit and implicit files, RING addressing through any inverse permutation pair.", TECH,
            "6 C16 / AB.9"),
    'C18': ("Lean proof that the in-memory concatenation of files with pairwise disjoint valid sets is their union "
            "pixel for pixel for matched / finer / coarser input coverage, and that overlap checking raises iff two "
            "inputs share a valid pixel (contribution_spec, cat_union, cat_overlap_raises_iff); API LEVEL (17 further "
            "theorems): apiCat as a decision list with exact errors, the value for ANY inputs (fold in list order), the "
            "union theorem for disjoint maps read back through apiRead, last-wins / or semantics for overlapping inputs, "
            "cat then read at the driver",
            NOTE + "in_memory=False (fitsio) cannot run here and is not claimed; known finding F50 (NOT mirrored by the "
            "model: carved out of the union theorem as the decidable predicate inF50).", TECH, "6 C18 / AB.9"),
    'C19': ("Lean proof that degrade-on-read of a written file equals reading (fully or by any pixel request) and "
            "degrading in memory: same rejections, same values, same coverage, weighted form included (dor_eq, "
            "dor_full, dorW_spec); API LEVEL (31 theorems): apiDegradeOnRead agrees with read-then-apiDegrade for every "
            "well-formed file, order, reduction and pixel request (same error kind or equal kind / sentinel / content), "
            "weighted form under equal validity, explicit output dtype / sentinel rules of both paths, documented "
            "asymmetries outside the quantifier as theorems; four-route correspondence",
            NOTE + "known findings F36, F47, F68.", TECH, "6 C19 / AB.9"),
    'C20': ("Lean proof of the fast generator's child arithmetic, of the rejection loop (exactly n points, all valid, "
            "first n valid candidates of the stream, divergence iff no valid candidate) and of the wrapped sampling "
            "window (covers every per-pixel interval modulo one turn; witness for the clipped pre-fix window); "
            "correspondence through a recording RandomState proxy + direct checks of count / containment / "
            "determinism / fixed starvation rule with a hang watchdog",
            NOTE + "PARTIAL: pixel geometry and statistical uniformity are outside Lean.", TECH, "6 C20"),
}
NOT_YET = "not claimed"

checks, na = [], []
for p in PROPS:
    pid = p['id']
    if pid in CLAIMS:
        text, note, tech, ref = CLAIMS[pid]
        checks.append({
            'property_id': pid,
            'quick_cmd': './check %s --tier quick' % pid,
            'thorough_cmd': './check %s --tier thorough' % pid,
            'evidence_file': 'evidence/%s.json' % pid,
            'replay_cmd_template': './check %s --replay {path}' % pid,
            'engine': 'lean4-model+correspondence',
            'level_claimed': {'category': 'proof', 'text': text, 'design_ref': ref},
            'level_note': note,
            'technique': tech,
        })
    else:
        na.append({'property_id': pid, 'reason': NOT_YET})

m = {
    'version': 1,
    'setup_cmd': 'cd lean && lake build HealSparse hsdriver',
    'hooks': {
        'guard': 'LSSTDESC_HEALSPARSE_VERIF',
        'enable': 'no source hooks: the harness drives the public API and reads private attributes from outside',
        'baseline_off_cmd': 'cd /repo && /venv/bin/python -m pytest -ra -q -p no:cacheprovider --timeout=900 '
                            '--continue-on-collection-errors',
        'source_commits': [],
        'add_only': True,
    },
    'engines': [{
        'name': 'lean4-model+correspondence', 'path': 'lean/ , harness/',
        'serves_properties': [c['property_id'] for c in checks],
        'kind_free_text': 'Lean 4 theorems about a hand-written executable model (lean/HealSparse) + differential '
                          'correspondence of that model against /repo on generated histories (harness/)',
    }],
    'checks': checks,
    'not_applicable': na,
    'notes': 'see DESIGN.md (as built: sections AB.1-AB.11); known findings and fixes in known_findings.json; seeded property-breaking changes (177, nine rounds) with their evaluation under seeded/<id>/; two translators regenerate Lean tables from /repo on every run (harness/translate_ops.py, harness/translate_kernels.py); every other model definition is hand-written and tied to /repo by the correspondence run of each check',
}
json.dump(m, open(os.path.join(VERIF, 'MANIFEST.json'), 'w'), indent=1)
print("checks:", len(checks), "not_applicable:", len(na))
