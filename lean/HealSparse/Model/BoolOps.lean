/-
  Boolean mask algebra on boolean maps (ordinary or bit-packed storage: at this level a
  storage is the array of booleans `np.asarray` shows; the bit packing itself is C05).

  Mirrors healSparseMap.py: _apply_boolean_map_operation (2436-2556), invert (2310-2320),
  __invert__ (2322-2338).
-/
import HealSparse.Model.Core
import HealSparse.Model.Map
namespace HS

/-- `sparse_map[nfine:] op= k` -/
def boolConst (c : Cfg) (s : State Bool) (op : Bool → Bool → Bool) (k : Bool) : State Bool :=
  { s with sp := s.sp.mapIdx fun i x => if c.nfine ≤ i then op x k else x }

/-- `invert` / `__invert__`: `sparse_map[nfine:] = ~sparse_map[nfine:]` -/
def invertMap (c : Cfg) (s : State Bool) : State Bool :=
  { s with sp := s.sp.mapIdx fun i x => if c.nfine ≤ i then !x else x }

/-- `lhs op= rhs` on one block: cells `[dst, dst+nfine)` of `sp` combined with cells
    `[src, src+nfine)` of `other`. -/
def blockCombine (c : Cfg) (op : Bool → Bool → Bool) (sp other : Array Bool) (dst src : Nat) :
    Array Bool :=
  (List.range c.nfine).foldl (fun sp j =>
    sp.modify (dst + j) fun x => op x (rd other (src + j) false)) sp

/-- copy one block: `sp[dst:dst+nfine] = from[src:src+nfine]` -/
def blockCopy (c : Cfg) (sp src : Array Bool) (dst srcStart : Nat) : Array Bool :=
  (List.range c.nfine).foldl (fun sp j => sp.setIfInBounds (dst + j) (rd src (srcStart + j) false)) sp

/-- coverage pixels that `b` covers and `a` does not (`coverage_mask & ~self.coverage_mask`) -/
def boolNewCov (c : Cfg) (a b : State Bool) : List Nat :=
  (List.range c.ncov).filter fun k => (covered c a k || covered c b k) && !covered c a k

/-- in-place form: `_reserve_cov_pix(new)`, then per coverage pixel of `b`: `lhs op= rhs`. -/
def boolMapInPlace (c : Cfg) (vc : VCfg Bool) (a b : State Bool) (op : Bool → Bool → Bool) :
    State Bool :=
  let a1 := reserve c vc a (boolNewCov c a b)
  let run := (List.range c.ncov).filter (covered c b)
  { a1 with sp := run.foldl (fun sp k =>
      blockCombine c op sp b.sp (blockStart c a1 k).toNat (blockStart c b k).toNat) a1.sp }

/-- copying form: index via `append_pixels` (on a copy), fresh zeroed storage of
    `(|a ∪ b| + 1)*nfine` cells, prefix copy of `a`'s storage, then per coverage pixel of
    `b`: copy `a`'s block (its overflow block when `a` does not cover it) into place and
    combine with `b`'s block. -/
def boolMapCopy (c : Cfg) (a b : State Bool) (op : Bool → Bool → Bool) : State Bool :=
  let new := boolNewCov c a b
  let cov' := appendPixels c a.cov a.sp.size new
  let nComb := ((List.range c.ncov).filter fun k => covered c a k || covered c b k).length
  let sp0 : Array Bool := Array.replicate ((nComb + 1) * c.nfine) false
  let sp1 := (List.range a.sp.size).foldl (fun sp i => sp.setIfInBounds i (rd a.sp i false)) sp0
  let t : State Bool := ⟨cov', sp1⟩
  let run := (List.range c.ncov).filter (covered c b)
  { cov := cov'
    sp := run.foldl (fun sp k =>
      let dst := (blockStart c t k).toNat
      let sp := blockCopy c sp a.sp dst (blockStart c a k).toNat
      blockCombine c op sp b.sp dst (blockStart c b k).toNat) sp1 }

/-! ### dense specification -/

/-- `a op b`: `a` outside `b`'s coverage, pointwise inside. -/
def denseBoolMap (c : Cfg) (av bv : Nat → Bool) (bcov : Nat → Bool) (op : Bool → Bool → Bool)
    (p : Nat) : Bool :=
  if bcov (p >>> c.shift) then op (av p) (bv p) else av p

/-- `a op k`: over `a`'s coverage. -/
def denseBoolConst (c : Cfg) (av : Nat → Bool) (acov : Nat → Bool) (op : Bool → Bool → Bool)
    (k : Bool) (p : Nat) : Bool :=
  if acov (p >>> c.shift) then op (av p) k else av p

end HS
