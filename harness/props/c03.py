"""C03 — writing a map and reading it back returns the same map (full, partial, coverage)."""
import gen

PID = 'C03'
RULE = ("maps of every kind (all ten numeric dtypes, bool, bit-packed, wide masks of several widths, record arrays with "
        "any primary; default and custom sentinels) built by shuffled-growth histories with cleared and pre-allocated "
        "blocks and 0-4 metadata keys are written (compressed and uncompressed) and read back: fully, by coverage only, "
        "and by pixel subsets (covered, uncovered, unsorted, beyond the last covered pixel; empty and duplicate "
        "requests must be rejected); the COV / SPARSE extensions are additionally read with astropy directly, checked "
        "by the Lean layout checker and compared with the model's file; then ONE continuation (coverage-growing "
        "updates, ranges, operators, degrade, re-write + re-read) runs on the map read back and on the original; "
        "non-trivial = block order not ascending, or a partial read with an uncovered requested pixel")
ASSUMPTIONS = ["metadata is compared as 'every user key is present with an equal value after the round trip' (the map "
               "read back additionally carries the file's own keywords, which is documented behaviour)",
               "astropy FITS encoding / tile compression / header formatting trusted; Parquet not exercised "
               "(pyarrow is not installed; the property conditions on it)"]


STALE = [[]]


def histories(rng, tier):
    n = 220 if tier == 'quick' else 1500
    out = []
    for _ in range(n):
        c = gen.rand_cfg(rng, max_npix=768, name='m')
        focus = rng.sample(range(c.ncov), min(c.ncov, rng.randint(1, 4)))
        h = [c.line()]
        for _ in range(rng.randint(1, 5)):
            h.append(gen.upd_line(rng, c, focus=focus))
        # (user keywords, some beginning like a reserved FITS keyword without being one: seeded change C03i)
        keys = rng.sample(['AKEY', 'BKEY', 'LONGERKEYNAME', 'X1', 'GCOUNTS', 'ZVALUE', 'TFORMAT', 'BSCALE_APPLIED',
                           'PCOUNTS'], rng.randint(0, 3))
        for k in keys:
            h.append('meta m k=%s v=%s' % (k, rng.choice(['12', '-3', 'hello', 'A_B'])))
        if rng.random() < 0.15:
            # a storage-kind keyword of ANOTHER kind left in the metadata (a map made like one read from a file of
            # another kind inherits them): the writer owns these keywords (finding F72)
            stale = rng.choice([['BITPACK'], ['WIDEMASK', 'WWIDTH'], ['PRIMARY'], ['WWIDTH']])
            if not (c.kind == 'packed' and 'BITPACK' in stale or c.kind == 'wide' and 'WIDEMASK' in stale
                    or c.kind == 'wide' and 'WWIDTH' in stale or c.kind == 'rec' and 'PRIMARY' in stale):
                for k in stale:
                    h.append('meta m k=%s v=%s' % (k, 'a' if k == 'PRIMARY' else rng.choice(['1', '2'])))
                STALE[0] = list(stale)
        comp = rng.choice(['0', '1'])
        h += ['write m f=f1 compress=%s' % comp, 'fitsraw f=f1', 'covread f=f1', 'covmask m',
              'read r=r f=f1', 'info r', 'state r', 'vals r', 'valid r', 'state m']
        for k in keys:
            h += ['getmeta r k=%s' % k]
        # writing a map leaves ITS metadata alone, whatever the writer does with the header (seeded change C09i)
        for k in keys + STALE[0]:
            h += ['getmeta m k=%s' % k]
        STALE[0] = []
        # partial reads
        for _ in range(rng.randint(1, 3)):
            k = rng.randint(1, 4)
            req = rng.sample(range(c.ncov), min(c.ncov, k))
            if rng.random() < 0.7 and focus:
                req = list(dict.fromkeys(req + rng.sample(focus, 1)))
            if rng.random() < 0.1:
                req = req + req[:1]
            rng.shuffle(req)
            h += ['read r=p f=f1 pixels=%s' % ','.join(map(str, req)), 'info p', 'state p', 'vals p', 'covmask p']
        # continuation on both
        cont = []
        cr = gen.MapCfg('m', c.kind, c.covord, c.spord, dtype=c.dtype, sentinel=c.sentinel, maxbits=c.maxbits,
                        fields=c.fields, primary=c.primary)
        for _ in range(rng.randint(1, 4)):
            r = rng.random()
            if r < 0.6:
                cont.append(gen.upd_line(rng, cr, focus=rng.sample(range(c.ncov), min(c.ncov, 3))))
            elif r < 0.8:
                cont.append(gen.updr_line(rng, cr))
            elif c.kind not in ('packed',):
                cont.append('deg m r=dm ord=%d red=%s' % (rng.randint(c.covord, c.spord),
                                                          'or' if c.kind == 'wide' else 'max'))
                cont.append('vals dm')
            cont += ['state m', 'valid m']
        cont += ['write m f=f2 compress=%s' % rng.choice(['0', '1']), 'read r=m2 f=f2', 'vals m2', 'info m2']
        h += cont
        h += [ln.replace(' m ', ' r ', 1).replace('r=dm', 'r=dr').replace(' dm', ' dr').replace('f=f2', 'f=f3')
              .replace('r=m2', 'r=r2').replace(' m2', ' r2') if not ln.endswith(' m') else ln[:-1] + 'r' for ln in cont]
        out.append(h)
    return [gen.file_variants(rng, h) for h in out]


def nontrivial(h):
    return any(ln.startswith('read ') and 'pixels=' in ln for ln in h)
