/-
  C16 — HEALPix interchange, RING/NEST and position addressing are consistent.
  Property theorems only (helpers in HealSparse/Lemmas).  Proved: the structural part
  (conversion to and from dense arrays, reordering through ANY pair of mutually inverse
  permutations, the interpolation validity rule).  Trusted: hpgeom's ring/nest maps,
  angle_to_pixel, interpolation neighbours and weights (parameters here; the correspondence
  run uses hpgeom's own tables), and the floating-point weighted mean.
-/
import HealSparse.Lemmas.Core
import HealSparse.Lemmas.Coverage
import HealSparse.Lemmas.Valid
import HealSparse.Lemmas.Healpix
import HealSparse.Model.Healpix
import HealSparse.Props.C01
import HealSparse.Props.C02
import HealSparse.Props.C04
import HealSparse.Lemmas.ApiHealpixRT
namespace HS
namespace C16

variable {V W : Type} [DecidableEq V] [DecidableEq W]

/-- **from HEALPix**: converting a dense NEST array (one entry per pixel) gives a well-formed
    map holding the array's value at every selected pixel and the sentinel elsewhere; a
    coverage pixel is covered iff it holds a selected pixel. -/
theorem convert_spec (c : Cfg) (vc : VCfg V) (hp : Array V) (sel : V → Bool) (hsz : hp.size = c.npix) :
    Inv c vc (convertHealpix c vc hp sel) ∧
    (∀ p, p < c.npix → abs c vc (convertHealpix c vc hp sel) p
        = if sel (rd hp p vc.sentinel) then rd hp p vc.sentinel else vc.sentinel) ∧
    (∀ k, k < c.ncov → covered c (convertHealpix c vc hp sel) k
        = (List.range c.npix).any fun p => sel (rd hp p vc.sentinel) && p >>> c.shift == k) := by
  exact convertHealpix_spec' c vc hp sel hsz

/-- **to HEALPix** (NEST): the exported array has the converted value at every valid pixel and
    the fill value (UNSEEN / the sentinel) elsewhere; never raises on a well-formed map. -/
theorem generate_spec (c : Cfg) (vc : VCfg V) (s : State V) (fill : W) (conv : V → W) (h : Inv c vc s)
    (hv : vc.valid vc.sentinel = false) :
    ∃ a, generateHealpix c vc s fill conv = some a ∧ a.size = c.npix ∧
      ∀ p, p < c.npix → rd a p fill = if vc.valid (abs c vc s p) then conv (abs c vc s p) else fill := by
  exact h.generateHealpix_spec' hv fill conv

/-- **round trip**: exporting the map made from a dense array reproduces the array, provided
    the array marks its unobserved pixels with the fill value, selection is validity, and no
    observed value coincides with the sentinel. -/
theorem healpix_round_trip (c : Cfg) (vc : VCfg V) (hp : Array V) (hsz : hp.size = c.npix)
    (hv : vc.valid vc.sentinel = false)
    (hunobs : ∀ p, p < c.npix → vc.valid (rd hp p vc.sentinel) = false → rd hp p vc.sentinel = vc.sentinel) :
    ∃ a, generateHealpix c vc (convertHealpix c vc hp vc.valid) vc.sentinel id = some a ∧
      a.size = c.npix ∧ ∀ p, p < c.npix → rd a p vc.sentinel = rd hp p vc.sentinel := by
  obtain ⟨hinv, habs, _⟩ := convertHealpix_spec' c vc hp vc.valid hsz
  obtain ⟨a, ha, hsize, hrd⟩ := hinv.generateHealpix_spec' hv vc.sentinel id
  refine ⟨a, ha, hsize, ?_⟩
  intro p hp'
  rw [hrd p hp', habs p hp']
  cases hval : vc.valid (rd hp p vc.sentinel) with
  | true => simp [hval]
  | false =>
    simp only [Bool.false_eq_true, if_false, hv]
    exact (hunobs p hp' hval).symm

/-- **RING export**: with mutually inverse `nest_to_ring` / `ring_to_nest`, entry `r` of the RING
    export is what the NEST export holds at `ring_to_nest r`. -/
theorem generate_ring_spec (c : Cfg) (vc : VCfg V) (s : State V) (fill : W) (conv : V → W)
    (n2r r2n : Nat → Nat) (h : Inv c vc s) (hv : vc.valid vc.sentinel = false)
    (hinv1 : ∀ p, p < c.npix → r2n (n2r p) = p) (hinv2 : ∀ r, r < c.npix → n2r (r2n r) = r)
    (hr1 : ∀ p, p < c.npix → n2r p < c.npix) (hr2 : ∀ r, r < c.npix → r2n r < c.npix) :
    ∃ a, generateHealpixRing c vc s fill conv n2r r2n = some a ∧ a.size = c.npix ∧
      ∀ r, r < c.npix → rd a r fill
        = if vc.valid (abs c vc s (r2n r)) then conv (abs c vc s (r2n r)) else fill := by
  exact h.generateHealpixRing_spec' hv fill conv n2r r2n hinv1 hinv2 hr1 hr2

/-- **RING import**: reordering a RING array with a permutation puts entry `i` at `r2n i` -/
theorem reorder_spec (r2n n2r : Nat → Nat) (ring : Array V) (dflt : V)
    (hr : ∀ i, i < ring.size → r2n i < ring.size)
    (hinv : ∀ i, i < ring.size → n2r (r2n i) = i) (hinv2 : ∀ p, p < ring.size → r2n (n2r p) = p)
    (hn : ∀ p, p < ring.size → n2r p < ring.size)
    (p : Nat) (hp : p < ring.size) :
    rd (reorderRingToNest r2n ring dflt) p dflt = rd ring (n2r p) dflt := by
  have _ := hr
  exact reorderRingToNest_spec r2n n2r ring dflt hinv hinv2 hn p hp

/-- **interpolation rule**: the result is UNSEEN exactly when (no partial) some neighbour is
    invalid or (partial) all are; otherwise the contributing set is exactly the valid
    neighbours — all of them when `allow_partial` is off. -/
theorem interp_rule (vc : VCfg V) (nbrs : List (V × W)) (allowPartial : Bool) :
    (interpContrib vc nbrs allowPartial = none ↔
      (allowPartial = false ∧ ∃ vw ∈ nbrs, vc.valid vw.1 = false) ∨
      (allowPartial = true ∧ ∀ vw ∈ nbrs, vc.valid vw.1 = false)) ∧
    (∀ l, interpContrib vc nbrs allowPartial = some l → l = nbrs.filter fun vw => vc.valid vw.1) := by
  exact interpContrib_rule vc nbrs allowPartial

/-- non-vacuity -/
example : (convertHealpix (V := Int) ⟨3, 1⟩ ⟨-1, fun x => x != -1⟩ #[-1, -1, -1, -1, 7, -1] (· != -1)).sp
    = #[-1, -1, 7, -1] := by decide +kernel

/-! ## C16 at the API level

The HEALPix interchange of concrete map objects (Model/ApiHealpix.lean): the constructor from a
dense array, `generate_healpix_map`, HEALPix-format files and RING addressing.  Helpers:
Lemmas/ApiHealpixRT.lean.  The RING ↔ NEST permutation is an INPUT (tables from hpgeom on the
protocol line): every statement is for ANY pair of mutually inverse tables.

 (1) import `apiFromHealpix`: raises (always `ValueError`) exactly in the cases of
     `api_from_error_iff`; otherwise the map is `Ok`, has the requested orders / dtype / sentinel,
     holds `hp[p]` at every SELECTED pixel — `hp[p] > UNSEEN`, a STRICT comparison with
     `hpgeom.UNSEEN` as float32 for a float32 array and as float64 otherwise — and ITS OWN sentinel
     elsewhere (any sentinel); a pixel is valid iff it is selected and differs from the sentinel;
     the coverage is the set of coverage pixels holding a SELECTED pixel (for an integer array:
     every coverage pixel, since every integer exceeds UNSEEN) — `api_from_ok`, `api_from_valid`.
 (2) export `apiGenerateHealpix`: the pipeline `api_gen_eq` (single-field map of a record map,
     exactness test, optional `degrade`, export); the exported array holds the value at every valid
     pixel and UNSEEN of the OUTPUT dtype elsewhere (integers are exported as float64, float32 as
     float32), whatever the map's sentinel; a boolean map is filled with ITS sentinel (`False`
     unless the map was made with `sentinel=True`); RING = NEST through the permutation.
 (3) round trips: `api_gen_from` / `api_gen_from_id` and `api_from_gen` / `api_from_gen_float`.
     What is lost: entries below UNSEEN or equal to a non-UNSEEN sentinel; allocated coverage
     pixels without valid pixels; the integer dtype (exported as float64).
 (4) files: explicit write then read = `rehouse` (`api_hpx_round_trip`) EXCEPT for a map without
     valid pixels, whose file cannot be read (`IndexError`); implicit files = the constructor on
     the (reordered) column; an implicit file with an INTEGER column can never be read
     (`ValueError`).  The model stops at the decoded columns: F55 (astropy stores int8 columns as
     FITS logicals) lies below it.
 (5) addressing by RING numbers = NEST addressing through the tables (`api_get_ring`,
     `api_update_ring`); the driver receives the NEST numbers on the line (`pix=`), the `ring=`
     numbers are only used on the real side; the inverse table the driver computes for the RING
     export is the inverse (`api_inv_table`).
-/

open ApiHealpixRT

/-! ### (1) import -/

/-- **import, rejections** -/
theorem api_from_error_iff (covord spord : Nat) (dt : DT) (sentinel : Option Val) (hp : List Val)
    (sentIsPyInt : Bool) :
    (∃ e, apiFromHealpix covord spord dt sentinel hp sentIsPyInt = .error e) ↔
      (spord < covord ∨ hp.length ≠ (cfgOf covord spord).npix ∨
       (dt.isInt = true ∧ ¬ (sentinel.isSome = true ∧ sentIsPyInt = true)) ∨
       (dt.isFlt = true ∧ sentinel.isSome = true ∧ sentIsPyInt = true) ∨
       ∃ e, checkSentinel dt sentinel = .error e) :=
  fromHp_error_iff covord spord dt sentinel hp sentIsPyInt

/-- every rejection of the constructor is a `ValueError` -/
theorem api_from_error_value {covord spord : Nat} {dt : DT} {sentinel : Option Val} {hp : List Val}
    {sentIsPyInt : Bool} {e : Err}
    (h : apiFromHealpix covord spord dt sentinel hp sentIsPyInt = .error e) : e = .value :=
  fromHp_error_value h

/-- when `check_sentinel` accepts an explicit sentinel -/
theorem api_checkSentinel_iff (dt : DT) (v : Val) :
    (∃ s, checkSentinel dt (some v) = .ok s) ↔
      (∃ b n e, dt = .flt b ∧ v = .num n e) ∨
      (∃ b sg n, dt = .int b sg ∧ v = .num n 0 ∧ wrapInt b sg n = n) ∨
      (∃ x, dt = .bool ∧ v = .bool x) :=
  checkSentinel_some_ok_iff dt v

/-- **import, the map built** -/
theorem api_from_ok {covord spord : Nat} {dt : DT} {sentinel : Option Val} {hp : List Val}
    {sentIsPyInt : Bool} {m : MapObj}
    (h : apiFromHealpix covord spord dt sentinel hp sentIsPyInt = .ok m) :
    m.covord = covord ∧ m.spord = spord ∧ m.kind = .plain dt ∧
    m.sent = sentinel.getD dt.defaultSentinel ∧ m.view = none ∧ m.Ok ∧
    hp.length = m.npix ∧
    (∀ p (hlt : p < hp.length), m.abs p = if hpSel dt hp[p] = true then hp[p] else m.sent) ∧
    (∀ k, k < m.c.ncov → (covered m.c m.st k = true ↔
      ∃ p, ∃ hlt : p < hp.length, hpSel dt hp[p] = true ∧ p >>> m.c.shift = k)) :=
  fromHp_ok h

/-- **import, validity**: a pixel is valid in the map iff its entry is selected (`> UNSEEN`) AND
    differs from the map's sentinel -/
theorem api_from_valid {covord spord : Nat} {dt : DT} {sentinel : Option Val} {hp : List Val}
    {sentIsPyInt : Bool} {m : MapObj}
    (h : apiFromHealpix covord spord dt sentinel hp sentIsPyInt = .ok m) (p : Nat)
    (hlt : p < hp.length) :
    m.vc.valid (m.abs p) = true ↔ (hpSel dt hp[p] = true ∧ hp[p] ≠ m.sent) := by
  obtain ⟨_, _, hk, _, _, _, _, habs, _⟩ := fromHp_ok h
  have hv : ∀ v, m.vc.valid v = (v != m.sent) := by
    intro v; unfold MapObj.vc; rw [hk]; rfl
  rw [hv, habs p hlt]
  by_cases hs : hpSel dt hp[p] = true
  · rw [if_pos hs]; simp [hs]
  · rw [if_neg hs]; simp [hs]

/-! ### (2) export -/

/-- **export = single-field map, exactness test, optional degrade, export proper** -/
theorem api_gen_eq (m : MapObj) (ordOut : Option Nat) (red : String) (key : Option Nat)
    (perm : Option (Array Nat × Array Nat)) :
    apiGenerateHealpix m ordOut red key perm = genSpec m ordOut red key perm :=
  apiGenerateHealpix_eq m ordOut red key perm

/-- **export, NEST** -/
theorem api_export_nest {s : MapObj} (hs : s.Ok) :
    ∃ l, exportFull s none = .ok l ∧ l.length = s.npix ∧
      ∀ p (hlt : p < l.length), l[p] = if s.vc.valid (s.abs p) = true then s.abs p else genFill s :=
  exportFull_nest hs.1 hs.2.1.blankInvalid

/-- **export, RING**, through any pair of mutually inverse tables -/
theorem api_export_ring {s : MapObj} (hs : s.Ok) (n2r r2n : Array Nat)
    (hinv1 : ∀ p, p < s.npix → rd r2n (rd n2r p 0) 0 = p)
    (hinv2 : ∀ r, r < s.npix → rd n2r (rd r2n r 0) 0 = r)
    (hr1 : ∀ p, p < s.npix → rd n2r p 0 < s.npix) (hr2 : ∀ r, r < s.npix → rd r2n r 0 < s.npix) :
    ∃ ln lr, exportFull s none = .ok ln ∧ exportFull s (some (n2r, r2n)) = .ok lr ∧
      ln.length = s.npix ∧ lr.length = s.npix ∧
      ∀ r, r < s.npix → lr[r]? = ln[rd r2n r 0]? :=
  exportFull_ring_nest hs.1 hs.2.1.blankInvalid n2r r2n hinv1 hinv2 hr1 hr2

/-- **what a successful export did** -/
theorem api_gen_ok {m : MapObj} (hm : m.Ok) {ordOut : Option Nat} {red : String} {key : Option Nat}
    {perm : Option (Array Nat × Array Nat)} {l : List Val}
    (h : apiGenerateHealpix m ordOut red key perm = .ok l) :
    ∃ single s, genSingle m key = .ok single ∧ single.Ok ∧ cellsFitF64 single.st.sp = true ∧
      ((ordOut.getD m.spord = m.spord ∧ s = single) ∨
       (ordOut.getD m.spord < m.spord ∧ apiDegrade single (ordOut.getD m.spord) red none = .ok s)) ∧
      s.Ok ∧ exportFull s perm = .ok l :=
  gen_ok hm h

/-- **export at the map's own resolution** (plain and bit-packed maps): never rejected, unless a
    cell is not exactly representable (`inexact`: no claim) -/
theorem api_gen_full {m : MapObj} (hk : ∀ n, m.kind ≠ .wide n) (hr : ∀ fs pr, m.kind ≠ .recd fs pr)
    {ordOut : Option Nat} (ho : ordOut.getD m.spord = m.spord) (red : String) (key : Option Nat)
    (perm : Option (Array Nat × Array Nat)) :
    apiGenerateHealpix m ordOut red key perm =
      if cellsFitF64 m.st.sp = true then exportFull m perm else .error .inexact :=
  gen_full_eq hk hr ho red key perm

/-- the fill value of the export of a numeric map is UNSEEN of the output dtype, whatever the
    map's sentinel; of a boolean map, the map's sentinel -/
theorem api_gen_fill (m : MapObj) :
    (∀ b sg, m.kind = .plain (.int b sg) → genFill m = unseenOf (.flt 64)) ∧
    (∀ b, m.kind = .plain (.flt b) → genFill m = unseenOf (.flt b)) ∧
    (m.kind = .plain .bool → genFill m = m.sent) ∧ (m.kind = .packed → genFill m = m.sent) := by
  refine ⟨?_, ?_, ?_, ?_⟩ <;> intros <;> unfold genFill <;> simp [*]


/-! ### (3) round trips -/

/-- **array → map → array** -/
theorem api_gen_from {covord spord : Nat} {dt : DT} {sentinel : Option Val} {hp : List Val}
    {b : Bool} {m : MapObj} (h : apiFromHealpix covord spord dt sentinel hp b = .ok m)
    (hdt : dt ≠ .bool) (red : String) (key : Option Nat) :
    ∃ l, exportFull m none = .ok l ∧
      apiGenerateHealpix m none red key none
        = (if cellsFitF64 m.st.sp = true then .ok l else .error .inexact) ∧
      l.length = hp.length ∧
      ∀ p (h1 : p < hp.length) (h2 : p < l.length),
        l[p] = if hpSel dt hp[p] = true ∧ hp[p] ≠ m.sent then hp[p] else unseenOf dt :=
  gen_from h hdt red key

/-- **array → map → array is the identity** on float arrays whose entries are all `> UNSEEN` or
    UNSEEN itself, imported with the default sentinel -/
theorem api_gen_from_id {covord spord bits : Nat} {hp : List Val} {b : Bool} {m : MapObj}
    (h : apiFromHealpix covord spord (.flt bits) none hp b = .ok m)
    (hhp : ∀ v ∈ hp, hpSel (.flt bits) v = true ∨ v = unseenOf (.flt bits))
    (red : String) (key : Option Nat) :
    apiGenerateHealpix m none red key none
      = (if cellsFitF64 m.st.sp = true then .ok hp else .error .inexact) :=
  gen_from_id h hhp red key

/-- **map → array → map** (numeric maps; the re-import has the float type of the export) -/
theorem api_from_gen {m : MapObj} (hm : m.Ok) {dt : DT} (hk : m.kind = .plain dt) (hdt : dt ≠ .bool)
    {l : List Val} (hl : exportFull m none = .ok l) {S : Option Val} {b : Bool} {m' : MapObj}
    (h : apiFromHealpix m.covord m.spord (auxDT dt) S l b = .ok m') :
    m'.covord = m.covord ∧ m'.spord = m.spord ∧ m'.kind = .plain (auxDT dt) ∧
    m'.sent = S.getD (unseenOf dt) ∧ m'.Ok ∧
    (∀ p, p < m.npix → m'.abs p =
      if m.vc.valid (m.abs p) = true ∧ hpSel dt (m.abs p) = true then m.abs p else m'.sent) ∧
    (∀ k, k < m'.c.ncov → (covered m'.c m'.st k = true ↔
      ∃ p, p < m.npix ∧ m.vc.valid (m.abs p) = true ∧ hpSel dt (m.abs p) = true ∧
        p >>> m'.c.shift = k)) :=
  from_gen hm hk hdt hl h

/-- the re-import with the default sentinel always succeeds -/
theorem api_from_gen_ok {m : MapObj} (hm : m.Ok) {l : List Val} (hl : exportFull m none = .ok l)
    (dt : DT) : ∃ m', apiFromHealpix m.covord m.spord (auxDT dt) none l false = .ok m' := by
  obtain ⟨l0, h0, hlen, _⟩ := exportFull_nest hm.1 hm.2.1.blankInvalid
  rw [hl] at h0; cases h0
  exact from_gen_ok hm.1.1 hlen dt

/-- **map → array → map preserves a float map** re-imported with its own sentinel, when every
    valid value lies above UNSEEN (PARTIAL: `below_unseen_lost`) -/
theorem api_from_gen_float_partial {m : MapObj} (hm : m.Ok) {bits : Nat}
    (hk : m.kind = .plain (.flt bits)) {l : List Val} (hl : exportFull m none = .ok l) {m' : MapObj}
    (h : apiFromHealpix m.covord m.spord (.flt bits) (some m.sent) l false = .ok m')
    (hgt : ∀ p, p < m.npix → m.vc.valid (m.abs p) = true → hpSel (.flt bits) (m.abs p) = true) :
    m'.covord = m.covord ∧ m'.spord = m.spord ∧ m'.kind = m.kind ∧ m'.sent = m.sent ∧ m'.Ok ∧
    (∀ p, p < m.npix → m'.abs p = m.abs p) ∧
    (∀ k, k < m'.c.ncov → (covered m'.c m'.st k = true ↔
      ∃ p, p < m.npix ∧ m.vc.valid (m.abs p) = true ∧ p >>> m'.c.shift = k)) :=
  from_gen_float hm hk hl h hgt

/-! ### (4) HEALPix-format files -/

/-- **explicit write** -/
theorem api_hpx_write {m : MapObj} (hm : m.Ok) :
    apiWriteHealpix m =
      match m.kind with
      | .recd _ _ => .error .notImpl
      | .wide _ => .error .type
      | .packed => .ok (.explicit m.spord .bool m.sent (validList m) ((validList m).map m.abs))
      | .plain dt => .ok (.explicit m.spord dt m.sent (validList m) ((validList m).map m.abs)) :=
  write_eq hm.1 hm.2.1.blankInvalid

/-- the pixel column of the written file: the valid pixels, each once -/
theorem api_hpx_write_pixels {m : MapObj} (hm : m.Ok) :
    (validList m).Nodup ∧ ∀ p, p ∈ validList m ↔ p < m.npix ∧ m.vc.valid (m.abs p) = true :=
  ⟨nodup_validList hm.1 hm.2.1.blankInvalid, mem_validList hm.1 hm.2.1.blankInvalid⟩

/-- **explicit write then read = re-housing** (plain maps), or `IndexError` for a map without
    valid pixels; the map read is the map re-housed at the requested coverage order
    (`ApiDegrade.Rehoused`: same sparse order, kind and sentinel, the map's value at every valid
    pixel and the sentinel elsewhere, coverage = the coverage pixels holding a valid pixel) -/
theorem api_hpx_round_trip {m : MapObj} (hm : m.Ok) {dt : DT} (hk : m.kind = .plain dt) (co : Nat)
    (r2n : Option (Array Nat)) :
    ∃ f, apiWriteHealpix m = .ok f ∧
      apiReadHealpix f co r2n
        = (if (validList m).isEmpty = true then .error .index else rehouse m co) ∧
      ∀ m1, apiReadHealpix f co r2n = .ok m1 → ApiDegrade.Rehoused m m1 co := by
  have hv := hm.2.1.blankInvalid
  refine ⟨_, by rw [write_eq hm.1 hv, hk], read_write_plain hm.1 hv hk co r2n, ?_⟩
  intro m1 h1
  rw [read_write_plain hm.1 hv hk co r2n] at h1
  split at h1
  · cases h1
  · exact ApiDegrade.rehouse_ok hm.1 hv h1

/-- **explicit write then read, content** (plain AND bit-packed maps; a bit-packed map comes back
    as a plain boolean map) -/
theorem api_hpx_read_write {m : MapObj} (hm : m.Ok) {dt : DT} {co : Nat}
    {r2n : Option (Array Nat)} {m1 : MapObj}
    (h : apiReadHealpix (.explicit m.spord dt m.sent (validList m) ((validList m).map m.abs)) co r2n
      = .ok m1) :
    co ≤ m.spord ∧ m1.covord = co ∧ m1.spord = m.spord ∧ m1.kind = .plain dt ∧ m1.sent = m.sent ∧
    m1.Ok ∧ m1.npix = m.npix ∧
    (∀ p, p < m.npix → m1.abs p = if m.vc.valid (m.abs p) = true then m.abs p else m.sent) ∧
    (∀ k, k < m1.c.ncov → (covered m1.c m1.st k = true ↔
      ∃ p, p < m.npix ∧ m.vc.valid (m.abs p) = true ∧ p >>> m1.c.shift = k)) :=
  read_write_content hm h

/-- **FINDING (mirrored from the library)**: the explicit file of a map WITHOUT valid pixels is
    written without complaint and cannot be read back (`IndexError`) -/
theorem api_hpx_empty {m : MapObj} (hm : m.Ok) {dt : DT} (hk : m.kind = .plain dt)
    (hempty : ∀ p, p < m.npix → m.vc.valid (m.abs p) = false) (co : Nat) (r2n : Option (Array Nat)) :
    ∃ f, apiWriteHealpix m = .ok f ∧ apiReadHealpix f co r2n = .error .index := by
  obtain ⟨f, hw, hr, _⟩ := api_hpx_round_trip hm hk co r2n
  refine ⟨f, hw, ?_⟩
  have : validList m = [] := by
    apply List.eq_nil_iff_forall_not_mem.2
    intro p hp
    have := (mem_validList hm.1 hm.2.1.blankInvalid p).1 hp
    rw [hempty p this.1] at this
    cases this.2
  rw [hr, this]
  rfl

/-- **reading any explicit file** with as many values as pixels -/
theorem api_hpx_read_explicit {so : Nat} {dt : DT} {S : Val} {pix : List Nat} {vals : List Val}
    {co : Nat} {r2n : Option (Array Nat)} {m : MapObj}
    (h : apiReadHealpix (.explicit so dt S pix vals) co r2n = .ok m)
    (hlen : vals.length = pix.length) :
    co ≤ so ∧ m.covord = co ∧ m.spord = so ∧ m.kind = .plain dt ∧ m.sent = S ∧ m.view = none ∧
    m.Ok ∧ pix ≠ [] ∧ pix.Nodup ∧ (∀ p ∈ pix, p < m.npix) ∧
    vals.all (valMatchesKind (.plain dt)) = true ∧
    (∀ p, p < m.npix → m.abs p = if p ∈ pix then colVal pix vals S p else S) ∧
    (∀ k, k < m.c.ncov → covered m.c m.st k = pix.any (fun p => p >>> m.c.shift == k)) :=
  readExplicit_ok h hlen

/-- **implicit files**: reading = the constructor (default sentinel) on the column, reordered
    with `ring_to_nest` for a RING file; entry `p` of the reordered column is the RING entry
    `nest_to_ring p` for any pair of mutually inverse tables -/
theorem api_hpx_implicit (so : Nat) (dt : DT) (vals : List Val) (co : Nat) (t n2r : Array Nat) :
    (∀ r2n, apiReadHealpix (.implicit so dt false vals) co r2n = apiFromHealpix co so dt none vals) ∧
    apiReadHealpix (.implicit so dt true vals) co (some t)
      = apiFromHealpix co so dt none
          (reorderRingToNest (fun i => rd t i 0) vals.toArray (.num 0 0)).toList ∧
    ((∀ i, i < vals.length → rd n2r (rd t i 0) 0 = i) →
     (∀ p, p < vals.length → rd t (rd n2r p 0) 0 = p) →
     (∀ p, p < vals.length → rd n2r p 0 < vals.length) →
      (reorderRingToNest (fun i => rd t i 0) vals.toArray (.num 0 0)).toList.length = vals.length ∧
      ∀ p, p < vals.length →
        (reorderRingToNest (fun i => rd t i 0) vals.toArray (.num 0 0)).toList[p]?
          = vals[rd n2r p 0]?) :=
  ⟨fun r2n => readImplicit_nest so dt vals co r2n, readImplicit_ring so dt vals co t,
    fun h1 h2 h3 => reordered_getElem vals t n2r h1 h2 h3⟩

/-- **FINDING (mirrored from the library)**: an implicit file with an INTEGER column can never be
    read: the reader calls the constructor with the default (float) sentinel -/
theorem api_hpx_implicit_int {so : Nat} {dt : DT} (hdt : dt.isInt = true) (vals : List Val)
    (co : Nat) (ring : Bool) (t : Array Nat) :
    apiReadHealpix (.implicit so dt ring vals) co (some t) = .error .value :=
  readImplicit_int hdt vals co ring t

/-! ### (5) addressing -/

/-- **reading by RING numbers = NEST addressing through the tables** -/
theorem api_get_ring (m : MapObj) (n2r r2n : Array Nat)
    (hinv : ∀ p, p < m.npix → rd r2n (rd n2r p 0) 0 = p) (P : List Nat) (hP : ∀ p ∈ P, p < m.npix) :
    apiGetRing m r2n (P.map fun p => rd n2r p 0) = apiGet m P :=
  getRing_eq m n2r r2n hinv P hP

/-- **writing by RING numbers = NEST addressing through the tables** -/
theorem api_update_ring (m : MapObj) (op : String) (n2r r2n : Array Nat)
    (hinv : ∀ p, p < m.npix → rd r2n (rd n2r p 0) 0 = p) (P : List Nat) (hP : ∀ p ∈ P, p < m.npix)
    (vals : Option (List Val)) (single : Bool) :
    apiUpdateRing m op r2n (P.map fun p => rd n2r p 0) vals single = apiUpdate m op P vals single :=
  updateRing_eq m op n2r r2n hinv P hP vals single

/-- the `ring_to_nest` table the driver computes from the `nest_to_ring` table on the line is the
    inverse, for every permutation table -/
theorem api_inv_table (n2r : List Nat) (g : Nat → Nat)
    (h1 : ∀ p, p < n2r.length → g (rd n2r.toArray p 0) = p)
    (h2 : ∀ r, r < n2r.length → rd n2r.toArray (g r) 0 = r)
    (hg : ∀ r, r < n2r.length → g r < n2r.length) :
    (invTable n2r).size = n2r.length ∧ ∀ r, r < n2r.length → rd (invTable n2r) r 0 = g r :=
  invTable_spec n2r g h1 h2 hg

/-- **the driver's RING export** (`genhp … nest=0 n2r=…`) = the NEST export permuted, for every
    permutation table on the line -/
theorem api_genhp_ring {m : MapObj} (hm : m.Ok) (n2r : List Nat) (g : Nat → Nat)
    (hlen : n2r.length = m.npix)
    (h1 : ∀ p, p < n2r.length → g (rd n2r.toArray p 0) = p)
    (h2 : ∀ r, r < n2r.length → rd n2r.toArray (g r) 0 = r)
    (hg : ∀ r, r < n2r.length → g r < n2r.length)
    (hr : ∀ p, p < n2r.length → rd n2r.toArray p 0 < n2r.length) :
    ∃ ln lr, exportFull m none = .ok ln ∧ exportFull m (some (n2r.toArray, invTable n2r)) = .ok lr ∧
      ln.length = m.npix ∧ lr.length = m.npix ∧ ∀ r, r < m.npix → lr[r]? = ln[g r]? := by
  obtain ⟨_, hinv⟩ := invTable_spec n2r g h1 h2 hg
  obtain ⟨ln, lr, e1, e2, l1, l2, hx⟩ := exportFull_ring_nest hm.1 hm.2.1.blankInvalid n2r.toArray
    (invTable n2r)
    (fun p hp => by rw [hinv _ (hr p (hlen ▸ hp)), h1 p (hlen ▸ hp)])
    (fun r hr' => by rw [hinv r (hlen ▸ hr'), h2 r (hlen ▸ hr')])
    (fun p hp => by rw [← hlen]; exact hr p (hlen ▸ hp))
    (fun r hr' => by rw [hinv r (hlen ▸ hr'), ← hlen]; exact hg r (hlen ▸ hr'))
  refine ⟨ln, lr, e1, e2, l1, l2, ?_⟩
  intro r hr'
  rw [hx r hr', hinv r (hlen ▸ hr')]


/-- the driver's `genhp … nest=0 n2r=…` line runs `apiGenerateHealpix` with the table on the line
    and the inverse table it computes (`invTable`, correct by `api_inv_table`) -/
theorem api_genhp_driver (w : World) (a : Args) (n : String) (rest : List String) (m : MapObj)
    (hpos : a.pos = n :: rest) (hget : w.get? n = some m)
    (hnb : ∀ fs pr i, m.kind = .recd fs pr → a.nat? "key" = some i →
      (fs[i]? == some DT.bool) = false)
    (hnest : (a.getD "nest" "1" == "1") = false) {n2r : List Nat}
    (hpn : parseNats (a.getD "n2r" "_") = some n2r) :
    opGenhp w a = (w, match apiGenerateHealpix m (a.nat? "ord") (a.getD "red" "mean") (a.nat? "key")
        (some (n2r.toArray, invTable n2r)) with
      | .ok l => showVals l
      | .error e => errLine e) :=
  opGenhp_ring_eq w a n rest m hpos hget hnb hnest hpn

/-- the driver's `fromhp` line: a RING array (`nest=0`) is reordered with the `r2n` table on the
    line, then the constructor runs on the NEST array -/
theorem api_fromhp_driver (w : World) (a : Args) {dt : DT} {co so : Nat} {sent : Option Val}
    {vals : List Val}
    (hdt : (a.get? "dtype").bind parseDT = some dt) (hco : a.nat? "covord" = some co)
    (hso : a.nat? "spord" = some so) (hs : optVal a "sentinel" = some sent)
    (hv : parseVals (a.getD "vals" "_") = some vals) {nest : List Val}
    (hn : ((a.getD "nest" "1" == "1") = true ∧ nest = vals) ∨
      ((a.getD "nest" "1" == "1") = false ∧ ∃ t, parseNats (a.getD "r2n" "_") = some t ∧
        nest = (reorderRingToNest (fun i => rd t.toArray i 0) vals.toArray (.num 0 0)).toList)) :
    opFromhp w a =
      match apiFromHealpix co so dt sent nest
          (a.getD "senttype" (if dt.isInt then "int" else "flt") == "int") with
      | .ok m => (w.bind (a.getD "r" "tmp") m, "ok")
      | .error e => (w, errLine e) :=
  opFromhp_eq w a hdt hco hso hs hv hn

/-! ### concrete objects: findings, boundary cases, non-vacuity -/

namespace ApiWitness

def okMap (x : Except Err MapObj) : MapObj :=
  match x with
  | .ok m => m
  | .error _ => WFApi.blankMap (.plain .bool) (.bool false)
def isOk {α : Type} (x : Except Err α) : Bool := match x with | .ok _ => true | .error _ => false
def errIs {α : Type} (x : Except Err α) (e : Err) : Bool :=
  match x with | .error e' => decide (e' = e) | .ok _ => false
def okIs (x : Except Err (List Val)) (l : List Val) : Bool :=
  match x with | .ok l' => decide (l' = l) | .error _ => false

/-- UNSEEN as float64 -/
def U : Val := unseenOf (.flt 64)

/-- a float64 array at `nside = 1` (12 pixels): observed 1.5, 0.0, −7 -/
def hpF : List Val := [U, .num 3 1, U, .num 0 0, U, U, U, .num (-7) 0, U, U, U, U]
/-- an int32 array with "sentinel" 0: observed 5 and 9 -/
def hpI : List Val := [.num 5 0, .num 0 0, .num 0 0, .num 9 0, .num 0 0, .num 0 0, .num 0 0,
  .num 0 0, .num 0 0, .num 0 0, .num 0 0, .num 0 0]

/-- the float array imported with the default sentinel / with `sentinel=0.0` -/
def mF : MapObj := okMap (apiFromHealpix 0 0 (.flt 64) none hpF)
def mF0 : MapObj := okMap (apiFromHealpix 0 0 (.flt 64) (some (.num 0 0)) hpF false)
/-- the integer array imported with `sentinel=0` -/
def mI : MapObj := okMap (apiFromHealpix 0 0 (.int 32 true) (some (.num 0 0)) hpI)
/-- an empty float64 map -/
def mE : MapObj := okMap (apiMakeEmpty 0 1 (.plain (.flt 64)) none [])
/-- a float64 map with a valid value BELOW UNSEEN (−2^101) -/
def mLow : MapObj := okMap (do
  let m ← apiMakeEmpty 0 0 (.plain (.flt 64)) none []
  apiUpdate m "replace" [2, 5] (some [.num (-(2 ^ 101)) 0, .num 1 0]) false)
/-- a boolean map made with `sentinel=True`, one pixel set to `False` -/
def mBT : MapObj := okMap (do
  let m ← apiMakeEmpty 0 0 (.plain .bool) (some (.bool true)) []
  apiUpdate m "replace" [5] (some [.bool false]) true)
/-- a bit-packed map -/
def mP : MapObj := okMap (do
  let m ← apiMakeEmpty 0 2 .packed none []
  apiUpdate m "replace" [5, 6] (some [.bool true]) true)
/-- a `nest_to_ring` table on 12 pixels (a 3-cycle and a swap) and its inverse -/
def tN2R : List Nat := [1, 3, 2, 0, 4, 5, 6, 8, 7, 9, 10, 11]
def tR2N : List Nat := [3, 0, 2, 1, 4, 5, 6, 8, 7, 9, 10, 11]

theorem ex_ok : mF.Ok ∧ mF0.Ok ∧ mI.Ok ∧ mE.Ok ∧ mLow.Ok ∧ mBT.Ok ∧ mP.Ok := by decide +kernel

/-- the imports behind `mF`, `mF0`, `mI` succeed -/
theorem ex_from :
    isOk (apiFromHealpix 0 0 (.flt 64) none hpF) = true ∧
    isOk (apiFromHealpix 0 0 (.flt 64) (some (.num 0 0)) hpF false) = true ∧
    isOk (apiFromHealpix 0 0 (.int 32 true) (some (.num 0 0)) hpI) = true ∧
    -- integer array without an integer sentinel, float array with an integer sentinel
    errIs (apiFromHealpix 0 0 (.int 32 true) none hpI) .value = true ∧
    errIs (apiFromHealpix 0 0 (.flt 64) (some (.num 0 0)) hpF true) .value = true := by
  decide +kernel

/-- **any sentinel, not only UNSEEN** (the seeded defects C16a / C16b lived here): imported with
    `sentinel=0.0` the unselected pixel 0 reads the map's sentinel `0.0`, the selected entry `0.0`
    at pixel 3 is stored but not valid, and the export writes UNSEEN at both -/
theorem sentinel_not_unseen :
    mF0.abs 0 = .num 0 0 ∧ mF0.vc.valid (mF0.abs 3) = false ∧ mF0.abs 1 = .num 3 1 ∧
    okIs (apiGenerateHealpix mF0 none "mean" none none)
      [U, .num 3 1, U, U, U, U, U, .num (-7) 0, U, U, U, U] = true := by
  decide +kernel

/-- an integer array selects EVERY pixel (every integer exceeds UNSEEN): the map covers every
    coverage pixel although only two pixels are valid; the export is float64 with UNSEEN at the
    sentinel-valued pixels -/
theorem int_import :
    apiCovMask mI = List.replicate 12 true ∧
    (List.range 12).filter (fun p => mI.vc.valid (mI.abs p)) = [0, 3] ∧
    okIs (apiGenerateHealpix mI none "mean" none none)
      [.num 5 0, U, U, .num 9 0, U, U, U, U, U, U, U, U] = true := by
  decide +kernel

/-- **FINDING (mirrored)**: the explicit file of an empty map is written and cannot be read -/
theorem empty_map_file :
    isOk (apiWriteHealpix mE) = true ∧
    errIs (apiWriteHealpix mE >>= fun f => apiReadHealpix f 0 none) .index = true := by
  decide +kernel

/-- **FINDING (mirrored)**: an implicit file with an integer column cannot be read -/
theorem implicit_int_file :
    errIs (apiReadHealpix (.implicit 0 (.int 32 true) false hpI) 0 none) .value = true ∧
    isOk (apiReadHealpix (.implicit 0 (.flt 64) false hpF) 0 none) = true := by
  decide +kernel

/-- boundary of `api_from_gen_float_partial`: a valid value below UNSEEN is exported and then
    dropped by the re-import (the selection is `> UNSEEN`) -/
theorem below_unseen_lost :
    mLow.vc.valid (mLow.abs 2) = true ∧
    okIs (apiGenerateHealpix mLow none "mean" none none)
      [U, U, .num (-(2 ^ 101)) 0, U, U, .num 1 0, U, U, U, U, U, U] = true ∧
    (okMap (apiFromHealpix 0 0 (.flt 64) none
      [U, U, .num (-(2 ^ 101)) 0, U, U, .num 1 0, U, U, U, U, U, U])).abs 2 = U := by
  decide +kernel

/-- a boolean map is exported filled with ITS sentinel: `True` for a map made with
    `sentinel=True` -/
theorem bool_sentinel_true :
    okIs (apiGenerateHealpix mBT none "mean" none none)
      ((List.replicate 5 (.bool true)) ++ [.bool false] ++ List.replicate 6 (.bool true)) = true := by
  decide +kernel

/-- a bit-packed map comes back from its explicit file as a PLAIN boolean map -/
theorem packed_file :
    (okMap (apiWriteHealpix mP >>= fun f => apiReadHealpix f 0 none)).kind = .plain .bool ∧
    (List.range 192).filter (fun p => (okMap (apiWriteHealpix mP >>= fun f => apiReadHealpix f 0 none)).abs p
      == .bool true) = [5, 6] := by
  decide +kernel

/-- WHERE THE MODEL DEVIATES (not a library defect): the model's constructor accepts a BOOLEAN
    array (and selects nothing: the map is empty), the real constructor raises `ValueError` for
    every boolean array, whatever the sentinel ("Sentinel not a boolean" / "must be set to an
    float value"); the generators never send one -/
theorem bool_import_model :
    isOk (apiFromHealpix 0 0 .bool none (List.replicate 12 (.bool true))) = true ∧
    apiCovMask (okMap (apiFromHealpix 0 0 .bool none (List.replicate 12 (.bool true))))
      = List.replicate 12 false := by
  decide +kernel

/-! #### the theorems applied -/

/-- array → map → array is the identity on `hpF` -/
example : apiGenerateHealpix mF none "mean" none none = .ok hpF := by
  have h : apiFromHealpix 0 0 (.flt 64) none hpF = .ok mF := by
    have := ex_from.1
    unfold mF okMap
    cases hx : apiFromHealpix 0 0 (.flt 64) none hpF with
    | ok m => rfl
    | error e => rw [hx] at this; cases this
  have := api_gen_from_id h (by decide +kernel) "mean" none
  rw [this, if_pos (by decide +kernel)]

/-- explicit write then read of `mF0` at coverage order 0 is its re-housing, and succeeds -/
example : ∃ f m1, apiWriteHealpix mF0 = .ok f ∧ apiReadHealpix f 0 none = .ok m1 ∧
    rehouse mF0 0 = .ok m1 ∧ ApiDegrade.Rehoused mF0 m1 0 := by
  obtain ⟨f, hw, hr, hreh⟩ := api_hpx_round_trip ex_ok.2.1 (dt := .flt 64) (by decide +kernel) 0 none
  have hne : (validList mF0).isEmpty = false := by decide +kernel
  rw [hne] at hr
  simp only [Bool.false_eq_true, if_false] at hr
  cases hx : rehouse mF0 0 with
  | error e =>
    exfalso
    have : isOk (rehouse mF0 0) = true := by decide +kernel
    rw [hx] at this; cases this
  | ok m1 => exact ⟨f, m1, hw, by rw [hr, hx], rfl, hreh m1 (by rw [hr, hx])⟩

/-- the RING export of `mI` through the tables `tN2R` / `tR2N` is the NEST export permuted -/
example : ∃ ln lr, exportFull mI none = .ok ln ∧
    exportFull mI (some (tN2R.toArray, tR2N.toArray)) = .ok lr ∧
    ∀ r, r < 12 → lr[r]? = ln[rd tR2N.toArray r 0]? := by
  obtain ⟨ln, lr, h1, h2, _, _, h5⟩ := api_export_ring ex_ok.2.2.1 tN2R.toArray tR2N.toArray
    (by decide +kernel) (by decide +kernel) (by decide +kernel) (by decide +kernel)
  exact ⟨ln, lr, h1, h2, h5⟩

/-- the table the driver computes from `tN2R` is `tR2N` -/
example : invTable tN2R = tR2N.toArray := by decide +kernel

/-- reading `mI` by RING numbers -/
example : apiGetRing mI tR2N.toArray ([0, 3, 7].map fun p => rd tN2R.toArray p 0) = apiGet mI [0, 3, 7] :=
  api_get_ring mI tN2R.toArray tR2N.toArray (by decide +kernel) [0, 3, 7] (by decide +kernel)

/-! #### protocol histories (driver level; evaluated, `#guard`) -/

def replies (lines : List String) : List String :=
  (lines.foldl (fun (acc : World × List String) l =>
    let r := step acc.1 l; (r.1, acc.2 ++ [r.2])) ({}, [])).2

-- import with sentinel 0.0, NEST export, RING export through a table, explicit file round trip
#guard replies ["fromhp r=m covord=0 spord=0 dtype=f8 nest=1 sentinel=0 senttype=flt vals=-1637499999999999923489519697920,3^1,-1637499999999999923489519697920,0,-1637499999999999923489519697920,-1637499999999999923489519697920,-1637499999999999923489519697920,-7,-1637499999999999923489519697920,-1637499999999999923489519697920,-1637499999999999923489519697920,-1637499999999999923489519697920",
    "get m pix=0,1,3,7", "genhp m nest=1",
    "genhp m nest=0 n2r=1,3,2,0,4,5,6,8,7,9,10,11",
    "hpxwrite m f=h1", "hpxread r=r f=h1 covord=0", "get r pix=0,1,3,7"]
  == ["ok", "0,3^1,0,-7",
      "-1637499999999999923489519697920,3^1,-1637499999999999923489519697920,-1637499999999999923489519697920,-1637499999999999923489519697920,-1637499999999999923489519697920,-1637499999999999923489519697920,-7,-1637499999999999923489519697920,-1637499999999999923489519697920,-1637499999999999923489519697920,-1637499999999999923489519697920",
      "-1637499999999999923489519697920,-1637499999999999923489519697920,-1637499999999999923489519697920,3^1,-1637499999999999923489519697920,-1637499999999999923489519697920,-1637499999999999923489519697920,-1637499999999999923489519697920,-7,-1637499999999999923489519697920,-1637499999999999923489519697920,-1637499999999999923489519697920",
      "ok", "ok", "0,3^1,0,-7"]
-- the explicit file of an empty map cannot be read; an implicit integer file cannot be read
#guard replies ["cfg m kind=plain dtype=f8 covord=0 spord=1", "hpxwrite m f=h1", "hpxread r=r f=h1 covord=0",
    "hpximplicit f=h2 spord=0 dtype=i4 ordering=NESTED vals=5,0,0,9,0,0,0,0,0,0,0,0", "hpxread r=r f=h2 covord=0"]
  == ["ok", "ok", "err IndexError", "ok", "err ValueError"]

end ApiWitness
end C16
end HS
