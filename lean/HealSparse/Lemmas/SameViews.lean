/-
  C10 at the world level, in-place operations whose target is a record-field VIEW: the store
  writes the view's column back into the parent (`World.put`).  Write-backs of content-equal
  views into content-equal parents are content-equal; the per-operation simulations of
  Lemmas/SameOps.lean are extended to view targets.
-/
import HealSparse.Lemmas.SameOps
import HealSparse.Lemmas.ApiRecord
namespace HS

open WFApi WFRes WFFiles

variable {w₁ w₂ : World}

/-! ### storing through a record-field view: the column is written back into the parent -/

/-- the update left the index and the size of the storage alone (what an update through a view
    does: the guard against new pixels makes every addressed pixel a covered one) -/
def SameShape (v v' : MapObj) : Prop := v'.st.cov = v.st.cov ∧ v'.st.sp.size = v.st.sp.size

theorem SameShape.refl' (v : MapObj) (x : Option Nat) : SameShape v { v with cache := x } := ⟨rfl, rfl⟩

/-- the dense view of the parent after a write-back, pixel by pixel -/
theorem writeBackView_abs {p v' : MapObj} (i : Nat) (hp : p.WF) (hcov : v'.st.cov = p.st.cov)
    (hsz : v'.st.sp.size = p.st.sp.size) (hc : v'.c = p.c) {q : Nat} (hq : q < p.npix) :
    (writeBackView p i v').abs q = recSetField i (p.abs q) (v'.abs q) := by
  have hidx := hp.2.idxOf_lt_size hq
  have hl : lookup v'.c v'.st q = lookup p.c p.st q := by unfold lookup; rw [hc, hcov]
  show rd (p.st.sp.mapIdx fun j r => recSetField i r (rd v'.st.sp j (.num 0 0)))
      (lookup p.c ⟨p.st.cov, _⟩ q).toNat _ = _
  have hl' : lookup p.c ⟨p.st.cov, p.st.sp.mapIdx fun j r => recSetField i r (rd v'.st.sp j (.num 0 0))⟩ q
      = lookup p.c p.st q := rfl
  rw [hl']
  have hidx' : (lookup p.c p.st q).toNat < p.st.sp.size := hidx
  unfold rd
  rw [Array.getElem?_mapIdx, Array.getElem?_eq_getElem hidx']
  simp only [Option.map_some, Option.getD_some]
  unfold MapObj.abs abs rd
  rw [hl, Array.getElem?_eq_getElem hidx', Array.getElem?_eq_getElem (by rw [hsz]; exact hidx')]
  simp only [Option.getD_some]

/-- **write-backs of content-equal views into content-equal parents are content-equal** -/
theorem writeBackView_sameC {p₁ p₂ v₁ v₂ : MapObj} (i : Nat) (hp : p₁.SameC p₂) (hv : v₁.SameC v₂)
    (hw1 : p₁.WF) (hw2 : p₂.WF) (r1 : (writeBackView p₁ i v₁).WF) (r2 : (writeBackView p₂ i v₂).WF)
    (s1 : v₁.st.cov = p₁.st.cov ∧ v₁.st.sp.size = p₁.st.sp.size)
    (s2 : v₂.st.cov = p₂.st.cov ∧ v₂.st.sp.size = p₂.st.sp.size) (hc : v₁.c = p₁.c) :
    (writeBackView p₁ i v₁).SameC (writeBackView p₂ i v₂) := by
  have hc2 : v₂.c = p₂.c := by rw [hv.c_eq, hc, hp.c_eq]
  refine ⟨hp.1, hp.2.1, hp.2.2.1, hp.2.2.2.1, rfl, hp.2.2.2.2.2.1, r1.2, ?_, ?_, ?_⟩
  · have := r2.2
    have e1 : (writeBackView p₂ i v₂).c = p₁.c := hp.c_eq
    have e2 : (writeBackView p₂ i v₂).vc = p₁.vc := hp.vc_eq
    rw [e1, e2] at this
    exact this
  · intro q hq
    have hq1 : q < p₁.npix := hq
    have hq2 : q < p₂.npix := by rw [hp.npix_eq]; exact hq
    have a1 := writeBackView_abs i hw1 s1.1 s1.2 hc hq1
    have a2 := writeBackView_abs i hw2 s2.1 s2.2 hc2 hq2
    have hvq : q < v₁.npix := by unfold MapObj.npix; rw [hc]; exact hq
    unfold MapObj.abs at a1 a2
    have e1 : (writeBackView p₂ i v₂).c = p₁.c := hp.c_eq
    have e2 : (writeBackView p₂ i v₂).vc = p₁.vc := hp.vc_eq
    rw [e1, e2] at a2
    have b1 : (writeBackView p₁ i v₁).c = p₁.c := rfl
    have b2 : (writeBackView p₁ i v₁).vc = p₁.vc := rfl
    rw [b1, b2] at a1
    show abs p₁.c p₁.vc (writeBackView p₁ i v₁).st q = abs p₁.c p₁.vc (writeBackView p₂ i v₂).st q
    rw [a1, a2]
    have x1 := hp.abs_eq hq1
    have x2 := hv.abs_eq hvq
    unfold MapObj.abs at x1 x2
    rw [x1, x2]
  · intro k hk
    show covered p₁.c p₁.st k = covered p₁.c ⟨p₂.st.cov, _⟩ k
    exact hp.same.2.2.2 k hk

/-- `World.put` through a view name, spelled out -/
theorem World.put_view {w : World} {n pn : String} {i : Nat} {m p : MapObj} {x : String × Nat}
    (hd : (w.raw? n).bind (·.view) = some (pn, i)) (hm : m.view = some x) (hp : w.raw? pn = some p) :
    w.put n m = { w with pool := ((n, { m with st := ⟨#[], #[]⟩ }) :: (pn, writeBackView p i m) ::
          w.pool.filter (fun e => e.1 != n && e.1 != pn)) } := by
  unfold World.put
  rw [hd, hm]
  simp only [hp]

/-- **`World.put` in content-equal good worlds**, owning target or view: the stored objects are
    content-equal updates of what the name resolved to, with the operand's configuration, kind,
    sentinel and view flag; through a view the update left index and size alone -/
theorem World.SameW.put_inplace (h : w₁.SameW w₂) (g₁ : w₁.Good) (g₂ : w₂.Good) {n : String}
    {m₁ m₂ m₁' m₂' : MapObj} (e1 : w₁.get? n = some m₁) (e2 : w₂.get? n = some m₂)
    (hc : m₁'.SameC m₂') (ok1 : m₁'.Ok) (ok2 : m₂'.Ok) (hs1 : m₁'.Same m₁) (hs2 : m₂'.Same m₂)
    (sh1 : m₁.view ≠ none → SameShape m₁ m₁') (sh2 : m₂.view ≠ none → SameShape m₂ m₂') :
    (w₁.put n m₁').SameW (w₂.put n m₂') := by
  rcases World.get?_cases e1 with ⟨hr, hv⟩ | ⟨d, pn, i, p, hd, hdv, hp, hs, hmat, _, _⟩
  · exact h.put_owning n hc (hs1.2.2.2.2.trans hv)
  · -- a view: both worlds hold the same descriptor and content-equal parents
    rcases World.get?_cases e2 with ⟨hr2, hv2⟩ | ⟨d', pn', i', p', hd', hdv', hp', hs', hmat', _, _⟩
    · exfalso
      obtain ⟨_, _, _, _, _, _, _, _, _, g7⟩ := materializeView_ok hmat
      have : m₂'.view = none := hs2.2.2.2.2.trans hv2
      rw [← hc.2.2.2.2.2.1, hs1.2.2.2.2, g7] at this
      cases this
    · obtain ⟨_, _, _, a1, a2, a3, a4, a5, _, a7⟩ := materializeView_ok hmat
      obtain ⟨_, _, _, b1, b2, b3, b4, b5, _, b7⟩ := materializeView_ok hmat'
      -- same descriptor, same parent name
      have hmv1 : m₁'.view = some (pn, i) := hs1.2.2.2.2.trans a7
      have hmv2 : m₂'.view = some (pn', i') := hs2.2.2.2.2.trans b7
      have hpi : (pn', i') = (pn, i) := by
        have := hc.2.2.2.2.2.1
        rw [hmv1, hmv2] at this
        exact (Option.some.inj this).symm
      cases hpi
      -- the parents
      rcases h.raw pn with ⟨q1, _⟩ | ⟨P₁, P₂, q1, q2, hP⟩
      · rw [q1] at hp; cases hp
      rw [q1] at hp; cases hp
      rw [q2] at hp'; cases hp'
      obtain ⟨E₁, hE1, _, rfl⟩ := World.raw?_mem q1
      obtain ⟨E₂, hE2, _, rfl⟩ := World.raw?_mem q2
      have hrec := materializeView_parent_recd hmat
      have hpv1 : E₁.2.view = none := by
        cases hvv : E₁.2.view with
        | none => rfl
        | some x =>
          have := g₁.2.1 E₁ hE1 (by rw [hvv]; exact fun h => nomatch h)
          rw [this] at hrec; cases hrec
      have hPc : E₁.2.SameC E₂.2 := by
        rcases hP with ⟨_, hP⟩ | ⟨hne, _⟩
        · exact hP
        · exact absurd hpv1 hne
      have hpv2 : E₂.2.view = none := by rw [← hPc.2.2.2.2.2.1]; exact hpv1
      have hpok1 := g₁.1 E₁ hE1 hpv1
      have hpok2 := g₂.1 E₂ hE2 hpv2
      have hdisc1 : (w₁.raw? n).bind (·.view) = some (pn, i) := by rw [hd]; exact hdv
      have hdisc2 : (w₂.raw? n).bind (·.view) = some (pn, i) := by rw [hd']; exact hdv'
      -- well-formedness of the two write-backs
      have r1 : (writeBackView E₁.2 i m₁').WF := by
        refine WF.writeBackView_of_WF hpok1.1 ok1.1 ?_ (hs1.1.trans a1) (hs1.2.1.trans a2)
        show m₁'.kind.blank m₁'.sent = _
        rw [hs1.2.2.1, a3, hs1.2.2.2.1, a4, hs]; rfl
      have r2 : (writeBackView E₂.2 i m₂').WF := by
        refine WF.writeBackView_of_WF hpok2.1 ok2.1 ?_ (hs2.1.trans b1) (hs2.2.1.trans b2)
        show m₂'.kind.blank m₂'.sent = _
        rw [hs2.2.2.1, b3, hs2.2.2.2.1, b4, hs']; rfl
      have hv1ne : m₁.view ≠ none := by rw [a7]; exact fun h => nomatch h
      have hv2ne : m₂.view ≠ none := by rw [b7]; exact fun h => nomatch h
      have t1 := sh1 hv1ne
      have t2 := sh2 hv2ne
      have s1 : m₁'.st.cov = E₁.2.st.cov ∧ m₁'.st.sp.size = E₁.2.st.sp.size := by
        rw [t1.1, t1.2, a5]; exact ⟨rfl, by simp [mapCells]⟩
      have s2 : m₂'.st.cov = E₂.2.st.cov ∧ m₂'.st.sp.size = E₂.2.st.sp.size := by
        rw [t2.1, t2.2, b5]; exact ⟨rfl, by simp [mapCells]⟩
      have hcc : m₁'.c = E₁.2.c := by unfold MapObj.c; rw [hs1.1, hs1.2.1, a1, a2]
      have hwb := writeBackView_sameC i hPc hc hpok1.1 hpok2.1 r1 r2 s1 s2 hcc
      -- the two stores
      rw [World.put_view hdisc1 hmv1 q1, World.put_view hdisc2 hmv2 q2]
      refine ⟨?_, h.2.1, h.2.2.1, h.2.2.2.1, h.2.2.2.2.1, h.2.2.2.2.2⟩
      have hvne : ({ m₁' with st := ⟨#[], #[]⟩ } : MapObj).view ≠ none := by
        show m₁'.view ≠ none
        rw [hmv1]; exact Option.some_ne_none _
      refine .cons (.inr ⟨hvne, ?_⟩)
        (.cons (.inl ⟨hpv1, hwb⟩) (h.1.filter fun s => s != n && s != pn))
      have := hc.eq_with_st
      rw [this]

/-! ### the shape facts: an in-place operation on a view leaves index and size alone -/

/-- what `World.get?` resolves a view descriptor to is a plain non-boolean map -/
theorem World.get?_view_kind {w : World} {n : String} {m : MapObj} (e : w.get? n = some m)
    (hv : m.view ≠ none) : ∃ dt, m.kind = .plain dt ∧ m.kind.isBool = false := by
  rcases World.get?_cases e with ⟨_, hv'⟩ | ⟨d, pn, i, p, _, _, _, _, hmat, hk, hnb⟩
  · exact absurd hv' hv
  · obtain ⟨dt, _, _, _, _, a3, _⟩ := materializeView_ok hmat
    refine ⟨dt, a3, ?_⟩
    rw [a3]
    cases dt with
    | bool => exact absurd (by rw [← hk, a3]) hnb
    | int b sg => rfl
    | flt b => rfl

theorem apiUpdate_shape {m m' : MapObj} {dt : DT} {op : String} {pix : List Nat}
    {vals : Option (List Val)} {single : Bool} {ru : Option Bool} (hw : m.WF)
    (hk : m.kind = .plain dt) (hv : m.view ≠ none)
    (h : apiUpdate m op pix vals single ru = .ok m') : SameShape m m' := by
  rcases ApiRecord.update_ok_cases h with rfl | ⟨_, hlt, hguard, rfl⟩
  · exact ⟨rfl, rfl⟩
  · have hvs : m.view.isSome = true := by
      cases hvv : m.view with
      | none => exact absurd hvv hv
      | some x => rfl
    have hcov : ∀ q ∈ pix, m.covd (q >>> m.c.shift) = true := by
      intro q hq
      cases hc : m.covd (q >>> m.c.shift) with
      | true => rfl
      | false =>
        have := hw.2.abs_uncovered (hlt q hq) hc
        have hs : m.vc.sentinel = m.sent := by
          show m.kind.blank m.sent = m.sent
          rw [hk]; rfl
        rw [hs] at this
        exact absurd this (hguard hvs q hq)
    obtain ⟨h1, h2, _⟩ := ApiRecord.updSt_covered hw op pix vals single hlt hcov
    exact ⟨h1, h2⟩

theorem apiUpdateRanges_shape {m m' : MapObj} {dt : DT} {op : String} {R : List (Nat × Nat)}
    {val : Option Val} {sl : Bool} (hw : m.WF) (hk : m.kind = .plain dt) (hv : m.view ≠ none)
    (h : apiUpdateRanges m op R val sl = .ok m') : SameShape m m' := by
  have hvs : m.view.isSome = true := by
    cases hvv : m.view with
    | none => exact absurd hvv hv
    | some x => rfl
  obtain ⟨ru, hu⟩ := ApiRecord.apiUpdateRanges_view_ok hvs h
  exact apiUpdate_shape hw hk hv hu

/-! ### the leaves of an in-place operation, owning target or view -/

section leaves
variable {n : String} {m₁ m₂ : MapObj}

theorem same_put (h : w₁.SameW w₂) (g₁ : w₁.Good) (g₂ : w₂.Good) (e1 : w₁.get? n = some m₁)
    (e2 : w₂.get? n = some m₂) {m₁' m₂' : MapObj} (hc : m₁'.SameC m₂') (ok1 : m₁'.Ok) (ok2 : m₂'.Ok)
    (hs1 : m₁'.Same m₁) (hs2 : m₂'.Same m₂) (sh1 : m₁.view ≠ none → SameShape m₁ m₁')
    (sh2 : m₂.view ≠ none → SameShape m₂ m₂') (s : String) :
    SimR (w₁.put n m₁', s) (w₂.put n m₂', s) :=
  ⟨rfl, h.put_inplace g₁ g₂ e1 e2 hc ok1 ok2 hs1 hs2 sh1 sh2⟩

/-- the operand stored back with its cache reset (what a refused in-place call does) -/
theorem sim_put_cache (h : w₁.SameW w₂) (g₁ : w₁.Good) (g₂ : w₂.Good) (e1 : w₁.get? n = some m₁)
    (e2 : w₂.get? n = some m₂) (hc : m₁.SameC m₂) (s : String) :
    SimR (w₁.put n { m₁ with cache := none }, s) (w₂.put n { m₂ with cache := none }, s) :=
  same_put h g₁ g₂ e1 e2 (hc.with_cache none) ((MapObj.Ok_cache _ _).2 (g₁.get e1))
    ((MapObj.Ok_cache _ _).2 (g₂.get e2)) (MapObj.same_cache _ _) (MapObj.same_cache _ _)
    (fun _ => ⟨rfl, rfl⟩) (fun _ => ⟨rfl, rfl⟩) s

/-- the result of `update_values_pix` stored -/
theorem sim_put_upd (h : w₁.SameW w₂) (g₁ : w₁.Good) (g₂ : w₂.Good) (e1 : w₁.get? n = some m₁)
    (e2 : w₂.get? n = some m₂) {r₁ r₂ : MapObj} {op : String} {pix : List Nat}
    {vals : Option (List Val)} {single : Bool} {ru : Option Bool}
    (x1 : apiUpdate m₁ op pix vals single ru = .ok r₁)
    (x2 : apiUpdate m₂ op pix vals single ru = .ok r₂) (hr : r₁.SameC r₂) (s : String) :
    SimR (w₁.put n r₁, s) (w₂.put n r₂, s) := by
  obtain ⟨o1, s1⟩ := Ok.apiUpdate (g₁.get e1) x1
  obtain ⟨o2, s2⟩ := Ok.apiUpdate (g₂.get e2) x2
  refine same_put h g₁ g₂ e1 e2 hr o1 o2 s1 s2 (fun hv => ?_) (fun hv => ?_) s
  · obtain ⟨dt, hk, _⟩ := World.get?_view_kind e1 hv
    exact apiUpdate_shape (g₁.get e1).1 hk hv x1
  · obtain ⟨dt, hk, _⟩ := World.get?_view_kind e2 hv
    exact apiUpdate_shape (g₂.get e2).1 hk hv x2

/-- the result of `update_values_pix` with ranges stored -/
theorem sim_put_updr (h : w₁.SameW w₂) (g₁ : w₁.Good) (g₂ : w₂.Good) (e1 : w₁.get? n = some m₁)
    (e2 : w₂.get? n = some m₂) {r₁ r₂ : MapObj} {op : String} {R : List (Nat × Nat)}
    {val : Option Val} {sl : Bool}
    (x1 : apiUpdateRanges m₁ op R val sl = .ok r₁)
    (x2 : apiUpdateRanges m₂ op R val sl = .ok r₂) (hr : r₁.SameC r₂) (s : String) :
    SimR (w₁.put n r₁, s) (w₂.put n r₂, s) := by
  obtain ⟨o1, s1⟩ := Ok.apiUpdateRanges (g₁.get e1) x1
  obtain ⟨o2, s2⟩ := Ok.apiUpdateRanges (g₂.get e2) x2
  refine same_put h g₁ g₂ e1 e2 hr o1 o2 s1 s2 (fun hv => ?_) (fun hv => ?_) s
  · obtain ⟨dt, hk, _⟩ := World.get?_view_kind e1 hv
    exact apiUpdateRanges_shape (g₁.get e1).1 hk hv x1
  · obtain ⟨dt, hk, _⟩ := World.get?_view_kind e2 hv
    exact apiUpdateRanges_shape (g₂.get e2).1 hk hv x2

/-- new arrays stored under the operand's parameters (what the storage-returning operations do
    in place) -/
theorem sim_put_st (h : w₁.SameW w₂) (g₁ : w₁.Good) (g₂ : w₂.Good) (e1 : w₁.get? n = some m₁)
    (e2 : w₂.get? n = some m₂) (hc : m₁.SameC m₂) {s₁ s₂ : State Val} (hr : StSame m₁ s₁ s₂)
    (wf1 : ({ m₁ with st := s₁, cache := none } : MapObj).WF)
    (wf2 : ({ m₂ with st := s₂, cache := none } : MapObj).WF)
    (sh1 : m₁.view ≠ none → s₁.cov = m₁.st.cov ∧ s₁.sp.size = m₁.st.sp.size)
    (sh2 : m₂.view ≠ none → s₂.cov = m₂.st.cov ∧ s₂.sp.size = m₂.st.sp.size) (s : String) :
    SimR (w₁.put n { m₁ with st := s₁, cache := none }, s)
      (w₂.put n { m₂ with st := s₂, cache := none }, s) :=
  same_put h g₁ g₂ e1 e2 (hc.with_st hr none) (Ok.withSt none (g₁.get e1) wf1)
    (Ok.withSt none (g₂.get e2) wf2) (MapObj.same_withSt _ _ _) (MapObj.same_withSt _ _ _) sh1 sh2 s

end leaves

/-! ### the in-place operations, owning target or view -/

set_option hygiene false in
/-- leaves of an in-place update operation -/
macro "vput_leaf" : tactic => `(tactic| first
  | exact SimR.same h _
  | exact sim_put_cache h g₁ g₂ e1 e2 hc _)

theorem sameV_opUpd (h : w₁.SameW w₂) (g₁ : w₁.Good) (g₂ : w₂.Good) (a : Args) :
    SimR (opUpd w₁ a) (opUpd w₂ a) := by
  unfold opUpd
  refine same_withMap h g₁ g₂ fun n m₁ m₂ hn e1 e2 hc ok1 ok2 => ?_
  have he := hc.eq_with_st
  generalize m₂.st = s₂ at he
  subst he
  simp only [hn]
  split
  · exact SimR.same h _
  · rename_i pix _
    split
    · exact SimR.same h _
    · rename_i vals single _
      rcases (apiUpdate_sameC hc (a.getD "op" "replace") pix vals single none).cases with
        ⟨r₁, r₂, x1, x2, hr⟩ | ⟨e, x1, x2⟩
      · rw [x1, x2]
        walk
        all_goals first
          | exact sim_put_upd h g₁ g₂ e1 e2 x1 x2 hr _
          | vput_leaf
      · rw [x1, x2]
        walk
        all_goals vput_leaf

theorem sameV_opSet (h : w₁.SameW w₂) (g₁ : w₁.Good) (g₂ : w₂.Good) (a : Args) :
    SimR (opSet w₁ a) (opSet w₂ a) := by
  unfold opSet
  refine same_withMap h g₁ g₂ fun n m₁ m₂ hn e1 e2 hc ok1 ok2 => ?_
  simp only [hn]
  split
  · rename_i lo hi st _
    split
    · exact SimR.same h _
    · split
      · exact SimR.same h _
      · rename_i v _
        rcases (apiUpdate_sameC hc "replace"
          ((List.range ((hi - lo + st - 1) / st)).map fun i => lo + i * st) v true none).cases with
          ⟨r₁, r₂, x1, x2, hr⟩ | ⟨e, x1, x2⟩
        · rw [x1, x2]; exact sim_put_upd h g₁ g₂ e1 e2 x1 x2 hr _
        · rw [x1, x2]; vput_leaf
  · exact SimR.same h _

theorem sameV_opBits (h : w₁.SameW w₂) (g₁ : w₁.Good) (g₂ : w₂.Good) (a : Args) :
    SimR (opBits w₁ a) (opBits w₂ a) := by
  unfold opBits
  refine same_withMap h g₁ g₂ fun n m₁ m₂ hn e1 e2 hc ok1 ok2 => ?_
  simp only [hn]
  split
  · rename_i pix bits _ _
    rcases (apiSetBits_sameC hc pix bits (a.getD "mode" "set" == "clear")).cases with
      ⟨r₁, r₂, x1, x2, hr⟩ | ⟨e, x1, x2⟩
    · rw [x1, x2]
      obtain ⟨o1, s1⟩ := Ok.apiSetBits ok1 x1
      obtain ⟨o2, s2⟩ := Ok.apiSetBits ok2 x2
      obtain ⟨op1, vals1, hu1⟩ := WFApi.apiSetBits_ok x1
      obtain ⟨op2, vals2, hu2⟩ := WFApi.apiSetBits_ok x2
      refine same_put h g₁ g₂ e1 e2 hr o1 o2 s1 s2 (fun hv => ?_) (fun hv => ?_) _
      · obtain ⟨dt, hk, _⟩ := World.get?_view_kind e1 hv
        exact apiUpdate_shape ok1.1 hk hv hu1
      · obtain ⟨dt, hk, _⟩ := World.get?_view_kind e2 hv
        exact apiUpdate_shape ok2.1 hk hv hu2
    · rw [x1, x2]
      exact SimR.same h _
  · exact SimR.same h _

theorem updr_tailV (h : w₁.SameW w₂) (g₁ : w₁.Good) (g₂ : w₂.Good) {n : String} {m₁ m₂ : MapObj}
    (e1 : w₁.get? n = some m₁) (e2 : w₂.get? n = some m₂) (hc : m₁.SameC m₂)
    (op : String) (R : List (Nat × Nat)) (v : Option Val) (sl : Bool) :
    SimR (match apiUpdateRanges m₁ op R v sl with
        | .ok m' => (w₁.put n m', "ok")
        | .error e => (w₁.put n { m₁ with cache := none }, errLine e))
      (match apiUpdateRanges m₂ op R v sl with
        | .ok m' => (w₂.put n m', "ok")
        | .error e => (w₂.put n { m₂ with cache := none }, errLine e)) := by
  rcases (apiUpdateRanges_sameC hc (g₁.get e1).1 op R v sl).cases with
    ⟨r₁, r₂, x1, x2, hr⟩ | ⟨e, x1, x2⟩
  · rw [x1, x2]
    exact sim_put_updr h g₁ g₂ e1 e2 x1 x2 hr _
  · rw [x1, x2]
    exact sim_put_cache h g₁ g₂ e1 e2 hc _

theorem sameV_opUpdr (h : w₁.SameW w₂) (g₁ : w₁.Good) (g₂ : w₂.Good) (a : Args) :
    SimR (opUpdr w₁ a) (opUpdr w₂ a) := by
  unfold opUpdr
  refine same_withMap h g₁ g₂ fun n m₁ m₂ hn e1 e2 hc ok1 ok2 => ?_
  simp only [hn]
  split
  · exact SimR.same h _
  · rename_i R _
    split
    · exact SimR.same h _
    · rename_i v _
      exact updr_tailV h g₁ g₂ e1 e2 hc _ R v _

/-! ### storage-returning operations stored in place -/

theorem apiScalarOp_shape {m : MapObj} {op : String} {k : Scalar} {st : State Val}
    (h : apiScalarOp m op k = .ok st) : st.cov = m.st.cov ∧ st.sp.size = m.st.sp.size := by
  obtain ⟨⟨f, rfl⟩, _⟩ := WFApi.apiScalarOp_ok h
  exact ⟨rfl, by simp [scalarOp]⟩

theorem apiApplyMask_shape {m mk : MapObj} {mb : Option Int} {ba : Option (List Nat)}
    {st : State Val} (h : apiApplyMask m mk mb ba = .ok st) :
    st.cov = m.st.cov ∧ st.sp.size = m.st.sp.size := by
  obtain ⟨bad, hb⟩ := WFApi.apiApplyMask_ok h
  unfold applyMask at hb
  cases hvp : validPixels m.c m.vc m.st with
  | none => rw [hvp] at hb; cases hb
  | some vp =>
    rw [hvp] at hb
    cases hb
    exact ⟨rfl, scatter_size _ _ _⟩

theorem sameV_opSop (h : w₁.SameW w₂) (g₁ : w₁.Good) (g₂ : w₂.Good) (a : Args) :
    SimR (opSop w₁ a) (opSop w₂ a) := by
  unfold opSop
  refine same_withMap h g₁ g₂ fun n m₁ m₂ hn e1 e2 hc ok1 ok2 => ?_
  have he := hc.eq_with_st
  generalize m₂.st = s₂ at he
  subst he
  simp only [hn]
  split
  · exact SimR.same h _
  · rename_i k _
    cases hin : a.flag "inplace"
    · simp only [Bool.false_eq_true, if_false, Bool.false_and]
      rcases (apiScalarOp_sameC hc ok1.2.1.blankInvalid (a.getD "op" "add") k).cases with
        ⟨r₁, r₂, x1, x2, hr⟩ | ⟨e, x1, x2⟩
      · rw [x1, x2]; st_leaf
      · rw [x1, x2]; st_leaf
    · simp only [if_true, Bool.true_and]
      rcases (apiScalarOp_sameC hc ok1.2.1.blankInvalid (a.getD "op" "add") k).cases with
        ⟨r₁, r₂, x1, x2, hr⟩ | ⟨e, x1, x2⟩
      · rw [x1, x2]
        exact sim_put_st h g₁ g₂ e1 e2 hc hr (WF.apiScalarOp none ok1.1 x1)
          (WF.apiScalarOp none ok2.1 x2) (fun _ => apiScalarOp_shape x1)
          (fun _ => apiScalarOp_shape x2) _
      · rw [x1, x2]
        walk
        all_goals vput_leaf

theorem sameV_opMask (h : w₁.SameW w₂) (g₁ : w₁.Good) (g₂ : w₂.Good) (a : Args) :
    SimR (opMask w₁ a) (opMask w₂ a) := by
  unfold opMask
  refine same_withMap h g₁ g₂ fun n m₁ m₂ hn e1 e2 hc ok1 ok2 => ?_
  simp only [hn]
  rcases h.get g₁ g₂ (a.getD "by" "") with ⟨q1, q2⟩ | ⟨k₁, k₂, q1, q2, hk⟩
  · rw [q1, q2]; exact SimR.same h _
  · rw [q1, q2]
    simp only []
    rcases (apiApplyMask_sameC hc hk ok1.2.1.blankInvalid ((a.get? "bits").bind String.toInt?)
      ((a.get? "bitarr").bind parseNats)).cases with ⟨r₁, r₂, x1, x2, hr⟩ | ⟨e, x1, x2⟩
    · rw [x1, x2]
      cases hin : a.flag "inplace"
      · simp only [Bool.false_eq_true, if_false]; st_leaf
      · simp only [if_true]
        exact sim_put_st h g₁ g₂ e1 e2 hc hr (WF.apiApplyMask none ok1.1 x1)
          (WF.apiApplyMask none ok2.1 x2) (fun _ => apiApplyMask_shape x1)
          (fun _ => apiApplyMask_shape x2) _
    · rw [x1, x2]; st_leaf

theorem sameV_opInv (h : w₁.SameW w₂) (g₁ : w₁.Good) (g₂ : w₂.Good) (a : Args) :
    SimR (opInv w₁ a) (opInv w₂ a) := by
  unfold opInv
  refine same_withMap h g₁ g₂ fun n m₁ m₂ hn e1 e2 hc ok1 ok2 => ?_
  simp only [hn]
  rcases (apiInvert_sameC hc ok1 ok2).cases with ⟨r₁, r₂, x1, x2, hr⟩ | ⟨e, x1, x2⟩
  · rw [x1, x2]
    cases hin : a.flag "inplace"
    · simp only [Bool.false_eq_true, if_false]; st_leaf
    · simp only [if_true]
      refine sim_put_st h g₁ g₂ e1 e2 hc hr (WF.apiInvert none ok1.1 ok1.2.1 x1)
          (WF.apiInvert none ok2.1 ok2.2.1 x2) (fun hv => ?_) (fun hv => ?_) _
      · obtain ⟨_, _, hnb⟩ := World.get?_view_kind e1 hv
        have := (WFApi.apiInvert_ok x1).1
        rw [hnb] at this; cases this
      · obtain ⟨_, _, hnb⟩ := World.get?_view_kind e2 hv
        have := (WFApi.apiInvert_ok x2).1
        rw [hnb] at this; cases this
  · rw [x1, x2]; st_leaf

/-- the tail of `opBop` once the right operands are known to be related -/
theorem bop_tailV (h : w₁.SameW w₂) (g₁ : w₁.Good) (g₂ : w₂.Good) {n : String} {m₁ m₂ : MapObj}
    (e1 : w₁.get? n = some m₁) (e2 : w₂.get? n = some m₂) (hc : m₁.SameC m₂)
    {r₁ r₂ : BoolRhs} (hr : RhsSame r₁ r₂) (op rn : String) (ip : Bool) :
    SimR (match apiBoolOp m₁ op r₁ ip with
        | .ok st =>
          if ip then (w₁.put n { m₁ with st := st, cache := none }, "ok")
          else (w₁.bind rn { m₁ with st := st, cache := none }, "ok")
        | .error e => ((if ip && m₁.kind.isBool then w₁.put n { m₁ with cache := none } else w₁), errLine e))
      (match apiBoolOp m₂ op r₂ ip with
        | .ok st =>
          if ip then (w₂.put n { m₂ with st := st, cache := none }, "ok")
          else (w₂.bind rn { m₂ with st := st, cache := none }, "ok")
        | .error e => ((if ip && m₂.kind.isBool then w₂.put n { m₂ with cache := none } else w₂), errLine e)) := by
  have ok1 := g₁.get e1
  have ok2 := g₂.get e2
  have hrhs : ∀ {r₁ r₂ : BoolRhs}, RhsSame r₁ r₂ →
      (∀ b, r₁ = .map b → b.WF) ∧ (∀ b, r₂ = .map b → b.WF) := by
    intro r₁ r₂ hrs
    cases r₁ <;> cases r₂
    · exact ⟨(fun b hb => nomatch hb), (fun b hb => nomatch hb)⟩
    · exact hrs.elim
    · exact hrs.elim
    · refine ⟨fun b hb => ?_, fun b hb => ?_⟩
      · cases hb; exact hrs.2.1.1
      · cases hb; exact hrs.2.2.1
  rcases (apiBoolOp_sameC hc ok1 ok2 hr op ip).cases with ⟨s₁, s₂, x1, x2, hst⟩ | ⟨e, x1, x2⟩
  · rw [x1, x2]
    cases ip with
    | false =>
      simp only [Bool.false_eq_true, if_false]
      exact ⟨rfl, h.bind _ (hc.with_st hst none)⟩
    | true =>
      simp only [if_true]
      refine sim_put_st h g₁ g₂ e1 e2 hc hst (WF.apiBoolOp none ok1.1 ok1.2.1 (hrhs hr).1 x1)
          (WF.apiBoolOp none ok2.1 ok2.2.1 (hrhs hr).2 x2) (fun hv => ?_) (fun hv => ?_) _
      · obtain ⟨_, _, hnb⟩ := World.get?_view_kind e1 hv
        have := (WFApi.apiBoolOp_ok x1).1
        rw [hnb] at this; cases this
      · obtain ⟨_, _, hnb⟩ := World.get?_view_kind e2 hv
        have := (WFApi.apiBoolOp_ok x2).1
        rw [hnb] at this; cases this
  · rw [x1, x2]
    have hkb : m₂.kind.isBool = m₁.kind.isBool := by rw [hc.kind_eq]
    cases ip with
    | false => simp only [Bool.false_and, Bool.false_eq_true, if_false]; exact SimR.same h _
    | true =>
      simp only [Bool.true_and, hkb]
      split
      · exact sim_put_cache h g₁ g₂ e1 e2 hc _
      · exact SimR.same h _

theorem sameV_opBop (h : w₁.SameW w₂) (g₁ : w₁.Good) (g₂ : w₂.Good) (a : Args) :
    SimR (opBop w₁ a) (opBop w₂ a) := by
  rw [opBop_eqS, opBop_eqS]
  refine same_withMap h g₁ g₂ fun n m₁ m₂ hn e1 e2 hc ok1 ok2 => ?_
  rcases bopRhs_same h g₁ g₂ a with ⟨q1, q2⟩ | ⟨r₁, r₂, q1, q2, hr⟩
  · rw [q1, q2]; exact SimR.same h _
  · rw [q1, q2, hn]
    exact bop_tailV h g₁ g₂ e1 e2 hc hr _ _ _

/-! ### geometry primitives stored in place -/

theorem geom_put_tailV (h : w₁.SameW w₂) (g₁ : w₁.Good) (g₂ : w₂.Good) {n : String}
    {m₁ m₂ : MapObj} (e1 : w₁.get? n = some m₁) (e2 : w₂.get? n = some m₂) (hc : m₁.SameC m₂)
    (operand : Except Err Val) (op : String) (R : List (Nat × Nat)) :
    SimR (match operand >>= (fun v => apiUpdateRanges m₁ op R (some v) false) with
        | .ok m' => (w₁.put n m', "ok")
        | .error e => (w₁.put n { m₁ with cache := none }, errLine e))
      (match operand >>= (fun v => apiUpdateRanges m₂ op R (some v) false) with
        | .ok m' => (w₂.put n m', "ok")
        | .error e => (w₂.put n { m₂ with cache := none }, errLine e)) := by
  rcases (geomApply_sameC hc (g₁.get e1).1 operand op R).cases with
    ⟨r₁, r₂, x1, x2, hr⟩ | ⟨e, x1, x2⟩
  · rw [x1, x2]
    obtain ⟨v1, _, hu1⟩ := except_bind_ok x1
    obtain ⟨v2, _, hu2⟩ := except_bind_ok x2
    obtain ⟨o1, s1⟩ := Ok.apiUpdateRanges (g₁.get e1) hu1
    obtain ⟨o2, s2⟩ := Ok.apiUpdateRanges (g₂.get e2) hu2
    refine same_put h g₁ g₂ e1 e2 hr o1 o2 s1 s2 (fun hv => ?_) (fun hv => ?_) _
    · obtain ⟨dt, hk, _⟩ := World.get?_view_kind e1 hv
      exact apiUpdateRanges_shape (g₁.get e1).1 hk hv hu1
    · obtain ⟨dt, hk, _⟩ := World.get?_view_kind e2 hv
      exact apiUpdateRanges_shape (g₂.get e2).1 hk hv hu2
  · rw [x1, x2]; exact sim_put_cache h g₁ g₂ e1 e2 hc _

theorem sameV_opGeom (h : w₁.SameW w₂) (g₁ : w₁.Good) (g₂ : w₂.Good) (a : Args) :
    SimR (opGeom w₁ a) (opGeom w₂ a) := by
  unfold opGeom
  refine same_withMap h g₁ g₂ fun n m₁ m₂ hn e1 e2 hc ok1 ok2 => ?_
  have he := hc.eq_with_st
  generalize m₂.st = s₂ at he
  subst he
  have hmb : MapObj.maxbits ({ m₁ with st := s₂ } : MapObj) = m₁.maxbits := rfl
  simp only [hn, hmb]
  split
  · exact SimR.same h _
  · rename_i R _
    split
    · -- ior
      exact geom_put_tailV h g₁ g₂ e1 e2 hc _ _ R
    · split
      · -- or
        exact geom_bind_tail h (hc.with_cache none) ((MapObj.WF_cache _ _).2 ok1.1) _ _ _ R
      · split
        · -- realize
          split
          · exact SimR.same h _
          · exact geom_put_tailV h g₁ g₂ e1 e2 hc _ _ R
        · split
          · -- getmap / getmaplike: an empty map of the requested type, then the pixels
            walk
            all_goals first
              | exact SimR.same h _
              | (rename_i e he _ v hv'
                 refine ⟨rfl, h.bind _ (.refl ((MapObj.WF_cache _ _).2 ?_))⟩
                 have hE := WF.apiMakeEmpty he
                 split at hv'
                 · exact WF.apiSetBits hE hv'
                 · split at hv'
                   · exact WF.apiUpdate hE hv'
                   · cases hv')
          · exact SimR.same h _

end HS
