"""C05, array level — `_PackedBoolArray` behaves like a NumPy boolean array.

Three-way comparison on every step: real `_PackedBoolArray` / twin `np.ndarray(bool)` (inside
harness/real_packed.py: a disagreement prefixes the observation with `NUMPY-DIFF`) / Lean model
(`p.*` operations of lean/HealSparse/Model/PackedDispatch.lean).

`AVOID_KNOWN = True` keeps the generated stream out of exactly the regions in which the class is
known to deviate from NumPy (listed in `REGIONS`; each is stated as a `…_partial` theorem or a
deviation `example` in lean/HealSparse/Props/C05.lean), so that the stream is clean on the unchanged
tree.  With `AVOID_KNOWN = False` the same generator also enters these regions (the model still
agrees with the code there; the twin does not).
"""
import itertools

PID = 'C05'
AVOID_KNOWN = True

REGIONS = {
    'empty-skips-checks':
        "a[empty idx] = vals and a[k:k] = vals / = misaligned packed operand return silently before the value is "
        "validated (NumPy: shape mismatch ValueError); a[[]] (empty Python list) raises IndexError",
    'raw-stop-before-start':
        "_PackedBoolArray(data_buffer=…, start_index=s, stop_index=e) with e < s is accepted (negative size)",
}

RULE = ("array-level histories on stand-alone _PackedBoolArray objects: a base array (constructor by size, "
        "from_boolean_array with start padding 0..7, or raw data_buffer with start/stop and arbitrary (dirty) padding "
        "bits) of n bits with a random or swept bit pattern; slices [a:b] (None bounds, negative stops, stops before "
        "the start = empty, stops below the bit offset of the view) and slices of slices; then every operation "
        "{int/slice/index-array read; int assignment; slice assignment x {bool, ndarray, aligned packed operand}; "
        "index assignment x {bool, ndarray} with empty / repeated (conflicting) / out-of-range indices; &= |= ^= x "
        "{bool, packed operand: fresh array, or a disjoint / overlapping / identical view of the same buffer}; invert; "
        "& | ^ ~ copies; sum(); sum(shape, axis) for every axis incl. negative ones; copy; resize of owners (also with "
        "dirty padding) and of views; negative sizes; data_array; _extract_first_middle_last(mask 0/1); len} through "
        "the view, each followed by a dump of EVERY live object (so writes through views are checked on the parent "
        "and on sibling views). quick: ~300 random histories n <= 70. thorough: exhaustive sweep n <= 26 x base "
        "padding {0,3} x all (a,b) incl. reversed x all operations x operand kinds, exhaustive nested sweep n <= 18 x "
        "all (a,b) x all (c,d), plus random long arrays (<= 3000 bits). non-trivial = uses a slice that is not byte "
        "aligned at one end. AVOID_KNOWN avoids exactly the REGIONS.")

ASSUMPTIONS = ["numpy view / packbits / unpackbits / ufunc.at / resize(refcheck=False) semantics as written in "
               "Model/Packed.lean",
               "after resize of an array its older views are not used again (they dangle in numpy)",
               "index arrays are int64 ndarrays (or Python lists of ints), value arrays 1-d bool ndarrays"]


# ---------------------------------------------------------------------------------------------
def bits_str(bits):
    return ''.join('1' if b else '0' for b in bits) or '_'


def rand_bits(rng, n):
    mode = rng.random()
    if mode < 0.1:
        return [False] * n
    if mode < 0.2:
        return [True] * n
    return [rng.random() < 0.5 for _ in range(n)]


class V(object):
    """What the generator knows about a live object: size, bit offset, position in its root buffer."""

    def __init__(self, name, n, s, root, abit, own):
        self.name, self.n, self.s, self.root, self.abit, self.own = name, n, s, root, abit, own
        # abit = absolute bit position of element 0 in the root buffer (abit % 8 == s)

    def bytes(self):
        """byte range of self._data in the root buffer (as the code slices it)"""
        if self.n == 0 and self.s == 0:
            return (self.abit // 8, self.abit // 8)
        return (self.abit // 8, (self.abit + self.n + 7) // 8 if self.n > 0 else self.abit // 8 + 1)


class H(object):
    """Builder of one history."""

    def __init__(self, rng):
        self.rng = rng
        self.lines = []
        self.objs = {}
        self.k = 0
        self.dirty = set()      # roots built from a user buffer with dirty padding

    def fresh(self, prefix='t'):
        self.k += 1
        return '%s%d' % (prefix, self.k)

    def emit(self, line):
        self.lines.append(line)

    # -- construction ------------------------------------------------------
    def frombool(self, name, bits, s=None):
        self.emit('p.frombool %s bits=%s%s' % (name, bits_str(bits), '' if s is None else ' start=%d' % s))
        self.objs[name] = V(name, len(bits), s or 0, name, s or 0, True)
        return self.objs[name]

    def new(self, name, n, s=None):
        self.emit('p.new %s n=%d%s' % (name, n, '' if s is None else ' start=%d' % s))
        self.objs[name] = V(name, n, s or 0, name, s or 0, True)
        return self.objs[name]

    def raw(self, name, data, s, e):
        self.emit('p.new %s data=b%s start=%d stop=%d' % (name, '.'.join(map(str, data)), s, e))
        self.objs[name] = V(name, e - s, s, name, s, True)
        pad = 0
        for k in range(e, 8 * len(data)):
            pad |= (data[k // 8] >> (k % 8)) & 1
        if pad:
            self.dirty.add(name)
        return self.objs[name]

    def slice_ok(self, v, lo, hi):
        """True if v[lo:hi] is accepted, None if it is rejected by code, twin and model alike
        (start outside [0, size] or stop > size).  (lo, hi may be None; hi may be < 0)"""
        L = 0 if lo is None else lo
        E = v.n if hi is None else (hi + v.n if hi < 0 else hi)
        if L < 0 or L > v.n or E > v.n:
            return None
        return True

    def slice(self, name, v, lo, hi, step=None):
        self.emit('p.slice %s %s%s%s%s' % (name, v.name,
                                           '' if lo is None else ' lo=%d' % lo,
                                           '' if hi is None else ' hi=%d' % hi,
                                           '' if step is None else ' step=%d' % step))
        ok = self.slice_ok(v, lo, hi)
        if ok and (step is None or step == 1):
            L = 0 if lo is None else lo
            E = v.n if hi is None else (hi + v.n if hi < 0 else hi)
            E = max(E, L)                                      # a stop before the start: empty
            self.objs[name] = V(name, E - L, (v.abit + L) % 8, v.root, v.abit + L, False)
            return self.objs[name]
        return None

    def overlap(self, x, y):
        if x.root != y.root:
            return False
        (a, b), (c, d) = x.bytes(), y.bytes()
        return a < d and c < b and (a, b) != (c, d)

    def operand_for(self, s, n):
        """a fresh packed operand with bit offset s and n elements"""
        name = self.fresh('o')
        return self.frombool(name, rand_bits(self.rng, n), s)

    def observe(self, v, full=True):
        self.emit('p.dump')
        if full:
            self.emit('p.sum %s' % v.name)
            self.emit('p.len %s' % v.name)

    # -- one random operation on view v ------------------------------------
    def rand_index(self, v, allow_bad):
        rng = self.rng
        if v.n == 0:
            return []
        k = rng.choice([0, 1, 1, 2, 3, 5, 8])
        idx = [rng.randrange(v.n) for _ in range(k)]
        if idx and rng.random() < 0.4:
            idx.append(rng.choice(idx))                       # repeated
        if allow_bad and rng.random() < 0.08:
            idx.append(rng.choice([-1, v.n, v.n + 3]))
        rng.shuffle(idx)
        return idx

    def op(self, v, kind=None):
        rng = self.rng
        kinds = ['get', 'getidx', 'set', 'setslice_b', 'setslice_a', 'setslice_p', 'setidx_b', 'setidx_a',
                 'iop_b', 'iop_p', 'invert', 'bop_b', 'bop_p', 'not', 'copy', 'fml', 'sum', 'arr', 'data',
                 'alias']
        kind = kind or rng.choice(kinds)
        n = v.n
        if kind == 'get':
            i = rng.randrange(-1, n + 2) if rng.random() < 0.15 or n == 0 else rng.randrange(n)
            self.emit('p.get %s i=%d' % (v.name, i))
        elif kind == 'getidx':
            idx = self.rand_index(v, True)
            aslist = rng.random() < 0.2 and (idx or not AVOID_KNOWN)
            self.emit('p.getidx %s idx=%s%s' % (v.name, ','.join(map(str, idx)) or '_', ' list=1' if aslist else ''))
        elif kind == 'set':
            i = rng.randrange(-1, n + 2) if rng.random() < 0.15 or n == 0 else rng.randrange(n)
            self.emit('p.set %s i=%d v=%s' % (v.name, i, rng.choice('TF')))
        elif kind in ('setslice_b', 'setslice_a', 'setslice_p'):
            lo, hi = self.rand_bounds(v)
            L = 0 if lo is None else lo
            E = n if hi is None else (hi + n if hi < 0 else hi)
            m = max(E - L, 0)
            b = ('' if lo is None else ' lo=%d' % lo) + ('' if hi is None else ' hi=%d' % hi)
            if kind == 'setslice_b':
                self.emit('p.setslice %s%s v=%s' % (v.name, b, rng.choice('TF')))
            elif kind == 'setslice_a':
                ln = m
                if rng.random() < 0.07 and (m > 0 or not AVOID_KNOWN):
                    ln = m + rng.choice([1, -1]) if m > 0 else 2
                self.emit('p.setslice %s%s vals=%s' % (v.name, b, bits_str(rand_bits(rng, max(ln, 0)))))
            else:
                s = (v.abit + L) % 8
                if rng.random() < 0.07 and (m > 0 or not AVOID_KNOWN):
                    s = (s + 1) % 8                            # misaligned operand: rejected
                o = self.operand_for(s, m)
                self.emit('p.setslice %s%s rhs=%s' % (v.name, b, o.name))
        elif kind in ('setidx_b', 'setidx_a'):
            idx = self.rand_index(v, True)
            aslist = rng.random() < 0.2 and (idx or not AVOID_KNOWN)
            tail = ' list=1' if aslist else ''
            if kind == 'setidx_b':
                self.emit('p.setidx %s idx=%s v=%s%s' % (v.name, ','.join(map(str, idx)) or '_', rng.choice('TF'), tail))
            else:
                vals = rand_bits(rng, len(idx))
                if rng.random() < 0.06 and (idx or not AVOID_KNOWN):
                    vals = vals + [True]                       # length mismatch: rejected
                self.emit('p.setidx %s idx=%s vals=%s%s' % (v.name, ','.join(map(str, idx)) or '_', bits_str(vals), tail))
        elif kind == 'iop_b':
            self.emit('p.iop %s op=%s v=%s' % (v.name, rng.choice(['and', 'or', 'xor']), rng.choice('TF')))
        elif kind == 'iop_p':
            s, m = v.s, n
            r = rng.random()
            if r < 0.06:
                s = (s + 1) % 8
            elif r < 0.12:
                m = n + 1
            o = self.operand_for(s, m)
            self.emit('p.iop %s op=%s rhs=%s' % (v.name, rng.choice(['and', 'or', 'xor']), o.name))
        elif kind == 'invert':
            self.emit('p.invert %s' % v.name)
        elif kind == 'bop_b':
            r = self.fresh('r')
            self.emit('p.bop %s %s op=%s v=%s' % (r, v.name, rng.choice(['and', 'or', 'xor']), rng.choice('TF')))
            self.objs[r] = V(r, n, v.s, r, v.s, True)
        elif kind == 'bop_p':
            o = self.operand_for(v.s, n)
            r = self.fresh('r')
            self.emit('p.bop %s %s op=%s rhs=%s' % (r, v.name, rng.choice(['and', 'or', 'xor']), o.name))
            self.objs[r] = V(r, n, v.s, r, v.s, True)
        elif kind == 'not':
            r = self.fresh('r')
            self.emit('p.not %s %s' % (r, v.name))
            self.objs[r] = V(r, n, v.s, r, v.s, True)
        elif kind == 'copy':
            r = self.fresh('c')
            self.emit('p.copy %s %s' % (r, v.name))
            self.objs[r] = V(r, n, v.s, r, v.s, True)
            self.emit('p.fml %s mask=0' % r)                   # shows that the padding of the copy is zero
        elif kind == 'fml':
            self.emit('p.fml %s mask=%d' % (v.name, rng.randint(0, 1)))
        elif kind == 'sum':
            self.emit('p.sum %s' % v.name)
        elif kind == 'arr':
            self.emit('p.arr %s' % v.name)
            self.emit('p.repr %s' % v.name)
        elif kind == 'data':
            self.emit('p.data %s' % v.name)
        elif kind == 'alias':
            # operand = another view of the same root with the same alignment and size
            root = self.objs[v.root]
            cands = []
            for d in range(-(v.abit // 8), (root.abit + root.n - v.abit - v.n) // 8 + 1):
                ab = v.abit + 8 * d
                if ab >= root.abit and ab + n <= root.abit + root.n:
                    cands.append(d)
            if cands and root.own and v.root in self.objs:
                near = [d for d in cands if d != 0 and abs(d) * 8 < n + 8]      # overlapping byte ranges
                d = rng.choice(near) if near and rng.random() < 0.7 else rng.choice(cands)
                lo = v.abit + 8 * d - root.abit
                if self.slice_ok(root, lo, lo + n) is not True:
                    return
                yn = self.fresh('y')
                self.slice(yn, root, lo, lo + n)
                if rng.random() < 0.5:
                    self.emit('p.iop %s op=%s rhs=%s' % (v.name, rng.choice(['and', 'or', 'xor']), yn))
                else:
                    self.emit('p.setslice %s rhs=%s' % (v.name, yn))
        self.emit('p.dump')

    def rand_bounds(self, v):
        rng = self.rng
        n = v.n
        r = rng.random()
        lo = rng.randint(0, n)
        hi = rng.randint(lo, n)
        if r < 0.1:
            lo = None
        elif r < 0.2:
            hi = None
        elif r < 0.3 and n > 0:
            hi = hi - n if hi < n else hi                      # negative stop
        elif r < 0.36:
            lo, hi = rng.choice([(-1, hi), (n + 1, None), (lo, n + 1), (lo, -n - 1)])   # rejected by all three
        elif r < 0.42:
            lo, hi = hi, lo                                    # reversed: the empty slice
        return lo, hi


# ---------------------------------------------------------------------------------------------
def random_history(rng, nmax, nops):
    h = H(rng)
    n = rng.choice([0, 1, 7, 8, 9, 16]) if rng.random() < 0.15 else rng.randint(0, nmax)
    r = rng.random()
    if r < 0.55:
        a = h.frombool('a', rand_bits(rng, n), rng.choice([None, None, 0, 1, 3, 5, 7]))
    elif r < 0.75:
        a = h.new('a', n, rng.choice([None, 0, 2, 6]))
        if n:
            idx = [rng.randrange(n) for _ in range(n // 2)]
            h.emit('p.setidx a idx=%s v=T' % (','.join(map(str, idx)) or '_'))
    else:
        nb = (n + 7) // 8 if n else rng.choice([0, 1])
        s = rng.randint(0, 7) if nb else 0
        e = rng.randint(max(8 * nb - 7, s), 8 * nb) if nb else 0
        data = [rng.randrange(256) for _ in range(nb)]
        if rng.random() < 0.1:                                 # rejected constructor calls
            h.emit('p.new z data=b%s start=%d stop=%d' % ('.'.join(map(str, data)), s, 8 * nb - 8))
            h.emit('p.new z data=b%s start=8' % '.'.join(map(str, data)))
            h.emit('p.new z data=b%s n=3' % '.'.join(map(str, data)))
            h.emit('p.new z n=5 stop=5')
        if rng.random() < 0.3:                                 # clean padding (otherwise dirty)
            for k in range(e, 8 * nb):
                data[k // 8] &= ~(1 << (k % 8))
        a = h.raw('a', data, s, e)
    h.emit('p.arr a')
    h.emit('p.len a')
    if rng.random() < 0.05:                                    # negative sizes are rejected
        h.emit('p.new z n=%d%s' % (rng.choice([-1, -3, -8, -9]), rng.choice(['', ' start=3', ' start=7'])))
    views = [a]
    for _ in range(rng.randint(1, 3)):
        par = rng.choice(views)
        lo, hi = h.rand_bounds(par)
        v = h.slice(h.fresh('v'), par, lo, hi, rng.choice([None, None, None, 1, 2]) if rng.random() < 0.1 else None)
        if v is not None:
            views.append(v)
            h.emit('p.fml %s mask=1' % v.name)
    for _ in range(nops):
        v = rng.choice(views)
        if v.name not in h.objs:
            continue
        h.op(v)
        if rng.random() < 0.25:
            h.op(v, 'alias')
        if not v.own and rng.random() < 0.06:
            resize_view(h, rng, v)
        if rng.random() < 0.04:
            grow_and_drop(h, rng, views)
    if rng.random() < 0.3:
        sumshape_lines(h, rng)
    if rng.random() < 0.05:
        h.emit('p.lut')
    return h.lines


def resize_view(h, rng, v):
    """resize of a slice view: refused (ValueError) by NumPy and by the class, the parent stays intact"""
    if v.name not in h.objs:
        return
    newn = v.n + rng.choice([0, 1, 2, 5, 9, 20])
    h.emit('p.resize %s n=%d' % (v.name, newn))
    h.emit('p.dump')
    h.emit('p.len %s' % v.name)


def grow_and_drop(h, rng, views):
    """resize the base array (owner) and forget its views"""
    root = views[0]
    if root.name not in h.objs:
        return
    for v in list(h.objs.values()):
        if v.root == root.name and v.name != root.name:
            h.emit('p.drop %s' % v.name)
            del h.objs[v.name]
    del views[1:]
    newn = root.n + rng.choice([0, 1, 3, 8, 13, 40]) - (1 if rng.random() < 0.1 else 0)
    h.emit('p.resize %s n=%d' % (root.name, newn))
    if newn >= root.n:
        root.n = newn
    h.emit('p.dump')
    h.emit('p.len %s' % root.name)


def sumshape_lines(h, rng):
    dims = [rng.randint(1, 4) for _ in range(rng.randint(0, 2))] + [8 * rng.randint(1, 3)]
    n = 1
    for d in dims:
        n *= d
    name = h.fresh('s')
    h.frombool(name, rand_bits(rng, n), rng.choice([None, None, 0, 3]))
    shape = ','.join(map(str, dims))
    axes = [None] + list(range(-len(dims) - 1, len(dims) + 2))
    for ax in axes:
        h.emit('p.sumshape %s shape=%s%s' % (name, shape, '' if ax is None else ' axis=%d' % ax))
    if rng.random() < 0.3:
        h.emit('p.sumshape %s shape=%s' % (name, ','.join(map(str, dims[:-1] + [dims[-1] + 1]))))
        if True:
            h.emit('p.sumshape %s shape=%s axis=1' % (name, ','.join(map(str, [2] + dims[:-1] + [dims[-1] // 2]))))


# ---------------------------------------------------------------------------------------------
SWEEP_OPS = ['setslice_b', 'setslice_a', 'setslice_p', 'setidx_b', 'setidx_a', 'iop_b', 'iop_p', 'invert',
             'bop_b', 'bop_p', 'not', 'copy', 'getidx', 'alias']


def sweep_single(rng, nmax):
    """all n <= nmax x base padding x all (a, b): every operation through the view a[a:b]."""
    out = []
    for n in range(0, nmax + 1):
        for s0 in (None, 3):
            for a in range(0, n + 1):
                for b in list(range(a, n + 1)) + ([a - 1, 0] if a > 0 else []):
                    h = H(rng)
                    base = h.frombool('a', rand_bits(rng, n), s0)
                    v = h.slice('v', base, a, b)
                    if v is None:
                        continue
                    h.emit('p.fml v mask=0')
                    h.emit('p.fml v mask=1')
                    h.observe(v)
                    for kind in SWEEP_OPS:
                        h.op(v, kind)
                    h.emit('p.sum v')
                    # the same bounds as a slice assignment on the parent
                    h.emit('p.setslice a lo=%d hi=%d v=%s' % (a, b, rng.choice('TF')))
                    h.emit('p.setslice a lo=%d hi=%d vals=%s' % (a, b, bits_str(rand_bits(rng, max(b - a, 0)))))
                    if b < n:
                        h.emit('p.setslice a lo=%d hi=%d v=T' % (a, b - n))
                    h.emit('p.dump')
                    out.append(h.lines)
    return out


def sweep_nested(rng, nmax):
    """all n <= nmax x all (a, b) x all (c, d): slice of a slice, write and read through it."""
    out = []
    for n in range(1, nmax + 1):
        for a in range(0, n + 1):
            for b in range(a, n + 1):
                h = H(rng)
                base = h.frombool('a', rand_bits(rng, n), None)
                v = h.slice('v', base, a, b)
                k = 0
                for c in range(0, b - a + 1):
                    for d in range(c, b - a + 1):
                        k += 1
                        w = h.slice('w', v, c, d)
                        if w is None:
                            continue
                        what = k % 4
                        if what == 0:
                            h.emit('p.invert w')
                        elif what == 1:
                            h.emit('p.setslice w v=%s' % rng.choice('TF'))
                        elif what == 2:
                            h.emit('p.setslice v lo=%d hi=%d vals=%s' % (c, d, bits_str(rand_bits(rng, d - c))))
                        else:
                            h.emit('p.iop w op=xor v=T')
                        h.emit('p.sum w')
                        h.emit('p.dump')
                out.append(h.lines)
    return out


def histories(rng, tier):
    out = []
    if tier == 'quick':
        for _ in range(300):
            out.append(random_history(rng, 70, rng.randint(4, 9)))
        return out
    out += sweep_single(rng, 26)
    out += sweep_nested(rng, 18)
    for _ in range(1500):
        out.append(random_history(rng, 70, rng.randint(6, 14)))
    for _ in range(60):
        out.append(random_history(rng, 3000, rng.randint(6, 12)))
    return out


def nontrivial(history):
    """uses a slice that is not byte aligned at one end"""
    for ln in history:
        t = ln.split()
        if t[0] in ('p.slice', 'p.setslice'):
            for x in t:
                if (x.startswith('lo=') or x.startswith('hi=')) and x[3:] not in ('none',) and int(x[3:]) % 8 != 0:
                    return True
        if t[0] == 'p.frombool' and any(x.startswith('start=') and x != 'start=0' for x in t):
            return True
    return False
