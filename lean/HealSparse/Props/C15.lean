/-
  C15 — changing resolution is consistent: upgrade, finer-pixel lookup, fracdet.
  Property theorems only (helpers in HealSparse/Lemmas).
-/
import HealSparse.Lemmas.Core
import HealSparse.Lemmas.Coverage
import HealSparse.Lemmas.Valid
import HealSparse.Lemmas.Resolution
import HealSparse.Model.Resolution
import HealSparse.Props.C04
import HealSparse.Props.C02
import HealSparse.Props.C07
namespace HS
namespace C15

variable {V W : Type} [DecidableEq V] [DecidableEq W]

/-- configuration of the finer map -/
def upCfg (c : Cfg) (g : Nat) : Cfg := ⟨c.ncov, c.shift + g⟩

/-- **upgrade** replicates each pixel's value (or invalidity) to all of its children, yields a
    well-formed map with the same coverage mask, for every block order.  Looking the original
    up with finer pixel numbers (`get_values_pix(x, nside=finer)` reads `abs s (x >>> g)`)
    therefore equals reading the upgraded map. -/
theorem upgrade_spec (c : Cfg) (vc : VCfg V) (s : State V) (g : Nat) (h : Inv c vc s) :
    Inv (upCfg c g) vc (upgradeMap c vc s g) ∧
    (∀ x, x < (upCfg c g).npix → abs (upCfg c g) vc (upgradeMap c vc s g) x = abs c vc s (x >>> g)) ∧
    (∀ k, k < c.ncov → covered (upCfg c g) (upgradeMap c vc s g) k = covered c s k) := by
  exact h.upgrade_spec' g

/-- **degrade ∘ upgrade**: for any reduction that returns `conv v` on `2^g` copies of `v`
    (min, max, median always; mean on exactly representable values) with `conv sentinel` the
    output sentinel, degrading the upgraded map restores the original at every pixel. -/
theorem degrade_upgrade_id (c : Cfg) (vc : VCfg V) (vcOut : VCfg W) (s : State V) (g : Nat)
    (red : List V → W) (conv : V → W) (h : Inv c vc s)
    (hred : ∀ v, red (List.replicate (2 ^ g) v) = conv v) (hsent : conv vc.sentinel = vcOut.sentinel)
    (q : Nat) (hq : q < c.npix) :
    abs (degCfg (upCfg c g) g) vcOut
        (degradeMap (upCfg c g) vc (upgradeMap c vc s g) g red vcOut.sentinel) q
      = conv (abs c vc s q) := by
  exact h.degrade_upgrade_id' g vcOut red conv hred hsent hq

/-- fracdet at any permitted resolution = number of valid children / number of children
    (stated as the count; proved in Props/C02) -/
theorem fracdet_eq (c : Cfg) (vc : VCfg V) (s : State V) (h : Inv c vc s)
    (hv : vc.valid vc.sentinel = false) (g : Nat) (hg : g ≤ c.shift)
    (q : Nat) (hq : q < (C02.fracCfg c g).npix) :
    abs (C02.fracCfg c g) C02.fracVC (fracdetCounts c vc s g) q =
      ((List.range (2 ^ g)).filter fun j => vc.valid (abs c vc s (q * 2 ^ g + j))).length :=
  C02.fracdet_eq c vc s h hv g hg q hq

/-- at coverage resolution fracdet coincides with the coverage-fraction map -/
theorem fracdet_cov_eq_coverage_map (c : Cfg) (vc : VCfg V) (s : State V) (h : Inv c vc s)
    (hv : vc.valid vc.sentinel = false) (k : Nat) (hk : k < c.ncov) :
    (coverageCounts c vc s)[k]? =
      some (abs (C02.fracCfg c c.shift) C02.fracVC (fracdetCounts c vc s c.shift) k) :=
  C02.fracdet_cov_eq_coverageCounts c vc s h hv k hk

/-- non-vacuity: upgrade of a map with shuffled blocks -/
example : (upgradeMap (V := Int) ⟨3, 0⟩ ⟨-1, fun x => x != -1⟩ ⟨#[2, -1, -1], #[-1, 5, 7]⟩ 1).sp
    = #[-1, -1, 5, 5, 7, 7] := by decide +kernel

end C15
end HS
