/-
  Protocol dispatch: parse one line, run the model operation, print the observation.
  Unknown or malformed lines answer `bad-op` (never a silent default).
-/
import HealSparse.Model.Api
import HealSparse.Model.Valid
import HealSparse.Model.PackedDispatch
import HealSparse.Generated.OpsTable
import HealSparse.Model.ApiRes
import HealSparse.Model.Moc
import HealSparse.Model.SubMap
import HealSparse.Model.ApiFiles
import HealSparse.Model.ApiHealpix
import HealSparse.Model.Randoms
import HealSparse.Model.Text
namespace HS

structure World where
  pool : List (String × MapObj) := []
  packed : PackedWorld := {}
  mocs : List (String × List Nat) := []
  files : List (String × FileObj) := []
  hpfiles : List (String × HpFile) := []
  metas : List (String × List (String × String)) := []     -- user metadata per map name

def World.raw? (w : World) (n : String) : Option MapObj := (w.pool.find? (·.1 == n)).map (·.2)

/-- look a map up; a view is materialised from its parent's current storage -/
def World.get? (w : World) (n : String) : Option MapObj :=
  match w.raw? n with
  | none => none
  | some m =>
    match m.view with
    | none => some m
    | some (pn, i) =>
      match w.raw? pn with
      | none => none
      | some p =>
        -- the descriptor is resolved against whatever map now bears the parent's name: it is
        -- honoured only if its sentinel is still the value that map's storage holds in unset
        -- cells of field `i` (always the case unless the parent's name was rebound meanwhile)
        if m.sent != recField i (p.kind.blank p.sent) then none else
        match materializeView p pn i m.sent m.cache with
        | .ok v => if v.kind == m.kind && m.kind != .plain .bool then some v else none   -- same field dtype as when taken
        | .error _ => none

/-- store a map; storing through a view name writes the field column back into the parent -/
def World.put (w : World) (n : String) (m : MapObj) : World :=
  match (w.raw? n).bind (·.view), m.view with
  | some (pn, i), some _ =>
    match w.raw? pn with
    | some p =>
      let p' := writeBackView p i m
      { w with pool := (n, { m with st := ⟨#[], #[]⟩ }) :: (pn, p') ::
          w.pool.filter (fun e => e.1 != n && e.1 != pn) }
    | none => w
  | _, _ => { w with pool := (n, { m with view := none }) :: w.pool.filter (·.1 != n) }

/-- bind a name to a freshly produced map (`cfg`, every `r=` result, files read): the new object
    owns its storage whatever the name referred to before (a Python name is simply rebound;
    only IN-PLACE operations go through `put` and may write through a view) -/
def World.bind (w : World) (n : String) (m : MapObj) : World :=
  { w with pool := (n, { m with view := none }) :: w.pool.filter (·.1 != n) }

def parseKind (a : Args) : Option Kind :=
  match a.getD "kind" "" with
  | "plain" => (a.get? "dtype").bind parseDT |>.map .plain
  | "packed" => some .packed
  | "wide" => (a.nat? "maxbits").map fun mb => .wide ((mb - 1) / 8 + 1)
  | "rec" => do
      let fs ← (splitList (a.getD "fields" "")).mapM parseDT
      let pr ← a.nat? "primary"
      pure (.recd fs pr)
  | _ => none

def optVal (a : Args) (k : String) : Option (Option Val) :=
  match a.get? k with
  | none => some none
  | some "default" => some none
  | some s => (parseVal s).map some

def errLine (e : Err) : String := if e == .inexact then "inexact" else "err " ++ e.tag

def showState (m : MapObj) : String :=
  "cov=" ++ showList toString m.st.cov.toList ++ " sp=" ++ showVals m.st.sp.toList

def withMap (w : World) (a : Args) (k : MapObj → World × String) : World × String :=
  match a.pos with
  | n :: _ => match w.get? n with
    | some m => k m
    | none => (w, "bad-op:no-such-map")
  | [] => (w, "bad-op:no-map-name")

def opCfg (w : World) (a : Args) : World × String :=
    match a.pos, parseKind a, a.nat? "covord", a.nat? "spord", optVal a "sentinel",
          parseNats (a.getD "covpix" "_") with
    | n :: _, some kind, some co, some so, some sent, some cp =>
      match apiMakeEmpty co so kind sent cp with
      | .ok m => (w.bind n m, "ok")
      | .error e => (w, errLine e)
    | _, _, _, _, _, _ => (w, "bad-op:cfg")

def opUpd (w : World) (a : Args) : World × String :=
  withMap w a fun m =>
    let n := a.pos.headD ""
    match parseNats (a.getD "pix" "_") with
    | none => (w, "bad-op:pix")
    | some pix =>
      let r : Option (Option (List Val) × Bool) :=
        if a.flag "none" then some (none, true)
        else match a.get? "val", a.get? "vals" with
          | some v, _ => (parseVal v).map fun v => (some [v], true)
          | none, some vs => (parseVals vs).map fun vs => (some vs, false)
          | none, none => none
      match r with
      | none => (w, "bad-op:val")
      | some (vals, single) =>
        -- `vdtype=`: the values array deliberately has another dtype than the map → "Data-type mismatch"
        -- (checked after the empty-pixel early return, line 582-587)
        let mistyped := match a.get? "vdtype", m.kind with
          | some t, .plain dt => t != dtCode dt
          | some t, .packed => t != "b1"          -- a bit-packed map takes a boolean values array
          | some _, _ => true
          | none, _ => false
        if mistyped && !pix.isEmpty && !(a.getD "op" "replace" != "replace" && m.kind.isBool == false &&
            (a.getD "op" "" == "or" || a.getD "op" "" == "and") && !(m.kind.isIntegerMap && m.sent.isZero)) then
          (w.put n { m with cache := none }, errLine .value)
        else
        match apiUpdate m (a.getD "op" "replace") pix vals single with
        | .ok m' => (w.put n m', "ok")
        | .error e => (w.put n { m with cache := none }, errLine e)

def opUpdr (w : World) (a : Args) : World × String :=
  withMap w a fun m =>
    let n := a.pos.headD ""
    match parseRanges (a.getD "ranges" "_") with
    | none => (w, "bad-op:ranges")
    | some R =>
      let v? : Option (Option Val) :=
        if a.flag "none" then some none else ((a.get? "val").bind parseVal).map some
      match v? with
      | none => (w, "bad-op:val")
      | some v =>
        -- `path=slice|expand` (threshold rebound to -1 / 10^15) or `thr=n`: the switch itself,
        -- `np.sum(end - start) > PIXEL_RANGE_THRESHOLD`
        let total : Nat := R.foldl (fun acc ab => acc + (ab.2 - ab.1)) 0
        let slicePath := match a.nat? "thr" with
          | some t => decide (total > t)
          | none => a.getD "path" "slice" == "slice"
        match apiUpdateRanges m (a.getD "op" "replace") R v slicePath with
        | .ok m' => (w.put n m', "ok")
        | .error e => (w.put n { m with cache := none }, errLine e)

def opSop (w : World) (a : Args) : World × String :=
  withMap w a fun m =>
    let n := a.pos.headD ""
    let k? : Option Scalar :=
      match a.get? "bits", a.get? "k" with
      | some b, _ => (parseNats b).map .bits
      | none, some t =>
        if a.getD "ktype" "int" == "int" then t.toInt?.map .int else (parseDy t).map .flt
      | none, none => none
    match k? with
    | none => (w, "bad-op:k")
    | some k =>
      let inPlace := a.flag "inplace"
      let m0 := if inPlace then { m with cache := none } else m
      match apiScalarOp m (a.getD "op" "add") k with
      | .ok st =>
        if inPlace then (w.put n { m0 with st := st }, "ok")
        else (w.bind (a.getD "r" "tmp") { m with st := st, cache := none }, "ok")
      | .error e =>
        -- the cache reset happens only after the first validation checks (line 2376)
        let early := (match m.kind with | .recd _ _ => true | _ => false) || m.kind.isBool ||
          (intOnlyOp (a.getD "op" "add") && !m.kind.isIntegerMap) ||
          (!intOnlyOp (a.getD "op" "add") && (match m.kind with | .wide _ => true | _ => false))
        ((if inPlace && !early then w.put n m0 else w), errLine e)

def opMask (w : World) (a : Args) : World × String :=
  withMap w a fun m =>
    let n := a.pos.headD ""
    match w.get? (a.getD "by" "") with
    | none => (w, "bad-op:no-such-map")
    | some mk =>
      let bits := (a.get? "bits").bind String.toInt?
      let arr := (a.get? "bitarr").bind parseNats
      match apiApplyMask m mk bits arr with
      | .ok st =>
        if a.flag "inplace" then (w.put n { m with st := st, cache := none }, "ok")
        else (w.bind (a.getD "r" "tmp") { m with st := st, cache := none }, "ok")
      | .error e => (w, errLine e)

def opAstype (w : World) (a : Args) : World × String :=
  withMap w a fun m =>
    match (a.get? "dtype").bind parseDT, optVal a "sentinel" with
    | some dt, some sent =>
      (match apiAstype m dt sent with
       | .ok m' => (w.bind (a.getD "r" "tmp") m', "ok")
       | .error e => (w, errLine e))
    | _, _ => (w, "bad-op:astype")

def opPack (w : World) (a : Args) : World × String :=
  withMap w a fun m =>
    match apiAsBitPacked m with
    | .ok m' =>
      let r := a.getD "r" "tmp"
      let cur := ((w.metas.find? (·.1 == a.pos.headD "")).map (·.2)).getD []
      let w := w.bind r m'
      -- `metadata=self.metadata` (a packed source goes through copy(), which drops it)
      ({ w with metas := (r, if m.kind == .packed then [] else cur) :: w.metas.filter (·.1 != r) }, "ok")
    | .error e => (w, errLine e)

def opBop (w : World) (a : Args) : World × String :=
  withMap w a fun m =>
    let n := a.pos.headD ""
    let rhs? : Option BoolRhs :=
      match a.get? "const", a.get? "rhs" with
      | some "T", _ => some (.const true)
      | some "F", _ => some (.const false)
      | _, some r => (w.get? r).map .map
      | _, _ => none
    match rhs? with
    | none => (w, "bad-op:rhs")
    | some rhs =>
      let inPlace := a.flag "inplace"
      match apiBoolOp m (a.getD "op" "and") rhs inPlace with
      | .ok st =>
        if inPlace then (w.put n { m with st := st, cache := none }, "ok")
        else (w.bind (a.getD "r" "tmp") { m with st := st, cache := none }, "ok")
      | .error e => ((if inPlace && m.kind.isBool then w.put n { m with cache := none } else w), errLine e)

def opInv (w : World) (a : Args) : World × String :=
  withMap w a fun m =>
    let n := a.pos.headD ""
    match apiInvert m with
    | .ok st =>
      if a.flag "inplace" then (w.put n { m with st := st, cache := none }, "ok")
      else (w.bind (a.getD "r" "tmp") { m with st := st, cache := none }, "ok")
    | .error e => (w, errLine e)

def opBits (w : World) (a : Args) : World × String :=
  withMap w a fun m =>
    let n := a.pos.headD ""
    match parseNats (a.getD "pix" "_"), parseNats (a.getD "bits" "_") with
    | some pix, some bits =>
      (match apiSetBits m pix bits (a.getD "mode" "set" == "clear") with
       | .ok m' => (w.put n m', "ok")
       | .error e => (w, errLine e))
    | _, _ => (w, "bad-op:bits")

def opChk (w : World) (a : Args) : World × String :=
  withMap w a fun m =>
    match parseNats (a.getD "pix" "_"), parseNats (a.getD "bits" "_") with
    | some pix, some bits =>
      (match apiCheckBits m pix bits with
       | .ok l => (w, showBits l)
       | .error e => (w, errLine e))
    | _, _ => (w, "bad-op:chk")

def opCopy (w : World) (a : Args) : World × String :=
  withMap w a fun m => (w.bind (a.getD "r" "tmp") { m with cache := none }, "ok")

def opInfo (w : World) (a : Args) : World × String :=
  withMap w a fun m =>
    let dts : DT → String := fun dt => match dt with
      | .int b sg => (if sg then "i" else "u") ++ toString (b / 8)
      | .flt b => "f" ++ toString (b / 8)
      | .bool => "b1"
    let k := match m.kind with
      | .plain dt => "plain:" ++ dts dt
      | .packed => "packed"
      | .wide n => "wide:" ++ toString n
      | .recd fs pr => "rec:" ++ ",".intercalate (fs.map dts) ++ ":" ++ toString pr
    (w, s!"kind={k} covord={m.covord} spord={m.spord} sentinel={showVal m.sent}")

def opMop (w : World) (a : Args) : World × String :=
    let names := splitList (a.getD "maps" "_")
    match names.mapM w.get? with
    | none => (w, "bad-op:no-such-map")
    | some maps =>
      let nm := a.getD "name" ""
      let code := (maps.head?.map (·.kind.code)).getD ""
      let row? : Option OpRow :=
        if nm == "ufunc_union" || nm == "ufunc_intersection" then
          ((a.get? "filler").bind parseVal).map fun fv =>
            { name := nm, ufunc := a.getD "ufunc" "", dt := code, filler := fv,
              promoted := (if code == "u1w" then "u1" else code), union := nm == "ufunc_union",
              intOnly := false, fillFirst := false, dtypeOut := "" }
        else opsTable.find? fun r => r.name == nm && r.dt == code
      match row? with
      | none =>
        -- no row: the first map is of a kind the wrappers themselves reject / cannot handle
        (w, if maps.length < 2 then errLine .runtime else errLine .notImpl)
      | some row =>
        match apiMultiOp row.withSpec maps with
        | .ok m => (w.bind (a.getD "r" "tmp") m, "ok")
        | .error e => (w, errLine e)

def opDeg (w : World) (a : Args) : World × String :=
  withMap w a fun m =>
    match a.nat? "ord" with
    | none => (w, "bad-op:ord")
    | some ord =>
      let wm? : Option (Option MapObj) := match a.get? "w" with
        | none => some none
        | some n => (w.get? n).map some
      match wm? with
      | none => (w, "bad-op:no-such-map")
      | some wm =>
        match apiDegrade m ord (a.getD "red" "mean") wm with
        | .ok r => (w.bind (a.getD "r" "tmp") r, "ok")
        | .error e => (w, errLine e)

def opUpg (w : World) (a : Args) : World × String :=
  withMap w a fun m =>
    match a.nat? "ord" with
    | none => (w, "bad-op:ord")
    | some ord =>
      match apiUpgrade m ord with
      | .ok r => (w.bind (a.getD "r" "tmp") r, "ok")
      | .error e => (w, errLine e)

def opMoc (w : World) (a : Args) : World × String :=
  withMap w a fun m =>
    match validPixels m.c m.vc m.st with
    | none => (w, errLine .index)
    | some vp =>
      if vp.isEmpty then (w, errLine .value) else
      let u := mocWrite m.spord m.covord (vp.map Int.toNat)
      ({ w with mocs := (a.getD "f" "f", u) :: w.mocs.filter (·.1 != a.getD "f" "f") }, showNats u)

def opMocread (w : World) (a : Args) : World × String :=
    match (w.mocs.find? (·.1 == a.getD "f" "f")).map (·.2), a.nat? "covord" with
    | some u, some co =>
      let (mo, ps) := mocRead u
      (match apiMakeEmpty co mo (.plain .bool) none [] with
       | .ok e =>
         (match apiUpdate e "replace" ps (some [.bool true]) true with
          | .ok m => (w.bind (a.getD "r" "tmp") { m with cache := none }, "ok")
          | .error er => (w, errLine er))
       | .error er => (w, errLine er))
    | _, _ => (w, "bad-op:no-such-map")

def opSingle (w : World) (a : Args) : World × String :=
  withMap w a fun m =>
    match a.nat? "field", optVal a "sentinel" with
    | some i, some sent =>
      -- single-field maps of BOOLEAN record fields are not modelled (record fields are kept as numbers)
      if (match m.kind with | .recd fs _ => fs[i]? == some DT.bool | _ => false) then
        (w, "bad-op:single-of-boolean-field") else
      if a.flag "copy" then
        (match apiGetSingleCopy m i sent with
         | .ok r => (w.bind (a.getD "r" "tmp") r, "ok")
         | .error e => (w, errLine e))
      else
        (match singleSentinel m i sent with
         | .ok (dt, s) =>
           -- a view cannot re-sentinel the shared storage (ValueError after the `fix:` commit):
           -- for a non-primary field the storage's unset cells hold the field's default sentinel
           if (match m.kind with | .recd _ pr => i != pr | _ => false) && s != dt.defaultSentinel then
             (w, errLine .value) else
           let n := a.pos.headD ""
           let r := a.getD "r" "tmp"
           -- register the view descriptor (storage is always taken from the parent)
           ({ w with pool := (r, { m with kind := .plain dt, sent := s, st := ⟨#[], #[]⟩, cache := none,
                                          view := some (n, i) }) :: w.pool.filter (·.1 != r) }, "ok")
         | .error e => (w, errLine e))
    | _, _ => (w, "bad-op:single")

def opScov (w : World) (a : Args) : World × String :=
  withMap w a fun m =>
    match a.nat? "k" with
    | none => (w, "bad-op:k")
    | some k =>
      if k ≥ m.c.ncov then (w, errLine .index) else
      (w.bind (a.getD "r" "tmp") { m with st := singleCovpixMap m.c m.vc m.st k, cache := none }, "ok")

def opMeta (w : World) (a : Args) : World × String :=
  withMap w a fun _ =>
    let n := a.pos.headD ""
    let cur := ((w.metas.find? (·.1 == n)).map (·.2)).getD []
    let k := a.getD "k" ""
    ({ w with metas := (n, (k, a.getD "v" "") :: cur.filter (·.1 != k)) :: w.metas.filter (·.1 != n) }, "ok")

def opGetmeta (w : World) (a : Args) : World × String :=
  withMap w a fun _ =>
    let n := a.pos.headD ""
    let cur := ((w.metas.find? (·.1 == n)).map (·.2)).getD []
    (w, ((cur.find? (·.1 == a.getD "k" "")).map (·.2)).getD "none")

def opWrite (w : World) (a : Args) : World × String :=
  withMap w a fun m =>
    let n := a.pos.headD ""
    let cur := ((w.metas.find? (·.1 == n)).map (·.2)).getD []
    let fo := apiWrite m cur
    ({ w with files := (a.getD "f" "f", fo) :: w.files.filter (·.1 != a.getD "f" "f") }, "ok")

def opRead (w : World) (a : Args) : World × String :=
    match (w.files.find? (·.1 == a.getD "f" "f")).map (·.2) with
    | none => (w, "bad-op:no-such-map")
    | some fo =>
      let px? : Option (Option (List Nat)) := match a.get? "pixels" with
        | none => some none
        | some t => (parseNats t).map some
      match px? with
      | none => (w, "bad-op:pixels")
      | some px =>
        match apiRead fo px with
        | .ok m =>
          let r := a.getD "r" "tmp"
          let w := w.bind r m
          ({ w with metas := (r, fo.mdata) :: w.metas.filter (·.1 != r) }, "ok")
        | .error e => (w, errLine e)

def opCovread (w : World) (a : Args) : World × String :=
    match (w.files.find? (·.1 == a.getD "f" "f")).map (·.2) with
    | none => (w, "bad-op:no-such-map")
    | some fo => (w, showBits (readCoverage (cfgOf fo.covord fo.spord) fo.file))

def opFitsraw (w : World) (a : Args) : World × String :=
    -- COV / SPARSE extensions as astropy shows them (decoded by the harness): layout check
    -- with the verified checker and literal comparison with the model's file
    match (w.files.find? (·.1 == a.getD "f" "f")).map (·.2), parseInts (a.getD "cov" "_"),
          parseVals (a.getD "sp" "_") with
    | some fo, some cov, some sp =>
      (match fileKind fo with
       | none => (w, "bad-op:kind")
       | some kind =>
         let vc : VCfg Val := ⟨kind.blank fo.sentinel, kind.valid fo.sentinel⟩
         let s : State Val := ⟨cov.toArray, sp.toArray⟩
         let inv := invFailure (cfgOf fo.covord fo.spord) vc s
         let same := decide (s.cov = fo.file.cov ∧ s.sp = fo.file.data)
         (w, s!"inv={inv} same={if same then 1 else 0}"))
    | none, _, _ => (w, "bad-op:no-such-map")
    | _, _, _ => (w, "bad-op:fitsraw")

def opDor (w : World) (a : Args) : World × String :=
    match (w.hpfiles.find? (·.1 == a.getD "f" "f")).map (·.2), a.nat? "ord", a.nat? "covord" with
    | some hf, some ord, some co =>
      -- HEALPix-format input: convert, then degrade in memory (weight files are not allowed)
      if (a.get? "wf").isSome then (w, errLine .notImpl) else
      let r2n := (a.get? "r2n").bind parseNats |>.map List.toArray
      (match apiReadHealpix hf co r2n with
       | .error e => (w, errLine e)
       | .ok m =>
         match apiDegrade m ord (a.getD "red" "mean") none with
         | .ok d => (w.bind (a.getD "r" "tmp") { d with cache := none }, "ok")
         | .error e => (w, errLine e))
    | _, _, _ =>
    match (w.files.find? (·.1 == a.getD "f" "f")).map (·.2), a.nat? "ord" with
    | some fo, some ord =>
      let px? : Option (Option (List Nat)) := match a.get? "pixels" with
        | none => some none
        | some t => (parseNats t).map some
      let wf? : Option (Option FileObj) := match a.get? "wf" with
        | none => some none
        | some n => ((w.files.find? (·.1 == n)).map (·.2)).map some
      (match px?, wf? with
       | some px, some wf =>
         (match apiDegradeOnRead fo ord (a.getD "red" "mean") px wf with
          | .ok m =>
            let r := a.getD "r" "tmp"
            let w := w.bind r m
            ({ w with metas := (r, fo.mdata) :: w.metas.filter (·.1 != r) }, "ok")
          | .error e => (w, errLine e))
       | _, _ => (w, "bad-op:dor"))
    | none, _ => (w, "bad-op:no-such-map")
    | _, _ => (w, "bad-op:dor")

def opCat (w : World) (a : Args) : World × String :=
    let names := splitList (a.getD "files" "_")
    match names.mapM (fun n => (w.files.find? (·.1 == n)).map (·.2)) with
    | none => (w, "bad-op:no-such-map")
    | some fs =>
      match apiCat fs (a.nat? "covord") (a.flag "check") (a.flag "or") with
      | .ok fo => ({ w with files := (a.getD "f" "f", fo) :: w.files.filter (·.1 != a.getD "f" "f") }, "ok")
      | .error e => (w, errLine e)

def opFromhp (w : World) (a : Args) : World × String :=
    match (a.get? "dtype").bind parseDT, a.nat? "covord", a.nat? "spord", optVal a "sentinel",
          parseVals (a.getD "vals" "_") with
    | some dt, some co, some so, some sent, some vals =>
      let nest? : Option (List Val) :=
        if a.getD "nest" "1" == "1" then some vals
        else (parseNats (a.getD "r2n" "_")).map fun t =>
          (reorderRingToNest (fun i => rd t.toArray i 0) vals.toArray (.num 0 0)).toList
      (match nest? with
       | none => (w, "bad-op:r2n")
       | some nest =>
         match apiFromHealpix co so dt sent nest (a.getD "senttype" (if dt.isInt then "int" else "flt") == "int") with
         | .ok m => (w.bind (a.getD "r" "tmp") m, "ok")
         | .error e => (w, errLine e))
    | _, _, _, _, _ => (w, "bad-op:fromhp")

def opGenhp (w : World) (a : Args) : World × String :=
  withMap w a fun m =>
    -- exporting a BOOLEAN record field goes through its single-field map: not modelled
    if (match m.kind, a.nat? "key" with
        | .recd fs _, some i => fs[i]? == some DT.bool
        | _, _ => false) then (w, "bad-op:single-of-boolean-field") else
    let perm? : Option (Option (Array Nat × Array Nat)) :=
      if a.getD "nest" "1" == "1" then some none
      else match parseNats (a.getD "n2r" "_") with
        | some n2r =>
          let n2rA := n2r.toArray
          let r2nA := (List.range n2r.length).foldl (fun (acc : Array Nat) p => acc.setIfInBounds (rd n2rA p 0) p)
            (Array.replicate n2r.length 0)
          some (some (n2rA, r2nA))
        | none => none
    match perm? with
    | none => (w, "bad-op:n2r")
    | some perm =>
      match apiGenerateHealpix m (a.nat? "ord") (a.getD "red" "mean") (a.nat? "key") perm with
      | .ok l => (w, showVals l)
      | .error e => (w, errLine e)

def opInterp (w : World) (a : Args) : World × String :=
  withMap w a fun m =>
    let grp (s : String) : List String := s.splitOn ":"
    let nb? := (splitList (a.getD "nb" "_")).mapM fun g => (grp g).mapM String.toNat?
    let w? := (splitList (a.getD "w" "_")).mapM fun g => (grp g).mapM parseDy
    match nb?, w? with
    | some nb, some ws =>
      (match apiInterp m (List.zipWith List.zip nb ws) (a.flag "partial") with
       | .ok l => (w, showVals l)
       | .error e => (w, errLine e))
    | _, _ => (w, "bad-op:interp")

def opHpxwrite (w : World) (a : Args) : World × String :=
  withMap w a fun m =>
    match apiWriteHealpix m with
    | .ok f => ({ w with hpfiles := (a.getD "f" "f", f) :: w.hpfiles.filter (·.1 != a.getD "f" "f") }, "ok")
    | .error e => (w, errLine e)

def opHpximplicit (w : World) (a : Args) : World × String :=
    match (a.get? "dtype").bind parseDT, a.nat? "spord", parseVals (a.getD "vals" "_") with
    | some dt, some so, some vals =>
      ({ w with hpfiles := (a.getD "f" "f", .implicit so dt (a.getD "ordering" "NESTED" == "RING") vals) ::
                  w.hpfiles.filter (·.1 != a.getD "f" "f") }, "ok")
    | _, _, _ => (w, "bad-op:hpximplicit")

def opHpxread (w : World) (a : Args) : World × String :=
    match (w.hpfiles.find? (·.1 == a.getD "f" "f")).map (·.2), a.nat? "covord" with
    | some f, some co =>
      let r2n := (a.get? "r2n").bind parseNats |>.map List.toArray
      (match apiReadHealpix f co r2n with
       | .ok m => (w.bind (a.getD "r" "tmp") { m with cache := none }, "ok")
       | .error e => (w, errLine e))
    | none, _ => (w, "bad-op:no-such-map")
    | _, _ => (w, "bad-op:hpxread")

def opRand (w : World) (a : Args) : World × String :=
    -- random points: the draws, validity flags and geometry are recorded from the real run;
    -- the model recomputes what the bookkeeping / arithmetic must produce from them
    let n := (a.nat? "n").getD 0
    if a.getD "gen" "uniform" == "fast" then
      match parseNats (a.getD "vp" "_"), parseNats (a.getD "choice" "_"), parseNats (a.getD "sub" "_"),
            a.nat? "shift" with
      | some vp, some ch, some sub, some sh =>
        let ok := ch.all (fun p => vp.contains p) && sub.all (· < 2 ^ sh) && ch.length == n && sub.length == n
        if !ok then (w, "draws-out-of-range")
        else (w, s!"len={n} valid=1 det=1 starved=0 child={showNats (List.zipWith (fastChild sh) ch sub)}")
      | _, _, _, _ => (w, "bad-op:rand-fast")
    else
      let batches : List (List (Nat × Bool)) :=
        let bs := (a.getD "batches" "").splitOn ";" |>.filter (· != "")
        let rec go (bs : List String) (off : Nat) : List (List (Nat × Bool)) :=
          match bs with
          | [] => []
          | b :: rest =>
            let l := b.toList
            (l.zipIdx.map fun (ch, i) => (off + i, ch == '1')) :: go rest (off + l.length)
        go bs 0
      let parseIvs (t : String) : Option (List (Int × Int)) :=
        (splitList t).mapM fun r => match r.splitOn ":" with
          | [x, y] => do let x ← x.toInt?; let y ← y.toInt?; pure (x, y)
          | _ => none
      match parseIvs (a.getD "ivs" "_"), parseIvs (a.getD "rot" "_"), (a.get? "T").bind String.toInt?,
            (a.get? "thr").bind String.toInt? with
      | some ivs, some rot, some T, some thr =>
        let (_, win) := chooseWindow T thr ivs rot
        let sel := match rejectionLoop n batches with
          | some l => showNats l
          | none => "none"
        let wtxt := if a.flag "nowin" then "na" else s!"{win.1}:{win.2}"
        (w, s!"len={n} valid=1 det=1 starved=0 win={wtxt} sel={sel}")
      | _, _, _, _ => (w, "bad-op:rand-uniform")

def opGeom (w : World) (a : Args) : World × String :=
  withMap w a fun m =>
    -- a geometric shape = the pixel ranges it renders at the map resolution (from hpgeom) + a value
    let n := a.pos.headD ""
    match parseRanges (a.getD "ranges" "_") with
    | none => (w, "bad-op:ranges")
    | some R =>
      let op := a.getD "op" "or"
      let mode := a.getD "mode" "ior"
      let bits? := (a.get? "bits").bind parseNats
      let sc? := (a.get? "value").bind parseVal
      -- the operand handed to update_values_pix
      let operand : Except Err Val :=
        match m.kind, bits?, sc? with
        | .wide _, some bits, _ =>
          if bits.any (· ≥ m.maxbits) then .error .index else .ok (.bytes (bitvalsToPacked bits m.maxbits))
        | .wide _, none, some _ => .error .type          -- packing an int as a bit list
        | _, some _, _ => .error .value                   -- a bit list on a non-wide map
        | _, none, some v => .ok v
        | _, none, none => .error (.bad "value")
      let apply (target : MapObj) (opName : String) : Except Err MapObj := do
        let v ← operand
        apiUpdateRanges target opName R (some v) false
      if mode == "ior" then
        match apply m op with
        | .ok m' => (w.put n m', "ok")
        | .error e => (w.put n { m with cache := none }, errLine e)
      else if mode == "or" then
        match apply { m with cache := none } op with
        | .ok m' => (w.bind (a.getD "r" "tmp") { m' with cache := none }, "ok")
        | .error e => (w, errLine e)
      else if mode == "realize" then
        -- realize_geom: integer map; bit lists only on wide masks; integer value within the dtype
        let chk : Except Err Unit :=
          if !m.kind.isIntegerMap then .error .value
          else match bits?, sc?, m.kind with
            | some _, _, .wide _ => .ok ()
            | some _, _, _ => .error .value
            | none, some (.num k 0), .plain (.int b sg) => if wrapInt b sg k != k then .error .value else .ok ()
            | none, some (.num _ 0), _ => .error .value      -- integer value, boolean / packed map: np.iinfo(bool)
            | none, some (.bool _), _ => .error .value      -- np.iinfo of a boolean dtype
            | _, _, _ => .error .value
        match chk with
        | .error e => (w, errLine e)
        | .ok _ =>
          match apply m "or" with
          | .ok m' => (w.put n m', "ok")
          | .error e => (w.put n { m with cache := none }, errLine e)
      else if mode == "getmap" || mode == "getmaplike" then
        -- get_map: empty map of the requested type (wide: width from the largest bit), then the pixels
        let kindR : Except Err (Kind × Option Val) :=
          match bits? with
          | some bits =>
            (match m.kind, mode with
             | .wide nb, "getmaplike" =>
               if 8 * nb ≤ bits.foldl max 0 then .error .value else .ok (.wide nb, none)
             | .wide _, _ => .ok (.wide ((bits.foldl max 0 + 1 - 1) / 8 + 1), none)
             | _, _ => .error .value)
          | none =>
            (match m.kind with
             | .plain (.int b sg) => .ok (.plain (.int b sg), some (.num 0 0))
             | .plain .bool => .ok (.plain .bool, some (.bool false))
             | .packed => .ok (.plain .bool, some (.bool false))
             | .plain (.flt b) => .ok (.plain (.flt b), none)
             | .wide _ => .error .type
             | .recd _ _ => .error .runtime)
        match kindR with
        | .error e => (w, errLine e)
        | .ok (kind, sent) =>
          match apiMakeEmpty m.covord m.spord kind sent [] with
          | .error e => (w, errLine e)
          | .ok e =>
            let res := match bits? with
              | some bits => apiSetBits e (expand R) bits false
              | none => (match sc? with
                  | some v => apiUpdate e "replace" (expand R) (some [v]) true
                  | none => .error (.bad "value"))
            match res with
            | .ok r => (w.bind (a.getD "r" "tmp") { r with cache := none }, "ok")
            | .error er => (w, errLine er)
      else (w, "bad-op:mode")

def opSet (w : World) (a : Args) : World × String :=
  withMap w a fun m =>
    -- `m[a:b:c] = value`: `__setitem__` with a slice = update_values_pix(arange(a, b, c), value)
    let n := a.pos.headD ""
    match ((a.getD "slice" "").splitOn ":").map String.toNat? with
    | [some lo, some hi, some st] =>
      if st == 0 then (w, errLine .value) else
      let pix := (List.range ((hi - lo + st - 1) / st)).map fun i => lo + i * st
      let v? : Option (Option (List Val)) :=
        if a.flag "none" then some none else ((a.get? "val").bind parseVal).map fun v => some [v]
      (match v? with
       | none => (w, "bad-op:val")
       | some v =>
         match apiUpdate m "replace" pix v true with
         | .ok m' => (w.put n m', "ok")
         | .error e => (w.put n { m with cache := none }, errLine e))
    | _ => (w, "bad-op:slice")

def opVals (w : World) (a : Args) : World × String :=
  withMap w a fun m => (w, showVals ((List.range m.npix).map m.abs))

def opGet (w : World) (a : Args) : World × String :=
  withMap w a fun m =>
    let pix? : Option (List Nat) :=
      match a.get? "slice" with
      | some sl =>
        match (sl.splitOn ":").map String.toNat? with
        | [some lo, some hi, some st] =>
          if st == 0 then none
          else some ((List.range ((hi - lo + st - 1) / st)).map fun i => lo + i * st)
        | _ => none
      | none => parseNats (a.getD "pix" "_")
    let pix? : Option (Option (List Nat)) := match a.nat? "nsord" with
      | none => pix?.map some
      | some o => if o < m.spord then some none else pix?.map fun l => some (l.map (· >>> (2 * (o - m.spord))))
    match pix? with
    | none => (w, "bad-op:pix")
    | some none => (w, errLine .value)
    | some (some pix) => match apiGet m pix with
      | .ok vs =>
        if a.flag "vm" then (w, showBits (vs.map m.vc.valid)) else (w, showVals vs)
      | .error e => (w, errLine e)

def opValid (w : World) (a : Args) : World × String :=
  withMap w a fun m =>
    match validPixels m.c m.vc m.st with
    | some l => (w, showList toString (l.mergeSort (· ≤ ·)))
    | none => (w, errLine .index)

def opNvalid (w : World) (a : Args) : World × String :=
  withMap w a fun m =>
    -- `n_valid` with its cache (`_n_valid`)
    match m.cache with
    | some n => (w, toString n)
    | none =>
      if a.get? "path" == some "str" && m.kind == .packed then (w, "nocount") else
      let n := nValid m.vc m.st
      -- a view never caches the count: its storage changes whenever its parent is written
      -- (after the `fix:` commit; before it a view answered a stale count)
      if m.view.isSome then (w, toString n) else
      (w.put (a.pos.headD "") { m with cache := some n }, toString n)

def opCovmap (w : World) (a : Args) : World × String :=
  withMap w a fun m => (w, showNats (coverageCounts m.c m.vc m.st))

def opVpsc (w : World) (a : Args) : World × String :=
  withMap w a fun m =>
    match a.nat? "k" with
    | none => (w, "bad-op:k")
    | some k =>
      if k ≥ m.c.ncov then (w, errLine .index) else
      match validPixelsSingleCovpix m.c m.vc m.st k with
      | some l => (w, showList toString (l.mergeSort (· ≤ ·)))
      | none => (w, errLine .index)

def opFracdet (w : World) (a : Args) : World × String :=
  withMap w a fun m =>
    match a.get? "r", a.nat? "ord" with
    | some r, some ord =>
      if ord > m.spord || ord < m.covord then (w, errLine .value) else
      let g := 2 * (m.spord - ord)
      let fs := fracdetCounts m.c m.vc m.st g
      let sp : Array Val := fs.sp.map fun (n : Nat) => let x := dyNorm ((n : Nat) : Int) g; Val.num x.1 x.2
      (w.bind r { covord := m.covord, spord := ord, kind := .plain (.flt 64), sent := .num 0 0,
                  st := ⟨fs.cov, sp⟩ }, "ok")
    | _, _ => (w, "bad-op:fracdet")

def opCovmask (w : World) (a : Args) : World × String :=
  withMap w a fun m => (w, showBits (apiCovMask m))

def opDump (w : World) (a : Args) : World × String :=
  withMap w a fun m => (w, showState m)

def opState (w : World) (a : Args) : World × String :=
  withMap w a fun m =>
    -- arrays exported from the real object: check the layout with the verified checker,
    -- compute the dense view with the Lean `abs`, compare literally with the model state
    match parseInts (a.getD "cov" "_"), parseVals (a.getD "sp" "_") with
    | some cov, some sp =>
      let s : State Val := ⟨cov.toArray, sp.toArray⟩
      let inv := invFailure m.c m.vc s
      let lit := decide (s.cov = m.st.cov ∧ s.sp = m.st.sp)
      let dense := if inv == "ok" then showVals ((List.range m.npix).map (HS.abs m.c m.vc s)) else "-"
      let covm := if inv == "ok" then showBits ((List.range m.c.ncov).map (covered m.c s)) else "-"
      (w, s!"inv={inv} lit={if lit then 1 else 0} covmask={covm} abs={dense}")
    | _, _ => (w, "bad-op:state")

def opDrop (w : World) (a : Args) : World × String :=
  (match a.pos with
    | n :: _ => ({ w with pool := w.pool.filter (·.1 != n) }, "ok")
    | [] => (w, "bad-op:drop"))

def opReset (w : World) (a : Args) : World × String :=
  ({}, "ok")

/-- a malformed call of one of the kinds the library refuses before touching the map
    (`bad <map> k=<kind>`; the kinds are listed in harness/real.py `BAD_KINDS`): the model
    answers `err` and changes nothing.  An implementation that accepts such a call is not
    thereby in violation (drift policy); the layout of the real map is checked afterwards. -/
def opBad (w : World) (a : Args) : World × String :=
  withMap w a fun _ => (w, "err value")

def stepArgs (w : World) (op : String) (a : Args) : World × String :=
  match op with
  | "cfg" => opCfg w a
  | "upd" => opUpd w a
  | "updr" => opUpdr w a
  | "sop" => opSop w a
  | "mask" => opMask w a
  | "astype" => opAstype w a
  | "pack" => opPack w a
  | "bop" => opBop w a
  | "inv" => opInv w a
  | "bits" => opBits w a
  | "chk" => opChk w a
  | "copy" => opCopy w a
  | "info" => opInfo w a
  | "mop" => opMop w a
  | "deg" => opDeg w a
  | "upg" => opUpg w a
  | "moc" => opMoc w a
  | "mocread" => opMocread w a
  | "single" => opSingle w a
  | "scov" => opScov w a
  | "meta" => opMeta w a
  | "getmeta" => opGetmeta w a
  | "write" => opWrite w a
  | "read" => opRead w a
  | "covread" => opCovread w a
  | "fitsraw" => opFitsraw w a
  | "dor" => opDor w a
  | "cat" => opCat w a
  | "fromhp" => opFromhp w a
  | "genhp" => opGenhp w a
  | "interp" => opInterp w a
  | "hpxwrite" => opHpxwrite w a
  | "hpximplicit" => opHpximplicit w a
  | "hpxread" => opHpxread w a
  | "rand" => opRand w a
  | "geom" => opGeom w a
  | "set" => opSet w a
  | "vals" => opVals w a
  | "get" => opGet w a
  | "valid" => opValid w a
  | "nvalid" => opNvalid w a
  | "covmap" => opCovmap w a
  | "vpsc" => opVpsc w a
  | "fracdet" => opFracdet w a
  | "covmask" => opCovmask w a
  | "dump" => opDump w a
  | "state" => opState w a
  | "drop" => opDrop w a
  | "reset" => opReset w a
  | "bad" => opBad w a
  | _ => (w, "bad-op:unknown")

def step (w : World) (line : String) : World × String :=
  let toks := (line.trimAscii.toString.splitOn " ").filter (· != "")
  match toks with
  | [] => (w, "bad-op:empty")
  | op :: rest =>
    if op.startsWith "p." then
      let (pw, o) := stepPacked w.packed op (parseArgs rest)
      ({ w with packed := pw }, o)
    else stepArgs w op (parseArgs rest)

end HS
