"""C14 — record-array maps keep all fields under the validity of the primary field."""
import gen

PID = 'C14'
RULE = ("record maps with 2-4 fields of mixed float/int types, each field in turn as primary, default or custom "
        "sentinel, receive histories of whole-record updates (scalar record and arrays), None-clears, coverage growth "
        "in shuffled order, and per-field writes / clears through FRESHLY taken field views (m['f'] and "
        "get_single(copy=False)), including writes that would create new valid pixels (must be rejected, parent "
        "unchanged); after every step the parent (whole records, valid set, n_valid), every field view and every "
        "get_single(copy=True) map are compared with the Lean model; non-trivial = a write through a view after a "
        "clear or growth")
ASSUMPTIONS = ["views are taken immediately before use (a view kept across growth of the parent dangles: "
               "ndarray.resize(refcheck=False), memory safety is outside the model)"]


def histories(rng, tier):
    n = 300 if tier == 'quick' else 2500
    out = []
    for _ in range(n):
        c = gen.rand_cfg(rng, kinds=['rec'], max_npix=768, name='m')
        focus = rng.sample(range(c.ncov), min(c.ncov, rng.randint(1, 4)))
        h = [c.line()]
        written = []
        for _ in range(rng.randint(3, 9)):
            r = rng.random()
            if r < 0.5 or not written:
                ln = gen.upd_line(rng, c, focus=focus)
                h.append(ln)
                for t in ln.split():
                    if t.startswith('pix=') and t != 'pix=_':
                        written += [int(x) for x in t[4:].split(',')]
            elif c.single_field(rng) is None:
                continue
            else:
                f = c.single_field(rng)
                via = rng.choice(['getitem', 'get_single'])
                h.append('single m r=v field=%d via=%s' % (f, via))
                fc = gen.MapCfg('v', 'plain', c.covord, c.spord, dtype=c.fields[f])
                rr = rng.random()
                pix = rng.sample(written, min(len(written), rng.randint(1, 4)))
                if rr < 0.15:
                    pix = pix + gen.rand_pixels(rng, c, n=2)          # may hit invalid pixels -> rejected
                pix = list(dict.fromkeys(pix))
                ptxt = ','.join(map(str, pix))
                if rr < 0.3 and f == c.primary:
                    h += ['nvalid m', 'upd v op=replace none=1 pix=%s' % ptxt, 'nvalid m']
                elif rng.random() < 0.25 and pix:
                    # a pixel range through the view, on either side of the size threshold: a row over valid pixels
                    # only is accepted, one that also covers an invalid pixel must be refused on BOTH paths
                    a = min(pix)
                    b = a + rng.choice([1, 1, 2, 3])
                    h += ['nvalid m', 'updr v op=replace ranges=%d:%d val=%s path=%s' % (
                        a, min(b, c.npix), fc.val(rng), rng.choice(['slice', 'expand'])), 'nvalid m']
                elif rng.random() < 0.5:
                    h += ['nvalid m', 'upd v op=replace pix=%s val=%s' % (ptxt, fc.val(rng)), 'nvalid m']
                else:
                    h += ['nvalid m', 'upd v op=replace pix=%s vals=%s' % (ptxt, ','.join(fc.val(rng) for _ in pix)),
                          'nvalid m']
                h += ['state v', 'valid v']
            h += ['state m', 'valid m', 'nvalid m']
            if rng.random() < 0.5 and c.single_field(rng) is not None:
                f = c.single_field(rng)
                # sentinel override: honoured by the copy; a view cannot re-sentinel shared storage (refused
                # unless it is the value the storage holds; ignored for the primary field)
                so = rng.choice(['', '', ' sentinel=%s' % gen.MapCfg('x', 'plain', 0, 0, dtype=c.fields[f]).scalar_tok(rng)])
                # (w, k dropped first: a refused call must not leave an earlier, by now stale, view under the name)
                h += ['drop w', 'drop k',
                      'single m r=w field=%d%s' % (f, so), 'vals w', 'valid w', 'info w', 'state w',
                      'single m r=k field=%d copy=1%s' % (f, so), 'vals k', 'valid k', 'info k', 'state k']
                if written and rng.random() < 0.6:
                    # the copy is independent: a later write to the parent (on a pixel it already holds) must not
                    # show through it
                    q = rng.choice(written)
                    h += ['upd m op=replace pix=%d val=%s' % (q, c.val(rng)), 'vals k', 'valid k', 'state k']
            if written and rng.random() < 0.4:
                path = rng.choice(['pix', 'getitem_arr', 'getitem_int'])
                k = 1 if path == 'getitem_int' else min(3, len(written))
                h.append('get m pix=%s path=%s' % (','.join(map(str, rng.sample(written, k))), path))
            if written and rng.random() < 0.5:
                # the per-pixel validity mask of the record map itself (primary != sentinel: values BELOW a custom
                # sentinel are valid — seeded change C14g), by pixel and by position
                qs = rng.sample(written, min(4, len(written))) + gen.rand_pixels(rng, c, n=2)
                h.append('get m pix=%s path=%s vm=1' % (','.join(map(str, qs)), rng.choice(['pix', 'pix', 'pos'])))
        out.append(h)
    return out


def nontrivial(h):
    return any(ln.startswith('upd v') for ln in h)


def must_reject(line):
    """C14: writes through a field view that would create new valid pixels must be rejected"""
    t = line.split()
    return t[0] in ('upd', 'updr') and t[1] == 'v'
