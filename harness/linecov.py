"""Which lines of healsparse/ the correspondence runs execute (diagnostic, not a check).

  VERIF_LINECOV=<dir> ./check Cxx --no-lean      -> <dir>/Cxx.json  (executed lines per file)
  /venv/bin/python harness/linecov.py <dir>      -> per-file / per-function summary

Uses sys.monitoring (Python 3.12): LINE events for code objects whose file lies under the
healsparse package of the implementation under test; every location is disabled after
its first hit, so the overhead is small.
"""
import json
import os
import sys

TOOL = 4
_seen = {}


def start(pkgdir):
    mon = sys.monitoring
    mon.use_tool_id(TOOL, 'verif-linecov')
    pkgdir = os.path.realpath(pkgdir) + os.sep

    def on_line(code, line):
        fn = code.co_filename
        if fn.startswith(pkgdir):
            _seen.setdefault(fn[len(pkgdir):], set()).add(line)
        return mon.DISABLE

    mon.register_callback(TOOL, mon.events.LINE, on_line)
    mon.set_events(TOOL, mon.events.LINE)


def dump(path):
    os.makedirs(os.path.dirname(path), exist_ok=True)
    json.dump({k: sorted(v) for k, v in _seen.items()}, open(path, 'w'))


def executable_lines(path):
    """line -> enclosing function qualname, for every line that carries code."""
    src = open(path).read()
    top = compile(src, path, 'exec')
    out = {}

    def walk(code, qual):
        for _, _, ln in code.co_lines():
            if ln is not None and ln > 0:
                out.setdefault(ln, qual)
        for c in code.co_consts:
            if hasattr(c, 'co_lines'):
                walk(c, (qual + '.' if qual else '') + c.co_name)
    walk(top, '')
    # docstring-only / def lines are kept: they run at import, which the recorder sees too
    return out


def summary(covdir, pkgdir):
    hit = {}
    for f in sorted(os.listdir(covdir)):
        if f.endswith('.json'):
            for k, v in json.load(open(os.path.join(covdir, f))).items():
                hit.setdefault(k, set()).update(v)
    rows = []
    for rel in sorted(os.listdir(pkgdir)):
        if not rel.endswith('.py'):
            continue
        ex = executable_lines(os.path.join(pkgdir, rel))
        h = hit.get(rel, set())
        funcs = {}
        for ln, q in ex.items():
            t = funcs.setdefault(q, [0, 0, []])
            t[0] += 1
            if ln in h:
                t[1] += 1
            else:
                t[2].append(ln)
        tot = len(ex)
        got = sum(1 for ln in ex if ln in h)
        rows.append((rel, tot, got, funcs))
    return rows


def _ranges(ls):
    ls = sorted(ls)
    out, i = [], 0
    while i < len(ls):
        j = i
        while j + 1 < len(ls) and ls[j + 1] == ls[j] + 1:
            j += 1
        out.append(str(ls[i]) if i == j else "%d-%d" % (ls[i], ls[j]))
        i = j + 1
    return ','.join(out)


if __name__ == '__main__':
    covdir = sys.argv[1]
    pkg = os.path.join(os.environ.get('HS_REPO', '/repo'), 'healsparse')
    rows = summary(covdir, pkg)
    T = G = 0
    for rel, tot, got, funcs in rows:
        T += tot
        G += got
        print("%-28s %5d/%5d  %5.1f%%" % (rel, got, tot, 100.0 * got / max(tot, 1)))
        if '-v' in sys.argv:
            for q, (t, g, miss) in sorted(funcs.items()):
                if g < t:
                    print("      %-60s %3d/%3d  missing %s" % (q or '<module>', g, t, _ranges(miss)))
    print("%-28s %5d/%5d  %5.1f%%" % ('TOTAL', G, T, 100.0 * G / max(T, 1)))
