/-
  C06 — union/intersection map arithmetic folds exactly the inputs valid at each pixel.
  Property theorems only (helpers in HealSparse/Lemmas).
-/
import HealSparse.Lemmas.Core
import HealSparse.Lemmas.Coverage
import HealSparse.Lemmas.Valid
import HealSparse.Model.MultiOps
import HealSparse.Model.Api
import HealSparse.Generated.OpsTable
import HealSparse.Props.C04
import HealSparse.Props.C02
namespace HS
namespace C06

variable {V : Type} [DecidableEq V]

/-- **Refinement** of `_apply_operation`: for any list of well-formed maps of one
    configuration (any block orders, any coverage relations), any operation `f`, any start
    value: it never raises, the result is a well-formed map, its value at every pixel is the
    seeded fold over the inputs valid there under the union / intersection validity rule
    (sentinel otherwise), and its coverage mask is the union / intersection of the inputs'. -/
theorem multiOp_spec (c : Cfg) (vc : VCfg V) (maps : List (State V)) (f : V → V → V) (filler : V)
    (union fillFirst : Bool) (hInv : ∀ m ∈ maps, Inv c vc m) (hv : vc.valid vc.sentinel = false)
    (hne : maps ≠ []) (hff : fillFirst = true → union = false) :
    ∃ r, multiOp c vc maps f filler union fillFirst = some r ∧ Inv c vc r ∧
      (∀ p, p < c.npix → abs c vc r p = denseMulti c vc maps f filler union fillFirst p) ∧
      (∀ k, k < c.ncov → covered c r k =
          if union then maps.any (fun m => covered c m k) else maps.all (fun m => covered c m k)) := by
  sorry

/-- With a neutral start value the seeded fold is the operation folded, in list order, over
    exactly the valid inputs (what the property states for the named operations). -/
theorem fold_neutral (f : V → V → V) (e : V) (vs : List V) (hne : vs ≠ [])
    (hneutral : ∀ x ∈ vs, f e x = x) :
    vs.foldl f e = (vs.tail).foldl f (vs.headD e) := by
  sorry

/-- Union mode, neutral start: valid-at-some-input pixels hold the plain fold of the valid
    inputs; pixels valid in no input hold the sentinel. -/
theorem union_fold (c : Cfg) (vc : VCfg V) (maps : List (State V)) (f : V → V → V) (e : V)
    (hInv : ∀ m ∈ maps, Inv c vc m) (hv : vc.valid vc.sentinel = false) (hne : maps ≠ [])
    (hneutral : ∀ x, vc.valid x = true → f e x = x)
    (r : State V) (hr : multiOp c vc maps f e true false = some r) (p : Nat) (hp : p < c.npix) :
    abs c vc r p =
      match validInputs c vc maps p with
      | [] => vc.sentinel
      | v :: rest => rest.foldl f v := by
  sorry

/-- Intersection mode (neutral start or `fill_with_first_map`): pixels valid in all inputs
    hold the fold over all of them in list order; all others hold the sentinel. -/
theorem intersection_fold (c : Cfg) (vc : VCfg V) (maps : List (State V)) (f : V → V → V) (e : V)
    (fillFirst : Bool)
    (hInv : ∀ m ∈ maps, Inv c vc m) (hv : vc.valid vc.sentinel = false) (hne : maps ≠ [])
    (hneutral : fillFirst = false → ∀ x, vc.valid x = true → f e x = x)
    (r : State V) (hr : multiOp c vc maps f e false fillFirst = some r) (p : Nat) (hp : p < c.npix) :
    abs c vc r p =
      if (validInputs c vc maps p).length = maps.length then
        (match validInputs c vc maps p with
         | [] => vc.sentinel
         | v :: rest => rest.foldl f v)
      else vc.sentinel := by
  sorry

/-! ### obligations over the operation table extracted from the source -/

/-- membership of a cell in the carrier of dtype code `dt` -/
def inCarrier (dt : String) (x : Val) : Bool :=
  match parseDTCode dt, x with
  | some (.int b sg), .num n 0 => wrapInt b sg n == n
  | some (.flt _), .num _ _ => true
  | _, _ => false

/-- the row's filler is neutral for its ufunc on the whole carrier of the first map's dtype,
    and adding it does not change the array dtype (decided row by row) -/
def rowOk (r : OpRow) : Bool :=
  let dtArr := if r.dtypeOut == "" then (if r.dt == "u1w" then "u1" else r.dt) else r.dtypeOut
  r.promoted == dtArr &&
  (r.fillFirst ||
    match r.ufunc, (if r.dt == "u1w" then "u1" else r.dt), r.filler with
    | "add", _, .num 0 _ => true
    | "multiply", _, .num 1 0 => true
    | "bitwise_or", _, .num 0 _ => true
    | "bitwise_xor", _, .num 0 _ => true
    | "bitwise_and", dt, .num k 0 =>
        (match parseDTCode dt with
         | some (.int b sg) => k == (if sg then -1 else 2 ^ b - 1)
         | _ => false)
    | "fmax", dt, fl =>
        (match parseDTCode dt, fl with
         | some (.int b sg), .num k 0 => k == (if sg then -(2 ^ (b - 1)) else 0)
         | some (.flt _), .inf true => true
         | _, _ => false)
    | "fmin", dt, fl =>
        (match parseDTCode dt, fl with
         | some (.int b sg), .num k 0 => k == (if sg then 2 ^ (b - 1) - 1 else 2 ^ b - 1)
         | some (.flt _), .inf false => true
         | _, _ => false)
    | _, _, _ => false)

/-- soundness of the row check: an accepted row's filler is neutral on the carrier -/
theorem rowOk_sound (r : OpRow) (h : rowOk r = true) (hf : r.fillFirst = false) (hw : r.dt ≠ "u1w")
    (dt : DT) (hdt : parseDTCode r.dt = some dt) (x : Val) (hx : inCarrier r.dt x = true) :
    ufuncCell r.ufunc dt r.filler x = x := by
  sorry

/-- **generated obligation**: every row of the table extracted from /repo's operations.py
    passes the check (re-proved on every run; a changed filler breaks this proof) -/
theorem opsTable_ok : opsTable.all rowOk = true := by
  sorry

/-- the table covers the sixteen named operations for every numeric dtype and wide masks -/
theorem opsTable_complete :
    ∀ nm ∈ ["sum_union", "sum_intersection", "product_union", "product_intersection",
            "or_union", "or_intersection", "and_union", "and_intersection", "xor_union",
            "xor_intersection", "max_union", "max_intersection", "min_union", "min_intersection",
            "divide_intersection", "floor_divide_intersection"],
      ∀ dt ∈ ["i1", "i2", "i4", "i8", "u1", "u2", "u4", "u8", "f4", "f8", "u1w"],
        opsTable.any (fun r => r.name == nm && r.dt == dt) = true := by
  sorry

/-- witness: the pre-fix filler of `max_union` (0) is not neutral — all-negative inputs gave 0 -/
example : ufuncCell "fmax" (.int 32 true) (.num 0 0) (.num (-5) 0) ≠ .num (-5) 0 := by decide

/-- non-vacuity: two maps with different block orders and partially overlapping coverage -/
example : Inv (V := Int) ⟨3, 1⟩ ⟨-1, fun x => x != -1⟩ ⟨#[4, -2, -2], #[-1, -1, 7, -1, -1, 9]⟩ ∧
    Inv (V := Int) ⟨3, 1⟩ ⟨-1, fun x => x != -1⟩ ⟨#[2, 2, -4], #[-1, -1, 3, 4, -5, -1]⟩ := by decide

end C06
end HS
