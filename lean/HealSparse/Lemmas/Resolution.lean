/-
  Helper lemmas for changing resolution (`Model/Resolution.lean`), used by Props/C07 and
  Props/C15.  `degradeMap`, `degradeMapW` and `upgradeMap` all lay a new storage out on the
  block table of the source map (`Relayout`); the layout facts are proved once for that shape
  (generalising the fracdet lemmas of `Lemmas/Valid.lean`), then the cell arithmetic of each
  operation is added.
-/
import HealSparse.Lemmas.Core
import HealSparse.Lemmas.Coverage
import HealSparse.Lemmas.Valid
import HealSparse.Lemmas.Ranges
import HealSparse.Model.Resolution
namespace HS
variable {V W : Type}

/-! ### a map laid out on the block table of another map -/

/-- `s'` (configuration `cOut`, same coverage resolution) has its index rebuilt from the block
    table of `s`, one storage block per block of `s`, and a blank overflow block. -/
structure Relayout (c : Cfg) (s : State V) (cOut : Cfg) (vw : VCfg W) (s' : State W) : Prop where
  hn : cOut.ncov = c.ncov
  hcov : s'.cov = initializePixels cOut (emptyCov cOut) (blockToCov c s).toList
  hsize : s'.sp.size = (nblk c s + 1) * cOut.nfine
  hovf : ∀ i, i < cOut.nfine → s'.sp[i]? = some vw.sentinel

theorem Relayout.bs_eq {c cOut : Cfg} {vw : VCfg W} {s : State V} {s' : State W}
    (r : Relayout c s cOut vw s') (k : Nat) :
    blockStart cOut s' k = blockStart cOut (makeEmpty cOut vw (blockToCov c s).toList) k := by
  unfold blockStart
  rw [r.hcov]
  rfl

/-- decomposition of a pixel number into coverage pixel and offset -/
theorem pix_decomp (c : Cfg) {q : Nat} (hq : q < c.npix) :
    ∃ K r, K < c.ncov ∧ r < c.nfine ∧ q = K * c.nfine + r ∧ q >>> c.shift = K := by
  have hn := c.nfine_pos
  refine ⟨q / c.nfine, q % c.nfine, ?_, Nat.mod_lt _ hn, ?_, shift_eq_div c q⟩
  · rw [← shift_eq_div]; exact covpix_lt c q hq
  · rw [Nat.mul_comm]; exact (Nat.div_add_mod _ _).symm

section relayout
variable [DecidableEq V] [DecidableEq W] {c cOut : Cfg} {vc : VCfg V} {vw : VCfg W}
  {s : State V} {s' : State W}

theorem Relayout.inv (r : Relayout c s cOut vw s') (h : Inv c vc s) : Inv cOut vw s' := by
  have hme := inv_makeEmpty' cOut vw (blockToCov c s).toList h.blockToCov_nodup
    (by intro k hk; rw [r.hn]; exact h.blockToCov_lt k hk)
  refine inv_of_cov_eq (s' := s') (vw := vw) hme r.hcov ?_ r.hovf
  rw [r.hsize]
  simp [makeEmpty, blockToCov_size]

omit [DecidableEq W] in
theorem Relayout.bs_mem (r : Relayout c s cOut vw s') (h : Inv c vc s) {k b : Nat}
    (hget : (blockToCov c s)[b]? = some k) :
    blockStart cOut s' k = (((b + 1) * cOut.nfine : Nat) : Int) := by
  rw [r.bs_eq]
  exact makeEmpty_blockStart_mem cOut vw _ k b
    (by rw [r.hn]; exact (h.blockToCov_some hget).2.1) h.blockToCov_nodup
    (by rw [Array.getElem?_toList]; exact hget)

omit [DecidableEq W] in
theorem Relayout.bs_not_mem (r : Relayout c s cOut vw s') (h : Inv c vc s) {k : Nat}
    (hk : k < c.ncov) (hc : covered c s k = false) : blockStart cOut s' k = 0 := by
  rw [r.bs_eq]
  refine makeEmpty_blockStart_not_mem cOut vw _ k (by rw [r.hn]; exact hk) ?_
  intro hm
  obtain ⟨b, hb⟩ := List.getElem?_of_mem hm
  rw [Array.getElem?_toList] at hb
  have := (h.covered_iff_blockToCov hk).2 ⟨b, hb⟩
  rw [hc] at this
  cases this

omit [DecidableEq W] in
/-- the coverage mask is that of the source -/
theorem Relayout.cov_eq (r : Relayout c s cOut vw s') (h : Inv c vc s) {k : Nat}
    (hk : k < c.ncov) : covered cOut s' k = covered c s k := by
  cases hc : covered c s k with
  | true =>
    obtain ⟨b, hget⟩ := (h.covered_iff_blockToCov hk).1 hc
    rw [covered_eq_true_iff, r.bs_mem h hget]
    exact_mod_cast le_succ_mul _ _
  | false =>
    rw [covered_eq_false_iff, r.bs_not_mem h hk hc]
    exact_mod_cast cOut.nfine_pos

omit [DecidableEq W] in
/-- a pixel of a covered coverage pixel reads the same block number as in the source -/
theorem Relayout.abs_covered (r : Relayout c s cOut vw s') (h : Inv c vc s) {K b j : Nat}
    (hK : K < c.ncov) (hb : b < nblk c s)
    (hbs : blockStart c s K = (((b + 1) * c.nfine : Nat) : Int)) (hj : j < cOut.nfine) :
    abs cOut vw s' (K * cOut.nfine + j) = rd s'.sp ((b + 1) * cOut.nfine + j) vw.sentinel :=
  abs_block cOut vw s' (r.bs_mem h (h.blockToCov_of_bs hK hb hbs)) hj

theorem Relayout.abs_uncovered (r : Relayout c s cOut vw s') (h : Inv c vc s) {q : Nat}
    (hq : q < cOut.npix) (hc : covered c s (q >>> cOut.shift) = false) :
    abs cOut vw s' q = vw.sentinel := by
  refine (r.inv h).abs_uncovered hq ?_
  rw [r.cov_eq h (by rw [← r.hn]; exact covpix_lt cOut q hq)]
  exact hc

end relayout

/-! ### degrade: arithmetic of children -/

theorem degCfg_nfine (c : Cfg) {g : Nat} (hg : g ≤ c.shift) : (degCfg c g).nfine * 2 ^ g = c.nfine :=
  Nat.pow_sub_mul_pow 2 hg

/-- child `j` of coarse pixel `K*nfine' + r` is fine pixel `K*nfine + (r*2^g + j)` -/
theorem child_split (c : Cfg) {g : Nat} (hg : g ≤ c.shift) {K r j : Nat}
    (hr : r < (degCfg c g).nfine) (hj : j < 2 ^ g) :
    (K * (degCfg c g).nfine + r) * 2 ^ g + j = K * c.nfine + (r * 2 ^ g + j) ∧
      r * 2 ^ g + j < c.nfine := by
  have hnn := degCfg_nfine c hg
  constructor
  · rw [← hnn, Nat.add_mul, Nat.mul_assoc, Nat.add_assoc]
  · rw [← hnn]; exact mul_add_lt_mul hr hj

/-- the children of an in-range coarse pixel are in range and lie in its coverage pixel -/
theorem child_facts (c : Cfg) {g : Nat} (hg : g ≤ c.shift) {q j : Nat}
    (hq : q < (degCfg c g).npix) (hj : j < 2 ^ g) :
    q * 2 ^ g + j < c.npix ∧ (q * 2 ^ g + j) >>> c.shift = q >>> (c.shift - g) := by
  obtain ⟨K, r, hK, hr, rfl, hsh⟩ := pix_decomp (degCfg c g) hq
  obtain ⟨e1, e2⟩ := child_split c hg (K := K) hr hj
  have hsh' : (K * (degCfg c g).nfine + r) >>> (c.shift - g) = K := hsh
  rw [e1, hsh']
  exact ⟨mul_add_lt_mul hK e2, by rw [shift_eq_div, (mul_add_div_mod e2).1]⟩

/-! ### the regrouped storage shared by `degradeMap` and `degradeMapW` -/

/-- output cell `r` = `f r`, overflow block reset; index rebuilt from the block table -/
def regroup (c : Cfg) (s : State V) (g : Nat) (f : Nat → W) (sentOut : W) : State W :=
  { cov := initializePixels (degCfg c g) (emptyCov (degCfg c g)) (blockToCov c s).toList
    sp := (Array.range (s.sp.size / 2 ^ g)).map fun r =>
      if r < (degCfg c g).nfine then sentOut else f r }

theorem degradeMap_eq (c : Cfg) (vc : VCfg V) (s : State V) (g : Nat) (red : List V → W)
    (sentOut : W) :
    degradeMap c vc s g red sentOut = regroup c s g (fun r =>
      red ((List.range (2 ^ g)).map fun j => rd s.sp (r * 2 ^ g + j) vc.sentinel)) sentOut := rfl

theorem degradeMapW_eq {X : Type} (c : Cfg) (vc : VCfg V) (s : State V) (g : Nat) (wv : Array X)
    (zero : X) (red : List (V × X) → W) (sentOut : W) :
    degradeMapW c vc s g wv zero red sentOut = regroup c s g (fun r =>
      red ((List.range (2 ^ g)).map fun j =>
        (rd s.sp (r * 2 ^ g + j) vc.sentinel, rd wv (r * 2 ^ g + j) zero))) sentOut := rfl

theorem regroup_get (c : Cfg) (s : State V) (g : Nat) (f : Nat → W) (sentOut : W) {R : Nat}
    (hR : R < s.sp.size / 2 ^ g) :
    (regroup c s g f sentOut).sp[R]? =
      some (if R < (degCfg c g).nfine then sentOut else f R) := by
  simp [regroup, hR]

section regroup
variable [DecidableEq V] [DecidableEq W] {c : Cfg} {vc : VCfg V} {s : State V} {g : Nat}

theorem Inv.deg_size (h : Inv c vc s) (hg : g ≤ c.shift) :
    s.sp.size / 2 ^ g = (nblk c s + 1) * (degCfg c g).nfine := h.fracdet_size hg

omit [DecidableEq W] in
theorem Inv.regroup_relayout (h : Inv c vc s) (hg : g ≤ c.shift) (f : Nat → W) (vw : VCfg W) :
    Relayout c s (degCfg c g) vw (regroup c s g f vw.sentinel) where
  hn := rfl
  hcov := rfl
  hsize := by
    rw [← h.deg_size hg]
    simp [regroup]
  hovf := by
    intro i hi
    have hR : i < s.sp.size / 2 ^ g := by
      rw [h.deg_size hg]; exact Nat.lt_of_lt_of_le hi (le_succ_mul _ _)
    rw [regroup_get c s g f _ hR, if_pos hi]

theorem Inv.regroup_abs_uncovered (h : Inv c vc s) (hg : g ≤ c.shift) (f : Nat → W)
    (vw : VCfg W) {q : Nat} (hq : q < (degCfg c g).npix)
    (hc : covered c s (q >>> (c.shift - g)) = false) :
    abs (degCfg c g) vw (regroup c s g f vw.sentinel) q = vw.sentinel :=
  (h.regroup_relayout hg f vw).abs_uncovered h hq hc

omit [DecidableEq W] in
/-- a covered coarse pixel reads output cell `R`, whose input run is exactly the cells of the
    children of the pixel, in order -/
theorem Inv.regroup_abs_covered (h : Inv c vc s) (hg : g ≤ c.shift) (f : Nat → W)
    (vw : VCfg W) {q : Nat} (hq : q < (degCfg c g).npix)
    (hc : covered c s (q >>> (c.shift - g)) = true) :
    ∃ R, abs (degCfg c g) vw (regroup c s g f vw.sentinel) q = f R ∧
      ∀ j, j < 2 ^ g → q * 2 ^ g + j < c.npix ∧
        covered c s ((q * 2 ^ g + j) >>> c.shift) = true ∧
        R * 2 ^ g + j = idxOf c s (q * 2 ^ g + j) := by
  have r := h.regroup_relayout hg f vw
  have hch := fun j hj => child_facts c hg hq (j := j) hj
  obtain ⟨K, r0, hK, hr, rfl, hsh⟩ := pix_decomp (degCfg c g) hq
  have hsh' : (K * (degCfg c g).nfine + r0) >>> (c.shift - g) = K := hsh
  rw [hsh'] at hc
  obtain ⟨b, hb, hbs⟩ := h.covered_blk hK hc
  refine ⟨(b + 1) * (degCfg c g).nfine + r0, ?_, ?_⟩
  · rw [r.abs_covered h hK hb hbs hr]
    have hR := blk_cell_range (m := nblk c s) hb hr
    unfold rd
    rw [regroup_get c s g f _ (by rw [h.deg_size hg]; exact hR.2), if_neg (by omega)]
    rfl
  · intro j hj
    obtain ⟨h1, h2⟩ := hch j hj
    refine ⟨h1, by rw [h2, hsh']; exact hc, ?_⟩
    obtain ⟨e1, e2⟩ := child_split c hg (K := K) hr hj
    unfold idxOf
    rw [e1, lookup_block c s hbs e2, Int.toNat_natCast, ← degCfg_nfine c hg,
      Nat.add_mul, Nat.mul_assoc, Nat.add_assoc]

/-- `degrade_spec` -/
theorem Inv.degrade_spec' (h : Inv c vc s) (hg : g ≤ c.shift) (vcOut : VCfg W)
    (red : List V → W) :
    Inv (degCfg c g) vcOut (degradeMap c vc s g red vcOut.sentinel) ∧
    (∀ q, q < (degCfg c g).npix →
        abs (degCfg c g) vcOut (degradeMap c vc s g red vcOut.sentinel) q
          = if covered c s (q >>> (c.shift - g)) then red (childrenVals c vc s g q)
            else vcOut.sentinel) ∧
    (∀ k, k < c.ncov →
        covered (degCfg c g) (degradeMap c vc s g red vcOut.sentinel) k = covered c s k) := by
  rw [degradeMap_eq]
  have r := h.regroup_relayout hg (fun r =>
      red ((List.range (2 ^ g)).map fun j => rd s.sp (r * 2 ^ g + j) vc.sentinel)) vcOut
  refine ⟨r.inv h, ?_, fun k hk => r.cov_eq h hk⟩
  intro q hq
  split
  · rename_i hc
    obtain ⟨R, hR, hch⟩ := h.regroup_abs_covered hg _ vcOut hq hc
    rw [hR]
    show red _ = red _
    congr 1
    unfold childrenVals
    apply List.map_congr_left
    intro j hj
    rw [(hch j (List.mem_range.1 hj)).2.2]
    rfl
  · rename_i hc
    exact h.regroup_abs_uncovered hg _ vcOut hq (by simpa using hc)

/-- `degrade_masked` -/
theorem Inv.degrade_masked' (h : Inv c vc s) (hg : g ≤ c.shift) (vcOut : VCfg W)
    (redV : List V → W) (hv : vc.valid vc.sentinel = false) (hempty : redV [] = vcOut.sentinel)
    {q : Nat} (hq : q < (degCfg c g).npix) :
    abs (degCfg c g) vcOut
        (degradeMap c vc s g (fun l => redV (l.filter vc.valid)) vcOut.sentinel) q
      = if (childrenVals c vc s g q).any vc.valid
        then redV ((childrenVals c vc s g q).filter vc.valid)
        else vcOut.sentinel := by
  rw [(h.degrade_spec' hg vcOut _).2.1 q hq]
  cases hc : covered c s (q >>> (c.shift - g)) with
  | false =>
    have hall : ∀ x ∈ childrenVals c vc s g q, vc.valid x = false := by
      intro x hx
      unfold childrenVals at hx
      obtain ⟨j, hj, rfl⟩ := List.mem_map.1 hx
      obtain ⟨h1, h2⟩ := child_facts c hg hq (List.mem_range.1 hj)
      rw [h.abs_uncovered h1 (by rw [h2]; exact hc)]
      exact hv
    have hany : (childrenVals c vc s g q).any vc.valid = false := by
      rw [List.any_eq_false]
      intro x hx
      rw [hall x hx]
      exact Bool.false_ne_true
    rw [hany]
  | true =>
    cases ha : (childrenVals c vc s g q).any vc.valid with
    | true => rfl
    | false =>
      have hnil : (childrenVals c vc s g q).filter vc.valid = [] := by
        rw [List.filter_eq_nil_iff]
        exact List.any_eq_false.1 ha
      simp only [if_true, hnil, hempty]
      rfl

/-- weighted `degrade_spec` -/
theorem Inv.degradeW_spec' {X : Type} (h : Inv c vc s) (hg : g ≤ c.shift) (vcOut : VCfg W)
    (wv : Array X) (zero : X) (wOf : Nat → X) (red : List (V × X) → W)
    (hw : ∀ p, p < c.npix → covered c s (p >>> c.shift) = true →
      rd wv (idxOf c s p) zero = wOf p) :
    Inv (degCfg c g) vcOut (degradeMapW c vc s g wv zero red vcOut.sentinel) ∧
    (∀ q, q < (degCfg c g).npix →
        abs (degCfg c g) vcOut (degradeMapW c vc s g wv zero red vcOut.sentinel) q
          = if covered c s (q >>> (c.shift - g))
            then red ((List.range (2 ^ g)).map fun j =>
                   (abs c vc s (q * 2 ^ g + j), wOf (q * 2 ^ g + j)))
            else vcOut.sentinel) := by
  rw [degradeMapW_eq]
  have r := h.regroup_relayout hg (fun r =>
      red ((List.range (2 ^ g)).map fun j =>
        (rd s.sp (r * 2 ^ g + j) vc.sentinel, rd wv (r * 2 ^ g + j) zero))) vcOut
  refine ⟨r.inv h, ?_⟩
  intro q hq
  split
  · rename_i hc
    obtain ⟨R, hR, hch⟩ := h.regroup_abs_covered hg _ vcOut hq hc
    rw [hR]
    show red _ = red _
    congr 1
    apply List.map_congr_left
    intro j hj
    obtain ⟨h1, h2, h3⟩ := hch j (List.mem_range.1 hj)
    rw [h3, hw _ h1 h2]
    rfl
  · rename_i hc
    exact h.regroup_abs_uncovered hg _ vcOut hq (by simpa using hc)

end regroup

/-! ### gathered weights -/

section gather
variable [DecidableEq V] {c : Cfg} {vc : VCfg V} {s : State V}

/-- the valid pixels address pairwise distinct cells -/
theorem Inv.idxOf_inj_valid (h : Inv c vc s) (hv : vc.valid vc.sentinel = false) {p p' : Nat}
    (hp : p < c.npix) (hval : vc.valid (abs c vc s p) = true) (hp' : p' < c.npix)
    (hc' : covered c s (p' >>> c.shift) = true) (he : idxOf c s p = idxOf c s p') : p = p' := by
  have hc := h.covered_of_valid hv hp hval
  refine h.lookup_inj hp hp' hc ?_
  rw [(h.idxOf_covered hp hc).2.2, (h.idxOf_covered hp' hc').2.2, he]

theorem Inv.gatherWeights_spec' {X : Type} (h : Inv c vc s) (hv : vc.valid vc.sentinel = false)
    (wAt : Nat → X) (zero : X) :
    ∃ wv, gatherWeights c vc s wAt zero = some wv ∧ wv.size = s.sp.size ∧
      ∀ p, p < c.npix → covered c s (p >>> c.shift) = true →
        rd wv (idxOf c s p) zero = if vc.valid (abs c vc s p) then wAt p else zero := by
  unfold gatherWeights
  rw [h.validPixels_eq hv]
  simp only [Option.map_some]
  generalize hL : (validCells vc s).map (pixOfCell c s) = L
  have hmem : ∀ p, p ∈ L ↔ p < c.npix ∧ vc.valid (abs c vc s p) = true := by
    intro p; rw [← hL]; exact h.mem_validCells_map hv p
  have hnd : L.Nodup := by rw [← hL]; exact h.nodup_validCells_map hv
  have e : (L.map fun p => ((p : Nat) : Int)).foldl
        (fun a p => a.setIfInBounds (idxOf c s p.toNat) (wAt p.toNat))
        (Array.replicate s.sp.size zero)
      = (L.map fun p => (idxOf c s p, p)).foldl
        (fun a (kv : Nat × Nat) => a.setIfInBounds kv.1 (wAt kv.2))
        (Array.replicate s.sp.size zero) := by
    rw [List.foldl_map, List.foldl_map]
    simp only [Int.toNat_natCast]
  rw [e]
  refine ⟨_, rfl, ?_, ?_⟩
  · rw [foldl_set_size (fun kv : Nat × Nat => wAt kv.2)]
    simp
  · intro p hp hc
    have hnd' : ((L.map fun p => (idxOf c s p, p)).map (·.1)).Nodup := by
      rw [List.map_map]
      apply nodup_map_of_inj_on hnd
      intro a ha b hb he
      have ha' := (hmem a).1 ha
      have hb' := (hmem b).1 hb
      exact h.idxOf_inj_valid hv ha'.1 ha'.2 hb'.1 (h.covered_of_valid hv hb'.1 hb'.2) he
    have hlt := (h.idxOf_covered hp hc).2.1
    cases hval : vc.valid (abs c vc s p) with
    | true =>
      have hin : (idxOf c s p, p) ∈ L.map fun p => (idxOf c s p, p) :=
        List.mem_map.2 ⟨p, (hmem p).2 ⟨hp, hval⟩, rfl⟩
      have := foldl_set_of_mem (fun kv : Nat × Nat => wAt kv.2) _
        (Array.replicate s.sp.size zero) hnd' _ hin (by simpa using hlt)
      unfold rd
      rw [this]
      rfl
    | false =>
      have := foldl_set_of_not_mem (fun kv : Nat × Nat => wAt kv.2)
        (L.map fun p => (idxOf c s p, p)) (Array.replicate s.sp.size zero) (idxOf c s p) (by
          intro kv hkv he
          obtain ⟨p', hp', rfl⟩ := List.mem_map.1 hkv
          have hp'' := (hmem p').1 hp'
          have := h.idxOf_inj_valid hv hp''.1 hp''.2 hp hc he
          rw [this, hval] at hp''
          exact Bool.false_ne_true hp''.2)
      unfold rd
      rw [this, Array.getElem?_replicate, if_pos hlt]
      rfl

end gather

/-! ### re-housing -/

theorem stageList_false_map {W' : Type} (L : List Nat) (φ : Nat → W') :
    stageList false (L.map fun p => (p, φ p)) = L.map fun p => (p, some (φ p)) := by
  simp [stageList, List.map_map, Function.comp_def]

section rehouse
variable [DecidableEq V] {c : Cfg} {vc : VCfg V} {s : State V}

/-- re-housing never raises, yields a well-formed map, copies every valid pixel and leaves the
    sentinel everywhere else -/
theorem Inv.rehouse_abs' (h : Inv c vc s) (hv : vc.valid vc.sentinel = false)
    (cNew : Cfg) (hn : cNew.npix = c.npix) :
    ∃ s', rehouseMap c cNew vc s = some s' ∧ Inv cNew vc s' ∧
      ∀ p, p < c.npix → abs cNew vc s' p =
        if vc.valid (abs c vc s p) = true then abs c vc s p else vc.sentinel := by
  unfold rehouseMap
  rw [h.validPixels_eq hv]
  simp only [Option.map_some]
  generalize hL : (validCells vc s).map (pixOfCell c s) = L
  have hmem : ∀ p, p ∈ L ↔ p < c.npix ∧ vc.valid (abs c vc s p) = true := by
    intro p; rw [← hL]; exact h.mem_validCells_map hv p
  have hnd : L.Nodup := by rw [← hL]; exact h.nodup_validCells_map hv
  have e1 : ((L.map fun p => ((p : Nat) : Int)).map fun p => (p.toNat, abs c vc s p.toNat))
      = L.map fun p => (p, abs c vc s p) := by
    rw [List.map_map]
    apply List.map_congr_left
    intro p _
    simp only [Function.comp_apply, Int.toNat_natCast]
  rw [e1]
  have e2 : updatePix cNew vc (makeEmpty cNew vc []) none (fun _ (w : V) => w)
        (L.map fun p => (p, abs c vc s p)) false
      = updateCore cNew vc (makeEmpty cNew vc []) (stageOp id fun _ (w : V) => w)
        (L.map fun p => (p, some (abs c vc s p))) false := by
    rw [← stageList_false_map]
    rfl
  rw [e2]
  have h0 : Inv cNew vc (makeEmpty cNew vc []) :=
    inv_makeEmpty' cNew vc [] List.nodup_nil (fun _ hk => nomatch hk)
  have hLt : ∀ qw ∈ L.map fun p => (p, some (abs c vc s p)), qw.1 < cNew.npix := by
    intro qw hq
    obtain ⟨p, hp, rfl⟩ := List.mem_map.1 hq
    rw [hn]
    exact ((hmem p).1 hp).1
  refine ⟨_, rfl, inv_updateCore' cNew vc _ _ _ false h0 hLt, ?_⟩
  intro p hp
  rw [updateCore_refines' cNew vc _ _ _ false h0 hLt p (by rw [hn]; exact hp)]
  unfold denseUpdate
  simp only [Bool.false_and, Bool.false_eq_true, if_false]
  rw [denseFold_nodup _ L (fun p => some (abs c vc s p)) hnd, makeEmpty_abs']
  by_cases hp' : p ∈ L
  · rw [if_pos hp', if_pos ((hmem p).1 hp').2]
    rfl
  · rw [if_neg hp', if_neg (fun hval => hp' ((hmem p).2 ⟨hp, hval⟩))]

/-- `rehouse_spec`: valid pixels keep their value, invalid pixels stay invalid -/
theorem Inv.rehouse_spec' (h : Inv c vc s) (hv : vc.valid vc.sentinel = false)
    (cNew : Cfg) (hn : cNew.npix = c.npix) :
    ∃ s', rehouseMap c cNew vc s = some s' ∧ Inv cNew vc s' ∧
      ∀ p, p < c.npix → vc.valid (abs cNew vc s' p) = vc.valid (abs c vc s p) ∧
        (vc.valid (abs c vc s p) = true → abs cNew vc s' p = abs c vc s p) := by
  obtain ⟨s', h1, h2, h3⟩ := h.rehouse_abs' hv cNew hn
  refine ⟨s', h1, h2, ?_⟩
  intro p hp
  rw [h3 p hp]
  cases hval : vc.valid (abs c vc s p) with
  | true => exact ⟨by rw [if_pos rfl]; exact hval, fun _ => if_pos rfl⟩
  | false => exact ⟨by rw [if_neg Bool.false_ne_true]; exact hv, fun hc => nomatch hc⟩

/-- value-equality form of `rehouse_spec`: needs "invalid cells hold the sentinel" -/
theorem Inv.rehouse_partial' (h : Inv c vc s) (hv : vc.valid vc.sentinel = false)
    (hs : ∀ x, vc.valid x = false → x = vc.sentinel) (cNew : Cfg) (hn : cNew.npix = c.npix) :
    ∃ s', rehouseMap c cNew vc s = some s' ∧ Inv cNew vc s' ∧
      ∀ p, p < c.npix → abs cNew vc s' p = abs c vc s p := by
  obtain ⟨s', h1, h2, h3⟩ := h.rehouse_abs' hv cNew hn
  refine ⟨s', h1, h2, ?_⟩
  intro p hp
  rw [h3 p hp]
  cases hval : vc.valid (abs c vc s p) with
  | true => exact if_pos rfl
  | false => rw [if_neg Bool.false_ne_true]; exact (hs _ hval).symm

end rehouse

/-! ### a state showing that re-housing does not preserve the VALUE of invalid cells -/

/-- one coverage pixel, one sparse pixel per coverage pixel -/
def rehouseWitnessCfg : Cfg := ⟨1, 0⟩
/-- validity is "positive", the sentinel is `-1`: `0` is invalid but not the sentinel -/
def rehouseWitnessVC : VCfg Int := ⟨-1, fun x => decide (x > 0)⟩
/-- a well-formed map whose only pixel holds the invalid non-sentinel value `0` -/
def rehouseWitnessState : State Int := ⟨#[1], #[-1, 0]⟩

/-! ### upgrade -/

/-- configuration of the finer map -/
def ucfg (c : Cfg) (g : Nat) : Cfg := ⟨c.ncov, c.shift + g⟩

theorem ucfg_nfine (c : Cfg) (g : Nat) : (ucfg c g).nfine = c.nfine * 2 ^ g := Nat.pow_add 2 _ _

theorem upgrade_get (c : Cfg) (vc : VCfg V) (s : State V) (g : Nat) {i : Nat}
    (hi : i < s.sp.size * 2 ^ g) :
    (upgradeMap c vc s g).sp[i]? = some (rd s.sp (i / 2 ^ g) vc.sentinel) := by
  simp [upgradeMap, hi]

section upgrade
variable [DecidableEq V] {c : Cfg} {vc : VCfg V} {s : State V}

theorem Inv.upgrade_relayout (h : Inv c vc s) (g : Nat) :
    Relayout c s (ucfg c g) vc (upgradeMap c vc s g) where
  hn := rfl
  hcov := rfl
  hsize := by
    rw [ucfg_nfine, ← Nat.mul_assoc, ← h.size_eq]
    simp [upgradeMap]
  hovf := by
    intro i hi
    have hg := Nat.two_pow_pos g
    rw [ucfg_nfine] at hi
    have h1 : i / 2 ^ g < c.nfine := (Nat.div_lt_iff_lt_mul hg).2 hi
    have h2 : i < s.sp.size * 2 ^ g :=
      Nat.lt_of_lt_of_le hi (Nat.mul_le_mul_right _ h.nfine_le_size)
    rw [upgrade_get c vc s g h2]
    unfold rd
    rw [h.2.2.1 _ h1]
    rfl

/-- `upgrade_spec` -/
theorem Inv.upgrade_spec' (h : Inv c vc s) (g : Nat) :
    Inv (ucfg c g) vc (upgradeMap c vc s g) ∧
    (∀ x, x < (ucfg c g).npix →
      abs (ucfg c g) vc (upgradeMap c vc s g) x = abs c vc s (x >>> g)) ∧
    (∀ k, k < c.ncov → covered (ucfg c g) (upgradeMap c vc s g) k = covered c s k) := by
  have r := h.upgrade_relayout g
  refine ⟨r.inv h, ?_, fun k hk => r.cov_eq h hk⟩
  intro x hx
  have hg := Nat.two_pow_pos g
  obtain ⟨K, r0, hK, hr, rfl, hsh⟩ := pix_decomp (ucfg c g) hx
  have hK' : K < c.ncov := hK
  have hr' : r0 / 2 ^ g < c.nfine := by
    rw [ucfg_nfine] at hr; exact (Nat.div_lt_iff_lt_mul hg).2 hr
  have hx' : (K * (ucfg c g).nfine + r0) >>> g = K * c.nfine + r0 / 2 ^ g := by
    rw [Nat.shiftRight_eq_div_pow, ucfg_nfine, ← Nat.mul_assoc, Nat.mul_comm _ (2 ^ g),
      Nat.mul_add_div hg]
  rw [hx']
  cases hc : covered c s K with
  | false =>
    rw [r.abs_uncovered h hx (by rw [hsh]; exact hc),
      h.abs_uncovered (mul_add_lt_mul hK' hr')
        (by rw [shift_eq_div, (mul_add_div_mod hr').1]; exact hc)]
  | true =>
    obtain ⟨b, hb, hbs⟩ := h.covered_blk hK' hc
    rw [r.abs_covered h hK' hb hbs hr, abs_block c vc s hbs hr']
    have hR := (blk_cell_range (m := nblk c s) hb hr).2
    have hlt : (b + 1) * (ucfg c g).nfine + r0 < s.sp.size * 2 ^ g := by
      rw [h.size_eq, Nat.mul_assoc, ← ucfg_nfine]; exact hR
    have hdiv : ((b + 1) * (ucfg c g).nfine + r0) / 2 ^ g = (b + 1) * c.nfine + r0 / 2 ^ g := by
      rw [ucfg_nfine, ← Nat.mul_assoc, Nat.mul_comm _ (2 ^ g), Nat.mul_add_div hg]
    conv => lhs; unfold rd
    rw [upgrade_get c vc s g hlt, hdiv]
    rfl

/-- `degrade_upgrade_id`, over any configuration equal to the original -/
theorem Inv.degrade_upgrade_id' [DecidableEq W] (h : Inv c vc s) (g : Nat) (vcOut : VCfg W)
    (red : List V → W) (conv : V → W)
    (hred : ∀ v, red (List.replicate (2 ^ g) v) = conv v)
    (hsent : conv vc.sentinel = vcOut.sentinel) {q : Nat} (hq : q < c.npix) :
    abs (degCfg (ucfg c g) g) vcOut
        (degradeMap (ucfg c g) vc (upgradeMap c vc s g) g red vcOut.sentinel) q
      = conv (abs c vc s q) := by
  obtain ⟨hinv, habs, hcov⟩ := h.upgrade_spec' g
  have hg : g ≤ (ucfg c g).shift := Nat.le_add_left _ _
  have hsh : (ucfg c g).shift - g = c.shift := Nat.add_sub_cancel ..
  have hcfg : degCfg (ucfg c g) g = c := by
    unfold degCfg
    rw [hsh]
    rfl
  have hq' : q < (degCfg (ucfg c g) g).npix := by rw [hcfg]; exact hq
  rw [(hinv.degrade_spec' hg vcOut red).2.1 q hq', hsh,
    hcov _ (covpix_lt c q hq)]
  have hch : childrenVals (ucfg c g) vc (upgradeMap c vc s g) g q
      = List.replicate (2 ^ g) (abs c vc s q) := by
    unfold childrenVals
    rw [← List.length_range (n := 2 ^ g), ← List.map_const', List.length_range]
    apply List.map_congr_left
    intro j hj
    have hj' := List.mem_range.1 hj
    have hlt := (child_facts (ucfg c g) hg hq' hj').1
    rw [habs _ hlt, Nat.shiftRight_eq_div_pow, Nat.mul_comm,
      Nat.mul_add_div (Nat.two_pow_pos g), Nat.div_eq_of_lt hj']
    rfl
  rw [hch, hred]
  cases hc : covered c s (q >>> c.shift) with
  | true => rfl
  | false =>
    rw [h.abs_uncovered hq hc, hsent]
    rfl

end upgrade

end HS
