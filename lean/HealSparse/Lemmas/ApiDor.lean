/-
  C19 at the API level: `apiDegradeOnRead` (Model/ApiFiles.lean) against reading and then
  degrading in memory (`apiRead` + `apiDegrade`, Model/ApiFiles.lean / Model/ApiRes.lean).

  Part 1: the two `do` blocks are rewritten as explicit decision trees (`dorSpec`,
  `coreWeights >>= coreRest`) over NAMED reductions (`wideRed`, `recRed`, `intRed`, `fltRed`),
  so that both paths can be compared branch by branch.
  Part 2: the core-level content equalities the branches need (unweighted: `C19.dor_eq`;
  weighted: `dorW_same` below).
  Part 3: the API-level comparison lemmas used by Props/C19.lean.
-/
import HealSparse.Lemmas.WFWorld
import HealSparse.Props.C10
namespace HS
namespace ApiDor

open Lean Elab Tactic Meta in
/-- goal `jp args = rhs` with `jp` a local definition (a join point): unfold it -/
elab "lhs_unfold" : tactic => do
  let g ← getMainGoal
  g.withContext do
    let tgt := (← instantiateMVars (← g.getType)).consumeMData
    unless tgt.isAppOfArity ``Eq 3 do throwError "not an equation"
    let x := tgt.appFn!.appArg!
    let .fvar fv := x.getAppFn | throwError "head is not a local definition"
    let some v ← fv.getValue? | throwError "head has no value"
    let x' := (mkAppN v x.getAppArgs).headBeta
    replaceMainGoal [← g.replaceTargetDefEq (mkApp (mkApp tgt.appFn!.appFn! x') tgt.appArg!)]


/-- enter the continuation after a passed check -/
macro "jp_step" : tactic =>
  `(tactic| ((try lhs_unfold); (try dsimp -zeta only); (try extract_lets -underBinder)))

def wideRed (n : Nat) (red : String) (cells : List Val) : Val :=
  let rows := cells.map fun v => match v with | .bytes b => b | _ => List.replicate n 0
  match rows with
  | [] => .bytes (List.replicate n 0)
  | r :: rest => .bytes (rest.foldl (zipBytes (if red == "and" then (· &&& ·) else (· ||| ·))) r)

def recRed (valid : Val → Bool) (fs : List DT) (red : String) (cw : List (Val × Val)) : Val :=
  let fsOut := fs.map auxDT
  let validCW := cw.filter fun p => valid p.1
  let ws := validCW.map fun p => p.2.numD
  let fields := (List.range fs.length).map fun i =>
    let vals := validCW.map fun p => match p.1 with | .recd l => l.getD i (0, 0) | _ => (0, 0)
    match reduceVals red vals ws (cw.map fun p => p.2.numD) with
    | none => some ((fsOut.getD i (.flt 64)).defaultSentinel.numD)
    | some (.num n e) => if (Val.num n e).fits (fsOut.getD i (.flt 64)) then some (n, e) else none
    | some _ => none
  if fields.all Option.isSome then .recd (fields.map fun o => o.getD (0, 0)) else .poison

def intRed (dt : DT) (sent : Val) (red : String) (cells : List Val) : Val :=
  match cells with
  | [] => sent
  | r :: rest => rest.foldl (if red == "and" then Val.and dt else Val.or dt) r

def asNum (v : Val) : Val := match v with | .bool b => .num (if b then 1 else 0) 0 | v => v

def fltRed (valid : Val → Bool) (dtOut : DT) (red : String) (cw : List (Val × Val)) : Val :=
  let validCW := cw.filter fun p => valid p.1
  match reduceVals red (validCW.map fun p => p.1.numD) (validCW.map fun p => p.2.numD)
      (cw.map fun p => p.2.numD) with
  | none => dtOut.defaultSentinel
  | some (.num n e) => if (Val.num n e).fits dtOut then .num n e else .poison
  | some v => v

def wprep (sw x : Val) : Val := if x == sw then .num 0 0 else x

/-- the weight checks of `_degrade` -/
def coreWeights (m : MapObj) (red : String) (w : Option MapObj) : Except Err (Option (Array Val)) :=
  match w with
    | none => if red == "wmean" then throw .value else pure none
    | some wm =>
      if red != "wmean" then pure none else
        match wm.kind with
        | .plain (.flt _) =>
          if wm.spord != m.spord || wm.covord != m.covord then throw .value
          else match validPixels wm.c wm.vc wm.st, validPixels m.c m.vc m.st with
          | some a, some b =>
            if a.mergeSort (· ≤ ·) != b.mergeSort (· ≤ ·) then throw .value
            else match gatherWeights m.c m.vc m.st wm.abs (Val.num 0 0) with
            | some arr => pure (some arr)
            | none => throw .index
          | _, _ => throw .index
        | _ => throw .value

/-- is the weight map a float64 map (numpy promotion of `x * weights`) -/
def isF64 (w : Option MapObj) : Bool :=
  match w with
  | some wm => (match wm.kind with | .plain (.flt 64) => true | _ => false)
  | none => false

theorem isF64_true {w : Option MapObj} (h : isF64 w = true) :
    ∃ wm, w = some wm ∧ wm.kind = .plain (.flt 64) := by
  unfold isF64 at h
  split at h
  · rename_i wm
    split at h
    · exact ⟨wm, rfl, by assumption⟩
    · cases h
  · cases h

def coreRest (m : MapObj) (ordOut : Nat) (red : String) (w : Option MapObj) (wv : Option (Array Val)) :
    Except Err MapObj :=
  let g := 2 * (m.spord - ordOut)
  if !(red == "and" || red == "or") && !cellsFitF64 m.st.sp then .error .inexact else
  match m.kind with
  | .packed => .error .notImpl
  | .wide n =>
    if red != "and" && red != "or" then .error .notImpl else
    .ok { m with spord := ordOut, cache := none,
                  st := degradeMap m.c m.vc m.st g (wideRed n red) (m.kind.blank m.sent) }
  | .recd fs pr =>
    if !floatReds.contains red then .error .value else
    let kindOut := Kind.recd (fs.map auxDT) pr
    let sentOut := (fs.getD pr (.flt 64) |> auxDT).defaultSentinel
    .ok { m with kind := kindOut, sent := sentOut, spord := ordOut, cache := none,
                  st := degradeMapW m.c m.vc m.st g (wv.getD #[]) (Val.num 0 0)
                    (recRed m.vc.valid fs red) (kindOut.blank sentOut) }
  | .plain dt =>
    if dt.isInt && (red == "and" || red == "or") then
      .ok { m with spord := ordOut, cache := none,
                   st := degradeMap m.c m.vc m.st g (intRed dt m.sent red) m.sent }
    else
      if !floatReds.contains red then .error .value else
      let dtOut := if red == "wmean" && isF64 w then .flt 64 else auxDT dt
      .ok { m with kind := .plain dtOut, sent := dtOut.defaultSentinel, spord := ordOut, cache := none,
                    st := degradeMapW m.c m.vc m.st g (wv.getD #[]) (Val.num 0 0)
                      (fltRed m.vc.valid dtOut red) dtOut.defaultSentinel }

theorem apiDegradeCore_eq (m : MapObj) (ordOut : Nat) (red : String) (w : Option MapObj) :
    apiDegradeCore m ordOut red w = coreWeights m red w >>= coreRest m ordOut red w := by
  unfold apiDegradeCore coreWeights
  extract_lets -underBinder g jp
  cases w with
  | none =>
    by_cases h : (red == "wmean") = true
    · rw [if_pos h, if_pos h]; rfl
    · rw [if_neg h, if_neg h]; rfl
  | some wm =>
    dsimp -zeta only
    by_cases h : (red != "wmean") = true
    · rw [if_pos h, if_pos h]; rfl
    · rw [if_neg h, if_neg h]
      generalize validPixels wm.c wm.vc wm.st = oa
      generalize validPixels m.c m.vc m.st = ob
      generalize gatherWeights m.c m.vc m.st wm.abs (Val.num 0 0) = og
      cases hk : wm.kind with
      | plain dt =>
        cases dt with
        | flt b =>
          dsimp -zeta only
          by_cases h2 : (wm.spord != m.spord || wm.covord != m.covord) = true
          · rw [if_pos h2, if_pos h2]; rfl
          · rw [if_neg h2, if_neg h2]
            cases oa with
            | none => rfl
            | some a =>
              cases ob with
              | none => rfl
              | some b =>
                dsimp -zeta only
                by_cases h3 : ((a.mergeSort fun x1 x2 => decide (x1 ≤ x2)) != b.mergeSort fun x1 x2 => decide (x1 ≤ x2)) = true
                · rw [if_pos h3, if_pos h3]; rfl
                · rw [if_neg h3, if_neg h3]
                  cases og <;> rfl
        | _ => rfl
      | _ => rfl

def dorMk (f : FileObj) (ordOut : Nat) (kindOut : Kind) (sentOut : Val) (st : Option (State Val)) :
    Except Err MapObj :=
  match st with
  | some st => .ok { covord := f.covord, spord := ordOut, kind := kindOut, sent := sentOut, st := st }
  | none => .error .runtime

def dorTail (f : FileObj) (ordOut : Nat) (red : String) (pixels : Option (List Nat))
    (wf : Option FileObj) (useW : Bool) (kind : Kind) : Except Err MapObj :=
  let c := cfgOf f.covord f.spord
  let g := 2 * (f.spord - ordOut)
  let vc : VCfg Val := ⟨kind.blank f.sentinel, kind.valid f.sentinel⟩
  match kind with
  | .packed => .error .notImpl
  | .wide n =>
    if red != "and" && red != "or" then .error .notImpl else
    dorMk f ordOut kind f.sentinel
      (degradeOnRead c vc f.file pixels g (wideRed n red) (kind.blank f.sentinel))
  | .recd fs pr =>
    if !floatReds.contains red then .error .value else
    if red == "wmean" && !useW then .error .value else
    let kindOut := Kind.recd (fs.map auxDT) pr
    let sentOut := (auxDT (fs.getD pr (.flt 64))).defaultSentinel
    match wf, useW with
    | some w, true =>
      dorMk f ordOut kindOut sentOut
        (degradeOnReadW c vc f.file w.file w.sentinel (wprep w.sentinel) pixels g
          (recRed vc.valid fs red) (kindOut.blank sentOut))
    | _, _ =>
      dorMk f ordOut kindOut sentOut
        (degradeOnRead c vc f.file pixels g
          (fun cells => recRed vc.valid fs red (cells.map (·, Val.num 0 0))) (kindOut.blank sentOut))
  | .plain dt0 =>
    let dt := if dt0 == .bool then DT.int 16 true else dt0
    if dt.isInt && (red == "and" || red == "or") then
      dorMk f ordOut (if dt0 == .bool then Kind.plain .bool else kind) f.sentinel
        (degradeOnRead c vc f.file pixels g (fun cells => intRed dt f.sentinel red (cells.map asNum))
          f.sentinel)
    else
      if !floatReds.contains red then .error .value else
      if red == "wmean" && !useW then .error .value else
      let dtOut := auxDT dt
      match wf, useW with
      | some w, true =>
        dorMk f ordOut (.plain dtOut) dtOut.defaultSentinel
          (degradeOnReadW c vc f.file w.file w.sentinel (wprep w.sentinel) pixels g
            (fltRed vc.valid dtOut red) dtOut.defaultSentinel)
      | _, _ =>
        dorMk f ordOut (.plain dtOut) dtOut.defaultSentinel
          (degradeOnRead c vc f.file pixels g
            (fun cells => fltRed vc.valid dtOut red (cells.map (·, Val.num 0 0))) dtOut.defaultSentinel)

/-- first group of weight-file checks: the `use_weightfile` flag -/
def dorW1 (f : FileObj) (red : String) (wf : Option FileObj) : Except Err Bool :=
  match wf with
  | some w =>
    if red == "wmean" then
      if w.covord != f.covord then .error .value else .ok true
    else .ok false
  | none => .ok false

/-- second group of weight-file checks (type): `true` = rejected -/
def dorW2 (f : FileObj) (useW : Bool) (wf : Option FileObj) : Bool :=
  useW && match wf with
    | some w =>
      (w.spord != f.spord || w.arrDT == "rec" || w.wwidth.isSome ||
        !(match parseDTCode w.arrDT with | some (.flt _) => true | _ => false) ||
        (match w.sentinel with | .bool _ => true | _ => false))
    | none => false

/-- the block of coverage pixel `k` of the file holds an observed (valid) cell -/
def observed (f : FileObj) (kind : Kind) (k : Nat) : Bool :=
  (List.range (cfgOf f.covord f.spord).nfine).any fun j =>
    kind.valid f.sentinel
      (rd f.file.data
        ((blockStart (cfgOf f.covord f.spord) (⟨f.file.cov, f.file.data⟩ : State Val) k).toNat + j)
        (kind.blank f.sentinel))

/-- third group of weight-file checks (coverage, where the map has observed pixels; after the
    `fix:` commit): `true` = rejected -/
def dorW3 (f : FileObj) (kind : Kind) (px : List Nat) (useW : Bool) (wf : Option FileObj) : Bool :=
  useW && match wf with
    | some w =>
      !(px.all fun k =>
        covered (cfgOf w.covord w.spord) (⟨w.file.cov, w.file.data⟩ : State Val) k || !observed f kind k)
    | none => false

def dorSpec (f : FileObj) (ordOut : Nat) (red : String) (pixels : Option (List Nat))
    (wf : Option FileObj) : Except Err MapObj :=
  match dorPixels (cfgOf f.covord f.spord) f.file pixels with
  | none => .error .runtime
  | some px =>
    match dorW1 f red wf with
    | .error e => .error e
    | .ok useW =>
      if ordOut ≥ f.spord then .error .value else
      if f.bitpack then .error .notImpl else
      if dorW2 f useW wf then .error .value else
      if ordOut < f.covord then .error .value else
      match fileKind f with
      | none => .error .runtime
      | some kind =>
        if dorW3 f kind px useW wf then .error .value else
        if !(red == "and" || red == "or") && !cellsFitF64 f.file.data then .error .inexact else
        dorTail f ordOut red pixels wf useW kind

theorem apiDegradeOnRead_eq (f : FileObj) (ordOut : Nat) (red : String) (pixels : Option (List Nat))
    (wf : Option FileObj) : apiDegradeOnRead f ordOut red pixels wf = dorSpec f ordOut red pixels wf := by
  unfold apiDegradeOnRead dorSpec
  extract_lets -underBinder c jpPx
  cases hpx : dorPixels c f.file pixels with
  | none => rfl
  | some px =>
    dsimp -zeta only
    show jpPx px = _
    simp -zeta only [jpPx]
    extract_lets -underBinder jpW
    have hW : ∀ useW, jpW useW =
        (if ordOut ≥ f.spord then Except.error Err.value
        else if f.bitpack = true then Except.error Err.notImpl
        else if dorW2 f useW wf = true then Except.error Err.value
        else if ordOut < f.covord then Except.error Err.value
        else match fileKind f with
          | none => Except.error Err.runtime
          | some kind =>
            if dorW3 f kind px useW wf = true then Except.error Err.value
            else if (!(red == "and" || red == "or") && !cellsFitF64 f.file.data) = true then Except.error Err.inexact
            else dorTail f ordOut red pixels wf useW kind) := by
      intro useW
      simp -zeta only [jpW]
      extract_lets -underBinder jp1
      by_cases h1 : ordOut ≥ f.spord
      · rw [if_pos h1, if_pos h1]; rfl
      · rw [if_neg h1, if_neg h1]
        show jp1 () = _
        simp -zeta only [jp1]
        extract_lets -underBinder jp2
        by_cases h2 : f.bitpack = true
        · rw [if_pos h2, if_pos h2]; rfl
        · rw [if_neg h2, if_neg h2]
          show jp2 () = _
          simp -zeta only [jp2]
          extract_lets -underBinder jp3
          have h3 : jp3 () =
              (if ordOut < f.covord then Except.error Err.value
              else match fileKind f with
                | none => Except.error Err.runtime
                | some kind =>
                  if dorW3 f kind px useW wf = true then Except.error Err.value
                  else if (!(red == "and" || red == "or") && !cellsFitF64 f.file.data) = true then
                    Except.error Err.inexact
                  else dorTail f ordOut red pixels wf useW kind) := by
            simp -zeta only [jp3]
            extract_lets -underBinder jp4
            by_cases h4 : ordOut < f.covord
            · rw [if_pos h4, if_pos h4]; rfl
            · rw [if_neg h4, if_neg h4]
              show jp4 () = _
              simp -zeta only [jp4]
              extract_lets -underBinder g jp5
              cases fileKind f with
              | none => rfl
              | some kind =>
                dsimp -zeta only
                show jp5 kind = _
                simp -zeta only [jp5]
                extract_lets -underBinder vc mk jp6
                have h6 : jp6 () =
                    (if (!(red == "and" || red == "or") && !cellsFitF64 f.file.data) = true then
                      Except.error Err.inexact
                    else dorTail f ordOut red pixels wf useW kind) := by
                  simp -zeta only [jp6]
                  extract_lets -underBinder wprep jp7
                  by_cases h5 : (!(red == "and" || red == "or") && !cellsFitF64 f.file.data) = true
                  · rw [if_pos h5, if_pos h5]; rfl
                  · rw [if_neg h5, if_neg h5]
                    show jp7 () = _
                    simp -zeta only [jp7]
                    unfold dorTail
                    cases kind with
                    | packed => rfl
                    | wide n =>
                      dsimp -zeta only
                      by_cases h6 : (red != "and" && red != "or") = true
                      · rw [if_pos h6, if_pos h6]; rfl
                      · rw [if_neg h6, if_neg h6]; rfl
                    | recd fs pr =>
                      dsimp -zeta only
                      by_cases h6 : (!floatReds.contains red) = true
                      · rw [if_pos h6, if_pos h6]; rfl
                      · rw [if_neg h6, if_neg h6]
                        jp_step
                        by_cases h7 : (red == "wmean" && !useW) = true
                        · rw [if_pos h7, if_pos h7]; rfl
                        · rw [if_neg h7, if_neg h7]
                          cases wf <;> cases useW <;> rfl
                    | plain dt0 =>
                      dsimp -zeta only
                      extract_lets -underBinder
                      rename_i dt _ _ _ _ _
                      by_cases h8 : (dt.isInt && (red == "and" || red == "or")) = true
                      · rw [if_pos h8, if_pos h8]; rfl
                      · rw [if_neg h8, if_neg h8]
                        by_cases h6 : (!floatReds.contains red) = true
                        · rw [if_pos h6, if_pos h6]; rfl
                        · rw [if_neg h6, if_neg h6]
                          jp_step
                          by_cases h7 : (red == "wmean" && !useW) = true
                          · rw [if_pos h7, if_pos h7]; rfl
                          · rw [if_neg h7, if_neg h7]
                            cases wf <;> cases useW <;> rfl
                unfold dorW3
                cases useW with
                | false => exact h6
                | true =>
                  cases wf with
                  | none => exact h6
                  | some w =>
                    rw [if_pos rfl]
                    dsimp -zeta only
                    rw [Bool.true_and]
                    refine ite_congr rfl (fun _ => rfl) (fun _ => h6)
          unfold dorW2
          cases useW with
          | false => exact h3
          | true =>
            cases wf with
            | none => exact h3
            | some w =>
              rw [if_pos rfl]
              dsimp -zeta only
              rw [Bool.true_and]
              refine ite_congr rfl (fun _ => rfl) (fun _ => h3)
    unfold dorW1
    cases wf with
    | none => exact hW false
    | some w =>
      dsimp -zeta only
      by_cases h1 : (red == "wmean") = true
      · rw [if_pos h1, if_pos h1]
        extract_lets -underBinder
        by_cases h2 : (w.covord != f.covord) = true
        · rw [if_pos h2, if_pos h2]; rfl
        · rw [if_neg h2, if_neg h2]
          jp_step
          exact hW true
      · rw [if_neg h1, if_neg h1]
        exact hW false

def readSpec (f : FileObj) (pixels : Option (List Nat)) : Except Err MapObj :=
  match fileKind f with
  | none => .error .runtime
  | some kind =>
    match pixels with
    | none => .ok { covord := f.covord, spord := f.spord, kind := kind, sent := f.sentinel,
                    st := readFull f.file }
    | some px =>
      match readPartial (cfgOf f.covord f.spord) ⟨kind.blank f.sentinel, kind.valid f.sentinel⟩ f.file px with
      | some s => .ok { covord := f.covord, spord := f.spord, kind := kind, sent := f.sentinel, st := s }
      | none => .error .runtime

theorem apiRead_eq (f : FileObj) (pixels : Option (List Nat)) : apiRead f pixels = readSpec f pixels := by
  unfold apiRead readSpec
  cases fileKind f with
  | none => rfl
  | some kind =>
    cases pixels with
    | none => rfl
    | some px =>
      dsimp -zeta only
      jp_step
      show (_ : Except Err MapObj) = _
      rename_i jp
      show jp kind = _
      jp_step
      rw [if_neg (by simp)]
      lhs_unfold
      simp +zetaDelta only []
      cases readPartial (cfgOf f.covord f.spord) ⟨kind.blank f.sentinel, kind.valid f.sentinel⟩ f.file px <;> rfl

theorem apiDegrade_inrange (m : MapObj) (ordOut : Nat) (red : String) (w : Option MapObj)
    (hlo : m.covord ≤ ordOut) (hhi : ordOut < m.spord) :
    apiDegrade m ordOut red w =
      if m.kind == .packed then .error .notImpl else apiDegradeCore m ordOut red w := by
  unfold apiDegrade
  extract_lets -underBinder jp1
  rw [if_neg (by omega)]
  jp_step
  refine ite_congr rfl (fun _ => rfl) (fun _ => ?_)
  jp_step
  rw [if_neg (by omega), if_neg (by simp; omega)]


/-! ### Part 2: core-level content equalities -/

section core
variable {V W : Type}

/-- `r` is what reading `s` restricted to the coverage pixels `px` gives -/
structure ReadOf [DecidableEq V] (c : Cfg) (vc : VCfg V) (s r : State V) (px : List Nat) : Prop where
  inv : Inv c vc r
  cov : ∀ k, k < c.ncov → covered c r k = decide (k ∈ px)
  abs : ∀ p, p < c.npix → (p >>> c.shift) ∈ px → HS.abs c vc r p = HS.abs c vc s p

theorem ReadOf.full [DecidableEq V] {c : Cfg} {vc : VCfg V} {s : State V} (h : Inv c vc s) :
    ReadOf c vc s s (allCovered c s) :=
  ⟨h, fun k hk => by
      rw [Bool.eq_iff_iff, decide_eq_true_eq, mem_allCovered]
      exact ⟨fun hc => ⟨hk, hc⟩, fun hm => hm.2⟩,
    fun _ _ _ => rfl⟩

theorem ReadOf.partial [DecidableEq V] {c : Cfg} {vc : VCfg V} {s : State V} (h : Inv c vc s)
    {px : List Nat} (hnd : px.Nodup) (hpx : ∀ k ∈ px, k < c.ncov ∧ covered c s k = true) :
    ReadOf c vc s (partialState c vc s px) px :=
  ⟨inv_partialState c vc s px h hnd (fun k hk => (hpx k hk).1),
    fun k hk => partialState_covered c vc s px hnd k hk,
    fun p hp hm => partialState_abs_mem c vc s px hnd p hp hm (hpx _ hm).2⟩

/-- weighted in-memory degrade without a weight array = unweighted degrade with zero weights -/
theorem degradeMapW_nil {X : Type} (c : Cfg) (vc : VCfg V) (s : State V) (g : Nat) (zero : X)
    (red : List (V × X) → W) (sentOut : W) :
    degradeMapW c vc s g (#[] : Array X) zero red sentOut
      = degradeMap c vc s g (fun cells => red (cells.map (·, zero))) sentOut := by
  unfold degradeMapW degradeMap
  simp only [List.map_map]
  rfl

/-- `degradeOnRead` only applies the reduction to runs of file cells (or the blank) -/
theorem degradeOnRead_congr (c : Cfg) (vc : VCfg V) (f : FitsFile V) (pixels : Option (List Nat))
    (g : Nat) (red1 red2 : List V → W) (sentOut : W)
    (h : ∀ l : List V, (∀ v ∈ l, v ∈ f.data.toList ∨ v = vc.sentinel) → red1 l = red2 l) :
    degradeOnRead c vc f pixels g red1 sentOut = degradeOnRead c vc f pixels g red2 sentOut := by
  unfold degradeOnRead
  congr 1
  funext px
  simp only
  congr 2
  congr 1
  congr 1
  funext k
  apply List.map_congr_left
  intro r _
  apply h
  intro v hv
  obtain ⟨j, _, rfl⟩ := List.mem_map.1 hv
  unfold rd
  cases hget : f.data[(blockStart c ⟨f.cov, f.data⟩ k).toNat + r * 2 ^ g + j]? with
  | none => exact .inr rfl
  | some x =>
    left
    rw [Array.getElem?_eq_some_iff] at hget
    obtain ⟨hlt, rfl⟩ := hget
    simp

section
variable [DecidableEq V] [DecidableEq W] {c : Cfg} {vc : VCfg V} {s r : State V} {g : Nat}

/-- unweighted: the state degrade-on-read assembles over `px` is content-equal to the in-memory
    degrade of the state read over `px` -/
theorem dor_same (h : Inv c vc s) (hg : g ≤ c.shift) (vcOut : VCfg W) (red : List V → W)
    {px : List Nat} (hnd : px.Nodup) (hpx : ∀ k ∈ px, k < c.ncov ∧ covered c s k = true)
    (hr : ReadOf c vc s r px) :
    C10.Same (degCfg c g) vcOut (dorState (degCfg c g) vcOut.sentinel px (dorBlock c vc s g red))
      (degradeMap c vc r g red vcOut.sentinel) := by
  obtain ⟨i1, a1, c1⟩ := h.dor_spec hg vcOut red px hnd hpx
  obtain ⟨i2, a2, c2⟩ := hr.inv.degrade_spec' hg vcOut red
  refine ⟨i1, i2, ?_, ?_⟩
  · intro q hq
    rw [a1 q hq, a2 q hq]
    have hk : q >>> (c.shift - g) < c.ncov := covpix_lt (degCfg c g) q hq
    rw [hr.cov _ hk]
    by_cases hm : (q >>> (c.shift - g)) ∈ px
    · rw [if_pos hm, if_pos (decide_eq_true hm)]
      congr 1
      unfold childrenVals
      apply List.map_congr_left
      intro j hj
      obtain ⟨h1, h2⟩ := child_facts c hg hq (List.mem_range.1 hj)
      exact (hr.abs _ h1 (by rw [h2]; exact hm)).symm
    · rw [if_neg hm, if_neg (by simpa using hm)]
  · intro k hk
    rw [c1 k hk, c2 k hk, hr.cov k hk]


/-- the weight cell read for a child is the weight map's value there WHETHER OR NOT the weight
    file covers the coverage pixel: an uncovered pixel is read from the overflow block, which
    holds what the weight map reads there (its blank) -/
theorem dorBlockW_get_any {X : Type} [DecidableEq X] {vcX : VCfg X} {ws : State X}
    (h : Inv c vc s) (hw : Inv c vcX ws) (hg : g ≤ c.shift) (prep : X → X)
    (red : List (V × X) → W) {K r : Nat} (hK : K < c.ncov) (hc : covered c s K = true)
    (hr : r < (degCfg c g).nfine) :
    (dorBlockW c vc s ws vcX.sentinel prep g red K)[r]? =
      some (red ((List.range (2 ^ g)).map fun j =>
        (abs c vc s ((K * (degCfg c g).nfine + r) * 2 ^ g + j),
          prep (abs c vcX ws ((K * (degCfg c g).nfine + r) * 2 ^ g + j))))) := by
  cases hcw : covered c ws K with
  | true => exact h.dorBlockW_get hw hg prep red hK hc hcw hr
  | false =>
    obtain ⟨b, _, hbs⟩ := h.covered_blk hK hc
    have hbs' : blockStart c ws K = 0 := by
      have hlt := (covered_eq_false_iff c ws K).1 hcw
      rcases hw.2.2.2.1 K hK with h0 | ⟨h1, _⟩
      · exact h0
      · omega
    have e : (dorBlockW c vc s ws vcX.sentinel prep g red K)[r]? =
        some (red ((List.range (2 ^ g)).map fun j =>
          (rd s.sp ((blockStart c s K).toNat + r * 2 ^ g + j) vc.sentinel,
            prep (rd ws.sp ((blockStart c ws K).toNat + r * 2 ^ g + j) vcX.sentinel)))) := by
      simp [dorBlockW, hr]
    rw [e]
    congr 2
    apply List.map_congr_left
    intro j hj
    obtain ⟨e1, e2⟩ := child_split c hg (K := K) hr (List.mem_range.1 hj)
    have hp : K * c.nfine + (r * 2 ^ g + j) < c.npix := mul_add_lt_mul hK e2
    have hunc : abs c vcX ws (K * c.nfine + (r * 2 ^ g + j)) = vcX.sentinel :=
      hw.abs_uncovered hp (by rw [shift_eq_div, (mul_add_div_mod e2).1]; exact hcw)
    have hovf : rd ws.sp (r * 2 ^ g + j) vcX.sentinel = vcX.sentinel := by
      unfold rd; rw [hw.2.2.1 _ e2]; rfl
    rw [e1, abs_block c vc s hbs e2, hunc, hbs, hbs', Int.toNat_natCast, Int.toNat_zero,
      Nat.zero_add, hovf, Nat.add_assoc]

/-- `Inv.dorW_spec'` without any coverage requirement on the weight file -/
theorem dorW_spec_any {X : Type} [DecidableEq X] {vcX : VCfg X} {ws : State X}
    (h : Inv c vc s) (hw : Inv c vcX ws) (hg : g ≤ c.shift)
    (vcOut : VCfg W) (prep : X → X) (red : List (V × X) → W) (px : List Nat) (hnd : px.Nodup)
    (hpx : ∀ k ∈ px, k < c.ncov ∧ covered c s k = true) :
    Inv (degCfg c g) vcOut
      (dorState (degCfg c g) vcOut.sentinel px (dorBlockW c vc s ws vcX.sentinel prep g red)) ∧
    (∀ q, q < (degCfg c g).npix →
      abs (degCfg c g) vcOut
          (dorState (degCfg c g) vcOut.sentinel px (dorBlockW c vc s ws vcX.sentinel prep g red)) q
        = if (q >>> (c.shift - g)) ∈ px
          then red ((List.range (2 ^ g)).map fun j =>
                 (abs c vc s (q * 2 ^ g + j), prep (abs c vcX ws (q * 2 ^ g + j))))
          else vcOut.sentinel) := by
  have hlt : ∀ k ∈ px, k < (degCfg c g).ncov := fun k hk => (hpx k hk).1
  have hlen := dorBlockW_length c vc s ws vcX.sentinel prep g red
  refine ⟨inv_dorState _ vcOut px _ hnd hlt hlen, ?_⟩
  intro q hq
  split
  · rename_i hm
    obtain ⟨K, r, hK, hr, rfl, hsh⟩ := pix_decomp (degCfg c g) hq
    have hsh' : (K * (degCfg c g).nfine + r) >>> (c.shift - g) = K := hsh
    rw [hsh'] at hm
    rw [dorState_abs_mem _ vcOut px _ hnd hlen hK hr hm,
      dorBlockW_get_any h hw hg prep red hK (hpx K hm).2 hr]
    rfl
  · rename_i hm
    exact dorState_abs_not_mem _ vcOut px _ hnd hlt hlen hq hm

/-- weighted: the state degrade-on-read assembles over `px` (weights read from the weight file
    through its own index, prepared by `prep`) is content-equal to the in-memory weighted degrade
    of the state read over `px` with the gathered weight array `wv` of a weight map `wr` that has
    the same valid pixels; NOTHING is asked of the coverage of the weight file -/
theorem dorW_same {X : Type} [DecidableEq X] {vcX : VCfg X} {ws wr : State X}
    (h : Inv c vc s) (hw : Inv c vcX ws) (hg : g ≤ c.shift) (vcOut : VCfg W) (prep : X → X)
    (zero : X) (red : List (V × X) → W)
    {px : List Nat} (hnd : px.Nodup)
    (hpx : ∀ k ∈ px, k < c.ncov ∧ covered c s k = true)
    (hr : ReadOf c vc s r px)
    (hwa : ∀ p, p < c.npix → (p >>> c.shift) ∈ px → abs c vcX wr p = abs c vcX ws p)
    (hv : ∀ p, p < c.npix → vc.valid (abs c vc r p) = vcX.valid (abs c vcX wr p))
    (hprep1 : ∀ x, vcX.valid x = true → prep x = x)
    (hprep0 : ∀ x, vcX.valid x = false → prep x = zero)
    (wv : Array X)
    (hwv : ∀ p, p < c.npix → covered c r (p >>> c.shift) = true →
      rd wv (idxOf c r p) zero = if vc.valid (abs c vc r p) then abs c vcX wr p else zero) :
    C10.Same (degCfg c g) vcOut
      (dorState (degCfg c g) vcOut.sentinel px (dorBlockW c vc s ws vcX.sentinel prep g red))
      (degradeMapW c vc r g wv zero red vcOut.sentinel) := by
  obtain ⟨i1, a1⟩ := dorW_spec_any h hw hg vcOut prep red px hnd hpx
  obtain ⟨i2, a2⟩ := hr.inv.degradeW_spec' hg vcOut wv zero _ red hwv
  have hlen := dorBlockW_length c vc s ws vcX.sentinel prep g red
  refine ⟨i1, i2, ?_, ?_⟩
  · intro q hq
    rw [a1 q hq, a2 q hq]
    have hk : q >>> (c.shift - g) < c.ncov := covpix_lt (degCfg c g) q hq
    rw [hr.cov _ hk]
    by_cases hm : (q >>> (c.shift - g)) ∈ px
    · rw [if_pos hm, if_pos (decide_eq_true hm)]
      congr 1
      apply List.map_congr_left
      intro j hj
      obtain ⟨h1, h2⟩ := child_facts c hg hq (List.mem_range.1 hj)
      have hm' : ((q * 2 ^ g + j) >>> c.shift) ∈ px := by rw [h2]; exact hm
      rw [hr.abs _ h1 hm', ← hwa _ h1 hm']
      congr 1
      have hv' := hv _ h1
      rw [hr.abs _ h1 hm'] at hv'
      cases hval : vcX.valid (abs c vcX wr (q * 2 ^ g + j)) with
      | true => rw [hval] at hv'; rw [hv', if_pos rfl, hprep1 _ hval]
      | false => rw [hval] at hv'; rw [hv', if_neg (by simp), hprep0 _ hval]
    · rw [if_neg hm, if_neg (by simpa using hm)]
  · intro k hk
    rw [dorState_covered _ vcOut px _ hnd k hk]
    have : covered (degCfg c g) (degradeMapW c vc r g wv zero red vcOut.sentinel) k
        = covered (degCfg c g) (degradeMap c vc r g (fun _ => vcOut.sentinel) vcOut.sentinel) k := rfl
    rw [this, (hr.inv.degrade_spec' hg vcOut _).2.2 k hk, hr.cov k hk]

end
end core

end ApiDor

/-! ### Part 3: the API-level comparison -/


/-- the reference path: read the map (and the weight map) with the same pixel request, then
    degrade in memory -/
def apiReadThenDegrade (f : FileObj) (ordOut : Nat) (red : String) (pixels : Option (List Nat))
    (wf : Option FileObj) : Except Err MapObj := do
  let r ← apiRead f pixels
  let w ← match wf with
    | none => pure none
    | some wfile => do
      let wm ← apiRead wfile pixels
      pure (some wm)
  apiDegrade r ordOut red w

/-- same resolution, kind and sentinel, content-equal states (block order is free) -/
def MapObj.SameAs (a b : MapObj) : Prop :=
  a.covord = b.covord ∧ a.spord = b.spord ∧ a.kind = b.kind ∧ a.sent = b.sent ∧
    C10.Same a.c a.vc a.st b.st

/-- the two paths agree: both rejected, or both succeed with `SameAs` results; `Err.inexact`
    on either side (a case the exact model refuses to predict) is no claim -/
def Agree (x y : Except Err MapObj) : Prop :=
  match x, y with
  | .error .inexact, _ => True
  | _, .error .inexact => True
  | .error _, .error _ => True
  | .ok a, .ok b => a.SameAs b
  | _, _ => False

/-- as `Agree`, and the two rejections are the same exception class -/
def AgreeS (x y : Except Err MapObj) : Prop :=
  match x, y with
  | .error .inexact, _ => True
  | _, .error .inexact => True
  | .error e, .error e' => e = e'
  | .ok a, .ok b => a.SameAs b
  | _, _ => False

namespace ApiDor

theorem AgreeS.agree {x y : Except Err MapObj} (h : AgreeS x y) : Agree x y := by
  unfold AgreeS at h
  unfold Agree
  split at h <;> simp_all

theorem agreeS_err (e : Err) : AgreeS (.error e) (.error e) := by
  unfold AgreeS; cases e <;> simp

theorem agreeS_inexact_left (y : Except Err MapObj) : AgreeS (.error .inexact) y := by
  unfold AgreeS; simp

theorem agreeS_inexact_right (x : Except Err MapObj) : AgreeS x (.error .inexact) := by
  unfold AgreeS; split <;> simp_all

theorem agreeS_ok {a b : MapObj} (h : a.SameAs b) : AgreeS (.ok a) (.ok b) := by
  unfold AgreeS; simpa using h

theorem agreeS_ite_left {c : Prop} [Decidable c] {x y : Except Err MapObj}
    (h : ¬ c → AgreeS x y) : AgreeS (if c then .error .inexact else x) y := by
  by_cases hc : c
  · rw [if_pos hc]; exact agreeS_inexact_left _
  · rw [if_neg hc]; exact h hc

theorem agreeS_ite_right {c : Prop} [Decidable c] {x y : Except Err MapObj}
    (h : ¬ c → AgreeS x y) : AgreeS x (if c then .error .inexact else y) := by
  by_cases hc : c
  · rw [if_pos hc]; exact agreeS_inexact_right _
  · rw [if_neg hc]; exact h hc

theorem agreeS_ite {c : Prop} [Decidable c] {e : Err} {x y : Except Err MapObj}
    (h : ¬ c → AgreeS x y) : AgreeS (if c then .error e else x) (if c then .error e else y) := by
  by_cases hc : c
  · rw [if_pos hc, if_pos hc]; exact agreeS_err _
  · rw [if_neg hc, if_neg hc]; exact h hc

theorem fileKind_packed_iff (f : FileObj) : fileKind f = some .packed ↔ f.bitpack = true := by
  unfold fileKind
  constructor
  · intro h
    by_cases hb : f.bitpack = true
    · exact hb
    · rw [if_neg hb] at h
      split at h
      · cases hp : f.primary <;> simp [hp] at h
      · split at h
        · cases h
        · split at h
          · cases h
          · cases hp : parseDTCode f.arrDT <;> simp [hp] at h
  · intro h; rw [if_pos h]


/-- the configuration, cell parameters and map object the reader builds -/
abbrev fCfg (f : FileObj) : Cfg := cfgOf f.covord f.spord
abbrev fVC (f : FileObj) (kind : Kind) : VCfg Val := ⟨kind.blank f.sentinel, kind.valid f.sentinel⟩
def readMap (f : FileObj) (kind : Kind) (st : State Val) : MapObj :=
  { covord := f.covord, spord := f.spord, kind := kind, sent := f.sentinel, st := st }

theorem apiRead_of_dorPixels_none {f : FileObj} {pixels : Option (List Nat)}
    (hpx : dorPixels (fCfg f) f.file pixels = none) : apiRead f pixels = .error .runtime := by
  rw [apiRead_eq]
  unfold readSpec
  cases fileKind f with
  | none => rfl
  | some kind =>
    cases pixels with
    | none => cases hpx
    | some l =>
      have : readPartial (fCfg f) (fVC f kind) f.file l = none :=
        (dorPixels_eq_none_iff (fCfg f) (fVC f kind) (readFull f.file) l).1 hpx
      simp only [fCfg, fVC] at this
      simp only [this]

theorem read_facts {f : FileObj} (hf : f.WF) {kind : Kind} (hk : fileKind f = some kind)
    {pixels : Option (List Nat)} {px : List Nat}
    (hpx : dorPixels (fCfg f) f.file pixels = some px) :
    ∃ rst, apiRead f pixels = .ok (readMap f kind rst) ∧
      ReadOf (fCfg f) (fVC f kind) (readFull f.file) rst px ∧ px.Nodup ∧
      (∀ k ∈ px, k < (fCfg f).ncov ∧ covered (fCfg f) (readFull f.file) k = true) ∧
      (pixels = none → rst = readFull f.file ∧ px = allCovered (fCfg f) (readFull f.file)) ∧
      (∀ l, pixels = some l → l.Nodup ∧ px = partialPixels (fCfg f) f.file l ∧
        rst = partialState (fCfg f) (fVC f kind) (readFull f.file) px) := by
  have hinv : Inv (fCfg f) (fVC f kind) (readFull f.file) := hf.2 kind hk
  rw [apiRead_eq]
  unfold readSpec
  simp only [hk]
  cases pixels with
  | none =>
    have e : px = allCovered (fCfg f) (readFull f.file) := (Option.some.inj hpx).symm
    subst e
    exact ⟨readFull f.file, rfl, ReadOf.full hinv, nodup_allCovered _ _,
      fun k hk => (mem_allCovered _ _ k).1 hk, fun _ => ⟨rfl, rfl⟩, fun l h => nomatch h⟩
  | some l =>
    obtain ⟨hnd, epx, hrp⟩ := dorPixels_some_eq_some (fCfg f) (fVC f kind) (readFull f.file) l px hpx
    have hpnd : px.Nodup := by rw [epx]; exact nodup_partialPixels _ _ l hnd
    have hpx' : ∀ k ∈ px, k < (fCfg f).ncov ∧ covered (fCfg f) (readFull f.file) k = true := by
      intro k hk
      rw [epx] at hk
      exact ((mem_partialPixels _ (readFull f.file) l k).1 hk).2
    have hrp' : readPartial (cfgOf f.covord f.spord) ⟨kind.blank f.sentinel, kind.valid f.sentinel⟩
        f.file l = some (partialState (fCfg f) (fVC f kind) (readFull f.file) px) := hrp
    simp only [hrp']
    refine ⟨_, rfl, ReadOf.partial hinv hpnd hpx', hpnd, hpx', (fun h => nomatch h), ?_⟩
    intro l' hl'
    cases hl'
    exact ⟨hnd, epx, rfl⟩

theorem degradeOnRead_eval {V W : Type} {c : Cfg} {vc : VCfg V} {f : FitsFile V}
    {pixels : Option (List Nat)} {px : List Nat} (hpx : dorPixels c f pixels = some px)
    (g : Nat) (red : List V → W) (sentOut : W) :
    degradeOnRead c vc f pixels g red sentOut
      = some (dorState (degCfg c g) sentOut px (dorBlock c vc (readFull f) g red)) := by
  show degradeOnRead c vc (writeFits (readFull f)) pixels g red sentOut = _
  rw [degradeOnRead_writeFits]
  show Option.map _ (dorPixels c f pixels) = _
  rw [hpx]; rfl

theorem degradeOnReadW_eval {V W X : Type} {c : Cfg} {vc : VCfg V} {f : FitsFile V}
    {wf : FitsFile X} {pixels : Option (List Nat)} {px : List Nat}
    (hpx : dorPixels c f pixels = some px) (dflt : X) (prep : X → X)
    (g : Nat) (red : List (V × X) → W) (sentOut : W) :
    degradeOnReadW c vc f wf dflt prep pixels g red sentOut
      = some (dorState (degCfg c g) sentOut px
          (dorBlockW c vc (readFull f) (readFull wf) dflt prep g red)) := by
  show degradeOnReadW c vc (writeFits (readFull f)) (writeFits (readFull wf)) dflt prep pixels g red sentOut = _
  rw [degradeOnReadW_writeFits]
  show Option.map _ (dorPixels c f pixels) = _
  rw [hpx]; rfl


theorem leaf_same {f : FileObj} {ordOut : Nat} {kindOut : Kind} {sentOut : Val}
    (hlo : f.covord ≤ ordOut) (hhi : ordOut ≤ f.spord) {a b : State Val}
    (h : C10.Same (degCfg (fCfg f) (2 * (f.spord - ordOut)))
      ⟨kindOut.blank sentOut, kindOut.valid sentOut⟩ a b)
    (m' : MapObj) (h1 : m'.covord = f.covord) (h2 : m'.spord = ordOut) (h3 : m'.kind = kindOut)
    (h4 : m'.sent = sentOut) (h5 : m'.st = b) :
    ({ covord := f.covord, spord := ordOut, kind := kindOut, sent := sentOut, st := a } : MapObj).SameAs m' := by
  refine ⟨h1.symm, h2.symm, h3.symm, h4.symm, ?_⟩
  rw [h5]
  have e : degCfg (fCfg f) (2 * (f.spord - ordOut)) = cfgOf f.covord ordOut := degCfg_cfgOf hlo hhi
  rw [e] at h
  exact h

theorem asNum_of_not_bool {v : Val} (h : v.isBoolV = false) : asNum v = v := by
  cases v <;> first | rfl | cases h

/-- the kind-specific part of the two paths, no weights in play (`red ≠ "wmean"`) -/
theorem tail_unweighted {f : FileObj} (hf : f.WF) {kind : Kind} (hk : fileKind f = some kind)
    {ordOut : Nat} (hlo : f.covord ≤ ordOut) (hhi : ordOut < f.spord) {red : String}
    {pixels : Option (List Nat)} {px : List Nat}
    (hpx : dorPixels (fCfg f) f.file pixels = some px) {rst : State Val}
    (hro : ReadOf (fCfg f) (fVC f kind) (readFull f.file) rst px) (hnd : px.Nodup)
    (hcov : ∀ k ∈ px, k < (fCfg f).ncov ∧ covered (fCfg f) (readFull f.file) k = true)
    (hred : (red == "wmean") = false)
    (hbool : kind = .plain .bool → (red == "and" || red == "or") = false)
    (hty : ∀ b sg, kind = .plain (.int b sg) → (red == "and" || red == "or") = true →
      (∀ v ∈ f.file.data.toList, v.isBoolV = false) ∧ f.sentinel.isBoolV = false) :
    AgreeS (dorTail f ordOut red pixels none false kind)
      (coreRest (readMap f kind rst) ordOut red none none) := by
  have hinv : Inv (fCfg f) (fVC f kind) (readFull f.file) := hf.2 kind hk
  have hg : 2 * (f.spord - ordOut) ≤ (fCfg f).shift := by
    show _ ≤ 2 * (f.spord - f.covord); omega
  have hhi' : ordOut ≤ f.spord := by omega
  unfold coreRest
  apply agreeS_ite_right
  intro _
  unfold dorTail
  cases kind with
  | packed => exact agreeS_err _
  | wide n =>
    simp only [readMap]
    apply agreeS_ite
    intro _
    rw [degradeOnRead_eval hpx]
    exact agreeS_ok (leaf_same hlo hhi' (dor_same hinv hg ⟨_, _⟩ _ hnd hcov hro) _ rfl rfl rfl rfl rfl)
  | recd fs pr =>
    simp only [readMap]
    apply agreeS_ite
    intro _
    simp only [hred, Bool.false_and, Bool.false_eq_true, if_false]
    rw [degradeOnRead_eval hpx]
    simp only [Option.getD_none]
    rw [degradeMapW_nil]
    exact agreeS_ok (leaf_same hlo hhi' (dor_same hinv hg ⟨_, _⟩ _ hnd hcov hro) _ rfl rfl rfl rfl rfl)
  | plain dt0 =>
    simp only [readMap]
    cases dt0 with
    | bool =>
      have hb := hbool rfl
      simp only [hb, Bool.and_false, Bool.false_eq_true, if_false]
      apply agreeS_ite
      intro _
      simp only [hred, Bool.false_and, Bool.false_eq_true, if_false]
      rw [degradeOnRead_eval hpx]
      simp only [Option.getD_none]
      rw [degradeMapW_nil]
      exact agreeS_ok (leaf_same hlo hhi' (dor_same hinv hg ⟨_, _⟩ _ hnd hcov hro) _ rfl rfl rfl rfl rfl)
    | flt b =>
      simp only [DT.isInt, Bool.false_and, Bool.false_eq_true, if_false]
      apply agreeS_ite
      intro _
      simp only [hred, Bool.false_and, Bool.false_eq_true, if_false]
      rw [degradeOnRead_eval hpx]
      simp only [Option.getD_none]
      rw [degradeMapW_nil]
      exact agreeS_ok (leaf_same hlo hhi' (dor_same hinv hg ⟨_, _⟩ _ hnd hcov hro) _ rfl rfl rfl rfl rfl)
    | int b sg =>
      have e1 : (DT.int b sg == DT.bool) = false := rfl
      simp only [e1, Bool.false_eq_true, if_false, DT.isInt, Bool.true_and]
      by_cases hao : (red == "and" || red == "or") = true
      · rw [if_pos hao, if_pos hao]
        obtain ⟨hcells, hsent⟩ := hty b sg rfl hao
        rw [degradeOnRead_congr _ _ _ _ _ _ (intRed (DT.int b sg) f.sentinel red) _ (by
          intro l hl
          congr 1
          have : ∀ v ∈ l, asNum v = v := by
            intro v hv
            rcases hl v hv with h | h
            · exact asNum_of_not_bool (hcells v h)
            · rw [h]; exact asNum_of_not_bool hsent
          rw [List.map_congr_left this, List.map_id'])]
        rw [degradeOnRead_eval hpx]
        exact agreeS_ok (leaf_same hlo hhi' (dor_same hinv hg ⟨_, _⟩ _ hnd hcov hro) _ rfl rfl rfl rfl rfl)
      · rw [if_neg hao, if_neg hao]
        apply agreeS_ite
        intro _
        simp only [hred, Bool.false_and, Bool.false_eq_true, if_false]
        rw [degradeOnRead_eval hpx]
        simp only [Option.getD_none]
        rw [degradeMapW_nil]
        exact agreeS_ok (leaf_same hlo hhi' (dor_same hinv hg ⟨_, _⟩ _ hnd hcov hro) _ rfl rfl rfl rfl rfl)


theorem fileKind_plain_not_bool {f : FileObj} {dt : DT} (hk : fileKind f = some (.plain dt))
    (hdt : dt ≠ .bool) : f.sentinel.isBoolV = false := by
  unfold fileKind at hk
  split at hk
  · cases hk
  · split at hk
    · cases hp : f.primary <;> simp [hp] at hk
    · split at hk
      · cases hk; exact absurd rfl hdt
      · rename_i hnb
        cases hs : f.sentinel with
        | bool b => exact absurd hs (hnb b)
        | _ => rfl

theorem apiReadThenDegrade_none (f : FileObj) (ordOut : Nat) (red : String)
    (pixels : Option (List Nat)) :
    apiReadThenDegrade f ordOut red pixels none
      = apiRead f pixels >>= fun r => apiDegrade r ordOut red none := rfl

theorem dorSpec_none_eval {f : FileObj} {ordOut : Nat} {red : String} {pixels : Option (List Nat)}
    {px : List Nat} (hpx : dorPixels (fCfg f) f.file pixels = some px)
    (hlo : f.covord ≤ ordOut) (hhi : ordOut < f.spord) :
    dorSpec f ordOut red pixels none =
      if f.bitpack then .error .notImpl else
      match fileKind f with
      | none => .error .runtime
      | some kind =>
        if !(red == "and" || red == "or") && !cellsFitF64 f.file.data then .error .inexact else
        dorTail f ordOut red pixels none false kind := by
  unfold dorSpec
  have hpx' : dorPixels (cfgOf f.covord f.spord) f.file pixels = some px := hpx
  rw [hpx']
  simp only [dorW1, dorW2, Bool.false_and, Bool.false_eq_true, if_false]
  rw [if_neg (show ¬ ordOut ≥ f.spord by omega), if_neg (show ¬ ordOut < f.covord by omega)]
  try rfl

/-- **unweighted** degrade-on-read against read-then-degrade, API level -/
theorem dor_unweighted {f : FileObj} (hf : f.WF) {ordOut : Nat} (hlo : f.covord ≤ ordOut)
    (hhi : ordOut < f.spord) (red : String) (pixels : Option (List Nat))
    (hbool : fileKind f = some (.plain .bool) → (red == "and" || red == "or") = false)
    (hty : ∀ b sg, fileKind f = some (.plain (.int b sg)) → (red == "and" || red == "or") = true →
      ∀ v ∈ f.file.data.toList, v.isBoolV = false)
    (hww : ∀ n, fileKind f = some (.wide n) → (red == "wmean") = false) :
    AgreeS (apiDegradeOnRead f ordOut red pixels none)
      (apiReadThenDegrade f ordOut red pixels none) := by
  rw [apiDegradeOnRead_eq, apiReadThenDegrade_none]
  cases hpx : dorPixels (fCfg f) f.file pixels with
  | none =>
    rw [apiRead_of_dorPixels_none hpx]
    have : dorSpec f ordOut red pixels none = .error .runtime := by
      unfold dorSpec
      have hpx' : dorPixels (cfgOf f.covord f.spord) f.file pixels = none := hpx
      rw [hpx']
    rw [this]
    exact agreeS_err _
  | some px =>
    rw [dorSpec_none_eval hpx hlo hhi]
    cases hk : fileKind f with
    | none =>
      have hb : f.bitpack = false := by
        cases hb : f.bitpack with
        | false => rfl
        | true => rw [(fileKind_packed_iff f).2 hb] at hk; cases hk
      rw [apiRead_eq]
      unfold readSpec
      simp only [hk, hb, Bool.false_eq_true, if_false]
      exact agreeS_err _
    | some kind =>
      obtain ⟨rst, hread, hro, hnd, hcov, _, _⟩ := read_facts hf hk hpx
      rw [hread]
      show AgreeS _ (apiDegrade (readMap f kind rst) ordOut red none)
      rw [apiDegrade_inrange _ _ _ _ hlo hhi]
      by_cases hp : kind = .packed
      · subst hp
        rw [if_pos ((fileKind_packed_iff f).1 hk)]
        exact agreeS_err _
      · have hb : f.bitpack = false := by
          cases hb : f.bitpack with
          | false => rfl
          | true => rw [(fileKind_packed_iff f).2 hb] at hk; cases hk; exact absurd rfl hp
        rw [hb]
        have hne : ((readMap f kind rst).kind == Kind.packed) = false := by
          show (kind == Kind.packed) = false
          simpa using hp
        simp only [Bool.false_eq_true, if_false, hne]
        rw [apiDegradeCore_eq]
        apply agreeS_ite_left
        intro _
        by_cases hred : (red == "wmean") = true
        · have hr : red = "wmean" := by simpa using hred
          subst hr
          have : coreWeights (readMap f kind rst) "wmean" none = .error .value := rfl
          rw [this]
          show AgreeS _ (.error .value)
          unfold dorTail
          cases kind with
          | packed => exact absurd rfl hp
          | wide n => have := hww n hk; simp at this
          | recd fs pr =>
            have e2 : (!floatReds.contains "wmean") = false := by decide +kernel
            simp only [e2, Bool.false_eq_true, if_false, beq_self_eq_true, Bool.not_false,
              Bool.and_true, if_true]
            exact agreeS_err _
          | plain dt0 =>
            have e1 : ("wmean" == "and" || "wmean" == "or") = false := by decide +kernel
            have e2 : (!floatReds.contains "wmean") = false := by decide +kernel
            simp only [e1, e2, Bool.and_false, Bool.false_eq_true, if_false, beq_self_eq_true,
              Bool.not_false, Bool.and_true, if_true]
            exact agreeS_err _
        · have hred' : (red == "wmean") = false := by simpa using hred
          have : coreWeights (readMap f kind rst) red none = .ok none := by
            unfold coreWeights; simp only [hred', Bool.false_eq_true, if_false]; rfl
          rw [this]
          show AgreeS _ (coreRest (readMap f kind rst) ordOut red none none)
          refine tail_unweighted hf hk hlo hhi hpx hro hnd hcov hred' (fun h => hbool (h ▸ hk)) ?_
          intro b sg hkk hao
          subst hkk
          exact ⟨hty b sg hk hao, fileKind_plain_not_bool hk (by intro h; cases h)⟩


/-! ### weighted -/

/-- equal sorted `valid_pixels` listings mean equal validity at every pixel -/
theorem valid_eq_of_sorted_eq {V X : Type} [DecidableEq V] [DecidableEq X] {c : Cfg}
    {vc : VCfg V} {vcX : VCfg X} {r : State V} {wr : State X}
    (hr : Inv c vc r) (hbr : vc.valid vc.sentinel = false)
    (hw : Inv c vcX wr) (hbw : vcX.valid vcX.sentinel = false) {al bl : List Int}
    (ha : validPixels c vcX wr = some al) (hb : validPixels c vc r = some bl)
    (hs : al.mergeSort (· ≤ ·) = bl.mergeSort (· ≤ ·)) :
    ∀ p, p < c.npix → vc.valid (abs c vc r p) = vcX.valid (abs c vcX wr p) := by
  rw [hw.validPixels_eq hbw] at ha
  rw [hr.validPixels_eq hbr] at hb
  have ha := Option.some.inj ha
  have hb := Option.some.inj hb
  have hperm : al.Perm bl := by
    have h1 := (List.mergeSort_perm al (· ≤ ·)).symm
    rw [hs] at h1
    exact h1.trans (List.mergeSort_perm bl _)
  intro p hp
  have hmem : ((p : Nat) : Int) ∈ al ↔ ((p : Nat) : Int) ∈ bl := hperm.mem_iff
  rw [← ha, ← hb] at hmem
  have cast_mem : ∀ (L : List Nat), ((p : Nat) : Int) ∈ L.map (fun q => ((q : Nat) : Int)) ↔ p ∈ L := by
    intro L
    rw [List.mem_map]
    constructor
    · rintro ⟨q, hq, he⟩
      have : q = p := by exact_mod_cast he
      rw [← this]; exact hq
    · intro h; exact ⟨p, h, rfl⟩
  rw [cast_mem, cast_mem, hw.mem_validCells_map hbw, hr.mem_validCells_map hbr] at hmem
  rw [Bool.eq_iff_iff]
  constructor
  · intro h; exact (hmem.2 ⟨hp, h⟩).2
  · intro h; exact (hmem.1 ⟨hp, h⟩).2

theorem wprep_valid {sw x : Val} (h : (x != sw) = true) : wprep sw x = x := by
  unfold wprep
  have : (x == sw) = false := by simpa using h
  simp [this]

theorem wprep_invalid {sw x : Val} (h : (x != sw) = false) : wprep sw x = .num 0 0 := by
  unfold wprep
  have : (x == sw) = true := by simpa using h
  simp [this]


theorem auxDT_bool_dt (dt0 : DT) :
    auxDT (if (dt0 == DT.bool) = true then DT.int 16 true else dt0) = auxDT dt0 := by
  cases dt0 <;> rfl

theorem isInt_wmean (dt : DT) : (dt.isInt && ("wmean" == "and" || "wmean" == "or")) = false := by
  have e1 : ("wmean" == "and" || "wmean" == "or") = false := by decide +kernel
  rw [e1, Bool.and_false]

/-- the kind-specific part of the two paths with a weight file in use (`wmean`), all the
    preliminary checks of both paths passed -/
theorem tail_weighted {f w : FileObj} (hf : f.WF) {kind : Kind} (hk : fileKind f = some kind)
    (hw : w.WF) {wb : Nat} (hwk : fileKind w = some (.plain (.flt wb)))
    (hco : w.covord = f.covord) (hso : w.spord = f.spord)
    {ordOut : Nat} (hlo : f.covord ≤ ordOut) (hhi : ordOut < f.spord)
    {pixels : Option (List Nat)} {px : List Nat}
    (hpx : dorPixels (fCfg f) f.file pixels = some px) {rst : State Val}
    (hro : ReadOf (fCfg f) (fVC f kind) (readFull f.file) rst px) (hnd : px.Nodup)
    (hcov : ∀ k ∈ px, k < (fCfg f).ncov ∧ covered (fCfg f) (readFull f.file) k = true)
    {wst : State Val}
    (hwa : ∀ p, p < (fCfg f).npix → (p >>> (fCfg f).shift) ∈ px →
      abs (fCfg f) (fVC w (.plain (.flt wb))) wst p
        = abs (fCfg f) (fVC w (.plain (.flt wb))) (readFull w.file) p)
    (hv : ∀ p, p < (fCfg f).npix → (fVC f kind).valid (abs (fCfg f) (fVC f kind) rst p)
      = (fVC w (.plain (.flt wb))).valid (abs (fCfg f) (fVC w (.plain (.flt wb))) wst p))
    {arr : Array Val}
    (harr : ∀ p, p < (fCfg f).npix → covered (fCfg f) rst (p >>> (fCfg f).shift) = true →
      rd arr (idxOf (fCfg f) rst p) (.num 0 0)
        = if (fVC f kind).valid (abs (fCfg f) (fVC f kind) rst p)
          then abs (fCfg f) (fVC w (.plain (.flt wb))) wst p else .num 0 0)
    (hF47 : ∀ dt0, kind = .plain dt0 → wb = 64 → auxDT dt0 = .flt 64) :
    AgreeS (dorTail f ordOut "wmean" pixels (some w) true kind)
      (coreRest (readMap f kind rst) ordOut "wmean"
        (some (readMap w (.plain (.flt wb)) wst)) (some arr)) := by
  have hinv : Inv (fCfg f) (fVC f kind) (readFull f.file) := hf.2 kind hk
  have hcw' : fCfg w = fCfg f := by unfold fCfg; rw [hco, hso]
  have hinvw : Inv (fCfg f) (fVC w (.plain (.flt wb))) (readFull w.file) := hcw' ▸ hw.2 _ hwk
  have hg : 2 * (f.spord - ordOut) ≤ (fCfg f).shift := by
    show _ ≤ 2 * (f.spord - f.covord); omega
  have hhi' : ordOut ≤ f.spord := by omega
  have key : ∀ (vcOut : VCfg Val) (red : List (Val × Val) → Val),
      C10.Same (degCfg (fCfg f) (2 * (f.spord - ordOut))) vcOut
        (dorState (degCfg (fCfg f) (2 * (f.spord - ordOut))) vcOut.sentinel px
          (dorBlockW (fCfg f) (fVC f kind) (readFull f.file) (readFull w.file) w.sentinel
            (wprep w.sentinel) (2 * (f.spord - ordOut)) red))
        (degradeMapW (fCfg f) (fVC f kind) rst (2 * (f.spord - ordOut)) arr (.num 0 0) red
          vcOut.sentinel) :=
    fun vcOut red => dorW_same (vcX := fVC w (.plain (.flt wb))) hinv hinvw hg vcOut
      (wprep w.sentinel) (.num 0 0) red hnd hcov hro hwa hv
      (fun x hx => wprep_valid hx) (fun x hx => wprep_invalid hx) arr harr
  unfold coreRest
  apply agreeS_ite_right
  intro _
  unfold dorTail
  have e2 : (!floatReds.contains "wmean") = false := by decide +kernel
  cases kind with
  | packed => exact agreeS_err _
  | wide n =>
    simp only [readMap]
    apply agreeS_ite
    intro hc
    exact absurd (by decide +kernel) hc
  | recd fs pr =>
    simp only [readMap, e2, Bool.false_eq_true, if_false, Bool.not_true, Bool.and_false]
    rw [degradeOnReadW_eval hpx]
    exact agreeS_ok (leaf_same hlo hhi' (key ⟨_, _⟩ _) _ rfl rfl rfl rfl rfl)
  | plain dt0 =>
    simp only [readMap, e2, Bool.false_eq_true, if_false, Bool.not_true, Bool.and_false,
      isInt_wmean, auxDT_bool_dt]
    have hdt : (if ("wmean" == "wmean" && isF64 (some (readMap w (.plain (.flt wb)) wst))) = true
        then DT.flt 64 else auxDT dt0) = auxDT dt0 := by
      split
      · rename_i hc
        simp only [beq_self_eq_true, Bool.true_and] at hc
        obtain ⟨wm, hwm, hkk⟩ := isF64_true hc
        cases hwm
        have hwb : wb = 64 := by
          simp only [readMap] at hkk
          injection hkk with h1
          injection h1
        exact (hF47 dt0 rfl hwb).symm
      · rfl
    simp only [readMap] at hdt
    rw [hdt]
    rw [degradeOnReadW_eval hpx]
    exact agreeS_ok (leaf_same hlo hhi' (key ⟨_, _⟩ _) _ rfl rfl rfl rfl rfl)


/-- the type checks of the weight file, spelled out -/
theorem dorW2_false_iff (f w : FileObj) :
    dorW2 f true (some w) = false ↔
      w.spord = f.spord ∧ (w.arrDT == "rec") = false ∧ w.wwidth = none ∧
      (∃ b, parseDTCode w.arrDT = some (.flt b)) ∧ w.sentinel.isBoolV = false := by
  unfold dorW2
  simp only [Bool.true_and, Bool.or_eq_false_iff, bne_eq_false_iff_eq, Option.isSome_eq_false_iff,
    Option.isNone_iff_eq_none, Bool.not_eq_false']
  constructor
  · rintro ⟨⟨⟨⟨h1, h2⟩, h3⟩, h4⟩, h5⟩
    refine ⟨h1, h2, h3, ?_, ?_⟩
    · split at h4
      · rename_i b hb; exact ⟨b, hb⟩
      · cases h4
    · split at h5
      · cases h5
      · rename_i hnb
        cases hs : w.sentinel with
        | bool b => exact absurd hs (hnb b)
        | _ => rfl
  · rintro ⟨h1, h2, h3, ⟨b, hb⟩, h5⟩
    refine ⟨⟨⟨⟨h1, h2⟩, h3⟩, ?_⟩, ?_⟩
    · rw [hb]
    · split
      · rename_i b hs; rw [hs] at h5; cases h5
      · rfl

/-- a weight file that passes the on-read type checks is read back as a float map -/
theorem wkind_of_checks {w : FileObj} (hbp : w.bitpack = true → w.arrDT = "u1")
    (h2 : (w.arrDT == "rec") = false) (h3 : w.wwidth = none) {b : Nat}
    (h4 : parseDTCode w.arrDT = some (.flt b)) (h5 : w.sentinel.isBoolV = false) :
    fileKind w = some (.plain (.flt b)) := by
  have hb : w.bitpack = false := by
    cases hb : w.bitpack with
    | false => rfl
    | true => rw [hbp hb] at h4; cases h4
  unfold fileKind
  simp only [hb, Bool.false_eq_true, if_false, h2, h3, h4]
  cases hs : w.sentinel with
  | bool x => rw [hs] at h5; cases h5
  | _ => rfl

/-- conversely, a file read back as a float map passes the type checks -/
theorem checks_of_wkind {w : FileObj} {b : Nat} (hk : fileKind w = some (.plain (.flt b))) :
    (w.arrDT == "rec") = false ∧ w.wwidth = none ∧
      (∃ b, parseDTCode w.arrDT = some (.flt b)) ∧ w.sentinel.isBoolV = false := by
  have h5 := fileKind_plain_not_bool hk (by intro h; cases h)
  unfold fileKind at hk
  split at hk
  · cases hk
  · split at hk
    · cases hp : w.primary <;> simp [hp] at hk
    · rename_i hrec
      split at hk
      · cases hk
      · split at hk
        · cases hk
        · rename_i hww
          cases hp : parseDTCode w.arrDT with
          | none => simp [hp] at hk
          | some d =>
            simp only [hp, Option.map_some, Option.some.injEq, Kind.plain.injEq] at hk
            subst hk
            exact ⟨by simpa using hrec, hww, ⟨b, rfl⟩, h5⟩

theorem dorSpec_weighted_eval {f w : FileObj} {ordOut : Nat} {pixels : Option (List Nat)}
    {px : List Nat} (hpx : dorPixels (fCfg f) f.file pixels = some px)
    (hco : w.covord = f.covord)
    (hlo : f.covord ≤ ordOut) (hhi : ordOut < f.spord) (hb : f.bitpack = false)
    (hw2 : dorW2 f true (some w) = false) {kind : Kind} (hk : fileKind f = some kind)
    (hw3 : dorW3 f kind px true (some w) = false) :
    dorSpec f ordOut "wmean" pixels (some w) =
      if !("wmean" == "and" || "wmean" == "or") && !cellsFitF64 f.file.data then .error .inexact
      else dorTail f ordOut "wmean" pixels (some w) true kind := by
  unfold dorSpec
  have hpx' : dorPixels (cfgOf f.covord f.spord) f.file pixels = some px := hpx
  rw [hpx']
  simp only [dorW1, beq_self_eq_true, if_true, hco, bne_self_eq_false, Bool.false_eq_true, if_false,
    hw2, hb, hk, hw3]
  rw [if_neg (show ¬ ordOut ≥ f.spord by omega), if_neg (show ¬ ordOut < f.covord by omega)]

theorem dorSpec_weighted_inv {f w : FileObj} {ordOut : Nat} {pixels : Option (List Nat)} {a : MapObj}
    (h : dorSpec f ordOut "wmean" pixels (some w) = .ok a) :
    ∃ px kind, dorPixels (fCfg f) f.file pixels = some px ∧ w.covord = f.covord ∧
      f.covord ≤ ordOut ∧ ordOut < f.spord ∧ f.bitpack = false ∧ dorW2 f true (some w) = false ∧
      fileKind f = some kind ∧ dorW3 f kind px true (some w) = false ∧
      dorTail f ordOut "wmean" pixels (some w) true kind = .ok a := by
  unfold dorSpec at h
  split at h
  · cases h
  · rename_i px hpx
    simp only [dorW1, beq_self_eq_true, if_true] at h
    by_cases hco : (w.covord != f.covord) = true
    · simp [hco] at h
    · simp only [hco, Bool.false_eq_true, if_false] at h
      split at h
      · cases h
      · split at h
        · cases h
        · split at h
          · cases h
          · split at h
            · cases h
            · split at h
              · cases h
              · split at h
                · cases h
                · split at h
                  · cases h
                  · rename_i h1 hb hw2 h4 _ kind hk hw3 _
                    exact ⟨px, kind, hpx, by simpa using hco, by omega, by omega,
                      by simpa using hb, by simpa using hw2, hk, by simpa using hw3, h⟩

theorem apiReadThenDegrade_some (f w : FileObj) (ordOut : Nat) (red : String)
    (pixels : Option (List Nat)) :
    apiReadThenDegrade f ordOut red pixels (some w)
      = apiRead f pixels >>= fun r => apiRead w pixels >>= fun wm =>
          apiDegrade r ordOut red (some wm) := by
  unfold apiReadThenDegrade
  cases apiRead f pixels with
  | error e => rfl
  | ok r =>
    show (apiRead w pixels >>= fun wm => (pure (some wm) >>= fun w' => apiDegrade r ordOut red w')) = _
    cases apiRead w pixels <;> rfl

theorem coreWeights_wmean_inv {m wm : MapObj} {wv : Option (Array Val)}
    (h : coreWeights m "wmean" (some wm) = .ok wv) :
    ∃ wb al bl arr, wm.kind = .plain (.flt wb) ∧ wm.spord = m.spord ∧ wm.covord = m.covord ∧
      validPixels wm.c wm.vc wm.st = some al ∧ validPixels m.c m.vc m.st = some bl ∧
      al.mergeSort (· ≤ ·) = bl.mergeSort (· ≤ ·) ∧
      gatherWeights m.c m.vc m.st wm.abs (.num 0 0) = some arr ∧ wv = some arr := by
  unfold coreWeights at h
  simp only [bne_self_eq_false, Bool.false_eq_true, if_false] at h
  split at h
  · rename_i wb hkind
    split at h
    · cases h
    · rename_i hso
      split at h
      · rename_i al bl ha hb
        split at h
        · cases h
        · rename_i hs
          split at h
          · rename_i arr harr
            cases h
            simp only [Bool.or_eq_true, bne_iff_ne, ne_eq, not_or, Decidable.not_not] at hso
            exact ⟨wb, al, bl, arr, hkind, hso.1, hso.2, ha, hb, by simpa using hs, harr, rfl⟩
          · cases h
      · cases h
  · cases h

theorem coreWeights_wmean_eval {m wm : MapObj} {wb : Nat} {al bl : List Int} {arr : Array Val}
    (hkind : wm.kind = .plain (.flt wb)) (hso : wm.spord = m.spord) (hco : wm.covord = m.covord)
    (ha : validPixels wm.c wm.vc wm.st = some al) (hb : validPixels m.c m.vc m.st = some bl)
    (hs : al.mergeSort (· ≤ ·) = bl.mergeSort (· ≤ ·))
    (harr : gatherWeights m.c m.vc m.st wm.abs (.num 0 0) = some arr) :
    coreWeights m "wmean" (some wm) = .ok (some arr) := by
  unfold coreWeights
  simp only [bne_self_eq_false, Bool.false_eq_true, if_false, hkind, hso, hco, Bool.or_self, ha, hb,
    hs, harr]
  rfl


theorem wread_facts {w : FileObj} {wk : Kind} (hwk : fileKind w = some wk)
    {pixels : Option (List Nat)} {wm : MapObj} (h : apiRead w pixels = .ok wm) :
    ∃ wst, wm = readMap w wk wst ∧ (pixels = none → wst = readFull w.file) ∧
      (∀ l, pixels = some l → l.Nodup ∧
        wst = partialState (fCfg w) (fVC w wk) (readFull w.file) (partialPixels (fCfg w) w.file l)) := by
  rw [apiRead_eq] at h
  unfold readSpec at h
  simp only [hwk] at h
  cases pixels with
  | none =>
    cases h
    exact ⟨_, rfl, fun _ => rfl, fun l hl => nomatch hl⟩
  | some l =>
    have e : readPartial (cfgOf w.covord w.spord) ⟨wk.blank w.sentinel, wk.valid w.sentinel⟩ w.file l
        = readPartial (fCfg w) (fVC w wk) (writeFits (readFull w.file)) l := rfl
    simp only [e, readPartial_writeFits] at h
    split at h
    · rename_i st heq
      cases h
      split at heq
      · cases heq
      · rename_i hdup
        split at heq
        · cases heq
        · cases heq
          refine ⟨_, rfl, (fun hn => nomatch hn), ?_⟩
          intro l' hl'
          cases hl'
          exact ⟨Classical.not_not.1 (fun hn => hdup ((eraseDups_length_lt_iff l).2 hn)), rfl⟩
    · cases h

/-- the weights read with the same pixel request hold the file's weights on every processed
    coverage pixel -/
theorem wabs_agree {f w : FileObj} {wk : Kind} (hcfg : fCfg w = fCfg f)
    (hinvw : Inv (fCfg f) (fVC w wk) (readFull w.file))
    {pixels : Option (List Nat)} {px : List Nat}
    (hpart : ∀ l, pixels = some l → l.Nodup ∧ px = partialPixels (fCfg f) f.file l)
    {wst : State Val} (hw1 : pixels = none → wst = readFull w.file)
    (hw2 : ∀ l, pixels = some l → l.Nodup ∧
        wst = partialState (fCfg w) (fVC w wk) (readFull w.file) (partialPixels (fCfg w) w.file l)) :
    ∀ p, p < (fCfg f).npix → (p >>> (fCfg f).shift) ∈ px →
      abs (fCfg f) (fVC w wk) wst p = abs (fCfg f) (fVC w wk) (readFull w.file) p := by
  intro p hp hm
  cases pixels with
  | none => rw [hw1 rfl]
  | some l =>
    obtain ⟨hnd, hwst⟩ := hw2 l rfl
    obtain ⟨_, epx⟩ := hpart l rfl
    rw [hwst, hcfg]
    have hpnd := nodup_partialPixels (fCfg f) (readFull w.file) l hnd
    rw [epx] at hm
    have hml := (mem_partialPixels (fCfg f) (readFull f.file) l _).1 hm
    cases hc : covered (fCfg f) (readFull w.file) (p >>> (fCfg f).shift) with
    | true =>
      exact partialState_abs_mem (fCfg f) (fVC w wk) (readFull w.file) _ hpnd p hp
        ((mem_partialPixels (fCfg f) (readFull w.file) l _).2 ⟨hml.1, hml.2.1, hc⟩) hc
    | false =>
      have hnm : (p >>> (fCfg f).shift) ∉ partialPixels (fCfg f) (writeFits (readFull w.file)) l := by
        intro hmem
        have := ((mem_partialPixels (fCfg f) (readFull w.file) l _).1 hmem).2.2
        rw [hc] at this; cases this
      have hinvp := inv_partialState (fCfg f) (fVC w wk) (readFull w.file) _ hinvw hpnd
        (fun k hk => ((mem_partialPixels (fCfg f) (readFull w.file) l k).1 hk).2.1)
      have hcp : covered (fCfg f) (partialState (fCfg f) (fVC w wk) (readFull w.file)
          (partialPixels (fCfg f) (writeFits (readFull w.file)) l)) (p >>> (fCfg f).shift) = false := by
        rw [partialState_covered _ _ _ _ hpnd _ (covpix_lt (fCfg f) p hp)]
        exact decide_eq_false hnm
      rw [hinvw.abs_uncovered hp hc]
      exact hinvp.abs_uncovered hp hcp


theorem blankInvalid_of_fileKindOk {f : FileObj} (hfk : f.KindOk) {kind : Kind}
    (hk : fileKind f = some kind) : (fVC f kind).valid (fVC f kind).sentinel = false := by
  have h := hfk kind hk (readMap f kind ⟨#[], #[]⟩) rfl rfl
  exact h.blankInvalid

/-- all preliminary checks of both paths passed (`wmean`, weight file in use): the results agree -/
theorem weighted_bridge {f w : FileObj} (hf : f.WF) (hfk : f.KindOk) (hw : w.WF) {kind : Kind}
    (hk : fileKind f = some kind) {wb : Nat} (hwk : fileKind w = some (.plain (.flt wb)))
    (hco : w.covord = f.covord) (hso : w.spord = f.spord)
    {ordOut : Nat} (hlo : f.covord ≤ ordOut) (hhi : ordOut < f.spord)
    {pixels : Option (List Nat)} {px : List Nat}
    (hpx : dorPixels (fCfg f) f.file pixels = some px) {rst : State Val}
    (hro : ReadOf (fCfg f) (fVC f kind) (readFull f.file) rst px) (hnd : px.Nodup)
    (hcov : ∀ k ∈ px, k < (fCfg f).ncov ∧ covered (fCfg f) (readFull f.file) k = true)
    (hpart : ∀ l, pixels = some l → l.Nodup ∧ px = partialPixels (fCfg f) f.file l)
    {wm : MapObj} (hwr : apiRead w pixels = .ok wm)
    (hv : ∀ p, p < (fCfg f).npix → (fVC f kind).valid (abs (fCfg f) (fVC f kind) rst p)
      = wm.vc.valid (abs (fCfg f) wm.vc wm.st p))
    {arr : Array Val}
    (harr : gatherWeights (fCfg f) (fVC f kind) rst wm.abs (.num 0 0) = some arr)
    (hF47 : ∀ dt0, kind = .plain dt0 → wb = 64 → auxDT dt0 = .flt 64) :
    AgreeS (dorTail f ordOut "wmean" pixels (some w) true kind)
      (coreRest (readMap f kind rst) ordOut "wmean" (some wm) (some arr)) := by
  obtain ⟨wst, rfl, hw1, hw2⟩ := wread_facts hwk hwr
  have hcfg : fCfg w = fCfg f := by unfold fCfg; rw [hco, hso]
  have hbi := blankInvalid_of_fileKindOk hfk hk
  obtain ⟨wv, hwv, _, hspec⟩ := hro.inv.gatherWeights_spec' hbi
    (readMap w (.plain (.flt wb)) wst).abs (Val.num 0 0)
  rw [harr] at hwv
  cases hwv
  have hinvw : Inv (fCfg f) (fVC w (.plain (.flt wb))) (readFull w.file) := hcfg ▸ hw.2 _ hwk
  refine tail_weighted hf hk hw hwk hco hso hlo hhi hpx hro hnd hcov
    (wabs_agree hcfg hinvw hpart hw1 hw2) hv ?_ hF47
  intro p hp hc
  rw [hspec p hp hc]
  show (if _ then abs (fCfg w) _ wst p else _) = _
  rw [hcfg]
  rfl


theorem rtd_weighted_inv {f w : FileObj} {ordOut : Nat} {red : String} {pixels : Option (List Nat)}
    {b : MapObj} (hR : apiReadThenDegrade f ordOut red pixels (some w) = .ok b) :
    ∃ r wm, apiRead f pixels = .ok r ∧ apiRead w pixels = .ok wm ∧
      apiDegrade r ordOut red (some wm) = .ok b := by
  rw [apiReadThenDegrade_some] at hR
  cases h1 : apiRead f pixels with
  | error e => rw [h1] at hR; cases hR
  | ok r =>
    cases h2 : apiRead w pixels with
    | error e => rw [h1, h2] at hR; cases hR
    | ok wm => rw [h1, h2] at hR; exact ⟨r, wm, rfl, rfl, hR⟩

theorem degrade_weighted_inv {r wm : MapObj} {ordOut : Nat} {b : MapObj}
    (hlo : r.covord ≤ ordOut) (hhi : ordOut < r.spord)
    (h : apiDegrade r ordOut "wmean" (some wm) = .ok b) :
    (r.kind == .packed) = false ∧
    ∃ wb al bl arr, wm.kind = .plain (.flt wb) ∧ wm.spord = r.spord ∧ wm.covord = r.covord ∧
      validPixels wm.c wm.vc wm.st = some al ∧ validPixels r.c r.vc r.st = some bl ∧
      al.mergeSort (· ≤ ·) = bl.mergeSort (· ≤ ·) ∧
      gatherWeights r.c r.vc r.st wm.abs (.num 0 0) = some arr ∧
      coreRest r ordOut "wmean" (some wm) (some arr) = .ok b := by
  rw [apiDegrade_inrange _ _ _ _ hlo hhi] at h
  split at h
  · cases h
  · rename_i hp
    refine ⟨by simpa using hp, ?_⟩
    rw [apiDegradeCore_eq] at h
    cases hcw : coreWeights r "wmean" (some wm) with
    | error e => rw [hcw] at h; cases h
    | ok wv =>
      rw [hcw] at h
      obtain ⟨wb, al, bl, arr, h1, h2, h3, h4, h5, h6, h7, rfl⟩ := coreWeights_wmean_inv hcw
      exact ⟨wb, al, bl, arr, h1, h2, h3, h4, h5, h6, h7, h⟩

theorem dorW3_false_iff {w f : FileObj} (hco : w.covord = f.covord) (hso : w.spord = f.spord)
    (kind : Kind) (px : List Nat) :
    dorW3 f kind px true (some w) = false
      ↔ ∀ k ∈ px, covered (fCfg f) (readFull w.file) k = true ∨ observed f kind k = false := by
  unfold dorW3
  simp only [Bool.true_and, Bool.not_eq_false', List.all_eq_true, Bool.or_eq_true,
    Bool.not_eq_true', hco, hso]
  rfl

/-- an observed block of the file holds a valid pixel of the map -/
theorem observed_valid {f : FileObj} {kind : Kind}
    (hinv : Inv (fCfg f) (fVC f kind) (readFull f.file)) {k : Nat} (hk : k < (fCfg f).ncov)
    (hc : covered (fCfg f) (readFull f.file) k = true) (ho : observed f kind k = true) :
    ∃ j, j < (fCfg f).nfine ∧
      (fVC f kind).valid (abs (fCfg f) (fVC f kind) (readFull f.file) (k * (fCfg f).nfine + j)) = true := by
  unfold observed at ho
  obtain ⟨j, hj, hval⟩ := List.any_eq_true.1 ho
  have hj' : j < (fCfg f).nfine := List.mem_range.1 hj
  obtain ⟨b, _, hbs⟩ := hinv.covered_blk hk hc
  refine ⟨j, hj', ?_⟩
  rw [abs_block (fCfg f) (fVC f kind) (readFull f.file) hbs hj']
  have hbs' : blockStart (cfgOf f.covord f.spord) (⟨f.file.cov, f.file.data⟩ : State Val) k
      = (((b + 1) * (fCfg f).nfine : Nat) : Int) := hbs
  rw [hbs', Int.toNat_natCast] at hval
  exact hval

/-- equal validity of the map read and the weights read implies the on-read coverage check -/
theorem dorW3_of_valid_eq {f : FileObj} {kind : Kind}
    (hinv : Inv (fCfg f) (fVC f kind) (readFull f.file)) {px : List Nat}
    (hcov : ∀ k ∈ px, k < (fCfg f).ncov ∧ covered (fCfg f) (readFull f.file) k = true)
    {rst : State Val} (hro : ReadOf (fCfg f) (fVC f kind) (readFull f.file) rst px)
    {vcW : VCfg Val} {wst ws : State Val} (hinvw : Inv (fCfg f) vcW wst)
    (hbw : vcW.valid vcW.sentinel = false)
    (hsub : ∀ k, k < (fCfg f).ncov → covered (fCfg f) wst k = true → covered (fCfg f) ws k = true)
    (hv : ∀ p, p < (fCfg f).npix → (fVC f kind).valid (abs (fCfg f) (fVC f kind) rst p)
      = vcW.valid (abs (fCfg f) vcW wst p)) :
    ∀ k ∈ px, covered (fCfg f) ws k = true ∨ observed f kind k = false := by
  intro k hk
  cases ho : observed f kind k with
  | false => exact .inr rfl
  | true =>
    left
    obtain ⟨hlt, hc⟩ := hcov k hk
    obtain ⟨j, hj, hval⟩ := observed_valid hinv hlt hc ho
    have hp : k * (fCfg f).nfine + j < (fCfg f).npix := mul_add_lt_mul hlt hj
    have hsh : (k * (fCfg f).nfine + j) >>> (fCfg f).shift = k := by
      rw [shift_eq_div, (mul_add_div_mod hj).1]
    have h1 := hv _ hp
    rw [hro.abs _ hp (by rw [hsh]; exact hk), hval] at h1
    have := hinvw.covered_of_valid hbw hp h1.symm
    rw [hsh] at this
    exact hsub k hlt this

/-- the weights read (fully or with the pixel request) cover no more than the weight file -/
theorem wst_cov_sub {w : FileObj} {wk : Kind} {pixels : Option (List Nat)} {wst : State Val}
    (hw1 : pixels = none → wst = readFull w.file)
    (hw2 : ∀ l, pixels = some l → l.Nodup ∧
        wst = partialState (fCfg w) (fVC w wk) (readFull w.file) (partialPixels (fCfg w) w.file l)) :
    ∀ k, k < (fCfg w).ncov → covered (fCfg w) wst k = true →
      covered (fCfg w) (readFull w.file) k = true := by
  intro k hk hc
  cases pixels with
  | none => rw [hw1 rfl] at hc; exact hc
  | some l =>
    obtain ⟨hnd, hwst⟩ := hw2 l rfl
    rw [hwst] at hc
    have hc' := hc
    rw [show partialPixels (fCfg w) w.file l = partialPixels (fCfg w) (writeFits (readFull w.file)) l
      from rfl, partialState_covered _ _ _ _ (nodup_partialPixels _ (readFull w.file) l hnd) k hk] at hc'
    have hm := of_decide_eq_true hc'
    exact ((mem_partialPixels (fCfg w) (readFull w.file) l k).1 hm).2.2

/-- **weighted, results**: when both paths succeed the two maps are content-equal, except for the
    float32-map / float64-weights case excluded by `hF47` -/
theorem dor_weighted_same {f w : FileObj} (hf : f.WF) (hfk : f.KindOk) (hw : w.WF)
    {ordOut : Nat} {pixels : Option (List Nat)} {a b : MapObj}
    (hL : apiDegradeOnRead f ordOut "wmean" pixels (some w) = .ok a)
    (hR : apiReadThenDegrade f ordOut "wmean" pixels (some w) = .ok b)
    (hF47 : ∀ dt0, fileKind f = some (.plain dt0) → fileKind w = some (.plain (.flt 64)) →
      auxDT dt0 = .flt 64) : a.SameAs b := by
  rw [apiDegradeOnRead_eq] at hL
  obtain ⟨px, kind, hpx, hco, hlo, hhi, hb, hw2, hk, _, htail⟩ := dorSpec_weighted_inv hL
  obtain ⟨rst, hread, hro, hnd, hcov, _, hpart⟩ := read_facts hf hk hpx
  obtain ⟨r, wm, hr1, hwr, hdeg⟩ := rtd_weighted_inv hR
  rw [hread] at hr1
  cases hr1
  obtain ⟨_, wb, al, bl, arr, hwkind, hso, _, hal, hbl, hs, harr, hcore⟩ :=
    degrade_weighted_inv (r := readMap f kind rst) hlo hhi hdeg
  obtain ⟨wk, hwk, _, hso', hwk', _⟩ := apiRead_ok hwr
  rw [hwkind] at hwk'
  subst hwk'
  have hso'' : w.spord = f.spord := by rw [← hso']; exact hso
  have hcfg : fCfg w = fCfg f := by unfold fCfg; rw [hco, hso'']
  have hwmwf : wm.WF := WF.apiRead hw hwr
  obtain ⟨wst, hwm, _, _⟩ := wread_facts hwk hwr
  have hbi := blankInvalid_of_fileKindOk hfk hk
  have hinvw : Inv (fCfg f) wm.vc wm.st := by
    have := hwmwf.2
    rw [hwm] at this ⊢
    exact hcfg ▸ this
  have hbw : wm.vc.valid wm.vc.sentinel = false := by
    rw [hwm]; exact Kind.valid_blank_plain (.flt wb) w.sentinel
  have hal' : validPixels (fCfg f) wm.vc wm.st = some al := by
    rw [← hal, hwm]; show _ = validPixels (fCfg w) _ _; rw [hcfg]
  have hv := valid_eq_of_sorted_eq hro.inv hbi hinvw hbw hal' hbl hs
  have := weighted_bridge hf hfk hw hk hwk hco hso'' hlo hhi hpx hro hnd hcov
    (fun l hl => ⟨(hpart l hl).1, (hpart l hl).2.1⟩) hwr hv harr
    (fun dt0 hd hwb => hF47 dt0 (hd ▸ hk) (hwb ▸ hwk))
  rw [htail, hcore] at this
  exact this


/-- equal validity at every pixel gives equal sorted `valid_pixels` listings -/
theorem sorted_eq_of_valid_eq {V X : Type} [DecidableEq V] [DecidableEq X] {c : Cfg}
    {vc : VCfg V} {vcX : VCfg X} {r : State V} {wr : State X}
    (hr : Inv c vc r) (hbr : vc.valid vc.sentinel = false)
    (hw : Inv c vcX wr) (hbw : vcX.valid vcX.sentinel = false)
    (hv : ∀ p, p < c.npix → vc.valid (abs c vc r p) = vcX.valid (abs c vcX wr p)) :
    ∃ al bl, validPixels c vcX wr = some al ∧ validPixels c vc r = some bl ∧
      al.mergeSort (· ≤ ·) = bl.mergeSort (· ≤ ·) := by
  refine ⟨_, _, hw.validPixels_eq hbw, hr.validPixels_eq hbr, ?_⟩
  have hinj : ∀ a b : Nat, ((a : Nat) : Int) = ((b : Nat) : Int) → a = b := fun a b h => by exact_mod_cast h
  have nd : ∀ {L : List Nat}, L.Nodup → (L.map fun p => ((p : Nat) : Int)).Nodup := by
    intro L hL
    exact nodup_map_of_inj_on hL (fun a _ b _ h => hinj a b h)
  have hperm : (((validCells vcX wr).map (pixOfCell c wr)).map fun p => ((p : Nat) : Int)).Perm
      (((validCells vc r).map (pixOfCell c r)).map fun p => ((p : Nat) : Int)) := by
    apply List.Perm.map
    rw [List.perm_ext_iff_of_nodup (hw.nodup_validCells_map hbw) (hr.nodup_validCells_map hbr)]
    intro p
    rw [hw.mem_validCells_map hbw, hr.mem_validCells_map hbr]
    constructor
    · rintro ⟨hp, h⟩; exact ⟨hp, by rw [hv p hp]; exact h⟩
    · rintro ⟨hp, h⟩; exact ⟨hp, by rw [← hv p hp]; exact h⟩
  have trans : ∀ a b c : Int, decide (a ≤ b) = true → decide (b ≤ c) = true → decide (a ≤ c) = true := by
    intro a b c h1 h2
    simp only [decide_eq_true_eq] at *
    omega
  have total : ∀ a b : Int, (decide (a ≤ b) || decide (b ≤ a)) = true := by
    intro a b
    simp only [Bool.or_eq_true, decide_eq_true_eq]
    omega
  refine List.Perm.eq_of_pairwise (le := fun a b : Int => decide (a ≤ b)) ?_
    (List.pairwise_mergeSort trans total _) (List.pairwise_mergeSort trans total _)
    (((List.mergeSort_perm _ _).trans hperm).trans (List.mergeSort_perm _ _).symm)
  intro a b _ _ h1 h2
  simp only [decide_eq_true_eq] at h1 h2
  omega


theorem agree_inexact_right (x : Except Err MapObj) : Agree x (.error .inexact) := by
  unfold Agree; split <;> simp_all

theorem agree_inexact_left (y : Except Err MapObj) : Agree (.error .inexact) y := by
  unfold Agree; simp

theorem agree_errors (e e' : Err) : Agree (.error e) (.error e') := by
  unfold Agree; split <;> simp_all

theorem dorPixels_some_ne_nil {V : Type} {c : Cfg} {f : FitsFile V} {l px : List Nat}
    (h : dorPixels c f (some l) = some px) : px ≠ [] := by
  have e : f = writeFits (readFull f) := rfl
  rw [e, dorPixels_some] at h
  split at h
  · cases h
  · split at h
    · cases h
    · rename_i hne
      cases h
      intro hnil
      rw [hnil] at hne
      exact hne rfl

/-- the weight file is readable with the same pixel request once it passed the on-read type
    checks, provided the request touches its coverage (H0) -/
theorem wread_ok {w : FileObj} {wb : Nat} (hwk : fileKind w = some (.plain (.flt wb)))
    {pixels : Option (List Nat)} (hnd : ∀ l, pixels = some l → l.Nodup)
    (H0 : ∀ l, pixels = some l →
      ∃ k ∈ l, k < (fCfg w).ncov ∧ covered (fCfg w) (readFull w.file) k = true) :
    ∃ wst, apiRead w pixels = .ok (readMap w (.plain (.flt wb)) wst) := by
  rw [apiRead_eq]
  unfold readSpec
  simp only [hwk]
  cases pixels with
  | none => exact ⟨_, rfl⟩
  | some l =>
    have e : readPartial (cfgOf w.covord w.spord)
        ⟨(Kind.plain (.flt wb)).blank w.sentinel, (Kind.plain (.flt wb)).valid w.sentinel⟩ w.file l
        = readPartial (fCfg w) (fVC w (.plain (.flt wb))) (writeFits (readFull w.file)) l := rfl
    simp only [e, readPartial_writeFits]
    rw [if_neg (by rw [eraseDups_length_lt_iff]; exact fun h => h (hnd l rfl))]
    have hne' : ¬ (partialPixels (fCfg w) (writeFits (readFull w.file)) l).isEmpty = true := by
      obtain ⟨k, hk, hlt, hc⟩ := H0 l rfl
      have hm : k ∈ partialPixels (fCfg w) (writeFits (readFull w.file)) l :=
        (mem_partialPixels (fCfg w) (readFull w.file) l k).2 ⟨hk, hlt, hc⟩
      intro hemp
      rw [List.isEmpty_iff] at hemp
      rw [hemp] at hm
      cases hm
    rw [if_neg hne']
    exact ⟨_, rfl⟩

/-- the reference path evaluated once all its preliminary checks are known to pass -/
theorem rtd_weighted_eval {f w : FileObj} (hfk : f.KindOk) (hw : w.WF) {kind : Kind}
    (hk : fileKind f = some kind) (hnp : (kind == Kind.packed) = false)
    {ordOut : Nat} (hlo : f.covord ≤ ordOut) (hhi : ordOut < f.spord)
    {pixels : Option (List Nat)} {rst : State Val}
    (hread : apiRead f pixels = .ok (readMap f kind rst))
    (hinv : Inv (fCfg f) (fVC f kind) rst)
    {wb : Nat} {wst : State Val}
    (hwr : apiRead w pixels = .ok (readMap w (.plain (.flt wb)) wst))
    (hco : w.covord = f.covord) (hso : w.spord = f.spord)
    (hv : ∀ p, p < (fCfg f).npix → (fVC f kind).valid (abs (fCfg f) (fVC f kind) rst p)
      = (fVC w (.plain (.flt wb))).valid (abs (fCfg f) (fVC w (.plain (.flt wb))) wst p)) :
    ∃ arr, gatherWeights (fCfg f) (fVC f kind) rst (readMap w (.plain (.flt wb)) wst).abs (.num 0 0)
        = some arr ∧
      apiReadThenDegrade f ordOut "wmean" pixels (some w)
        = coreRest (readMap f kind rst) ordOut "wmean" (some (readMap w (.plain (.flt wb)) wst))
            (some arr) := by
  have hcfg : fCfg w = fCfg f := by unfold fCfg; rw [hco, hso]
  have hbi := blankInvalid_of_fileKindOk hfk hk
  have hinvw : Inv (fCfg f) (fVC w (.plain (.flt wb))) wst := by
    have := (WF.apiRead hw hwr).2
    exact hcfg ▸ this
  have hbw : (fVC w (.plain (.flt wb))).valid (fVC w (.plain (.flt wb))).sentinel = false :=
    Kind.valid_blank_plain (.flt wb) w.sentinel
  obtain ⟨al, bl, hal, hbl, hs⟩ := sorted_eq_of_valid_eq hinv hbi hinvw hbw hv
  obtain ⟨arr, harr, _, _⟩ := hinv.gatherWeights_spec' hbi
    (readMap w (.plain (.flt wb)) wst).abs (Val.num 0 0)
  refine ⟨arr, harr, ?_⟩
  rw [apiReadThenDegrade_some, hread, hwr]
  show apiDegrade (readMap f kind rst) ordOut "wmean" (some (readMap w (.plain (.flt wb)) wst)) = _
  rw [apiDegrade_inrange _ _ _ _ hlo hhi]
  have hnp' : ((readMap f kind rst).kind == Kind.packed) = false := hnp
  rw [hnp', if_neg (by simp), apiDegradeCore_eq]
  have hal' : validPixels (readMap w (.plain (.flt wb)) wst).c (readMap w (.plain (.flt wb)) wst).vc
      (readMap w (.plain (.flt wb)) wst).st = some al := by
    show validPixels (fCfg w) _ _ = _
    rw [hcfg]; exact hal
  rw [coreWeights_wmean_eval (m := readMap f kind rst) (wm := readMap w (.plain (.flt wb)) wst)
    rfl hso hco hal' hbl hs harr]
  rfl


theorem not_packed_of_bitpack_false {f : FileObj} {kind : Kind} (hk : fileKind f = some kind)
    (hb : f.bitpack = false) : (kind == Kind.packed) = false := by
  cases kind with
  | packed => rw [(fileKind_packed_iff f).1 hk] at hb; cases hb
  | _ => rfl

theorem bitpack_false_of_not_packed {f : FileObj} {kind : Kind} (hk : fileKind f = some kind)
    (hnp : (kind == Kind.packed) = false) : f.bitpack = false := by
  cases hb : f.bitpack with
  | false => rfl
  | true =>
    rw [(fileKind_packed_iff f).2 hb] at hk
    cases hk
    cases hnp

/-- **weighted, rejection**: when the map read and the weight map read (same request) have the
    same valid pixels (`H2`, the in-memory check) the two paths are rejected together and agree
    otherwise — the on-read coverage check (weight coverage wherever the map has an observed
    pixel) FOLLOWS from `H2`.  `H0`: a pixel request must touch the coverage of the weight file
    (else the reference path cannot even read the weights: `RuntimeError`). -/
theorem dor_weighted {f w : FileObj} (hf : f.WF) (hfk : f.KindOk) (hw : w.WF)
    (hbp : w.bitpack = true → w.arrDT = "u1")
    {ordOut : Nat} (hlo : f.covord ≤ ordOut) (hhi : ordOut < f.spord) (pixels : Option (List Nat))
    (H0 : ∀ l, pixels = some l →
      ∃ k ∈ l, k < (fCfg w).ncov ∧ covered (fCfg w) (readFull w.file) k = true)
    (H2 : ∀ r wm, apiRead f pixels = .ok r → apiRead w pixels = .ok wm → wm.covord = r.covord →
      wm.spord = r.spord → ∀ p, p < r.npix → r.vc.valid (r.abs p) = wm.vc.valid (wm.abs p))
    (hF47 : ∀ dt0, fileKind f = some (.plain dt0) → fileKind w = some (.plain (.flt 64)) →
      auxDT dt0 = .flt 64) :
    Agree (apiDegradeOnRead f ordOut "wmean" pixels (some w))
      (apiReadThenDegrade f ordOut "wmean" pixels (some w)) := by
  cases hR : apiReadThenDegrade f ordOut "wmean" pixels (some w) with
  | ok b =>
    -- the reference path succeeded: evaluate the on-read path
    obtain ⟨r, wm, hr1, hwr, hdeg⟩ := rtd_weighted_inv hR
    obtain ⟨kind, hk, hr_co, hr_so, hr_kind, hr_sent, _⟩ := apiRead_ok hr1
    cases hpx : dorPixels (fCfg f) f.file pixels with
    | none => rw [apiRead_of_dorPixels_none hpx] at hr1; cases hr1
    | some px =>
      obtain ⟨rst, hread, hro, hnd, hcov, _, hpart⟩ := read_facts hf hk hpx
      rw [hread] at hr1
      cases hr1
      obtain ⟨hnp, wb, al, bl, arr, hwkind, hso, hco, hal, hbl, hs, harr, hcore⟩ :=
        degrade_weighted_inv (r := readMap f kind rst) hlo hhi hdeg
      obtain ⟨wk, hwk, hw_co, hw_so, hwk', _⟩ := apiRead_ok hwr
      rw [hwkind] at hwk'
      subst hwk'
      have hco' : w.covord = f.covord := by rw [← hw_co]; exact hco
      have hso' : w.spord = f.spord := by rw [← hw_so]; exact hso
      have hcfg : fCfg w = fCfg f := by unfold fCfg; rw [hco', hso']
      have hb := bitpack_false_of_not_packed hk hnp
      have hw2 : dorW2 f true (some w) = false :=
        (dorW2_false_iff f w).2 ⟨hso', checks_of_wkind hwk⟩
      obtain ⟨wst, hwm, hws1, hws2⟩ := wread_facts hwk hwr
      have hbi := blankInvalid_of_fileKindOk hfk hk
      have hinvw : Inv (fCfg f) wm.vc wm.st := by
        have := (WF.apiRead hw hwr).2
        rw [hwm] at this ⊢
        exact hcfg ▸ this
      have hbw : wm.vc.valid wm.vc.sentinel = false := by
        rw [hwm]; exact Kind.valid_blank_plain (.flt wb) w.sentinel
      have hal' : validPixels (fCfg f) wm.vc wm.st = some al := by
        rw [← hal, hwm]; show _ = validPixels (fCfg w) _ _; rw [hcfg]
      have hv := valid_eq_of_sorted_eq hro.inv hbi hinvw hbw hal' hbl hs
      have hsub : ∀ k, k < (fCfg f).ncov → covered (fCfg f) wm.st k = true →
          covered (fCfg f) (readFull w.file) k = true := by
        have := wst_cov_sub hws1 hws2
        rw [hcfg] at this
        rw [hwm]
        exact this
      have hw3 : dorW3 f kind px true (some w) = false :=
        (dorW3_false_iff hco' hso' kind px).2
          (dorW3_of_valid_eq (hf.2 kind hk) hcov hro hinvw hbw hsub hv)
      rw [apiDegradeOnRead_eq, dorSpec_weighted_eval hpx hco' hlo hhi hb hw2 hk hw3]
      split
      · exact agree_inexact_left _
      · have := weighted_bridge hf hfk hw hk hwk hco' hso' hlo hhi hpx hro hnd hcov
          (fun l hl => ⟨(hpart l hl).1, (hpart l hl).2.1⟩) hwr hv harr
          (fun dt0 hd hwb => hF47 dt0 (hd ▸ hk) (hwb ▸ hwk))
        rw [hcore] at this
        exact AgreeS.agree this
  | error e =>
    by_cases he : e = .inexact
    · subst he; exact agree_inexact_right _
    · cases hL : apiDegradeOnRead f ordOut "wmean" pixels (some w) with
      | error e' => exact agree_errors _ _
      | ok a =>
        -- the on-read path succeeded: evaluate the reference path, which cannot be rejected
        exfalso
        rw [apiDegradeOnRead_eq] at hL
        obtain ⟨px, kind, hpx, hco, _, _, hb, hw2, hk, _, htail⟩ := dorSpec_weighted_inv hL
        obtain ⟨rst, hread, hro, hnd, hcov, _, hpart⟩ := read_facts hf hk hpx
        obtain ⟨hso, h2, h3, ⟨wb, h4⟩, h5⟩ := (dorW2_false_iff f w).1 hw2
        have hwk := wkind_of_checks hbp h2 h3 h4 h5
        have hcfg : fCfg w = fCfg f := by unfold fCfg; rw [hco, hso]
        obtain ⟨wst, hwr⟩ := wread_ok hwk (fun l hl => (hpart l hl).1) H0
        have hv : ∀ p, p < (fCfg f).npix → (fVC f kind).valid (abs (fCfg f) (fVC f kind) rst p)
            = (fVC w (.plain (.flt wb))).valid (abs (fCfg f) (fVC w (.plain (.flt wb))) wst p) := by
          intro p hp
          have h := H2 _ _ hread hwr hco hso p hp
          have e : (readMap w (.plain (.flt wb)) wst).abs p
              = abs (fCfg f) (fVC w (.plain (.flt wb))) wst p := by
            show abs (fCfg w) _ _ _ = _
            rw [hcfg]
            rfl
          rw [← e]
          exact h
        obtain ⟨arr, harr, heval⟩ := rtd_weighted_eval hfk hw hk
          (not_packed_of_bitpack_false hk hb) hlo hhi hread hro.inv hwr hco hso hv
        have := weighted_bridge hf hfk hw hk hwk hco hso hlo hhi hpx hro hnd hcov
          (fun l hl => ⟨(hpart l hl).1, (hpart l hl).2.1⟩) hwr hv harr
          (fun dt0 hd hwb => hF47 dt0 (hd ▸ hk) (hwb ▸ hwk))
        rw [htail, ← heval, hR] at this
        unfold AgreeS at this
        cases e <;> simp_all

theorem dorTail_useW_false (f : FileObj) (ordOut : Nat) (red : String) (pixels : Option (List Nat))
    (w : FileObj) (kind : Kind) :
    dorTail f ordOut red pixels (some w) false kind = dorTail f ordOut red pixels none false kind := by
  unfold dorTail
  cases kind <;> rfl

/-- a weight file is ignored by degrade-on-read unless the reduction is `wmean` -/
theorem dor_ignored_weights (f w : FileObj) (ordOut : Nat) {red : String}
    (hred : (red == "wmean") = false) (pixels : Option (List Nat)) :
    apiDegradeOnRead f ordOut red pixels (some w) = apiDegradeOnRead f ordOut red pixels none := by
  rw [apiDegradeOnRead_eq, apiDegradeOnRead_eq]
  unfold dorSpec
  cases dorPixels (cfgOf f.covord f.spord) f.file pixels with
  | none => rfl
  | some px =>
    simp only [dorW1, hred, Bool.false_eq_true, if_false, dorW2, dorW3, Bool.false_and,
      dorTail_useW_false]

theorem coreRest_ignored (m wm : MapObj) (ordOut : Nat) {red : String}
    (hred : (red == "wmean") = false) :
    coreRest m ordOut red (some wm) none = coreRest m ordOut red none none := by
  unfold coreRest
  simp only [hred, Bool.false_and]

/-- … and by the in-memory degrade, provided the weight file can be read at all -/
theorem rtd_ignored_weights {f w : FileObj} {ordOut : Nat} (hlo : f.covord ≤ ordOut)
    (hhi : ordOut < f.spord) {red : String} (hred : (red == "wmean") = false)
    {pixels : Option (List Nat)} {wm : MapObj} (hwr : apiRead w pixels = .ok wm) :
    apiReadThenDegrade f ordOut red pixels (some w) = apiReadThenDegrade f ordOut red pixels none := by
  rw [apiReadThenDegrade_some, apiReadThenDegrade_none, hwr]
  cases hr : apiRead f pixels with
  | error e => rfl
  | ok r =>
    obtain ⟨_, _, h1, h2, _⟩ := apiRead_ok hr
    show apiDegrade r ordOut red (some wm) = apiDegrade r ordOut red none
    rw [apiDegrade_inrange _ _ _ _ (h1 ▸ hlo) (h2 ▸ hhi), apiDegrade_inrange _ _ _ _ (h1 ▸ hlo) (h2 ▸ hhi),
      apiDegradeCore_eq, apiDegradeCore_eq]
    have e1 : coreWeights r red (some wm) = .ok none := by
      unfold coreWeights
      have : (red != "wmean") = true := by simp [bne, hred]
      simp only [this, if_true]; rfl
    have e2 : coreWeights r red none = .ok none := by
      unfold coreWeights
      simp only [hred, Bool.false_eq_true, if_false]; rfl
    rw [e1, e2]
    show (if _ then _ else coreRest r ordOut red (some wm) none) = (if _ then _ else coreRest r ordOut red none none)
    rw [coreRest_ignored _ _ _ hred]


/-- the result is a rejection -/
def IsErr (x : Except Err MapObj) : Prop := ∃ e, x = .error e

theorem isErr_error (e : Err) : IsErr (.error e) := ⟨e, rfl⟩

theorem isErr_ite {c : Prop} [Decidable c] {a b : Except Err MapObj} (ha : c → IsErr a)
    (hb : ¬ c → IsErr b) : IsErr (if c then a else b) := by
  by_cases hc : c
  · rw [if_pos hc]; exact ha hc
  · rw [if_neg hc]; exact hb hc

theorem agree_of_isErr {x y : Except Err MapObj} (hx : IsErr x) (hy : IsErr y) : Agree x y := by
  obtain ⟨e, rfl⟩ := hx
  obtain ⟨e', rfl⟩ := hy
  exact agree_errors _ _

theorem dorTail_wmean_noW_isErr (f : FileObj) (ordOut : Nat) (pixels : Option (List Nat))
    (wf : Option FileObj) (kind : Kind) : IsErr (dorTail f ordOut "wmean" pixels wf false kind) := by
  have e2 : (!floatReds.contains "wmean") = false := by decide +kernel
  have e3 : ("wmean" != "and" && "wmean" != "or") = true := by decide +kernel
  unfold dorTail
  cases kind with
  | packed => exact isErr_error _
  | wide n => simp only [e3, if_true]; exact isErr_error _
  | recd fs pr =>
    simp only [e2, Bool.false_eq_true, if_false, beq_self_eq_true, Bool.not_false, Bool.and_true,
      if_true]
    exact isErr_error _
  | plain dt0 =>
    simp only [isInt_wmean, e2, Bool.false_eq_true, if_false, beq_self_eq_true, Bool.not_false,
      Bool.and_true, if_true]
    exact isErr_error _

/-- `wmean` without a weight file is rejected by both paths (the exception classes differ for a
    wide mask: `NotImplementedError` on read, `ValueError` in memory) -/
theorem dor_wmean_no_weights (f : FileObj) {ordOut : Nat} (hlo : f.covord ≤ ordOut)
    (hhi : ordOut < f.spord) (pixels : Option (List Nat)) :
    IsErr (apiDegradeOnRead f ordOut "wmean" pixels none) ∧
    IsErr (apiReadThenDegrade f ordOut "wmean" pixels none) := by
  constructor
  · rw [apiDegradeOnRead_eq]
    unfold dorSpec
    cases dorPixels (cfgOf f.covord f.spord) f.file pixels with
    | none => exact isErr_error _
    | some px =>
      simp only [dorW1]
      refine isErr_ite (fun _ => isErr_error _) (fun _ => ?_)
      refine isErr_ite (fun _ => isErr_error _) (fun _ => ?_)
      refine isErr_ite (fun _ => isErr_error _) (fun _ => ?_)
      refine isErr_ite (fun _ => isErr_error _) (fun _ => ?_)
      cases fileKind f with
      | none => exact isErr_error _
      | some kind =>
        refine isErr_ite (fun _ => isErr_error _) (fun _ => ?_)
        refine isErr_ite (fun _ => isErr_error _) (fun _ => ?_)
        exact dorTail_wmean_noW_isErr _ _ _ _ _
  · rw [apiReadThenDegrade_none]
    cases hr : apiRead f pixels with
    | error e => exact isErr_error _
    | ok r =>
      obtain ⟨_, _, h1, h2, _⟩ := apiRead_ok hr
      show IsErr (apiDegrade r ordOut "wmean" none)
      rw [apiDegrade_inrange _ _ _ _ (h1 ▸ hlo) (h2 ▸ hhi), apiDegradeCore_eq]
      exact isErr_ite (fun _ => isErr_error _) (fun _ => isErr_error _)

/-- **unweighted**, without the exception-class claim: no exclusion of `wmean` on wide masks -/
theorem dor_unweighted_agree {f : FileObj} (hf : f.WF) {ordOut : Nat} (hlo : f.covord ≤ ordOut)
    (hhi : ordOut < f.spord) (red : String) (pixels : Option (List Nat))
    (hbool : fileKind f = some (.plain .bool) → (red == "and" || red == "or") = false)
    (hty : ∀ b sg, fileKind f = some (.plain (.int b sg)) → (red == "and" || red == "or") = true →
      ∀ v ∈ f.file.data.toList, v.isBoolV = false) :
    Agree (apiDegradeOnRead f ordOut red pixels none)
      (apiReadThenDegrade f ordOut red pixels none) := by
  by_cases hred : red = "wmean"
  · subst hred
    obtain ⟨h1, h2⟩ := dor_wmean_no_weights f hlo hhi pixels
    exact agree_of_isErr h1 h2
  · exact AgreeS.agree (dor_unweighted hf hlo hhi red pixels hbool hty
      (fun _ _ => by simpa using hred))


/-- outside `nside_coverage ≤ nside_out < nside_sparse` degrade-on-read always raises -/
theorem dor_out_of_range (f : FileObj) {ordOut : Nat} (h : ordOut ≥ f.spord ∨ ordOut < f.covord)
    (red : String) (pixels : Option (List Nat)) (wf : Option FileObj) :
    IsErr (apiDegradeOnRead f ordOut red pixels wf) := by
  rw [apiDegradeOnRead_eq]
  unfold dorSpec
  split
  · exact isErr_error _
  · split
    · exact isErr_error _
    · refine isErr_ite (fun _ => isErr_error _) (fun h1 => ?_)
      refine isErr_ite (fun _ => isErr_error _) (fun _ => ?_)
      refine isErr_ite (fun _ => isErr_error _) (fun _ => ?_)
      refine isErr_ite (fun _ => isErr_error _) (fun h2 => ?_)
      omega

/-- … while the in-memory path returns a copy at `nside_out = nside_sparse` -/
theorem rtd_at_sparse_order {f : FileObj} {pixels : Option (List Nat)} {r : MapObj}
    (hle : f.covord ≤ f.spord) (hr : apiRead f pixels = .ok r)
    (hnp : (r.kind == Kind.packed) = false) (red : String) :
    apiReadThenDegrade f f.spord red pixels none = .ok { r with cache := none } := by
  obtain ⟨_, _, h1, h2, _⟩ := apiRead_ok hr
  rw [apiReadThenDegrade_none, hr]
  show apiDegrade r f.spord red none = _
  unfold apiDegrade
  simp only [bind, Except.bind, pure, Except.pure, throw, throwThe, MonadExceptOf.throw]
  rw [← h2]
  have h3 : ¬ r.spord < r.covord := by omega
  simp [hnp, h3]

/-- **FINDING (boolean maps, `and` / `or`)**: for every boolean file, degrade-on-read with `and` /
    `or` succeeds (the file stores the map as int16) where read-then-degrade raises -/
theorem dor_bool_andor {f : FileObj} (hf : f.WF) (hk : fileKind f = some (.plain .bool))
    {ordOut : Nat} (hlo : f.covord ≤ ordOut) (hhi : ordOut < f.spord) {red : String}
    (hao : red = "and" ∨ red = "or") {pixels : Option (List Nat)} {px : List Nat}
    (hpx : dorPixels (fCfg f) f.file pixels = some px) :
    (∃ a, apiDegradeOnRead f ordOut red pixels none = .ok a) ∧
      apiReadThenDegrade f ordOut red pixels none = .error .value := by
  have hb := bitpack_false_of_not_packed hk rfl
  obtain ⟨rst, hread, _⟩ := read_facts hf hk hpx
  have e1 : (red == "and" || red == "or") = true := by
    rcases hao with rfl | rfl <;> decide +kernel
  have e2 : (!floatReds.contains red) = true := by
    rcases hao with rfl | rfl <;> decide +kernel
  have e3 : (red == "wmean") = false := by
    rcases hao with rfl | rfl <;> decide +kernel
  constructor
  · rw [apiDegradeOnRead_eq, dorSpec_none_eval hpx hlo hhi]
    simp only [hb, Bool.false_eq_true, if_false, hk, e1, Bool.not_true, Bool.false_and]
    unfold dorTail
    simp only [beq_self_eq_true, if_true, DT.isInt, Bool.true_and, e1]
    rw [degradeOnRead_eval hpx]
    exact ⟨_, rfl⟩
  · rw [apiReadThenDegrade_none, hread]
    show apiDegrade (readMap f (.plain .bool) rst) ordOut red none = _
    rw [apiDegrade_inrange _ _ _ _ hlo hhi, apiDegradeCore_eq]
    have : coreWeights (readMap f (.plain .bool) rst) red none = .ok none := by
      unfold coreWeights; simp only [e3, Bool.false_eq_true, if_false]; rfl
    rw [this]
    show (if _ then _ else coreRest (readMap f (.plain .bool) rst) ordOut red none none) = _
    unfold coreRest
    simp only [readMap, e1, Bool.not_true, Bool.false_and, Bool.false_eq_true, if_false, DT.isInt, e2, if_true]
    rfl

/-- on-read success with `wmean` means the weight file has the same resolutions and covers every
    coverage pixel processed IN WHICH THE MAP HAS AN OBSERVED PIXEL (what is left of H1 after the
    `fix:` commit; it follows from H2, see `dor_weighted`) -/
theorem dor_weighted_ok_H1 {f w : FileObj} {ordOut : Nat} {pixels : Option (List Nat)} {a : MapObj}
    (h : apiDegradeOnRead f ordOut "wmean" pixels (some w) = .ok a) :
    w.covord = f.covord ∧ w.spord = f.spord ∧
      ∃ px kind, dorPixels (fCfg f) f.file pixels = some px ∧ fileKind f = some kind ∧
        ∀ k ∈ px, covered (fCfg f) (readFull w.file) k = true ∨ observed f kind k = false := by
  rw [apiDegradeOnRead_eq] at h
  obtain ⟨px, kind, hpx, hco, _, _, _, hw2, hk, hw3, _⟩ := dorSpec_weighted_inv h
  have hso := ((dorW2_false_iff f w).1 hw2).1
  exact ⟨hco, hso, px, kind, hpx, hk, (dorW3_false_iff hco hso kind px).1 hw3⟩

/-- in-memory success with `wmean` means the two maps read have the same valid pixels (H2 is
    NECESSARY for the reference path) -/
theorem rtd_weighted_ok_H2 {f w : FileObj} (hf : f.WF) (hfk : f.KindOk) (hw : w.WF)
    {ordOut : Nat} (hlo : f.covord ≤ ordOut) (hhi : ordOut < f.spord)
    {pixels : Option (List Nat)} {b : MapObj}
    (h : apiReadThenDegrade f ordOut "wmean" pixels (some w) = .ok b) :
    ∃ r wm, apiRead f pixels = .ok r ∧ apiRead w pixels = .ok wm ∧ wm.covord = r.covord ∧
      wm.spord = r.spord ∧ ∀ p, p < r.npix → r.vc.valid (r.abs p) = wm.vc.valid (wm.abs p) := by
  obtain ⟨r, wm, hr, hwr, hdeg⟩ := rtd_weighted_inv h
  obtain ⟨kind, hk, h1, h2, h3, h4, _⟩ := apiRead_ok hr
  obtain ⟨_, wb, al, bl, arr, hwkind, hso, hco, hal, hbl, hs, _, _⟩ :=
    degrade_weighted_inv (r := r) (h1 ▸ hlo) (h2 ▸ hhi) hdeg
  refine ⟨r, wm, hr, hwr, hco, hso, ?_⟩
  have hrwf : r.WF := WF.apiRead hf hr
  have hwwf : wm.WF := WF.apiRead hw hwr
  have hbr : r.vc.valid r.vc.sentinel = false := (hfk kind hk r h3 h4).blankInvalid
  have hbw : wm.vc.valid wm.vc.sentinel = false := MapObj.blankInvalid_of_plain hwkind
  have hc : wm.c = r.c := by unfold MapObj.c; rw [hco, hso]
  have hinvw : Inv r.c wm.vc wm.st := hc ▸ hwwf.2
  have hal' : validPixels r.c wm.vc wm.st = some al := hc ▸ hal
  intro p hp
  have := valid_eq_of_sorted_eq hrwf.2 hbr hinvw hbw hal' hbl hs p hp
  rw [show wm.abs p = abs r.c wm.vc wm.st p by unfold MapObj.abs; rw [hc]]
  exact this

theorem coreRest_wmean_plain_flt (m : MapObj) (ordOut : Nat) {b0 : Nat}
    (hk : m.kind = .plain (.flt b0)) (hfit : cellsFitF64 m.st.sp = true) (w : Option MapObj)
    (wv : Option (Array Val)) :
    ∃ r, coreRest m ordOut "wmean" w wv = .ok r ∧
      r.kind = .plain (if isF64 w = true then .flt 64 else .flt b0) := by
  unfold coreRest
  have e2 : (!floatReds.contains "wmean") = false := by decide +kernel
  simp only [hfit, Bool.not_true, Bool.and_false, Bool.false_eq_true, if_false, hk, DT.isInt,
    Bool.false_and, e2, beq_self_eq_true, Bool.true_and]
  exact ⟨_, rfl, rfl⟩

/-- is the file's cell type an integer for the on-read path (booleans are stored as int16) -/
def intLike (dt : DT) : Bool := dt.isInt || dt == .bool

/-- kind of the map degrade-on-read returns -/
def dorOutKind (kind : Kind) (red : String) : Kind :=
  match kind with
  | .plain dt => if intLike dt && (red == "and" || red == "or") then kind else .plain (auxDT dt)
  | .recd fs pr => .recd (fs.map auxDT) pr
  | k => k

/-- sentinel of the map degrade-on-read returns -/
def dorOutSent (kind : Kind) (sent : Val) (red : String) : Val :=
  match kind with
  | .plain dt => if intLike dt && (red == "and" || red == "or") then sent else (auxDT dt).defaultSentinel
  | .recd fs pr => (auxDT (fs.getD pr (.flt 64))).defaultSentinel
  | _ => sent

/-- which reductions degrade-on-read accepts for a kind -/
def dorAccepts (kind : Kind) (red : String) : Bool :=
  match kind with
  | .packed => false
  | .wide _ => red == "and" || red == "or"
  | .recd _ _ => floatReds.contains red
  | .plain dt => (intLike dt && (red == "and" || red == "or")) || floatReds.contains red

theorem dorMk_ok {f : FileObj} {ordOut : Nat} {K : Kind} {S : Val} {st : Option (State Val)}
    {a : MapObj} (h : dorMk f ordOut K S st = .ok a) :
    a.covord = f.covord ∧ a.spord = ordOut ∧ a.kind = K ∧ a.sent = S := by
  unfold dorMk at h
  split at h
  · cases h; exact ⟨rfl, rfl, rfl, rfl⟩
  · cases h

theorem intLike_eq (dt0 : DT) :
    (if (dt0 == DT.bool) = true then DT.int 16 true else dt0).isInt = intLike dt0 := by
  cases dt0 <;> rfl

theorem dorTail_ok_rules {f : FileObj} {ordOut : Nat} {red : String} {pixels : Option (List Nat)}
    {wf : Option FileObj} {useW : Bool} {kind : Kind} {a : MapObj}
    (h : dorTail f ordOut red pixels wf useW kind = .ok a) :
    a.covord = f.covord ∧ a.spord = ordOut ∧ a.kind = dorOutKind kind red ∧
      a.sent = dorOutSent kind f.sentinel red ∧ dorAccepts kind red = true ∧
      ((red == "wmean") = true → useW = true) := by
  unfold dorTail at h
  cases kind with
  | packed => cases h
  | wide n =>
    simp only at h
    split at h
    · cases h
    · rename_i hc
      obtain ⟨h1, h2, h3, h4⟩ := dorMk_ok h
      refine ⟨h1, h2, h3, h4, ?_, ?_⟩
      · simp only [dorAccepts]
        cases ha : (red == "and") <;> cases ho : (red == "or") <;> simp_all [bne]
      · intro hw
        have : red = "wmean" := by simpa using hw
        subst this
        exact absurd (by decide +kernel) hc
  | recd fs pr =>
    simp only at h
    split at h
    · cases h
    · rename_i hfr
      split at h
      · cases h
      · rename_i hwm
        have hacc : dorAccepts (.recd fs pr) red = true := by simpa [dorAccepts] using hfr
        have huw : (red == "wmean") = true → useW = true := by
          intro hw; cases useW <;> simp_all
        split at h <;>
          (obtain ⟨h1, h2, h3, h4⟩ := dorMk_ok h
           exact ⟨h1, h2, h3, h4, hacc, huw⟩)
  | plain dt0 =>
    simp only [intLike_eq] at h
    split at h
    · rename_i hc
      obtain ⟨h1, h2, h3, h4⟩ := dorMk_ok h
      refine ⟨h1, h2, ?_, ?_, ?_, ?_⟩
      · rw [h3]; simp only [dorOutKind, hc, if_true]; cases dt0 <;> rfl
      · rw [h4]; simp only [dorOutSent, hc, if_true]
      · simp only [dorAccepts, hc, Bool.true_or]
      · intro hw
        have : red = "wmean" := by simpa using hw
        subst this
        rw [show ("wmean" == "and" || "wmean" == "or") = false by decide +kernel, Bool.and_false] at hc
        cases hc
    · rename_i hc
      split at h
      · cases h
      · rename_i hfr
        split at h
        · cases h
        · rename_i hwm
          have hacc : dorAccepts (.plain dt0) red = true := by
            simp only [dorAccepts, Bool.or_eq_true]; right; simpa using hfr
          have huw : (red == "wmean") = true → useW = true := by
            intro hw; cases useW <;> simp_all
          have e := auxDT_bool_dt dt0
          split at h <;>
            (obtain ⟨h1, h2, h3, h4⟩ := dorMk_ok h
             refine ⟨h1, h2, ?_, ?_, hacc, huw⟩
             · rw [h3, e]; simp only [dorOutKind, hc, Bool.false_eq_true, if_false]
             · rw [h4, e]; simp only [dorOutSent, hc, Bool.false_eq_true, if_false])

/-- **what a successful degrade-on-read returns** (kind recovery, accepted reductions, output dtype
    and sentinel rules): the kind `k` recovered from the header is not bit-packed, accepts the
    reduction, `nside_coverage ≤ nside_out < nside_sparse`, the result has the file's coverage
    order, the requested order, kind `dorOutKind k red` (integer / boolean → float64 except under
    `and`/`or`; float32 stays float32; records field by field) and sentinel `dorOutSent` -/
theorem dor_ok_rules {f : FileObj} {ordOut : Nat} {red : String} {pixels : Option (List Nat)}
    {wf : Option FileObj} {a : MapObj} (h : apiDegradeOnRead f ordOut red pixels wf = .ok a) :
    ∃ kind, fileKind f = some kind ∧ f.bitpack = false ∧ f.covord ≤ ordOut ∧ ordOut < f.spord ∧
      a.covord = f.covord ∧ a.spord = ordOut ∧ a.kind = dorOutKind kind red ∧
      a.sent = dorOutSent kind f.sentinel red ∧ dorAccepts kind red = true ∧
      ((red == "wmean") = true → ∃ w, wf = some w) := by
  rw [apiDegradeOnRead_eq] at h
  unfold dorSpec at h
  split at h
  · cases h
  · split at h
    · cases h
    · rename_i useW hW
      split at h
      · cases h
      · split at h
        · cases h
        · split at h
          · cases h
          · split at h
            · cases h
            · split at h
              · cases h
              · split at h
                · cases h
                · split at h
                  · cases h
                  · rename_i h1 hb _ h4 _ kind hk _ _
                    obtain ⟨g1, g2, g3, g4, g5, g6⟩ := dorTail_ok_rules h
                    refine ⟨kind, hk, by simpa using hb, by omega, by omega, g1, g2, g3, g4, g5, ?_⟩
                    intro hw
                    have hu := g6 hw
                    subst hu
                    unfold dorW1 at hW
                    cases wf with
                    | none => cases hW
                    | some w => exact ⟨w, rfl⟩


/-- kind of the map the in-memory `_degrade` returns -/
def coreOutKind (kind : Kind) (red : String) (w : Option MapObj) : Kind :=
  match kind with
  | .plain dt =>
    if dt.isInt && (red == "and" || red == "or") then kind
    else .plain (if red == "wmean" && isF64 w then .flt 64 else auxDT dt)
  | .recd fs pr => .recd (fs.map auxDT) pr
  | k => k

/-- which reductions the in-memory `_degrade` accepts for a kind (a BOOLEAN map does not accept
    `and` / `or`, unlike the on-read path: `dorAccepts`) -/
def coreAccepts (kind : Kind) (red : String) : Bool :=
  match kind with
  | .packed => false
  | .wide _ => red == "and" || red == "or"
  | .recd _ _ => floatReds.contains red
  | .plain dt => (dt.isInt && (red == "and" || red == "or")) || floatReds.contains red

theorem coreRest_ok_rules {m : MapObj} {ordOut : Nat} {red : String} {w : Option MapObj}
    {wv : Option (Array Val)} {b : MapObj} (h : coreRest m ordOut red w wv = .ok b) :
    b.covord = m.covord ∧ b.spord = ordOut ∧ b.kind = coreOutKind m.kind red w ∧
      coreAccepts m.kind red = true := by
  unfold coreRest at h
  simp only at h
  split at h
  · cases h
  · split at h
    · cases h
    · rename_i n hk
      split at h
      · cases h
      · rename_i hc
        cases h
        refine ⟨rfl, rfl, by rw [hk]; rfl, ?_⟩
        rw [hk]
        simp only [coreAccepts]
        cases ha : (red == "and") <;> cases ho : (red == "or") <;> simp_all [bne]
    · rename_i fs pr hk
      split at h
      · cases h
      · rename_i hfr
        cases h
        refine ⟨rfl, rfl, by rw [hk]; rfl, ?_⟩
        rw [hk]; simpa [coreAccepts] using hfr
    · rename_i dt hk
      split at h
      · rename_i hc
        cases h
        refine ⟨rfl, rfl, ?_, ?_⟩
        · rw [hk]; simp only [coreOutKind, hc, if_true]
        · rw [hk]; simp only [coreAccepts, hc, Bool.true_or]
      · rename_i hc
        split at h
        · cases h
        · rename_i hfr
          cases h
          refine ⟨rfl, rfl, ?_, ?_⟩
          · rw [hk]; simp only [coreOutKind, hc, Bool.false_eq_true, if_false]
          · rw [hk]; simp only [coreAccepts, Bool.or_eq_true]; right; simpa using hfr

/-- **what a successful read-then-degrade returns** (for `nside_coverage ≤ nside_out <
    nside_sparse`): as `dor_ok_rules`, with the in-memory dtype rule (`coreOutKind`: a float64
    weight map makes a `wmean` result float64 — F47) and the in-memory acceptance rule
    (`coreAccepts`: no `and` / `or` on boolean maps) -/
theorem rtd_ok_rules {f : FileObj} {ordOut : Nat} (hlo : f.covord ≤ ordOut) (hhi : ordOut < f.spord)
    {red : String} {pixels : Option (List Nat)} {wf : Option FileObj} {b : MapObj}
    (h : apiReadThenDegrade f ordOut red pixels wf = .ok b) :
    ∃ kind w', fileKind f = some kind ∧ f.bitpack = false ∧
      (∀ w, wf = some w → ∃ wm, apiRead w pixels = .ok wm ∧ w' = some wm) ∧ (wf = none → w' = none) ∧
      b.covord = f.covord ∧ b.spord = ordOut ∧ b.kind = coreOutKind kind red w' ∧
      coreAccepts kind red = true := by
  have key : ∀ r w', apiRead f pixels = .ok r → apiDegrade r ordOut red w' = .ok b →
      ∃ kind, fileKind f = some kind ∧ f.bitpack = false ∧ b.covord = f.covord ∧ b.spord = ordOut ∧
        b.kind = coreOutKind kind red w' ∧ coreAccepts kind red = true := by
    intro r w' hr hd
    obtain ⟨kind, hk, h1, h2, h3, _⟩ := apiRead_ok hr
    rw [apiDegrade_inrange _ _ _ _ (h1 ▸ hlo) (h2 ▸ hhi)] at hd
    split at hd
    · cases hd
    · rename_i hnp
      rw [apiDegradeCore_eq] at hd
      cases hcw : coreWeights r red w' with
      | error e => rw [hcw] at hd; cases hd
      | ok wv =>
        rw [hcw] at hd
        obtain ⟨g1, g2, g3, g4⟩ := coreRest_ok_rules (show coreRest r ordOut red w' wv = .ok b from hd)
        rw [h3] at g3 g4 hnp
        exact ⟨kind, hk, bitpack_false_of_not_packed hk (by simpa using hnp), g1.trans h1, g2, g3, g4⟩
  cases wf with
  | none =>
    rw [apiReadThenDegrade_none] at h
    cases hr : apiRead f pixels with
    | error e => rw [hr] at h; cases h
    | ok r =>
      rw [hr] at h
      obtain ⟨kind, a1, a2, a3, a4, a5, a6⟩ := key r none hr h
      exact ⟨kind, none, a1, a2, (fun w hw => nomatch hw), (fun _ => rfl), a3, a4, a5, a6⟩
  | some w =>
    obtain ⟨r, wm, hr, hwr, hd⟩ := rtd_weighted_inv h
    obtain ⟨kind, a1, a2, a3, a4, a5, a6⟩ := key r (some wm) hr hd
    refine ⟨kind, some wm, a1, a2, ?_, (fun hn => nomatch hn), a3, a4, a5, a6⟩
    intro w0 hw0
    cases hw0
    exact ⟨wm, hwr, rfl⟩

end ApiDor
end HS
