"""C01 — a sparse map reads and writes exactly like a dense HEALPix array."""
import gen

PID = 'C01'
RULE = ("seeded structured histories over every map kind: make_empty (optionally with cov_pixels) then 3-14 "
        "update_values_pix calls (replace/add/or/and/None; scalar or array values; duplicate pixels for accumulating "
        "operations; coverage growth in shuffled order; ~10% malformed calls that must be rejected), each followed by "
        "a state export (layout check + Lean abs on the real arrays + full dense read) and periodic reads through "
        "the other read paths; non-trivial = at least two distinct operation kinds and a growth step after the first")
ASSUMPTIONS = ["numpy fancy indexing / ufunc.at / resize semantics as written in Model/Core.lean, Model/Map.lean",
               "pixels outside [0, npix) are outside the property"]


def histories(rng, tier):
    n = 500 if tier == 'quick' else 3000
    out = []
    for _ in range(n):
        c = gen.rand_cfg(rng, max_npix=768 if tier == 'quick' else 3072)
        focus = rng.sample(range(c.ncov), min(c.ncov, rng.randint(2, 5)))
        h = [c.line(), 'state %s' % c.name]
        for _ in range(rng.randint(3, 14)):
            r = rng.random()
            if rng.random() < 0.04:
                h += gen.roundtrip_lines(rng, c.name)                # continue on the map as read back from a file
            if rng.random() < 0.1:
                for ln in gen.scattered_range_lines(rng, c):       # shuffled, interleaved allocation, then one long range
                    h += [ln, 'state %s' % c.name]
            if r < 0.1:
                h.append(gen.bad_upd_line(rng, c))
            elif r < 0.3:
                h.append(gen.updr_line(rng, c, focus=focus))         # half-open pixel ranges, both paths
            elif r < 0.38:
                a = rng.randrange(c.npix)
                b = rng.randint(a, min(c.npix, a + rng.choice([1, 5, 3 * c.nfine + 1])))
                if rng.random() < 0.15:
                    b = rng.choice([0, 0, a // 2])            # a slice that selects nothing (stop 0, stop < start)
                if rng.random() < 0.2:
                    h.append("set %s slice=%d:%d:%d none=1" % (c.name, a, b, rng.choice([1, 1, 2, 3])))
                else:
                    h.append("set %s slice=%d:%d:%d val=%s" % (c.name, a, b, rng.choice([1, 1, 2, 3]), c.val(rng)))
            else:
                ln = gen.upd_line(rng, c, focus=focus)
                if ' op=replace' in ln and 'none=1' not in ln and 'pix=_' not in ln and rng.random() < 0.4:
                    via = rng.choice(['setitem_arr', 'setitem_list', 'setitem_int'])
                    if via == 'setitem_int':
                        toks = ln.split()
                        one = [t for t in toks if t.startswith('pix=')][0].split(',')[0]
                        vtok = [t for t in toks if t.startswith('val=') or t.startswith('vals=')][0]
                        v1 = vtok.split('=', 1)[1].split(',')[0]
                        ln = ' '.join([t for t in toks if not t.startswith(('pix=', 'val=', 'vals='))] +
                                      [one, 'val=' + v1])
                    ln += ' via=' + via
                elif 'pix=_' not in ln and rng.random() < 0.15:
                    # update_values_pos at the pixel centres (hpgeom gives the centres)
                    import numpy as np
                    import hpgeom as hpg
                    pp = np.array([int(x) for x in [t for t in ln.split() if t.startswith('pix=')][0][4:].split(',')])
                    lon, lat = hpg.pixel_to_angle(2 ** c.spord, pp)
                    ln += ' lon=%s lat=%s' % (','.join(repr(float(x)) for x in lon), ','.join(repr(float(x)) for x in lat))
                h.append(ln)
            h.append('state %s' % c.name)
            if rng.random() < 0.3:
                h.append(gen.read_line(rng, c))
        out.append(h)
    return out


def nontrivial(h):
    ops = set()
    for ln in h:
        t = ln.split()
        if t[0] in ('upd', 'updr', 'set'):
            ops.add(next((x for x in t if x.startswith('op=')), 'op=replace') + ('none' if 'none=1' in t else ''))
    return len(ops) >= 2
