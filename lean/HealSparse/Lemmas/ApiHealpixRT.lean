/-
  C16 at the API level — HEALPix interchange on concrete map objects (Model/ApiHealpix.lean):
  the constructor from a dense array (`apiFromHealpix`), `generate_healpix_map`
  (`apiGenerateHealpix`), HEALPix-format files (`apiWriteHealpix`, `apiReadHealpix`: explicit and
  implicit) and RING addressing.  Helper lemmas for the API part of Props/C16.lean.

  Part 1: `apiFromHealpix` as a decision tree; when it raises; the map it builds.
  Part 2: `apiGenerateHealpix` as a pipeline (`genSingle`, exactness test, optional degrade,
          `exportFull`); the exported array, NEST and RING.
  Part 3: round trips dense array → map → dense array and map → dense array → map.
  Part 4: HEALPix-format files: explicit write then read = re-housing; explicit files in general;
          implicit files.
  Part 5: RING addressing through any pair of mutually inverse tables; the inverse table the
          driver computes.
-/
import HealSparse.Lemmas.WFWorld
import HealSparse.Lemmas.ApiDegrade
import HealSparse.Lemmas.Healpix
namespace HS
namespace ApiHealpixRT
open WFApi WFRes

/-! ### Part 1: the constructor from a dense HEALPix array -/

/-- the selection of the constructor, `healpix_map > UNSEEN`: a STRICT comparison of a numeric
    entry with `hpgeom.UNSEEN` (as float32 for a float32 array, as float64 otherwise);
    non-numeric entries (NaN is not modelled) are never selected -/
def hpSel (dt : DT) (v : Val) : Bool :=
  match v with
  | .num n e => dyLt (unseenOf dt).numD (n, e)
  | _ => false

/-- `apiFromHealpix` as an explicit decision tree -/
def fromHpSpec (covord spord : Nat) (dt : DT) (sentinel : Option Val) (hp : List Val)
    (sentIsPyInt : Bool) : Except Err MapObj :=
  if spord < covord then .error .value else
  if hp.length != (cfgOf covord spord).npix then .error .value else
  if dt.isInt && !(sentinel.isSome && sentIsPyInt) then .error .value else
  if dt.isFlt && (sentinel.isSome && sentIsPyInt) then .error .value else
  match checkSentinel dt sentinel with
  | .error e => .error e
  | .ok sent =>
    .ok { covord := covord, spord := spord, kind := .plain dt, sent := sent,
          st := convertHealpix (cfgOf covord spord) ⟨sent, (Kind.plain dt).valid sent⟩ hp.toArray (hpSel dt) }

theorem apiFromHealpix_eq (covord spord : Nat) (dt : DT) (sentinel : Option Val) (hp : List Val)
    (sentIsPyInt : Bool) :
    apiFromHealpix covord spord dt sentinel hp sentIsPyInt
      = fromHpSpec covord spord dt sentinel hp sentIsPyInt := by
  unfold apiFromHealpix fromHpSpec
  simp only [bind, Except.bind, pure, Except.pure, throw, throwThe, MonadExceptOf.throw, Bool.not_not]
  split
  · rfl
  · split
    · rfl
    · split
      · rfl
      · split
        · rfl
        · cases checkSentinel dt sentinel <;> rfl


theorem checkSentinel_err {dt : DT} {s : Option Val} {e : Err} (h : checkSentinel dt s = .error e) :
    e = .value := by
  unfold checkSentinel at h
  repeat' (split at h)
  all_goals first | (cases h; done) | (cases h; rfl)

/-- when `check_sentinel` accepts an explicit sentinel: a number for a float type, an integer in
    range for an integer type, a boolean for a boolean type -/
theorem checkSentinel_some_ok_iff (dt : DT) (v : Val) :
    (∃ s, checkSentinel dt (some v) = .ok s) ↔
      (∃ b n e, dt = .flt b ∧ v = .num n e) ∨
      (∃ b sg n, dt = .int b sg ∧ v = .num n 0 ∧ wrapInt b sg n = n) ∨
      (∃ x, dt = .bool ∧ v = .bool x) := by
  constructor
  · rintro ⟨s, h⟩
    unfold checkSentinel at h
    simp only at h
    split at h
    · rename_i b n e; exact .inl ⟨b, n, e, rfl, rfl⟩
    · rename_i b sg n
      split at h
      · rename_i hw; exact .inr (.inl ⟨b, sg, n, rfl, rfl, by simpa using hw⟩)
      · cases h
    · rename_i x; exact .inr (.inr ⟨x, rfl, rfl⟩)
    · cases h
  · rintro (⟨b, n, e, rfl, rfl⟩ | ⟨b, sg, n, rfl, rfl, hw⟩ | ⟨x, rfl, rfl⟩)
    · exact ⟨_, rfl⟩
    · refine ⟨.num n 0, ?_⟩
      unfold checkSentinel
      simp [hw]
    · exact ⟨_, rfl⟩

theorem checkSentinel_ok_val {dt : DT} {s : Option Val} {v : Val} (h : checkSentinel dt s = .ok v) :
    v = s.getD dt.defaultSentinel := by
  cases s with
  | none => cases h; rfl
  | some x => exact ApiDegrade.checkSentinel_some h

/-- **import, rejections**: the constructor raises (always `ValueError`) exactly when the array has
    the wrong length (or the orders are inconsistent), an integer array comes without an integer
    sentinel, a float array comes with an integer sentinel, or `check_sentinel` rejects the value -/
theorem fromHp_error_iff (covord spord : Nat) (dt : DT) (sentinel : Option Val) (hp : List Val)
    (sentIsPyInt : Bool) :
    (∃ e, apiFromHealpix covord spord dt sentinel hp sentIsPyInt = .error e) ↔
      (spord < covord ∨ hp.length ≠ (cfgOf covord spord).npix ∨
       (dt.isInt = true ∧ ¬ (sentinel.isSome = true ∧ sentIsPyInt = true)) ∨
       (dt.isFlt = true ∧ sentinel.isSome = true ∧ sentIsPyInt = true) ∨
       ∃ e, checkSentinel dt sentinel = .error e) := by
  rw [apiFromHealpix_eq]
  unfold fromHpSpec
  by_cases h1 : spord < covord
  · simp [h1]
  · by_cases h2 : hp.length = (cfgOf covord spord).npix
    · simp only [h1, h2, bne_self_eq_false, Bool.false_eq_true, if_false, ne_eq, not_true_eq_false,
        false_or]
      generalize dt.isInt = bI
      generalize dt.isFlt = bF
      generalize sentinel.isSome = bS
      cases bI <;> cases bF <;> cases bS <;> cases sentIsPyInt <;>
        simp <;> (cases checkSentinel dt sentinel <;> simp)
    · simp [h1, h2]

theorem fromHp_error_value {covord spord : Nat} {dt : DT} {sentinel : Option Val} {hp : List Val}
    {sentIsPyInt : Bool} {e : Err}
    (h : apiFromHealpix covord spord dt sentinel hp sentIsPyInt = .error e) : e = .value := by
  rw [apiFromHealpix_eq] at h
  unfold fromHpSpec at h
  repeat' (split at h)
  all_goals first
    | (cases h; rfl)
    | (cases h; exact checkSentinel_err ‹_›)
    | (cases h; done)

/-- **import, the map built**: orders, kind and sentinel as requested (`sentinel=None` gives the
    default sentinel of the dtype), the object is `Ok`; the map holds the array's entry at every
    SELECTED pixel (`hp[p] > UNSEEN`, strict) and ITS OWN sentinel elsewhere; a coverage pixel is
    covered iff it contains a selected pixel -/
theorem fromHp_ok {covord spord : Nat} {dt : DT} {sentinel : Option Val} {hp : List Val}
    {sentIsPyInt : Bool} {m : MapObj}
    (h : apiFromHealpix covord spord dt sentinel hp sentIsPyInt = .ok m) :
    m.covord = covord ∧ m.spord = spord ∧ m.kind = .plain dt ∧
    m.sent = sentinel.getD dt.defaultSentinel ∧ m.view = none ∧ m.Ok ∧
    hp.length = m.npix ∧
    (∀ p (hlt : p < hp.length), m.abs p = if hpSel dt hp[p] = true then hp[p] else m.sent) ∧
    (∀ k, k < m.c.ncov → (covered m.c m.st k = true ↔
      ∃ p, ∃ hlt : p < hp.length, hpSel dt hp[p] = true ∧ p >>> m.c.shift = k)) := by
  have hwf := WF.apiFromHealpix h
  have hko := KindOk.apiFromHealpix h
  rw [apiFromHealpix_eq] at h
  unfold fromHpSpec at h
  split at h
  · cases h
  · split at h
    · cases h
    · rename_i hlen
      split at h
      · cases h
      · split at h
        · cases h
        · split at h
          · cases h
          · rename_i sent hcs
            cases h
            have hlen'' : hp.length = (cfgOf covord spord).npix := by simpa using hlen
            have hlen' : hp.toArray.size = (cfgOf covord spord).npix := by simpa using hlen''
            obtain ⟨_, habs, hcov⟩ := convertHealpix_spec' (cfgOf covord spord)
              ⟨sent, (Kind.plain dt).valid sent⟩ hp.toArray (hpSel dt) hlen'
            have hrd : ∀ p (hlt : p < hp.length), rd hp.toArray p sent = hp[p] := by
              intro p hlt
              unfold rd
              simp [hlt]
            refine ⟨rfl, rfl, rfl, checkSentinel_ok_val hcs, rfl,
              ⟨hwf, hko, MapObj.sentOK_of_plain rfl⟩, hlen'', ?_, ?_⟩
            · intro p hlt
              have := habs p (by rw [← hlen']; simpa using hlt)
              simp only [hrd p hlt] at this
              exact this
            · intro k hk
              have := hcov k hk
              show covered (cfgOf covord spord) _ k = true ↔ _
              rw [this, List.any_eq_true]
              constructor
              · rintro ⟨p, hp1, hp2⟩
                have hlt : p < hp.length := by
                  have := List.mem_range.1 hp1
                  rw [← hlen'] at this; simpa using this
                simp only [Bool.and_eq_true, beq_iff_eq] at hp2
                refine ⟨p, hlt, ?_, hp2.2⟩
                rw [← hrd p hlt]; exact hp2.1
              · rintro ⟨p, hlt, hs, hk'⟩
                refine ⟨p, List.mem_range.2 (by rw [← hlen']; simpa using hlt), ?_⟩
                simp only [Bool.and_eq_true, beq_iff_eq]
                exact ⟨by rw [hrd p hlt]; exact hs, hk'⟩

/-! ### Part 2: `generate_healpix_map` -/

/-- the map that is exported: the map itself, or the single-field map of a record map -/
def genSingle (m : MapObj) (key : Option Nat) : Except Err MapObj :=
  match m.kind with
  | .recd _ _ =>
    (match key with
     | none => .error .value
     | some i => apiGetSingleCopy m i none)
  | .wide _ => .error .notImpl
  | _ => .ok m

/-- the value of the exported array outside the valid pixels: `hpgeom.UNSEEN` of the OUTPUT dtype
    (integer maps are exported as float64, float32 maps as float32); a boolean / bit-packed map
    is exported as booleans filled with ITS sentinel -/
def genFill (s : MapObj) : Val :=
  match s.kind with
  | .plain (.int _ _) => unseenOf (.flt 64)
  | .plain (.flt b) => unseenOf (.flt b)
  | _ => s.sent

/-- the export proper, at the resolution of `s` -/
def exportFull (s : MapObj) (perm : Option (Array Nat × Array Nat)) : Except Err (List Val) :=
  match (match perm with
    | none => generateHealpix s.c s.vc s.st (genFill s) id
    | some (n2r, r2n) =>
      generateHealpixRing s.c s.vc s.st (genFill s) id (fun p => rd n2r p 0) (fun r => rd r2n r 0)) with
  | some a => .ok a.toList
  | none => .error .index

/-- `apiGenerateHealpix` as an explicit pipeline -/
def genSpec (m : MapObj) (ordOut : Option Nat) (red : String) (key : Option Nat)
    (perm : Option (Array Nat × Array Nat)) : Except Err (List Val) :=
  match genSingle m key with
  | .error e => .error e
  | .ok single =>
    if !cellsFitF64 single.st.sp then .error .inexact else
    match (if ordOut.getD m.spord < m.spord then apiDegrade single (ordOut.getD m.spord) red none
           else if ordOut.getD m.spord > m.spord then .error .value else .ok single) with
    | .error e => .error e
    | .ok s => exportFull s perm

theorem apiGenerateHealpix_eq (m : MapObj) (ordOut : Option Nat) (red : String) (key : Option Nat)
    (perm : Option (Array Nat × Array Nat)) :
    apiGenerateHealpix m ordOut red key perm = genSpec m ordOut red key perm := by
  unfold apiGenerateHealpix
  extract_lets -underBinder jp1
  have hexp : ∀ (jpE : MapObj → Except Err (List Val)) (s : MapObj),
      jpE = (fun single =>
          match
            match single.kind with
            | Kind.plain (DT.int bits signed) => (unseenOf (DT.flt 64), (id : Val → Val))
            | Kind.plain (DT.flt b) => (unseenOf (DT.flt b), id)
            | x => (single.sent, id) with
          | (fill, conv) =>
            have c := single.c;
            have res :=
              match perm with
              | none => generateHealpix c single.vc single.st fill conv
              | some (n2r, r2n) =>
                generateHealpixRing c single.vc single.st fill conv (fun p => rd n2r p 0) fun r => rd r2n r 0;
            match res with
            | some a => pure a.toList
            | none => throw Err.index) → jpE s = exportFull s perm := by
    intro jpE s he
    subst he
    dsimp -zeta only
    unfold exportFull genFill
    cases hk : s.kind with
    | plain dt => cases dt <;> rfl
    | _ => rfl
  have h1 : ∀ single, jp1 single =
      (if !cellsFitF64 single.st.sp then .error .inexact else
        match (if ordOut.getD m.spord < m.spord then apiDegrade single (ordOut.getD m.spord) red none
           else if ordOut.getD m.spord > m.spord then .error .value else .ok single) with
        | .error e => .error e
        | .ok s => exportFull s perm) := by
    intro single
    simp -zeta only [jp1]
    extract_lets -underBinder jp2
    by_cases hc : (!cellsFitF64 single.st.sp) = true
    · rw [if_pos hc, if_pos hc]; rfl
    · rw [if_neg hc, if_neg hc]
      show jp2 () = _
      simp -zeta only [jp2]
      extract_lets -underBinder o jpE
      have hE := hexp jpE
      by_cases ho : o < m.spord
      · rw [if_pos ho, if_pos ho]
        cases apiDegrade single o red none with
        | error e => rfl
        | ok s => exact hE s rfl
      · rw [if_neg ho, if_neg ho]
        by_cases ho2 : o > m.spord
        · rw [if_pos ho2, if_pos ho2]; rfl
        · rw [if_neg ho2, if_neg ho2]
          exact hE single rfl
  unfold genSpec genSingle
  cases hk : m.kind with
  | recd fs pr =>
    cases key with
    | none => rfl
    | some i =>
      dsimp -zeta only
      cases apiGetSingleCopy m i none with
      | error e => rfl
      | ok single => exact h1 single
  | wide n => rfl
  | plain dt => exact h1 m
  | packed => exact h1 m


/-- **export, NEST**: the exported array has one entry per pixel, the map's value at every valid
    pixel and `genFill` (UNSEEN of the output dtype / the sentinel of a boolean map) elsewhere —
    whatever the map's own sentinel; it never raises on a well-formed map -/
theorem exportFull_nest {s : MapObj} (hwf : s.WF) (hv : s.BlankInvalid) :
    ∃ l, exportFull s none = .ok l ∧ l.length = s.npix ∧
      ∀ p (hlt : p < l.length), l[p] = if s.vc.valid (s.abs p) = true then s.abs p else genFill s := by
  obtain ⟨a, ha, hsz, hrd⟩ := hwf.2.generateHealpix_spec' hv (genFill s) id
  refine ⟨a.toList, ?_, (by simpa using hsz : a.toList.length = s.c.npix), ?_⟩
  · unfold exportFull; simp only [ha]
  · intro p hlt
    have hlt' : p < a.size := by simpa using hlt
    have := hrd p (by rw [← hsz]; exact hlt')
    unfold rd at this
    rw [Array.getElem?_eq_getElem hlt'] at this
    simp only [Option.getD_some, id] at this
    simp only [Array.getElem_toList]
    exact this

/-- **export, RING**: through ANY pair of mutually inverse tables `nest_to_ring` / `ring_to_nest`,
    entry `r` of the RING export is what the NEST export holds at `ring_to_nest r` -/
theorem exportFull_ring {s : MapObj} (hwf : s.WF) (hv : s.BlankInvalid) (n2r r2n : Array Nat)
    (hinv1 : ∀ p, p < s.npix → rd r2n (rd n2r p 0) 0 = p)
    (hinv2 : ∀ r, r < s.npix → rd n2r (rd r2n r 0) 0 = r)
    (hr1 : ∀ p, p < s.npix → rd n2r p 0 < s.npix) (hr2 : ∀ r, r < s.npix → rd r2n r 0 < s.npix) :
    ∃ l, exportFull s (some (n2r, r2n)) = .ok l ∧ l.length = s.npix ∧
      ∀ r (hlt : r < l.length), l[r] =
        if s.vc.valid (s.abs (rd r2n r 0)) = true then s.abs (rd r2n r 0) else genFill s := by
  obtain ⟨a, ha, hsz, hrd⟩ := hwf.2.generateHealpixRing_spec' hv (genFill s) id
    (fun p => rd n2r p 0) (fun r => rd r2n r 0) hinv1 hinv2 hr1 hr2
  refine ⟨a.toList, ?_, (by simpa using hsz : a.toList.length = s.c.npix), ?_⟩
  · unfold exportFull; simp only [ha]
  · intro r hlt
    have hlt' : r < a.size := by simpa using hlt
    have := hrd r (by rw [← hsz]; exact hlt')
    unfold rd at this
    rw [Array.getElem?_eq_getElem hlt'] at this
    simp only [Option.getD_some, id] at this
    simp only [Array.getElem_toList]
    exact this

/-- the two exports are the same array up to the permutation -/
theorem exportFull_ring_nest {s : MapObj} (hwf : s.WF) (hv : s.BlankInvalid) (n2r r2n : Array Nat)
    (hinv1 : ∀ p, p < s.npix → rd r2n (rd n2r p 0) 0 = p)
    (hinv2 : ∀ r, r < s.npix → rd n2r (rd r2n r 0) 0 = r)
    (hr1 : ∀ p, p < s.npix → rd n2r p 0 < s.npix) (hr2 : ∀ r, r < s.npix → rd r2n r 0 < s.npix) :
    ∃ ln lr, exportFull s none = .ok ln ∧ exportFull s (some (n2r, r2n)) = .ok lr ∧
      ln.length = s.npix ∧ lr.length = s.npix ∧
      ∀ r, r < s.npix → lr[r]? = ln[rd r2n r 0]? := by
  obtain ⟨ln, h1, h2, h3⟩ := exportFull_nest hwf hv
  obtain ⟨lr, g1, g2, g3⟩ := exportFull_ring hwf hv n2r r2n hinv1 hinv2 hr1 hr2
  refine ⟨ln, lr, h1, g1, h2, g2, ?_⟩
  intro r hr
  have hlr : r < lr.length := by rw [g2]; exact hr
  have hln : rd r2n r 0 < ln.length := by rw [h2]; exact hr2 r hr
  rw [List.getElem?_eq_getElem hlr, List.getElem?_eq_getElem hln, g3 r hlr, h3 _ hln]

/-- **what a successful export did**: the exported map `s` is the map itself (or its single-field
    map for a record map with a key), degraded to the requested order if that is coarser; every
    cell was exactly representable; `s` is again `Ok` -/
theorem gen_ok {m : MapObj} (hm : m.Ok) {ordOut : Option Nat} {red : String} {key : Option Nat}
    {perm : Option (Array Nat × Array Nat)} {l : List Val}
    (h : apiGenerateHealpix m ordOut red key perm = .ok l) :
    ∃ single s, genSingle m key = .ok single ∧ single.Ok ∧ cellsFitF64 single.st.sp = true ∧
      ((ordOut.getD m.spord = m.spord ∧ s = single) ∨
       (ordOut.getD m.spord < m.spord ∧ apiDegrade single (ordOut.getD m.spord) red none = .ok s)) ∧
      s.Ok ∧ exportFull s perm = .ok l := by
  rw [apiGenerateHealpix_eq] at h
  unfold genSpec at h
  split at h
  · cases h
  · rename_i single hs
    have hsok : single.Ok := by
      unfold genSingle at hs
      split at hs
      · split at hs
        · cases hs
        · exact (Ok.apiGetSingleCopy hm hs).1
      · cases hs
      · cases hs; exact hm
    split at h
    · cases h
    · rename_i hfit
      split at h
      · cases h
      · rename_i s hsel
        refine ⟨single, s, hs, hsok, by simpa using hfit, ?_, ?_, h⟩
        · split at hsel
          · rename_i ho; exact .inr ⟨ho, hsel⟩
          · split at hsel
            · cases hsel
            · cases hsel; exact .inl ⟨by omega, rfl⟩
        · split at hsel
          · exact Ok.apiDegrade hsok hsel
          · split at hsel
            · cases hsel
            · cases hsel; exact hsok

/-- **export at the map's own resolution never fails** on an `Ok` map that is neither a wide mask
    nor a record map, unless a cell is not exactly representable (`inexact`: no claim) -/
theorem gen_full_eq {m : MapObj} (hk : ∀ n, m.kind ≠ .wide n) (hr : ∀ fs pr, m.kind ≠ .recd fs pr)
    {ordOut : Option Nat} (ho : ordOut.getD m.spord = m.spord) (red : String) (key : Option Nat)
    (perm : Option (Array Nat × Array Nat)) :
    apiGenerateHealpix m ordOut red key perm =
      if cellsFitF64 m.st.sp = true then exportFull m perm else .error .inexact := by
  rw [apiGenerateHealpix_eq]
  unfold genSpec
  have hs : genSingle m key = .ok m := by
    unfold genSingle
    split
    · rename_i fs pr h; exact absurd h (hr fs pr)
    · rename_i n h; exact absurd h (hk n)
    · rfl
  rw [hs]
  simp only [ho, Nat.lt_irrefl, if_false, gt_iff_lt]
  cases cellsFitF64 m.st.sp <;> rfl

/-! ### Part 3: round trips -/

theorem dyLt_irrefl (a : Int × Nat) : dyLt a a = false := by
  unfold dyLt dyAlign
  simp

theorem unseenOf_num (dt : DT) : ∃ x, unseenOf dt = .num x 0 := by
  unfold unseenOf
  cases dt with
  | int b sg => exact ⟨_, rfl⟩
  | bool => exact ⟨_, rfl⟩
  | flt b =>
    by_cases hb : b = 32
    · subst hb; exact ⟨_, rfl⟩
    · refine ⟨unseen64, ?_⟩
      unfold auxDT DT.defaultSentinel
      split <;> first | rfl | (rename_i h; simp at h; omega) | skip
      all_goals simp_all

theorem auxDT_idem (dt : DT) : auxDT (auxDT dt) = auxDT dt := by cases dt <;> rfl

theorem unseenOf_aux (dt : DT) : unseenOf (auxDT dt) = unseenOf dt := by
  unfold unseenOf; rw [auxDT_idem]

/-- UNSEEN itself is not selected (the comparison is strict) -/
theorem hpSel_unseen (dt : DT) : hpSel dt (unseenOf dt) = false := by
  obtain ⟨x, hx⟩ := unseenOf_num dt
  unfold hpSel
  rw [hx]
  exact dyLt_irrefl _

theorem plain_valid (dt : DT) (s v : Val) : (Kind.plain dt).valid s v = (v != s) := rfl

theorem genFill_plain {m : MapObj} {dt : DT} (hk : m.kind = .plain dt) (hdt : dt ≠ .bool) :
    genFill m = unseenOf dt := by
  unfold genFill
  rw [hk]
  cases dt with
  | bool => exact absurd rfl hdt
  | int b sg => rfl
  | flt b => rfl


/-- **array → map → array** (numeric arrays): the export of the map built from `hp` holds `hp[p]`
    at every pixel that is selected (`> UNSEEN`) and differs from the map's sentinel, and UNSEEN
    (of the exported dtype) elsewhere -/
theorem gen_from {covord spord : Nat} {dt : DT} {sentinel : Option Val} {hp : List Val}
    {b : Bool} {m : MapObj} (h : apiFromHealpix covord spord dt sentinel hp b = .ok m)
    (hdt : dt ≠ .bool) (red : String) (key : Option Nat) :
    ∃ l, exportFull m none = .ok l ∧
      apiGenerateHealpix m none red key none
        = (if cellsFitF64 m.st.sp = true then .ok l else .error .inexact) ∧
      l.length = hp.length ∧
      ∀ p (h1 : p < hp.length) (h2 : p < l.length),
        l[p] = if hpSel dt hp[p] = true ∧ hp[p] ≠ m.sent then hp[p] else unseenOf dt := by
  obtain ⟨_, _, hk, _, _, hok, hlen, habs, _⟩ := fromHp_ok h
  obtain ⟨l, hl, hll, hlp⟩ := exportFull_nest hok.1 hok.2.1.blankInvalid
  refine ⟨l, hl, ?_, by rw [hll, hlen], ?_⟩
  · rw [gen_full_eq (by rw [hk]; intro n hn; cases hn) (by rw [hk]; intro fs pr hn; cases hn) rfl,
      hl]
  · intro p h1 h2
    rw [hlp p h2, habs p h1, genFill_plain hk hdt]
    have hv : ∀ v, m.vc.valid v = (v != m.sent) := by
      intro v; unfold MapObj.vc; rw [hk]; rfl
    rw [hv]
    by_cases hs : hpSel dt hp[p] = true
    · rw [if_pos hs]
      by_cases he : hp[p] = m.sent
      · rw [if_neg (by simp [he]), if_neg (by simp [he])]
      · rw [if_pos (by simpa using he), if_pos ⟨hs, he⟩]
    · rw [if_neg hs, if_neg (by simp), if_neg (fun hh => hs hh.1)]

/-- **array → map → array is the identity** on a float array imported with the default sentinel
    whose entries are all either selected (`> UNSEEN`) or UNSEEN itself (no entry below UNSEEN,
    no non-number), unless a cell is not exactly representable (`inexact`: no claim) -/
theorem gen_from_id {covord spord bits : Nat} {hp : List Val} {b : Bool} {m : MapObj}
    (h : apiFromHealpix covord spord (.flt bits) none hp b = .ok m)
    (hhp : ∀ v ∈ hp, hpSel (.flt bits) v = true ∨ v = unseenOf (.flt bits))
    (red : String) (key : Option Nat) :
    apiGenerateHealpix m none red key none
      = (if cellsFitF64 m.st.sp = true then .ok hp else .error .inexact) := by
  obtain ⟨l, _, hg, hlen, hlp⟩ := gen_from h (by intro hh; cases hh) red key
  have hsent : m.sent = unseenOf (.flt bits) := (fromHp_ok h).2.2.2.1
  have : l = hp := by
    apply List.ext_getElem hlen
    intro p h2 h1
    rw [hlp p h1 h2]
    rcases hhp hp[p] (List.getElem_mem h1) with hs | hu
    · have hne : hp[p] ≠ m.sent := by
        intro he
        rw [he, hsent, hpSel_unseen] at hs
        cases hs
      rw [if_pos ⟨hs, hne⟩]
    · have hns : ¬ (hpSel (.flt bits) hp[p] = true ∧ hp[p] ≠ m.sent) := by
        rintro ⟨hs, _⟩
        rw [hu, hpSel_unseen] at hs
        cases hs
      rw [if_neg hns, hu]
  rw [hg, this]

/-- re-importing an export always succeeds with the default sentinel (as the float type the map
    is exported as) -/
theorem from_gen_ok {m : MapObj} (hle : m.covord ≤ m.spord) {l : List Val} (hl : l.length = m.npix)
    (dt : DT) :
    ∃ m', apiFromHealpix m.covord m.spord (auxDT dt) none l false = .ok m' := by
  rw [apiFromHealpix_eq]
  unfold fromHpSpec
  have e1 : (auxDT dt).isInt = false := by cases dt <;> rfl
  have hl' : l.length = (cfgOf m.covord m.spord).npix := hl
  simp only [e1, hl', Nat.not_lt.2 hle, if_false, bne_self_eq_false, Bool.false_eq_true,
    Bool.false_and, Option.isSome_none, Bool.and_false]
  exact ⟨_, rfl⟩

/-- **map → array → map**: the map built from the export of a numeric map `m` (as the float type
    the map is exported as, with any accepted sentinel) holds `m`'s value at every valid pixel
    whose value lies above UNSEEN, and its own sentinel elsewhere; it covers exactly the coverage
    pixels holding such a pixel (allocated blocks without valid pixels are not re-created) -/
theorem from_gen {m : MapObj} (hm : m.Ok) {dt : DT} (hk : m.kind = .plain dt) (hdt : dt ≠ .bool)
    {l : List Val} (hl : exportFull m none = .ok l) {S : Option Val} {b : Bool} {m' : MapObj}
    (h : apiFromHealpix m.covord m.spord (auxDT dt) S l b = .ok m') :
    m'.covord = m.covord ∧ m'.spord = m.spord ∧ m'.kind = .plain (auxDT dt) ∧
    m'.sent = S.getD (unseenOf dt) ∧ m'.Ok ∧
    (∀ p, p < m.npix → m'.abs p =
      if m.vc.valid (m.abs p) = true ∧ hpSel dt (m.abs p) = true then m.abs p else m'.sent) ∧
    (∀ k, k < m'.c.ncov → (covered m'.c m'.st k = true ↔
      ∃ p, p < m.npix ∧ m.vc.valid (m.abs p) = true ∧ hpSel dt (m.abs p) = true ∧
        p >>> m'.c.shift = k)) := by
  obtain ⟨l0, hl0, hll, hlp⟩ := exportFull_nest hm.1 hm.2.1.blankInvalid
  rw [hl] at hl0
  cases hl0
  obtain ⟨g1, g2, g3, g4, _, gok, glen, gabs, gcov⟩ := fromHp_ok h
  have hsel : ∀ v, hpSel (auxDT dt) v = hpSel dt v := by
    intro v; unfold hpSel; rw [unseenOf_aux]
  have hfill : genFill m = unseenOf dt := genFill_plain hk hdt
  have hentry : ∀ p (hlt : p < l.length), hpSel (auxDT dt) l[p] = true ↔
      (m.vc.valid (m.abs p) = true ∧ hpSel dt (m.abs p) = true) := by
    intro p hlt
    rw [hlp p hlt, hsel]
    by_cases hv : m.vc.valid (m.abs p) = true
    · rw [if_pos hv]; exact ⟨fun hs => ⟨hv, hs⟩, fun hs => hs.2⟩
    · rw [if_neg hv, hfill, hpSel_unseen]
      exact ⟨fun hs => (nomatch hs), fun hs => absurd hs.1 hv⟩
  refine ⟨g1, g2, g3, ?_, gok, ?_, ?_⟩
  · rw [g4]; unfold unseenOf; rfl
  · intro p hp
    have hlt : p < l.length := by rw [hll]; exact hp
    rw [gabs p hlt]
    by_cases hs : hpSel (auxDT dt) l[p] = true
    · have := (hentry p hlt).1 hs
      rw [if_pos hs, if_pos this, hlp p hlt, if_pos this.1]
    · rw [if_neg hs, if_neg (fun hh => hs ((hentry p hlt).2 hh))]
  · intro k hk'
    rw [gcov k hk']
    constructor
    · rintro ⟨p, hlt, hs, hpk⟩
      have := (hentry p hlt).1 hs
      exact ⟨p, by rw [← hll]; exact hlt, this.1, this.2, hpk⟩
    · rintro ⟨p, hp, hv, hs, hpk⟩
      have hlt : p < l.length := by rw [hll]; exact hp
      exact ⟨p, hlt, (hentry p hlt).2 ⟨hv, hs⟩, hpk⟩

/-- **map → array → map is content-preserving for a float map** re-imported with its own
    sentinel, provided every valid value lies above UNSEEN: same kind, same sentinel, same value
    at every pixel (the coverage shrinks to the coverage pixels that hold a valid pixel) -/
theorem from_gen_float {m : MapObj} (hm : m.Ok) {bits : Nat} (hk : m.kind = .plain (.flt bits))
    {l : List Val} (hl : exportFull m none = .ok l) {m' : MapObj}
    (h : apiFromHealpix m.covord m.spord (.flt bits) (some m.sent) l false = .ok m')
    (hgt : ∀ p, p < m.npix → m.vc.valid (m.abs p) = true → hpSel (.flt bits) (m.abs p) = true) :
    m'.covord = m.covord ∧ m'.spord = m.spord ∧ m'.kind = m.kind ∧ m'.sent = m.sent ∧ m'.Ok ∧
    (∀ p, p < m.npix → m'.abs p = m.abs p) ∧
    (∀ k, k < m'.c.ncov → (covered m'.c m'.st k = true ↔
      ∃ p, p < m.npix ∧ m.vc.valid (m.abs p) = true ∧ p >>> m'.c.shift = k)) := by
  obtain ⟨g1, g2, g3, g4, gok, gabs, gcov⟩ :=
    from_gen hm hk (by intro hh; cases hh) hl (S := some m.sent) (b := false) h
  have g4' : m'.sent = m.sent := g4
  refine ⟨g1, g2, by rw [g3, hk]; rfl, g4', gok, ?_, ?_⟩
  · intro p hp
    rw [gabs p hp]
    by_cases hv : m.vc.valid (m.abs p) = true
    · rw [if_pos ⟨hv, hgt p hp hv⟩]
    · rw [if_neg (fun hh => hv hh.1), g4']
      have : m.vc.valid (m.abs p) = (m.abs p != m.sent) := by
        unfold MapObj.vc; rw [hk]; rfl
      rw [this] at hv
      have : m.abs p = m.sent := by simpa using hv
      exact this.symm
  · intro k hk'
    rw [gcov k hk']
    constructor
    · rintro ⟨p, hp, hv, _, hpk⟩; exact ⟨p, hp, hv, hpk⟩
    · rintro ⟨p, hp, hv, hpk⟩; exact ⟨p, hp, hv, hgt p hp hv, hpk⟩

/-! ### Part 4: HEALPix-format files -/

/-- the valid pixels of a map, in storage order (what `valid_pixels` lists) -/
def validList (m : MapObj) : List Nat := (validCells m.vc m.st).map (pixOfCell m.c m.st)

theorem mem_validList {m : MapObj} (hwf : m.WF) (hv : m.BlankInvalid) (p : Nat) :
    p ∈ validList m ↔ p < m.npix ∧ m.vc.valid (m.abs p) = true :=
  hwf.2.mem_validCells_map hv p

theorem nodup_validList {m : MapObj} (hwf : m.WF) (hv : m.BlankInvalid) : (validList m).Nodup :=
  hwf.2.nodup_validCells_map hv

theorem validPixels_validList {m : MapObj} (hwf : m.WF) (hv : m.BlankInvalid) :
    validPixels m.c m.vc m.st = some ((validList m).map fun p => ((p : Nat) : Int)) :=
  hwf.2.validPixels_eq hv

theorem map_toNat_cast (L : List Nat) : (L.map fun p => ((p : Nat) : Int)).map Int.toNat = L := by
  rw [List.map_map]
  conv => rhs; rw [← List.map_id L]
  apply List.map_congr_left
  intro p _
  simp

/-- the dtype of the explicit file: the map's, `bool` for a bit-packed map -/
def hpxDT (k : Kind) : Option DT :=
  match k with
  | .plain dt => some dt
  | .packed => some .bool
  | _ => none

/-- **explicit write**: the file lists the valid pixels (storage order) with their values, the
    map's order, dtype and sentinel; record maps → `NotImplementedError`, wide masks →
    `TypeError`; nothing else can go wrong on a well-formed map -/
theorem write_eq {m : MapObj} (hwf : m.WF) (hv : m.BlankInvalid) :
    apiWriteHealpix m =
      match m.kind with
      | .recd _ _ => .error .notImpl
      | .wide _ => .error .type
      | .packed => .ok (.explicit m.spord .bool m.sent (validList m) ((validList m).map m.abs))
      | .plain dt => .ok (.explicit m.spord dt m.sent (validList m) ((validList m).map m.abs)) := by
  unfold apiWriteHealpix
  simp only [bind, Except.bind, throw, throwThe, MonadExceptOf.throw,
    validPixels_validList hwf hv, map_toNat_cast]
  cases m.kind <;> rfl

/-- **explicit write, then read = re-housing** (plain maps): reading the written file with coverage
    order `co` is exactly `rehouse m co` (`make_empty_like(nside_coverage=…)` then
    `out[valid_pixels] = m[valid_pixels]`) — EXCEPT for a map without valid pixels, whose file
    cannot be read (`IndexError`: `data[0]` of an empty table) -/
theorem read_write_plain {m : MapObj} (hwf : m.WF) (hv : m.BlankInvalid) {dt : DT}
    (hk : m.kind = .plain dt) (co : Nat) (r2n : Option (Array Nat)) :
    apiReadHealpix (.explicit m.spord dt m.sent (validList m) ((validList m).map m.abs)) co r2n
      = if (validList m).isEmpty = true then .error .index else rehouse m co := by
  unfold apiReadHealpix rehouse
  simp only [bind, Except.bind, throw, throwThe, MonadExceptOf.throw,
    validPixels_validList hwf hv, map_toNat_cast, hk]


/-- what a successful index-array assignment `out[pix] = vals` did (as
    `ApiDegrade.apiUpdate_replace_ok`, with the two facts the checks establish: no repeated
    pixel, every pixel in range) -/
theorem apiUpdate_replace_ok' {e m1 : MapObj} {pix : List Nat} {vals : List Val}
    (h : apiUpdate e "replace" pix (some vals) false = .ok m1)
    (hlen : vals.length = pix.length) :
    m1.covord = e.covord ∧ m1.spord = e.spord ∧ m1.kind = e.kind ∧ m1.sent = e.sent ∧
    m1.view = e.view ∧
    ((pix = [] ∧ m1.st = e.st) ∨
     (vals.all (valMatchesKind e.kind) = true ∧ pix.Nodup ∧ (∀ p ∈ pix, p < e.npix) ∧
      m1.st = updatePix e.c e.vc e.st none (fun _ w => w) (pix.zip vals) false)) := by
  unfold apiUpdate at h
  simp only [bind, Except.bind, pure, Except.pure, throw, throwThe, MonadExceptOf.throw] at h
  repeat' xpeel h
  all_goals (cases h)
  all_goals first
    | exact ⟨rfl, rfl, rfl, rfl, rfl, .inl ⟨List.isEmpty_iff.1 ‹_›, rfl⟩⟩
    | (refine ⟨rfl, rfl, rfl, rfl, rfl, .inr ⟨by simpa using ‹¬(!vals.all (valMatchesKind e.kind)) = true›,
         ?_, lt_of_not_any_ge ‹_›, ?_⟩⟩
       · exact Classical.not_not.1 (fun hn => ‹¬ pix.eraseDups.length < pix.length›
           ((eraseDups_length_lt_iff pix).2 hn))
       · show updatePix e.c e.vc e.st (cellOp _ "replace").1 (cellOp _ "replace").2 _ false = _
         rw [ApiDegrade.cellOp_replace, ApiDegrade.single_pv_eq _ hlen])

/-- the value column of an explicit file as a function of the pixel -/
def colVal (pix : List Nat) (vals : List Val) (d : Val) (p : Nat) : Val :=
  (vals[pix.idxOf p]?).getD d

theorem zip_eq_map_colVal {pix : List Nat} {vals : List Val} (d : Val) (hnd : pix.Nodup)
    (hlen : vals.length = pix.length) :
    pix.zip vals = pix.map fun p => (p, colVal pix vals d p) := by
  apply List.ext_getElem
  · simp [hlen]
  · intro i h1 h2
    have hi : i < pix.length := by simpa [hlen] using h1
    have hv : i < vals.length := by rw [hlen]; exact hi
    simp only [List.getElem_zip, List.getElem_map]
    congr 1
    unfold colVal
    rw [hnd.idxOf_getElem i hi, List.getElem?_eq_getElem hv]
    rfl

/-- **reading an explicit file** (any file with as many values as pixels): orders, dtype and
    sentinel as recorded; a non-empty pixel column without repeats, every pixel in range, every
    value of the cell type; the map holds the listed value at every listed pixel and the
    sentinel elsewhere, and covers exactly the coverage pixels the listed pixels touch -/
theorem readExplicit_ok {so : Nat} {dt : DT} {S : Val} {pix : List Nat} {vals : List Val}
    {co : Nat} {r2n : Option (Array Nat)} {m : MapObj}
    (h : apiReadHealpix (.explicit so dt S pix vals) co r2n = .ok m)
    (hlen : vals.length = pix.length) :
    co ≤ so ∧ m.covord = co ∧ m.spord = so ∧ m.kind = .plain dt ∧ m.sent = S ∧ m.view = none ∧
    m.Ok ∧ pix ≠ [] ∧ pix.Nodup ∧ (∀ p ∈ pix, p < m.npix) ∧
    vals.all (valMatchesKind (.plain dt)) = true ∧
    (∀ p, p < m.npix → m.abs p = if p ∈ pix then colVal pix vals S p else S) ∧
    (∀ k, k < m.c.ncov → covered m.c m.st k = pix.any (fun p => p >>> m.c.shift == k)) := by
  have hok := (Ok.apiReadHealpix h).1
  unfold apiReadHealpix at h
  simp only [bind, Except.bind, throw, throwThe, MonadExceptOf.throw] at h
  split at h
  · cases h
  · rename_i hne
    have hne' : pix ≠ [] := by simpa using hne
    cases he : apiMakeEmpty co so (.plain dt) (some S) [] with
    | error x => rw [he] at h; cases h
    | ok e =>
      rw [he] at h
      obtain ⟨hle, e1, e2, e3, e4, e5⟩ := WFRes.apiMakeEmpty_ok he
      obtain ⟨_, hs, _⟩ := ApiDegrade.apiMakeEmpty_some_sent he
      have hes : e.sent = S := hs (fun n hn => nomatch hn)
      obtain ⟨g1, g2, g3, g4, g5, g6⟩ := apiUpdate_replace_ok' h hlen
      rcases g6 with ⟨hnil, _⟩ | ⟨hty, hnd, hlt, hst⟩
      · exact absurd hnil hne'
      · have hc1 : m.c = e.c := by unfold MapObj.c; rw [g1, g2]
        have hvc1 : m.vc = e.vc := by unfold MapObj.vc; rw [g3, g4]
        have hevs : e.vc.sentinel = S := by
          show e.kind.blank e.sent = S
          rw [e3, hes]; rfl
        have hest : e.st = makeEmpty e.c e.vc [] := by
          have : e.c = cfgOf co so := by unfold MapObj.c; rw [e1, e2]
          rw [e5, this]; unfold MapObj.vc; rw [e3]; rfl
        have hnp : m.npix = e.npix := by unfold MapObj.npix; rw [hc1]
        obtain ⟨f1, f2, f3⟩ := ApiDegrade.replace_fresh e.c e.vc pix (colVal pix vals S) hnd hlt
        have hst' : m.st = updatePix e.c e.vc (makeEmpty e.c e.vc []) none (fun _ (w : Val) => w)
            (pix.map fun p => (p, colVal pix vals S p)) false := by
          rw [hst, zip_eq_map_colVal S hnd hlen, ← hest]
        refine ⟨hle, g1.trans e1, g2.trans e2, g3.trans e3, g4.trans hes, g5.trans e4, hok, hne',
          hnd, fun p hp => by rw [hnp]; exact hlt p hp, by rw [← e3]; exact hty, ?_, ?_⟩
        · intro p hp
          show HS.abs m.c m.vc m.st p = _
          rw [hc1, hvc1, hst', f2 p (by show p < e.npix; rw [← hnp]; exact hp), hevs]
        · intro k hk
          rw [hc1, hst', f3 k (by rw [← hc1]; exact hk)]


theorem colVal_map {L : List Nat} (f : Nat → Val) (d : Val) {p : Nat} (hp : p ∈ L) :
    colVal L (L.map f) d p = f p := by
  unfold colVal
  have hi : L.idxOf p < L.length := List.idxOf_lt_length_iff.2 hp
  rw [List.getElem?_eq_getElem (by simpa using hi)]
  simp only [List.getElem_map, Option.getD_some]
  rw [List.getElem_idxOf hi]

/-- **explicit write, then read** (plain and bit-packed maps; `dt` = the dtype of the file,
    `hpxDT m.kind`; the statement holds for whatever dtype the file records): if
    the read succeeds, the map read has the requested coverage order, the map's sparse order and
    sentinel, kind `plain dt` (a bit-packed map comes back as a plain boolean map), the map's value
    at every valid pixel and the sentinel elsewhere, and covers exactly the coverage pixels that
    hold a valid pixel -/
theorem read_write_content {m : MapObj} (hm : m.Ok) {dt : DT}
    {co : Nat} {r2n : Option (Array Nat)} {m1 : MapObj}
    (h : apiReadHealpix (.explicit m.spord dt m.sent (validList m) ((validList m).map m.abs)) co r2n
      = .ok m1) :
    co ≤ m.spord ∧ m1.covord = co ∧ m1.spord = m.spord ∧ m1.kind = .plain dt ∧ m1.sent = m.sent ∧
    m1.Ok ∧ m1.npix = m.npix ∧
    (∀ p, p < m.npix → m1.abs p = if m.vc.valid (m.abs p) = true then m.abs p else m.sent) ∧
    (∀ k, k < m1.c.ncov → (covered m1.c m1.st k = true ↔
      ∃ p, p < m.npix ∧ m.vc.valid (m.abs p) = true ∧ p >>> m1.c.shift = k)) := by
  have hv := hm.2.1.blankInvalid
  obtain ⟨hle, g1, g2, g3, g4, _, gok, _, _, _, _, gabs, gcov⟩ := readExplicit_ok h (by simp)
  have hnp : m1.npix = m.npix := by
    show (cfgOf m1.covord m1.spord).npix = (cfgOf m.covord m.spord).npix
    rw [g1, g2, ApiDegrade.cfgOf_npix hle, ApiDegrade.cfgOf_npix hm.1.1]
  refine ⟨hle, g1, g2, g3, g4, gok, hnp, ?_, ?_⟩
  · intro p hp
    rw [gabs p (by rw [hnp]; exact hp)]
    by_cases hpl : p ∈ validList m
    · rw [if_pos hpl, if_pos ((mem_validList hm.1 hv p).1 hpl).2,
        colVal_map m.abs m.sent hpl]
    · rw [if_neg hpl, if_neg (fun hval => hpl ((mem_validList hm.1 hv p).2 ⟨hp, hval⟩))]
  · intro k hk
    rw [gcov k hk, List.any_eq_true]
    constructor
    · rintro ⟨p, hp, hpk⟩
      have := (mem_validList hm.1 hv p).1 hp
      exact ⟨p, this.1, this.2, by simpa using hpk⟩
    · rintro ⟨p, hp, hval, hpk⟩
      exact ⟨p, (mem_validList hm.1 hv p).2 ⟨hp, hval⟩, by simpa using hpk⟩

/-- **implicit files, NESTED**: reading = the constructor on the column, default sentinel -/
theorem readImplicit_nest (so : Nat) (dt : DT) (vals : List Val) (co : Nat)
    (r2n : Option (Array Nat)) :
    apiReadHealpix (.implicit so dt false vals) co r2n = apiFromHealpix co so dt none vals := rfl

/-- **implicit files, RING**: the column is first reordered with `ring_to_nest` -/
theorem readImplicit_ring (so : Nat) (dt : DT) (vals : List Val) (co : Nat) (t : Array Nat) :
    apiReadHealpix (.implicit so dt true vals) co (some t)
      = apiFromHealpix co so dt none
          (reorderRingToNest (fun i => rd t i 0) vals.toArray (.num 0 0)).toList := rfl

theorem foldl_setAt_size {α ι : Type} (L : List ι) (pos : ι → Nat) (val : ι → α) (A : Array α) :
    (L.foldl (fun a i => a.setIfInBounds (pos i) (val i)) A).size = A.size := by
  induction L generalizing A with
  | nil => rfl
  | cons x l ih => simp only [List.foldl_cons]; rw [ih]; simp

theorem getElem?_eq_some_rd {α : Type} {a : Array α} {i : Nat} (h : i < a.size) (d : α) :
    a[i]? = some (rd a i d) := by
  unfold rd; rw [Array.getElem?_eq_getElem h]; rfl

/-- the reordered column: entry `p` is the RING entry `nest_to_ring p`, for ANY pair of mutually
    inverse tables -/
theorem reordered_getElem (vals : List Val) (t n2r : Array Nat)
    (hinv : ∀ i, i < vals.length → rd n2r (rd t i 0) 0 = i)
    (hinv2 : ∀ p, p < vals.length → rd t (rd n2r p 0) 0 = p)
    (hn : ∀ p, p < vals.length → rd n2r p 0 < vals.length) :
    (reorderRingToNest (fun i => rd t i 0) vals.toArray (.num 0 0)).toList.length = vals.length ∧
    ∀ p, p < vals.length →
      (reorderRingToNest (fun i => rd t i 0) vals.toArray (.num 0 0)).toList[p]?
        = vals[rd n2r p 0]? := by
  have hsz : (reorderRingToNest (fun i => rd t i 0) vals.toArray (Val.num 0 0)).size = vals.length := by
    unfold reorderRingToNest
    rw [foldl_setAt_size]
    simp
  refine ⟨by simpa using hsz, ?_⟩
  intro p hp
  have hsp := reorderRingToNest_spec (fun i => rd t i 0) (fun p => rd n2r p 0) vals.toArray (.num 0 0)
    (by simpa using hinv) (by simpa using hinv2) (by simpa using hn) p (by simpa using hp)
  have h1 : p < (reorderRingToNest (fun i => rd t i 0) vals.toArray (Val.num 0 0)).size := by
    rw [hsz]; exact hp
  have h2 : rd n2r p 0 < vals.toArray.size := by simpa using hn p hp
  rw [Array.getElem?_toList, getElem?_eq_some_rd h1 (.num 0 0), hsp,
    ← getElem?_eq_some_rd h2 (.num 0 0)]
  simp

/-- **FINDING candidate (mirrored from the library)**: an implicit file with an INTEGER column can
    never be read — the reader calls the constructor with the default (float) sentinel, which an
    integer array rejects (`ValueError`) -/
theorem readImplicit_int {so : Nat} {dt : DT} (hdt : dt.isInt = true) (vals : List Val) (co : Nat)
    (ring : Bool) (t : Array Nat) :
    apiReadHealpix (.implicit so dt ring vals) co (some t) = .error .value := by
  have key : ∀ l, apiFromHealpix co so dt none l = .error .value := by
    intro l
    have herr := (fromHp_error_iff co so dt none l dt.isInt).2
      (.inr (.inr (.inl ⟨hdt, by simp⟩)))
    obtain ⟨e, he⟩ := herr
    rw [he, fromHp_error_value he]
  cases ring with
  | false => exact key _
  | true => exact key _

/-! ### Part 5: RING addressing, the inverse table of the driver -/

/-- `get_values_pix(pixels, nest=False)`: the RING numbers go through `ring_to_nest` first -/
def apiGetRing (m : MapObj) (r2n : Array Nat) (ring : List Nat) : Except Err (List Val) :=
  apiGet m (ring.map fun r => rd r2n r 0)

/-- `update_values_pix(pixels, values, nest=False, operation=…)` -/
def apiUpdateRing (m : MapObj) (op : String) (r2n : Array Nat) (ring : List Nat)
    (vals : Option (List Val)) (single : Bool) : Except Err MapObj :=
  apiUpdate m op (ring.map fun r => rd r2n r 0) vals single

theorem ring_of_nest (n2r r2n : Array Nat) (n : Nat)
    (hinv : ∀ p, p < n → rd r2n (rd n2r p 0) 0 = p) (P : List Nat) (hP : ∀ p ∈ P, p < n) :
    (P.map fun p => rd n2r p 0).map (fun r => rd r2n r 0) = P := by
  rw [List.map_map]
  conv => rhs; rw [← List.map_id P]
  apply List.map_congr_left
  intro p hp
  exact hinv p (hP p hp)

/-- **reading by RING numbers = NEST addressing through the permutation**, for any pair of tables
    with `ring_to_nest ∘ nest_to_ring = id` on the sphere -/
theorem getRing_eq (m : MapObj) (n2r r2n : Array Nat)
    (hinv : ∀ p, p < m.npix → rd r2n (rd n2r p 0) 0 = p) (P : List Nat) (hP : ∀ p ∈ P, p < m.npix) :
    apiGetRing m r2n (P.map fun p => rd n2r p 0) = apiGet m P := by
  unfold apiGetRing
  rw [ring_of_nest n2r r2n m.npix hinv P hP]

/-- **writing by RING numbers = NEST addressing through the permutation** (every operation, every
    error included) -/
theorem updateRing_eq (m : MapObj) (op : String) (n2r r2n : Array Nat)
    (hinv : ∀ p, p < m.npix → rd r2n (rd n2r p 0) 0 = p) (P : List Nat) (hP : ∀ p ∈ P, p < m.npix)
    (vals : Option (List Val)) (single : Bool) :
    apiUpdateRing m op r2n (P.map fun p => rd n2r p 0) vals single = apiUpdate m op P vals single := by
  unfold apiUpdateRing
  rw [ring_of_nest n2r r2n m.npix hinv P hP]

/-- conversely, any in-range RING request is the NEST request `ring_to_nest(ring)` -/
theorem getRing_def (m : MapObj) (r2n : Array Nat) (R : List Nat) :
    apiGetRing m r2n R = apiGet m (R.map fun r => rd r2n r 0) := rfl

/-- the `ring_to_nest` table the driver computes from the `nest_to_ring` table on the protocol
    line (`opGenhp`) -/
def invTable (n2r : List Nat) : Array Nat :=
  (List.range n2r.length).foldl (fun (acc : Array Nat) p => acc.setIfInBounds (rd n2r.toArray p 0) p)
    (Array.replicate n2r.length 0)

/-- the computed table IS the inverse, for every permutation table -/
theorem invTable_spec (n2r : List Nat) (g : Nat → Nat)
    (h1 : ∀ p, p < n2r.length → g (rd n2r.toArray p 0) = p)
    (h2 : ∀ r, r < n2r.length → rd n2r.toArray (g r) 0 = r)
    (hg : ∀ r, r < n2r.length → g r < n2r.length) :
    (invTable n2r).size = n2r.length ∧ ∀ r, r < n2r.length → rd (invTable n2r) r 0 = g r := by
  unfold invTable
  have hinj : ∀ a ∈ List.range n2r.length, ∀ b ∈ List.range n2r.length,
      rd n2r.toArray a 0 = rd n2r.toArray b 0 → a = b := by
    intro a ha b hb he
    rw [← h1 a (List.mem_range.1 ha), ← h1 b (List.mem_range.1 hb), he]
  obtain ⟨hsz, hin, _⟩ := foldl_setAt (List.range n2r.length) (fun p => rd n2r.toArray p 0)
    (fun p => p) (Array.replicate n2r.length 0) List.nodup_range hinj
  refine ⟨by rw [hsz]; simp, ?_⟩
  intro r hr
  have := hin (g r) (List.mem_range.2 (hg r hr)) (by simpa [h2 r hr] using hr)
  simp only [h2 r hr] at this
  show ((List.foldl (fun (a : Array Nat) p => a.setIfInBounds (rd n2r.toArray p 0) p)
    (Array.replicate n2r.length 0) (List.range n2r.length))[r]?).getD 0 = g r
  rw [this]
  rfl


/-! #### the driver operations -/

/-- `genhp … nest=0 n2r=…`: the driver exports through the table on the line and ITS computed
    inverse (`invTable`) -/
theorem opGenhp_ring_eq (w : World) (a : Args) (n : String) (rest : List String) (m : MapObj)
    (hpos : a.pos = n :: rest) (hget : w.get? n = some m)
    (hnb : ∀ fs pr i, m.kind = .recd fs pr → a.nat? "key" = some i →
      (fs[i]? == some DT.bool) = false)
    (hnest : (a.getD "nest" "1" == "1") = false) {n2r : List Nat}
    (hpn : parseNats (a.getD "n2r" "_") = some n2r) :
    opGenhp w a = (w, match apiGenerateHealpix m (a.nat? "ord") (a.getD "red" "mean") (a.nat? "key")
        (some (n2r.toArray, invTable n2r)) with
      | .ok l => showVals l
      | .error e => errLine e) := by
  unfold opGenhp withMap
  simp only [hpos, hget]
  have fin : (match (if (a.getD "nest" "1" == "1") = true then some none
        else match parseNats (a.getD "n2r" "_") with
          | some n2r =>
            some (some (n2r.toArray, (List.range n2r.length).foldl
              (fun (acc : Array Nat) p => acc.setIfInBounds (rd n2r.toArray p 0) p)
              (Array.replicate n2r.length 0)))
          | none => none) with
      | none => (w, "bad-op:n2r")
      | some perm =>
        match apiGenerateHealpix m (a.nat? "ord") (a.getD "red" "mean") (a.nat? "key") perm with
        | .ok l => (w, showVals l)
        | .error e => (w, errLine e)) = (w, match apiGenerateHealpix m (a.nat? "ord")
          (a.getD "red" "mean") (a.nat? "key") (some (n2r.toArray, invTable n2r)) with
        | .ok l => showVals l
        | .error e => errLine e) := by
    simp only [hnest, hpn, Bool.false_eq_true, if_false]
    unfold invTable
    cases apiGenerateHealpix m (a.nat? "ord") (a.getD "red" "mean") (a.nat? "key") _ <;> rfl
  split
  · rename_i fs pr i hk hkey
    rw [if_neg (by rw [hnb fs pr i hk hkey]; simp)]
    exact fin
  · rw [if_neg (by simp)]
    exact fin

/-- `genhp …` (NEST) -/
theorem opGenhp_nest_eq (w : World) (a : Args) (n : String) (rest : List String) (m : MapObj)
    (hpos : a.pos = n :: rest) (hget : w.get? n = some m)
    (hnb : ∀ fs pr i, m.kind = .recd fs pr → a.nat? "key" = some i →
      (fs[i]? == some DT.bool) = false)
    (hnest : (a.getD "nest" "1" == "1") = true) :
    opGenhp w a = (w, match apiGenerateHealpix m (a.nat? "ord") (a.getD "red" "mean") (a.nat? "key")
        none with
      | .ok l => showVals l
      | .error e => errLine e) := by
  unfold opGenhp withMap
  simp only [hpos, hget]
  have fin : (match (if (a.getD "nest" "1" == "1") = true then some none
        else match parseNats (a.getD "n2r" "_") with
          | some n2r =>
            some (some (n2r.toArray, (List.range n2r.length).foldl
              (fun (acc : Array Nat) p => acc.setIfInBounds (rd n2r.toArray p 0) p)
              (Array.replicate n2r.length 0)))
          | none => none) with
      | none => (w, "bad-op:n2r")
      | some perm =>
        match apiGenerateHealpix m (a.nat? "ord") (a.getD "red" "mean") (a.nat? "key") perm with
        | .ok l => (w, showVals l)
        | .error e => (w, errLine e)) = (w, match apiGenerateHealpix m (a.nat? "ord")
          (a.getD "red" "mean") (a.nat? "key") none with
        | .ok l => showVals l
        | .error e => errLine e) := by
    simp only [hnest, if_true]
    cases apiGenerateHealpix m (a.nat? "ord") (a.getD "red" "mean") (a.nat? "key") none <;> rfl
  split
  · rename_i fs pr i hk hkey
    rw [if_neg (by rw [hnb fs pr i hk hkey]; simp)]
    exact fin
  · rw [if_neg (by simp)]
    exact fin

/-- `hpxwrite m f=F`: the explicit file is stored under `F` -/
theorem opHpxwrite_eq (w : World) (a : Args) (n : String) (rest : List String) (m : MapObj)
    (hpos : a.pos = n :: rest) (hget : w.get? n = some m) {f : HpFile}
    (hw : apiWriteHealpix m = .ok f) :
    opHpxwrite w a = ({ w with hpfiles := ((a.getD "f" "f", f) ::
        w.hpfiles.filter (·.1 != a.getD "f" "f")) }, "ok") := by
  unfold opHpxwrite withMap
  simp only [hpos, hget, hw]

/-- `hpxread f=F covord=co r=R`: the map read is bound to `R` -/
theorem opHpxread_eq (w : World) (a : Args) {f : HpFile} {co : Nat}
    (hf : (w.hpfiles.find? (·.1 == a.getD "f" "f")).map (·.2) = some f)
    (hco : a.nat? "covord" = some co) {m : MapObj}
    (hr : apiReadHealpix f co ((a.get? "r2n").bind parseNats |>.map List.toArray) = .ok m) :
    opHpxread w a = (w.bind (a.getD "r" "tmp") { m with cache := none }, "ok") := by
  unfold opHpxread
  simp only [hf, hco, hr]

/-- `hpximplicit f=F spord=… dtype=… ordering=… vals=…`: the dense column is stored as an
    implicit file -/
theorem opHpximplicit_eq (w : World) (a : Args) {dt : DT} {so : Nat} {vals : List Val}
    (hdt : (a.get? "dtype").bind parseDT = some dt) (hso : a.nat? "spord" = some so)
    (hv : parseVals (a.getD "vals" "_") = some vals) :
    opHpximplicit w a = ({ w with hpfiles :=
        ((a.getD "f" "f", .implicit so dt (a.getD "ordering" "NESTED" == "RING") vals) ::
          w.hpfiles.filter (·.1 != a.getD "f" "f")) }, "ok") := by
  unfold opHpximplicit
  simp only [hdt, hso, hv]

/-- `fromhp … nest=0 r2n=…`: a RING array is reordered with the table on the line, then the
    constructor runs on the NEST array -/
theorem opFromhp_eq (w : World) (a : Args) {dt : DT} {co so : Nat} {sent : Option Val}
    {vals : List Val}
    (hdt : (a.get? "dtype").bind parseDT = some dt) (hco : a.nat? "covord" = some co)
    (hso : a.nat? "spord" = some so) (hs : optVal a "sentinel" = some sent)
    (hv : parseVals (a.getD "vals" "_") = some vals) {nest : List Val}
    (hn : ((a.getD "nest" "1" == "1") = true ∧ nest = vals) ∨
      ((a.getD "nest" "1" == "1") = false ∧ ∃ t, parseNats (a.getD "r2n" "_") = some t ∧
        nest = (reorderRingToNest (fun i => rd t.toArray i 0) vals.toArray (.num 0 0)).toList)) :
    opFromhp w a =
      match apiFromHealpix co so dt sent nest
          (a.getD "senttype" (if dt.isInt then "int" else "flt") == "int") with
      | .ok m => (w.bind (a.getD "r" "tmp") m, "ok")
      | .error e => (w, errLine e) := by
  unfold opFromhp
  simp only [hdt, hco, hso, hs, hv]
  rcases hn with ⟨h1, rfl⟩ | ⟨h1, t, ht, rfl⟩
  · simp only [h1, if_true]
    cases apiFromHealpix co so dt sent nest _ <;> rfl
  · simp only [h1, Bool.false_eq_true, if_false, ht, Option.map_some]
    cases apiFromHealpix co so dt sent _ _ <;> rfl

end ApiHealpixRT
end HS
