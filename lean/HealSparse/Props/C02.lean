/-
  C02 — all validity accounting interfaces agree.
  Property theorems only (helpers in HealSparse/Lemmas).
-/
import HealSparse.Lemmas.Core
import HealSparse.Lemmas.Coverage
import HealSparse.Model.Valid
import HealSparse.Model.SubMap
import HealSparse.Props.C04
import HealSparse.Lemmas.Valid
import HealSparse.Lemmas.SubMap
import HealSparse.Lemmas.CacheWorld
import HealSparse.Lemmas.ApiAccounting
namespace HS
namespace C02

variable {V : Type} [DecidableEq V]

/-- The set of valid pixels of the dense view, ascending. -/
def validSet (c : Cfg) (vc : VCfg V) (s : State V) : List Nat :=
  (List.range c.npix).filter fun p => vc.valid (abs c vc s p)

/-- valid children of coverage pixel `k` (offsets within the coverage pixel), ascending -/
def validIn (c : Cfg) (vc : VCfg V) (s : State V) (k : Nat) : List Nat :=
  (List.range c.nfine).filter fun j => vc.valid (abs c vc s (k * c.nfine + j))

/-- `valid_pixels` lists exactly the valid pixels of the dense view (in storage order,
    hence "up to permutation"), never raises, for every block order. -/
theorem validPixels_spec (c : Cfg) (vc : VCfg V) (s : State V) (h : Inv c vc s)
    (hv : vc.valid vc.sentinel = false) :
    ∃ l, validPixels c vc s = some l ∧
      l.Perm ((validSet c vc s).map fun p => ((p : Nat) : Int)) := by
  refine ⟨_, h.validPixels_eq hv, ?_⟩
  apply List.Perm.map
  unfold validSet
  rw [List.perm_ext_iff_of_nodup (h.nodup_validCells_map hv)
    (List.filter_sublist.nodup List.nodup_range)]
  intro p
  rw [h.mem_validCells_map hv p]
  simp

/-- `n_valid` (when computed) is the number of valid pixels. -/
theorem nValid_eq (c : Cfg) (vc : VCfg V) (s : State V) (h : Inv c vc s)
    (hv : vc.valid vc.sentinel = false) :
    nValid vc s = (validSet c vc s).length := by
  obtain ⟨l, hl, hperm⟩ := validPixels_spec c vc s h hv
  rw [h.validPixels_eq hv] at hl
  cases hl
  have := hperm.length_eq
  simpa [nValid] using this

/-- `coverage_map[k] * nfine` is the number of valid pixels inside coverage pixel `k`. -/
theorem coverageCounts_eq (c : Cfg) (vc : VCfg V) (s : State V) (h : Inv c vc s)
    (hv : vc.valid vc.sentinel = false) (k : Nat) (hk : k < c.ncov) :
    (coverageCounts c vc s)[k]? = some (validIn c vc s k).length := by
  unfold coverageCounts
  simp only [List.getElem?_map, List.getElem?_range hk, Option.map_some]
  congr 1
  have hfind := h.find_block hk
  split
  · rename_i b hf
    rw [hf] at hfind
    simp only at hfind
    unfold blockCount validIn
    rw [filter_block c vc s hfind.2]
  · rename_i hf
    rw [hf] at hfind
    simp only at hfind
    unfold validIn
    rw [h.filter_uncovered hv hk hfind]
    rfl

/-- `valid_pixels_single_covpix(k)` lists exactly the valid pixels inside coverage pixel `k`. -/
theorem vpsc_eq (c : Cfg) (vc : VCfg V) (s : State V) (h : Inv c vc s)
    (hv : vc.valid vc.sentinel = false) (k : Nat) (hk : k < c.ncov) :
    validPixelsSingleCovpix c vc s k =
      some ((validIn c vc s k).map fun j => (((k * c.nfine + j : Nat) : Nat) : Int)) := by
  unfold validPixelsSingleCovpix
  cases hc : covered c s k with
  | false =>
    unfold validIn
    rw [h.filter_uncovered hv hk hc]
    rfl
  | true =>
    obtain ⟨b, hb, hbs⟩ := h.covered_blk hk hc
    have hstart : (blockStart c s k).toNat = (b + 1) * c.nfine := by
      rw [hbs]; exact Int.toNat_natCast _
    have hcp : covPixFromIndex c s ((b + 1) * c.nfine) = some k := by
      unfold covPixFromIndex
      simp only
      have : (b + 1) * c.nfine / c.nfine = b + 1 := Nat.mul_div_cancel _ c.nfine_pos
      rw [this, if_neg (by omega)]
      exact h.blockToCov_of_bs hk hb hbs
    simp only [Bool.not_true, Bool.false_eq_true, if_false, hstart, hcp]
    unfold validIn
    rw [filter_block c vc s hbs]
    congr 1
    apply List.map_congr_left
    intro j _
    unfold blockStart at hbs
    omega

/-- The coverage mask contains every coverage pixel that holds a valid pixel. -/
theorem coverageMask_complete (c : Cfg) (vc : VCfg V) (s : State V) (h : Inv c vc s)
    (hv : vc.valid vc.sentinel = false) (p : Nat) (hp : p < c.npix)
    (hval : vc.valid (abs c vc s p) = true) : covered c s (p >>> c.shift) = true := by
  exact h.covered_of_valid hv hp hval

/-- configuration and cell parameters of a fracdet map (`sentinel = 0`) -/
def fracCfg (c : Cfg) (g : Nat) : Cfg := ⟨c.ncov, c.shift - g⟩
def fracVC : VCfg Nat := ⟨0, fun n => n != 0⟩

/-- The fracdet map is a well-formed map. -/
theorem fracdet_inv (c : Cfg) (vc : VCfg V) (s : State V) (h : Inv c vc s)
    (hv : vc.valid vc.sentinel = false) (g : Nat) (hg : g ≤ c.shift) :
    Inv (fracCfg c g) fracVC (fracdetCounts c vc s g) := by
  exact h.fracdet_inv' hv hg

/-- `fracdet_map(n)[q] * 2^g` = number of valid children of coarse pixel `q`
    (valid iff > 0 follows from `fracVC.valid`), for every permitted resolution and
    every block order. -/
theorem fracdet_eq (c : Cfg) (vc : VCfg V) (s : State V) (h : Inv c vc s)
    (hv : vc.valid vc.sentinel = false) (g : Nat) (hg : g ≤ c.shift)
    (q : Nat) (hq : q < (fracCfg c g).npix) :
    abs (fracCfg c g) fracVC (fracdetCounts c vc s g) q =
      ((List.range (2 ^ g)).filter fun j => vc.valid (abs c vc s (q * 2 ^ g + j))).length := by
  exact h.fracdet_eq' hv hg hq

/-- The fracdet map has the source's coverage mask. -/
theorem fracdet_covered (c : Cfg) (vc : VCfg V) (s : State V) (h : Inv c vc s)
    (hv : vc.valid vc.sentinel = false) (g : Nat) (hg : g ≤ c.shift) (k : Nat) (hk : k < c.ncov) :
    covered (fracCfg c g) (fracdetCounts c vc s g) k = covered c s k := by
  have _ := hv
  have _ := hg
  exact h.fracdet_covered' hk

/-- At coverage resolution the fracdet map coincides with the coverage-fraction map. -/
theorem fracdet_cov_eq_coverageCounts (c : Cfg) (vc : VCfg V) (s : State V) (h : Inv c vc s)
    (hv : vc.valid vc.sentinel = false) (k : Nat) (hk : k < c.ncov) :
    (coverageCounts c vc s)[k]? =
      some (abs (fracCfg c c.shift) fracVC (fracdetCounts c vc s c.shift) k) := by
  rw [coverageCounts_eq c vc s h hv k hk]
  have hq : k < (fracCfg c c.shift).npix := by
    simp [fracCfg, Cfg.npix, Cfg.nfine, hk]
  rw [fracdet_eq c vc s h hv c.shift (Nat.le_refl _) k hq]
  rfl

/-! ### the `n_valid` cache -/

/-- an API call as seen by the cache: a query of `n_valid`, or any mutator (all of which
    reset the cache in the model, mirroring `self._n_valid = None`) -/
inductive CacheOp (V : Type) where
  | query
  | mutate (f : State V → State V)

structure Cached (V : Type) where
  st : State V
  cache : Option Nat

def Cached.step (vc : VCfg V) (m : Cached V) : CacheOp V → Cached V × Option Nat
  | .query =>
    match m.cache with
    | some n => (m, some n)
    | none => ({ m with cache := some (nValid vc m.st) }, some (nValid vc m.st))
  | .mutate f => ({ st := f m.st, cache := none }, none)

/-- run a history, collecting (state at query time, answer) for every query -/
def Cached.run (vc : VCfg V) : Cached V → List (CacheOp V) → List (State V × Nat)
  | _, [] => []
  | m, op :: ops =>
    match Cached.step vc m op with
    | (m', some n) => (m'.st, n) :: Cached.run vc m' ops
    | (m', none) => Cached.run vc m' ops

/-- An earlier query never makes a later answer stale: every answer is the count of the
    state at the time of the query, for every interleaving of queries and mutators. -/
theorem cache_coherent (vc : VCfg V) (s : State V) (ops : List (CacheOp V)) :
    ∀ sn ∈ Cached.run vc ⟨s, none⟩ ops, sn.2 = nValid vc sn.1 := by
  suffices H : ∀ (m : Cached V), (m.cache = none ∨ m.cache = some (nValid vc m.st)) →
      ∀ sn ∈ Cached.run vc m ops, sn.2 = nValid vc sn.1 from H ⟨s, none⟩ (Or.inl rfl)
  induction ops with
  | nil => intro m _ sn hsn; cases hsn
  | cons op ops ih =>
    intro m hm sn hsn
    cases op with
    | mutate f =>
      exact ih ⟨f m.st, none⟩ (Or.inl rfl) sn hsn
    | query =>
      rcases hm with hm | hm
      · simp only [Cached.run, Cached.step, hm, List.mem_cons] at hsn
        rcases hsn with rfl | hsn
        · rfl
        · exact ih _ (Or.inr rfl) sn hsn
      · simp only [Cached.run, Cached.step, hm, List.mem_cons] at hsn
        rcases hsn with rfl | hsn
        · rfl
        · exact ih _ (Or.inr hm) sn hsn

/-- `get_single_covpix_map(k)` (the per-coverage-pixel sub-maps of `get_covpix_maps`): a
    well-formed map that is exactly the restriction of the map to coverage pixel `k` — same
    values inside it, the sentinel elsewhere, covered iff the source covers `k` — so the valid
    pixels of the sub-maps partition the valid set. -/
theorem singleCovpix_spec (c : Cfg) (vc : VCfg V) (s : State V) (k : Nat) (h : Inv c vc s) (hk : k < c.ncov) :
    Inv c vc (singleCovpixMap c vc s k) ∧
    (∀ p, p < c.npix → abs c vc (singleCovpixMap c vc s k) p
        = if p >>> c.shift = k then abs c vc s p else vc.sentinel) ∧
    (∀ j, j < c.ncov → covered c (singleCovpixMap c vc s k) j = (decide (j = k) && covered c s k)) := by
  exact singleCovpixMap_spec' c vc s k h hk

/-- non-vacuity: shuffled block order, one valid pixel per block -/
example : validPixels (V := Nat) ⟨3, 1⟩ ⟨0, fun x => x != 0⟩ ⟨#[4, -2, -2], #[0, 0, 7, 0, 0, 9]⟩
    = some [4, 1] := by decide +kernel

/-! ### the `n_valid` cache at the world level: every protocol history

`cache_coherent` above is the abstract argument (a mutator resets, a query fills).  Here it is
proved of the executable driver itself: along ANY history (`runLines`, Model/WellFormed.lean) the
cached count of a stored map is the count of its current storage, for each of the 51 operations
of Model/Dispatch.lean (Lemmas/CacheWorld.lean: `World.CachePool`, `Good2.step`). -/

/-- the cached `n_valid` of every map that owns its storage is never stale -/
theorem reachable_cache_fresh (lines : List String) :
    ∀ e ∈ (runLines lines).pool, e.2.view = none → e.2.CacheFresh :=
  (Good2.runLines lines).2.1

/-- a view descriptor never holds a count (after the `fix:` commit a view does not cache
    `n_valid`: its storage changes whenever its parent is written) -/
theorem reachable_view_cache_empty (lines : List String) :
    ∀ e ∈ (runLines lines).pool, e.2.view ≠ none → e.2.cache = none :=
  (Good2.runLines lines).2.2

/-- whatever a history can look up (views included, resolved against their parents) has a
    fresh cache -/
theorem reachable_get_cache_fresh (lines : List String) (n : String) (m : MapObj)
    (h : (runLines lines).get? n = some m) : m.CacheFresh :=
  (Good2.runLines lines).2.get h

/-- **`n_valid` always answers the number of valid cells**, whatever was queried and mutated
    before: for any name `n` that resolves to `m` (an owning map or a view), the operation
    `nvalid n …` answers `toString (nValid m.vc m.st)` — except the one special case of the
    string path (`path=str`) of a bit-packed map whose count is not cached, which answers
    `nocount` (the `__str__` of a bit-packed map does not compute it) -/
theorem reachable_nvalid (lines : List String) (a : Args) (n : String) (rest : List String)
    (m : MapObj) (ha : a.pos = n :: rest) (h : (runLines lines).get? n = some m) :
    (stepArgs (runLines lines) "nvalid" a).2 =
      if (m.cache.isNone && (a.get? "path" == some "str" && m.kind == .packed)) = true then "nocount"
      else toString (nValid m.vc m.st) := by
  rw [stepArgs_nvalid]
  exact nvalid_answer (Good2.runLines lines).2 ha h

/-- … in particular for the plain query (no `path=str`), and for every map that is not bit-packed -/
theorem reachable_nvalid' (lines : List String) (a : Args) (n : String) (rest : List String)
    (m : MapObj) (ha : a.pos = n :: rest) (h : (runLines lines).get? n = some m)
    (hp : a.get? "path" ≠ some "str" ∨ m.kind ≠ .packed) :
    (stepArgs (runLines lines) "nvalid" a).2 = toString (nValid m.vc m.st) := by
  rw [reachable_nvalid lines a n rest m ha h, if_neg]
  intro hc
  simp only [Bool.and_eq_true, beq_iff_eq] at hc
  rcases hp with hp | hp
  · exact hp hc.2.1
  · exact hp hc.2.2

/-- … and that number is the number of valid pixels of the dense view (`nValid_eq`, with the
    layout and typing facts of `C04.reachable_get_ok`) -/
theorem reachable_nvalid_count (lines : List String) (a : Args) (n : String) (rest : List String)
    (m : MapObj) (ha : a.pos = n :: rest) (h : (runLines lines).get? n = some m)
    (hp : a.get? "path" ≠ some "str" ∨ m.kind ≠ .packed) :
    (stepArgs (runLines lines) "nvalid" a).2 = toString (validSet m.c m.vc m.st).length := by
  obtain ⟨hwf, hk, _⟩ := C04.reachable_get_ok lines n m h
  rw [reachable_nvalid' lines a n rest m ha h hp, nValid_eq m.c m.vc m.st hwf.2 hk.blankInvalid]

/-- non-vacuity: the histories of Lemmas/CacheWorld.lean (an owning map queried, updated and
    queried again; a view queried around a write of its parent) with their evaluated answers -/
example : (∀ e ∈ (runLines exCacheOwning).pool, e.2.view = none → e.2.CacheFresh) ∧
    (∀ m, (runLines exStaleView).get? "v" = some m → m.CacheFresh) :=
  ⟨reachable_cache_fresh _, fun m h => reachable_get_cache_fresh _ _ m h⟩

#guard answers exCacheOwning == ["ok", "ok", "1", "1", "ok", "3"]
#guard answers exStaleView == ["ok", "ok", "ok", "1", "ok", "2", "2"]

/-! ## Driver level: the accounting observers of the protocol -/

section driver
open ApiAccounting (countUnder fracMap fracVal)

/-- the dense valid set of a map object: the ONE list every observer below is a function of -/
abbrev vsOf (m : MapObj) : List Nat := validSet m.c m.vc m.st

/-! the helper lemmas of Lemmas/ApiAccounting.lean (which restates `validSet` / `validIn`: this
file imports it) in the vocabulary of this file -/

theorem validSet_bridge {V : Type} (c : Cfg) (vc : VCfg V) (s : State V) :
    ApiAccounting.validSet c vc s = validSet c vc s := rfl
theorem validIn_bridge {V : Type} (c : Cfg) (vc : VCfg V) (s : State V) (k : Nat) :
    ApiAccounting.validIn c vc s k = validIn c vc s k := rfl

theorem validSet_sorted {V : Type} (c : Cfg) (vc : VCfg V) (s : State V) :
    (validSet c vc s).Pairwise (· < ·) := ApiAccounting.validSet_sorted c vc s

theorem mem_validSet {V : Type} {c : Cfg} {vc : VCfg V} {s : State V} {p : Nat} :
    p ∈ validSet c vc s ↔ p < c.npix ∧ vc.valid (abs c vc s p) = true := ApiAccounting.mem_validSet

theorem validIn_sorted {V : Type} (c : Cfg) (vc : VCfg V) (s : State V) (k : Nat) :
    (validIn c vc s k).Pairwise (· < ·) := ApiAccounting.validIn_sorted c vc s k

theorem validSet_eq_flatMap {V : Type} (c : Cfg) (vc : VCfg V) (s : State V) :
    validSet c vc s =
      (List.range c.ncov).flatMap fun k => (validIn c vc s k).map fun j => k * c.nfine + j :=
  ApiAccounting.validSet_eq_flatMap c vc s

theorem validIn_eq_filter {V : Type} (c : Cfg) (vc : VCfg V) (s : State V) {K : Nat} (hK : K < c.ncov) :
    ((validIn c vc s K).map fun j => K * c.nfine + j) =
      (validSet c vc s).filter fun p => p >>> c.shift == K :=
  ApiAccounting.validIn_eq_filter c vc s hK

theorem countUnder_eq (m : MapObj) (O q : Nat) :
    countUnder m O q = ((vsOf m).filter fun p => p >>> (2 * (m.spord - O)) == q).length := rfl

theorem countUnder_covord (m : MapObj) (k : Nat) :
    countUnder m m.covord k = ((vsOf m).filter fun p => p >>> m.c.shift == k).length := rfl

/-- **(1) the valid set itself**: ascending, duplicate free, exactly the in-range pixels whose
    dense value is valid; `valid_pixels` (the `list` / `pos` paths) lists a PERMUTATION of it, in
    STORAGE order: the blocks in allocation order (`_block_to_cov_index`), ascending inside each
    block — which is also the concatenation `iter_valid_pixels_by_covpix` / `get_covpix_maps`
    produce (the `iter` / `covpix_maps` paths); its sorted form IS the valid set (the `mask` path
    is the valid set by definition) -/
theorem valid_listings {m : MapObj} (h : m.Ok) :
    (vsOf m).Pairwise (· < ·) ∧ (vsOf m).Nodup ∧
    (∀ p, p ∈ (vsOf m) ↔ p < m.npix ∧ m.vc.valid (m.abs p) = true) ∧
    ∃ l, validPixels m.c m.vc m.st = some l ∧
      l.Perm ((vsOf m).map fun p => ((p : Nat) : Int)) ∧
      l = (((blockToCov m.c m.st).toList.flatMap fun k =>
            (validIn m.c m.vc m.st k).map fun j => k * m.c.nfine + j).map fun p => ((p : Nat) : Int)) ∧
      l.mergeSort (· ≤ ·) = (vsOf m).map fun p => ((p : Nat) : Int) := by
  have hv := h.2.1.blankInvalid
  have hs := validSet_sorted m.c m.vc m.st
  have hnd : (vsOf m).Nodup := hs.imp fun h => by omega
  obtain ⟨l, hl, hperm⟩ := validPixels_spec m.c m.vc m.st h.1.2 hv
  refine ⟨hs, hnd, fun p => mem_validSet, l, hl, hperm, ?_, ?_⟩
  · have := ApiAccounting.validPixels_storage_order h.1.2 hv
    rw [hl] at this
    exact Option.some.inj this
  · have hsorted : ((vsOf m).map fun p => ((p : Nat) : Int)).Pairwise (· < ·) := by
      rw [List.pairwise_map]
      exact hs.imp fun h => by omega
    have hndl : l.Nodup := hperm.nodup_iff.2 (hsorted.imp fun h => by omega)
    refine ApiAccounting.sorted_ext_int (ApiAccounting.mergeSort_strict hndl) hsorted fun x => ?_
    rw [(List.mergeSort_perm l _).mem_iff, hperm.mem_iff]

/-- **(1) `valid n`, every path** (`path=list|mask|iter|covpix_maps|pos`: the model has one answer
    for all five, the harness sorts the library's listing): the ascending valid set; the world is
    unchanged -/
theorem driver_valid {w : World} (hw : w.Good) {a : Args} {n : String} {rest : List String}
    {m : MapObj} (ha : a.pos = n :: rest) (hg : w.get? n = some m) :
    stepArgs w "valid" a = (w, showList toString ((vsOf m).map fun p => ((p : Nat) : Int))) := by
  obtain ⟨_, _, _, l, hl, _, _, hs⟩ := valid_listings (hw.get hg)
  show opValid w a = _
  unfold opValid withMap
  rw [ha]
  simp only [hg, hl]
  rw [hs]

/-- **(3) `covmap n`**: entry `k` = the number of members of the valid set inside coverage pixel
    `k`; the world is unchanged -/
theorem driver_covmap {w : World} (hw : w.Good) {a : Args} {n : String} {rest : List String}
    {m : MapObj} (ha : a.pos = n :: rest) (hg : w.get? n = some m) :
    stepArgs w "covmap" a =
      (w, showNats ((List.range m.c.ncov).map fun k => countUnder m m.covord k)) := by
  have h := hw.get hg
  have hv := h.2.1.blankInvalid
  show opCovmap w a = _
  unfold opCovmap withMap
  rw [ha]
  simp only [hg]
  congr 2
  apply List.ext_getElem?
  intro k
  by_cases hk : k < m.c.ncov
  · rw [coverageCounts_eq m.c m.vc m.st h.1.2 hv k hk, List.getElem?_map, List.getElem?_range hk,
      Option.map_some, countUnder_covord,
      ← validIn_eq_filter m.c m.vc m.st hk, List.length_map]
  · have h1 : (coverageCounts m.c m.vc m.st).length = m.c.ncov := by simp [coverageCounts]
    rw [List.getElem?_eq_none (by omega), List.getElem?_eq_none (by simp; omega)]

/-- the counts of `covmap` sum to the size of the valid set; a coverage pixel with a non-zero
    count is covered, an uncovered one counts 0 -/
theorem covmap_facts {m : MapObj} (h : m.Ok) :
    ((List.range m.c.ncov).map fun k => countUnder m m.covord k).sum = (vsOf m).length ∧
    (∀ k, k < m.c.ncov → countUnder m m.covord k ≠ 0 → covered m.c m.st k = true) ∧
    (∀ k, k < m.c.ncov → covered m.c m.st k = false → countUnder m m.covord k = 0) := by
  have hv := h.2.1.blankInvalid
  have hcov : ∀ k, k < m.c.ncov → countUnder m m.covord k ≠ 0 → covered m.c m.st k = true := by
    intro k hk hne
    rw [countUnder_covord] at hne
    have : ((validSet m.c m.vc m.st).filter fun p => p >>> m.c.shift == k) ≠ [] := by
      intro he; rw [he] at hne; exact hne rfl
    obtain ⟨p, hp⟩ := List.exists_mem_of_ne_nil _ this
    obtain ⟨h1, h2⟩ := List.mem_filter.1 hp
    obtain ⟨h3, h4⟩ := mem_validSet.1 h1
    have := coverageMask_complete m.c m.vc m.st h.1.2 hv p h3 h4
    rw [show p >>> m.c.shift = k by simpa using h2] at this
    exact this
  refine ⟨?_, hcov, fun k hk hc => ?_⟩
  · have e : (vsOf m) = (List.range m.c.ncov).flatMap fun k =>
        (validIn m.c m.vc m.st k).map fun j => k * m.c.nfine + j :=
      validSet_eq_flatMap m.c m.vc m.st
    rw [e, List.length_flatMap]
    congr 1
    apply List.map_congr_left
    intro k hk
    rw [countUnder_covord,
      ← validIn_eq_filter m.c m.vc m.st (List.mem_range.1 hk), List.length_map]
  · apply Classical.byContradiction
    intro hne
    rw [hcov k hk hne] at hc
    cases hc

/-- **(3) `covmask n`**: the coverage mask, one character per coverage pixel -/
theorem driver_covmask {w : World} {a : Args} {n : String} {rest : List String}
    {m : MapObj} (ha : a.pos = n :: rest) (hg : w.get? n = some m) :
    stepArgs w "covmask" a = (w, showBits ((List.range m.c.ncov).map (covered m.c m.st))) :=
  ApiAccounting.opCovmask_eq ha hg

/-- **(4) `vpsc n k=K`**: IndexError for `K` outside the coverage map; else the ascending list of
    the members of the valid set with `p >> shift = K` -/
theorem driver_vpsc {w : World} (hw : w.Good) {a : Args} {n : String} {rest : List String}
    {m : MapObj} {K : Nat} (ha : a.pos = n :: rest) (hg : w.get? n = some m)
    (hK : a.nat? "k" = some K) :
    stepArgs w "vpsc" a =
      if K ≥ m.c.ncov then (w, "err IndexError")
      else (w, showList toString
        (((vsOf m).filter fun p => p >>> m.c.shift == K).map fun p => ((p : Nat) : Int))) := by
  have h := hw.get hg
  have hv := h.2.1.blankInvalid
  show opVpsc w a = _
  unfold opVpsc withMap
  rw [ha]
  simp only [hg, hK]
  by_cases hk : K ≥ m.c.ncov
  · rw [if_pos hk, if_pos hk]; rfl
  · rw [if_neg hk, if_neg hk, vpsc_eq m.c m.vc m.st h.1.2 hv K (by omega)]
    simp only
    rw [← validIn_eq_filter m.c m.vc m.st (by omega : K < m.c.ncov), List.map_map,
      List.mergeSort_of_pairwise]
    · rfl
    · rw [List.pairwise_map]
      exact (validIn_sorted m.c m.vc m.st K).imp fun h => by
        simp only [decide_eq_true_eq]
        omega

/-- (4) the per-coverage-pixel lists, concatenated over ALL coverage pixels in ascending order,
    are the valid set; concatenated over the BLOCKS in allocation order they are the storage-order
    listing of `valid_pixels` (`valid_listings`) -/
theorem vpsc_concat (m : MapObj) :
    (vsOf m) = (List.range m.c.ncov).flatMap fun K =>
      (vsOf m).filter fun p => p >>> m.c.shift == K := by
  have e : (vsOf m) = (List.range m.c.ncov).flatMap fun k =>
      (validIn m.c m.vc m.st k).map fun j => k * m.c.nfine + j :=
    validSet_eq_flatMap m.c m.vc m.st
  conv => lhs; rw [e]
  apply ApiAccounting.flatMap_congr'
  intro K hK
  exact validIn_eq_filter m.c m.vc m.st (List.mem_range.1 hK)

/-- **(5) `fracdet n ord=O r=F`**: ValueError unless `covord ≤ O ≤ spord`; else `F` is bound to
    `fracMap m O` (float64, sentinel 0, orders `(covord, O)`), the answer is `ok` -/
theorem driver_fracdet {w : World} {a : Args} {n : String} {rest : List String} {m : MapObj}
    {r : String} {O : Nat} (ha : a.pos = n :: rest) (hg : w.get? n = some m)
    (hr : a.get? "r" = some r) (hO : a.nat? "ord" = some O) :
    stepArgs w "fracdet" a =
      if O > m.spord ∨ O < m.covord then (w, "err ValueError")
      else (w.bind r (fracMap m O), "ok") := by
  rw [show ("err ValueError" : String) = errLine .value by decide]
  exact ApiAccounting.opFracdet_eq ha hg hr hO

/-- **(5) the fracdet map, entry by entry** (what `vals F` then prints, pixel by pixel): pixel `q`
    of order `O` holds (number of members of the valid set below `q`) / `4^(spord−O)` as an exact
    dyadic; the map is well formed and has the coverage mask of `m`.  At `O = covord` the
    numerator is the `covmap` entry (the same `countUnder m covord`), at `O = spord` the 0/1
    validity indicator. -/
theorem fracdet_entries {m : MapObj} (h : m.Ok) {O : Nat} (hlo : m.covord ≤ O) (hhi : O ≤ m.spord) :
    (fracMap m O).WF ∧ (fracMap m O).view = none ∧
    (∀ q, q < 12 * 4 ^ O → (fracMap m O).abs q = fracVal (countUnder m O q) (2 * (m.spord - O))) ∧
    (∀ k, k < m.c.ncov → covered (fracMap m O).c (fracMap m O).st k = covered m.c m.st k) ∧
    (∀ q, countUnder m m.spord q = if q ∈ vsOf m then 1 else 0) ∧
    (∀ n, fracVal n 0 = .num n 0) := by
  obtain ⟨h1, h2, h3⟩ := ApiAccounting.fracMap_spec h.1 h.2.1.blankInvalid hlo hhi
  exact ⟨h1, rfl, h2, h3, ApiAccounting.countUnder_spord m, fun _ => rfl⟩

/-- `vals F` prints the dense view of whatever `F` resolves to -/
theorem driver_vals {w : World} {a : Args} {n : String} {rest : List String} {m : MapObj}
    (ha : a.pos = n :: rest) (hg : w.get? n = some m) :
    stepArgs w "vals" a = (w, showVals ((List.range m.npix).map m.abs)) :=
  ApiAccounting.opVals_eq ha hg

/-- **(6) ALL the accounting observers agree, at every point of every history.**  In the world
    reached by ANY protocol history, for ANY name `n` that resolves to a map `m` (an owning map or
    a view, of any kind), with `S` the dense valid set `{p < npix | valid (m.abs p)}` (ascending):

    * `valid n` — every `path=` (list, mask, iter, covpix_maps, pos) — prints `S`;
    * `nvalid n` — every `path=` (n_valid, area, str) — prints `|S|` (the one exception D
      characterised: `path=str` of a bit-packed map without a cached count prints `nocount`); the
      `area` path has no token of its own: the harness divides the library's area by the pixel
      area and the model prints the count;
    * `covmap n` prints, per coverage pixel `k`, `|{p ∈ S | p >> shift = k}|`; the entries sum to
      `|S|`; `covmask n` prints `covered`; a non-zero count implies covered;
    * `vpsc n k=K` prints `{p ∈ S | p >> shift = K}` ascending (IndexError beyond the coverage map);
      these lists concatenated over `K` ascending give `S` back;
    * `fracdet n ord=O r=F` binds `F` to a map whose pixel `q` holds
      `|{p ∈ S | p >> 2(spord−O) = q}| / 4^(spord−O)`.

    None of `valid`, `covmap`, `covmask`, `vpsc` changes the world, `nvalid` only fills the cache
    (which is never stale: `reachable_cache_fresh`), and the theorem holds for EVERY history — in
    particular for one that contains earlier queries: an earlier query never makes a later answer
    stale. -/
theorem reachable_observers_agree (lines : List String) {n : String} {m : MapObj}
    (hg : (runLines lines).get? n = some m) :
    (vsOf m).Pairwise (· < ·) ∧
    (∀ p, p ∈ vsOf m ↔ p < m.npix ∧ m.vc.valid (m.abs p) = true) ∧
    (∀ (a : Args) (rest : List String), a.pos = n :: rest →
      stepArgs (runLines lines) "valid" a =
        (runLines lines, showList toString ((vsOf m).map fun p => ((p : Nat) : Int)))) ∧
    (∀ (a : Args) (rest : List String), a.pos = n :: rest →
      (stepArgs (runLines lines) "nvalid" a).2 =
        if (m.cache.isNone && (a.get? "path" == some "str" && m.kind == .packed)) = true
        then "nocount" else toString (vsOf m).length) ∧
    (∀ (a : Args) (rest : List String), a.pos = n :: rest →
      stepArgs (runLines lines) "covmap" a =
        (runLines lines, showNats ((List.range m.c.ncov).map fun k => countUnder m m.covord k))) ∧
    ((List.range m.c.ncov).map fun k => countUnder m m.covord k).sum = (vsOf m).length ∧
    (∀ (a : Args) (rest : List String), a.pos = n :: rest →
      stepArgs (runLines lines) "covmask" a =
        (runLines lines, showBits ((List.range m.c.ncov).map (covered m.c m.st)))) ∧
    (∀ k, k < m.c.ncov → countUnder m m.covord k ≠ 0 → covered m.c m.st k = true) ∧
    (∀ (a : Args) (rest : List String) (K : Nat), a.pos = n :: rest → a.nat? "k" = some K →
      stepArgs (runLines lines) "vpsc" a =
        if K ≥ m.c.ncov then (runLines lines, "err IndexError")
        else (runLines lines, showList toString
          (((vsOf m).filter fun p => p >>> m.c.shift == K).map fun p => ((p : Nat) : Int)))) ∧
    (vsOf m = (List.range m.c.ncov).flatMap fun K => (vsOf m).filter fun p => p >>> m.c.shift == K) ∧
    (∀ (a : Args) (rest : List String) (r : String) (O : Nat), a.pos = n :: rest →
      a.get? "r" = some r → a.nat? "ord" = some O → m.covord ≤ O → O ≤ m.spord →
      stepArgs (runLines lines) "fracdet" a = ((runLines lines).bind r (fracMap m O), "ok") ∧
      ∀ q, q < 12 * 4 ^ O →
        (fracMap m O).abs q = fracVal (countUnder m O q) (2 * (m.spord - O))) := by
  have hw := Good.runLines lines
  have hok : m.Ok := hw.get hg
  obtain ⟨l1, _, l3, _⟩ := valid_listings hok
  obtain ⟨c1, c2, _⟩ := covmap_facts hok
  refine ⟨l1, l3, fun a rest ha => driver_valid hw ha hg, ?_, fun a rest ha => driver_covmap hw ha hg,
    c1, fun a rest ha => driver_covmask ha hg, c2, fun a rest K ha hK => driver_vpsc hw ha hg hK,
    vpsc_concat m, ?_⟩
  · intro a rest ha
    rw [reachable_nvalid lines a n rest m ha hg,
      nValid_eq m.c m.vc m.st hok.1.2 hok.2.1.blankInvalid]
  · intro a rest r O ha hr hO hlo hhi
    refine ⟨?_, (fracdet_entries hok hlo hhi).2.2.1⟩
    rw [driver_fracdet ha hg hr hO, if_neg (by omega)]

/-- the count function in full: `countUnder m O q` is the number of members of the valid set
    whose ancestor at order `O` is `q` -/
theorem countUnder_def (m : MapObj) (O q : Nat) :
    countUnder m O q = ((vsOf m).filter fun p => p >>> (2 * (m.spord - O)) == q).length := rfl

/-! ### the converse of "non-zero count ⇒ covered" fails exactly for allocated-but-empty blocks -/

namespace Witness

/-- `make_empty(cov_pixels=[3])`: coverage pixel 3 is allocated, no pixel is valid -/
def emptyBlock : Except Err MapObj := apiMakeEmpty 0 1 (.plain (.flt 64)) none [3]

theorem covered_without_valid :
    WFApi.okAnd emptyBlock (fun m => decide m.Ok && covered m.c m.st 3 &&
      decide (countUnder m m.covord 3 = 0) && decide (3 < m.c.ncov) && decide (vsOf m = [])) = true := by
  decide +kernel

/-- "covered ⇒ non-zero count" is false: a block allocated by `cov_pixels=` (or left behind by
    clearing its pixels) is covered and counts 0 -/
theorem covered_imp_count_false :
    ¬ ∀ (m : MapObj), m.Ok → ∀ k, k < m.c.ncov → covered m.c m.st k = true →
        countUnder m m.covord k ≠ 0 := by
  intro H
  obtain ⟨m, _, hP⟩ := (WFApi.okAnd_iff _ _).1 covered_without_valid
  simp only [Bool.and_eq_true, decide_eq_true_eq] at hP
  obtain ⟨⟨⟨⟨h1, h2⟩, h3⟩, hk⟩, _⟩ := hP
  exact H m h1 3 hk h2 h3

end Witness

/-! ### non-vacuity (evaluated by the compiler: the kernel cannot run the string parser) -/

-- an int32 map at orders (0, 1): coverage pixel 7 pre-allocated and never written, blocks
-- allocated in the order 7, 10, 2, 0 (shuffled), pixel 9 written then cleared — the observers:
-- `valid` (two paths), `nvalid` (three paths), `covmap`, `covmask` (pixel 7 covered with count 0),
-- `vpsc` (a covered, an empty-covered, an out-of-range coverage pixel), `fracdet` at both ends
-- (`1^2` is 1/4: one valid pixel of four) and beyond
#guard answers ["cfg m kind=plain dtype=i4 covord=0 spord=1 covpix=7",
    "upd m pix=40,9,8,3 vals=1,2,3,4", "upd m pix=9 none=1",
    "valid m", "valid m path=iter", "nvalid m", "nvalid m path=area", "nvalid m path=str",
    "covmap m", "covmask m", "vpsc m k=2", "vpsc m k=7", "vpsc m k=12",
    "fracdet m ord=0 r=F", "vals F", "fracdet m ord=1 r=G", "vals G", "fracdet m ord=2 r=H"]
  == ["ok", "ok", "ok", "3,8,40", "3,8,40", "3", "3", "3", "1,0,1,0,0,0,0,0,0,0,1,0", "101000010010",
      "8", "_", "err IndexError", "ok", "1^2,0,1^2,0,0,0,0,0,0,0,1^2,0", "ok",
      "0,0,0,1,0,0,0,0,1,0,0,0,0,0,0,0,0,0,0,0,0,0,0,0,0,0,0,0,0,0,0,0,0,0,0,0,0,0,0,0,1,0,0,0,0,0,0,0",
      "err ValueError"]

-- a view of a record field, a bit-packed map, a wide mask (a zero row is invalid: coverage pixel 2
-- covered with count 0)
#guard answers ["cfg p kind=rec covord=0 spord=1 fields=i2,f8 primary=0", "upd p pix=5,44 vals=r3;2,r4;1",
    "single p field=1 r=v", "valid v", "nvalid v", "covmap v", "covmask v", "vpsc v k=1",
    "fracdet v ord=0 r=F", "vals F", "valid p", "nvalid p"]
  == ["ok", "ok", "ok", "5,44", "2", "0,1,0,0,0,0,0,0,0,0,0,1", "010000000001", "5", "ok",
      "0,1^2,0,0,0,0,0,0,0,0,0,1^2", "5,44", "2"]
#guard answers ["cfg p kind=packed covord=0 spord=2", "upd p pix=4,5,6,7,40 val=T", "valid p",
    "nvalid p path=str", "nvalid p", "nvalid p path=str", "covmap p", "covmask p", "vpsc p k=0"]
  == ["ok", "ok", "4,5,6,7,40", "nocount", "5", "5", "4,0,1,0,0,0,0,0,0,0,0,0", "101000000000", "4,5,6,7"]
#guard answers ["cfg w kind=wide maxbits=16 covord=0 spord=1", "upd w pix=0,9 vals=b3.1,b0.0", "valid w",
    "nvalid w", "covmap w", "covmask w", "vpsc w k=2", "fracdet w ord=0 r=F", "vals F"]
  == ["ok", "ok", "0", "1", "1,0,0,0,0,0,0,0,0,0,0,0", "101000000000", "_", "ok", "1^2,0,0,0,0,0,0,0,0,0,0,0"]

-- the hypotheses of the map-level theorems are satisfiable (shuffled block order)
example : WFApi.okAnd (apiMakeEmpty 0 1 (.plain (.int 32 true)) none [7] >>= fun e =>
      apiUpdate e "replace" [40] (some [.num 1 0]) false >>= fun e =>
      apiUpdate e "replace" [8, 3] (some [.num 3 0, .num 4 0]) false)
    (fun m => decide m.Ok && decide (vsOf m = [3, 8, 40]) &&
      decide (validPixels m.c m.vc m.st = some [40, 3, 8]) &&
      decide ((List.range m.c.ncov).map (fun k => countUnder m m.covord k) = [1, 0, 1, 0, 0, 0, 0, 0, 0, 0, 1, 0])) = true := by
  decide +kernel

end driver
end C02
end HS
