/-
  Random points: the arithmetic of `make_uniform_randoms_fast`, the bookkeeping of the
  rejection loop of `make_uniform_randoms`, and its right-ascension window logic
  (healSparseRandoms.py, after the `fix:` commits).  The random draws, the geometry
  (pixel centres, angular extents) and the validity lookups are inputs.
-/
namespace HS

/-- fast generator: sub-pixel `sub < 2^s` of valid pixel `p` at the finer resolution -/
def fastChild (s : Nat) (p sub : Nat) : Nat := (p <<< s) + sub

/-- `n_gen = clip(2*n_left, 10000, 1000000)` -/
def nGen (nLeft : Nat) : Nat := max 10000 (min 1000000 (2 * nLeft))

/-- one pass of the loop body (lines 146-157): the first `n_left` valid candidates of the batch
    are appended -/
def takeValid {α : Type} (nLeft : Nat) (batch : List (α × Bool)) : List α :=
  ((batch.filter (·.2)).take nLeft).map (·.1)

/-- the rejection loop over a finite supply of candidate batches; `none` = the supply ran out
    before `n` points were found (the real loop would keep drawing) -/
def rejectionLoop {α : Type} : Nat → List (List (α × Bool)) → Option (List α)
  | 0, _ => some []
  | _ + 1, [] => none
  | n + 1, b :: bs =>
    let got := takeValid (n + 1) b
    match rejectionLoop (n + 1 - got.length) bs with
    | some rest => some (got ++ rest)
    | none => none

/-- the right-ascension window (in integer units, period `T`): the hull of the per-coverage-
    pixel intervals, or one full turn if the hull is wider than that -/
def raWindow (T : Int) (ivs : List (Int × Int)) : Int × Int :=
  match ivs with
  | [] => (0, T)
  | iv :: rest =>
    let lo := rest.foldl (fun m x => min m x.1) iv.1
    let hi := rest.foldl (fun m x => max m x.2) iv.2
    if hi - lo > T then (0, T) else (lo, hi)

/-- the pre-fix window: clipped to `[0, T]` instead of wrapped -/
def raWindowClipped (T : Int) (ivs : List (Int × Int)) : Int × Int :=
  match ivs with
  | [] => (0, T)
  | iv :: rest =>
    let lo := rest.foldl (fun m x => min m x.1) iv.1
    let hi := rest.foldl (fun m x => max m x.2) iv.2
    (max 0 (min T lo), max 0 (min T hi))

/-- choice between the plain and the 180°-rotated window (`thr` = 0.1 rad in the same units) -/
def chooseWindow (T thr : Int) (ivs ivsRot : List (Int × Int)) : Bool × (Int × Int) :=
  let w := raWindow T ivs
  let wr := raWindow T ivsRot
  if wr.2 - wr.1 < (w.2 - w.1) - thr then (true, wr) else (false, w)

end HS
