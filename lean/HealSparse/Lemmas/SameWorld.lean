/-
  C10 at the world level: maps with equal CONTENT are interchangeable, however they were
  produced — a relational simulation between two worlds whose corresponding maps have the same
  configuration, kind, sentinel, cache and view flag and content-equal states (`C10.Same`: both
  obey the layout, equal value at every pixel, equal coverage mask), while the arrays themselves
  may differ (block order).  Files pairwise content-equal in the same sense.

  This file: the relations (`MapObj.SameC`, `FileObj.SameF`, `World.SameW`), looking up and
  storing in related worlds, and what content-equal maps answer to the observers.
  The operations are in Lemmas/SameOps.lean, the property theorems in Props/C10.lean.
-/
import HealSparse.Lemmas.WFWorld
import HealSparse.Lemmas.ApiRoundTrip
import HealSparse.Lemmas.ApiRanges
import HealSparse.Props.C10
import HealSparse.Props.C03
namespace HS

open WFApi WFRes WFFiles

/-! ### the relations -/

/-- same configuration, kind, sentinel, cache and view flag; content-equal states -/
def MapObj.SameC (a b : MapObj) : Prop :=
  a.covord = b.covord ∧ a.spord = b.spord ∧ a.kind = b.kind ∧ a.sent = b.sent ∧
    a.cache = b.cache ∧ a.view = b.view ∧ C10.Same a.c a.vc a.st b.st

/-- pool entries: an owning entry is content-equal to its counterpart; a view descriptor (it has
    no storage of its own) is identical to it -/
def EntSame (a b : MapObj) : Prop := (a.view = none ∧ a.SameC b) ∨ (a.view ≠ none ∧ a = b)

/-- files: identical headers and metadata; the COV / SPARSE extensions show the same coverage
    mask and — at the kind the reader recovers — are content-equal -/
def FileObj.SameF (f g : FileObj) : Prop :=
  f.covord = g.covord ∧ f.spord = g.spord ∧ f.arrDT = g.arrDT ∧ f.sentinel = g.sentinel ∧
  f.primary = g.primary ∧ f.fields = g.fields ∧ f.wwidth = g.wwidth ∧ f.bitpack = g.bitpack ∧
  f.mdata = g.mdata ∧
  (∀ k, k < (cfgOf f.covord f.spord).ncov →
    covered (cfgOf f.covord f.spord) (readFull f.file) k
      = covered (cfgOf f.covord f.spord) (readFull g.file) k) ∧
  ∀ kind, fileKind f = some kind →
    C10.Same (cfgOf f.covord f.spord) ⟨kind.blank f.sentinel, kind.valid f.sentinel⟩
      (readFull f.file) (readFull g.file)

/-- same names in the same order, the named objects pairwise related -/
inductive Named {α : Type} (R : α → α → Prop) : List (String × α) → List (String × α) → Prop
  | nil : Named R [] []
  | cons {n : String} {a b : α} {l₁ l₂ : List (String × α)} :
      R a b → Named R l₁ l₂ → Named R ((n, a) :: l₁) ((n, b) :: l₂)

/-- HEALPix-format files: identical, or two EXPLICIT files with the same header holding the same
    (pixel, value) pairs in another order (`write(format='healpix')` lists the valid pixels in
    storage order, which content-equal maps need not share) -/
def HpSame (f g : HpFile) : Prop :=
  f = g ∨ ∃ so dt s pix vals pix' vals', f = .explicit so dt s pix vals ∧
    g = .explicit so dt s pix' vals' ∧ pix.length = vals.length ∧ pix'.length = vals'.length ∧
    (pix.zip vals).Perm (pix'.zip vals')

/-- two worlds with the same names bound to content-equal maps and files (HEALPix-format files:
    the same pixel ↦ value association); everything else equal -/
def World.SameW (w₁ w₂ : World) : Prop :=
  Named EntSame w₁.pool w₂.pool ∧ Named FileObj.SameF w₁.files w₂.files ∧
    w₁.packed = w₂.packed ∧ w₁.mocs = w₂.mocs ∧ Named HpSame w₁.hpfiles w₂.hpfiles ∧
    w₁.metas = w₂.metas

/-! ### basic facts -/

theorem MapObj.SameC.c_eq {a b : MapObj} (h : a.SameC b) : b.c = a.c := by
  unfold MapObj.c; rw [h.1, h.2.1]

theorem MapObj.SameC.vc_eq {a b : MapObj} (h : a.SameC b) : b.vc = a.vc := by
  unfold MapObj.vc; rw [h.2.2.1, h.2.2.2.1]

theorem MapObj.SameC.npix_eq {a b : MapObj} (h : a.SameC b) : b.npix = a.npix := by
  unfold MapObj.npix; rw [h.c_eq]

theorem MapObj.SameC.same {a b : MapObj} (h : a.SameC b) : C10.Same a.c a.vc a.st b.st :=
  h.2.2.2.2.2.2

theorem MapObj.SameC.sameObj {a b : MapObj} (h : a.SameC b) : b.Same a :=
  ⟨h.1.symm, h.2.1.symm, h.2.2.1.symm, h.2.2.2.1.symm, h.2.2.2.2.2.1.symm⟩

theorem MapObj.SameC.refl {a : MapObj} (h : a.WF) : a.SameC a :=
  ⟨rfl, rfl, rfl, rfl, rfl, rfl, h.2, h.2, fun _ _ => rfl, fun _ _ => rfl⟩

theorem C10.Same.symm {V : Type} [DecidableEq V] {c : Cfg} {vc : VCfg V} {s₁ s₂ : State V}
    (h : C10.Same c vc s₁ s₂) : C10.Same c vc s₂ s₁ :=
  ⟨h.2.1, h.1, fun p hp => (h.2.2.1 p hp).symm, fun k hk => (h.2.2.2 k hk).symm⟩

theorem C10.Same.trans {V : Type} [DecidableEq V] {c : Cfg} {vc : VCfg V} {s₁ s₂ s₃ : State V}
    (h : C10.Same c vc s₁ s₂) (h' : C10.Same c vc s₂ s₃) : C10.Same c vc s₁ s₃ :=
  ⟨h.1, h'.2.1, fun p hp => (h.2.2.1 p hp).trans (h'.2.2.1 p hp),
    fun k hk => (h.2.2.2 k hk).trans (h'.2.2.2 k hk)⟩

theorem MapObj.SameC.symm {a b : MapObj} (h : a.SameC b) : b.SameC a := by
  refine ⟨h.1.symm, h.2.1.symm, h.2.2.1.symm, h.2.2.2.1.symm, h.2.2.2.2.1.symm,
    h.2.2.2.2.2.1.symm, ?_⟩
  rw [h.c_eq, h.vc_eq]
  exact h.same.symm

theorem MapObj.SameC.abs_eq {a b : MapObj} (h : a.SameC b) {p : Nat} (hp : p < a.npix) :
    b.abs p = a.abs p := by
  unfold MapObj.abs
  rw [h.c_eq, h.vc_eq]
  exact (h.same.2.2.1 p hp).symm

theorem MapObj.SameC.covered_eq {a b : MapObj} (h : a.SameC b) {k : Nat} (hk : k < a.c.ncov) :
    covered b.c b.st k = covered a.c a.st k := by
  rw [h.c_eq]
  exact (h.same.2.2.2 k hk).symm

theorem MapObj.SameC.wf_left {a b : MapObj} (h : a.SameC b) (hle : a.covord ≤ a.spord) : a.WF :=
  ⟨hle, h.same.1⟩

/-- `cache` / `view` overwritten alike on both sides -/
theorem MapObj.SameC.with_cache_view {a b : MapObj} (h : a.SameC b) (x : Option Nat)
    (v : Option (String × Nat)) :
    ({ a with cache := x, view := v } : MapObj).SameC { b with cache := x, view := v } :=
  ⟨h.1, h.2.1, h.2.2.1, h.2.2.2.1, rfl, rfl, h.same⟩

theorem MapObj.SameC.with_cache {a b : MapObj} (h : a.SameC b) (x : Option Nat) :
    ({ a with cache := x } : MapObj).SameC { b with cache := x } :=
  ⟨h.1, h.2.1, h.2.2.1, h.2.2.2.1, rfl, h.2.2.2.2.2.1, h.same⟩

/-- the arrays replaced by content-equal ones (what every storage-returning operation stores) -/
theorem MapObj.SameC.with_st {a b : MapObj} (h : a.SameC b) {s₁ s₂ : State Val}
    (hs : C10.Same a.c a.vc s₁ s₂) (x : Option Nat) :
    ({ a with st := s₁, cache := x } : MapObj).SameC { b with st := s₂, cache := x } :=
  ⟨h.1, h.2.1, h.2.2.1, h.2.2.2.1, rfl, h.2.2.2.2.2.1, hs⟩

theorem FileObj.SameF.refl {f : FileObj} (h : f.WF) : f.SameF f :=
  ⟨rfl, rfl, rfl, rfl, rfl, rfl, rfl, rfl, rfl, fun _ _ => rfl,
    fun k hk => ⟨h.2 k hk, h.2 k hk, fun _ _ => rfl, fun _ _ => rfl⟩⟩

theorem FileObj.SameF.fileKind_eq {f g : FileObj} (h : f.SameF g) : fileKind g = fileKind f := by
  obtain ⟨_, _, h3, h4, h5, h6, h7, h8, _⟩ := h
  unfold fileKind
  rw [h3, h4, h5, h6, h7, h8]

/-! ### related lists: lookup, insertion, removal -/

section named
variable {α : Type} {R : α → α → Prop}

theorem Named.refl (hR : ∀ a, R a a) : ∀ l : List (String × α), Named R l l
  | [] => .nil
  | (_, a) :: l => .cons (hR a) (Named.refl hR l)

theorem Named.refl_on {l : List (String × α)} (hR : ∀ e ∈ l, R e.2 e.2) : Named R l l := by
  induction l with
  | nil => exact .nil
  | cons e l ih =>
    obtain ⟨n, a⟩ := e
    exact .cons (hR (n, a) List.mem_cons_self) (ih fun e he => hR e (List.mem_cons_of_mem _ he))

/-- looking a name up in related lists: both fail, or both find related objects -/
theorem Named.find {l₁ l₂ : List (String × α)} (h : Named R l₁ l₂) (n : String) :
    ((l₁.find? (·.1 == n)).map (·.2) = none ∧ (l₂.find? (·.1 == n)).map (·.2) = none) ∨
    ∃ a b, (l₁.find? (·.1 == n)).map (·.2) = some a ∧ (l₂.find? (·.1 == n)).map (·.2) = some b ∧
      R a b := by
  induction h with
  | nil => exact .inl ⟨rfl, rfl⟩
  | @cons m a b l₁ l₂ hab _ ih =>
    by_cases hm : (m == n) = true
    · refine .inr ⟨a, b, ?_, ?_, hab⟩ <;> simp [List.find?_cons, hm]
    · simp only [List.find?_cons, hm]
      exact ih

theorem Named.filter {l₁ l₂ : List (String × α)} (h : Named R l₁ l₂) (q : String → Bool) :
    Named R (l₁.filter (fun e => q e.1)) (l₂.filter (fun e => q e.1)) := by
  induction h with
  | nil => exact .nil
  | @cons m a b l₁ l₂ hab _ ih =>
    simp only [List.filter_cons]
    cases q m with
    | true => exact .cons hab ih
    | false => exact ih

theorem Named.insert {l₁ l₂ : List (String × α)} (h : Named R l₁ l₂) (n : String) {a b : α}
    (hab : R a b) :
    Named R ((n, a) :: l₁.filter (·.1 != n)) ((n, b) :: l₂.filter (·.1 != n)) :=
  .cons hab (h.filter (· != n))

theorem Named.mem {l₁ l₂ : List (String × α)} (h : Named R l₁ l₂) :
    ∀ e₁ ∈ l₁, ∃ e₂ ∈ l₂, e₁.1 = e₂.1 ∧ R e₁.2 e₂.2 := by
  induction h with
  | nil => intro e he; cases he
  | @cons m a b l₁ l₂ hab _ ih =>
    intro e he
    rcases List.mem_cons.1 he with rfl | he
    · exact ⟨(m, b), List.mem_cons_self, rfl, hab⟩
    · obtain ⟨e₂, h2, h3⟩ := ih e he
      exact ⟨e₂, List.mem_cons_of_mem _ h2, h3⟩

theorem Named.names {l₁ l₂ : List (String × α)} (h : Named R l₁ l₂) :
    l₁.map (·.1) = l₂.map (·.1) := by
  induction h with
  | nil => rfl
  | cons _ _ ih => simp only [List.map_cons, ih]

theorem Named.mono {S : α → α → Prop} {l₁ l₂ : List (String × α)} (h : Named R l₁ l₂)
    (hRS : ∀ a b, R a b → S a b) : Named S l₁ l₂ := by
  induction h with
  | nil => exact .nil
  | cons hab _ ih => exact .cons (hRS _ _ hab) ih

end named

/-! ### looking up in related worlds -/

theorem World.SameW.raw {w₁ w₂ : World} (h : w₁.SameW w₂) (n : String) :
    (w₁.raw? n = none ∧ w₂.raw? n = none) ∨
    ∃ a b, w₁.raw? n = some a ∧ w₂.raw? n = some b ∧ EntSame a b :=
  h.1.find n

theorem World.SameW.file {w₁ w₂ : World} (h : w₁.SameW w₂) (n : String) :
    ((w₁.files.find? (·.1 == n)).map (·.2) = none ∧ (w₂.files.find? (·.1 == n)).map (·.2) = none) ∨
    ∃ f g, (w₁.files.find? (·.1 == n)).map (·.2) = some f ∧
      (w₂.files.find? (·.1 == n)).map (·.2) = some g ∧ f.SameF g :=
  h.2.1.find n

theorem singleSentinel_congr {p₁ p₂ : MapObj} (hk : p₂.kind = p₁.kind) (hs : p₂.sent = p₁.sent)
    (i : Nat) (s : Option Val) : singleSentinel p₂ i s = singleSentinel p₁ i s := by
  unfold singleSentinel; rw [hk, hs]

theorem materializeView_congr {p₁ p₂ : MapObj} (hco : p₂.covord = p₁.covord)
    (hso : p₂.spord = p₁.spord) (hk : p₂.kind = p₁.kind) (hs : p₂.sent = p₁.sent)
    (pn : String) (i : Nat) (s : Val) (c : Option Nat) :
    materializeView p₂ pn i s c =
      match materializeView p₁ pn i s c with
      | .ok v => .ok { v with st := mapCells p₂.st (recField i) }
      | .error e => .error e := by
  unfold materializeView
  rw [singleSentinel_congr hk hs, hco, hso]
  cases singleSentinel p₁ i none <;> rfl

/-- the views of content-equal record maps are content-equal -/
theorem view_sameC {p₁ p₂ v₁ v₂ : MapObj} {pn : String} {i : Nat} {s : Val} {c : Option Nat}
    (hp : p₁.SameC p₂) (h1 : materializeView p₁ pn i s c = .ok v₁)
    (h2 : materializeView p₂ pn i s c = .ok v₂) (w1 : v₁.WF) (w2 : v₂.WF) : v₁.SameC v₂ := by
  obtain ⟨dt, s', _, a1, a2, a3, a4, a5, a6, a7⟩ := materializeView_ok h1
  obtain ⟨dt', s'', _, b1, b2, b3, b4, b5, b6, b7⟩ := materializeView_ok h2
  have hk : v₂.kind = v₁.kind := by
    rw [materializeView_congr hp.1.symm hp.2.1.symm hp.2.2.1.symm hp.2.2.2.1.symm, h1] at h2
    cases h2; rfl
  have hc : v₂.c = v₁.c := by unfold MapObj.c; rw [b1, b2, a1, a2, hp.1, hp.2.1]
  have hvc : v₂.vc = v₁.vc := by unfold MapObj.vc; rw [hk, b4, a4]
  have hvp : v₁.c = p₁.c := by unfold MapObj.c; rw [a1, a2]
  refine ⟨by rw [a1, b1, hp.1], by rw [a2, b2, hp.2.1], hk.symm, by rw [a4, b4], by rw [a6, b6],
    by rw [a7, b7], w1.2, ?_, ?_, ?_⟩
  · have := w2.2; rw [hc, hvc] at this; exact this
  · intro q hq
    rw [a5, b5, hvp]
    rw [hvp] at hq
    rw [abs_mapCells p₁.c p₁.vc v₁.vc p₁.st _ hp.same.1 q hq,
      abs_mapCells p₁.c p₁.vc v₁.vc p₂.st _ hp.same.2.1 q hq, hp.same.2.2.1 q hq]
  · intro k hk'
    rw [a5, b5, hvp]
    rw [hvp] at hk'
    exact hp.same.2.2.2 k hk'

theorem World.get?_owning {w : World} {n : String} {d : MapObj} (h : w.raw? n = some d)
    (hv : d.view = none) : w.get? n = some d := by
  unfold World.get?; rw [h]; simp only [hv]

theorem World.get?_view {w : World} {n pn : String} {i : Nat} {d p v : MapObj}
    (h : w.raw? n = some d) (hv : d.view = some (pn, i)) (hp : w.raw? pn = some p)
    (hs : d.sent = viewBlank p i) (hm : materializeView p pn i d.sent d.cache = .ok v)
    (hk : v.kind = d.kind) (hnb : d.kind ≠ .plain .bool) : w.get? n = some v := by
  unfold World.get?
  rw [h]
  simp only [hv, hp]
  have e : (d.sent != recField i (p.kind.blank p.sent)) = false := by
    rw [hs]; simp [viewBlank, MapObj.vc]
  rw [e]
  simp only [Bool.false_eq_true, if_false, hm, hk, beq_self_eq_true, Bool.true_and]
  simp [hnb]

/-- one direction of the lookup correspondence -/
theorem World.SameW.get_some {w₁ w₂ : World} (h : w₁.SameW w₂) (g₁ : w₁.Good) (g₂ : w₂.Good)
    {n : String} {m₁ : MapObj} (hg1 : w₁.get? n = some m₁) :
    ∃ m₂, w₂.get? n = some m₂ ∧ m₁.SameC m₂ := by
  have ok1 := g₁.get hg1
  rcases World.get?_cases hg1 with ⟨hr, hv⟩ | ⟨d, pn, i, p, hd, hdv, hp, hs, hm, hk, hnb⟩
  · rcases h.raw n with ⟨r1, _⟩ | ⟨d₁, d₂, r1, r2, hd⟩
    · rw [r1] at hr; cases hr
    · rw [r1] at hr; cases hr
      rcases hd with ⟨_, hc⟩ | ⟨hv', _⟩
      · exact ⟨d₂, World.get?_owning r2 (by rw [← hc.2.2.2.2.2.1]; exact hv), hc⟩
      · exact absurd hv hv'
  · rcases h.raw n with ⟨r1, _⟩ | ⟨d₁, d₂, r1, r2, hdd⟩
    · rw [r1] at hd; cases hd
    · rw [r1] at hd; cases hd
      rcases hdd with ⟨hv', _⟩ | ⟨_, hde⟩
      · rw [hv'] at hdv; cases hdv
      · rw [← hde] at r2
        rcases h.raw pn with ⟨q1, _⟩ | ⟨p₁, p₂, q1, q2, hpp⟩
        · rw [q1] at hp; cases hp
        · rw [q1] at hp; cases hp
          rcases hpp with ⟨_, hpp⟩ | ⟨_, hpe⟩
          · have hm2 := materializeView_congr hpp.1.symm hpp.2.1.symm hpp.2.2.1.symm
              hpp.2.2.2.1.symm pn i d.sent d.cache
            rw [hm] at hm2
            have hs2 : d.sent = viewBlank p₂ i := by
              rw [hs]; unfold viewBlank MapObj.vc; rw [hpp.2.2.1, hpp.2.2.2.1]
            have hg2 := World.get?_view r2 hdv q2 hs2 hm2 hk hnb
            exact ⟨_, hg2, view_sameC hpp hm hm2 ok1.1 (g₂.get hg2).1⟩
          · rw [← hpe] at q2
            exact ⟨m₁, World.get?_view r2 hdv q2 hs hm hk hnb, MapObj.SameC.refl ok1.1⟩

theorem Named.symm {α : Type} {R : α → α → Prop} (hR : ∀ a b, R a b → R b a)
    {l₁ l₂ : List (String × α)} (h : Named R l₁ l₂) : Named R l₂ l₁ := by
  induction h with
  | nil => exact .nil
  | cons hab _ ih => exact .cons (hR _ _ hab) ih

theorem EntSame.symm {a b : MapObj} (h : EntSame a b) : EntSame b a := by
  rcases h with ⟨hv, hc⟩ | ⟨hv, rfl⟩
  · exact .inl ⟨by rw [← hc.2.2.2.2.2.1]; exact hv, hc.symm⟩
  · exact .inr ⟨hv, rfl⟩

theorem FileObj.SameF.symm {f g : FileObj} (h : f.SameF g) : g.SameF f := by
  have hk := h.fileKind_eq
  obtain ⟨h1, h2, h3, h4, h5, h6, h7, h8, h9, hc, hs⟩ := h
  refine ⟨h1.symm, h2.symm, h3.symm, h4.symm, h5.symm, h6.symm, h7.symm, h8.symm, h9.symm, ?_, ?_⟩
  · intro k hk'
    rw [← h1, ← h2] at hk' ⊢
    exact (hc k hk').symm
  · intro kind hkind
    rw [hk] at hkind
    rw [← h1, ← h2, ← h4]
    exact (hs kind hkind).symm

theorem HpSame.refl (f : HpFile) : HpSame f f := .inl rfl

theorem HpSame.symm {f g : HpFile} (h : HpSame f g) : HpSame g f := by
  rcases h with rfl | ⟨so, dt, s, pix, vals, pix', vals', rfl, rfl, h1, h2, hp⟩
  · exact .inl rfl
  · exact .inr ⟨so, dt, s, pix', vals', pix, vals, rfl, rfl, h2, h1, hp.symm⟩

theorem World.SameW.symm {w₁ w₂ : World} (h : w₁.SameW w₂) : w₂.SameW w₁ :=
  ⟨h.1.symm fun _ _ => EntSame.symm, h.2.1.symm fun _ _ => FileObj.SameF.symm, h.2.2.1.symm,
    h.2.2.2.1.symm, h.2.2.2.2.1.symm fun _ _ => HpSame.symm, h.2.2.2.2.2.symm⟩

/-- **looking a name up in related good worlds**: both fail, or both resolve (an owning map or a
    view) to content-equal maps -/
theorem World.SameW.get {w₁ w₂ : World} (h : w₁.SameW w₂) (g₁ : w₁.Good) (g₂ : w₂.Good)
    (n : String) :
    (w₁.get? n = none ∧ w₂.get? n = none) ∨
    ∃ m₁ m₂, w₁.get? n = some m₁ ∧ w₂.get? n = some m₂ ∧ m₁.SameC m₂ := by
  cases hg1 : w₁.get? n with
  | some m₁ =>
    obtain ⟨m₂, h2, hc⟩ := h.get_some g₁ g₂ hg1
    exact .inr ⟨m₁, m₂, rfl, h2, hc⟩
  | none =>
    cases hg2 : w₂.get? n with
    | none => exact .inl ⟨rfl, rfl⟩
    | some m₂ =>
      obtain ⟨m₁, h1, _⟩ := h.symm.get_some g₂ g₁ hg2
      rw [hg1] at h1; cases h1

theorem World.SameW.refl {w : World} (g : w.Good) : w.SameW w :=
  ⟨Named.refl_on fun e _ => by
      cases hv : e.2.view with
      | none => exact .inl ⟨hv, MapObj.SameC.refl (g.1 e ‹_› hv).1⟩
      | some x => exact .inr ⟨(by rw [hv]; exact fun h => nomatch h), rfl⟩,
    Named.refl_on fun e he => FileObj.SameF.refl (g.2.2 e he).1, rfl, rfl,
    Named.refl HpSame.refl _, rfl⟩

/-! ### storing in related worlds -/

theorem MapObj.SameC.with_view {a b : MapObj} (h : a.SameC b) (v : Option (String × Nat)) :
    ({ a with view := v } : MapObj).SameC { b with view := v } :=
  ⟨h.1, h.2.1, h.2.2.1, h.2.2.2.1, h.2.2.2.2.1, rfl, h.same⟩

theorem World.SameW.bind {w₁ w₂ : World} (h : w₁.SameW w₂) (r : String) {m₁ m₂ : MapObj}
    (hm : m₁.SameC m₂) : (w₁.bind r m₁).SameW (w₂.bind r m₂) :=
  ⟨h.1.insert r (.inl ⟨rfl, hm.with_view none⟩), h.2.1, h.2.2.1, h.2.2.2.1, h.2.2.2.2.1, h.2.2.2.2.2⟩

/-- `World.put` of an owning map (every in-place operation on a map that is not a view) -/
theorem World.SameW.put_owning {w₁ w₂ : World} (h : w₁.SameW w₂) (n : String) {m₁ m₂ : MapObj}
    (hm : m₁.SameC m₂) (hv : m₁.view = none) : (w₁.put n m₁).SameW (w₂.put n m₂) := by
  rw [World.put_eq_bind hv, World.put_eq_bind (by rw [← hm.2.2.2.2.2.1]; exact hv)]
  exact h.bind n hm

theorem World.SameW.files_insert {w₁ w₂ : World} (h : w₁.SameW w₂) (n : String) {f g : FileObj}
    (hf : f.SameF g) :
    ({ w₁ with files := (n, f) :: w₁.files.filter (·.1 != n) } : World).SameW
      { w₂ with files := (n, g) :: w₂.files.filter (·.1 != n) } :=
  ⟨h.1, h.2.1.insert n hf, h.2.2.1, h.2.2.2.1, h.2.2.2.2.1, h.2.2.2.2.2⟩

theorem World.SameW.register {w₁ w₂ : World} (h : w₁.SameW w₂) (r : String) {d : MapObj}
    (hv : d.view ≠ none) :
    ({ w₁ with pool := (r, d) :: w₁.pool.filter (·.1 != r) } : World).SameW
      { w₂ with pool := (r, d) :: w₂.pool.filter (·.1 != r) } :=
  ⟨h.1.insert r (.inr ⟨hv, rfl⟩), h.2.1, h.2.2.1, h.2.2.2.1, h.2.2.2.2.1, h.2.2.2.2.2⟩

theorem World.SameW.drop {w₁ w₂ : World} (h : w₁.SameW w₂) (n : String) :
    ({ w₁ with pool := w₁.pool.filter (·.1 != n) } : World).SameW
      { w₂ with pool := w₂.pool.filter (·.1 != n) } :=
  ⟨h.1.filter (· != n), h.2.1, h.2.2.1, h.2.2.2.1, h.2.2.2.2.1, h.2.2.2.2.2⟩

theorem World.SameW.with_metas {w₁ w₂ : World} (h : w₁.SameW w₂)
    (ms : List (String × List (String × String))) :
    ({ w₁ with metas := ms } : World).SameW { w₂ with metas := ms } :=
  ⟨h.1, h.2.1, h.2.2.1, h.2.2.2.1, h.2.2.2.2.1, rfl⟩

theorem World.SameW.with_metas' {w₁ w₂ : World} (h : w₁.SameW w₂)
    {ms₁ ms₂ : List (String × List (String × String))} (e : ms₁ = ms₂) :
    ({ w₁ with metas := ms₁ } : World).SameW { w₂ with metas := ms₂ } := by
  subst e; exact h.with_metas _

theorem World.SameW.with_mocs {w₁ w₂ : World} (h : w₁.SameW w₂) (ms : List (String × List Nat)) :
    ({ w₁ with mocs := ms } : World).SameW { w₂ with mocs := ms } :=
  ⟨h.1, h.2.1, h.2.2.1, rfl, h.2.2.2.2.1, h.2.2.2.2.2⟩

theorem World.SameW.hpfiles_insert {w₁ w₂ : World} (h : w₁.SameW w₂) (n : String) {f g : HpFile}
    (hf : HpSame f g) :
    ({ w₁ with hpfiles := (n, f) :: w₁.hpfiles.filter (·.1 != n) } : World).SameW
      { w₂ with hpfiles := (n, g) :: w₂.hpfiles.filter (·.1 != n) } :=
  ⟨h.1, h.2.1, h.2.2.1, h.2.2.2.1, h.2.2.2.2.1.insert n hf, h.2.2.2.2.2⟩

theorem World.SameW.hpfile {w₁ w₂ : World} (h : w₁.SameW w₂) (n : String) :
    ((w₁.hpfiles.find? (·.1 == n)).map (·.2) = none ∧ (w₂.hpfiles.find? (·.1 == n)).map (·.2) = none) ∨
    ∃ f g, (w₁.hpfiles.find? (·.1 == n)).map (·.2) = some f ∧
      (w₂.hpfiles.find? (·.1 == n)).map (·.2) = some g ∧ HpSame f g :=
  h.2.2.2.2.1.find n

theorem World.SameW.with_packed {w₁ w₂ : World} (h : w₁.SameW w₂) (pw : PackedWorld) :
    ({ w₁ with packed := pw } : World).SameW { w₂ with packed := pw } :=
  ⟨h.1, h.2.1, rfl, h.2.2.2.1, h.2.2.2.2.1, h.2.2.2.2.2⟩

/-! ### the simulation relation on results -/

/-- the same answer and related worlds -/
def SimR (r₁ r₂ : World × String) : Prop := r₁.2 = r₂.2 ∧ r₁.1.SameW r₂.1

theorem SimR.same {w₁ w₂ : World} (h : w₁.SameW w₂) (s : String) : SimR (w₁, s) (w₂, s) := ⟨rfl, h⟩

/-- two `Except` results: both succeed with related values, or both raise the same error -/
def ExR {α β : Type} (R : α → β → Prop) (x : Except Err α) (y : Except Err β) : Prop :=
  match x, y with
  | .ok a, .ok b => R a b
  | .error e₁, .error e₂ => e₁ = e₂
  | _, _ => False

theorem ExR.cases {α β : Type} {R : α → β → Prop} {x : Except Err α} {y : Except Err β}
    (h : ExR R x y) :
    (∃ a b, x = .ok a ∧ y = .ok b ∧ R a b) ∨ ∃ e, x = .error e ∧ y = .error e := by
  cases x <;> cases y
  · exact .inr ⟨_, rfl, by rw [show _ = _ from h]⟩
  · exact h.elim
  · exact h.elim
  · exact .inl ⟨_, _, rfl, rfl, h⟩

theorem ExR.ok {α β : Type} {R : α → β → Prop} {a : α} {b : β} (h : R a b) :
    ExR R (.ok a) (.ok b) := h

theorem ExR.err {α β : Type} {R : α → β → Prop} (e : Err) :
    ExR R (.error e : Except Err α) (.error e : Except Err β) := rfl

theorem ExR.of_eq {α : Type} (x : Except Err α) : ExR (· = ·) x x := by
  cases x <;> rfl

theorem ExR.mono {α β : Type} {R S : α → β → Prop} {x : Except Err α} {y : Except Err β}
    (h : ExR R x y) (hRS : ∀ a b, R a b → S a b) : ExR S x y := by
  cases x <;> cases y <;> first | exact h | exact hRS _ _ h

/-- the error a computation raises, if any -/
def errOf {α : Type} : Except Err α → Option Err
  | .ok _ => none
  | .error e => some e

/-- comparing two computations: the error first, then the values -/
theorem ExR.of_errOf {α β : Type} {R : α → β → Prop} {x : Except Err α} {y : Except Err β}
    (he : errOf x = errOf y) (hok : ∀ a b, x = .ok a → y = .ok b → R a b) : ExR R x y := by
  cases x <;> cases y
  · cases he; rfl
  · cases he
  · cases he
  · exact hok _ _ rfl rfl

theorem errOf_bind {α β : Type} (x : Except Err α) (f : α → Except Err β) :
    errOf (x >>= f) = match x with
      | .error e => some e
      | .ok a => errOf (f a) := by
  cases x <;> rfl

theorem errOf_of_ExR {α β : Type} {R : α → β → Prop} {x : Except Err α} {y : Except Err β}
    (h : ExR R x y) : errOf x = errOf y := by
  rcases h.cases with ⟨a, b, rfl, rfl, _⟩ | ⟨e, rfl, rfl⟩ <;> rfl

/-- an operation on a looked-up map in related good worlds: it suffices to treat the case where
    both lookups succeed, with content-equal results -/
theorem same_withMap {w₁ w₂ : World} {a : Args} {k₁ k₂ : MapObj → World × String}
    (h : w₁.SameW w₂) (g₁ : w₁.Good) (g₂ : w₂.Good)
    (hk : ∀ n m₁ m₂, a.pos.headD "" = n → w₁.get? n = some m₁ → w₂.get? n = some m₂ →
      m₁.SameC m₂ → m₁.Ok → m₂.Ok → SimR (k₁ m₁) (k₂ m₂)) :
    SimR (withMap w₁ a k₁) (withMap w₂ a k₂) := by
  unfold withMap
  split
  · rename_i n rest hpos
    rcases h.get g₁ g₂ n with ⟨e1, e2⟩ | ⟨m₁, m₂, e1, e2, hc⟩
    · rw [e1, e2]; exact SimR.same h _
    · rw [e1, e2]
      exact hk n m₁ m₂ (by rw [hpos]; rfl) e1 e2 hc (g₁.get e1) (g₂.get e2)
  · exact SimR.same h _

/-! ### what content-equal maps answer to the observers -/

theorem sort_perm_eq {l₁ l₂ : List Int} (h : l₁.Perm l₂) :
    l₁.mergeSort (· ≤ ·) = l₂.mergeSort (· ≤ ·) := by
  apply List.Perm.eq_of_pairwise (le := fun a b => decide (a ≤ b))
  · intro a b _ _ h1 h2
    simp only [decide_eq_true_eq] at h1 h2
    omega
  · exact List.pairwise_mergeSort (fun a b c h1 h2 => by simp only [decide_eq_true_eq] at *; omega)
      (fun a b => by simp only [Bool.or_eq_true, decide_eq_true_eq]; omega) _
  · exact List.pairwise_mergeSort (fun a b c h1 h2 => by simp only [decide_eq_true_eq] at *; omega)
      (fun a b => by simp only [Bool.or_eq_true, decide_eq_true_eq]; omega) _
  · exact (List.mergeSort_perm _ _).trans (h.trans (List.mergeSort_perm _ _).symm)

section obs
variable {a b : MapObj}

theorem MapObj.SameC.obs_vals (h : a.SameC b) :
    (List.range b.npix).map b.abs = (List.range a.npix).map a.abs := by
  rw [h.npix_eq]
  exact List.map_congr_left fun p hp => h.abs_eq (List.mem_range.1 hp)

theorem MapObj.SameC.obs_get (h : a.SameC b) (pix : List Nat) : apiGet b pix = apiGet a pix := by
  unfold apiGet
  rw [h.npix_eq]
  split
  · rfl
  · rename_i hlt
    congr 1
    apply List.map_congr_left
    intro p hp
    apply h.abs_eq
    apply Nat.lt_of_not_le
    intro hge
    exact hlt (List.any_eq_true.2 ⟨p, hp, by simpa using hge⟩)

theorem MapObj.SameC.obs_covmask (h : a.SameC b) : apiCovMask b = apiCovMask a := by
  unfold apiCovMask
  rw [h.c_eq]
  exact List.map_congr_left fun k hk => (h.same.2.2.2 k (List.mem_range.1 hk)).symm

theorem MapObj.SameC.obs_checkBits (h : a.SameC b) (pix bits : List Nat) :
    apiCheckBits b pix bits = apiCheckBits a pix bits := by
  unfold apiCheckBits MapObj.maxbits
  rw [h.obs_get, h.2.2.1]

theorem MapObj.SameC.obs_nvalid (h : a.SameC b) (hv : a.BlankInvalid) :
    nValid b.vc b.st = nValid a.vc a.st := by
  rw [h.vc_eq]; exact (C10.same_queries a.c a.vc a.st b.st h.same hv).2.1.symm

/-- the valid-pixel listings are permutations of each other (storage order), hence equal once
    sorted — which is how the driver prints them -/
theorem MapObj.SameC.obs_valid (h : a.SameC b) (hv : a.BlankInvalid) :
    ∃ l₁ l₂, validPixels a.c a.vc a.st = some l₁ ∧ validPixels b.c b.vc b.st = some l₂ ∧
      l₁.Perm l₂ ∧ l₁.mergeSort (· ≤ ·) = l₂.mergeSort (· ≤ ·) := by
  obtain ⟨l₁, l₂, e1, e2, hp⟩ := (C10.same_queries a.c a.vc a.st b.st h.same hv).1
  exact ⟨l₁, l₂, e1, by rw [h.c_eq, h.vc_eq]; exact e2, hp, sort_perm_eq hp⟩

theorem MapObj.SameC.obs_covmap (h : a.SameC b) (hv : a.BlankInvalid) :
    coverageCounts b.c b.vc b.st = coverageCounts a.c a.vc a.st := by
  rw [h.c_eq, h.vc_eq]
  apply List.ext_getElem?
  intro k
  by_cases hk : k < a.c.ncov
  · exact ((C10.same_queries a.c a.vc a.st b.st h.same hv).2.2.1 k hk).symm
  · have l1 : (coverageCounts a.c a.vc a.st).length = a.c.ncov := by simp [coverageCounts]
    have l2 : (coverageCounts a.c a.vc b.st).length = a.c.ncov := by simp [coverageCounts]
    rw [List.getElem?_eq_none (by omega), List.getElem?_eq_none (by omega)]

theorem MapObj.SameC.obs_vpsc (h : a.SameC b) (hv : a.BlankInvalid) {k : Nat} (hk : k < a.c.ncov) :
    validPixelsSingleCovpix b.c b.vc b.st k = validPixelsSingleCovpix a.c a.vc a.st k := by
  rw [h.c_eq, h.vc_eq]
  exact ((C10.same_queries a.c a.vc a.st b.st h.same hv).2.2.2.1 k hk).symm

end obs

end HS
