import HealSparse.Props.C12
#print axioms HS.C12.scalarOp_spec
#print axioms HS.C12.applyMask_spec
#print axioms HS.C12.applyMask_valid
#print axioms HS.C12.astype_spec
#print axioms HS.C12.astype_valid_preserved
#print axioms HS.C12.asBitPacked_spec
