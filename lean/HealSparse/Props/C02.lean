/-
  C02 — all validity accounting interfaces agree.
  Property theorems only (helpers in HealSparse/Lemmas).
-/
import HealSparse.Lemmas.Core
import HealSparse.Lemmas.Coverage
import HealSparse.Model.Valid
import HealSparse.Model.SubMap
import HealSparse.Props.C04
import HealSparse.Lemmas.Valid
import HealSparse.Lemmas.SubMap
import HealSparse.Lemmas.CacheWorld
namespace HS
namespace C02

variable {V : Type} [DecidableEq V]

/-- The set of valid pixels of the dense view, ascending. -/
def validSet (c : Cfg) (vc : VCfg V) (s : State V) : List Nat :=
  (List.range c.npix).filter fun p => vc.valid (abs c vc s p)

/-- valid children of coverage pixel `k` (offsets within the coverage pixel), ascending -/
def validIn (c : Cfg) (vc : VCfg V) (s : State V) (k : Nat) : List Nat :=
  (List.range c.nfine).filter fun j => vc.valid (abs c vc s (k * c.nfine + j))

/-- `valid_pixels` lists exactly the valid pixels of the dense view (in storage order,
    hence "up to permutation"), never raises, for every block order. -/
theorem validPixels_spec (c : Cfg) (vc : VCfg V) (s : State V) (h : Inv c vc s)
    (hv : vc.valid vc.sentinel = false) :
    ∃ l, validPixels c vc s = some l ∧
      l.Perm ((validSet c vc s).map fun p => ((p : Nat) : Int)) := by
  refine ⟨_, h.validPixels_eq hv, ?_⟩
  apply List.Perm.map
  unfold validSet
  rw [List.perm_ext_iff_of_nodup (h.nodup_validCells_map hv)
    (List.filter_sublist.nodup List.nodup_range)]
  intro p
  rw [h.mem_validCells_map hv p]
  simp

/-- `n_valid` (when computed) is the number of valid pixels. -/
theorem nValid_eq (c : Cfg) (vc : VCfg V) (s : State V) (h : Inv c vc s)
    (hv : vc.valid vc.sentinel = false) :
    nValid vc s = (validSet c vc s).length := by
  obtain ⟨l, hl, hperm⟩ := validPixels_spec c vc s h hv
  rw [h.validPixels_eq hv] at hl
  cases hl
  have := hperm.length_eq
  simpa [nValid] using this

/-- `coverage_map[k] * nfine` is the number of valid pixels inside coverage pixel `k`. -/
theorem coverageCounts_eq (c : Cfg) (vc : VCfg V) (s : State V) (h : Inv c vc s)
    (hv : vc.valid vc.sentinel = false) (k : Nat) (hk : k < c.ncov) :
    (coverageCounts c vc s)[k]? = some (validIn c vc s k).length := by
  unfold coverageCounts
  simp only [List.getElem?_map, List.getElem?_range hk, Option.map_some]
  congr 1
  have hfind := h.find_block hk
  split
  · rename_i b hf
    rw [hf] at hfind
    simp only at hfind
    unfold blockCount validIn
    rw [filter_block c vc s hfind.2]
  · rename_i hf
    rw [hf] at hfind
    simp only at hfind
    unfold validIn
    rw [h.filter_uncovered hv hk hfind]
    rfl

/-- `valid_pixels_single_covpix(k)` lists exactly the valid pixels inside coverage pixel `k`. -/
theorem vpsc_eq (c : Cfg) (vc : VCfg V) (s : State V) (h : Inv c vc s)
    (hv : vc.valid vc.sentinel = false) (k : Nat) (hk : k < c.ncov) :
    validPixelsSingleCovpix c vc s k =
      some ((validIn c vc s k).map fun j => (((k * c.nfine + j : Nat) : Nat) : Int)) := by
  unfold validPixelsSingleCovpix
  cases hc : covered c s k with
  | false =>
    unfold validIn
    rw [h.filter_uncovered hv hk hc]
    rfl
  | true =>
    obtain ⟨b, hb, hbs⟩ := h.covered_blk hk hc
    have hstart : (blockStart c s k).toNat = (b + 1) * c.nfine := by
      rw [hbs]; exact Int.toNat_natCast _
    have hcp : covPixFromIndex c s ((b + 1) * c.nfine) = some k := by
      unfold covPixFromIndex
      simp only
      have : (b + 1) * c.nfine / c.nfine = b + 1 := Nat.mul_div_cancel _ c.nfine_pos
      rw [this, if_neg (by omega)]
      exact h.blockToCov_of_bs hk hb hbs
    simp only [Bool.not_true, Bool.false_eq_true, if_false, hstart, hcp]
    unfold validIn
    rw [filter_block c vc s hbs]
    congr 1
    apply List.map_congr_left
    intro j _
    unfold blockStart at hbs
    omega

/-- The coverage mask contains every coverage pixel that holds a valid pixel. -/
theorem coverageMask_complete (c : Cfg) (vc : VCfg V) (s : State V) (h : Inv c vc s)
    (hv : vc.valid vc.sentinel = false) (p : Nat) (hp : p < c.npix)
    (hval : vc.valid (abs c vc s p) = true) : covered c s (p >>> c.shift) = true := by
  exact h.covered_of_valid hv hp hval

/-- configuration and cell parameters of a fracdet map (`sentinel = 0`) -/
def fracCfg (c : Cfg) (g : Nat) : Cfg := ⟨c.ncov, c.shift - g⟩
def fracVC : VCfg Nat := ⟨0, fun n => n != 0⟩

/-- The fracdet map is a well-formed map. -/
theorem fracdet_inv (c : Cfg) (vc : VCfg V) (s : State V) (h : Inv c vc s)
    (hv : vc.valid vc.sentinel = false) (g : Nat) (hg : g ≤ c.shift) :
    Inv (fracCfg c g) fracVC (fracdetCounts c vc s g) := by
  exact h.fracdet_inv' hv hg

/-- `fracdet_map(n)[q] * 2^g` = number of valid children of coarse pixel `q`
    (valid iff > 0 follows from `fracVC.valid`), for every permitted resolution and
    every block order. -/
theorem fracdet_eq (c : Cfg) (vc : VCfg V) (s : State V) (h : Inv c vc s)
    (hv : vc.valid vc.sentinel = false) (g : Nat) (hg : g ≤ c.shift)
    (q : Nat) (hq : q < (fracCfg c g).npix) :
    abs (fracCfg c g) fracVC (fracdetCounts c vc s g) q =
      ((List.range (2 ^ g)).filter fun j => vc.valid (abs c vc s (q * 2 ^ g + j))).length := by
  exact h.fracdet_eq' hv hg hq

/-- The fracdet map has the source's coverage mask. -/
theorem fracdet_covered (c : Cfg) (vc : VCfg V) (s : State V) (h : Inv c vc s)
    (hv : vc.valid vc.sentinel = false) (g : Nat) (hg : g ≤ c.shift) (k : Nat) (hk : k < c.ncov) :
    covered (fracCfg c g) (fracdetCounts c vc s g) k = covered c s k := by
  have _ := hv
  have _ := hg
  exact h.fracdet_covered' hk

/-- At coverage resolution the fracdet map coincides with the coverage-fraction map. -/
theorem fracdet_cov_eq_coverageCounts (c : Cfg) (vc : VCfg V) (s : State V) (h : Inv c vc s)
    (hv : vc.valid vc.sentinel = false) (k : Nat) (hk : k < c.ncov) :
    (coverageCounts c vc s)[k]? =
      some (abs (fracCfg c c.shift) fracVC (fracdetCounts c vc s c.shift) k) := by
  rw [coverageCounts_eq c vc s h hv k hk]
  have hq : k < (fracCfg c c.shift).npix := by
    simp [fracCfg, Cfg.npix, Cfg.nfine, hk]
  rw [fracdet_eq c vc s h hv c.shift (Nat.le_refl _) k hq]
  rfl

/-! ### the `n_valid` cache -/

/-- an API call as seen by the cache: a query of `n_valid`, or any mutator (all of which
    reset the cache in the model, mirroring `self._n_valid = None`) -/
inductive CacheOp (V : Type) where
  | query
  | mutate (f : State V → State V)

structure Cached (V : Type) where
  st : State V
  cache : Option Nat

def Cached.step (vc : VCfg V) (m : Cached V) : CacheOp V → Cached V × Option Nat
  | .query =>
    match m.cache with
    | some n => (m, some n)
    | none => ({ m with cache := some (nValid vc m.st) }, some (nValid vc m.st))
  | .mutate f => ({ st := f m.st, cache := none }, none)

/-- run a history, collecting (state at query time, answer) for every query -/
def Cached.run (vc : VCfg V) : Cached V → List (CacheOp V) → List (State V × Nat)
  | _, [] => []
  | m, op :: ops =>
    match Cached.step vc m op with
    | (m', some n) => (m'.st, n) :: Cached.run vc m' ops
    | (m', none) => Cached.run vc m' ops

/-- An earlier query never makes a later answer stale: every answer is the count of the
    state at the time of the query, for every interleaving of queries and mutators. -/
theorem cache_coherent (vc : VCfg V) (s : State V) (ops : List (CacheOp V)) :
    ∀ sn ∈ Cached.run vc ⟨s, none⟩ ops, sn.2 = nValid vc sn.1 := by
  suffices H : ∀ (m : Cached V), (m.cache = none ∨ m.cache = some (nValid vc m.st)) →
      ∀ sn ∈ Cached.run vc m ops, sn.2 = nValid vc sn.1 from H ⟨s, none⟩ (Or.inl rfl)
  induction ops with
  | nil => intro m _ sn hsn; cases hsn
  | cons op ops ih =>
    intro m hm sn hsn
    cases op with
    | mutate f =>
      exact ih ⟨f m.st, none⟩ (Or.inl rfl) sn hsn
    | query =>
      rcases hm with hm | hm
      · simp only [Cached.run, Cached.step, hm, List.mem_cons] at hsn
        rcases hsn with rfl | hsn
        · rfl
        · exact ih _ (Or.inr rfl) sn hsn
      · simp only [Cached.run, Cached.step, hm, List.mem_cons] at hsn
        rcases hsn with rfl | hsn
        · rfl
        · exact ih _ (Or.inr hm) sn hsn

/-- `get_single_covpix_map(k)` (the per-coverage-pixel sub-maps of `get_covpix_maps`): a
    well-formed map that is exactly the restriction of the map to coverage pixel `k` — same
    values inside it, the sentinel elsewhere, covered iff the source covers `k` — so the valid
    pixels of the sub-maps partition the valid set. -/
theorem singleCovpix_spec (c : Cfg) (vc : VCfg V) (s : State V) (k : Nat) (h : Inv c vc s) (hk : k < c.ncov) :
    Inv c vc (singleCovpixMap c vc s k) ∧
    (∀ p, p < c.npix → abs c vc (singleCovpixMap c vc s k) p
        = if p >>> c.shift = k then abs c vc s p else vc.sentinel) ∧
    (∀ j, j < c.ncov → covered c (singleCovpixMap c vc s k) j = (decide (j = k) && covered c s k)) := by
  exact singleCovpixMap_spec' c vc s k h hk

/-- non-vacuity: shuffled block order, one valid pixel per block -/
example : validPixels (V := Nat) ⟨3, 1⟩ ⟨0, fun x => x != 0⟩ ⟨#[4, -2, -2], #[0, 0, 7, 0, 0, 9]⟩
    = some [4, 1] := by decide +kernel

/-! ### the `n_valid` cache at the world level: every protocol history

`cache_coherent` above is the abstract argument (a mutator resets, a query fills).  Here it is
proved of the executable driver itself: along ANY history (`runLines`, Model/WellFormed.lean) the
cached count of a stored map is the count of its current storage, for each of the 51 operations
of Model/Dispatch.lean (Lemmas/CacheWorld.lean: `World.CachePool`, `Good2.step`). -/

/-- the cached `n_valid` of every map that owns its storage is never stale -/
theorem reachable_cache_fresh (lines : List String) :
    ∀ e ∈ (runLines lines).pool, e.2.view = none → e.2.CacheFresh :=
  (Good2.runLines lines).2.1

/-- a view descriptor never holds a count (after the `fix:` commit a view does not cache
    `n_valid`: its storage changes whenever its parent is written) -/
theorem reachable_view_cache_empty (lines : List String) :
    ∀ e ∈ (runLines lines).pool, e.2.view ≠ none → e.2.cache = none :=
  (Good2.runLines lines).2.2

/-- whatever a history can look up (views included, resolved against their parents) has a
    fresh cache -/
theorem reachable_get_cache_fresh (lines : List String) (n : String) (m : MapObj)
    (h : (runLines lines).get? n = some m) : m.CacheFresh :=
  (Good2.runLines lines).2.get h

/-- **`n_valid` always answers the number of valid cells**, whatever was queried and mutated
    before: for any name `n` that resolves to `m` (an owning map or a view), the operation
    `nvalid n …` answers `toString (nValid m.vc m.st)` — except the one special case of the
    string path (`path=str`) of a bit-packed map whose count is not cached, which answers
    `nocount` (the `__str__` of a bit-packed map does not compute it) -/
theorem reachable_nvalid (lines : List String) (a : Args) (n : String) (rest : List String)
    (m : MapObj) (ha : a.pos = n :: rest) (h : (runLines lines).get? n = some m) :
    (stepArgs (runLines lines) "nvalid" a).2 =
      if (m.cache.isNone && (a.get? "path" == some "str" && m.kind == .packed)) = true then "nocount"
      else toString (nValid m.vc m.st) := by
  rw [stepArgs_nvalid]
  exact nvalid_answer (Good2.runLines lines).2 ha h

/-- … in particular for the plain query (no `path=str`), and for every map that is not bit-packed -/
theorem reachable_nvalid' (lines : List String) (a : Args) (n : String) (rest : List String)
    (m : MapObj) (ha : a.pos = n :: rest) (h : (runLines lines).get? n = some m)
    (hp : a.get? "path" ≠ some "str" ∨ m.kind ≠ .packed) :
    (stepArgs (runLines lines) "nvalid" a).2 = toString (nValid m.vc m.st) := by
  rw [reachable_nvalid lines a n rest m ha h, if_neg]
  intro hc
  simp only [Bool.and_eq_true, beq_iff_eq] at hc
  rcases hp with hp | hp
  · exact hp hc.2.1
  · exact hp hc.2.2

/-- … and that number is the number of valid pixels of the dense view (`nValid_eq`, with the
    layout and typing facts of `C04.reachable_get_ok`) -/
theorem reachable_nvalid_count (lines : List String) (a : Args) (n : String) (rest : List String)
    (m : MapObj) (ha : a.pos = n :: rest) (h : (runLines lines).get? n = some m)
    (hp : a.get? "path" ≠ some "str" ∨ m.kind ≠ .packed) :
    (stepArgs (runLines lines) "nvalid" a).2 = toString (validSet m.c m.vc m.st).length := by
  obtain ⟨hwf, hk, _⟩ := C04.reachable_get_ok lines n m h
  rw [reachable_nvalid' lines a n rest m ha h hp, nValid_eq m.c m.vc m.st hwf.2 hk.blankInvalid]

/-- non-vacuity: the histories of Lemmas/CacheWorld.lean (an owning map queried, updated and
    queried again; a view queried around a write of its parent) with their evaluated answers -/
example : (∀ e ∈ (runLines exCacheOwning).pool, e.2.view = none → e.2.CacheFresh) ∧
    (∀ m, (runLines exStaleView).get? "v" = some m → m.CacheFresh) :=
  ⟨reachable_cache_fresh _, fun m h => reachable_get_cache_fresh _ _ m h⟩

#guard answers exCacheOwning == ["ok", "ok", "1", "1", "ok", "3"]
#guard answers exStaleView == ["ok", "ok", "ok", "1", "ok", "2", "2"]

end C02
end HS
